//go:build verif

// Correspondence harness for C13 (client wire formats).  Drives the real parser.parse (format detection, TL / JSON /
// MessagePack / Protobuf decoders, handleMetricsBatch) through a recording Handler and prints cases for
// Wire/Corr.v.  The parser runs in a child process under `ulimit -v` with a per-packet timeout, so that a fatal
// runtime error (out of memory) or a hang becomes an observation instead of killing the harness.
package main

import (
	"bufio"
	"encoding/binary"
	"encoding/hex"
	"encoding/json"
	"flag"
	"fmt"
	"hash/crc32"
	"io"
	"math"
	"os"
	"os/exec"
	"reflect"
	"strconv"
	"strings"
	"time"
	"unicode/utf8"

	"github.com/tinylib/msgp/msgp"
	"google.golang.org/protobuf/encoding/protowire"
	"google.golang.org/protobuf/proto"

	"github.com/VKCOM/statshouse/internal/data_model"
	"github.com/VKCOM/statshouse/internal/data_model/gen2/tl"
	"github.com/VKCOM/statshouse/internal/data_model/gen2/tlstatshouse"
	"github.com/VKCOM/statshouse/internal/receiver"
	"github.com/VKCOM/statshouse/internal/receiver/pb"
	vu "github.com/VKCOM/statshouse/internal/verifutil"
)

// ---------- data ----------

// DMetric mirrors tlstatshouse.MetricBytes with doubles as bit patterns.
type DMetric struct {
	Mask    uint32
	Name    []byte
	Tags    [][2][]byte
	Counter uint64
	Ts      uint32
	Value   []uint64
	Unique  []int64
	Hist    [][2]uint64
}

// Metric is what a client means: optional fields.
type Metric struct {
	Name    []byte
	Tags    [][2][]byte
	Counter *uint64
	Ts      *uint32
	Value   *[]uint64
	Unique  *[]int64
	Hist    *[][2]uint64
}

func canon(m Metric) DMetric {
	d := DMetric{Name: m.Name, Tags: m.Tags}
	if m.Counter != nil {
		d.Mask |= 1
		d.Counter = *m.Counter
	}
	if m.Ts != nil {
		d.Mask |= 16
		d.Ts = *m.Ts
	}
	if m.Value != nil {
		d.Mask |= 2
		d.Value = *m.Value
	}
	if m.Unique != nil {
		d.Mask |= 4
		d.Unique = *m.Unique
	}
	if m.Hist != nil {
		d.Mask |= 8
		d.Hist = *m.Hist
	}
	return d
}

func norm(d DMetric) DMetric { // nil and empty slices are the same thing
	if len(d.Name) == 0 {
		d.Name = nil
	}
	if len(d.Tags) == 0 {
		d.Tags = nil
	}
	for i := range d.Tags {
		for j := 0; j < 2; j++ {
			if len(d.Tags[i][j]) == 0 {
				d.Tags[i][j] = nil
			}
		}
	}
	if len(d.Value) == 0 {
		d.Value = nil
	}
	if len(d.Unique) == 0 {
		d.Unique = nil
	}
	if len(d.Hist) == 0 {
		d.Hist = nil
	}
	return d
}

func sameD(a, b []DMetric) bool {
	if len(a) != len(b) {
		return false
	}
	for i := range a {
		if !reflect.DeepEqual(norm(a[i]), norm(b[i])) {
			return false
		}
	}
	return true
}

func view(d DMetric) DMetric { d.Mask = 0; return norm(d) }
func sameView(a, b []DMetric) bool {
	if len(a) != len(b) {
		return false
	}
	for i := range a {
		if !reflect.DeepEqual(view(a[i]), view(b[i])) {
			return false
		}
	}
	return true
}

func fromBytes(m *tlstatshouse.MetricBytes) DMetric {
	d := DMetric{Mask: m.FieldsMask, Name: append([]byte(nil), m.Name...), Counter: math.Float64bits(m.Counter), Ts: m.Ts}
	for _, t := range m.Tags {
		d.Tags = append(d.Tags, [2][]byte{append([]byte(nil), t.Key...), append([]byte(nil), t.Value...)})
	}
	for _, v := range m.Value {
		d.Value = append(d.Value, math.Float64bits(v))
	}
	d.Unique = append(d.Unique, m.Unique...)
	for _, h := range m.Histogram {
		d.Hist = append(d.Hist, [2]uint64{math.Float64bits(h[0]), math.Float64bits(h[1])})
	}
	return d
}

func toBytes(d DMetric) tlstatshouse.MetricBytes {
	m := tlstatshouse.MetricBytes{FieldsMask: d.Mask, Name: d.Name, Counter: math.Float64frombits(d.Counter), Ts: d.Ts, Unique: d.Unique}
	for _, t := range d.Tags {
		m.Tags = append(m.Tags, tl.DictFieldStringStringBytes{Key: t[0], Value: t[1]})
	}
	for _, v := range d.Value {
		m.Value = append(m.Value, math.Float64frombits(v))
	}
	for _, h := range d.Hist {
		m.Histogram = append(m.Histogram, [2]float64{math.Float64frombits(h[0]), math.Float64frombits(h[1])})
	}
	return m
}

// ---------- the child: runs the real parser ----------

type reply struct {
	Acc      string // accounting items touched by parse, e.g. "msgpack+"
	Err      bool   // parse returned an error
	ErrPanic bool   // err.Error() panics
	PerrLen  int    // len(pkt) given to HandleParseError, -1 when not called
	PerrN    int
	Metrics  []DMetric
	Panic    string
	// TCP stream requests
	FrameLens  []int
	FrameSums  []uint32
	FramingErr bool
	Hang       bool
	Fail       string
}

const (
	modeReused   = 0 // the long-lived batch object, poisoned afterwards
	modeFresh    = 1 // a brand-new batch object
	modeNoPoison = 2 // the long-lived object, its decoded content is left in place for the next packet
	modeTCP      = 4 // payload = writes ([len32][bytes])*, through the real stream receiver
)

type recorder struct {
	rep *reply
}

func (r *recorder) HandleMetrics(a data_model.HandlerArgs) {
	r.rep.Metrics = append(r.rep.Metrics, fromBytes(a.MetricBytes))
}
func (r *recorder) HandleParseError(pkt []byte, err error) {
	r.rep.PerrLen = len(pkt)
	r.rep.PerrN++
}

func printable(err error) (ok bool) {
	defer func() {
		if recover() != nil {
			ok = false
		}
	}()
	_ = err.Error()
	return true
}

func worker() {
	in := bufio.NewReader(os.Stdin)
	out := bufio.NewWriter(os.Stdout)
	w := receiver.NewVerifWire()
	for {
		var lb [4]byte
		if _, err := io.ReadFull(in, lb[:]); err != nil {
			return
		}
		req := make([]byte, binary.LittleEndian.Uint32(lb[:]))
		if _, err := io.ReadFull(in, req); err != nil {
			return
		}
		mode, pkt := req[0], req[1:]
		rep := reply{PerrLen: -1}
		if mode == modeTCP {
			var writes [][]byte
			for len(pkt) >= 4 {
				n := int(binary.LittleEndian.Uint32(pkt))
				writes = append(writes, pkt[4:4+n])
				pkt = pkt[4+n:]
			}
			frames, fe, hang, fail := receiver.VerifTCPStream(writes, 6*time.Second)
			for _, f := range frames {
				rep.FrameLens = append(rep.FrameLens, len(f))
				rep.FrameSums = append(rep.FrameSums, crc32.ChecksumIEEE(f))
			}
			rep.FramingErr, rep.Hang, rep.Fail = fe, hang, fail
			b, _ := json.Marshal(rep)
			out.Write(b)
			out.WriteByte('\n')
			out.Flush()
			continue
		}
		func() {
			defer func() {
				if p := recover(); p != nil {
					rep.Panic = fmt.Sprint(p)
					w = receiver.NewVerifWire()
				}
			}()
			ww := w
			if mode == modeFresh {
				ww = receiver.NewVerifWire()
			}
			acc, err := ww.ParseOpt(&recorder{&rep}, pkt, mode != modeNoPoison)
			rep.Acc = acc
			if err != nil {
				rep.Err = true
				rep.ErrPanic = !printable(err)
			}
		}()
		b, _ := json.Marshal(rep)
		out.Write(b)
		out.WriteByte('\n')
		out.Flush()
	}
}

type child struct {
	cmd   *exec.Cmd
	in    io.WriteCloser
	out   *bufio.Reader
	limKB int
}

func (c *child) start() {
	self, _ := os.Executable()
	c.cmd = exec.Command("sh", "-c", fmt.Sprintf("ulimit -v %d; exec \"$0\" -worker", c.limKB), self)
	c.cmd.Stderr = nil
	c.in, _ = c.cmd.StdinPipe()
	o, _ := c.cmd.StdoutPipe()
	c.out = bufio.NewReaderSize(o, 1<<20)
	if err := c.cmd.Start(); err != nil {
		panic(err)
	}
}

func (c *child) stop() {
	if c.cmd != nil {
		c.in.Close()
		_ = c.cmd.Process.Kill()
		_ = c.cmd.Wait()
		c.cmd = nil
	}
}

// run returns the reply, or outcome "crash" / "hang"
func (c *child) run(pkt []byte) (reply, string) { return c.runMode(modeReused, pkt) }

func (c *child) runMode(mode byte, pkt []byte) (reply, string) {
	if c.cmd == nil {
		c.start()
	}
	var lb [4]byte
	binary.LittleEndian.PutUint32(lb[:], uint32(len(pkt)+1))
	c.in.Write(lb[:])
	c.in.Write([]byte{mode})
	c.in.Write(pkt)
	type res struct {
		line []byte
		err  error
	}
	ch := make(chan res, 1)
	go func() {
		l, err := c.out.ReadBytes('\n')
		ch <- res{l, err}
	}()
	select {
	case r := <-ch:
		if r.err != nil {
			c.stop()
			return reply{}, "crash"
		}
		var rep reply
		if err := json.Unmarshal(r.line, &rep); err != nil {
			c.stop()
			return reply{}, "crash"
		}
		return rep, ""
	case <-time.After(20 * time.Second):
		c.stop()
		return reply{}, "hang"
	}
}

// ---------- reference encoders (library primitives composed as Wire/Model.v's encoders) ----------

func encTL(b []Metric) []byte {
	var batch tlstatshouse.AddMetricsBatchBytes
	for _, m := range b {
		batch.Metrics = append(batch.Metrics, toBytes(canon(m)))
	}
	return batch.WriteTL1Boxed(nil)
}

func encMP(b []Metric) []byte {
	w := msgp.AppendMapHeader(nil, 1)
	w = msgp.AppendString(w, "metrics")
	w = msgp.AppendArrayHeader(w, uint32(len(b)))
	for _, m := range b {
		n := uint32(2)
		for _, p := range []bool{m.Counter != nil, m.Ts != nil, m.Value != nil, m.Unique != nil, m.Hist != nil} {
			if p {
				n++
			}
		}
		w = msgp.AppendMapHeader(w, n)
		w = msgp.AppendString(w, "name")
		w = msgp.AppendString(w, string(m.Name))
		w = msgp.AppendString(w, "tags")
		w = msgp.AppendMapHeader(w, uint32(len(m.Tags)))
		for _, t := range m.Tags {
			w = msgp.AppendString(w, string(t[0]))
			w = msgp.AppendString(w, string(t[1]))
		}
		if m.Counter != nil {
			w = msgp.AppendString(w, "counter")
			w = msgp.AppendFloat64(w, math.Float64frombits(*m.Counter))
		}
		if m.Ts != nil {
			w = msgp.AppendString(w, "ts")
			w = msgp.AppendUint32(w, *m.Ts)
		}
		if m.Value != nil {
			w = msgp.AppendString(w, "value")
			w = msgp.AppendArrayHeader(w, uint32(len(*m.Value)))
			for _, v := range *m.Value {
				w = msgp.AppendFloat64(w, math.Float64frombits(v))
			}
		}
		if m.Unique != nil {
			w = msgp.AppendString(w, "unique")
			w = msgp.AppendArrayHeader(w, uint32(len(*m.Unique)))
			for _, v := range *m.Unique {
				w = msgp.AppendInt64(w, v)
			}
		}
		if m.Hist != nil {
			w = msgp.AppendString(w, "histogram")
			w = msgp.AppendArrayHeader(w, uint32(len(*m.Hist)))
			for _, h := range *m.Hist {
				w = msgp.AppendArrayHeader(w, 2)
				w = msgp.AppendFloat64(w, math.Float64frombits(h[0]))
				w = msgp.AppendFloat64(w, math.Float64frombits(h[1]))
			}
		}
	}
	return w
}

func pbLen(w []byte, num protowire.Number, d []byte) []byte {
	w = protowire.AppendTag(w, num, protowire.BytesType)
	return protowire.AppendBytes(w, d)
}

func encPBMetric(m Metric, packed bool) []byte {
	w := pbLen(nil, 1, m.Name)
	for _, t := range m.Tags {
		e := pbLen(nil, 1, t[0])
		e = pbLen(e, 2, t[1])
		w = pbLen(w, 2, e)
	}
	if m.Counter != nil {
		w = protowire.AppendTag(w, 3, protowire.Fixed64Type)
		w = protowire.AppendFixed64(w, *m.Counter)
	}
	if m.Ts != nil {
		w = protowire.AppendTag(w, 4, protowire.VarintType)
		w = protowire.AppendVarint(w, uint64(*m.Ts))
	}
	if m.Value != nil {
		if packed {
			var d []byte
			for _, v := range *m.Value {
				d = protowire.AppendFixed64(d, v)
			}
			w = pbLen(w, 5, d)
		} else {
			for _, v := range *m.Value {
				w = protowire.AppendTag(w, 5, protowire.Fixed64Type)
				w = protowire.AppendFixed64(w, v)
			}
		}
	}
	if m.Unique != nil {
		if packed {
			var d []byte
			for _, v := range *m.Unique {
				d = protowire.AppendVarint(d, uint64(v))
			}
			w = pbLen(w, 6, d)
		} else {
			for _, v := range *m.Unique {
				w = protowire.AppendTag(w, 6, protowire.VarintType)
				w = protowire.AppendVarint(w, uint64(v))
			}
		}
	}
	if m.Hist != nil {
		for _, h := range *m.Hist {
			c := protowire.AppendTag(nil, 1, protowire.Fixed64Type)
			c = protowire.AppendFixed64(c, h[0])
			c = protowire.AppendTag(c, 2, protowire.Fixed64Type)
			c = protowire.AppendFixed64(c, h[1])
			w = pbLen(w, 7, c)
		}
	}
	return w
}

// proto3 as C++/Java/protocute write it: default-valued fields (empty strings, zeros, empty lists) are omitted
func encPBMin(b []Metric) []byte {
	var w []byte
	str := func(w []byte, num protowire.Number, d []byte) []byte {
		if len(d) == 0 {
			return w
		}
		return pbLen(w, num, d)
	}
	f64 := func(w []byte, num protowire.Number, v uint64) []byte {
		if v == 0 {
			return w
		}
		return protowire.AppendFixed64(protowire.AppendTag(w, num, protowire.Fixed64Type), v)
	}
	for _, m := range b {
		x := str(nil, 1, m.Name)
		for _, t := range m.Tags {
			e := str(nil, 1, t[0])
			e = str(e, 2, t[1])
			x = pbLen(x, 2, e)
		}
		if m.Counter != nil {
			x = f64(x, 3, *m.Counter)
		}
		if m.Ts != nil && *m.Ts != 0 {
			x = protowire.AppendVarint(protowire.AppendTag(x, 4, protowire.VarintType), uint64(*m.Ts))
		}
		if m.Value != nil && len(*m.Value) > 0 {
			var d []byte
			for _, v := range *m.Value {
				d = protowire.AppendFixed64(d, v)
			}
			x = pbLen(x, 5, d)
		}
		if m.Unique != nil && len(*m.Unique) > 0 {
			var d []byte
			for _, v := range *m.Unique {
				d = protowire.AppendVarint(d, uint64(v))
			}
			x = pbLen(x, 6, d)
		}
		if m.Hist != nil {
			for _, h := range *m.Hist {
				c := f64(nil, 1, h[0])
				c = f64(c, 2, h[1])
				x = pbLen(x, 7, c)
			}
		}
		w = pbLen(w, 13337, x)
	}
	return w
}

func encPB(b []Metric, packed bool) []byte {
	var w []byte
	for _, m := range b {
		w = pbLen(w, 13337, encPBMetric(m, packed))
	}
	return w
}

// the generated protobuf code (proto3: zero scalars and empty lists are not sent, map order is random)
func encGoPB(b []Metric) ([]byte, bool) {
	batch := &pb.MetricBatch{}
	for _, m := range b {
		if !utf8.Valid(m.Name) {
			return nil, false
		}
		x := &pb.Metric{Name: string(m.Name), Tags: map[string]string{}}
		for _, t := range m.Tags {
			if !utf8.Valid(t[0]) || !utf8.Valid(t[1]) {
				return nil, false
			}
			if _, dup := x.Tags[string(t[0])]; dup {
				return nil, false
			}
			x.Tags[string(t[0])] = string(t[1])
		}
		if m.Counter != nil {
			x.Counter = math.Float64frombits(*m.Counter)
		}
		if m.Ts != nil {
			x.Ts = *m.Ts
		}
		if m.Value != nil {
			for _, v := range *m.Value {
				x.Value = append(x.Value, math.Float64frombits(v))
			}
		}
		if m.Unique != nil {
			x.Unique = *m.Unique
		}
		if m.Hist != nil {
			for _, h := range *m.Hist {
				x.Histogram = append(x.Histogram, &pb.Centroid{Value: math.Float64frombits(h[0]), Count: math.Float64frombits(h[1])})
			}
		}
		batch.Metrics = append(batch.Metrics, x)
	}
	w, err := proto.Marshal(batch)
	return w, err == nil
}

// ---------- JSON trees ----------

type jt struct {
	kind byte // 'n' number text, 's' string, 'a' array, 'o' object, 'x' other
	s    []byte
	arr  []*jt
	keys [][]byte
	raw  bool // keys are already JSON text (written between the quotes as they are)
}

func jNum(t string) *jt { return &jt{kind: 'n', s: []byte(t)} }
func jStr(s []byte) *jt { return &jt{kind: 's', s: s} }

func jsonEsc(w *strings.Builder, s []byte) {
	w.WriteByte('"')
	for _, c := range s {
		if c < 0x20 || c == '"' || c == '\\' || c == 0x7f {
			fmt.Fprintf(w, "\\u%04x", c)
		} else {
			w.WriteByte(c)
		}
	}
	w.WriteByte('"')
}

func (t *jt) render(w *strings.Builder) {
	switch t.kind {
	case 'n':
		w.Write(t.s)
	case 's':
		jsonEsc(w, t.s)
	case 'x':
		w.WriteString("null")
	case 'a':
		w.WriteByte('[')
		for i, e := range t.arr {
			if i > 0 {
				w.WriteByte(',')
			}
			e.render(w)
		}
		w.WriteByte(']')
	case 'o':
		w.WriteByte('{')
		for i, e := range t.arr {
			if i > 0 {
				w.WriteByte(',')
			}
			if t.raw {
				w.WriteString("\"" + string(t.keys[i]) + "\"")
			} else {
				jsonEsc(w, t.keys[i])
			}
			w.WriteByte(':')
			e.render(w)
		}
		w.WriteByte('}')
	}
}

func hx(b []byte) string { return "0x1" + hex.EncodeToString(b) }

// a packet as chunks of at most 200 bytes (very long number literals overflow Coq's stack)
func hxs(b []byte) string {
	var p []string
	for len(b) > 200 {
		p = append(p, hx(b[:200]))
		b = b[200:]
	}
	if len(b) > 0 {
		p = append(p, hx(b))
	}
	return "[" + strings.Join(p, ";") + "]"
}

func (t *jt) term(w *strings.Builder, tab map[string]bool) {
	switch t.kind {
	case 'n':
		w.WriteString("TNum " + hx(t.s))
		tab["n"+string(t.s)] = true
	case 's':
		w.WriteString("TStr " + hx(t.s))
		tab["s"+string(t.s)] = true
	case 'x':
		w.WriteString("TOther")
	case 'a':
		w.WriteString("TArr [")
		for i, e := range t.arr {
			if i > 0 {
				w.WriteString("; ")
			}
			w.WriteString("(")
			e.term(w, tab)
			w.WriteString(")")
		}
		w.WriteString("]")
	case 'o':
		w.WriteString("TObj [")
		for i, e := range t.arr {
			if i > 0 {
				w.WriteString("; ")
			}
			w.WriteString("(" + hx(t.keys[i]) + ", ")
			e.term(w, tab)
			w.WriteString(")")
		}
		w.WriteString("]")
	}
}

func fmtF64(bits uint64) *jt {
	f := math.Float64frombits(bits)
	if math.IsNaN(f) || math.IsInf(f, 0) {
		return jStr([]byte(strconv.FormatFloat(f, 'g', -1, 64))) // "NaN", "+Inf", "-Inf" as JSON strings
	}
	return jNum(strconv.FormatFloat(f, 'g', -1, 64))
}

func obj(kv ...any) *jt {
	t := &jt{kind: 'o'}
	for i := 0; i+1 < len(kv); i += 2 {
		t.keys = append(t.keys, []byte(kv[i].(string)))
		t.arr = append(t.arr, kv[i+1].(*jt))
	}
	return t
}

func jsonTree(b []Metric) *jt {
	ms := &jt{kind: 'a'}
	for _, m := range b {
		tags := &jt{kind: 'o'}
		for _, t := range m.Tags {
			tags.keys = append(tags.keys, t[0])
			tags.arr = append(tags.arr, jStr(t[1]))
		}
		o := obj("name", jStr(m.Name), "tags", tags)
		add := func(k string, v *jt) { o.keys = append(o.keys, []byte(k)); o.arr = append(o.arr, v) }
		if m.Counter != nil {
			add("counter", fmtF64(*m.Counter))
		}
		if m.Ts != nil {
			add("ts", jNum(strconv.FormatUint(uint64(*m.Ts), 10)))
		}
		if m.Value != nil {
			a := &jt{kind: 'a'}
			for _, v := range *m.Value {
				a.arr = append(a.arr, fmtF64(v))
			}
			add("value", a)
		}
		if m.Unique != nil {
			a := &jt{kind: 'a'}
			for _, v := range *m.Unique {
				a.arr = append(a.arr, jNum(strconv.FormatInt(v, 10)))
			}
			add("unique", a)
		}
		if m.Hist != nil {
			a := &jt{kind: 'a'}
			for _, h := range *m.Hist {
				a.arr = append(a.arr, &jt{kind: 'a', arr: []*jt{fmtF64(h[0]), fmtF64(h[1])}})
			}
			add("histogram", a)
		}
		ms.arr = append(ms.arr, o)
	}
	return obj("metrics", ms)
}

// strconv's verdicts on every number / string text of the tree
func numTab(tab map[string]bool) string {
	var parts []string
	keys := make([]string, 0, len(tab))
	for k := range tab {
		keys = append(keys, k)
	}
	sortStrings(keys)
	for _, k := range keys {
		quoted := k[0] == 's'
		t := k[1:]
		if len(t) > 40 {
			continue
		}
		opt := func(ok bool, z string) string {
			if !ok {
				return "None"
			}
			return "(Some " + z + ")"
		}
		f, err := strconv.ParseFloat(t, 64)
		if !quoted && (strings.ContainsAny(t, "xXpP_iInN") || t == "") { // not JSON number tokens
			err = fmt.Errorf("x")
		}
		if err == nil {
			parts = append(parts, fmt.Sprintf("(0, %s, %s, %s)", vu.B(quoted), hx([]byte(t)), opt(true, vu.ZU(math.Float64bits(f)))))
		}
		if u, err := strconv.ParseUint(t, 10, 32); err == nil {
			parts = append(parts, fmt.Sprintf("(1, %s, %s, %s)", vu.B(quoted), hx([]byte(t)), opt(true, vu.ZU(u))))
		}
		if i, err := strconv.ParseInt(t, 10, 64); err == nil {
			parts = append(parts, fmt.Sprintf("(2, %s, %s, %s)", vu.B(quoted), hx([]byte(t)), opt(true, vu.Z(i))))
		}
	}
	return "[" + strings.Join(parts, "; ") + "]"
}

func sortStrings(a []string) {
	for i := 1; i < len(a); i++ {
		for j := i; j > 0 && a[j] < a[j-1]; j-- {
			a[j], a[j-1] = a[j-1], a[j]
		}
	}
}

// ---------- Coq terms ----------

func zs(xs []uint64) string {
	p := make([]string, len(xs))
	for i, x := range xs {
		p[i] = vu.ZU(x)
	}
	return "[" + strings.Join(p, ";") + "]"
}
func is(xs []int64) string {
	p := make([]string, len(xs))
	for i, x := range xs {
		p[i] = vu.Z(x)
	}
	return "[" + strings.Join(p, ";") + "]"
}
func hs(xs [][2]uint64) string {
	p := make([]string, len(xs))
	for i, x := range xs {
		p[i] = fmt.Sprintf("(%d,%d)", x[0], x[1])
	}
	return "[" + strings.Join(p, ";") + "]"
}
func tagsTerm(ts [][2][]byte) string {
	p := make([]string, len(ts))
	for i, t := range ts {
		p[i] = "(" + hx(t[0]) + "," + hx(t[1]) + ")"
	}
	return "[" + strings.Join(p, ";") + "]"
}
func dTerm(d DMetric) string {
	return fmt.Sprintf("D %d %s %s %d %d %s %s %s", d.Mask, hx(d.Name), tagsTerm(d.Tags), d.Counter, d.Ts, zs(d.Value), is(d.Unique), hs(d.Hist))
}
func dsTerm(ds []DMetric) string {
	p := make([]string, len(ds))
	for i, d := range ds {
		p[i] = dTerm(d)
	}
	return "[" + strings.Join(p, "; ") + "]"
}
func some(present bool, s string) string {
	if !present {
		return "None"
	}
	return "(Some " + s + ")"
}
func mTerm(m Metric) string {
	c, t, v, u, h := "None", "None", "None", "None", "None"
	if m.Counter != nil {
		c = some(true, vu.ZU(*m.Counter))
	}
	if m.Ts != nil {
		t = some(true, vu.ZU(uint64(*m.Ts)))
	}
	if m.Value != nil {
		v = some(true, zs(*m.Value))
	}
	if m.Unique != nil {
		u = some(true, is(*m.Unique))
	}
	if m.Hist != nil {
		h = some(true, hs(*m.Hist))
	}
	return fmt.Sprintf("M %s %s %s %s %s %s %s", hx(m.Name), tagsTerm(m.Tags), c, t, v, u, h)
}
func msTerm(b []Metric) string {
	p := make([]string, len(b))
	for i, m := range b {
		p[i] = mTerm(m)
	}
	return "[" + strings.Join(p, "; ") + "]"
}

// ---------- observation -> model vocabulary ----------

func fmtOfAcc(acc string) string {
	switch strings.TrimRight(acc, "+-") {
	case "tl":
		return "FTL"
	case "json":
		return "FJSON"
	case "msgpack":
		return "FMsgpack"
	case "protobuf":
		return "FProtobuf"
	case "legacy":
		return "FLegacy"
	case "empty":
		return "FEmpty"
	}
	return "FUnknown_" + acc
}

// the documented detection: an independent reading of the comment block of receiver.go
func documentedFormat(p []byte) string {
	switch {
	case len(p) == 0:
		return "FEmpty"
	case len(p) >= 4 && p[0] == 0x39 && p[1] == 0x02 && p[2] == 0x58 && p[3] == 0x56:
		return "FTL"
	case p[0] == '{':
		return "FJSON"
	case len(p) >= 2 && p[0] == 'S' && p[1] == 'H':
		return "FLegacy"
	case p[0]&0xF0 == 0x80 || (p[0] == 0xDE && len(p) >= 3) || (p[0] == 0xDF && len(p) >= 5):
		return "FMsgpack"
	}
	return "FProtobuf"
}

func endTerm(rep reply, fate string) string {
	switch {
	case fate == "crash":
		return "ECrash"
	case fate == "hang":
		return "ENoFuel"
	case !rep.Err:
		return "EDone"
	case rep.PerrLen >= 0:
		return fmt.Sprintf("(EParseError %d)", rep.PerrLen)
	}
	return "ESilent"
}

// ---------- generators ----------

type gen struct{ r *vu.Rng }

// tag keys of JSON-safe batches need no escaping (the generated reader does not unescape dictionary keys: F-C13e)
func (g gen) key(jsonSafe bool) []byte {
	k := g.str(jsonSafe)
	if jsonSafe {
		for i, c := range k {
			if c == '"' || c == '\\' || c < 0x20 {
				k[i] = 'k'
			}
		}
	}
	return k
}

func (g gen) str(jsonSafe bool) []byte {
	var n int
	switch g.r.Intn(12) {
	case 0:
		n = 0
	case 1:
		n = int(g.r.Pick(31, 32, 33))
	case 2:
		n = 1 + g.r.Intn(6)
		if g.r.Chance(12) {
			n = int(g.r.Pick(252, 253, 254, 255, 256, 257))
		}
	default:
		n = 1 + g.r.Intn(8)
	}
	b := make([]byte, n)
	for i := range b {
		if jsonSafe {
			b[i] = "abcxyz_09-:. \"\\\n/"[g.r.Intn(17)]
		} else {
			b[i] = byte(g.r.U32())
		}
	}
	return b
}

func (g gen) f64(jsonSafe bool) uint64 {
	switch g.r.Intn(8) {
	case 0:
		return math.Float64bits(float64(g.r.Intn(1000)))
	case 1:
		return uint64(g.r.Pick(0, math.MinInt64, 0x7FF0000000000000, -0x10000000000000, 1, 0x000FFFFFFFFFFFFF, 0x7FEFFFFFFFFFFFFF, 0x7FF8000000000001))
	case 2:
		if !jsonSafe {
			return g.r.U64() | 0x7FF0000000000000 // NaN payloads / infinities
		}
	}
	x := g.r.U64()
	if x>>52&0x7FF == 0x7FF {
		x &^= 1 << 62
	}
	return x
}

func (g gen) i64() int64 {
	switch g.r.Intn(4) {
	case 0:
		return g.r.Pick(0, -1, 127, 128, -32, -33, -128, -129, 255, 256, 32767, 32768, -32768, -32769, 65535, 65536,
			math.MaxInt32, math.MaxInt32+1, math.MinInt32, math.MinInt32-1, math.MaxUint32, math.MaxUint32+1, math.MaxInt64, math.MinInt64)
	case 1:
		return int64(g.r.Intn(300)) - 150
	}
	return int64(g.r.U64()) >> uint(g.r.Intn(64))
}

func (g gen) count() int {
	switch g.r.Intn(10) {
	case 0:
		return 0
	case 1:
		if g.r.Chance(40) {
			return int(g.r.Pick(15, 16, 17))
		}
	}
	return 1 + g.r.Intn(3)
}

func (g gen) metric(jsonSafe bool) Metric {
	m := Metric{Name: g.str(jsonSafe)}
	nt := g.count()
	seen := map[string]bool{}
	for i := 0; i < nt; i++ {
		k := g.key(jsonSafe)
		if jsonSafe { // JSON objects and protobuf maps keep one value per key
			if seen[string(k)] {
				continue
			}
			seen[string(k)] = true
		}
		m.Tags = append(m.Tags, [2][]byte{k, g.str(jsonSafe)})
	}
	if g.r.Chance(60) {
		c := g.f64(jsonSafe)
		m.Counter = &c
	}
	if g.r.Chance(40) {
		t := uint32(g.r.Pick(0, 1, 127, 128, 255, 256, 65535, 65536, math.MaxUint32, math.MaxUint32-1, int64(g.r.U32())))
		m.Ts = &t
	}
	if g.r.Chance(50) {
		v := make([]uint64, g.count())
		for i := range v {
			v[i] = g.f64(jsonSafe)
		}
		m.Value = &v
	}
	if g.r.Chance(40) {
		v := make([]int64, g.count())
		for i := range v {
			v[i] = g.i64()
		}
		m.Unique = &v
	}
	if g.r.Chance(30) {
		v := make([][2]uint64, g.count())
		for i := range v {
			v[i] = [2]uint64{g.f64(jsonSafe), g.f64(jsonSafe)}
		}
		m.Hist = &v
	}
	return m
}

func (g gen) batch(jsonSafe bool) []Metric {
	n := 1 + g.r.Intn(3)
	if g.r.Chance(5) {
		n = int(g.r.Pick(0, 15, 16, 17))
	}
	b := make([]Metric, n)
	for i := range b {
		b[i] = g.metric(jsonSafe)
		if n > 4 { // keep big batches small in bytes
			b[i].Tags = nil
			b[i].Name = b[i].Name[:len(b[i].Name)%8]
		}
	}
	return b
}

func be32(x uint32) []byte { return []byte{byte(x >> 24), byte(x >> 16), byte(x >> 8), byte(x)} }

// hostile collection length: small enough to be allocated at once, or far beyond the address space limit
func (g gen) hostileCount() uint32 {
	if g.r.Chance(50) {
		return uint32(1000 + g.r.Intn(60000))
	}
	return uint32(1)<<30 + g.r.U32()>>2 | uint32(g.r.Intn(2))<<31
}

func (g gen) malform(p []byte) []byte {
	q := append([]byte(nil), p...)
	switch g.r.Intn(7) {
	case 0: // truncation
		if len(q) > 0 {
			q = q[:g.r.Intn(len(q))]
		}
	case 1, 2: // bit flips
		for k := 0; k <= g.r.Intn(3) && len(q) > 0; k++ {
			q[g.r.Intn(len(q))] ^= 1 << uint(g.r.Intn(8))
		}
	case 3: // byte replaced by a length/format marker
		if len(q) > 0 {
			q[g.r.Intn(len(q))] = byte(g.r.Pick(0xdc, 0xdd, 0xde, 0xdf, 0xff, 0x80, 0x00, 0xc1, 0x0b, 0x0c, 0xfe, 0xdb, 0xc6))
		}
	case 4: // hostile 32-bit count spliced in
		if len(q) > 0 {
			i := g.r.Intn(len(q))
			c := be32(g.hostileCount())
			lead := byte(g.r.Pick(0xdd, 0xdf, 0xdb))
			q = append(append(append([]byte(nil), q[:i]...), append([]byte{lead}, c...)...), q[i+1:]...)
		}
	case 5: // garbage appended (a second "batch")
		for k := 0; k <= g.r.Intn(6); k++ {
			q = append(q, byte(g.r.U32()))
		}
	case 6: // two packets glued
		q = append(q, p...)
	}
	return q
}

// hand-written hostile MessagePack headers
func (g gen) hostileMP() []byte {
	c := g.hostileCount()
	w := msgp.AppendMapHeader(nil, 1)
	w = msgp.AppendString(w, "metrics")
	if g.r.Chance(30) {
		return append(append(w, 0xdd), be32(c)...)
	}
	w = msgp.AppendArrayHeader(w, 1)
	w = msgp.AppendMapHeader(w, 1)
	key := []string{"tags", "value", "unique", "histogram"}[g.r.Intn(4)]
	w = msgp.AppendString(w, key)
	if key == "tags" {
		w = append(w, 0xdf)
	} else {
		w = append(w, 0xdd)
	}
	w = append(w, be32(c)...)
	for k := 0; k < g.r.Intn(4); k++ {
		w = append(w, byte(g.r.Pick(0, 0xa0, 0xcb, 0x92)))
	}
	return w
}

// ---------- TCP framing through the real stream receiver ----------

type tframe struct {
	hdr  uint32 // length announced
	body int    // bytes actually sent after the header (== hdr unless truncated / illegal)
	fill byte
	hcut int // < 4: only that many header bytes are sent (stream ends there)
}

func (x *ctx) tcpCase(name string, fs []tframe, split int, r *vu.Rng) {
	var stream []byte
	var pieces []string
	var wantLens []int
	var wantSums []uint32
	wantErr, open := false, true
	var bounds []int
	for _, f := range fs {
		var h [4]byte
		binary.LittleEndian.PutUint32(h[:], f.hdr)
		hb := h[:]
		if f.hcut < 4 {
			hb = h[:f.hcut]
		}
		stream = append(stream, hb...)
		if len(hb) > 0 {
			pieces = append(pieces, "PB "+hx(hb))
		}
		body := make([]byte, f.body)
		for i := range body {
			body[i] = f.fill
		}
		stream = append(stream, body...)
		if f.body > 0 {
			pieces = append(pieces, fmt.Sprintf("PF %d %d", f.body, f.fill))
		}
		bounds = append(bounds, len(stream))
		// independent expectation: frames are delivered in order until an illegal or incomplete one
		if open {
			switch {
			case f.hcut < 4:
				open = false
			case f.hdr > 65535:
				open, wantErr = false, true
			case f.body < int(f.hdr):
				open = false
			default:
				wantLens = append(wantLens, f.body)
				wantSums = append(wantSums, crc32.ChecksumIEEE(body))
			}
		}
	}
	// how the client writes the stream
	var writes [][]byte
	switch split {
	case 0:
		writes = [][]byte{stream}
	case 1: // one write per frame
		prev := 0
		for _, b := range bounds {
			writes = append(writes, stream[prev:b])
			prev = b
		}
	default: // random cuts, headers included
		prev := 0
		for prev < len(stream) {
			n := 1 + r.Intn(7)
			if r.Chance(40) {
				n = 1 + r.Intn(70000)
			}
			if prev+n > len(stream) {
				n = len(stream) - prev
			}
			writes = append(writes, stream[prev:prev+n])
			prev += n
		}
	}
	var req []byte
	for _, w := range writes {
		req = binary.LittleEndian.AppendUint32(req, uint32(len(w)))
		req = append(req, w...)
	}
	rep, fate := x.c.runMode(modeTCP, req)
	for try := 0; try < 3 && fate == "" && rep.Fail != ""; try++ { // listen/dial failed (loaded machine): not an observation
		time.Sleep(500 * time.Millisecond)
		rep, fate = x.c.runMode(modeTCP, req)
	}
	var desc []string
	for _, f := range fs {
		desc = append(desc, fmt.Sprintf("%d/%d/%d", f.hdr, f.body, f.hcut))
	}
	input := fmt.Sprintf("tcp %s frames(hdr/sent/hdrbytes)=%s split=%d writes=%d", name, strings.Join(desc, ","), split, len(writes))
	lens := make([]int64, len(rep.FrameLens))
	for i, l := range rep.FrameLens {
		lens[i] = int64(l)
	}
	term := fmt.Sprintf("CFrames [%s] %s %s", strings.Join(pieces, "; "), vu.ListZ(lens), vu.B(rep.FramingErr))
	line := x.o.Case(input, term, true, "tcp")
	switch {
	case fate != "" || rep.Hang:
		x.o.Fail("tcp_frame_delivered_or_rejected_no_hang", line, input+" "+fate)
		x.c.stop() // a stuck connection goroutine keeps spinning in that child
	case rep.Fail != "":
		panic("tcp harness: " + rep.Fail)
	default:
		if !reflect.DeepEqual(rep.FrameLens, wantLens) && !(len(rep.FrameLens) == 0 && len(wantLens) == 0) ||
			!reflect.DeepEqual(rep.FrameSums, wantSums) && !(len(rep.FrameSums) == 0 && len(wantSums) == 0) || rep.FramingErr != wantErr {
			x.o.Fail("tcp_frames_as_sent", line, fmt.Sprintf("%s got=%v err=%v want=%v err=%v", input, rep.FrameLens, rep.FramingErr, wantLens, wantErr))
		}
	}
}

func (x *ctx) tcpCases(r *vu.Rng) {
	full := func(n int, fill byte) tframe { return tframe{hdr: uint32(n), body: n, fill: fill, hcut: 4} }
	k := 0
	run := func(name string, fs ...tframe) {
		x.tcpCase(name, fs, k%3, r)
		k++
	}
	run("empty-frame", full(0, 1))
	run("small", full(1, 1), full(0, 2), full(2, 3))
	for _, n := range []int{65531, 65532, 65533, 65534, 65535} {
		run("max-boundary", full(n, 7), full(5, 8))
	}
	run("two-max", full(65535, 1), full(65535, 2), full(1, 3))
	run("illegal-65536", full(3, 1), tframe{hdr: 65536, body: 20, fill: 2, hcut: 4}, full(4, 3))
	run("illegal-max", full(7, 1), tframe{hdr: 0xffffffff, body: 0, hcut: 4})
	run("truncated-body", full(10, 1), tframe{hdr: 100, body: 50, fill: 2, hcut: 4})
	run("truncated-header", full(10, 1), tframe{hdr: 9, body: 0, hcut: 2})
	run("max-then-truncated", full(65535, 4), tframe{hdr: 65535, body: 65534, fill: 5, hcut: 4})
	for j := 0; j < 3; j++ {
		var fs []tframe
		for q := 0; q < 2+r.Intn(4); q++ {
			fs = append(fs, full(int(r.Pick(0, 1, 4, 100, 1000, 65531, 65532, 65533, 65534, 65535, int64(r.Intn(65536)))), byte(q+1)))
		}
		if r.Chance(30) {
			fs = append(fs, tframe{hdr: uint32(65536 + r.Intn(10)), body: r.Intn(10), fill: 9, hcut: 4})
		}
		run("random", fs...)
	}
}

// ---------- main ----------

const limitKB = 3000000 // ulimit -v of the child
const modelLimit = int64(1) << 31

type ctx struct {
	o    *vu.Out
	c    *child
	rich []byte
}

func short(p []byte) string {
	h := hex.EncodeToString(p)
	if len(h) > 200 {
		return fmt.Sprintf("%s… len=%d", h[:200], len(p))
	}
	return h
}

// generic oracles on one parse of arbitrary bytes
func (x *ctx) oracles(line int, input string, pkt []byte, rep reply, fate string) {
	df := documentedFormat(pkt)
	switch {
	case fate == "crash":
		if df == "FMsgpack" {
			x.o.Fail("no_crash_msgpack_count", line, input)
		} else {
			x.o.Fail("no_crash", line, input)
		}
		return
	case fate == "hang":
		x.o.Fail("no_hang", line, input)
		return
	case rep.Panic != "":
		x.o.Fail("no_panic", line, input+" panic="+rep.Panic)
		return
	}
	if f := fmtOfAcc(rep.Acc); f != df {
		x.o.Fail("detected_as_documented", line, input+" got="+rep.Acc+" want="+df)
	}
	if rep.Err && rep.PerrLen < 0 && len(pkt) > 0 {
		if df == "FProtobuf" {
			x.o.Fail("pb_error_reported", line, input)
		} else {
			x.o.Fail("error_reported", line, input)
		}
	}
	if rep.Err && len(rep.Metrics) > 0 && df != "FTL" && df != "FMsgpack" {
		x.o.Fail("metrics_xor_error", line, input)
	}
	if rep.ErrPanic {
		if df == "FMsgpack" {
			x.o.Fail("msgpack_error_printable", line, input)
		} else {
			x.o.Fail("error_printable", line, input)
		}
	}
	if rep.PerrN > 1 {
		x.o.Fail("one_parse_error", line, input)
	}
}

// richPacket: a TL batch whose decoding leaves REAL content in every slot of the reused batch object: 4 metrics with
// 18 tags (long keys and values), counter, ts, 18 values, uniques and centroids each.
func richPacket() []byte {
	var b []Metric
	for i := 0; i < 4; i++ {
		m := Metric{Name: []byte(fmt.Sprintf("previous_metric_name_%d_%s", i, strings.Repeat("n", 40)))}
		for k := 0; k < 18; k++ {
			m.Tags = append(m.Tags, [2][]byte{[]byte(fmt.Sprintf("previous_key_%02d_%s", k, strings.Repeat("k", 30))), []byte("production_" + strings.Repeat("v", 40))})
		}
		c, t := math.Float64bits(4242.5), uint32(1234567890)
		m.Counter, m.Ts = &c, &t
		v, u, h := make([]uint64, 18), make([]int64, 18), make([][2]uint64, 18)
		for k := range v {
			v[k], u[k], h[k] = math.Float64bits(1000+float64(k)), int64(-7000-k), [2]uint64{math.Float64bits(55.5), math.Float64bits(66.5)}
		}
		m.Value, m.Unique, m.Hist = &v, &u, &h
		b = append(b, m)
	}
	return encTL(b)
}

// parse decodes pkt through the long-lived (reused) batch object — after a rich packet when rich is set — and through
// a fresh one; diff describes how the two differ ("" when they agree).
func (x *ctx) parse(pkt []byte, rich bool) (reply, string, string) {
	if rich {
		if x.rich == nil {
			x.rich = richPacket()
		}
		x.c.runMode(modeNoPoison, x.rich)
	}
	rep, fate := x.c.run(pkt)
	if fate != "" {
		return rep, fate, ""
	}
	fr, ffate := x.c.runMode(modeFresh, pkt)
	if ffate != "" {
		return rep, fate, " fresh-object run: " + ffate
	}
	if fr.Err != rep.Err || fr.PerrLen != rep.PerrLen || fr.Acc != rep.Acc || !sameD(fr.Metrics, rep.Metrics) {
		return rep, fate, fmt.Sprintf(" reused=%s fresh=%s", dsTerm(rep.Metrics), dsTerm(fr.Metrics))
	}
	return rep, fate, ""
}

func (x *ctx) reuseOracle(line int, input, diff string) {
	if diff != "" {
		if len(diff) > 400 {
			diff = diff[:400] + "…"
		}
		x.o.Fail("decode_into_reused_batch_equals_fresh", line, input+diff)
	}
}

func (x *ctx) pktCase(kind string, pkt []byte, nontrivial bool) (reply, string) {
	rep, fate, diff := x.parse(pkt, strings.HasPrefix(kind, "pbmin") || strings.HasPrefix(kind, "gopb") || strings.HasPrefix(kind, "multi"))
	input := kind + " " + short(pkt)
	f := fmtOfAcc(rep.Acc)
	if fate != "" {
		f = documentedFormat(pkt)
	}
	term := fmt.Sprintf("CPkt %d %s %s %s %s", modelLimit, hxs(pkt), f, dsTerm(rep.Metrics), endTerm(rep, fate))
	line := x.o.Case(input, term, nontrivial, kind, "end/"+strings.Fields(strings.Trim(endTerm(rep, fate), "()"))[0], "fmt/"+f)
	x.oracles(line, input, pkt, rep, fate)
	x.reuseOracle(line, input, diff)
	return rep, fate
}

func (x *ctx) encCase(f string, b []Metric, pkt []byte, want []DMetric, wantFmt string, failName string) []DMetric {
	rep, fate, diff := x.parse(pkt, true)
	input := fmt.Sprintf("enc %s %s", f, short(pkt))
	ref := make([]DMetric, len(b))
	for i := range b {
		ref[i] = canon(b[i])
	}
	obs := "OCanon" // relative to canon(b), which Corr.v computes itself
	if !sameD(rep.Metrics, ref) {
		obs = "(OList " + dsTerm(rep.Metrics) + ")"
	}
	of := fmtOfAcc(rep.Acc)
	if fate != "" {
		of = documentedFormat(pkt)
	}
	term := fmt.Sprintf("CEnc %s %s %s %s %s %s", f, msTerm(b), hxs(pkt), of, obs, endTerm(rep, fate))
	line := x.o.Case(input, term, len(b) > 0, "enc/"+strings.Fields(strings.Trim(f, "()"))[0])
	x.oracles(line, input, pkt, rep, fate)
	x.reuseOracle(line, input, diff)
	if fate == "" && rep.Panic == "" {
		if rep.Err || !sameD(rep.Metrics, want) {
			x.o.Fail(failName, line, input)
		}
		if of != wantFmt {
			x.o.Fail("format_of_encoding", line, input+" got="+of)
		}
	}
	return rep.Metrics
}

func (x *ctx) jsonCase(kind string, t *jt, b []Metric, nontrivial bool) (reply, bool) {
	var sb strings.Builder
	t.render(&sb)
	pkt := []byte(sb.String())
	rep, fate, diff := x.parse(pkt, true)
	input := kind + " " + sb.String()
	if len(input) > 280 {
		input = input[:280] + "…"
	}
	tab := map[string]bool{}
	var tt strings.Builder
	t.term(&tt, tab)
	obs := "(OList " + dsTerm(rep.Metrics) + ")"
	bt := "None"
	if b != nil {
		bt = "(Some " + msTerm(b) + ")"
		want := make([]DMetric, len(b))
		for i := range b {
			want[i] = canon(b[i])
		}
		if sameD(rep.Metrics, want) {
			obs = "OCanon"
		}
	}
	term := fmt.Sprintf("CJson %s %d (%s) %s %s %s", numTab(tab), pkt[0], tt.String(), bt, obs, vu.B(rep.Err))
	line := x.o.Case(input, term, nontrivial, kind)
	x.oracles(line, input, pkt, rep, fate)
	x.reuseOracle(line, input, diff)
	return rep, fate == ""
}

// semantic mutations of a JSON tree (the model works on trees)
func (g gen) mutateJSON(t *jt) {
	ms := t.arr[0]
	if len(ms.arr) == 0 {
		t.keys[0] = []byte("metric")
		return
	}
	m := ms.arr[g.r.Intn(len(ms.arr))]
	switch g.r.Intn(8) {
	case 0: // duplicate key
		i := g.r.Intn(len(m.keys))
		m.keys = append(m.keys, m.keys[i])
		m.arr = append(m.arr, m.arr[i])
	case 1: // unknown key
		m.keys = append(m.keys, []byte("nam"))
		m.arr = append(m.arr, jStr([]byte("x")))
	case 2: // ts out of range / negative / fractional
		m.keys = append(m.keys, []byte("ts"))
		m.arr = append(m.arr, jNum([]string{"4294967296", "-1", "1.5", "4294967295", "1e3"}[g.r.Intn(5)]))
	case 3: // quoted numbers
		m.keys = append(m.keys, []byte("counter"))
		m.arr = append(m.arr, jStr([]byte([]string{"1.5", "NaN", "abc", "", "0x10", "Inf"}[g.r.Intn(6)])))
	case 4: // histogram arity
		a := &jt{kind: 'a'}
		for k := 0; k < int(g.r.Pick(0, 1, 3)); k++ {
			a.arr = append(a.arr, jNum("1"))
		}
		m.keys = append(m.keys, []byte("histogram"))
		m.arr = append(m.arr, &jt{kind: 'a', arr: []*jt{a}})
	case 5: // explicit fields_mask
		m.keys = append([][]byte{[]byte("fields_mask")}, m.keys...)
		m.arr = append([]*jt{jNum(strconv.Itoa(g.r.Intn(64)))}, m.arr...)
	case 6: // wrong type
		i := g.r.Intn(len(m.keys))
		m.arr[i] = &jt{kind: 'x'}
	case 7: // unique out of int64
		m.keys = append(m.keys, []byte("unique"))
		m.arr = append(m.arr, &jt{kind: 'a', arr: []*jt{jNum([]string{"9223372036854775808", "-9223372036854775809", "1.0", "7"}[g.r.Intn(4)])}})
	}
}

func (x *ctx) findings() {
	// F-C13a: one 14-byte MessagePack packet announces 2^32-1 metrics
	w := msgp.AppendMapHeader(nil, 1)
	w = msgp.AppendString(w, "metrics")
	w = append(w, 0xdd, 0xff, 0xff, 0xff, 0xff)
	_, fate := x.pktCase("finding/F-C13a", w, true)
	x.o.Finding("F-C13a", map[bool]string{true: "reproduced", false: "gone"}[fate == "crash"])
	// F-C13b: a protobuf batch whose last metric is bad (ts = 2^32) is dropped without HandleParseError
	m := protowire.AppendTag(nil, 4, protowire.VarintType)
	m = protowire.AppendVarint(m, 1<<32)
	rep, _ := x.pktCase("finding/F-C13b", pbLen(nil, 13337, m), true)
	x.o.Finding("F-C13b", map[bool]string{true: "reproduced", false: "gone"}[rep.Err && rep.PerrLen < 0])
	// F-C13c: a histogram entry that is not a 2-array yields an error whose Error() dereferences a nil cause
	w = msgp.AppendMapHeader(nil, 1)
	w = msgp.AppendString(w, "metrics")
	w = msgp.AppendArrayHeader(w, 1)
	w = msgp.AppendMapHeader(w, 1)
	w = msgp.AppendString(w, "histogram")
	w = msgp.AppendArrayHeader(w, 1)
	w = msgp.AppendArrayHeader(w, 3)
	rep, _ = x.pktCase("finding/F-C13c", w, true)
	x.o.Finding("F-C13c", map[bool]string{true: "reproduced", false: "gone"}[rep.ErrPanic])
	// F-C13d: `unique` sent unpacked (wire type 0, valid protobuf) is silently ignored
	u := []int64{7}
	b := []Metric{{Name: []byte("m"), Unique: &u}}
	got := x.encCase("(EPB false)", b, encPB(b, false), []DMetric{canon(b[0])}, "FProtobuf", "pb_unpacked_unique")
	x.o.Finding("F-C13d", map[bool]string{true: "reproduced", false: "gone"}[len(got) == 1 && len(got[0].Unique) == 0])
	// F-C13e: the JSON reader does not unescape tag keys: {"a\"b":"v"} yields the 4-byte key a\"b instead of a"b
	tags := &jt{kind: 'o', raw: true, keys: [][]byte{[]byte(`a\"b`)}, arr: []*jt{jStr([]byte("v"))}}
	t := obj("metrics", &jt{kind: 'a', arr: []*jt{obj("name", jStr([]byte("m")), "tags", tags)}})
	rep, _ = x.jsonCase("finding/F-C13e", t, nil, true)
	bad := len(rep.Metrics) == 1 && len(rep.Metrics[0].Tags) == 1 && string(rep.Metrics[0].Tags[0][0]) != `a"b`
	if bad {
		x.o.Fail("json_tag_key_unescaped", x.o.N-1, `finding/F-C13e {"metrics":[{"name":"m","tags":{"a\"b":"v"}}]}`)
	}
	x.o.Finding("F-C13e", map[bool]string{true: "reproduced", false: "gone"}[bad])
}

func main() {
	seed := flag.Uint64("seed", 1, "")
	n := flag.Int("n", 600, "")
	out := flag.String("out", "", "")
	isWorker := flag.Bool("worker", false, "")
	flag.Parse()
	if *isWorker {
		worker()
		return
	}
	g := gen{vu.NewRng(*seed)}
	o := vu.NewOut(*out)
	defer o.Close()
	x := &ctx{o: o, c: &child{limKB: limitKB}}
	defer x.c.stop()

	x.findings()
	x.tcpCases(g.r)
	// every documented prefix exactly, one byte short, one byte more; the neighbours of the MessagePack map range
	for _, h := range []string{"", "39025856", "390258", "3902585600", "39025857", "7b", "7a", "5348", "53", "534800", "5349",
		"de", "de00", "de0000", "df", "df000000", "df00000000", "80", "8f", "7f", "90", "81", "c0", "dd", "cac106", "cac10600", "00", "ff"} {
		p, _ := hex.DecodeString(h)
		x.pktCase("boundary", p, true)
	}
	for i := 0; i < *n; i++ {
		jsonSafe := i%3 != 0
		b := g.batch(jsonSafe)
		want := make([]DMetric, len(b))
		for k := range b {
			want[k] = canon(b[k])
		}
		tlp, mpp, pbp := encTL(b), encMP(b), encPB(b, true)
		var views [][]DMetric
		views = append(views, x.encCase("ETL", b, tlp, want, "FTL", "decode_equals_encoded"))
		views = append(views, x.encCase("EMP", b, mpp, want, "FMsgpack", "decode_equals_encoded"))
		// protobuf cannot express "present but empty" for repeated messages: expected mask without that bit
		wantPB := make([]DMetric, len(b))
		for k := range b {
			wantPB[k] = want[k]
			if b[k].Hist != nil && len(*b[k].Hist) == 0 {
				wantPB[k].Mask &^= 8
			}
		}
		if len(pbp) > 0 && (pbp[0] == '{' || pbp[0] == 'S') { // never: 13337's tag starts with 0xCA
			panic("protobuf prefix")
		}
		if len(b) > 0 {
			views = append(views, x.encCase("(EPB true)", b, pbp, wantPB, "FProtobuf", "decode_equals_encoded"))
			if i%4 == 0 {
				wantU := make([]DMetric, len(b))
				hasU := false
				for k := range b {
					wantU[k] = wantPB[k]
					if b[k].Value != nil && len(*b[k].Value) == 0 {
						wantU[k].Mask &^= 2
					}
					if b[k].Unique != nil && len(*b[k].Unique) == 0 {
						wantU[k].Mask &^= 4
					}
					hasU = hasU || (b[k].Unique != nil && len(*b[k].Unique) > 0)
				}
				name := "decode_equals_encoded"
				if hasU {
					name = "pb_unpacked_unique"
				}
				x.encCase("(EPB false)", b, encPB(b, false), wantU, "FProtobuf", name)
			}
		}
		if jsonSafe {
			rep, ok := x.jsonCase("json", jsonTree(b), b, len(b) > 0)
			if ok {
				views = append(views, rep.Metrics)
				if rep.Err || !sameD(rep.Metrics, want) {
					o.Fail("decode_equals_encoded", o.N-1, "json batch "+strconv.Itoa(i))
				}
			}
			if gp, ok := encGoPB(b); ok && len(gp) > 0 {
				rep, fate := x.pktCase("gopb", gp, true)
				if fate == "" && (rep.Err || !sameView(rep.Metrics, sortTagsLike(rep.Metrics, want))) {
					o.Fail("generated_pb_decodes_to_same_view", o.N-1, "gopb "+short(gp))
				}
			}
			// proto3-minimal encodings, with empty tag keys/values, empty names and zero numbers forced in
			bm := make([]Metric, len(b))
			for k := range b {
				bm[k] = b[k]
				bm[k].Tags = append([][2][]byte(nil), b[k].Tags...)
				for j := range bm[k].Tags {
					switch g.r.Intn(4) {
					case 0:
						bm[k].Tags[j][1] = nil
					case 1:
						if j == 0 {
							bm[k].Tags[j][0] = nil
						}
					}
				}
				if g.r.Chance(30) {
					bm[k].Name = nil
				}
				if bm[k].Counter != nil && g.r.Chance(30) {
					z := uint64(0)
					bm[k].Counter = &z
				}
				if bm[k].Hist != nil && len(*bm[k].Hist) > 0 && g.r.Chance(50) {
					hh := append([][2]uint64(nil), *bm[k].Hist...)
					hh[0][g.r.Intn(2)] = 0
					bm[k].Hist = &hh
				}
			}
			if pm := encPBMin(bm); len(pm) > 0 {
				// what proto3-minimal cannot express comes back as absent (bit clear), the values are the same
				wantM := make([]DMetric, len(bm))
				for k := range bm {
					n := bm[k]
					if n.Counter != nil && *n.Counter == 0 {
						n.Counter = nil
					}
					if n.Ts != nil && *n.Ts == 0 {
						n.Ts = nil
					}
					if n.Value != nil && len(*n.Value) == 0 {
						n.Value = nil
					}
					if n.Unique != nil && len(*n.Unique) == 0 {
						n.Unique = nil
					}
					if n.Hist != nil && len(*n.Hist) == 0 {
						n.Hist = nil
					}
					wantM[k] = canon(n)
				}
				x.encCase("EPBMin", bm, pm, wantM, "FProtobuf", "proto3_minimal_decodes_to_same_metrics")
			}
			if i%2 == 0 {
				t := jsonTree(b)
				g.mutateJSON(t)
				x.jsonCase("json-mut", t, nil, true)
			}
		}
		for k := 1; k < len(views); k++ {
			if !sameView(views[0], views[k]) {
				o.Fail("cross_format_equal", o.N-1, fmt.Sprintf("batch %d format#%d tl=%s", i, k, short(tlp)))
			}
		}
		// several batches in one packet (TL and MessagePack loops)
		if i%5 == 0 {
			b2 := g.batch(false)
			x.pktCase("multi/tl", append(append([]byte(nil), tlp...), encTL(b2)...), true)
			x.pktCase("multi/mp", append(append([]byte(nil), mpp...), encMP(b2)...), true)
		}
		// the malformed stream
		for k, p := range [][]byte{tlp, mpp, pbp} {
			for j := 0; j < 3; j++ {
				x.pktCase([]string{"mal/tl", "mal/mp", "mal/pb"}[k], g.malform(p), true)
			}
		}
		x.pktCase("hostile/mp", g.hostileMP(), true)
		// random bytes behind every documented prefix
		pre := [][]byte{{}, {0x39, 0x02, 0x58, 0x56}, {'S', 'H'}, {0x81}, {0xde}, {0xdf}, {0xca, 0xc1, 0x06}, {0x39, 0x02}, {'S'}, {0xde, 0}, {0xdf, 0, 0}}[g.r.Intn(11)]
		rnd := append([]byte(nil), pre...)
		for k := 0; k < g.r.Intn(24); k++ {
			rnd = append(rnd, byte(g.r.U32()))
		}
		x.pktCase("random", rnd, len(rnd) > 0)
	}
}

// protobuf maps are written in random order: compare tags as sets by reordering want like got
func sortTagsLike(got, want []DMetric) []DMetric {
	if len(got) != len(want) {
		return want
	}
	res := make([]DMetric, len(want))
	for i := range want {
		res[i] = want[i]
		var tags [][2][]byte
		used := make([]bool, len(want[i].Tags))
		for _, t := range got[i].Tags {
			for k, u := range want[i].Tags {
				if !used[k] && string(u[0]) == string(t[0]) && string(u[1]) == string(t[1]) {
					used[k] = true
					tags = append(tags, u)
					break
				}
			}
		}
		for k, u := range want[i].Tags {
			if !used[k] {
				tags = append(tags, u)
			}
		}
		res[i].Tags = tags
	}
	return res
}
