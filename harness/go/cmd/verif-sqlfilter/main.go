//go:build verif

// Correspondence harness for C26 (SqlFilter): drives the real queryBuilder.writeWhere / buildSeriesQuery /
// buildTagValuesQuery with hostile filter values and prints cases for SqlFilter/Corr.v. Property oracles
// (independent Go re-implementation of the ClickHouse lexer, a small evaluator of the generated SQL and the
// per-value filter specification) are evaluated here on the implementation's output.
package main

import (
	"flag"
	"fmt"
	"math"
	"sort"
	"strconv"
	"strings"

	"github.com/VKCOM/statshouse/internal/api"
	"github.com/VKCOM/statshouse/internal/data_model"
	"github.com/VKCOM/statshouse/internal/format"
	vu "github.com/VKCOM/statshouse/internal/verifutil"
)

// ---------- generators ----------

var pieces = []string{"'", "\\", "\\'", "''", "')", "\\\\", "\x00", "\n", "\\x27", "\\N", "\\n", "é", "日本", "\xff", "\x80",
	") OR 1=1 --", "/*", ";", " ", "a", "b", "prod", "^a.*$", "\"", "`", "\t", "\r", "%", "_", "\\0", "' OR ''='", "\x7f", "\\'')", "x'", "'x", "\\"}

func genString(r *vu.Rng) string {
	switch r.Intn(10) {
	case 0:
		return ""
	case 1, 2:
		return []string{"a", "b", "prod", "staging", "x"}[r.Intn(5)]
	case 3:
		b := make([]byte, 1+r.Intn(6))
		for i := range b {
			b[i] = byte(r.Intn(256))
		}
		return string(b)
	case 4: // only quotes and backslashes
		b := make([]byte, 1+r.Intn(6))
		for i := range b {
			b[i] = "'\\"[r.Intn(2)]
		}
		return string(b)
	default:
		var sb strings.Builder
		for i, n := 0, 1+r.Intn(4); i < n; i++ {
			sb.WriteString(pieces[r.Intn(len(pieces))])
		}
		return sb.String()
	}
}

type tval struct {
	hv, im bool
	s      string
	m      int64
	tv     data_model.TagValue
}

func mkVal(tv data_model.TagValue) tval {
	return tval{hv: tv.HasValue(), im: tv.IsMapped(), s: tv.Value, m: tv.Mapped, tv: tv}
}

func genMapped(r *vu.Rng) int64 {
	switch r.Intn(8) {
	case 0:
		return 0
	case 1:
		return int64(r.Pick(-1, -2, math.MaxInt32, math.MinInt32, math.MaxInt64, math.MinInt64, 1<<32, (1<<32)+5, -(1 << 32)))
	case 2:
		return int64(r.U64())
	default:
		return int64(1 + r.Intn(6))
	}
}

func genVal(r *vu.Rng) tval {
	switch r.Intn(12) {
	case 0:
		return mkVal(data_model.NewTagValue("", 0)) // the "empty" value
	case 1:
		return mkVal(data_model.TagValue{}) // no flags: ignored by the builder
	case 2:
		return mkVal(data_model.TagValue{Value: genString(r), Mapped: genMapped(r)}) // fields set, no flags
	case 3:
		return mkVal(data_model.NewTagValueS(""))
	case 4:
		return mkVal(data_model.NewTagValue("", genMapped(r)))
	case 5:
		return mkVal(data_model.NewTagValue(genString(r), 0))
	case 6, 7:
		return mkVal(data_model.NewTagValueM(genMapped(r)))
	case 8, 9:
		return mkVal(data_model.NewTagValueS(genString(r)))
	default:
		return mkVal(data_model.NewTagValue(genString(r), genMapped(r)))
	}
}

type tfilter struct {
	x    int
	vals []tval
	re   string
}

func genFilters(r *vu.Rng, ntags int) []tfilter {
	var fs []tfilter
	used := map[int]bool{}
	for i, n := 0, r.Intn(4); i < n; i++ {
		x := r.Intn(8)
		switch r.Intn(6) {
		case 0:
			x = r.Intn(format.MaxTags)
		case 1:
			x = format.StringTopTagIndexV3
		case 2:
			if ntags > 0 {
				x = r.Intn(ntags)
			}
		}
		if used[x] {
			continue
		}
		used[x] = true
		f := tfilter{x: x}
		for j, m := 0, r.Intn(5); j < m; j++ {
			f.vals = append(f.vals, genVal(r))
		}
		if r.Chance(30) {
			f.re = genString(r)
		}
		fs = append(fs, f)
	}
	sort.Slice(fs, func(i, j int) bool { return fs[i].x < fs[j].x })
	return fs
}

func toTagFilters(fs []tfilter, metrics []*format.MetricMetaValue) data_model.TagFilters {
	var t data_model.TagFilters
	t.Metrics = metrics
	for _, f := range fs {
		for _, v := range f.vals {
			t.Tags[f.x].Values = append(t.Tags[f.x].Values, v.tv)
		}
		t.Tags[f.x].Re2 = f.re
	}
	return t
}

// same filters with every non-empty user string replaced by a harmless one of the same emptiness
func benign(fs []tfilter) []tfilter {
	out := make([]tfilter, len(fs))
	for i, f := range fs {
		g := tfilter{x: f.x, re: f.re}
		if g.re != "" {
			g.re = "x"
		}
		for _, v := range f.vals {
			w := v
			if w.s != "" {
				w.s = "x"
				w.tv.Value = "x"
			}
			g.vals = append(g.vals, w)
		}
		out[i] = g
	}
	return out
}

// ---------- independent model of the ClickHouse lexer (for the oracles) ----------

type tok struct {
	kind byte // 'w' word, 'p' punctuation, 's' string literal (text = decoded), ' ' space
	text string
}

func isWord(c byte) bool {
	return c == '_' || (c >= '0' && c <= '9') || (c >= 'a' && c <= 'z') || (c >= 'A' && c <= 'Z')
}

func hexVal(c byte) (byte, bool) {
	switch {
	case c >= '0' && c <= '9':
		return c - '0', true
	case c >= 'a' && c <= 'f':
		return c - 'a' + 10, true
	case c >= 'A' && c <= 'F':
		return c - 'A' + 10, true
	}
	return 0, false
}

// chLiteral reads a single-quoted literal starting at s[i]=='\”; returns decoded content and the index after it.
func chLiteral(s string, i int) (string, int, bool) {
	var out []byte
	i++
	for i < len(s) {
		c := s[i]
		switch c {
		case '\'':
			if i+1 < len(s) && s[i+1] == '\'' {
				out = append(out, '\'')
				i += 2
				continue
			}
			return string(out), i + 1, true
		case '\\':
			if i+1 >= len(s) {
				return "", 0, false
			}
			e := s[i+1]
			switch e {
			case 'x':
				if i+3 >= len(s) {
					return "", 0, false
				}
				a, ok1 := hexVal(s[i+2])
				b, ok2 := hexVal(s[i+3])
				if !ok1 || !ok2 {
					return "", 0, false
				}
				out = append(out, a*16+b)
				i += 4
			case 'N':
				i += 2
			default:
				d := e
				switch e {
				case 'a':
					d = 7
				case 'b':
					d = 8
				case 'e':
					d = 27
				case 'f':
					d = 12
				case 'n':
					d = 10
				case 'r':
					d = 13
				case 't':
					d = 9
				case 'v':
					d = 11
				case '0':
					d = 0
				}
				if !(d == '\\' || d == '\'' || d == '"' || d == '`' || d == '/' || d < 32 || d == 127) {
					out = append(out, '\\')
				}
				out = append(out, d)
				i += 2
			}
		default:
			out = append(out, c)
			i++
		}
	}
	return "", 0, false
}

func chLex(s string) ([]tok, bool) {
	var ts []tok
	for i := 0; i < len(s); {
		c := s[i]
		switch {
		case c == ' ':
			ts = append(ts, tok{' ', " "})
			i++
		case c == '\'':
			lit, j, ok := chLiteral(s, i)
			if !ok {
				return nil, false
			}
			ts = append(ts, tok{'s', lit})
			i = j
		case isWord(c):
			j := i
			for j < len(s) && isWord(s[j]) {
				j++
			}
			ts = append(ts, tok{'w', s[i:j]})
			i = j
		case strings.IndexByte("(),=!<>-+*/%.", c) >= 0:
			ts = append(ts, tok{'p', string(c)})
			i++
		default:
			return nil, false
		}
	}
	return ts, true
}

func skeleton(ts []tok) string {
	var sb strings.Builder
	for _, t := range ts {
		if t.kind == 's' {
			sb.WriteString("<S>")
		} else {
			sb.WriteString(t.text)
		}
	}
	return sb.String()
}

func literals(ts []tok, nonEmptyOnly bool) []string {
	var out []string
	for _, t := range ts {
		if t.kind == 's' && !(nonEmptyOnly && t.text == "") {
			out = append(out, t.text)
		}
	}
	return out
}

// ---------- evaluator of the generated SQL condition on a row ----------

type row struct {
	ints map[string]int64
	strs map[string]string
}

type value struct {
	isStr bool
	i     int64
	s     string
}

type parser struct {
	ts    []tok
	p     int
	r     *row
	alias map[string][2]string // SELECT alias of a raw64 expression -> (hi column, lo column)
	err   bool
}

func (p *parser) peek() tok {
	if p.p < len(p.ts) {
		return p.ts[p.p]
	}
	return tok{0, ""}
}
func (p *parser) next() tok { t := p.peek(); p.p++; return t }
func (p *parser) isW(w string) bool {
	t := p.peek()
	return t.kind == 'w' && t.text == w
}
func (p *parser) isP(c string) bool {
	t := p.peek()
	return t.kind == 'p' && t.text == c
}
func (p *parser) expectP(c string) {
	if !p.isP(c) {
		p.err = true
	}
	p.p++
}

func matchStandIn(sv, re string) bool { return strings.HasPrefix(sv, re) }

func (p *parser) orExpr() bool {
	v := p.andExpr()
	for p.isW("OR") {
		p.next()
		w := p.andExpr()
		v = v || w
	}
	return v
}
func (p *parser) andExpr() bool {
	v := p.notExpr()
	for p.isW("AND") {
		p.next()
		w := p.notExpr()
		v = v && w
	}
	return v
}
func (p *parser) notExpr() bool {
	if p.isW("NOT") {
		p.next()
		return !p.notExpr()
	}
	return p.primary()
}
func (p *parser) primary() bool {
	if p.isP("(") {
		p.next()
		v := p.orExpr()
		p.expectP(")")
		return v
	}
	if p.isW("match") {
		p.next()
		p.expectP("(")
		a := p.value()
		p.expectP(",")
		b := p.value()
		p.expectP(")")
		if !a.isStr || !b.isStr {
			p.err = true
		}
		return matchStandIn(a.s, b.s)
	}
	a := p.value()
	neg := false
	if p.isW("NOT") {
		p.next()
		neg = true
		if !p.isW("IN") {
			p.err = true
		}
	}
	if p.isW("IN") {
		p.next()
		p.expectP("(")
		found := false
		for {
			b := p.value()
			if a.isStr != b.isStr {
				p.err = true
			}
			if a == b {
				found = true
			}
			if p.isP(",") {
				p.next()
				continue
			}
			break
		}
		p.expectP(")")
		return found != neg
	}
	if neg {
		p.err = true
	}
	op := ""
	for p.isP("=") || p.isP("!") || p.isP("<") || p.isP(">") {
		op += p.next().text
	}
	b := p.value()
	if a.isStr != b.isStr {
		p.err = true
	}
	switch op {
	case "=":
		return a == b
	case "!=":
		return a != b
	case ">=":
		return !a.isStr && a.i >= b.i
	case "<":
		return !a.isStr && a.i < b.i
	}
	p.err = true
	return false
}
func (p *parser) value() value {
	t := p.next()
	switch t.kind {
	case 's':
		return value{isStr: true, s: t.text}
	case 'p':
		if t.text == "-" {
			n := p.next()
			u, err := strconv.ParseUint(n.text, 10, 64)
			if err != nil || n.kind != 'w' {
				p.err = true
			}
			return value{i: int64(-u)}
		}
	case 'w':
		if t.text[0] >= '0' && t.text[0] <= '9' {
			u, err := strconv.ParseInt(t.text, 10, 64)
			if err != nil {
				p.err = true
			}
			return value{i: u}
		}
		if p.isP("(") { // function call
			p.next()
			var args []value
			for {
				args = append(args, p.value())
				if p.isP(",") {
					p.next()
					continue
				}
				break
			}
			p.expectP(")")
			switch {
			case t.text == "toUInt32" && len(args) == 1 && !args[0].isStr:
				return value{i: int64(uint32(args[0].i))}
			case t.text == "toInt64" && len(args) == 1 && !args[0].isStr:
				return args[0]
			case t.text == "bitShiftLeft" && len(args) == 2 && !args[0].isStr:
				return value{i: int64(uint64(args[0].i) << uint(args[1].i))}
			case t.text == "bitOr" && len(args) == 2 && !args[0].isStr:
				return value{i: args[0].i | args[1].i}
			}
			p.err = true
			return value{}
		}
		if a, ok := p.alias[t.text]; ok {
			return value{i: int64(uint64(uint32(p.r.ints[a[0]]))<<32 | uint64(uint32(p.r.ints[a[1]])))}
		}
		if strings.HasPrefix(t.text, "stag") || t.text == "pre_stag" {
			return value{isStr: true, s: p.r.strs[t.text]}
		}
		return value{i: p.r.ints[t.text]}
	}
	p.err = true
	return value{}
}

// evalWhere evaluates " WHERE <cond>" on the row; ok=false when the text is not a condition of the expected grammar.
func evalWhere(ts []tok, r *row, alias map[string][2]string) (bool, bool) {
	var nt []tok
	for _, t := range ts {
		if t.kind != ' ' {
			nt = append(nt, t)
		}
	}
	if len(nt) == 0 || nt[0].kind != 'w' || nt[0].text != "WHERE" {
		return false, false
	}
	p := &parser{ts: nt, p: 1, r: r, alias: alias}
	v := p.orExpr()
	if p.err || p.p != len(nt) {
		return false, false
	}
	return v, true
}

// ---------- the query description and the per-value specification ----------

type tagInfo struct{ raw, raw64 bool }

type qdesc struct {
	tags      []tagInfo // nil when metric == nil
	hasMetric bool
	hasPreKey bool
	preKey    int
	by        []int
	mode      int
	from, to  int64
	metricID  int64
	mIn, mNot []int64
	fin, fnot []tfilter
}

func (q *qdesc) info(x int) tagInfo {
	if q.hasMetric && x >= 0 && x < len(q.tags) {
		return q.tags[x]
	}
	return tagInfo{}
}
func (q *qdesc) colInt(x int) string {
	if q.hasPreKey && x == q.preKey {
		return "pre_tag"
	}
	return "tag" + strconv.Itoa(x)
}
func (q *qdesc) groupedBy(x int) bool {
	for _, b := range q.by {
		if b == x {
			return true
		}
	}
	return false
}

// integer value of tag x in the row, as the storage schema defines it
func (q *qdesc) tagInt(r *row, x int) int64 {
	if q.mode == 0 && q.hasPreKey && x == q.preKey {
		return r.ints["_prekey"]
	}
	if q.info(x).raw64 {
		return int64(uint64(uint32(r.ints[q.colInt(x+1)]))<<32 | uint64(uint32(r.ints[q.colInt(x)])))
	}
	return r.ints[q.colInt(x)]
}

func valEmpty(v tval) bool { return v.hv && v.im && v.s == "" && v.m == 0 }

func filterMatches(f *tfilter, raw bool, iv int64, sv string) bool {
	useStr := !raw && f.re == ""
	for _, v := range f.vals {
		if valEmpty(v) {
			if iv == 0 && (raw || sv == "") {
				return true
			}
			continue
		}
		if v.im && iv == v.m {
			return true
		}
		if useStr && v.hv && sv == v.s {
			return true
		}
	}
	return !raw && f.re != "" && matchStandIn(sv, f.re)
}

func (q *qdesc) specSelected(r *row) bool {
	t := r.ints["time"]
	if !(q.from <= t && t < q.to) || r.ints["index_type"] != 0 || r.ints["pre_tag"] != 0 || r.strs["pre_stag"] != "" {
		return false
	}
	m := r.ints["metric"]
	if q.metricID != 0 || (len(q.mIn) == 0 && len(q.mNot) == 0) {
		if m != q.metricID {
			return false
		}
	} else {
		if len(q.mIn) != 0 {
			found := false
			for _, id := range q.mIn {
				found = found || id == m
			}
			if !found {
				return false
			}
		}
		for _, id := range q.mNot {
			if id == m {
				return false
			}
		}
	}
	for i := range q.fin {
		f := &q.fin[i]
		if len(f.vals) == 0 && f.re == "" {
			continue
		}
		if !filterMatches(f, q.info(f.x).raw, q.tagInt(r, f.x), r.strs["stag"+strconv.Itoa(f.x)]) {
			return false
		}
	}
	for i := range q.fnot {
		f := &q.fnot[i]
		if len(f.vals) == 0 && f.re == "" {
			continue
		}
		if filterMatches(f, q.info(f.x).raw, q.tagInt(r, f.x), r.strs["stag"+strconv.Itoa(f.x)]) {
			return false
		}
	}
	return true
}

// user strings that must reach the text, in order (non-empty ones only)
func (q *qdesc) liveStrings() []string {
	var out []string
	for _, fs := range [][]tfilter{q.fin, q.fnot} {
		for _, f := range fs {
			if q.info(f.x).raw {
				continue
			}
			if f.re != "" {
				out = append(out, f.re)
				continue
			}
			for _, v := range f.vals {
				if !valEmpty(v) && v.hv && v.s != "" {
					out = append(out, v.s)
				}
			}
		}
	}
	return out
}

func genRow(r *vu.Rng, q *qdesc) *row {
	rw := &row{ints: map[string]int64{}, strs: map[string]string{}}
	switch r.Intn(8) {
	case 0:
		rw.ints["time"] = q.from - 1
	case 1:
		rw.ints["time"] = q.to
	case 2:
		rw.ints["time"] = q.to - 1
	default:
		rw.ints["time"] = q.from
	}
	if r.Chance(4) {
		rw.ints["index_type"] = 1
	}
	if r.Chance(4) {
		rw.strs["pre_stag"] = "p"
	}
	switch {
	case q.metricID != 0 || (len(q.mIn) == 0 && len(q.mNot) == 0):
		rw.ints["metric"] = q.metricID
		if r.Chance(8) {
			rw.ints["metric"] = q.metricID + 1
		}
	default:
		all := append(append([]int64{77}, q.mIn...), q.mNot...)
		rw.ints["metric"] = all[r.Intn(len(all))]
		if len(q.mIn) != 0 && r.Chance(60) {
			rw.ints["metric"] = q.mIn[r.Intn(len(q.mIn))]
		}
	}
	setTag := func(f *tfilter, wantMatch bool) {
		sname := "stag" + strconv.Itoa(f.x)
		info := q.info(f.x)
		setInt := func(v int64) {
			if q.mode == 0 && q.hasPreKey && f.x == q.preKey {
				rw.ints["_prekey"] = v
			} else if info.raw64 {
				rw.ints[q.colInt(f.x)] = int64(int32(uint32(v)))
				rw.ints[q.colInt(f.x+1)] = int64(int32(uint32(uint64(v) >> 32)))
			} else {
				rw.ints[q.colInt(f.x)] = v
			}
		}
		if !wantMatch {
			switch r.Intn(4) {
			case 0:
				setInt(int64(r.Intn(8)))
			case 1:
				rw.strs[sname] = genString(r)
			case 2:
				setInt(genMapped(r))
				rw.strs[sname] = genString(r)
			}
			return
		}
		if f.re != "" && r.Chance(40) {
			rw.strs[sname] = f.re + []string{"", "x", "'"}[r.Intn(3)]
			return
		}
		if len(f.vals) == 0 {
			return
		}
		v := f.vals[r.Intn(len(f.vals))]
		if v.im && (!v.hv || r.Bool()) {
			setInt(v.m)
			if r.Chance(15) {
				rw.strs[sname] = genString(r)
			}
		} else {
			rw.strs[sname] = v.s
			if r.Chance(15) {
				setInt(genMapped(r))
			}
		}
	}
	for i := range q.fin {
		setTag(&q.fin[i], r.Chance(85))
	}
	for i := range q.fnot {
		setTag(&q.fnot[i], r.Chance(30))
	}
	return rw
}

// ---------- Coq printing ----------

func strZ(s string) string { return vu.Bytes([]byte(s)) }

func listInt(xs []int64) string { return vu.ListZ(xs) }

func filtersTerm(fs []tfilter) string {
	parts := make([]string, len(fs))
	for i, f := range fs {
		vs := make([]string, len(f.vals))
		for j, v := range f.vals {
			vs[j] = fmt.Sprintf("V %s %s %s %s", vu.B(v.hv), vu.B(v.im), strZ(v.s), vu.Z(v.m))
		}
		parts[i] = fmt.Sprintf("(%d, F [%s] %s)", f.x, strings.Join(vs, "; "), strZ(f.re))
	}
	return "[" + strings.Join(parts, "; ") + "]"
}

func (q *qdesc) term() string {
	tags := "None"
	if q.hasMetric {
		ps := make([]string, len(q.tags))
		for i, t := range q.tags {
			ps[i] = fmt.Sprintf("(%s,%s)", vu.B(t.raw), vu.B(t.raw64))
		}
		tags = "(Some [" + strings.Join(ps, ";") + "])"
	}
	by := make([]int64, len(q.by))
	for i, b := range q.by {
		by[i] = int64(b)
	}
	return fmt.Sprintf("(Q %s %s %s %s %d %s %s %s %s %s %s %s)", tags, vu.B(q.hasPreKey), vu.Z(int64(q.preKey)), listInt(by), q.mode,
		vu.Z(q.from), vu.Z(q.to), vu.Z(q.metricID), listInt(q.mIn), listInt(q.mNot), filtersTerm(q.fin), filtersTerm(q.fnot))
}

func rowTerm(rw *row, sel bool) string {
	var ik, sk []string
	for k := range rw.ints {
		ik = append(ik, k)
	}
	for k := range rw.strs {
		sk = append(sk, k)
	}
	sort.Strings(ik)
	sort.Strings(sk)
	ip := make([]string, len(ik))
	for i, k := range ik {
		ip[i] = fmt.Sprintf("(%s, %s)", strZ(k), vu.Z(rw.ints[k]))
	}
	sp := make([]string, len(sk))
	for i, k := range sk {
		sp[i] = fmt.Sprintf("(%s, %s)", strZ(k), strZ(rw.strs[k]))
	}
	return fmt.Sprintf("([%s], [%s], %s)", strings.Join(ip, "; "), strings.Join(sp, "; "), vu.B(sel))
}

func filtersText(fs []tfilter) string {
	var sb strings.Builder
	for _, f := range fs {
		fmt.Fprintf(&sb, "{tag%d re=%+q", f.x, f.re)
		for _, v := range f.vals {
			fmt.Fprintf(&sb, " (hv=%v im=%v %+q %d)", v.hv, v.im, v.s, v.m)
		}
		sb.WriteString("}")
	}
	return sb.String()
}

// probeRaw64LastTag replays the witness of F-C26a on the real code: a freshly restored metric whose 48th tag
// has raw kind int64 keeps Raw64()==true, and a filter on that tag (index 47, also the string-top tag) makes
// writeWhere panic in raw64Expr (format.TagID(48)).
func probeRaw64LastTag(o *vu.Out) {
	m := &format.MetricMetaValue{MetricID: 7, Name: "verif_metric"}
	for t := 0; t < format.MaxTags; t++ {
		m.Tags = append(m.Tags, format.MetricMetaTag{})
	}
	m.Tags[format.MaxTags-1].RawKind = "int64"
	_ = m.RestoreCachedInfo()
	var in, notIn data_model.TagFilters
	in.AppendMapped(format.MaxTags-1, 5)
	outcome := "gone"
	func() {
		defer func() {
			if recover() != nil {
				outcome = "reproduced"
			}
		}()
		_ = api.NewVerifSQL(m, nil, in, notIn).Where(data_model.LOD{FromSec: 1, ToSec: 2, StepSec: 60, Version: data_model.Version6}, 0)
	}()
	o.Finding("F-C26a", outcome)
}

var rawKinds = []string{"", "", "", "int", "uint", "hex", "lexenc_float", "int64", "uint64", "timestamp"}

func main() {
	seed := flag.Uint64("seed", 1, "")
	n := flag.Int("n", 1200, "")
	out := flag.String("out", "", "")
	flag.Parse()
	r := vu.NewRng(*seed)
	o := vu.NewOut(*out)
	defer o.Close()

	probeRaw64LastTag(o)
	for i := 0; i < *n; i++ {
		if i%6 == 5 { // the escaping function alone
			s := genString(r)
			if r.Chance(20) {
				s += genString(r) + genString(r)
			}
			e := api.VerifEscape(s)
			input := fmt.Sprintf("escape %+q", s)
			line := o.Case(input, fmt.Sprintf("CEsc %s %s", strZ(s), strZ(e)), strings.ContainsAny(s, "'\\"), "escape")
			lit, j, ok := chLiteral("'"+e+"')", 0)
			if !ok || lit != s || j != len(e)+2 {
				o.Fail("literal_roundtrip", line, input)
			}
			continue
		}
		// ---- metric description ----
		q := &qdesc{mode: r.Intn(3)}
		var metric *format.MetricMetaValue
		var mIn, mNot []*format.MetricMetaValue
		if r.Chance(85) {
			metric = &format.MetricMetaValue{MetricID: int32(1 + r.Intn(5000)), Name: "verif_metric"}
			if r.Chance(5) {
				metric.MetricID = int32(r.Pick(0, -1, math.MaxInt32, math.MinInt32))
			}
			nt := r.Intn(12)
			if r.Chance(15) {
				nt = format.MaxTags
			}
			for t := 0; t < nt; t++ {
				metric.Tags = append(metric.Tags, format.MetricMetaTag{RawKind: rawKinds[r.Intn(len(rawKinds))]})
			}
			if r.Chance(30) && nt > 1 {
				metric.PreKeyTagID = strconv.Itoa(r.Intn(8))
				metric.PreKeyFrom = 1
			}
			_ = metric.RestoreCachedInfo()
			if len(metric.Tags) == format.MaxTags && metric.Tags[format.MaxTags-1].Raw64() {
				// F-C26a: the first RestoreCachedInfo does not clear raw64 on the last tag (it reads tag.Index
				// before assigning it); a filter on that tag panics in raw64Expr. Probed separately below;
				// the second call sees Index set and clears the flag, which is the state the model describes.
				_ = metric.RestoreCachedInfo()
			}
			q.hasMetric = true
			for t := range metric.Tags {
				q.tags = append(q.tags, tagInfo{raw: metric.Tags[t].Raw(), raw64: metric.Tags[t].Raw64()})
			}
		}
		mk := func(k int) []*format.MetricMetaValue {
			var ms []*format.MetricMetaValue
			for j := 0; j < k; j++ {
				ms = append(ms, &format.MetricMetaValue{MetricID: int32(r.Pick(1, 2, 3, -5, 1000, math.MaxInt32, math.MinInt32, 0)), PreKeyTagID: "2"})
			}
			return ms
		}
		if metric == nil || r.Chance(10) {
			mIn = mk(r.Intn(4))
			mNot = mk(r.Intn(3))
		}
		for _, m := range mIn {
			q.mIn = append(q.mIn, int64(m.MetricID))
		}
		for _, m := range mNot {
			q.mNot = append(q.mNot, int64(m.MetricID))
		}
		q.hasPreKey = r.Chance(30)
		ntags := len(q.tags)
		q.fin = genFilters(r, ntags)
		q.fnot = genFilters(r, ntags)
		for j, k := 0, r.Intn(4); j < k; j++ {
			b := r.Intn(8)
			if ntags > 0 && r.Bool() {
				b = r.Intn(ntags)
			}
			if len(q.fin) > 0 && r.Bool() {
				b = q.fin[r.Intn(len(q.fin))].x
			}
			q.by = append(q.by, b)
		}
		q.from = int64(r.Intn(2000000))
		q.to = q.from + int64(r.Intn(100000))
		if r.Chance(5) {
			q.from = -int64(r.Intn(100))
		}
		lod := data_model.LOD{FromSec: q.from, ToSec: q.to, StepSec: 60, Version: data_model.Version6, HasPreKey: q.hasPreKey}

		v := api.NewVerifSQL(metric, q.by, toTagFilters(q.fin, mIn), toTagFilters(q.fnot, mNot))
		q.preKey = v.PreKeyTagX()
		q.metricID = int64(v.MetricID())
		where := v.Where(lod, q.mode)

		input := fmt.Sprintf("where mode=%d metric=%v tags=%v prekey=%v/%d by=%v t=[%d,%d) mid=%d min=%v mnot=%v IN%s NOTIN%s",
			q.mode, q.hasMetric, q.tags, q.hasPreKey, q.preKey, q.by, q.from, q.to, q.metricID, q.mIn, q.mNot, filtersText(q.fin), filtersText(q.fnot))
		if len(input) > 900 {
			input = input[:900] + "..."
		}

		// ---- oracles on the implementation's text ----
		var fails []string
		ts, lexOK := chLex(where)
		live := q.liveStrings()
		hostile := false
		for _, s := range live {
			hostile = hostile || strings.ContainsAny(s, "'\\")
		}
		alias := map[string][2]string{}
		for x := range q.tags {
			if q.tags[x].raw64 {
				alias["_tag"+strconv.Itoa(x)] = [2]string{q.colInt(x + 1), q.colInt(x)}
			}
		}
		var rowTerms []string
		if !lexOK {
			fails = append(fails, "where_lexes")
		} else {
			// (a) every live user string is exactly one literal, in order, decoded back to the original
			if fmt.Sprintf("%q", literals(ts, true)) != fmt.Sprintf("%q", live) {
				fails = append(fails, "strings_are_single_literals")
			}
			// (b) structure does not depend on the strings
			vb := api.NewVerifSQL(metric, q.by, toTagFilters(benign(q.fin), mIn), toTagFilters(benign(q.fnot), mNot))
			tb, okb := chLex(vb.Where(lod, q.mode))
			if !okb || skeleton(tb) != skeleton(ts) {
				fails = append(fails, "structure_independent_of_strings")
			}
			// (c) the condition selects exactly the rows of the specification
			for k := 0; k < 3; k++ {
				rw := genRow(r, q)
				got, okp := evalWhere(ts, rw, alias)
				if !okp {
					fails = append(fails, "where_well_formed")
					break
				}
				if got != q.specSelected(rw) {
					fails = append(fails, "where_selects_exactly")
				}
				rowTerms = append(rowTerms, rowTerm(rw, got))
				if got {
					o.Hist["row/selected"]++
				} else {
					o.Hist["row/rejected"]++
				}
			}
		}
		// (d) the complete queries: series / tag values / tag value ids. The parts around the where-clause take no
		// user string: they depend on what/by/sort/numResults/tag index/lod/utcOffset/settings only. Checked here:
		// the full text contains the clause once, lexes as a whole, has no literal outside the clause, and the
		// surrounding text is byte-identical for the query with harmless strings.
		fullTerm := ""
		if metric != nil {
			tagIndex := 0
			if q.mode != 0 {
				if len(metric.Tags) == 0 {
					tagIndex = -1
				} else {
					tagIndex = r.Intn(len(metric.Tags))
				}
			}
			if tagIndex >= 0 {
				var what []int
				for k, nk := 0, 1+r.Intn(3); k < nk; k++ {
					what = append(what, 1+r.Intn(int(data_model.DigestLast)-1))
				}
				mm := [2]bool{r.Chance(30), r.Chance(30)}
				srt := r.Intn(3)
				nres := r.Intn(1000)
				settings := []string{"", " SETTINGS optimize_aggregation_in_order=1", " SETTINGS max_threads=4,max_execution_time=30"}[r.Intn(3)]
				build := func(fin, fnot []tfilter) (string, error) {
					v2 := api.NewVerifSQL(metric, q.by, toTagFilters(fin, mIn), toTagFilters(fnot, mNot))
					v2.SetSelect(what, mm, srt, nres)
					return v2.Full(lod, q.mode, tagIndex, settings)
				}
				full, err := build(q.fin, q.fnot)
				fullB, errB := build(benign(q.fin), benign(q.fnot))
				whereB := api.NewVerifSQL(metric, q.by, toTagFilters(benign(q.fin), mIn), toTagFilters(benign(q.fnot), mNot)).Where(lod, q.mode)
				if err != nil || errB != nil || strings.Count(full, where) != 1 || strings.Count(fullB, whereB) != 1 {
					fails = append(fails, "full_query_contains_where")
				} else {
					idx := strings.Index(full, where)
					pre, suf := full[:idx], full[idx+len(where):]
					idxB := strings.Index(fullB, whereB)
					if pre != fullB[:idxB] || suf != fullB[idxB+len(whereB):] {
						fails = append(fails, "select_parts_independent_of_filters")
					}
					tf, okf := chLex(full)
					tp, okp := chLex(pre)
					tsf, oks := chLex(suf)
					switch {
					case !okf || !okp || !oks:
						fails = append(fails, "full_query_lexes")
					case fmt.Sprintf("%q", literals(tf, true)) != fmt.Sprintf("%q", live):
						fails = append(fails, "full_query_literals")
					case len(literals(tp, false)) != 0 || len(literals(tsf, false)) != 0:
						fails = append(fails, "select_parts_have_no_literals")
					}
					fullTerm = fmt.Sprintf("CFull %s %s %s", q.term(), strZ(pre), strZ(suf))
				}
				o.Hist["full/mode"+strconv.Itoa(q.mode)]++
			}
		}
		kinds := []string{"where/mode" + strconv.Itoa(q.mode)}
		if hostile {
			kinds = append(kinds, "where/hostile")
		}
		if !q.hasMetric {
			kinds = append(kinds, "where/nometric")
		}
		term := fmt.Sprintf("CWhere %s %s [%s]", q.term(), strZ(where), strings.Join(rowTerms, "; "))
		line := o.Case(input, term, hostile, kinds...)
		for _, f := range fails {
			o.Fail(f, line, input)
		}
		if fullTerm != "" {
			o.Case("full "+input, fullTerm, hostile, "fullcase/mode"+strconv.Itoa(q.mode))
		}
	}
}
