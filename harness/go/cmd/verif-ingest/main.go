//go:build verif

// Correspondence harness for C12 (ingestion accepts only valid events and accounts for every rejected one).
// One case = one event handled by the real Agent.Map/MapEnvironment + Agent.shard + Agent.ApplyMetric on a fresh
// agent with several shards; every row of every bucket is read back and printed for Ingest/Corr.v.
// The property's clauses are evaluated here as oracles on the implementation's own rows (o.Fail).
package main

import (
	"flag"
	"fmt"
	"math"
	"math/big"
	"strings"
	"time"
	"unicode/utf8"

	"github.com/VKCOM/statshouse/internal/agent"
	"github.com/VKCOM/statshouse/internal/data_model/gen2/tl"
	"github.com/VKCOM/statshouse/internal/data_model/gen2/tlstatshouse"
	"github.com/VKCOM/statshouse/internal/format"
	vu "github.com/VKCOM/statshouse/internal/verifutil"
)

// ---------------------------------------------------------------- printing

func segs(b []byte) string {
	if len(b) == 0 {
		return "[]"
	}
	var parts []string
	var lit []string
	flush := func() {
		if len(lit) > 0 {
			parts = append(parts, "L ["+strings.Join(lit, ";")+"]")
			lit = nil
		}
	}
	for i := 0; i < len(b); {
		j := i
		for j < len(b) && b[j] == b[i] {
			j++
		}
		if j-i >= 6 {
			flush()
			parts = append(parts, fmt.Sprintf("R %d x%02x", j-i, b[i]))
		} else {
			for k := i; k < j; k++ {
				lit = append(lit, fmt.Sprintf("x%02x", b[k]))
			}
		}
		i = j
	}
	flush()
	return "[" + strings.Join(parts, ";") + "]"
}

func ratOf(f float64) (string, string) {
	r := new(big.Rat).SetFloat64(f)
	n := r.Num().String()
	if r.Num().Sign() < 0 {
		n = "(" + n + ")"
	}
	return n, r.Denom().String()
}

func fval(f float64) string {
	switch {
	case math.IsNaN(f):
		return "Nn"
	case math.IsInf(f, 1):
		return "Pi"
	case math.IsInf(f, -1):
		return "Ni"
	}
	n, d := ratOf(f)
	if d == "1" {
		return "(I " + n + ")"
	}
	return "(D " + n + " " + d + ")"
}

func qq(f float64) string { return fval(f) }

func shortF(f float64) string { return fmt.Sprintf("%g", f) }

func isStatusShape(rw agent.VerifIngestRow) bool {
	if rw.ValueSet || rw.Uniq != 0 || rw.Digest || rw.HostI != 0 || rw.HostS != "" {
		return false
	}
	for i := 0; i < format.MaxTags; i++ {
		if rw.STags[i] != "" || (i > 4 && rw.Tags[i] != 0) {
			return false
		}
	}
	return true
}

// ---------------------------------------------------------------- event grammar

type tagSpec struct {
	name, value []byte
}

type event struct {
	counter float64
	values  []float64
	hist    [][2]float64
	uniq    []int64
	tags    []tagSpec
	ts      uint32
	host    string
}

var above = math.Nextafter(math.MaxFloat32, math.Inf(1))
var below = math.Nextafter(math.MaxFloat32, 0)

var badFloats = []float64{math.NaN(), math.Inf(1), math.Inf(-1), above, -above, math.MaxFloat64, -math.MaxFloat64}
var edgeFloats = []float64{math.MaxFloat32, -math.MaxFloat32, below, -below}

func goodValue(r *vu.Rng) float64 {
	switch r.Intn(10) {
	case 0:
		return 0
	case 1:
		return -float64(r.Intn(50))
	case 2:
		return float64(r.Intn(4000)) / 8
	case 3:
		return math.Copysign(0, -1)
	case 4:
		return float64(r.Intn(1 << 20))
	default:
		return float64(r.Intn(100))
	}
}

func goodWeight(r *vu.Rng) float64 {
	switch r.Intn(8) {
	case 0:
		return 0
	case 1:
		return 0.5
	case 2:
		return float64(r.Intn(64)) / 4
	default:
		return float64(1 + r.Intn(9))
	}
}

func goodCounter(r *vu.Rng) float64 {
	switch r.Intn(10) {
	case 0, 1, 2, 3:
		return 0
	case 4:
		return 0.5
	case 5:
		return float64(1+r.Intn(400)) / 4
	case 6:
		return math.Copysign(0, -1)
	default:
		return float64(1 + r.Intn(40))
	}
}

var knownNames = []string{"0", "1", "2", "3", "4", "5", "6", "9", "15", "16", "20", "46", "47", "_s", "_h", "color", "size", "env", "stop"}
var legacyNames = []string{"key0", "key1", "key2", "key3", "key5", "key15", "skey", "key16"}
var unknownNames = []string{"nope", "48", "99", "colour", "key99", "drafty", "drafty2", "", " padded  name ", "tab\tname", "x", "_x"}
var badNames = []string{"\xff\xfe", "bad\x80name", "\xc3", "ok\xed\xa0\x80", " \t\n\v\f\r lead\xff", strings.Repeat("n", 63) + "\xff\xfe\xfd", strings.Repeat("\xfe", 140)}

var plainValues = []string{"prod", "a", "b", "staging", "h1", "zz top", "stop1", "x1"}
var dirtyValues = []string{" a  b ", "tab\there", "trail ", " nbsp", "new\nline", "nul\x00byte"}
var badValues = []string{"\xff", "abc\x80", "\xc3(", "\xf0\x9f", "  \r\n x\xff", strings.Repeat("ab", 32) + "\xff", strings.Repeat("q", 64) + "\x80", "\x1f\xff"}
var rawValues = []string{"0", "1", "123", "-5", "+7", "4294967295", "4294967296", "-2147483648", "-2147483649", "abc", "12a", "1.5",
	"12345678901234", "-9223372036854775808", "18446744073709551615", "18446744073709551616", "-1", " 1", "007"}

const corruptedPattern = "\x39\x02\x58\x56"

func pick(r *vu.Rng, xs []string) string { return xs[r.Intn(len(xs))] }

func genValue(r *vu.Rng, rawish bool) []byte {
	switch x := r.Intn(100); {
	case x < 8:
		return []byte{}
	case x < 14:
		return []byte(pick(r, dirtyValues))
	case x < 17:
		n := 120 + r.Intn(14)
		return []byte(strings.Repeat("v", n))
	case rawish || x < 35:
		return []byte(pick(r, rawValues))
	default:
		return []byte(pick(r, plainValues))
	}
}

// defect kinds injected into an otherwise valid event
const (
	dNone = iota
	dCounterBad
	dCounterNeg
	dValueBad
	dHistValueBad
	dHistWeightBad
	dHistWeightNeg
	dBothSet
	dEmpty
	dTagNameBad
	dTagValueBad
	dTagValueCorrupted
	dDisabled
	dShardFail
	dZeroWeightHist
	nDefects
)

var defectNames = []string{"none", "counter_bad", "counter_neg", "value_bad", "hist_value_bad", "hist_weight_bad", "hist_weight_neg",
	"both_set", "empty", "tag_name_bad", "tag_value_bad", "tag_value_corrupted", "disabled", "shard_fail", "zero_weight_hist"}

func genEvent(r *vu.Rng, cur uint32, defect int) event {
	var e event
	e.counter = goodCounter(r)
	switch r.Intn(10) {
	case 0, 1: // counter only
		if e.counter == 0 {
			e.counter = float64(1 + r.Intn(10))
		}
	case 2, 3: // uniques
		for i, n := 0, 1+r.Intn(4); i < n; i++ {
			u := int64(r.Intn(6)) * 1000
			if r.Chance(20) {
				u = -u - 7
			}
			if r.Chance(5) {
				u = int64(1)<<40 + int64(r.Intn(3))
			}
			e.uniq = append(e.uniq, u)
		}
	case 4, 5: // histogram (maybe with values)
		for i, n := 0, 1+r.Intn(3); i < n; i++ {
			e.hist = append(e.hist, [2]float64{goodValue(r), goodWeight(r)})
		}
		for i, n := 0, r.Intn(3); i < n; i++ {
			e.values = append(e.values, goodValue(r))
		}
	default: // values
		for i, n := 0, 1+r.Intn(5); i < n; i++ {
			e.values = append(e.values, goodValue(r))
		}
		if r.Chance(15) { // all equal (no digest)
			for i := range e.values {
				e.values[i] = e.values[0]
			}
		}
	}
	if r.Chance(6) { // boundary values that are still valid; kept alone so that float64 sums stay exact
		v := edgeFloats[r.Intn(len(edgeFloats))]
		e.uniq, e.hist = nil, nil
		e.values = []float64{v}
		if r.Chance(50) {
			e.counter = math.MaxFloat32
		} else if r.Chance(50) {
			e.counter = 0
		}
	}
	// tags
	used := map[string]bool{}
	for i, n := 0, r.Intn(6); i < n; i++ {
		var name string
		switch x := r.Intn(100); {
		case x < 70:
			name = pick(r, knownNames)
		case x < 80:
			name = pick(r, legacyNames)
		default:
			name = pick(r, unknownNames)
		}
		if used[name] && !r.Chance(25) { // a tag set twice only sometimes
			continue
		}
		used[name] = true
		rawish := name == "2" || name == "3" || name == "key2" || name == "key3" || name == "size"
		e.tags = append(e.tags, tagSpec{[]byte(name), genValue(r, rawish && r.Chance(80))})
	}
	// timestamp
	switch r.Intn(12) {
	case 0:
		e.ts = 0
	case 1:
		e.ts = cur + 3
	case 2:
		e.ts = cur + 4
	case 3:
		e.ts = cur + uint32(r.Intn(2000))
	case 4:
		e.ts = cur - uint32(r.Intn(300))
	case 5:
		e.ts = uint32(1 + r.Intn(5))
	default:
		e.ts = cur - uint32(r.Intn(3))
	}
	if r.Chance(25) {
		e.host = pick(r, []string{"h1", "hostx", "prod"})
	}
	// defect
	insTag := func(t tagSpec) {
		p := r.Intn(len(e.tags) + 1)
		e.tags = append(e.tags[:p], append([]tagSpec{t}, e.tags[p:]...)...)
	}
	bad := badFloats[r.Intn(len(badFloats))]
	switch defect {
	case dCounterBad:
		e.counter = bad
		if e.counter < 0 { // negative is its own kind
			e.counter = -e.counter
		}
	case dCounterNeg:
		e.counter = []float64{-1, -0.5, -math.MaxFloat32, math.Inf(-1), -above, -math.SmallestNonzeroFloat64 * (1 << 52)}[r.Intn(6)]
	case dValueBad:
		e.uniq = nil
		e.values = append(e.values, goodValue(r))
		e.values[r.Intn(len(e.values))] = bad
	case dHistValueBad:
		e.uniq = nil
		e.hist = append(e.hist, [2]float64{bad, goodWeight(r)})
	case dHistWeightBad:
		e.uniq = nil
		w := bad
		if w < 0 {
			w = -w
		}
		e.hist = append(e.hist, [2]float64{goodValue(r), w})
	case dHistWeightNeg:
		e.uniq = nil
		e.hist = append(e.hist, [2]float64{goodValue(r), -float64(1+r.Intn(3)) / 2})
	case dBothSet:
		if len(e.uniq) == 0 {
			e.uniq = []int64{int64(r.Intn(9))}
		}
		if len(e.values)+len(e.hist) == 0 {
			if r.Bool() {
				e.values = []float64{goodValue(r)}
			} else {
				e.hist = [][2]float64{{goodValue(r), goodWeight(r)}}
			}
		}
		if r.Chance(20) {
			e.counter = bad // both-set wins over everything
		}
	case dEmpty:
		e.uniq, e.values, e.hist = nil, nil, nil
		e.counter = math.Copysign(0, float64(1-2*r.Intn(2)))
	case dTagNameBad:
		insTag(tagSpec{[]byte(pick(r, badNames)), genValue(r, false)})
	case dTagValueBad:
		insTag(tagSpec{[]byte(pick(r, knownNames)), []byte(pick(r, badValues))})
	case dTagValueCorrupted:
		v := pick(r, []string{"", "ab", "prod "}) + corruptedPattern + pick(r, []string{"", "x", "\xff"})
		insTag(tagSpec{[]byte(pick(r, knownNames)), []byte(v)})
	case dZeroWeightHist:
		e.uniq, e.values = nil, nil
		e.hist = [][2]float64{{goodValue(r), 0}}
		if r.Bool() {
			e.hist = append(e.hist, [2]float64{goodValue(r), math.Copysign(0, -1)})
		}
		if r.Bool() {
			e.counter = 0
		} else {
			e.counter = float64(1 + r.Intn(9))
		}
	}
	return e
}

// ---------------------------------------------------------------- meta

type metaSpec struct {
	disabled, percentiles bool
	fixedKey, fixedKey2   uint32
	key2ts                uint32
}

func buildMeta(ms metaSpec) *format.MetricMetaValue {
	m := &format.MetricMetaValue{MetricID: 77, Name: "verif_metric", Kind: format.MetricKindValue, Resolution: 1}
	m.Tags = make([]format.MetricMetaTag, 16)
	m.Tags[1].Name = "color"
	m.Tags[2].RawKind = "int"
	m.Tags[3].RawKind = "int64"
	m.Tags[5].Name = "size"
	m.Tags[5].RawKind = "uint"
	m.StringTopName = "stop"
	m.TagsDraft = map[string]format.MetricMetaTag{"drafty": {Name: "drafty"}, "padded name": {Name: "padded name"}}
	if ms.percentiles {
		m.Kind = format.MetricKindValuePercentiles
	}
	_ = m.RestoreCachedInfo()
	m.Disable = ms.disabled
	m.ShardStrategy = format.ShardFixed
	m.ShardFixedKey = ms.fixedKey
	m.ShardFixedKey2 = ms.fixedKey2
	m.ShardFixedKey2Timestamp = ms.key2ts
	return m
}

// ---------------------------------------------------------------- the property, stated over Go values (oracle side)

func finiteIn(f float64) bool { return !math.IsNaN(f) && f >= -math.MaxFloat32 && f <= math.MaxFloat32 }

type tagRes struct {
	found  bool
	draft  bool
	index  int32
	kind   string
	legacy bool
}

// validity exactly as the property lists it
func validEvent(e event, res []tagRes) bool {
	if !finiteIn(e.counter) || e.counter < 0 {
		return false
	}
	for _, v := range e.values {
		if !finiteIn(v) {
			return false
		}
	}
	for _, h := range e.hist {
		if !finiteIn(h[0]) || !finiteIn(h[1]) || h[1] < 0 {
			return false
		}
	}
	if len(e.values)+len(e.hist) != 0 && len(e.uniq) != 0 {
		return false
	}
	if len(e.values)+len(e.hist) == 0 && len(e.uniq) == 0 && e.counter == 0 {
		return false
	}
	for i, t := range e.tags {
		if !res[i].found {
			if !utf8.Valid(t.name) {
				return false
			}
		} else {
			if !utf8.Valid(t.value) || strings.Contains(string(t.value), corruptedPattern) {
				return false
			}
		}
	}
	return true
}

func zeroWeightHist(e event) bool {
	if len(e.values) != 0 || len(e.hist) == 0 || len(e.uniq) != 0 {
		return false
	}
	t := 0.0
	for _, h := range e.hist {
		t += h[1]
	}
	return t <= 0
}

// is `code` a reason that really holds for this event?
func reasonHolds(code int32, e event, res []tagRes, disabled bool) bool {
	anyTag := func(f func(i int) bool) bool {
		for i := range e.tags {
			if f(i) {
				return true
			}
		}
		return false
	}
	switch code {
	case format.TagValueIDSrcIngestionStatusErrMetricDisabled:
		return disabled
	case format.TagValueIDSrcIngestionStatusErrValueUniqueBothSet:
		return len(e.values)+len(e.hist) != 0 && len(e.uniq) != 0
	case format.TagValueIDSrcIngestionStatusErrZeroCounter:
		return len(e.values)+len(e.hist) == 0 && len(e.uniq) == 0 && e.counter == 0
	case format.TagValueIDSrcIngestionStatusErrNanInfCounter:
		if math.IsNaN(e.counter) {
			return true
		}
		for _, h := range e.hist {
			if math.IsNaN(h[1]) {
				return true
			}
		}
	case format.TagValueIDSrcIngestionStatusErrNegativeCounter:
		if e.counter < 0 {
			return true
		}
		for _, h := range e.hist {
			if h[1] < 0 {
				return true
			}
		}
	case format.TagValueIDSrcIngestionStatusErrTooBigCounter:
		if e.counter > math.MaxFloat32 {
			return true
		}
		for _, h := range e.hist {
			if h[1] > math.MaxFloat32 {
				return true
			}
		}
	case format.TagValueIDSrcIngestionStatusErrNanInfValue:
		for _, v := range e.values {
			if math.IsNaN(v) {
				return true
			}
		}
		for _, h := range e.hist {
			if math.IsNaN(h[0]) {
				return true
			}
		}
	case format.TagValueIDSrcIngestionStatusErrTooBigValue:
		for _, v := range e.values {
			if v > math.MaxFloat32 || v < -math.MaxFloat32 {
				return true
			}
		}
		for _, h := range e.hist {
			if h[0] > math.MaxFloat32 || h[0] < -math.MaxFloat32 {
				return true
			}
		}
	case format.TagValueIDSrcIngestionStatusErrMapTagNameEncoding:
		return anyTag(func(i int) bool { return !res[i].found && !utf8.Valid(e.tags[i].name) })
	case format.TagValueIDSrcIngestionStatusErrMapTagValueEncoding:
		return anyTag(func(i int) bool { return res[i].found && !utf8.Valid(e.tags[i].value) })
	case format.TagValueIDSrcIngestionStatusErrMapTagValueCorrupted:
		return anyTag(func(i int) bool { return res[i].found && strings.Contains(string(e.tags[i].value), corruptedPattern) })
	}
	return false
}

var okOrWarning = map[int32]bool{
	format.TagValueIDSrcIngestionStatusOKCached:                   true,
	format.TagValueIDSrcIngestionStatusWarnMapTagNameNotFound:     true,
	format.TagValueIDSrcIngestionStatusWarnMapTagNameFoundDraft:   true,
	format.TagValueIDSrcIngestionStatusWarnMapTagSetTwice:         true,
	format.TagValueIDSrcIngestionStatusWarnMapInvalidRawTagValue:  true,
	format.TagValueIDSrcIngestionStatusWarnDeprecatedKeyName:      true,
	format.TagValueIDSrcIngestionStatusWarnTimestampClampedFuture: true,
}

// ---------------------------------------------------------------- one case

type cacheEntry struct {
	s  string
	id int32
}

var cachePool = []cacheEntry{{"prod", 11}, {"a", 12}, {"h1", 13}, {"nope", 14}, {"stop1", 15}, {"padded name", 16}, {"123", 17}}

const nShards = 3

var cacheMasks = []int{0x7f, 0x7f, 0x00, 0x2b, 0x55, 0x1e, 0x71, 0x0f, 0x6a}
var agents = map[int]*agent.VerifIngest{}

func runCase(o *vu.Out, r *vu.Rng, idx int, defect int) {
	cur := uint32(1_700_000_000 + r.Intn(1000))
	ms := metaSpec{percentiles: r.Chance(40)}
	ms.fixedKey = uint32(1 + r.Intn(nShards))
	if r.Chance(35) {
		ms.fixedKey2 = uint32(1 + r.Intn(nShards+1))
		if r.Chance(40) {
			ms.key2ts = cur + uint32(r.Intn(9)) - 4
		}
	}
	if defect == dDisabled {
		ms.disabled = true
	}
	if defect == dShardFail {
		ms.fixedKey = uint32(nShards + 1 + r.Intn(3))
	}
	meta := buildMeta(ms)
	e := genEvent(r, cur, defect)

	// one agent per mapping-cache content (the cache allocates a 1 MB scratch); buckets are emptied between cases
	mask := cacheMasks[r.Intn(len(cacheMasks))]
	var cache []cacheEntry
	for i, c := range cachePool {
		if mask&(1<<i) != 0 {
			cache = append(cache, c)
		}
	}
	v := agents[mask]
	if v == nil {
		v = agent.NewVerifIngest(cur, nShards)
		for _, c := range cache {
			v.Q.AddMapping(cur, c.s, c.id)
		}
		agents[mask] = v
	}
	v.Reset(cur)
	// what the metric description says about each tag name (observed; the name tables are not modelled)
	res := make([]tagRes, len(e.tags))
	var tagTerms, tagTxt []string
	for i, t := range e.tags {
		tm, legacy := meta.Name2TagAgentFastBytes(t.name)
		rs := "(RNone false)"
		if tm == nil {
			if nk, err := format.AppendValidStringValue(nil, t.name); err == nil {
				_, res[i].draft = meta.GetTagDraft(nk)
			}
			if res[i].draft {
				rs = "(RNone true)"
			}
		} else {
			kind := "KPlain"
			if tm.Raw64() {
				kind = "KRaw64"
			} else if tm.Raw() {
				kind = "KRaw"
			}
			res[i] = tagRes{found: tm.Index < format.MaxTags, index: tm.Index, kind: kind, legacy: legacy}
			rs = fmt.Sprintf("(RTag %s %s %s)", vu.Z(int64(tm.Index)), kind, vu.B(legacy))
		}
		tagTerms = append(tagTerms, fmt.Sprintf("OT %s %s %s", segs(t.name), segs(t.value), rs))
		tagTxt = append(tagTxt, fmt.Sprintf("%q=%q", t.name, t.value))
	}
	// the event as the receiver hands it over
	mb := &tlstatshouse.MetricBytes{Name: []byte(meta.Name), Counter: e.counter, Ts: e.ts}
	mb.Value = append([]float64{}, e.values...)
	mb.Unique = append([]int64{}, e.uniq...)
	mb.Histogram = append([][2]float64{}, e.hist...)
	for _, t := range e.tags {
		mb.Tags = append(mb.Tags, tl.DictFieldStringStringBytes{Key: append(make([]byte, 0, 8), t.name...), Value: append(make([]byte, 0, 8), t.value...)})
	}
	sh1, sh1ok, sh2, _ := v.Handle(mb, meta, e.ts, e.host, time.Unix(int64(cur), 0))
	rows := v.Rows()

	// ---- case term
	var cacheT, valT, histT, uniqT, rowT []string
	// only the cache entries some string of this event can hit are printed (the others cannot influence the outcome;
	// a wrong omission would show up as a model/implementation mismatch)
	relevant := map[string]bool{e.host: true}
	for _, t := range e.tags {
		for _, b := range [][]byte{t.name, t.value} {
			if nb, err := format.AppendValidStringValue(nil, b); err == nil {
				relevant[string(nb)] = true
			}
		}
	}
	for _, c := range cache {
		if relevant[c.s] {
			cacheT = append(cacheT, fmt.Sprintf("CE %s %d", segs([]byte(c.s)), c.id))
		}
	}
	for _, x := range e.values {
		valT = append(valT, fval(x))
	}
	for _, h := range e.hist {
		histT = append(histT, "H "+fval(h[0])+" "+fval(h[1]))
	}
	for _, u := range e.uniq {
		uniqT = append(uniqT, vu.Z(u))
	}
	for _, rw := range rows {
		var ks []string
		for i := 0; i < format.MaxTags; i++ {
			if rw.Tags[i] != 0 || rw.STags[i] != "" {
				ks = append(ks, fmt.Sprintf("K %d %s %s", i, vu.Z(int64(rw.Tags[i])), segs([]byte(rw.STags[i]))))
			}
		}
		ag := "ONone"
		if rw.ValueSet {
			ag = fmt.Sprintf("(OA %s %s %s %s)", qq(rw.Min), qq(rw.Max), qq(rw.Sum), qq(rw.SumSq))
		}
		// lossless abbreviation of an ingestion-status record in its usual shape (Corr.expand_row)
		if isStatusShape(rw) {
			rowT = append(rowT, fmt.Sprintf("OS %d %s %d %s %s %s %s %s %s %s %s", rw.Shard, vu.Z(int64(rw.Metric)), rw.Ts,
				vu.Z(int64(rw.Tags[0])), vu.Z(int64(rw.Tags[1])), vu.Z(int64(rw.Tags[2])), vu.Z(int64(rw.Tags[3])), vu.Z(int64(rw.Tags[4])),
				vu.Z(int64(rw.TopI)), segs([]byte(rw.TopS)), qq(rw.Count)))
			continue
		}
		rowT = append(rowT, fmt.Sprintf("OR %d %s %d [%s] %s %s %s %s %s %s %d %s", rw.Shard, vu.Z(int64(rw.Metric)), rw.Ts, strings.Join(ks, ";"),
			vu.Z(int64(rw.TopI)), segs([]byte(rw.TopS)), vu.Z(int64(rw.HostI)), segs([]byte(rw.HostS)), qq(rw.Count), ag, rw.Uniq, vu.B(rw.Digest)))
	}
	term := fmt.Sprintf("CEv [%s] %d (mkMeta %d %s %s) (mkRoute %d %s %s %d) %s [%s] [%s] [%s] [%s] %d %s [%s]",
		strings.Join(cacheT, ";"), cur, meta.MetricID, vu.B(meta.Disable), vu.B(meta.HasPercentiles),
		sh1, vu.B(sh1ok), vu.OptZ(sh2 >= 0, int64(sh2)), meta.ShardFixedKey2Timestamp,
		fval(e.counter), strings.Join(valT, ";"), strings.Join(histT, ";"), strings.Join(uniqT, ";"), strings.Join(tagTerms, ";"),
		e.ts, segs([]byte(e.host)), strings.Join(rowT, ";"))

	var vs, hs []string
	for _, x := range e.values {
		vs = append(vs, shortF(x))
	}
	for _, h := range e.hist {
		hs = append(hs, shortF(h[0])+":"+shortF(h[1]))
	}
	var cs []string
	for _, c := range cache {
		cs = append(cs, c.s)
	}
	input := fmt.Sprintf("#%d defect=%s counter=%s values=[%s] hist=[%s] uniq=%v tags=[%s] ts=cur%+d host=%q meta{disabled=%v pct=%v fk=%d fk2=%d fk2ts=cur%+d} cache=%v",
		idx, defectNames[defect], shortF(e.counter), strings.Join(vs, " "), strings.Join(hs, " "), e.uniq, strings.Join(tagTxt, " "),
		int64(e.ts)-int64(cur), e.host, meta.Disable, meta.HasPercentiles, meta.ShardFixedKey, meta.ShardFixedKey2,
		int64(meta.ShardFixedKey2Timestamp)-int64(cur), cs)
	if len(input) > 600 {
		input = input[:600] + "…"
	}

	valid := validEvent(e, res)
	accepted := valid && !meta.Disable && sh1ok
	kinds := []string{"defect/" + defectNames[defect]}
	if accepted {
		kinds = append(kinds, "accepted")
	} else {
		kinds = append(kinds, "rejected")
	}
	if sh2 >= 0 {
		kinds = append(kinds, "secondary_shard")
	}
	line := o.Case(input, term, len(e.tags) > 0 || defect != dNone, kinds...)

	// ---- oracles: the property evaluated on the implementation's own rows
	zw := zeroWeightHist(e)
	name := func(s string) string {
		if zw {
			return s + "_zero_weight_hist" // exactly the pattern of finding F-C12a, kept under its own name
		}
		return s
	}
	var metricRows, statusRows []agent.VerifIngestRow
	for _, rw := range rows {
		switch rw.Metric {
		case meta.MetricID:
			metricRows = append(metricRows, rw)
		case format.BuiltinMetricIDIngestionStatus, format.BuiltinMetricIDIngestionStatusNoShard:
			statusRows = append(statusRows, rw)
		default:
			o.Fail("unexpected_row", line, input)
		}
	}
	targets := []int{sh1}
	if sh2 >= 0 && sh1ok {
		targets = append(targets, sh2)
	}
	curDropped := func(sh int) bool { return sh == sh2 && sh1ok && cur < meta.ShardFixedKey2Timestamp }
	if !accepted {
		// "every other event contributes nothing but one ingestion-status record naming the reason"
		if len(metricRows) != 0 {
			o.Fail("rejected_contributes_nothing", line, input)
		}
		for _, sh := range targets {
			var here []agent.VerifIngestRow
			for _, rw := range statusRows {
				if rw.Shard == sh {
					here = append(here, rw)
				}
			}
			want := 1
			if curDropped(sh) {
				want = 0
			}
			if len(here) != want {
				o.Fail("rejected_exactly_one_status_row", line, input)
				continue
			}
			if want == 1 {
				code := here[0].Tags[2]
				if here[0].Count != 1 || here[0].Tags[1] != meta.MetricID {
					o.Fail("rejected_exactly_one_status_row", line, input)
				}
				if !sh1ok {
					if code != format.TagValueIDSrcIngestionStatusErrShardingFailed {
						o.Fail("status_names_reason", line, input)
					}
				} else if !reasonHolds(code, e, res, meta.Disable) {
					o.Fail("status_names_reason", line, input)
				}
			}
		}
		if len(statusRows) > len(targets) {
			o.Fail("rejected_exactly_one_status_row", line, input)
		}
		return
	}
	// accepted: exactly one OK record per target shard, and the event's own row
	for _, sh := range targets {
		n := 0
		for _, rw := range statusRows {
			if rw.Shard == sh && rw.Tags[2] == format.TagValueIDSrcIngestionStatusOKCached {
				n++
				if rw.Count != 1 {
					o.Fail("accepted_one_ok_record", line, input)
				}
			}
			if rw.Shard == sh && !okOrWarning[rw.Tags[2]] {
				o.Fail("accepted_no_error_record", line, input)
			}
		}
		want := 1
		if curDropped(sh) {
			want = 0
		}
		if n != want {
			o.Fail("accepted_one_ok_record", line, input)
		}
	}
	var mine *agent.VerifIngestRow
	for i := range metricRows {
		if metricRows[i].Shard == sh1 {
			mine = &metricRows[i]
		}
	}
	if mine == nil || !(mine.Count > 0) {
		o.Fail(name("valid_event_contributes"), line, input)
		return
	}
	// the secondary shard (resharding in progress) must receive the same contribution and the same records
	if sh2 >= 0 {
		drop := meta.ShardFixedKey2Timestamp
		var other *agent.VerifIngestRow
		for i := range metricRows {
			if metricRows[i].Shard == sh2 {
				other = &metricRows[i]
			}
		}
		if mine.Ts >= drop {
			switch {
			case other == nil:
				o.Fail(name("secondary_shard_same_row"), line, input)
			case other.Tags != mine.Tags || other.STags != mine.STags || other.Ts != mine.Ts || other.Count != mine.Count || other.Sum != mine.Sum ||
				other.SumSq != mine.SumSq || other.Min != mine.Min || other.Max != mine.Max || other.Uniq != mine.Uniq || other.Digest != mine.Digest ||
				other.HostI != mine.HostI || other.HostS != mine.HostS:
				o.Fail(name("secondary_shard_same_row"), line, input)
			case other.TopI != mine.TopI || other.TopS != mine.TopS:
				if other.TopI == 0 && other.TopS == "" {
					o.Fail("secondary_shard_same_row_string_top", line, input) // the pattern of finding F-C12b
				} else {
					o.Fail(name("secondary_shard_same_row"), line, input)
				}
			}
		} else if other != nil {
			o.Fail("secondary_shard_start_time", line, input)
		}
		if cur >= drop {
			codes := func(sh int) map[int32]int {
				m := map[int32]int{}
				for _, rw := range statusRows {
					if rw.Shard == sh {
						m[rw.Tags[2]]++
					}
				}
				return m
			}
			c1, c2 := codes(sh1), codes(sh2)
			const clampedCode = format.TagValueIDSrcIngestionStatusWarnTimestampClampedFuture
			if c1[clampedCode] != c2[clampedCode] {
				if c1[clampedCode] == 1 && c2[clampedCode] == 0 {
					o.Fail("secondary_shard_same_records_clamped", line, input) // the pattern of finding F-C12c
				} else {
					o.Fail("secondary_shard_same_records", line, input)
				}
			}
			delete(c1, clampedCode)
			delete(c2, clampedCode)
			if len(c1) != len(c2) {
				o.Fail("secondary_shard_same_records", line, input)
			}
			for k, n := range c1 {
				if c2[k] != n {
					o.Fail("secondary_shard_same_records", line, input)
				}
			}
		}
	}
	total := float64(len(e.values))
	wsum, wsq := 0.0, 0.0
	mn, mx := math.Inf(1), math.Inf(-1)
	for _, x := range e.values {
		wsum += x
		wsq += x * x
		mn, mx = math.Min(mn, x), math.Max(mx, x)
	}
	for _, h := range e.hist {
		total += h[1]
		wsum += h[0] * h[1]
		wsq += h[0] * h[0] * h[1]
		mn, mx = math.Min(mn, h[0]), math.Max(mx, h[0])
	}
	if len(e.uniq) > 0 {
		total = float64(len(e.uniq))
		for _, u := range e.uniq {
			x := float64(u)
			wsum += x
			wsq += x * x
			mn, mx = math.Min(mn, x), math.Max(mx, x)
		}
	}
	near := func(a, b float64) bool { return a == b || math.Abs(a-b) <= 1e-9*math.Max(math.Abs(a), math.Abs(b)) }
	if e.counter == 0 {
		// "an absent counter means one event per value (or the histogram weight)"
		if mine.Count != total {
			o.Fail(name("absent_counter_counts_values"), line, input)
		}
		if total > 0 && (!near(mine.Sum, wsum) || !near(mine.SumSq, wsq)) {
			o.Fail(name("absent_counter_counts_values"), line, input)
		}
	} else {
		// "a present counter scales the value aggregates so that count and average match"
		if mine.Count != e.counter {
			o.Fail(name("counter_scales_aggregates"), line, input)
		}
		if total > 0 && (!near(mine.Sum/mine.Count, wsum/total) || !near(mine.SumSq/mine.Count, wsq/total)) {
			o.Fail(name("counter_scales_aggregates"), line, input)
		}
	}
	if total > 0 && (mine.Min != mn || mine.Max != mx) {
		o.Fail(name("min_max_of_values"), line, input)
	}
	if total > 0 && !mine.ValueSet {
		o.Fail(name("min_max_of_values"), line, input)
	}
}

// the minimal witness of finding F-C12a, replayed on the real code every run
func replayFinding(o *vu.Out) {
	cur := uint32(1_700_000_000)
	meta := buildMeta(metaSpec{fixedKey: 1})
	v := agent.NewVerifIngest(cur, nShards)
	mb := &tlstatshouse.MetricBytes{Name: []byte(meta.Name), Counter: 5, Ts: cur, Histogram: [][2]float64{{7, 0}}}
	v.Handle(mb, meta, cur, "", time.Unix(int64(cur), 0))
	okRow, counted := false, false
	for _, rw := range v.Rows() {
		if rw.Metric == format.BuiltinMetricIDIngestionStatus && rw.Tags[2] == format.TagValueIDSrcIngestionStatusOKCached {
			okRow = true
		}
		if rw.Metric == meta.MetricID && rw.Count > 0 {
			counted = true
		}
	}
	if okRow && !counted {
		o.Finding("F-C12a", "reproduced")
	} else {
		o.Finding("F-C12a", "gone")
	}
	// F-C12b / F-C12c: secondary shard gets the key after the primary shard's call has rewritten it
	meta = buildMeta(metaSpec{fixedKey: 1, fixedKey2: 2})
	v = agent.NewVerifIngest(cur, nShards)
	mb = &tlstatshouse.MetricBytes{Name: []byte(meta.Name), Counter: 1, Ts: cur + 10,
		Tags: []tl.DictFieldStringStringBytes{{Key: []byte("_s"), Value: []byte("x")}}}
	v.Handle(mb, meta, cur+10, "", time.Unix(int64(cur), 0))
	top := map[int]string{}
	clamped := map[int]bool{}
	for _, rw := range v.Rows() {
		if rw.Metric == meta.MetricID {
			top[rw.Shard] = rw.TopS
		}
		if rw.Metric == format.BuiltinMetricIDIngestionStatus && rw.Tags[2] == format.TagValueIDSrcIngestionStatusWarnTimestampClampedFuture {
			clamped[rw.Shard] = true
		}
	}
	if top[0] == "x" && top[1] == "" {
		o.Finding("F-C12b", "reproduced")
	} else {
		o.Finding("F-C12b", "gone")
	}
	if clamped[0] && !clamped[1] {
		o.Finding("F-C12c", "reproduced")
	} else {
		o.Finding("F-C12c", "gone")
	}
}

func main() {
	seed := flag.Uint64("seed", 1, "")
	n := flag.Int("n", 2000, "")
	out := flag.String("out", "", "")
	flag.Parse()
	// vu.Rng streams of neighbouring seeds are shifted copies of each other; scramble the seed first
	z := *seed + 0x9E3779B97F4A7C15
	z = (z ^ (z >> 30)) * 0xBF58476D1CE4E5B9
	z = (z ^ (z >> 27)) * 0x94D049BB133111EB
	r := vu.NewRng(z ^ (z >> 31))
	o := vu.NewOut(*out)
	defer o.Close()
	replayFinding(o)
	for i := 0; i < *n; i++ {
		defect := dNone
		if r.Chance(45) {
			defect = 1 + r.Intn(nDefects-1)
		}
		runCase(o, r, i, defect)
	}
}
