//go:build verif

package main

// Journal long-poll cases (C15 "the journal returns each entity's latest version exactly once in ascending version
// order" at the RPC layer): the real metadata.Handler behind a real in-process rpc.Server, 2-3 journal clients at
// different From positions, interleaved with edits that are committed with and without the handler's broadcast.
// Every step is synchronised (a poll either answers or registers as waiting; after a broadcast the set of
// registered waiters tells which clients must receive a response), so the history is deterministic and is replayed
// through Metadata/JournalModel.v.

import (
	"context"
	"fmt"
	"net"
	"os"
	"sort"
	"strings"
	"time"

	"github.com/VKCOM/statshouse/internal/data_model/gen2/tlmetadata"
	"github.com/VKCOM/statshouse/internal/metadata"
	vu "github.com/VKCOM/statshouse/internal/verifutil"
	"github.com/VKCOM/tl/pkg/rpc"
)

type jclient struct {
	start, from int64
	waiting     bool
	ch          chan jresp
	stream      []tlmetadata.Event
}
type jresp struct {
	r   tlmetadata.GetJournalResponsenew
	err error
}

type jcase struct {
	o          *rec
	idx        int
	db         *metadata.DBV2
	h          *metadata.Handler
	cl         *tlmetadata.Client
	clients    []*jclient
	clock      *int64
	jops       []string // Coq terms
	texts      []string
	obs        []string
	tags       map[string]bool
	sh         *shadow
	live       []livePage
	liveFailed bool
}

// hold reads the journal directly and keeps the page alive; check re-reads every kept page
func (j *jcase) hold(since int64) {
	if evs, err := j.db.JournalEvents(ctx, since, 1000); err == nil && len(evs) > 0 {
		j.live = append(j.live, livePage{evs, fmt.Sprint(evs), fmt.Sprintf("J(%d,1000)", since)})
	}
}

func (j *jcase) step(term, text, ob string) {
	checkLive(j.o, j.live, j.idx, text, &j.liveFailed)
	j.jops = append(j.jops, term)
	j.texts = append(j.texts, text)
	j.obs = append(j.obs, ob)
}

// one response delivered to client i for a request with From = from
func (j *jcase) delivered(i int, from int64, r tlmetadata.GetJournalResponsenew, via string) string {
	c := j.clients[i]
	where := fmt.Sprintf("case=%d client=%d from=%d via=%s got=%s current=%d", j.idx, i, from, via, versions(r.Events), r.CurrentVersion)
	last := from
	for _, e := range r.Events {
		// "each entity's latest version exactly once in ascending version order": only versions > From, ascending
		if e.Version <= last {
			j.o.Fail("journal_stream_exactly_once_ascending", 0, where)
			break
		}
		last = e.Version
	}
	if len(r.Events) == 0 || r.CurrentVersion < last {
		j.o.Fail("journal_stream_empty_or_bad_current", 0, where)
	}
	c.stream = append(c.stream, r.Events...)
	c.from = r.CurrentVersion
	c.waiting = false
	return fmt.Sprintf("(%d,%d,%d,%s)", i, len(r.Events), hashZ(journalFlat(r.Events)), vu.Z(r.CurrentVersion))
}

func versions(evs []tlmetadata.Event) string {
	parts := make([]string, len(evs))
	for i, e := range evs {
		parts[i] = fmt.Sprintf("%d:v%d", e.Id, e.Version)
	}
	return "[" + strings.Join(parts, ",") + "]"
}

func (j *jcase) waiters() int { return len(metadata.VerifJournalWaiterFroms(j.h)) }

func (j *jcase) poll(i int, limit int64) {
	c := j.clients[i]
	before := j.waiters()
	from := c.from
	ch := make(chan jresp, 1)
	c.ch = ch
	go func() {
		var r tlmetadata.GetJournalResponsenew
		err := j.cl.GetJournalnew(context.Background(), tlmetadata.GetJournalnew{From: from, Limit: limit}, nil, &r)
		ch <- jresp{r, err}
	}()
	term, text := fmt.Sprintf("JPoll %d %s", i, vu.Z(limit)), fmt.Sprintf("poll(c%d,from=%d,lim=%d)", i, from, limit)
	deadline := time.Now().Add(30 * time.Second)
	for {
		select {
		case x := <-ch:
			if x.err != nil {
				j.o.Fail("unexpected_error", 0, fmt.Sprintf("case=%d %s: %v", j.idx, text, x.err))
				j.step(term, text, "JBs")
				return
			}
			j.step(term, text, "JDel ["+j.delivered(i, from, x.r, "poll")+"]")
			j.tags["poll_answered"] = true
			return
		default:
		}
		if j.waiters() > before {
			c.waiting = true
			j.step(term, text, "JWt")
			j.tags["poll_waits"] = true
			return
		}
		if time.Now().After(deadline) {
			panic("journal poll neither answered nor registered")
		}
		time.Sleep(200 * time.Microsecond)
	}
}

// afterBroadcast collects the responses of every waiting client that is no longer registered
func (j *jcase) afterBroadcast(term, text string) {
	still := map[int64]bool{}
	for _, f := range metadata.VerifJournalWaiterFroms(j.h) {
		still[f] = true
	}
	var ds []string
	froms := map[int64]bool{}
	for i, c := range j.clients {
		if !c.waiting {
			continue
		}
		froms[c.from] = true
		if still[c.from] {
			continue
		}
		from := c.from
		select {
		case x := <-c.ch:
			if x.err != nil {
				j.o.Fail("unexpected_error", 0, fmt.Sprintf("case=%d %s client %d: %v", j.idx, text, i, x.err))
				continue
			}
			ds = append(ds, j.delivered(i, from, x.r, "broadcast"))
			j.tags["broadcast_delivers"] = true
		case <-time.After(30 * time.Second):
			panic("journal client was unregistered but got no response")
		}
	}
	if len(froms) > 1 {
		j.tags["broadcast_waiters_at_different_from"] = true
	}
	j.step(term, text, "JDel ["+strings.Join(ds, "; ")+"]")
}

func (j *jcase) broadcast() {
	metadata.VerifBroadcastJournal(j.h)
	j.afterBroadcast("JBroadcast", "broadcast")
}

// edit commits a SaveEntity; viaRPC = through RawEditEntity (which broadcasts after a successful save)
func (j *jcase) edit(x *op, viaRPC bool) {
	*j.clock = x.now
	var ev tlmetadata.Event
	var err error
	if viaRPC {
		req := tlmetadata.EditEntitynew{Event: tlmetadata.Event{Id: x.id, Name: nameStr(x.p, x.l), Version: x.oldv, Data: dataStr(x.data), EventType: int32(x.typ), Unused: uint32(x.del)}}
		req.Event.SetMetadata(metaStr(x.meta))
		req.SetCreate(x.create)
		err = j.cl.EditEntitynew(context.Background(), req, nil, &ev)
	} else {
		ev, err = j.db.SaveEntity(ctx, nameStr(x.p, x.l), x.id, x.oldv, dataStr(x.data), x.create, uint32(x.del), int32(x.typ), metaStr(x.meta))
	}
	ob := ""
	if err != nil {
		// over RPC the error class is not transported; the direct call classifies it
		if viaRPC {
			ob = "" // compared loosely: see Corr.v (JEr accepts any failure class)
		}
		x.errc = metadata.VerifClassify(err)
		if viaRPC {
			j.step("JEdit ("+x.coq()+")", "rpc"+x.text(), "JEr")
		} else {
			j.step("JEdit ("+x.coq()+")", x.text(), fmt.Sprintf("JOb (XSave %d 0 0 0)", x.errc))
		}
		j.tags["edit_failed"] = true
		return
	}
	_ = ob
	x.ok, x.rid, x.rver, x.rns = true, ev.Id, ev.Version, ev.NamespaceId
	e := j.sh.ents[ev.Id]
	if e == nil {
		e = &sEnt{id: ev.Id, typ: x.typ}
		j.sh.ents[ev.Id] = e
		j.sh.ids = append(j.sh.ids, ev.Id)
	} else {
		e.old = append(e.old, e.ver)
	}
	e.p, e.l, e.ver = x.p, x.l, ev.Version
	j.sh.maxVer = ev.Version
	text := x.text()
	if viaRPC {
		text = "rpc" + text
	}
	j.step("JEdit ("+x.coq()+")", text, fmt.Sprintf("JOb (XSave 0 %s %s %s)", vu.Z(ev.Id), vu.Z(ev.Version), vu.Z(ev.NamespaceId)))
	if len(j.live) < 3 {
		j.hold(0) // a reader that has fetched a page and not consumed it yet
	}
	if viaRPC {
		j.tags["rpc_edit"] = true
		j.afterBroadcast("JBroadcast", "broadcast(after rpc edit)")
	} else {
		j.tags["edit_without_broadcast"] = true
	}
}

func (j *jcase) genEdit(r *vu.Rng, now int64) *op {
	e := j.sh.pick(r)
	if e == nil || r.Chance(45) {
		return &op{kind: kSave, typ: 0, l: 1 + int64(len(j.sh.ids)) + int64(r.Intn(3)), create: true, data: int64(r.Intn(4)), meta: int64(r.Intn(3)), now: now}
	}
	x := &op{kind: kSave, typ: e.typ, p: e.p, l: e.l, id: e.id, oldv: e.ver, data: int64(r.Intn(4)), meta: int64(r.Intn(3)), now: now}
	if r.Chance(12) && len(e.old) > 0 {
		x.oldv = e.old[r.Intn(len(e.old))] // stale: fails
	}
	if r.Chance(15) {
		x.l = 20 + int64(r.Intn(5)) // rename
	}
	return x
}

func runJournalCase(r *vu.Rng, root string, idx int, seed uint64) (o *rec) {
	o = &rec{}
	defer func() {
		if x := recover(); x != nil {
			aborted(o, idx, seed, x)
		}
	}()
	c := config{max: 3, step: 60, bonus: 1, global: 0}
	dir := fmt.Sprintf("%s/j%d", root, idx)
	if err := os.MkdirAll(dir, 0o755); err != nil {
		panic(err)
	}
	defer os.RemoveAll(dir)
	clock := new(int64)
	*clock = 50
	db, err := openDB(clock, dir, "db", true, c)
	if err != nil {
		panic(fmt.Sprint("open: ", err))
	}
	defer db.Close()
	h := metadata.NewHandler(db, "verif", "", func(string, ...interface{}) {})
	proxy := metadata.ProxyHandler{}
	hh := tlmetadata.Handler{RawEditEntitynew: proxy.HandleProxy("", h.RawEditEntity)}
	sh := tlmetadata.Handler{RawGetJournalnew: proxy.HandleProxy("", h.RawGetJournal)}
	server := rpc.NewServer(rpc.ServerWithHandler(hh.Handle), rpc.ServerWithSyncHandler(sh.Handle), rpc.ServerWithLogf(func(string, ...any) {}))
	defer server.Close()
	ln, err := net.Listen("tcp4", "127.0.0.1:0")
	if err != nil {
		panic(err)
	}
	go func() { _ = server.Serve(ln) }()
	rc := rpc.NewClient(rpc.ClientWithProtocolVersion(rpc.LatestProtocolVersion), rpc.ClientWithLogf(func(string, ...any) {}))
	defer rc.Close()
	j := &jcase{o: o, idx: idx, db: db, h: h, clock: clock, tags: map[string]bool{},
		cl: &tlmetadata.Client{Client: rc, Network: "tcp4", Address: ln.Addr().String()},
		sh: &shadow{ents: map[int64]*sEnt{}, keys: map[int64]int64{}, ever: map[int64]bool{}}}
	k := 2 + r.Intn(2)
	var froms []string
	for i := 0; i < k; i++ {
		f := r.Pick(0, 0, 0, 1, 2, 3)
		j.clients = append(j.clients, &jclient{start: f, from: f})
		froms = append(froms, vu.Z(f))
	}
	now := int64(60)
	idle := func() []int {
		var out []int
		for i, c := range j.clients {
			if !c.waiting {
				out = append(out, i)
			}
		}
		return out
	}
	n := 12 + r.Intn(16)
	for s := 0; s < n; s++ {
		now += r.Pick(0, 1, 1, 2, 60)
		x := r.Intn(100)
		id := idle()
		switch {
		case x < 16 && len(id) > 0 && len(id) < len(j.clients):
			// directed: a client is waiting; an edit commits without the broadcast; an idle client reads it and polls
			// again (now waiting at a higher From than the first); only then does the broadcast run
			j.edit(j.genEdit(r, now), false)
			b := id[r.Intn(len(id))]
			j.poll(b, 1000)
			if !j.clients[b].waiting {
				j.poll(b, 1000)
			}
			j.broadcast()
			j.tags["late_broadcast_pattern"] = true
		case x < 22:
			j.edit(j.genEdit(r, now), false)
		case x < 40:
			j.edit(j.genEdit(r, now), true)
		case x < 82 && len(id) > 0:
			j.poll(id[r.Intn(len(id))], r.Pick(1, 2, 3, 1000, 1000, 1000))
		case x < 82:
			j.edit(j.genEdit(r, now), false)
		default:
			j.broadcast()
		}
	}
	// drain: broadcast, then every client polls until it has nothing more to get
	j.broadcast()
	for i, c := range j.clients {
		for g := 0; g < 60 && !c.waiting; g++ {
			j.poll(i, 1000)
		}
	}
	full, err := db.JournalEvents(ctx, 0, 1000)
	if err != nil {
		panic(err)
	}
	kinds := []string{"journal_case"}
	for t := range j.tags {
		kinds = append(kinds, t)
	}
	sort.Strings(kinds)
	o.input = fmt.Sprintf("seed=%d case=%d journal clients_from=[%s] tags=%s steps=%s", seed, idx, strings.Join(froms, ","), strings.Join(kinds, ","), strings.Join(j.texts, " "))
	o.term = fmt.Sprintf("CJournal (Cfg %d %d %d %d) [%s] [%s] [%s]", c.max, c.step, c.bonus, c.global, strings.Join(froms, "; "), strings.Join(j.jops, "; "), strings.Join(j.obs, "; "))
	o.nontrivial = j.tags["broadcast_delivers"] && j.tags["poll_waits"] && j.tags["edit_without_broadcast"]
	o.kinds = kinds
	o.debug = fmt.Sprintf("case=%d journal", idx)
	// per client: the concatenated stream is strictly ascending, above the start, and ends with the latest version of
	// every entity that changed after the start
	for i, c := range j.clients {
		last := c.start
		latest := map[int64]int64{}
		for _, e := range c.stream {
			if e.Version <= last {
				o.Fail("journal_stream_exactly_once_ascending", 0, fmt.Sprintf("case=%d client=%d start=%d stream=%s | %s", idx, i, c.start, versions(c.stream), o.input))
				break
			}
			last = e.Version
			latest[e.Id] = e.Version
		}
		for _, e := range full {
			if e.Version > c.start && latest[e.Id] != e.Version {
				o.Fail("journal_stream_misses_latest_version", 0, fmt.Sprintf("case=%d client=%d start=%d entity=%d latest=%d stream=%s | %s", idx, i, c.start, e.Id, e.Version, versions(c.stream), o.input))
				break
			}
		}
	}
	return o
}
