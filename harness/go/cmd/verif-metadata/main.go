//go:build verif

// Correspondence harness for C15 (versioned edits), C19 (tag mappings, flood limits) and C16 (binlog replay):
// drives the real metadata.OpenDB (SQLite through the overlay link shim, real fsbinlog in a temp dir, scripted
// Options.Now) with generated histories, prints every history with all results and table dumps as a Coq term
// for Metadata/Corr.v, and evaluates the properties' oracles on the implementation's own outputs.
package main

import (
	"context"
	"errors"
	"flag"
	"fmt"
	"io"
	"log"
	"os"
	"path/filepath"
	"sort"
	"strconv"
	"strings"
	"sync"
	"sync/atomic"
	"time"

	"github.com/VKCOM/statshouse/internal/data_model/gen2/tlmetadata"
	"github.com/VKCOM/statshouse/internal/metadata"
	vu "github.com/VKCOM/statshouse/internal/verifutil"
	"github.com/VKCOM/statshouse/internal/vkgo/binlog"
	"github.com/VKCOM/statshouse/internal/vkgo/binlog/fsbinlog"
)

// ---- rendering of the model's numbers as the strings the code sees ----
func nameStr(p, l int64) string {
	if p == 0 {
		return fmt.Sprintf("n%d", l)
	}
	return fmt.Sprintf("n%d:n%d", p, l)
}
func parseName(s string) (p, l int64) {
	if i := strings.Index(s, ":"); i >= 0 {
		p, _ = strconv.ParseInt(s[1:i], 10, 64)
		l, _ = strconv.ParseInt(s[i+2:], 10, 64)
		return
	}
	l, _ = strconv.ParseInt(s[1:], 10, 64)
	return 0, l
}
func dataStr(d int64) string { return fmt.Sprintf("{\"d\":%d}", d) }
func parseData(s string) int64 {
	x, _ := strconv.ParseInt(strings.TrimSuffix(strings.TrimPrefix(s, "{\"d\":"), "}"), 10, 64)
	return x
}
func metaStr(m int64) string { return fmt.Sprintf("m%d", m) }
func parseTail(s string) int64 {
	x, _ := strconv.ParseInt(s[1:], 10, 64)
	return x
}
func keyStr(k int64) string { return fmt.Sprintf("k%d", k) }
func metricStr(m int64) string {
	if m == 0 {
		return "abc2" // the name getFreeCount reads
	}
	return fmt.Sprintf("w%d", m)
}
func parseMetric(s string) int64 {
	if s == "abc2" {
		return 0
	}
	return parseTail(s)
}

const (
	kSave = iota
	kGoc
	kPut
	kDel
	kReset
	kReopen
	kJournal
	kHist
	kGetVer
	kByID
	kByVal
	kNewMaps
)

type op struct {
	kind                   int
	p, l, id, oldv, data   int64
	create                 bool
	del, typ, meta, now    int64
	metric, key, limit     int64
	kvs                    [][2]int64 // (key, id)
	ids                    []int64
	since, page, from, ver int64
	failAppend             bool // run while the binlog refuses the append
	retryOf                *op  // the same request again, right after its refused attempt
	// filled by execution
	failed         bool               // returned the injected binlog error
	jpage          []tlmetadata.Event // the page JournalEvents returned (kept alive, not copied)
	ok             bool
	rid, rver, rns int64
	errc           int
	gkind          int // 0 found 1 created 2 flood
	gid            int64
}

func (o *op) coq() string {
	if o.failAppend {
		x := *o
		x.failAppend = false
		t := x.coq()
		return "OFailAppend (F" + t[1:] + ")" // OSave.. -> FSave.., OGoc -> FGoc, OPut -> FPut, ODel -> FDel
	}
	switch o.kind {
	case kSave:
		return fmt.Sprintf("OSave %s %s %s %s %s %s %s %s %s %s", vu.Z(o.p), vu.Z(o.l), vu.Z(o.id), vu.Z(o.oldv), vu.Z(o.data), vu.B(o.create), vu.Z(o.del), vu.Z(o.typ), vu.Z(o.meta), vu.Z(o.now))
	case kGoc:
		return fmt.Sprintf("OGoc %s %s %s", vu.Z(o.metric), vu.Z(o.key), vu.Z(o.now))
	case kPut:
		return "OPut " + pairs(o.kvs)
	case kDel:
		return "ODel " + vu.ListZ(o.ids)
	case kReset:
		return fmt.Sprintf("OReset %s %s %s", vu.Z(o.metric), vu.Z(o.limit), vu.Z(o.now))
	case kReopen:
		return "OReopen"
	case kJournal:
		return fmt.Sprintf("OJournal %s %s", vu.Z(o.since), vu.Z(o.page))
	case kHist:
		return "OHist " + vu.Z(o.id)
	case kGetVer:
		return fmt.Sprintf("OGetVer %s %s", vu.Z(o.id), vu.Z(o.ver))
	case kByID:
		return "OById " + vu.Z(o.id)
	case kByVal:
		return "OByVal " + vu.Z(o.key)
	default:
		return fmt.Sprintf("ONewMaps %s %s", vu.Z(o.from), vu.Z(o.page))
	}
}

// short replayable text
func (o *op) text() string {
	if o.failAppend {
		x := *o
		x.failAppend = false
		return "FAILAPPEND:" + x.text()
	}
	b := func(x bool) string {
		if x {
			return "c"
		}
		return "e"
	}
	switch o.kind {
	case kSave:
		return fmt.Sprintf("S%s(%s,i%d,v%d,t%d,d%d,x%d,@%d)", b(o.create), nameStr(o.p, o.l), o.id, o.oldv, o.typ, o.data, o.del, o.now)
	case kGoc:
		return fmt.Sprintf("G(%s,k%d,@%d)", metricStr(o.metric), o.key, o.now)
	case kPut:
		return "P" + strings.ReplaceAll(pairs(o.kvs), " ", "")
	case kDel:
		return "D" + strings.ReplaceAll(vu.ListZ(o.ids), " ", "")
	case kReset:
		return fmt.Sprintf("F(%s,%d,@%d)", metricStr(o.metric), o.limit, o.now)
	case kReopen:
		return "REOPEN"
	case kJournal:
		return fmt.Sprintf("J(%d,%d)", o.since, o.page)
	case kHist:
		return fmt.Sprintf("H(%d)", o.id)
	case kGetVer:
		return fmt.Sprintf("V(%d,%d)", o.id, o.ver)
	case kByID:
		return fmt.Sprintf("I(%d)", o.id)
	case kByVal:
		return fmt.Sprintf("K(%d)", o.key)
	default:
		return fmt.Sprintf("N(%d,%d)", o.from, o.page)
	}
}

func pairs(kvs [][2]int64) string {
	parts := make([]string, len(kvs))
	for i, kv := range kvs {
		parts[i] = "(" + vu.Z(kv[0]) + "," + vu.Z(kv[1]) + ")"
	}
	return "[" + strings.Join(parts, "; ") + "]"
}

func rowTerm(id int64, name string, ns, ver, upd, del int64, data string, typ int64) string {
	p, l := parseName(name)
	return fmt.Sprintf("R %s (%s,%s) %s %s %s %s %s %s", vu.Z(id), vu.Z(p), vu.Z(l), vu.Z(ns), vu.Z(ver), vu.Z(upd), vu.Z(del), vu.Z(parseData(data)), vu.Z(typ))
}

func dumpTerm(d metadata.VerifDump) string {
	es := make([]string, len(d.Ents))
	for i, r := range d.Ents {
		es[i] = rowTerm(r.ID, r.Name, r.NamespaceID, r.Version, r.UpdatedAt, r.DeletedAt, r.Data, r.Type)
	}
	hs := make([]string, len(d.Hist))
	for i, r := range d.Hist {
		hs[i] = "H (" + rowTerm(r.ID, r.Name, r.NamespaceID, r.Version, r.UpdatedAt, r.DeletedAt, r.Data, r.Type) + ") " + vu.Z(parseTail(r.Metadata))
	}
	ms := make([]string, len(d.Maps))
	for i, r := range d.Maps {
		ms[i] = "(" + vu.Z(r.ID) + "," + vu.Z(parseTail(r.Name)) + ")"
	}
	type fl struct{ m, t, c int64 }
	fls := make([]fl, len(d.Flood))
	for i, r := range d.Flood {
		fls[i] = fl{parseMetric(r.Metric), r.LastTimeUpdate, r.Count}
	}
	sort.Slice(fls, func(i, j int) bool { return fls[i].m < fls[j].m })
	fs := make([]string, len(fls))
	for i, r := range fls {
		fs[i] = fmt.Sprintf("(%s,(%s,%s))", vu.Z(r.m), vu.Z(r.t), vu.Z(r.c))
	}
	return fmt.Sprintf("D [%s] %s [%s] [%s] %s [%s]", strings.Join(es, "; "), vu.Z(d.ESeq), strings.Join(hs, "; "), strings.Join(ms, "; "), vu.Z(d.MSeq), strings.Join(fs, "; "))
}

// polynomial hash of a flattened table / answer, identical to Metadata/Corr.v: hash
func hashZ(xs []int64) int64 {
	a := int64(7)
	for _, x := range xs {
		a = ((a*1000003+x)%2147483647 + 2147483647) % 2147483647
	}
	return a
}
func flatRow(id int64, name string, ns, ver, upd, del int64, data string, typ int64) []int64 {
	p, l := parseName(name)
	return []int64{id, p, l, ns, ver, upd, del, parseData(data), typ}
}
func flatDump(d metadata.VerifDump) []int64 {
	var f []int64
	f = append(f, int64(len(d.Ents)))
	for _, r := range d.Ents { // ORDER BY id
		f = append(f, flatRow(r.ID, r.Name, r.NamespaceID, r.Version, r.UpdatedAt, r.DeletedAt, r.Data, r.Type)...)
	}
	f = append(f, d.ESeq, int64(len(d.Hist)))
	for _, r := range d.Hist { // ORDER BY version
		f = append(f, flatRow(r.ID, r.Name, r.NamespaceID, r.Version, r.UpdatedAt, r.DeletedAt, r.Data, r.Type)...)
		f = append(f, parseTail(r.Metadata))
	}
	f = append(f, int64(len(d.Maps)))
	for _, r := range d.Maps { // ORDER BY id
		f = append(f, r.ID, parseTail(r.Name))
	}
	f = append(f, d.MSeq, int64(len(d.Flood)))
	type fl struct{ m, t, c int64 }
	fls := make([]fl, len(d.Flood))
	for i, r := range d.Flood {
		fls[i] = fl{parseMetric(r.Metric), r.LastTimeUpdate, r.Count}
	}
	sort.Slice(fls, func(i, j int) bool { return fls[i].m < fls[j].m })
	for _, r := range fls {
		f = append(f, r.m, r.t, r.c)
	}
	return f
}
func xh(n int, flat []int64) string { return fmt.Sprintf("XH %d %d", n, hashZ(flat)) }

// canonical text of a dump for the Go-side replay oracle, split into the entity part and the flood part
func dumpKeys(d metadata.VerifDump) (ent, maps, flood string) {
	ent = fmt.Sprint(d.Ents, d.ESeq, d.Hist)
	maps = fmt.Sprint(d.Maps, d.MSeq)
	fl := append([]metadata.VerifFloodRow(nil), d.Flood...)
	sort.Slice(fl, func(i, j int) bool { return fl[i].Metric < fl[j].Metric })
	flood = fmt.Sprint(fl)
	return
}

// ---- one database instance ----
type nopLogger struct{}

func (nopLogger) Tracef(string, ...interface{}) {}
func (nopLogger) Debugf(string, ...interface{}) {}
func (nopLogger) Infof(string, ...interface{})  {}
func (nopLogger) Warnf(string, ...interface{})  {}
func (nopLogger) Errorf(string, ...interface{}) {}

var _ binlog.Logger = nopLogger{}

type config struct{ max, step, bonus, global int64 }

// faultyBinlog is the real fsbinlog with a switch that makes Append/AppendASAP refuse (write fault, back pressure,
// shutdown in progress): the engine must then roll the transaction back and return the error.
type faultyBinlog struct {
	fsbinlog.BinlogReadWrite
	fail atomic.Bool
}

var errInjected = errors.New("verif: binlog append refused")

func (b *faultyBinlog) Append(onOffset int64, payload []byte) (int64, error) {
	if b.fail.Load() {
		return onOffset, errInjected
	}
	return b.BinlogReadWrite.Append(onOffset, payload)
}

func (b *faultyBinlog) AppendASAP(onOffset int64, payload []byte) (int64, error) {
	if b.fail.Load() {
		return onOffset, errInjected
	}
	return b.BinlogReadWrite.AppendASAP(onOffset, payload)
}

var (
	faultMx  sync.Mutex
	faultMap = map[*metadata.DBV2]*faultyBinlog{}
)

func faultOf(db *metadata.DBV2) *faultyBinlog {
	faultMx.Lock()
	defer faultMx.Unlock()
	return faultMap[db]
}

func openDB(clock *int64, dir, file string, create bool, c config) (*metadata.DBV2, error) {
	bo := fsbinlog.Options{PrefixPath: dir + "/bl", Magic: 3456}
	if create {
		if _, err := fsbinlog.CreateEmptyFsBinlog(bo); err != nil {
			return nil, err
		}
	}
	fsbl, err := fsbinlog.NewFsBinlog(nopLogger{}, bo)
	if err != nil {
		return nil, err
	}
	bl := &faultyBinlog{BinlogReadWrite: fsbl}
	type res struct {
		db  *metadata.DBV2
		err error
	}
	ch := make(chan res, 1)
	go func() {
		db, err := metadata.OpenDB(dir+"/"+file, metadata.Options{MaxBudget: c.max, StepSec: uint32(c.step), BudgetBonus: c.bonus, GlobalBudget: c.global,
			Now: func() time.Time { return time.Unix(*clock, 0) }}, bl)
		ch <- res{db, err}
	}()
	select {
	case r := <-ch:
		if r.db != nil {
			faultMx.Lock()
			faultMap[r.db] = bl
			faultMx.Unlock()
		}
		return r.db, r.err
	case <-time.After(300 * time.Second): // only a replay that hangs; generous because the machine may be heavily loaded
		return nil, fmt.Errorf("open timeout")
	}
}

func copyDB(dir, from, to string) {
	ms, _ := filepath.Glob(dir + "/" + from + "*")
	for _, m := range ms {
		b, err := os.ReadFile(m)
		if err != nil {
			panic(err)
		}
		if err := os.WriteFile(dir+"/"+to+strings.TrimPrefix(filepath.Base(m), from), b, 0o644); err != nil {
			panic(err)
		}
	}
}

var ctx = context.Background()

// exec runs one operation on the real database and returns the Coq term of its result
func exec(clock *int64, db *metadata.DBV2, o *op) string {
	if o.failAppend {
		fb := faultOf(db)
		fb.fail.Store(true)
		defer fb.fail.Store(false)
	}
	return exec1(clock, db, o)
}

func exec1(clock *int64, db *metadata.DBV2, o *op) string {
	*clock = o.now
	switch o.kind {
	case kSave:
		ev, err := db.SaveEntity(ctx, nameStr(o.p, o.l), o.id, o.oldv, dataStr(o.data), o.create, uint32(o.del), int32(o.typ), metaStr(o.meta))
		o.errc = metadata.VerifClassify(err)
		if err != nil && errors.Is(err, errInjected) {
			o.failed, o.errc = true, 7
			return "XFail"
		}
		if err != nil {
			return fmt.Sprintf("XSave %d 0 0 0", o.errc)
		}
		o.ok, o.rid, o.rver, o.rns = true, ev.Id, ev.Version, ev.NamespaceId
		return fmt.Sprintf("XSave 0 %s %s %s", vu.Z(ev.Id), vu.Z(ev.Version), vu.Z(ev.NamespaceId))
	case kGoc:
		r, err := db.GetOrCreateMapping(ctx, metricStr(o.metric), keyStr(o.key))
		if err != nil {
			if errors.Is(err, errInjected) {
				o.failed, o.gkind = true, 3
				return "XFail"
			}
			return unexp("GetOrCreateMapping", err)
		}
		if g, ok := r.AsGetMappingResponse(); ok {
			o.gkind, o.gid = 0, int64(g.Id)
			return "XGoc 0 " + vu.Z(int64(g.Id))
		}
		if g, ok := r.AsCreated(); ok {
			o.gkind, o.gid = 1, int64(g.Id)
			return "XGoc 1 " + vu.Z(int64(g.Id))
		}
		if r.IsFloodLimitError() {
			o.gkind = 2
			return "XGoc 2 0"
		}
		panic("unexpected GetOrCreateMapping response")
	case kPut:
		ks := make([]string, len(o.kvs))
		vs := make([]int32, len(o.kvs))
		for i, kv := range o.kvs {
			ks[i], vs[i] = keyStr(kv[0]), int32(kv[1])
		}
		if err := db.PutMapping(ctx, ks, vs); err != nil {
			if errors.Is(err, errInjected) {
				o.failed, o.gkind = true, 3
				return "XFail"
			}
			return unexp("PutMapping", err)
		}
		return "XU"
	case kDel:
		ids := make([]int32, len(o.ids))
		for i, x := range o.ids {
			ids[i] = int32(x)
		}
		n, err := metadata.VerifDeleteMappings(db, ids)
		if err != nil {
			if errors.Is(err, errInjected) {
				o.failed, o.gkind = true, 3
				return "XFail"
			}
			return unexp("deleteMappings", err)
		}
		return "XN " + vu.Z(int64(n))
	case kReset:
		b, a, err := db.ResetFlood(ctx, metricStr(o.metric), o.limit)
		if err != nil {
			return unexp("ResetFlood", err)
		}
		return fmt.Sprintf("XReset %s %s", vu.Z(b), vu.Z(a))
	case kJournal:
		evs, err := db.JournalEvents(ctx, o.since, o.page)
		if err != nil {
			return unexp("JournalEvents", err)
		}
		o.jpage = evs
		return xh(len(evs), journalFlat(evs))
	case kHist:
		h, err := db.GetHistoryShort(ctx, o.id)
		if err != nil {
			panic(err)
		}
		var f []int64
		for _, e := range h.Events {
			f = append(f, e.Version, parseTail(e.Metadata))
		}
		return xh(len(h.Events), f)
	case kGetVer:
		e, err := db.GetEntityVersioned(ctx, o.id, o.ver)
		if err != nil {
			return "XH 0 0"
		}
		// GetEntityVersioned does not select deleted_at: Unused is 0 (the model does the same)
		return xh(1, append(flatRow(e.Id, e.Name, e.NamespaceId, e.Version, int64(e.UpdateTime), int64(e.Unused), e.Data, int64(e.EventType)), parseTail(e.Metadata)))
	case kByID:
		s, ok, err := db.GetMappingByID(ctx, int32(o.id))
		if err != nil {
			panic(err)
		}
		if !ok {
			return "XOpt None"
		}
		return "XOpt (Some " + vu.Z(parseTail(s)) + ")"
	case kByVal:
		id, notExists, err := db.GetMappingByValue(ctx, keyStr(o.key))
		if err != nil {
			panic(err)
		}
		if notExists {
			return "XOpt None"
		}
		return "XOpt (Some " + vu.Z(int64(id)) + ")"
	case kNewMaps:
		ms, mx, err := db.GetNewMappings(ctx, int32(o.from), int32(o.page), nil)
		if err != nil {
			panic(err)
		}
		var f []int64
		for _, m := range ms {
			f = append(f, int64(m.Value), parseTail(m.Str))
		}
		return xh(len(ms), append(f, int64(mx)))
	}
	panic("bad op")
}

func journalFlat(evs []tlmetadata.Event) []int64 {
	var f []int64
	for _, e := range evs {
		f = append(f, flatRow(e.Id, e.Name, e.NamespaceId, e.Version, int64(e.UpdateTime), int64(e.Unused), e.Data, int64(e.EventType))...)
	}
	return f
}

// ---- generator shadow: what the harness knows from the implementation's own answers ----
type sEnt struct {
	id, typ, p, l, ver int64
	old                []int64
	nsOff              bool // last saved by a request of another type whose namespace rule differs: stored namespace id does not belong to the name
}
type shadow struct {
	ents   map[int64]*sEnt
	ids    []int64
	maxVer int64
	keys   map[int64]int64 // key -> id, as last answered
	ever   map[int64]bool  // every mapping id ever seen
}

// local names of the namespace entities known so far (usable as "n<l>:" prefixes)
func (s *shadow) namespaces() []int64 {
	var out []int64
	for _, id := range s.ids {
		if e := s.ents[id]; e.typ == 4 && e.p == 0 {
			out = append(out, e.l)
		}
	}
	return out
}

func (s *shadow) pick(r *vu.Rng) *sEnt {
	if len(s.ids) == 0 {
		return nil
	}
	return s.ents[s.ids[r.Intn(len(s.ids))]]
}

var unexpected []string

func unexp(what string, err error) string {
	unexpected = append(unexpected, what+": "+err.Error())
	return "XErr"
}

// rec collects what one case produces; cases run in parallel and are emitted in index order
type rec struct {
	input, term string
	nontrivial  bool
	kinds       []string
	fails       [][2]string // oracle, text
	debug       string
}

// which property's oracles are reported (-prop); the correspondence cases are the same for all three
var prop = "all"

func oracleProp(oracle string) string {
	switch {
	case strings.HasPrefix(oracle, "replay_"):
		return "C16"
	case strings.HasPrefix(oracle, "mapping_") || strings.HasPrefix(oracle, "flood_"):
		return "C19"
	default:
		return "C15"
	}
}

func (c *rec) Fail(oracle string, _ int, text string) {
	if prop != "all" && oracleProp(oracle) != prop && oracle != "unexpected_error" {
		return
	}
	c.fails = append(c.fails, [2]string{oracle, text})
}

func main() {
	seed := flag.Uint64("seed", 1, "")
	n := flag.Int("n", 150, "")
	out := flag.String("out", "", "")
	par := flag.Int("par", 8, "")
	flag.StringVar(&prop, "prop", "all", "C15|C19|C16|all: whose oracles to report")
	flag.Parse()
	log.SetOutput(io.Discard)
	o := vu.NewOut(*out)
	defer o.Close()
	root, err := os.MkdirTemp("", "verif-metadata")
	if err != nil {
		panic(err)
	}
	defer os.RemoveAll(root)
	recs := make([]*rec, *n)
	jobs := make(chan int)
	var wg sync.WaitGroup
	for w := 0; w < *par; w++ {
		wg.Add(1)
		go func() {
			defer wg.Done()
			for i := range jobs {
				if i%4 == 3 { // every fourth case drives the RPC handler's journal long-poll path
					recs[i] = runJournalCase(vu.NewRng(*seed*1000003+uint64(i)), root, i, *seed)
				} else {
					recs[i] = runCase(vu.NewRng(*seed*1000003+uint64(i)), root, i, *seed)
				}
			}
		}()
	}
	for i := 0; i < *n; i++ {
		jobs <- i
	}
	close(jobs)
	wg.Wait()
	dbg, _ := os.Create(*out + "/debug.txt")
	for _, c := range recs {
		line := o.Case(c.input, c.term, c.nontrivial, c.kinds...)
		for _, f := range c.fails {
			o.Fail(f[0], line, f[1])
		}
		fmt.Fprintln(dbg, c.debug)
	}
	dbg.Close()
	witnesses(o, root)
}

func pickCfg(r *vu.Rng) config {
	return config{
		max:    r.Pick(1, 2, 3, 5),
		step:   r.Pick(1, 3, 7, 60),
		bonus:  r.Pick(0, 1, 2),
		global: r.Pick(0, 0, 2, 4, 1000000),
	}
}

// aborted turns a case that cannot be completed (the database did not reopen, an engine call panicked, ...) into an
// oracle failure that keeps everything the oracles found before; the case itself is emitted as the empty history
func aborted(o *rec, idx int, seed uint64, what interface{}) {
	o.Fail("case_aborted", 0, fmt.Sprintf("seed=%d case=%d: %v | %s", seed, idx, what, o.input))
	h := hashZ(flatDump(metadata.VerifDump{}))
	o.input = fmt.Sprintf("seed=%d case=%d aborted: %v", seed, idx, what)
	o.term = fmt.Sprintf("CHist (Cfg 1 1 0 0) [] [] %d 0 (Some %d) (Some %d)", h, h, h)
	o.nontrivial, o.kinds, o.debug = false, []string{"aborted"}, o.input
}

func runCase(r *vu.Rng, root string, idx int, seed uint64) (o *rec) {
	o = &rec{}
	defer func() {
		if x := recover(); x != nil {
			aborted(o, idx, seed, x)
		}
	}()
	c := pickCfg(r)
	dir := fmt.Sprintf("%s/c%d", root, idx)
	if err := os.MkdirAll(dir, 0o755); err != nil {
		panic(err)
	}
	defer os.RemoveAll(dir)
	clock := new(int64)
	*clock = 50
	db, err := openDB(clock, dir, "db", true, c)
	if err != nil {
		panic(fmt.Sprint("open primary: ", err))
	}
	sh := &shadow{ents: map[int64]*sEnt{}, keys: map[int64]int64{}, ever: map[int64]bool{}}
	nops := 14 + r.Intn(18)
	snapAt := nops/4 + r.Intn(nops/2+1)
	// profile of the history: entity-heavy, mapping-heavy, mixed, or flood-directed (one or two metrics creating
	// many distinct keys under an always-active flood limit, with resets, monotone clock)
	profile := r.Intn(4)
	if profile == 3 {
		c = config{max: r.Pick(1, 2, 3), step: r.Pick(3, 7, 60), bonus: r.Pick(0, 1, 1, 2), global: 0}
		_ = db.Close()
		os.RemoveAll(dir)
		_ = os.MkdirAll(dir, 0o755)
		if db, err = openDB(clock, dir, "db", true, c); err != nil {
			panic(fmt.Sprint("open primary: ", err))
		}
	}
	noBack := profile == 3 || r.Chance(60)
	now := r.Pick(50, 59, 60, 61, 119, 1000)
	monotone := true
	tags := map[string]bool{}
	var ops []*op
	var results []string
	fl := newFloodOracle(c)
	var pending []*op
	var live []livePage
	liveFailed := false
	for len(ops) < nops {
		var op_ *op
		if len(ops) == snapAt && !tags["snap"] {
			op_ = &op{kind: kReopen}
			tags["snap"] = true
		} else if len(pending) > 0 {
			op_ = pending[0]
			pending = pending[1:]
		} else {
			var more []*op
			op_, more = genOp(r, c, sh, profile)
			if (op_.kind == kSave || op_.kind == kGoc || op_.kind == kPut || op_.kind == kDel) && r.Chance(8) {
				// fault: the binlog refuses the append during this request; then the very same request is retried
				retry := *op_
				retry.retryOf = op_
				op_.failAppend = true
				more = append([]*op{&retry}, more...)
			}
			pending = append(pending, more...)
		}
		// clock
		switch {
		case !noBack && r.Chance(6):
			now -= r.Pick(1, c.step, 3*c.step)
			if now < 0 {
				now = 0
			}
			monotone = false
			tags["clock_back"] = true
		default:
			now += r.Pick(0, 0, 0, 1, c.step-1, c.step, c.step, 10*c.step, 3)
		}
		op_.now = now
		if op_.kind == kSave && op_.del == -1 {
			op_.del = now
		}
		line := len(ops)
		if op_.kind == kReopen {
			if err := db.Close(); err != nil {
				panic(fmt.Sprint("close: ", err))
			}
			if line == snapAt {
				copyDB(dir, "db", "snap")
			}
			db, err = openDB(clock, dir, "db", false, c)
			if err != nil {
				panic(fmt.Sprint("reopen primary: ", err))
			}
			results = append(results, "XU")
			fl.reopen()
		} else {
			var before metadata.VerifDump
			if op_.failAppend {
				before, _ = metadata.VerifDumpDB(db)
			}
			results = append(results, exec(clock, db, op_))
			if op_.failAppend {
				// "an edit succeeds only when ..., exactly one succeeds": a request that returned an error (here: the event
				// could not be logged) has changed nothing - journal, versions, history, mappings, flood limits
				after, _ := metadata.VerifDumpDB(db)
				be, bm, bf := dumpKeys(before)
				ae, am, af := dumpKeys(after)
				if be != ae || bm != am || bf != af {
					o.Fail("failed_request_changes_nothing", 0, fmt.Sprintf("case=%d op=%s -> %s | cfg=(max=%d,step=%d,bonus=%d,global=%d) history so far: %s", idx, op_.text(), results[len(results)-1], c.max, c.step, c.bonus, c.global, opsText(ops)))
				}
				tags["fault_op"] = true
			}
			if op_.jpage != nil {
				live = append(live, livePage{op_.jpage, fmt.Sprint(op_.jpage), op_.text()})
			}
			checkLive(o, live, idx, op_.text(), &liveFailed)
		}
		ops = append(ops, op_)
		oracles(o, sh, fl, op_, results[len(results)-1], c, monotone, tags, idx, db)
	}
	final, err := metadata.VerifDumpDB(db)
	if err != nil {
		panic(err)
	}
	// two journal readers at different positions: reader A's page must still be what it was after reader B's call
	if pageA, err := db.JournalEvents(ctx, 0, 3); err == nil && len(pageA) > 0 {
		live = append(live, livePage{pageA, fmt.Sprint(pageA), "J(0,3)"})
		_, _ = db.JournalEvents(ctx, pageA[len(pageA)-1].Version, 3)
		checkLive(o, live, idx, "J(after first page,3)", &liveFailed)
	}
	full, err := db.JournalEvents(ctx, 0, 1000)
	if err != nil {
		panic(err)
	}
	checkLive(o, live, idx, "J(0,1000)", &liveFailed)
	if err := db.Close(); err != nil {
		panic(fmt.Sprint("close: ", err))
	}
	reopenDump := func(file string) (string, *metadata.VerifDump) {
		d2, err := openDB(clock, dir, file, false, c)
		if err != nil {
			return "None", nil
		}
		dd, err := metadata.VerifDumpDB(d2)
		_ = d2.Close()
		if err != nil {
			return "None", nil
		}
		return fmt.Sprintf("(Some %d)", hashZ(flatDump(dd))), &dd
	}
	freshT, freshD := reopenDump("fresh")
	snapT, snapD := reopenDump("snap")

	kinds := []string{"hist"}
	for t := range tags {
		kinds = append(kinds, t)
	}
	sort.Strings(kinds)
	texts := make([]string, len(ops))
	terms := make([]string, len(ops))
	for i, x := range ops {
		texts[i] = x.text()
		terms[i] = x.coq()
	}
	input := fmt.Sprintf("seed=%d case=%d cfg=(max=%d,step=%d,bonus=%d,global=%d) snap_at=%d tags=%s ops=%s", seed, idx, c.max, c.step, c.bonus, c.global, snapAt, strings.Join(kinds, ","), strings.Join(texts, " "))
	o.input = input
	o.term = fmt.Sprintf("CHist (Cfg %d %d %d %d) [%s] [%s] %d %d %s %s", c.max, c.step, c.bonus, c.global,
		strings.Join(terms, "; "), strings.Join(results, "; "), hashZ(flatDump(final)), snapAt, freshT, snapT)
	o.nontrivial = tags["edit_ok"] && tags["version_conflict"] && (tags["created_map"] || tags["rename"])
	o.kinds = kinds
	o.debug = fmt.Sprintf("case=%d final=%s fresh=%v snap=%v", idx, dumpTerm(final), dbgDump(freshD), dbgDump(snapD))
	finalOracles(o, 0, input, sh, final, full, tags)
	replayOracle(o, 0, input, "fresh", final, freshD, tags)
	replayOracle(o, 0, input, "snapshot", final, snapD, tags)
	return o
}

// a page returned by JournalEvents that the harness keeps (as a client that has not consumed it yet would)
type livePage struct {
	evs  []tlmetadata.Event
	snap string
	text string
}

// "the journal returns each entity's latest version exactly once in ascending version order": a page handed out stays
// what it was, whatever journal calls (of the same or other readers, direct or through the RPC handler) follow
func checkLive(o *rec, live []livePage, idx int, after string, failed *bool) {
	if *failed {
		return
	}
	for _, p := range live {
		if now := fmt.Sprint(p.evs); now != p.snap {
			*failed = true
			o.Fail("journal_page_stable_across_calls", 0, fmt.Sprintf("case=%d page of %s changed after %s: was %s now %s", idx, p.text, after, versions(p.evs[:0:0]), trunc(now, 200))+" was "+trunc(p.snap, 200))
			return
		}
	}
}

func trunc(s string, n int) string {
	if len(s) > n {
		return s[:n] + "..."
	}
	return s
}

func opsText(ops []*op) string {
	parts := make([]string, len(ops))
	for i, x := range ops {
		parts[i] = x.text()
	}
	return strings.Join(parts, " ")
}

func dbgDump(d *metadata.VerifDump) string {
	if d == nil {
		return "None"
	}
	return dumpTerm(*d)
}

// genOp draws the next operation from what the implementation has answered so far
func genOp(r *vu.Rng, c config, sh *shadow, profile int) (*op, []*op) {
	if profile == 3 {
		x := r.Intn(100)
		switch {
		case x < 12:
			// directed: a reset to a small limit, then more creations of that metric than the limit allows, close in time
			m := int64(r.Intn(2))
			lim := r.Pick(1, 1, 2, c.max)
			var more []*op
			for k := int64(0); k < lim+1+int64(r.Intn(2)); k++ {
				more = append(more, &op{kind: kGoc, metric: m, key: 1 + int64(r.Intn(60))})
			}
			return &op{kind: kReset, metric: m, limit: lim}, more
		case x < 72:
			return &op{kind: kGoc, metric: int64(r.Intn(2)), key: 1 + int64(r.Intn(60))}, nil
		case x < 86:
			return &op{kind: kReset, metric: int64(r.Intn(2)), limit: r.Pick(0, 1, 1, 2, 2, 3, c.max, c.max+1)}, nil
		case x < 90:
			return &op{kind: kDel, ids: []int64{1 + int64(r.Intn(8))}}, nil
		case x < 95:
			return &op{kind: kByVal, key: 1 + int64(r.Intn(60))}, nil
		default:
			return &op{kind: kNewMaps, from: r.Pick(0, 1, 2, 3, 5), page: r.Pick(1, 2, 100)}, nil
		}
	}
	wEnt, wMap := 45, 38
	switch profile {
	case 0:
		wEnt, wMap = 70, 15
	case 1:
		wEnt, wMap = 15, 68
	}
	x := r.Intn(100)
	switch {
	case x < wEnt:
		return genSave(r, sh)
	case x < wEnt+wMap:
		y := r.Intn(100)
		switch {
		case y < 62:
			return &op{kind: kGoc, metric: int64(r.Intn(3)), key: 1 + int64(r.Intn(12))}, nil
		case y < 72:
			kvs := make([][2]int64, 1+r.Intn(3))
			for i := range kvs {
				kvs[i] = [2]int64{1 + int64(r.Intn(12)), r.Pick(1, 2, 3, 4, 5, 6, 7, 8, 9, 12, 20, 40, 0, -3)}
			}
			return &op{kind: kPut, kvs: kvs}, nil
		case y < 84:
			ids := make([]int64, r.Intn(4))
			for i := range ids {
				ids[i] = r.Pick(1, 2, 3, 4, 5, 6, 7, 8, 9, 12, 20, 40, 0, -3)
			}
			return &op{kind: kDel, ids: ids}, nil
		default:
			return &op{kind: kReset, metric: int64(r.Intn(3)), limit: r.Pick(0, -1, 1, 2, 3, c.max, c.max+1, 7, 20000)}, nil
		}
	default:
		switch r.Intn(7) {
		case 0, 1:
			since := int64(0)
			if sh.maxVer > 0 {
				since = int64(r.Intn(int(sh.maxVer) + 2))
			}
			return &op{kind: kJournal, since: since, page: r.Pick(0, 1, 2, 3, 100, 2000, -1)}, nil
		case 2:
			id := int64(1 + r.Intn(6))
			if e := sh.pick(r); e != nil {
				id = e.id
			}
			return &op{kind: kHist, id: id}, nil
		case 3:
			id, ver := int64(1), int64(1)
			if e := sh.pick(r); e != nil {
				id, ver = e.id, e.ver
				if len(e.old) > 0 && r.Bool() {
					ver = e.old[r.Intn(len(e.old))]
				}
				if r.Chance(10) {
					ver++
				}
			}
			return &op{kind: kGetVer, id: id, ver: ver}, nil
		case 4:
			return &op{kind: kByID, id: r.Pick(1, 2, 3, 4, 5, 6, 7, 8, 9, 12, 20, 40, 0, -3)}, nil
		case 5:
			return &op{kind: kByVal, key: 1 + int64(r.Intn(12))}, nil
		default:
			return &op{kind: kNewMaps, from: r.Pick(-5, 0, 1, 2, 3, 5, 8, 20), page: r.Pick(0, 1, 2, 3, 100, 60000)}, nil
		}
	}
}

var types = []int64{0, 0, 0, 0, 2, 2, 4, 4, 4, 1, 1, 3}

func genName(r *vu.Rng, typ int64) (p, l int64) {
	l = 1 + int64(r.Intn(5))
	switch typ {
	case 0, 2:
		if r.Chance(45) {
			p = 1 + int64(r.Intn(3))
		}
	case 4:
		l = 1 + int64(r.Intn(3))
		if r.Chance(5) {
			p = 1 + int64(r.Intn(3))
		}
	default:
		if r.Chance(10) {
			p = 1 + int64(r.Intn(3))
		}
	}
	return
}

func genSave(r *vu.Rng, sh *shadow) (*op, []*op) {
	x := r.Intn(100)
	e := sh.pick(r)
	switch {
	case x < 30 || e == nil: // create
		typ := types[r.Intn(len(types))]
		nss := sh.namespaces()
		if len(nss) == 0 && r.Chance(35) {
			typ = 4
		}
		p, l := genName(r, typ)
		if (typ == 0 || typ == 2) && len(nss) > 0 && r.Chance(55) {
			p = nss[r.Intn(len(nss))] // inside an existing namespace
		}
		o := &op{kind: kSave, typ: typ, p: p, l: l, create: true, data: int64(r.Intn(4)), meta: int64(r.Intn(4))}
		if r.Chance(6) {
			o.oldv = sh.maxVer + 1 // boundary: the version the create itself would get
		}
		if r.Chance(8) {
			o.id = int64(r.Intn(8))
		}
		if r.Chance(10) {
			o.id = -int64(1 + r.Intn(3)) // predefined entity
			o.create = r.Bool()
		}
		return o, nil
	case x < 88: // edit / rename / delete / undelete of a known entity
		o := &op{kind: kSave, typ: e.typ, p: e.p, l: e.l, id: e.id, oldv: e.ver, data: int64(r.Intn(4)), meta: int64(r.Intn(4))}
		if r.Chance(40) {
			o.p, o.l = genName(r, e.typ)
		}
		if nss := sh.namespaces(); (e.typ == 0 || e.typ == 2) && len(nss) > 0 && r.Chance(35) {
			// rename across namespaces: root -> ns, ns -> root, ns1 -> ns2 (the local name mostly kept)
			targets := append([]int64{0}, nss...)
			o.p = targets[r.Intn(len(targets))]
			if e.p != 0 && r.Chance(50) {
				o.p = 0
			}
			if r.Chance(70) {
				o.l = e.l
			}
		}
		if r.Chance(20) && len(e.old) > 0 {
			o.oldv = e.old[r.Intn(len(e.old))]
		} else if r.Chance(6) {
			o.oldv = r.Pick(0, e.ver+1, e.ver-1, sh.maxVer+1)
		}
		if r.Chance(8) {
			o.typ = types[r.Intn(len(types))]
		}
		if r.Chance(20) {
			o.del = -1 // "now"
		}
		if r.Chance(4) || (e.id < 0 && r.Chance(30)) {
			o.create = true
		}
		var more []*op
		if r.Chance(30) { // racing edits from the same version
			for k := 0; k < 1+r.Intn(2); k++ {
				m := *o
				m.data = int64(r.Intn(4))
				m.meta = int64(r.Intn(4))
				if r.Chance(30) {
					m.p, m.l = genName(r, e.typ)
				}
				more = append(more, &m)
			}
		}
		return o, more
	default: // unknown ids, odd arguments
		typ := types[r.Intn(len(types))]
		p, l := genName(r, typ)
		return &op{kind: kSave, typ: typ, p: p, l: l, id: r.Pick(0, 50, -7, 3, 1), oldv: r.Pick(0, 1, sh.maxVer, sh.maxVer+1), create: r.Chance(20), data: 1, meta: 1}, nil
	}
}

// ---- oracles: the properties evaluated on the implementation's own answers ----
type floodOracle struct {
	c config
	// per metric: creations since the base point, the budget at the base point, the base time, whether the base is a reset-with-limit
	m map[int64]*floodBase
}
type floodBase struct {
	budget, t0, created int64
	afterReset          bool
}

func newFloodOracle(c config) *floodOracle { return &floodOracle{c: c, m: map[int64]*floodBase{}} }
func (f *floodOracle) reopen()             {}

func oracles(o *rec, sh *shadow, fl *floodOracle, x *op, res string, c config, monotone bool, tags map[string]bool, idx int, db *metadata.DBV2) {
	line := 0
	where := func() string { return fmt.Sprintf("case=%d op=%s -> %s", idx, x.text(), res) }
	if x.failAppend && x.failed {
		tags["failed_append"] = true
		return
	}
	if r0 := x.retryOf; r0 != nil && r0.failed {
		// the refused request would have been committed, nothing changed since: the identical retry must be
		retryOK := (x.kind == kSave && x.ok) || (x.kind == kGoc && x.gkind == 1) || x.kind == kPut || x.kind == kDel
		if !retryOK {
			o.Fail("retry_after_failed_request_refused", 0, where())
		}
		tags["retry_after_failed_append"] = true
	}
	if res == "XErr" {
		o.Fail("unexpected_error", line, fmt.Sprintf("case=%d op=%s: %s", idx, x.text(), unexpected[len(unexpected)-1]))
		return
	}
	switch x.kind {
	case kSave:
		if !x.ok {
			switch x.errc {
			case 1:
				tags["version_conflict"] = true
			case 2:
				tags["exists"] = true
			case 3:
				tags["no_namespace"] = true
			case 4:
				tags["ns_rename_refused"] = true
			case 5:
				tags["constraint"] = true
			case 6:
				tags["other_err"] = true
			}
			return
		}
		e, known := sh.ents[x.rid]
		// "every successful create or edit assigns a new, globally unique version greater than all previous ones"
		if x.rver <= sh.maxVer {
			o.Fail("version_not_increasing", line, where())
		}
		if known {
			// "an entity edit succeeds only when it names the entity's current version"
			if x.oldv != e.ver {
				o.Fail("edit_with_stale_version_succeeded", line, where())
			}
			tags["edit_ok"] = true
			if x.p != e.p || x.l != e.l {
				tags["rename"] = true
				switch {
				case e.p != 0 && x.p == 0:
					tags["rename_ns_to_root"] = true
				case e.p == 0 && x.p != 0:
					tags["rename_root_to_ns"] = true
				case e.p != x.p:
					tags["rename_ns_to_ns"] = true
				}
				// "namespaces cannot be renamed"
				if e.typ == 4 {
					if x.typ != 4 {
						o.Fail("namespace_renamed_via_other_type", line, where())
						tags["ns_renamed_other_type"] = true
					} else if x.create && x.id < 0 {
						o.Fail("namespace_renamed_via_create_flag", line, where())
						tags["ns_renamed_create_flag"] = true
					} else {
						o.Fail("namespace_renamed", line, where())
					}
				}
			}
			if x.del != 0 {
				tags["delete"] = true
			}
			if x.id < 0 {
				tags["builtin_edit"] = true
			}
			if x.typ != e.typ {
				tags["edit_other_type"] = true
			}
		} else {
			tags["create_ok"] = true
			if x.id < 0 {
				tags["builtin_create"] = true
			}
			e = &sEnt{id: x.rid, typ: x.typ}
			sh.ents[x.rid] = e
			sh.ids = append(sh.ids, x.rid)
		}
		// "entity names are unique per type (and namespace)"
		namespaced := func(t int64) bool { return t == 0 || t == 2 }
		e.nsOff = known && x.typ != e.typ && namespaced(x.typ) != namespaced(e.typ) && x.p != 0
		for _, other := range sh.ents {
			if other.id != e.id && other.typ == e.typ && other.p == x.p && other.l == x.l {
				if e.nsOff || other.nsOff {
					// exactly finding F-C15b: one of the two holds the name under a namespace id stored by an edit of another type
					o.Fail("duplicate_name_via_other_type_edit", line, where())
					tags["duplicate_name_other_type"] = true
				} else {
					o.Fail("duplicate_name", line, where())
				}
			}
		}
		// "entities in a namespace must reference an existing namespace"
		if (x.typ == 0 || x.typ == 2) && x.p != 0 {
			found := false
			for _, other := range sh.ents {
				if other.typ == 4 && other.p == 0 && other.l == x.p {
					found = true
					if other.id != x.rns {
						o.Fail("wrong_namespace_id", line, where())
					}
				}
			}
			if !found {
				if tags["ns_renamed_other_type"] || tags["ns_renamed_create_flag"] {
					o.Fail("namespace_missing_after_namespace_rename", line, where())
				} else {
					o.Fail("namespace_missing", line, where())
				}
			}
			tags["namespaced"] = true
		}
		if known {
			e.old = append(e.old, e.ver)
		}
		e.p, e.l, e.ver = x.p, x.l, x.rver
		sh.maxVer = x.rver
	case kGoc:
		switch x.gkind {
		case 0, 1:
			if id, ok := sh.keys[x.key]; ok {
				// "once created, a mapping never changes ... repeated get-or-create calls return the same id"
				if id != x.gid || x.gkind == 1 {
					o.Fail("mapping_changed", line, where())
				}
			} else if x.gkind == 1 {
				// "deleted ids are never handed out again" / "at most one positive id"
				if sh.ever[x.gid] {
					o.Fail("mapping_id_reused", line, where())
				}
				if x.gid <= 0 {
					o.Fail("mapping_id_not_positive", line, where())
				}
				tags["created_map"] = true
			}
			sh.keys[x.key] = x.gid
			sh.ever[x.gid] = true
			if x.gkind == 0 {
				tags["found_map"] = true
			}
		case 2:
			tags["flood_error"] = true
		}
		fl.goc(o, line, x, c, monotone, where, tags)
	case kPut:
		for _, kv := range x.kvs {
			for k, id := range sh.keys {
				if id == kv[1] || k == kv[0] {
					delete(sh.keys, k)
				}
			}
			sh.keys[kv[0]] = kv[1]
			sh.ever[kv[1]] = true
		}
		tags["put"] = true
	case kDel:
		for _, id := range x.ids {
			for k, v := range sh.keys {
				if v == id {
					delete(sh.keys, k)
					tags["deleted_map"] = true
				}
			}
		}
	case kReset:
		fl.reset(x, c)
		tags["reset"] = true
		if x.limit > 0 {
			tags["reset_limit"] = true
		}
	case kByVal:
		want, ok := sh.keys[x.key]
		got := "XOpt None"
		if ok {
			got = "XOpt (Some " + vu.Z(want) + ")"
		}
		// only keys the harness has an answer for are checked (others may have been put/deleted)
		if ok && res != got {
			o.Fail("mapping_lookup_differs", line, where())
		}
	}
}

// "Once the global budget is exhausted, the number of new mappings a metric can create in any time span is at
// most its remaining budget (the maximum budget, or the value set by a flood reset) plus the per-step bonus times
// the number of elapsed steps". Evaluated only while the global bypass can never apply (GlobalBudget = 0) and the
// clock is monotone; base point = first creation of the metric (budget = max) or its last reset.
func (f *floodOracle) goc(o *rec, line int, x *op, c config, monotone bool, where func() string, tags map[string]bool) {
	if c.global != 0 || !monotone || x.gkind != 1 {
		return
	}
	pred := x.now - x.now%c.step
	b := f.m[x.metric]
	if b == nil { // no flood row: the metric starts with the maximum budget
		f.m[x.metric] = &floodBase{budget: c.max - 1, t0: pred}
		return
	}
	// token bucket of the property: refill by bonus per elapsed step up to the maximum, then spend one
	avail := b.budget
	if b.budget <= c.max {
		steps := int64(0)
		if pred > b.t0 {
			steps = (pred - b.t0) / c.step
		}
		avail = b.budget + c.bonus*steps
		if avail > c.max {
			avail = c.max
		}
	}
	b.created++
	if avail < 1 {
		if b.afterReset {
			o.Fail("flood_bound_exceeded_after_reset", line, where()+fmt.Sprintf(" budget=%d last=%d", b.budget, b.t0))
			tags["flood_after_reset_exceeded"] = true
		} else {
			o.Fail("flood_bound_exceeded", line, where()+fmt.Sprintf(" budget=%d last=%d", b.budget, b.t0))
		}
		avail = 1
	}
	b.budget, b.t0 = avail-1, pred
}
func (f *floodOracle) reset(x *op, c config) {
	if x.limit <= 0 {
		delete(f.m, x.metric)
		return
	}
	lim := x.limit
	if lim > 10000 {
		lim = 10000
	}
	// the reset stores the step boundary (roundTime), and calcBudget counts elapsed steps from the stored time, exactly
	// as it does after a creation: "elapsed steps" are crossed step boundaries. (The unrepaired code stored the raw
	// time; the uint32 wrap that caused made it exceed this reference as well.)
	f.m[x.metric] = &floodBase{budget: lim, t0: x.now - x.now%c.step, afterReset: true}
}

func finalOracles(o *rec, line int, input string, sh *shadow, d metadata.VerifDump, full []tlmetadata.Event, tags map[string]bool) {
	// "the journal returns each entity's latest version exactly once in ascending version order"
	seen := map[int64]bool{}
	last := int64(0)
	for _, e := range full {
		if e.Version <= last || seen[e.Id] {
			o.Fail("journal_not_ascending_or_duplicate", line, input)
		}
		last = e.Version
		seen[e.Id] = true
		if s := sh.ents[e.Id]; s == nil || s.ver != e.Version {
			o.Fail("journal_not_latest_version", line, input)
		}
	}
	if len(full) != len(sh.ents) {
		o.Fail("journal_incomplete", line, input)
	}
	// versions and (type, name) unique over the whole table
	vs := map[int64]bool{}
	ns := map[string]int64{}
	for _, r := range d.Ents {
		k := fmt.Sprint(r.Type, "/", r.Name)
		nsid, dup := ns[k]
		switch {
		case vs[r.Version] || (dup && nsid == r.NamespaceID):
			o.Fail("duplicate_version_or_name_in_table", line, input) // excluded by the UNIQUE keys themselves
		case dup && tags["duplicate_name_other_type"]:
			o.Fail("duplicate_name_in_table_via_other_type_edit", line, input) // F-C15b, already reported at the step
		case dup:
			o.Fail("duplicate_name_in_table", line, input)
		}
		vs[r.Version], ns[k] = true, r.NamespaceID
	}
	// "a string is mapped to at most one positive id and an id to at most one string"
	ids := map[int64]bool{}
	names := map[string]bool{}
	for _, m := range d.Maps {
		if ids[m.ID] || names[m.Name] {
			o.Fail("mapping_not_bijective", line, input)
		}
		ids[m.ID], names[m.Name] = true, true
	}
}

// C16: "reopening the metadata database from its binlog, either into a fresh database file or from an older
// snapshot, yields exactly the same observable state as the primary had"
func replayOracle(o *rec, line int, input, which string, prim metadata.VerifDump, rep *metadata.VerifDump, tags map[string]bool) {
	if rep == nil {
		name := "replay_fails_" + which
		if tags["rename"] {
			name += "_after_rename"
		}
		o.Fail(name, line, input)
		return
	}
	pe, pm, pf := dumpKeys(prim)
	re, rm, rf := dumpKeys(*rep)
	if pe != re {
		// C15: versions stay unique and increasing, and the journal keeps every entity's latest version, also after the
		// state is rebuilt from the binlog (reported under C15; the replay_* oracles below are C16's)
		o.Fail("journal_differs_after_binlog_rebuild_"+which, line, rebuildDiff(prim, *rep)+" | "+input)
		if tags["rename"] {
			o.Fail("replay_entities_differ_"+which+"_after_rename", line, input)
		} else {
			o.Fail("replay_entities_differ_"+which, line, input)
		}
	}
	if pm != rm {
		o.Fail("replay_mappings_differ_"+which, line, input)
	}
	if pf != rf {
		if tags["reset"] {
			o.Fail("replay_flood_limits_differ_"+which+"_after_resetflood", line, input)
		} else {
			o.Fail("replay_flood_limits_differ_"+which, line, input)
		}
	}
}

// witnesses replays the minimal input of every recorded finding on the real code
func rebuildDiff(p, r metadata.VerifDump) string {
	mx := func(d metadata.VerifDump) int64 {
		m := int64(0)
		for _, e := range d.Ents {
			if e.Version > m {
				m = e.Version
			}
		}
		return m
	}
	return fmt.Sprintf("primary: %d entities max version %d; rebuilt: %d entities max version %d", len(p.Ents), mx(p), len(r.Ents), mx(r))
}

func witnesses(o *vu.Out, root string) {
	run := func(name string, c config, f func(clock *int64, dir string, db *metadata.DBV2) bool) {
		dir := root + "/w_" + name
		_ = os.MkdirAll(dir, 0o755)
		defer os.RemoveAll(dir)
		clock := new(int64)
		*clock = 50
		db, err := openDB(clock, dir, "db", true, c)
		if err != nil {
			panic(err)
		}
		if f(clock, dir, db) {
			o.Finding(name, "reproduced")
		} else {
			o.Finding(name, "gone")
		}
	}
	c0 := config{max: 3, step: 60, bonus: 1, global: 0}
	save := func(clock *int64, db *metadata.DBV2, p, l, id, oldv int64, create bool, typ int64) *op {
		x := &op{kind: kSave, p: p, l: l, id: id, oldv: oldv, create: create, typ: typ, now: *clock + 1}
		exec(clock, db, x)
		return x
	}
	// F-C15a: an edit naming another type renames a namespace
	run("F-C15a", c0, func(clock *int64, dir string, db *metadata.DBV2) bool {
		defer db.Close()
		a := save(clock, db, 0, 1, 0, 0, true, 4)
		b := save(clock, db, 0, 2, a.rid, a.rver, false, 0)
		d, _ := metadata.VerifDumpDB(db)
		return b.ok && len(d.Ents) == 1 && d.Ents[0].Name == "n2" && d.Ents[0].Type == 4
	})
	// F-C15b: two metrics named "n2:n4" (an edit of another type stored namespace id 0 under the namespaced name)
	run("F-C15b", c0, func(clock *int64, dir string, db *metadata.DBV2) bool {
		defer db.Close()
		n := save(clock, db, 0, 2, 0, 0, true, 4)
		a := save(clock, db, 2, 4, 0, 0, true, 0)
		a2 := save(clock, db, 2, 4, a.rid, a.rver, false, 1)
		b := save(clock, db, 0, 9, 0, 0, true, 0)
		b2 := save(clock, db, 2, 4, b.rid, b.rver, false, 0)
		d, _ := metadata.VerifDumpDB(db)
		cnt := 0
		for _, r := range d.Ents {
			if r.Type == 0 && r.Name == "n2:n4" {
				cnt++
			}
		}
		return n.ok && a2.ok && b2.ok && cnt == 2
	})
	// F-C16a: a renamed metric reverts to its old name and version after replay
	run("F-C16a", c0, func(clock *int64, dir string, db *metadata.DBV2) bool {
		a := save(clock, db, 0, 1, 0, 0, true, 0)
		b := save(clock, db, 0, 2, a.rid, a.rver, false, 0)
		_ = db.Close()
		d2, err := openDB(clock, dir, "fresh", false, c0)
		if err != nil {
			return true
		}
		defer d2.Close()
		d, _ := metadata.VerifDumpDB(d2)
		return b.ok && len(d.Ents) == 1 && d.Ents[0].Name == "n1" && d.Ents[0].Version == a.rver
	})
	// F-C16b: ResetFlood is not in the binlog
	run("F-C16b", c0, func(clock *int64, dir string, db *metadata.DBV2) bool {
		exec(clock, db, &op{kind: kReset, metric: 1, limit: 2, now: 61})
		p, _ := metadata.VerifDumpDB(db)
		_ = db.Close()
		d2, err := openDB(clock, dir, "fresh", false, c0)
		if err != nil {
			return true
		}
		defer d2.Close()
		d, _ := metadata.VerifDumpDB(d2)
		return len(p.Flood) == 1 && len(d.Flood) == 0
	})
	// F-C19a: a flood reset to a limit below the maximum is undone by the next creation (unrounded reset time)
	run("F-C19a", c0, func(clock *int64, dir string, db *metadata.DBV2) bool {
		defer db.Close()
		exec(clock, db, &op{kind: kReset, metric: 1, limit: 1, now: 61})
		a := &op{kind: kGoc, metric: 1, key: 1, now: 62}
		b := &op{kind: kGoc, metric: 1, key: 2, now: 62}
		exec(clock, db, a)
		exec(clock, db, b)
		return a.gkind == 1 && b.gkind == 1
	})
}
