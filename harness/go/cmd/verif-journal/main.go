//go:build verif

// Correspondence harness for C20 (metadata replicas / journal): drives a chain of real JournalFast objects
// (source -> aggregator journal (compact or not) -> two agent journals), each with a real MetricsStorage,
// through generated histories of edits (renames, name reuse, groups, namespaces), limited/partial deliveries and
// save / truncate / reload, and prints what they showed as cases for Journal/Corr.v.  Property oracles are
// evaluated here, on the implementation's own state.
package main

import (
	"encoding/json"
	"flag"
	"fmt"
	"io"
	"log"
	"math"
	"os"
	"sort"
	"strings"

	"github.com/VKCOM/statshouse/internal/data_model"
	"github.com/VKCOM/statshouse/internal/data_model/gen2/tlmetadata"
	"github.com/VKCOM/statshouse/internal/format"
	mj "github.com/VKCOM/statshouse/internal/metajournal"
	vu "github.com/VKCOM/statshouse/internal/verifutil"
)

// ---------- data tokens ----------
type tok struct {
	broken, disable, compacted bool
	res, desc                  int
}

var descStr = []string{"", "d1", "d2", "keep __whales_off"}
var registry = map[string]tok{}

func mkData(typ int32, t tok) string {
	var s string
	switch {
	case t.broken:
		s = fmt.Sprintf("{broken%d", t.res)
	case typ == format.MetricEvent:
		var parts []string
		if t.desc != 0 {
			parts = append(parts, fmt.Sprintf(`"description":%q`, descStr[t.desc]))
		}
		if t.disable {
			parts = append(parts, `"disable":true`)
		}
		if t.res != 0 {
			parts = append(parts, fmt.Sprintf(`"resolution":%d`, t.res))
		}
		s = "{" + strings.Join(parts, ",") + "}"
	case typ == format.MetricsGroupEvent || typ == format.NamespaceEvent:
		var parts []string
		if t.res != 0 {
			parts = append(parts, fmt.Sprintf(`"weight":%d`, t.res))
		}
		if t.disable {
			parts = append(parts, `"disable":true`)
		}
		s = "{" + strings.Join(parts, ",") + "}"
	default:
		s = fmt.Sprintf(`{"k":%d,"r":%d}`, t.desc, t.res)
	}
	registry[fmt.Sprintf("%d|%s", typ, s)] = t
	return s
}

func obsTok(typ int32, data string) tok {
	if t, ok := registry[fmt.Sprintf("%d|%s", typ, data)]; ok {
		return t
	}
	var v struct {
		Description string `json:"description"`
		Resolution  int    `json:"resolution"`
		Disable     bool   `json:"disable"`
	}
	t := tok{compacted: true}
	if err := json.Unmarshal([]byte(data), &v); err != nil {
		t.broken = true
		return t
	}
	t.disable = v.Disable
	t.res = v.Resolution
	t.desc = -1
	for i, d := range descStr {
		if d == v.Description {
			t.desc = i
		}
	}
	if t.desc >= 0 {
		c := t
		c.compacted = false
		if mkData(typ, c) == data { // the same string the source itself would write for this content
			return c
		}
	}
	return t
}

func metaStr(k int) string {
	if k == 0 {
		return ""
	}
	return fmt.Sprintf("m%d", k)
}
func metaTok(s string) int {
	if s == "" {
		return 0
	}
	k := 0
	fmt.Sscanf(s, "m%d", &k)
	return k
}

func nameTerm(s string) string {
	parts := make([]string, len(s))
	for i := 0; i < len(s); i++ {
		parts[i] = fmt.Sprintf("%d", s[i])
	}
	return "[" + strings.Join(parts, ";") + "]"
}

func evTerm(e tlmetadata.Event) string {
	t := obsTok(e.EventType, e.Data)
	return fmt.Sprintf("(Ev %s %s %d %s %d %s %d %d %d (Dt %s %s %s %s %s))", vu.Z(int64(e.EventType)), vu.Z(e.Id), e.Version, nameTerm(e.Name),
		e.FieldMask, vu.Z(e.NamespaceId), e.UpdateTime, e.Unused, metaTok(e.Metadata),
		vu.B(t.broken), vu.B(t.disable), vu.B(t.compacted), vu.Z(int64(t.res)), vu.Z(int64(t.desc)))
}

// ---------- digests (mirror of Journal/Corr.v) ----------
const dm = 2147483647

func mix(d, x int64) int64 { return (d*48271 + ((x%dm)+dm)%dm) % dm }
func b2z(b bool) int64 {
	if b {
		return 1
	}
	return 0
}
func dname(s string) int64 {
	d := int64(17)
	for i := 0; i < len(s); i++ {
		d = mix(d, int64(s[i]))
	}
	return mix(d, int64(len(s)))
}
func fold(seed int64, xs ...int64) int64 {
	for _, x := range xs {
		seed = mix(seed, x)
	}
	return seed
}
func devent(e tlmetadata.Event) int64 {
	t := obsTok(e.EventType, e.Data)
	return fold(7, int64(e.EventType), e.Id, e.Version, dname(e.Name), int64(e.FieldMask), e.NamespaceId, int64(e.UpdateTime), int64(e.Unused),
		int64(metaTok(e.Metadata)), b2z(t.broken), b2z(t.disable), b2z(t.compacted), int64(t.res), int64(t.desc))
}
func djournal(n *mj.VerifNode) int64 {
	evs, _, _ := n.Entries()
	d := int64(1)
	for _, e := range evs {
		d = mix(d, devent(e))
	}
	return d
}
func dstorage(n *mj.VerifNode) int64 {
	sum := int64(0)
	add := func(x int64) { sum = (sum + x) % dm }
	byID, byName := n.Metrics()
	for _, m := range byID {
		add(fold(101, int64(m.Key), int64(m.ID), m.Version, dname(m.Name), int64(m.Group)))
	}
	for _, m := range byName {
		add(fold(102, dname(m.KeyName), int64(m.ID), m.Version, int64(m.Group)))
	}
	gID, gName, ord := n.Groups()
	for _, g := range gID {
		add(fold(103, int64(g.Key), int64(g.ID), g.Version, dname(g.Name), b2z(g.Disable)))
	}
	for _, g := range gName {
		add(fold(104, dname(g.KeyName), int64(g.ID), g.Version))
	}
	nID, nName := n.Namespaces()
	for _, g := range nID {
		add(fold(105, int64(g.Key), int64(g.ID), g.Version, dname(g.Name)))
	}
	for _, g := range nName {
		add(fold(106, dname(g.KeyName), int64(g.ID), g.Version))
	}
	o := int64(107)
	for _, id := range ord {
		o = mix(o, int64(id))
	}
	add(o)
	return sum
}

var debugOp = -1 // VERIF_DEBUG=hist:op prints the entries of the touched node after that operation
var opCounter = 0

func obsTerm(n *mj.VerifNode) string {
	if opCounter == debugOp {
		evs, _, _ := n.Entries()
		for _, e := range evs {
			fmt.Fprintf(os.Stderr, "DEBUG %s data=%q\n", evTerm(e), e.Data)
		}
	}
	opCounter++
	cur, loader, known, _, lo, _ := n.State()
	return fmt.Sprintf("(Ob %d %d %d %d %d %d)", cur, loader, known, lo&0xffffffff, djournal(n), dstorage(n))
}

// amb / gord: how the implementation resolved what Go map order / unstable sort leave open
func ambTerms(n *mj.VerifNode) (string, string, bool) {
	byID, byName := n.Metrics()
	cnt := map[string]int{}
	for _, m := range byID {
		cnt[m.Name]++
	}
	var amb []string
	for _, m := range byName {
		if cnt[m.KeyName] > 1 {
			amb = append(amb, fmt.Sprintf("(%s,%s)", nameTerm(m.KeyName), vu.Z(int64(m.ID))))
		}
	}
	gID, _, ord := n.Groups()
	gcnt := map[string]int{}
	dup := false
	for _, g := range gID {
		if g.ID > 0 && !g.Disable {
			gcnt[g.Name]++
			if gcnt[g.Name] > 1 {
				dup = true
			}
		}
	}
	gord := "[]"
	if dup {
		xs := make([]int64, len(ord))
		for i, id := range ord {
			xs[i] = int64(id)
		}
		gord = vu.ListZ(xs)
	}
	return "[" + strings.Join(amb, ";") + "]", gord, len(amb) > 0 || dup
}

func wire(e tlmetadata.Event) tlmetadata.Event {
	e.FieldMask = 0
	e.SetNamespaceId(e.NamespaceId)
	buf := e.WriteTL1Boxed(nil)
	var r tlmetadata.Event
	if _, err := r.ReadTL1Boxed(buf); err != nil {
		panic(err)
	}
	return r
}

// ---------- the generator's own record of the source (independent of the code under test) ----------
type ent struct {
	typ     int32
	id      int64
	name    string
	ver     int64
	t       tok
	names   map[string]bool // every name it ever had
	parsed  bool            // latest event can be parsed by the converters
	okName  string          // name of the latest parsable event ("" if none)
	okVer   int64
	okDis   bool
	hasOK   bool
}

type world struct {
	r       *vu.Rng
	ver     int64
	ents    map[[2]int64]*ent
	nodes   []*mj.VerifNode
	compact bool
	ops     []string
	text    []string
	kinds   map[string]bool
	truncM  bool // node 1 lost data in a reload
	big     bool
	bigLen  int   // length of the long description
	bigID   int64 // when non-zero only this metric gets the long description
	progressFail []string
	convFail     [][2]string
	broken  bool // this history may contain payloads the converters refuse (outside the property's premise)
}

var metricNames = []string{"a", "ab", "abc", "b", "ba", "bab", "c", "ab_", "abcd", "ca"}
var groupNames = []string{"a", "ab", "abc", "b", "ba", "c", "ab_"}
var nsNames = []string{"n", "nn", "m"}

func (w *world) live(typ int32) []*ent {
	var l []*ent
	for _, e := range w.ents {
		if e.typ == typ {
			l = append(l, e)
		}
	}
	sort.Slice(l, func(i, j int) bool { return l[i].id < l[j].id })
	return l
}

func (w *world) freeName(typ int32, pool []string, preferFreed bool) (string, bool) {
	used := map[string]bool{}
	freed := map[string]bool{}
	for _, e := range w.live(typ) {
		used[e.name] = true
		for n := range e.names {
			freed[n] = true
		}
	}
	var cand, candFreed []string
	for _, n := range pool {
		if !used[n] {
			cand = append(cand, n)
			if freed[n] {
				candFreed = append(candFreed, n)
			}
		}
	}
	if preferFreed && len(candFreed) > 0 {
		return candFreed[w.r.Intn(len(candFreed))], true
	}
	if len(cand) == 0 {
		return "", false
	}
	return cand[w.r.Intn(len(cand))], true
}

// emit one source event
func (w *world) edit(typ int32, id int64, name string, t tok, code string) {
	if t.broken { // the string of a broken payload only carries res
		t = tok{broken: true, res: t.res}
	}
	w.ver += int64(1 + w.r.Intn(3))
	e := tlmetadata.Event{Id: id, Name: name, EventType: typ, Version: w.ver, UpdateTime: uint32(w.r.Intn(3)), Data: mkData(typ, t)}
	if w.big && typ == format.MetricEvent && !t.broken && t.desc == 2 && (w.bigID == 0 || w.bigID == id) {
		// a huge description: journals of several chunks / one event above the response byte budget
		e.Data = fmt.Sprintf(`{"description":%q}`, strings.Repeat("x", w.bigLen))
		registry[fmt.Sprintf("%d|%s", typ, e.Data)] = tok{desc: 2, res: 0, disable: false}
		t = tok{desc: 2}
	}
	if w.r.Chance(60) {
		e.SetNamespaceId(int64(w.r.Intn(3)))
	}
	if w.r.Chance(40) {
		e.SetMetadata(metaStr(1 + w.r.Intn(2)))
	}
	if w.r.Chance(10) {
		e.Unused = uint32(1 + w.r.Intn(2))
	}
	k := [2]int64{int64(typ), id}
	x := w.ents[k]
	if x == nil {
		x = &ent{typ: typ, id: id, names: map[string]bool{}}
		w.ents[k] = x
	}
	x.name, x.ver, x.t = name, w.ver, t
	x.names[name] = true
	x.parsed = !t.broken && id >= math.MinInt32 && id <= math.MaxInt32
	if x.parsed {
		x.okName, x.okVer, x.okDis, x.hasOK = name, w.ver, t.disable, true
	}
	// hashes of the four forms, sizes (as the diff's byte budget counts them) of the two payload forms
	szs := []int64{int64(len(e.Name) + len(e.Data) + 60), 0}
	hs := make([]int64, 4)
	_, lo := mj.VerifEventHash(e)
	hs[0] = int64(lo & 0xffffffff)
	ce, keep, err := mj.VerifCompact(e)
	if keep || err != nil {
		_, lo = mj.VerifEventHash(ce)
		hs[1] = int64(lo & 0xffffffff)
		szs[1] = int64(len(ce.Name) + len(ce.Data) + 60)
		_, lo = mj.VerifEventHash(wire(ce))
		hs[3] = int64(lo & 0xffffffff)
	}
	_, lo = mj.VerifEventHash(wire(e))
	hs[2] = int64(lo & 0xffffffff)
	n := w.nodes[0]
	n.Apply([]tlmetadata.Event{e}, e.Version)
	// with unparsable payloads even the source's own indexes can hold two entities under one name
	amb, gord, _ := ambTerms(n)
	w.ops = append(w.ops, fmt.Sprintf("OEdit %s %s %s %s %s %s", evTerm(e), vu.ListZ(hs), vu.ListZ(szs), amb, gord, obsTerm(n)))
	w.text = append(w.text, fmt.Sprintf("%s%d:%s@%d", code, id, name, w.ver))
}

func (w *world) randTok(typ int32) tok {
	t := tok{}
	switch typ {
	case format.MetricEvent:
		t.res = int(w.r.Pick(0, 0, 1, 5, 15))
		t.desc = w.r.Intn(4)
		t.disable = w.r.Chance(15)
	case format.MetricsGroupEvent, format.NamespaceEvent:
		t.res = w.r.Intn(3)
		t.disable = w.r.Chance(25)
	default:
		t.desc = w.r.Intn(3)
		t.res = w.r.Intn(2)
	}
	return t
}

func (w *world) randomEdit() {
	r := w.r
	typ := int32(format.MetricEvent)
	pool := metricNames
	maxLive := 6
	switch x := r.Intn(100); {
	case x < 58:
	case x < 80:
		typ, pool, maxLive = format.MetricsGroupEvent, groupNames, 4
	case x < 90:
		typ, pool, maxLive = format.NamespaceEvent, nsNames, 2
	case x < 94:
		w.edit(format.DashboardEvent, int64(1+r.Intn(2)), fmt.Sprintf("dash%d", r.Intn(2)), w.randTok(format.DashboardEvent), "D")
		return
	case x < 97:
		w.edit(format.PromConfigEvent, int64(format.PrometheusConfigID), "prom", w.randTok(format.PromConfigEvent), "P")
		return
	default:
		w.edit(5, int64(1+r.Intn(2)), "future", w.randTok(5), "U")
		return
	}
	live := w.live(typ)
	action := r.Intn(100)
	if len(live) == 0 || (action < 25 && len(live) < maxLive) { // create
		name, ok := w.freeName(typ, pool, r.Chance(70))
		if !ok {
			return
		}
		id := int64(1)
		for {
			if _, used := w.ents[[2]int64{int64(typ), id}]; !used {
				break
			}
			id++
		}
		if typ == format.MetricsGroupEvent && r.Chance(6) {
			id = int64(format.BuiltinGroupIDDefault) // the journal may override a built-in group
			if _, used := w.ents[[2]int64{int64(typ), id}]; used {
				return
			}
			name = "__default"
		}
		if w.broken && typ == format.MetricEvent && r.Chance(10) {
			id = math.MaxInt32 + int64(1+r.Intn(2)) // does not fit int32: converters refuse it
		}
		t := w.randTok(typ)
		if typ == format.MetricsGroupEvent && r.Chance(3) {
			name = "" // prefix of everything
			for _, e := range live {
				if e.name == "" {
					return
				}
			}
		}
		w.edit(typ, id, name, t, "C")
		w.kinds["create"] = true
		return
	}
	e := live[r.Intn(len(live))]
	switch {
	case action < 55: // rename, preferring names somebody else has freed
		if e.id == int64(format.BuiltinGroupIDDefault) {
			return
		}
		name, ok := w.freeName(typ, pool, r.Chance(75))
		if !ok {
			return
		}
		reused := false
		for _, o := range live {
			if o != e && o.names[name] {
				reused = true
			}
		}
		if reused {
			w.kinds["reuse"] = true
		}
		w.edit(typ, e.id, name, e.t, "R")
		w.kinds["rename"] = true
	case action < 70: // touch: same content, new version
		w.edit(typ, e.id, e.name, e.t, "T")
	case action < 75 && w.broken: // broken payload
		t := e.t
		t.broken = true
		t.res = r.Intn(2)
		w.edit(typ, e.id, e.name, t, "B")
		w.kinds["broken"] = true
	case action < 85 && typ != format.MetricEvent: // enable/disable
		t := e.t
		t.broken = false
		t.disable = !t.disable
		w.edit(typ, e.id, e.name, t, "X")
		w.kinds["toggle"] = true
	default: // edit content
		t := w.randTok(typ)
		if typ == format.MetricEvent && r.Chance(50) { // only what compaction drops
			t = e.t
			t.broken = false
			t.desc = r.Intn(3)
		}
		w.edit(typ, e.id, e.name, t, "E")
	}
}

const unlimited = 1000000000000

// maxItems < 0: the limits HandleGetMetrics3 really uses (getJournalDiffLocked3)
func (w *world) deliver(to, maxItems, maxBytes, cut int) int {
	up := w.nodes[0]
	if to != 1 {
		up = w.nodes[1]
	}
	n := w.nodes[to]
	_, loader, _, _, _, _ := n.State()
	upCur, _, _, _, _, _ := up.State()
	var evs []tlmetadata.Event
	var cur int64
	if maxItems < 0 {
		evs, cur = up.DiffDefault(loader)
		maxItems, maxBytes = data_model.MaxJournalItemsSent, data_model.MaxJournalBytesSent
		w.kinds["default_limits"] = true
	} else {
		evs, cur = up.Diff(loader, maxItems, maxBytes)
	}
	if maxBytes < unlimited {
		w.kinds["byte_limit"] = true
	}
	// progress: a replica positioned behind its upstream's version must be sent something
	if loader < upCur && len(evs) == 0 {
		w.progressFail = append(w.progressFail, fmt.Sprintf("to=%d from=%d upstream=%d maxItems=%d maxBytes=%d", to, loader, upCur, maxItems, maxBytes))
	}
	for i := range evs {
		if to == 1 { // the source plays the metadata engine: its answer carries the events as stored
			raw, ok := up.RawEntry(evs[i].EventType, evs[i].Id)
			if !ok {
				panic("missing raw entry")
			}
			evs[i] = raw
		} else {
			evs[i] = wire(evs[i])
		}
	}
	total := len(evs)
	if cut < len(evs) {
		evs = evs[:cut]
	}
	n.Apply(evs, cur)
	amb, gord, isAmb := ambTerms(n)
	if isAmb {
		w.kinds["ambiguous"] = true
	}
	w.ops = append(w.ops, fmt.Sprintf("ODeliver %d %d %d %d %s %s %s", to, maxItems, maxBytes, cut, amb, gord, obsTerm(n)))
	w.text = append(w.text, fmt.Sprintf("d%d/%d/%d/%d", to, maxItems, maxBytes, cut))
	if len(evs) > 0 {
		w.kinds["delivered"] = true
	}
	if len(evs) < total {
		w.kinds["partial"] = true
	}
	return total
}

func (w *world) reloadOnce(k int, cut int) int {
	n := w.nodes[k]
	before := n.MapLen()
	full, hdr, chunks, fileLen, err := n.SaveTruncReload(cut)
	if err != nil {
		panic(err)
	}
	cs := make([]string, len(chunks))
	for i, c := range chunks {
		cs[i] = fmt.Sprintf("%d%%nat", c)
	}
	amb, gord, _ := ambTerms(n)
	w.ops = append(w.ops, fmt.Sprintf("OReload %d %s %s [%s] %s %s %s", k, vu.B(full), vu.B(hdr), strings.Join(cs, ";"), amb, gord, obsTerm(n)))
	w.text = append(w.text, fmt.Sprintf("r%d/%d", k, cut))
	w.kinds["reload"] = true
	if n.MapLen() < before {
		w.kinds["truncated"] = true
		if k == 1 {
			w.truncM = true
		}
	}
	if len(chunks) > 1 {
		w.kinds["multichunk"] = true
	}
	return fileLen
}

// the size of the file is only known after saving: an untruncated reload first (recorded as an operation of its
// own), then the cut given in 1/1000 of the file length
func (w *world) reload(k int, cutFrac int) {
	fileLen := w.reloadOnce(k, math.MaxInt)
	if cutFrac >= 1000 {
		return
	}
	cut := fileLen * cutFrac / 1000
	if w.r.Chance(30) {
		cut = fileLen - 1 - w.r.Intn(24) // inside the trailer of the last chunk
	}
	if cut < 0 {
		cut = 0
	}
	w.reloadOnce(k, cut)
}

func longestGroup(groups []*ent, name string) (int32, int) {
	best, bestLen := int32(format.BuiltinGroupIDDefault), -1
	for _, g := range groups {
		if g.hasOK && g.id > 0 && !g.okDis && strings.HasPrefix(name, g.okName) && len(g.okName) > bestLen {
			best, bestLen = int32(g.id), len(g.okName)
		}
	}
	return best, bestLen
}

// ---------- oracles on the converged chain ----------
func (w *world) oracles(o *vu.Out, line int, input string) {
	nodes := w.nodes
	for _, pf := range w.progressFail {
		o.Fail("delivery_makes_progress", line, pf+" "+input)
	}
	for _, cf := range w.convFail {
		o.Fail(cf[0], line, cf[1]+" "+input)
	}
	for k, n := range nodes {
		evs, hi, lo := n.Entries()
		_, _, _, shi, slo, _ := n.State()
		var xh, xl uint64
		for i, e := range evs {
			h1, l1 := mj.VerifEventHash(e)
			if h1 != hi[i] || l1 != lo[i] {
				o.Fail("stored_entry_hash", line, input)
			}
			xh ^= h1
			xl ^= l1
		}
		if xh != shi || xl != slo {
			o.Fail("hash_is_xor_of_entries", line, fmt.Sprintf("node=%d %s", k, input))
		}
		if len(evs) != n.MapLen() {
			o.Fail("order_matches_map", line, input)
		}
		for i := 1; i < len(evs); i++ {
			if evs[i-1].Version >= evs[i].Version {
				o.Fail("order_sorted", line, input)
			}
		}
	}
	// node 1 against the source
	src, _, _ := nodes[0].Entries()
	m1, _, _ := nodes[1].Entries()
	if !w.compact {
		if len(src) != len(m1) {
			o.Fail("replica_has_source_latest", line, "node=1 "+input)
		} else {
			for i := range src {
				if src[i] != m1[i] {
					o.Fail("replica_has_source_latest", line, "node=1 "+input)
					break
				}
			}
		}
	} else {
		want := map[[2]int64]tlmetadata.Event{}
		for _, e := range src {
			ce, keep, err := mj.VerifCompact(e)
			if keep || err != nil {
				want[[2]int64{int64(e.EventType), e.Id}] = ce
			}
		}
		if len(want) != len(m1) {
			o.Fail("compact_replica_has_source_latest", line, input)
		}
		for _, e := range m1 {
			c, ok := want[[2]int64{int64(e.EventType), e.Id}]
			if !ok || !mj.VerifEqualNoVersion(c, e) || e.Version > c.Version {
				o.Fail("compact_replica_has_source_latest", line, input)
				break
			}
		}
	}
	// agents against node 1
	for _, k := range []int{2, 3} {
		a, _, _ := nodes[k].Entries()
		exact := !w.compact || !w.truncM
		bad := len(a) != len(m1)
		if !bad && exact {
			for i := range a {
				if a[i] != wire(m1[i]) {
					bad = true
				}
			}
		}
		if !bad && !exact {
			byKey := map[[2]int64]tlmetadata.Event{}
			for _, e := range m1 {
				byKey[[2]int64{int64(e.EventType), e.Id}] = wire(e)
			}
			for _, e := range a {
				c, ok := byKey[[2]int64{int64(e.EventType), e.Id}]
				if !ok || !mj.VerifEqualNoVersion(c, e) {
					bad = true
				}
			}
		}
		if bad {
			o.Fail("agent_has_upstream_latest", line, fmt.Sprintf("node=%d %s", k, input))
		}
	}
	_, _, _, h2, l2, s2 := nodes[2].State()
	_, _, _, h3, l3, s3 := nodes[3].State()
	if h2 != h3 || l2 != l3 || s2 != s3 {
		o.Fail("replicas_same_hash", line, input)
	}
	if w.broken {
		return // unparsable events: what the indexes hold depends on which earlier versions a replica happened to see
	}
	// the in-memory indexes of every node against the generator's own record of the source
	metrics, groups, nss := w.live(format.MetricEvent), w.live(format.MetricsGroupEvent), w.live(format.NamespaceEvent)
	for k, n := range nodes {
		byID, byName := n.Metrics()
		idx := map[int32]mj.VerifMetric{}
		for _, m := range byID {
			idx[m.Key] = m
		}
		nameIdx := map[string]mj.VerifMetric{}
		for _, m := range byName {
			nameIdx[m.KeyName] = m
			if m.Name != m.KeyName || idx[m.ID].Version != m.Version || idx[m.ID].Name != m.Name {
				o.Fail("by_name_sound", line, fmt.Sprintf("node=%d name=%q %s", k, m.KeyName, input))
			}
		}
		cnt := 0
		for _, e := range metrics {
			if !e.hasOK {
				continue
			}
			cnt++
			got, ok := idx[int32(e.id)]
			if !ok || got.Name != e.okName || got.Version > e.okVer || (!(w.compact && k > 0) && got.Version != e.okVer) {
				o.Fail("by_id_is_source_latest", line, fmt.Sprintf("node=%d metric=%d %s", k, e.id, input))
				continue
			}
			if g, _ := longestGroup(groups, e.okName); got.Group != g {
				_, l := longestGroup(groups, e.okName)
				// any enabled group with a name of the same (longest) length is as good
				alt := false
				for _, gg := range groups {
					if gg.hasOK && gg.id > 0 && !gg.okDis && strings.HasPrefix(e.okName, gg.okName) && len(gg.okName) == l && int32(gg.id) == got.Group {
						alt = true
					}
				}
				if !alt {
					o.Fail("group_is_longest_enabled_prefix", line, fmt.Sprintf("node=%d metric=%d got=%d want=%d %s", k, e.id, got.Group, g, input))
				}
			}
			if !e.parsed { // the latest event is unparsable: the name it carries is not indexed anywhere
				continue
			}
			byN, ok := nameIdx[e.okName]
			if !ok || byN.ID != int32(e.id) {
				// is this the recorded pattern?  another metric once held this name and has a later version
				pattern := false
				for _, a := range metrics {
					if a != e && a.names[e.okName] && a.ver > e.okVer {
						pattern = true
					}
				}
				if pattern {
					o.Fail("lookup_by_name_lost_after_reuse", line, fmt.Sprintf("node=%d metric=%d name=%q reuse-then-rename %s", k, e.id, e.okName, input))
				} else {
					o.Fail("lookup_by_name_returns_holder", line, fmt.Sprintf("node=%d metric=%d name=%q %s", k, e.id, e.okName, input))
				}
			}
		}
		if cnt != len(byID) {
			o.Fail("by_id_is_source_latest", line, fmt.Sprintf("node=%d count %s", k, input))
		}
		// groups and namespaces by name
		gID, gName, _ := n.Groups()
		gi := map[string]int32{}
		for _, g := range gName {
			gi[g.KeyName] = g.ID
		}
		_ = gID
		for _, e := range groups {
			if !e.parsed {
				continue
			}
			if id, ok := gi[e.okName]; !ok || id != int32(e.id) {
				pattern := false
				for _, a := range groups {
					if a != e && a.names[e.okName] && a.ver > e.okVer {
						pattern = true
					}
				}
				if e.okName == "__default" {
					pattern = pattern || false
				}
				if pattern {
					o.Fail("group_by_name_lost_after_reuse", line, fmt.Sprintf("node=%d group=%d name=%q reuse-then-rename %s", k, e.id, e.okName, input))
				} else {
					o.Fail("group_by_name_returns_holder", line, fmt.Sprintf("node=%d group=%d name=%q %s", k, e.id, e.okName, input))
				}
			}
		}
		_, nName := n.Namespaces()
		ni := map[string]int32{}
		for _, g := range nName {
			ni[g.KeyName] = g.ID
		}
		for _, e := range nss {
			if !e.parsed {
				continue
			}
			if id, ok := ni[e.okName]; !ok || id != int32(e.id) {
				pattern := false
				for _, a := range nss {
					if a != e && a.names[e.okName] && a.ver > e.okVer {
						pattern = true
					}
				}
				if pattern {
					o.Fail("namespace_by_name_lost_after_reuse", line, fmt.Sprintf("node=%d ns=%d name=%q reuse-then-rename %s", k, e.id, e.okName, input))
				} else {
					o.Fail("namespace_by_name_returns_holder", line, fmt.Sprintf("node=%d ns=%d name=%q %s", k, e.id, e.okName, input))
				}
			}
		}
	}
}

func finalTerm(k int, n *mj.VerifNode) string {
	evs, _, _ := n.Entries()
	es := make([]string, len(evs))
	for i, e := range evs {
		es[i] = evTerm(e)
	}
	byID, byName := n.Metrics()
	var a, b, c, d, e2, f []string
	for _, m := range byID {
		a = append(a, fmt.Sprintf("(%s,%d,%s,%s)", vu.Z(int64(m.Key)), m.Version, nameTerm(m.Name), vu.Z(int64(m.Group))))
	}
	for _, m := range byName {
		b = append(b, fmt.Sprintf("(%s,%s,%d,%s)", nameTerm(m.KeyName), vu.Z(int64(m.ID)), m.Version, vu.Z(int64(m.Group))))
	}
	gID, gName, _ := n.Groups()
	for _, g := range gID {
		c = append(c, fmt.Sprintf("(%s,%d,%s,%s)", vu.Z(int64(g.Key)), g.Version, nameTerm(g.Name), vu.B(g.Disable)))
	}
	for _, g := range gName {
		d = append(d, fmt.Sprintf("(%s,%s)", nameTerm(g.KeyName), vu.Z(int64(g.ID))))
	}
	nID, nName := n.Namespaces()
	for _, g := range nID {
		e2 = append(e2, fmt.Sprintf("(%s,%d,%s)", vu.Z(int64(g.Key)), g.Version, nameTerm(g.Name)))
	}
	for _, g := range nName {
		f = append(f, fmt.Sprintf("(%s,%s)", nameTerm(g.KeyName), vu.Z(int64(g.ID))))
	}
	j := func(x []string) string { return "[" + strings.Join(x, ";") + "]" }
	return fmt.Sprintf("FO %d %s %s %s %s %s %s %s", k, j(es), j(a), j(b), j(c), j(d), j(e2), j(f))
}

func newWorld(r *vu.Rng, compact, big bool) *world {
	w := &world{r: r, ents: map[[2]int64]*ent{}, compact: compact, kinds: map[string]bool{}, big: big}
	w.nodes = []*mj.VerifNode{mj.NewVerifNode(false), mj.NewVerifNode(compact), mj.NewVerifNode(false), mj.NewVerifNode(false)}
	return w
}

// after a truncated reload exactly at (and one byte around) every inner chunk boundary of the saved file the
// node must ask again for what it lost: deliveries continue and the chain has to converge
func (w *world) boundaryReloads(k int) {
	w.reloadOnce(k, math.MaxInt)
	bs := mj.VerifChunkBoundaries(w.nodes[k].File)
	if len(bs) < 2 {
		return
	}
	for _, b := range bs[:len(bs)-1] {
		for _, d := range []int{0, -1, 1} {
			w.reloadOnce(k, b+d)
			w.kinds["boundary_cut"] = true
			for i := 0; i < 50; i++ {
				if w.deliver(k, -1, 0, math.MaxInt32) == 0 {
					break
				}
			}
			w.checkEqualsUpstream(k, fmt.Sprintf("after reload from a file cut at chunk boundary%+d (%d bytes) and redelivery", d, b+d))
		}
	}
}

// node k has been delivered to until its upstream's answer was empty: it must hold its upstream's entries
// (histories with long descriptions are never compact, so this is plain equality / one RPC hop)
func (w *world) checkEqualsUpstream(k int, what string) {
	up := w.nodes[0]
	if k != 1 {
		up = w.nodes[1]
	}
	a, _, _ := w.nodes[k].Entries()
	u, _, _ := up.Entries()
	bad := len(a) != len(u)
	for i := 0; !bad && i < len(a); i++ {
		x := u[i]
		if k != 1 {
			x = wire(x)
		}
		bad = a[i] != x
	}
	_, _, _, ah, al, _ := w.nodes[k].State()
	if k != 1 { // the other agent, when it is level with the same upstream, must have the same state hash
		o := w.nodes[5-k]
		oc, ol, _, oh, olo, _ := o.State()
		uc, _, _, _, _, _ := up.State()
		_ = oc
		if ol >= uc && (oh != ah || olo != al) {
			w.convFail = append(w.convFail, [2]string{"replicas_same_hash", fmt.Sprintf("node=%d %s", k, what)})
		}
	}
	if bad {
		name := "replica_has_source_latest"
		if k != 1 {
			name = "agent_has_upstream_latest"
		}
		w.convFail = append(w.convFail, [2]string{name, fmt.Sprintf("node=%d %s", k, what)})
	}
}

// deliveries with the real default limits until every diff is empty
func (w *world) syncAll() {
	for _, to := range []int{1, 2, 3} {
		for i := 0; i < 200; i++ {
			if w.deliver(to, -1, 0, math.MaxInt32) == 0 {
				break
			}
		}
	}
}

func history(r *vu.Rng, o *vu.Out, idx int) {
	compact := r.Chance(55)
	big := idx%8 == 5      // journals of several chunks: a truncated file then yields a non-empty prefix
	oversize := idx%8 == 2 // one event larger than the default response byte budget
	if big {
		compact = false // compaction drops the long descriptions
	}
	w := newWorld(r, compact, big || oversize)
	w.bigLen = 300000
	if oversize {
		w.bigLen, w.bigID = data_model.MaxJournalBytesSent+30000, 30
	}
	w.broken = r.Chance(15)
	nops := 10 + r.Intn(36)
	if big || oversize {
		nops = 8 + r.Intn(8)
	}
	input := ""
	defer func() {
		if p := recover(); p != nil {
			line := o.Case(fmt.Sprintf("hist#%d PANIC %v %s", idx, p, strings.Join(w.text, " ")), "CConsts []", false, "panic")
			o.Fail("no_panic", line, fmt.Sprintf("hist#%d %v %s", idx, p, strings.Join(w.text, " ")))
		}
	}()
	// a burst of creations first, so that there is something to rename
	for i := 0; i < 3+r.Intn(3); i++ {
		w.randomEdit()
	}
	if big {
		for i := 0; i < 3+r.Intn(3); i++ {
			w.edit(format.MetricEvent, int64(20+i), fmt.Sprintf("big%d", i), tok{desc: 2}, "C")
		}
		w.syncAll()
		k := 1 + r.Intn(3)
		w.reload(k, 300+r.Intn(700))
		w.syncAll()
		w.boundaryReloads(1 + r.Intn(3))
	}
	if oversize {
		w.edit(format.MetricEvent, 30, "huge", tok{desc: 2}, "C")
		for i := 0; i < 1+r.Intn(3); i++ {
			w.randomEdit()
		}
		for _, to := range []int{1, 2, 3} {
			w.deliver(to, -1, 0, math.MaxInt32)
			w.deliver(to, -1, 0, math.MaxInt32)
		}
	}
	for i := 0; i < nops; i++ {
		switch x := r.Intn(100); {
		case x < 50:
			w.randomEdit()
		case x < 90:
			to := 1 + r.Intn(3)
			maxItems := int(r.Pick(1, 2, 3, 1000, 1000))
			cut := int(r.Pick(0, 1, 2, 3, math.MaxInt32, math.MaxInt32, math.MaxInt32))
			// byte budgets around the size of one event (63..115 bytes), below it, and of a few events
			maxBytes := int(r.Pick(unlimited, unlimited, unlimited, unlimited, 1, 60, 62, 63, 64, 66, 70, 90, 130, 200, 400))
			if r.Chance(12) {
				maxItems = -1 // the real default limits
			}
			w.deliver(to, maxItems, maxBytes, cut)
		default:
			k := 1 + r.Intn(3)
			frac := 1000
			if r.Chance(55) {
				frac = r.Intn(1000)
			}
			w.reload(k, frac)
		}
	}
	w.syncAll()
	// every operation is compared through digests; the full final state is printed for one agent only
	// (term size is what the Coq side pays for)
	finals := []string{finalTerm(2, w.nodes[2])}
	input = fmt.Sprintf("hist#%d compact=%v %s", idx, compact, strings.Join(w.text, " "))
	if len(input) > 900 {
		input = input[:900] + "…"
	}
	kinds := []string{"hist"}
	for k := range w.kinds {
		kinds = append(kinds, k)
	}
	if compact {
		kinds = append(kinds, "compact")
	}
	sort.Strings(kinds)
	nontrivial := w.kinds["rename"] && w.kinds["delivered"] && (w.kinds["partial"] || w.kinds["reload"])
	term := fmt.Sprintf("CHist %s [%s] [%s]", vu.B(compact), strings.Join(w.ops, "; "), strings.Join(finals, "; "))
	line := o.Case(input, term, nontrivial, kinds...)
	w.oracles(o, line, input)
}

// ---------- long polls: HandleGetMetrics3 + broadcastJournal with several parked clients ----------
func triples(r *tlmetadata.GetJournalResponsenew) string {
	if r == nil {
		return "None"
	}
	parts := make([]string, len(r.Events))
	for i, e := range r.Events {
		parts[i] = fmt.Sprintf("(%s,%s,%d)", vu.Z(int64(e.EventType)), vu.Z(e.Id), e.Version)
	}
	return "(Some [" + strings.Join(parts, ";") + "])"
}

func pollScenario(r *vu.Rng, o *vu.Out, idx int) {
	compact := r.Chance(60)
	// the source's history: metrics, groups and namespaces; some entities saved again unchanged (only version and
	// update time move), which a compact journal keeps at the older version
	var src []tlmetadata.Event
	ver := int64(0)
	type saved struct {
		typ  int32
		name string
		t    tok
	}
	last := map[[2]int64]saved{}
	nEv := 6 + r.Intn(10)
	for i := 0; i < nEv; i++ {
		ver += int64(1 + r.Intn(2))
		typ := int32(r.Pick(int64(format.MetricEvent), int64(format.MetricEvent), int64(format.MetricsGroupEvent), int64(format.NamespaceEvent), int64(format.DashboardEvent)))
		id := int64(1 + r.Intn(3))
		k := [2]int64{int64(typ), id}
		sv, had := last[k]
		if !had || r.Chance(45) {
			sv = saved{typ: typ, name: fmt.Sprintf("p%d_%d_%d", typ, id, r.Intn(2)), t: tok{res: r.Intn(2) * 5}}
			if typ != format.MetricEvent {
				sv.t = tok{res: r.Intn(3)}
			}
		}
		last[k] = sv
		e := tlmetadata.Event{Id: id, Name: sv.name, EventType: typ, Version: ver, UpdateTime: uint32(100 + i), Data: mkData(typ, sv.t)}
		e.SetNamespaceId(0)
		src = append(src, e)
	}
	k1 := 1 + r.Intn(len(src)-1)
	k2 := k1 + 1 + r.Intn(len(src)-k1)
	cp := func(x []tlmetadata.Event) []tlmetadata.Event { return append([]tlmetadata.Event(nil), x...) }
	input := fmt.Sprintf("poll#%d compact=%v events=%d lagging-aggregator-has=%d then=%d", idx, compact, len(src), k1, k2)
	line := -1
	fails := [][2]string{}
	func() {
		defer func() {
			if p := recover(); p != nil {
				fails = append(fails, [2]string{"no_panic", fmt.Sprintf("%v", p)})
			}
		}()
		// the source journal (plays the metadata engine) and three aggregator journals fed from it at different times
		S, ahead, lag, late := mj.NewVerifNode(false), mj.NewVerifNode(compact), mj.NewVerifNode(compact), mj.NewVerifNode(compact)
		feed := func(evs []tlmetadata.Event) {
			for _, e := range evs {
				S.Apply([]tlmetadata.Event{e}, e.Version)
			}
		}
		// one request of an aggregator to the source: the batch it applied
		syncAgg := func(agg *mj.VerifNode, items int) []tlmetadata.Event {
			_, loader, _, _, _, _ := agg.State()
			evs, cur := S.Diff(loader, items, unlimited)
			for i := range evs {
				evs[i], _ = S.RawEntry(evs[i].EventType, evs[i].Id)
			}
			batch := cp(evs)
			agg.Apply(evs, cur)
			return batch
		}
		feed(src[:k1])
		batch1 := syncAgg(lag, 1000)
		syncAgg(ahead, 1000)
		feed(src[k1:k2])
		syncAgg(ahead, 1000)
		// clients: agents that synced from the lagging aggregator (fully or partly), from the other one, or from nowhere
		nCl := 2 + r.Intn(3)
		clients := make([]*mj.VerifNode, nCl)
		kinds := make([]string, nCl)
		syncFrom := func(c, up *mj.VerifNode, items int) {
			_, loader, _, _, _, _ := c.State()
			evs, cur := up.Diff(loader, items, unlimited)
			for i := range evs {
				evs[i] = wire(evs[i])
			}
			c.Apply(evs, cur)
		}
		for i := range clients {
			clients[i] = mj.NewVerifNode(false)
			switch x := (i + r.Intn(2)) % 4; x {
			case 0:
				syncFrom(clients[i], lag, 1000)
				kinds[i] = "insync"
			case 1:
				syncFrom(clients[i], ahead, 1000)
				kinds[i] = "ahead"
			case 2:
				syncFrom(clients[i], lag, 1+r.Intn(2))
				kinds[i] = "behind"
			default:
				kinds[i] = "fresh"
			}
		}
		conn := mj.NewVerifPollConn()
		from := make([]int64, nCl)
		imm := make([]*tlmetadata.GetJournalResponsenew, nCl)
		del := make([]*tlmetadata.GetJournalResponsenew, nCl)
		check := func(i int, resp *tlmetadata.GetJournalResponsenew) {
			prev := from[i]
			for _, e := range resp.Events {
				if e.Version <= prev {
					fails = append(fails, [2]string{"response_only_newer_events", fmt.Sprintf("client=%d(%s) from=%d got version %d", i, kinds[i], from[i], e.Version)})
					break
				}
				prev = e.Version
			}
			clients[i].Apply(cp(resp.Events), resp.CurrentVersion)
		}
		for i, c := range clients {
			_, from[i], _, _, _, _ = c.State()
			resp, _, err := lag.Poll(conn, int64(i+1), from[i])
			if err != nil {
				panic(err)
			}
			imm[i] = resp
		}
		batch2 := syncAgg(lag, int(r.Pick(1, 2, 1000))) // applyUpdate -> broadcastJournal; often only part of what it lacks
		for i := range clients {
			resp, _, err := conn.Delayed(int64(i+1), from[i])
			if err != nil {
				panic(err)
			}
			del[i] = resp
		}
		pcs := make([]string, nCl)
		for i := range clients {
			pcs[i] = fmt.Sprintf("PC %d %s %s", from[i], triples(imm[i]), triples(del[i]))
		}
		evTerms := func(x []tlmetadata.Event) string {
			p := make([]string, len(x))
			for i, e := range x {
				p[i] = evTerm(e)
			}
			return "[" + strings.Join(p, ";") + "]"
		}
		term := fmt.Sprintf("CPoll %s %s %s %d %d [%s]", vu.B(compact), evTerms(batch1), evTerms(batch2), data_model.MaxJournalItemsSent, data_model.MaxJournalBytesSent, strings.Join(pcs, "; "))
		input += " clients=" + strings.Join(kinds, ",")
		hasAhead, hasSync := false, false
		for _, k := range kinds {
			hasAhead = hasAhead || k == "ahead"
			hasSync = hasSync || k == "insync" || k == "behind"
		}
		line = o.Case(input, term, hasAhead && hasSync, "poll")
		// apply what each client was sent (this is where a wrong response breaks the client's journal)
		for i := range clients {
			if imm[i] != nil {
				check(i, imm[i])
			}
			if del[i] != nil {
				check(i, del[i])
			}
		}
		// the lagging aggregator catches up; every client polls until it is parked; then all must agree
		feed(src[k2:])
		for i := 0; i < 50 && len(syncAgg(lag, 1000)) > 0; i++ {
		}
		syncAgg(ahead, 1000)
		syncAgg(late, 1000) // an aggregator that starts from scratch now
		q := int64(100)
		for i, c := range clients {
			for round := 0; round < 50; round++ {
				_, from[i], _, _, _, _ = c.State()
				q++
				resp, parked, err := lag.Poll(conn, q, from[i])
				if err != nil {
					panic(err)
				}
				if parked {
					break
				}
				check(i, resp)
			}
		}
		lagE, _, _ := lag.Entries()
		byKey := map[[2]int64]tlmetadata.Event{}
		for _, e := range lagE {
			byKey[[2]int64{int64(e.EventType), e.Id}] = wire(e)
		}
		_, _, _, h0, l0, _ := clients[0].State()
		for i, c := range clients {
			a, _, _ := c.Entries()
			bad := len(a) != len(lagE)
			for _, e := range a {
				x, ok := byKey[[2]int64{int64(e.EventType), e.Id}]
				if !ok || !mj.VerifEqualNoVersion(x, e) {
					bad = true
				}
			}
			// F-C20c: version numbers of compact journals are per aggregator (an event equal to the stored one keeps the
			// OLD version), so the cursor of an agent that synced from another compact aggregator does not transfer
			switched := compact && (kinds[i] == "ahead" || kinds[0] == "ahead")
			if bad {
				if compact && kinds[i] == "ahead" {
					fails = append(fails, [2]string{"agent_stale_after_switching_compact_aggregator", fmt.Sprintf("client=%d(%s) switched-aggregator", i, kinds[i])})
				} else {
					fails = append(fails, [2]string{"agent_has_upstream_latest", fmt.Sprintf("client=%d(%s)", i, kinds[i])})
				}
			}
			if _, _, _, h, l, _ := c.State(); h != h0 || l != l0 {
				if switched {
					fails = append(fails, [2]string{"hash_differs_after_switching_compact_aggregator", fmt.Sprintf("clients 0(%s) and %d(%s) switched-aggregator", kinds[0], i, kinds[i])})
				} else {
					fails = append(fails, [2]string{"replicas_same_hash", fmt.Sprintf("clients 0 and %d(%s)", i, kinds[i])})
				}
			}
		}
		// two aggregator journals of the same source with different delivery histories
		_, _, _, ha, la, _ := ahead.State()
		_, _, _, hl, ll, _ := lag.State()
		_, _, _, ht, lt, _ := late.State()
		if ha != hl || la != ll || ht != hl || lt != ll {
			fails = append(fails, [2]string{"replicas_same_hash", fmt.Sprintf("aggregator journals (compact=%v) of one source with different delivery histories", compact)})
		}
	}()
	if line < 0 {
		line = o.Case(input+" PANIC", "CConsts []", false, "panic")
	}
	for _, f := range fails {
		o.Fail(f[0], line, f[1]+" "+input)
	}
}

// ---------- the recorded finding's witness, replayed on the real code ----------
func metricEv(id int64, name string, ver int64, data string) tlmetadata.Event {
	return tlmetadata.Event{Id: id, Name: name, EventType: format.MetricEvent, Version: ver, Data: data}
}

func witness(o *vu.Out) {
	// F-C20: a rename delivered after the freed name was taken by another metric removes that metric from the name index
	src, rep := mj.NewVerifNode(false), mj.NewVerifNode(false)
	sync := func(limit int) {
		_, loader, _, _, _, _ := rep.State()
		evs, cur := src.Diff(loader, limit, math.MaxInt)
		for i := range evs {
			evs[i] = wire(evs[i])
		}
		rep.Apply(evs, cur)
	}
	put := func(e tlmetadata.Event) { src.Apply([]tlmetadata.Event{e}, e.Version) }
	put(metricEv(1, "x", 1, "{}"))
	sync(1000)
	put(metricEv(1, "y", 2, "{}"))
	put(metricEv(2, "x", 3, "{}"))
	put(metricEv(1, "y", 4, `{"description":"d1"}`))
	sync(1000)
	byName := rep.S.GetMetaMetricByName("x")
	byID := rep.S.GetMetaMetric(2)
	if byID != nil && byID.Name == "x" && (byName == nil || byName.MetricID != 2) {
		o.Finding("F-C20", "reproduced")
	} else {
		o.Finding("F-C20", "gone")
	}
	// F-C20b: after a group change the rebuilt name index may point to the stale holder of a name (Go map order)
	hit := false
	for trial := 0; trial < 64 && !hit; trial++ {
		src, rep = mj.NewVerifNode(false), mj.NewVerifNode(false)
		put(metricEv(1, "x", 1, "{}"))
		sync(1000)
		put(metricEv(1, "y", 2, "{}"))
		put(metricEv(2, "x", 3, "{}"))
		put(tlmetadata.Event{Id: 7, Name: "x", EventType: format.MetricsGroupEvent, Version: 4, Data: "{}"})
		put(metricEv(1, "y", 5, `{"description":"d1"}`))
		sync(2) // metric 2 and the group: the index is rebuilt while metric 1 is still known as "x"
		if m := rep.S.GetMetaMetricByName("x"); m == nil || m.MetricID != 2 {
			hit = true
		}
	}
	// F-C20c: an agent that moves from one compact aggregator journal to another keeps a stale entity for good
	{
		S, aggL, aggA, agent := mj.NewVerifNode(false), mj.NewVerifNode(true), mj.NewVerifNode(true), mj.NewVerifNode(false)
		pull := func(to, from *mj.VerifNode, hop bool) {
			_, loader, _, _, _, _ := to.State()
			evs, cur := from.Diff(loader, 1000, unlimited)
			for i := range evs {
				if hop {
					evs[i] = wire(evs[i])
				}
			}
			to.Apply(evs, cur)
		}
		putS := func(e tlmetadata.Event) { S.Apply([]tlmetadata.Event{e}, e.Version) }
		putS(metricEv(1, "x", 1, "{}"))
		pull(aggL, S, false) // aggregator L: x (plain) at version 1
		putS(metricEv(1, "x", 2, `{"resolution":5}`))
		pull(aggA, S, false) // aggregator A starts now: x (resolution 5) at version 2
		pull(agent, aggA, true)
		putS(metricEv(1, "x", 3, "{}")) // the edit is undone
		pull(aggL, S, false)            // equal to what L stores: skipped, L keeps version 1
		pull(agent, aggL, true)         // the agent (cursor 2) now follows L: nothing is ever sent
		ea, _, _ := agent.Entries()
		el, _, _ := aggL.Entries()
		_, _, _, h1, l1, _ := agent.State()
		_, _, _, h2, l2, _ := aggL.State()
		if len(ea) == 1 && len(el) == 1 && ea[0].Data != el[0].Data && (h1 != h2 || l1 != l2) {
			o.Finding("F-C20c", "reproduced")
		} else {
			o.Finding("F-C20c", "gone")
		}
	}
	if hit {
		o.Finding("F-C20b", "reproduced")
	} else {
		o.Finding("F-C20b", "gone")
	}
}

func main() {
	seed := flag.Uint64("seed", 1, "")
	n := flag.Int("n", 150, "")
	out := flag.String("out", "", "")
	flag.Parse()
	log.SetOutput(io.Discard) // ApplyEvent logs every event it cannot parse
	r := vu.NewRng(*seed)
	o := vu.NewOut(*out)
	defer o.Close()

	consts := []int64{int64(format.MetricEvent), int64(format.DashboardEvent), int64(format.MetricsGroupEvent), int64(format.PromConfigEvent), int64(format.NamespaceEvent),
		format.BuiltinGroupIDDefault, format.BuiltinGroupIDBuiltin, format.BuiltinGroupIDHost, format.BuiltinNamespaceIDDefault}
	o.Case("constants", "CConsts "+vu.ListZ(consts), false, "consts")
	witness(o)
	dh, dop := -1, -1
	fmt.Sscanf(os.Getenv("VERIF_DEBUG"), "%d:%d", &dh, &dop)
	for i := 0; i < *n; i++ {
		opCounter, debugOp = 0, -1
		if i == dh {
			debugOp = dop
		}
		history(r, o, i)
		if i%2 == 0 {
			pollScenario(r, o, i)
		}
	}
}
