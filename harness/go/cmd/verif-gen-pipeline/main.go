//go:build verif

// Translator for C01: emits Gen/PipelineConsts.v from the current tree:
//   - the window constants the agent/aggregator models use (data_model constants, read from the compiled package),
//   - the *discard flag* of every answer the aggregator gives outside the filing decision, read from the Go AST of
//     aggregator.go (goInsert, goTicker) and aggregator_handlers.go (handleSendSourceBucket3, handleSendSourceBucket):
//     these loops/handlers cannot be called in isolation, so this source-to-model translation is what ties the
//     "acknowledge only after insert or deliberate reject" part of the model to the code (Pipeline/Proofs.v proves
//     the emitted definitions equal to what the model assumes and breaks when the code changes meaning).
package main

import (
	"flag"
	"fmt"
	"go/ast"
	"go/parser"
	"go/printer"
	"go/token"
	"os"
	"strings"

	"github.com/VKCOM/statshouse/internal/data_model"
)

var fset = token.NewFileSet()

func src(n ast.Node) string {
	var sb strings.Builder
	_ = printer.Fprint(&sb, fset, n)
	return strings.Join(strings.Fields(sb.String()), " ")
}

func die(format string, a ...any) {
	fmt.Fprintf(os.Stderr, "verif-gen-pipeline: cannot translate: "+format+"\n", a...)
	os.Exit(2)
}

func funcDecl(f *ast.File, name string) *ast.FuncDecl {
	for _, d := range f.Decls {
		if fd, ok := d.(*ast.FuncDecl); ok && fd.Name.Name == name {
			return fd
		}
	}
	die("function %s not found", name)
	return nil
}

// discardExpr translates the argument of SetDiscard to a Gallina bool over `ok` (= sendErr == nil)
func discardExpr(e ast.Expr) string {
	switch s := src(e); s {
	case "true":
		return "true"
	case "false":
		return "false"
	case "sendErr == nil":
		return "ok"
	case "sendErr != nil":
		return "(negb ok)"
	default:
		die("SetDiscard argument %q", s)
	}
	return ""
}

// setDiscards returns the translated arguments of all X.SetDiscard(...) calls under n, in source order
func setDiscards(n ast.Node) []string {
	var res []string
	ast.Inspect(n, func(m ast.Node) bool {
		if c, ok := m.(*ast.CallExpr); ok {
			if sel, ok := c.Fun.(*ast.SelectorExpr); ok && sel.Sel.Name == "SetDiscard" && len(c.Args) == 1 {
				res = append(res, discardExpr(c.Args[0]))
			}
		}
		return true
	})
	return res
}

// rangeOver finds `for … := range <x>` statements under n whose range expression prints as x
func rangeOver(n ast.Node, x string) []*ast.RangeStmt {
	var res []*ast.RangeStmt
	ast.Inspect(n, func(m ast.Node) bool {
		if r, ok := m.(*ast.RangeStmt); ok && src(r.X) == x {
			res = append(res, r)
		}
		return true
	})
	return res
}

func one(xs []string, what string) string {
	if len(xs) != 1 {
		die("%s: expected exactly one SetDiscard, found %d", what, len(xs))
	}
	return xs[0]
}

func main() {
	out := flag.String("out", "", "")
	flag.Parse()
	fa, err := parser.ParseFile(fset, "internal/aggregator/aggregator.go", nil, 0)
	if err != nil {
		die("%v", err)
	}
	fh, err := parser.ParseFile(fset, "internal/aggregator/aggregator_handlers.go", nil, 0)
	if err != nil {
		die("%v", err)
	}
	// goInsert: answers to the contributors of stale historic buckets and of the inserted batch
	gi := funcDecl(fa, "goInsert")
	stale := rangeOver(gi, "b.contributors3")
	if len(stale) != 2 {
		die("goInsert: expected two loops over b.contributors3 (stale buckets, inserted buckets), found %d", len(stale))
	}
	staleDiscard := one(setDiscards(stale[0]), "goInsert stale loop")
	insertDiscard := one(setDiscards(stale[1]), "goInsert answer loop")
	// what goes on the wire: the argument of SendLongpollResponse in the answer loop (an rpc error replaces the body)
	longpollArg := func(n ast.Node, what string) string {
		arg := ""
		ast.Inspect(n, func(m ast.Node) bool {
			if c, ok := m.(*ast.CallExpr); ok && strings.HasSuffix(src(c.Fun), "SendLongpollResponse") && len(c.Args) == 1 {
				if arg != "" && arg != src(c.Args[0]) {
					die("%s: several different SendLongpollResponse arguments", what)
				}
				arg = src(c.Args[0])
			}
			return true
		})
		if arg == "" {
			die("%s: no SendLongpollResponse call", what)
		}
		return arg
	}
	insertSendsErr := ""
	switch a := longpollArg(stale[1], "goInsert answer loop"); a {
	case "sendErr":
		insertSendsErr = "true"
	case "nil":
		insertSendsErr = "false"
	default:
		die("goInsert answer loop passes %q to SendLongpollResponse", a)
	}
	// the insert whose error decides: sendErr must be assigned from sendToClickhouse(... bodyStorage ...)
	fromCH := false
	ast.Inspect(gi, func(m ast.Node) bool {
		if as, ok := m.(*ast.AssignStmt); ok && len(as.Rhs) == 1 {
			if c, ok := as.Rhs[0].(*ast.CallExpr); ok && src(c.Fun) == "sendToClickhouse" && len(as.Lhs) == 4 && src(as.Lhs[3]) == "sendErr" {
				for _, a := range c.Args {
					if src(a) == "bodyStorage" {
						fromCH = true
					}
				}
			}
		}
		return true
	})
	if !fromCH {
		die("goInsert: sendErr is not the result of sendToClickhouse(…, bodyStorage, …)")
	}
	// body is marshalled from all buckets of the batch
	marsh := false
	ast.Inspect(gi, func(m ast.Node) bool {
		if c, ok := m.(*ast.CallExpr); ok && strings.HasSuffix(src(c.Fun), "rowDataMarshalAppendPositions") && len(c.Args) > 0 && src(c.Args[0]) == "aggBuckets" {
			marsh = true
		}
		return true
	})
	if !marsh {
		die("goInsert: body is not rowDataMarshalAppendPositions(aggBuckets, …)")
	}
	// goTicker: conveyor full answers
	gt := funcDecl(fa, "goTicker")
	full := rangeOver(gt, "aggBucket.contributors3")
	if len(full) != 1 {
		die("goTicker: expected one loop over aggBucket.contributors3, found %d", len(full))
	}
	fullDiscards := setDiscards(full[0])
	fullDiscard := "false" // a response written without SetDiscard carries no discard bit
	if len(fullDiscards) == 1 {
		fullDiscard = fullDiscards[0]
	} else if len(fullDiscards) > 1 {
		die("goTicker: several SetDiscard calls in the conveyor-full loop")
	}
	fullErr := ""
	switch a := longpollArg(full[0], "goTicker conveyor-full loop"); a {
	case "nil":
		fullErr = "false"
	case "err":
		fullErr = "true"
	default:
		die("goTicker conveyor-full loop passes %q to SendLongpollResponse", a)
	}
	// handleSendSourceBucket3: writeResponse(msg, discard) calls before handleSendSourceBucket is called
	h3 := funcDecl(fh, "handleSendSourceBucket3")
	var undec []string
	final := ""
	ast.Inspect(h3.Body, func(m ast.Node) bool {
		if c, ok := m.(*ast.CallExpr); ok && src(c.Fun) == "writeResponse" && len(c.Args) == 2 {
			a := src(c.Args[1])
			if a == "true" || a == "false" {
				undec = append(undec, a)
			} else {
				final = a
			}
		}
		return true
	})
	if final != "discard" || len(undec) == 0 {
		die("handleSendSourceBucket3: unexpected writeResponse calls (%v, final %q)", undec, final)
	}
	// handleSendSourceBucket: returns before `oldestTime := …` (old agent, wrong shard, shutdown)
	hs := funcDecl(fh, "handleSendSourceBucket")
	var pre []string
	for _, st := range hs.Body.List {
		if as, ok := st.(*ast.AssignStmt); ok && len(as.Lhs) == 1 && src(as.Lhs[0]) == "oldestTime" {
			break
		}
		ifs, ok := st.(*ast.IfStmt)
		if !ok {
			continue
		}
		cond := src(ifs.Cond)
		var kind string
		switch {
		case strings.Contains(cond, "DenyOldAgents"):
			kind = "old_agent"
		case ifs.Init != nil && strings.Contains(src(ifs.Init), "checkShardConfiguration"):
			kind = "wrong_shard"
		case cond == "a.bucketsToSend == nil":
			kind = "shutdown"
		default:
			continue
		}
		var lit string
		ast.Inspect(ifs.Body, func(m ast.Node) bool {
			if r, ok := m.(*ast.ReturnStmt); ok && len(r.Results) == 3 {
				lit = src(r.Results[2])
			}
			return true
		})
		if lit != "true" && lit != "false" {
			die("handleSendSourceBucket: %s branch returns discard=%q", kind, lit)
		}
		hij := strings.Contains(src(ifs.Body), "StartLongpoll")
		pre = append(pre, fmt.Sprintf("%s:%s:%v", kind, lit, hij))
	}
	want := map[string]string{}
	for _, p := range pre {
		parts := strings.Split(p, ":")
		want[parts[0]] = parts[1] + ":" + parts[2]
	}
	get := func(k string) (string, string) {
		v, ok := want[k]
		if !ok {
			die("handleSendSourceBucket: %s branch not found before the filing decision", k)
		}
		parts := strings.Split(v, ":")
		return parts[0], parts[1]
	}
	oldD, _ := get("old_agent")
	shardD, _ := get("wrong_shard")
	downD, downH := get("shutdown")

	var sb strings.Builder
	sb.WriteString("(* GENERATED on every run by harness/go/cmd/verif-gen-pipeline from /repo's internal/data_model/constants.go,\n   internal/aggregator/aggregator.go and aggregator_handlers.go — do not edit *)\n")
	sb.WriteString("From Coq Require Import ZArith Bool List.\nImport ListNotations.\nOpen Scope Z_scope.\n")
	fmt.Fprintf(&sb, "Definition max_short_window : Z := %d.\n", data_model.MaxShortWindow)
	fmt.Fprintf(&sb, "Definition future_window : Z := %d.\n", data_model.FutureWindow)
	fmt.Fprintf(&sb, "Definition max_future_seconds_on_disk : Z := %d.\n", data_model.MaxFutureSecondsOnDisk)
	fmt.Fprintf(&sb, "Definition max_conveyor_delay : Z := %d.\n", data_model.MaxConveyorDelay)
	fmt.Fprintf(&sb, "Definition max_history_send_streams : Z := %d.\n", data_model.MaxHistorySendStreams)
	fmt.Fprintf(&sb, "(* goInsert: c.resp.SetDiscard(…) for the contributors of the inserted batch; ok = (sendErr == nil), sendErr = result of sendToClickhouse(body of all batch buckets) *)\n")
	fmt.Fprintf(&sb, "Definition gen_insert_discard (ok : bool) : bool := %s.\n", insertDiscard)
	fmt.Fprintf(&sb, "(* goInsert: the answer loop passes sendErr to SendLongpollResponse: a failed insert is an rpc error on the wire *)\nDefinition gen_insert_sends_err : bool := %s.\n", insertSendsErr)
	fmt.Fprintf(&sb, "(* goTicker, conveyor full: SendLongpollResponse gets a non-nil error for version 3 contributors *)\nDefinition gen_full_err : bool := %s.\n", fullErr)
	fmt.Fprintf(&sb, "(* goInsert: contributors of stale historic buckets *)\nDefinition gen_stale_discard (ok : bool) : bool := %s.\n", staleDiscard)
	fmt.Fprintf(&sb, "(* goTicker: conveyor full *)\nDefinition gen_full_discard (ok : bool) : bool := %s.\n", fullDiscard)
	fmt.Fprintf(&sb, "(* handleSendSourceBucket3: answers to undecodable requests *)\nDefinition gen_undecodable_discard : list bool := [%s].\n", strings.Join(undec, "; "))
	fmt.Fprintf(&sb, "(* handleSendSourceBucket: returns before the filing decision *)\n")
	fmt.Fprintf(&sb, "Definition gen_old_agent_discard : bool := %s.\nDefinition gen_wrong_shard_discard : bool := %s.\n", oldD, shardD)
	fmt.Fprintf(&sb, "Definition gen_shutdown_discard : bool := %s.\nDefinition gen_shutdown_hijacks : bool := %s.\n", downD, downH)
	if err := os.WriteFile(*out, []byte(sb.String()), 0o644); err != nil {
		die("%v", err)
	}
}
