//go:build verif

package main

import (
	"fmt"
	"io"
	"net/http"
	"net/http/httptest"
	"sort"
	"strings"
	"sync/atomic"

	"github.com/VKCOM/statshouse/internal/agent"
	"github.com/VKCOM/statshouse/internal/aggregator"
	"github.com/VKCOM/statshouse/internal/data_model"
	"github.com/VKCOM/statshouse/internal/format"
	vu "github.com/VKCOM/statshouse/internal/verifutil"
)

func relList(base uint32, ts []uint32) string {
	parts := make([]string, len(ts))
	for i, t := range ts {
		parts[i] = rel(base, t)
	}
	return "[" + strings.Join(parts, "; ") + "]"
}

func pickBase(r *vu.Rng) uint32 {
	switch r.Intn(5) {
	case 0:
		return uint32(r.Intn(200))
	case 1:
		return ^uint32(0) - uint32(r.Intn(200))
	default:
		return 1700000000 + uint32(r.Intn(1000000))
	}
}

func roundUp(t uint32, rk int32) uint32 {
	for t%3 != uint32(rk-1) {
		t++
	}
	return t
}

// fake ClickHouse: counts INSERTs, fails on demand
type fakeCH struct {
	fail atomic.Bool
	ok   atomic.Int64
	bad  atomic.Int64
	srv  *httptest.Server
}

func newFakeCH() *fakeCH {
	f := &fakeCH{}
	f.srv = httptest.NewServer(http.HandlerFunc(func(w http.ResponseWriter, req *http.Request) {
		_, _ = io.Copy(io.Discard, req.Body)
		if f.fail.Load() {
			f.bad.Add(1)
			w.Header().Set("X-ClickHouse-Exception-Code", "241")
			w.WriteHeader(500)
			return
		}
		f.ok.Add(1)
		w.WriteHeader(200)
	}))
	return f
}

// insertScenario: requests through the real handler, the real window advance, then the real goInsert on every own
// ready bucket against the fake ClickHouse. Oracles: a long-polled request is answered discard only by an insert
// iteration whose INSERT succeeded, and is answered discard when it did.
func insertScenario(r *vu.Rng, o *vu.Out, sh2 *agent.Agent, ch *fakeCH, data []byte, line int, input string) {
	window := data_model.MaxShortWindow + data_model.FutureWindow
	rk := int32(1 + r.Intn(3))
	base := 1700000000 + uint32(r.Intn(1000000))
	hw := uint32(86400)
	agent.VerifSetHistoricWindow(sh2, hw)
	va := aggregator.NewVerifAgg(sh2, 1, rk, true, false, data_model.MaxShortWindow, strings.TrimPrefix(ch.srv.URL, "http://"), base, window)
	type sent struct {
		poll  int64
		where string
		t     uint32
	}
	var polls []sent
	for k := 0; k < 3+r.Intn(5); k++ {
		historic := r.Chance(40)
		t := base + uint32(r.Intn(window))
		if historic && r.Bool() {
			t = base - 1 - uint32(r.Intn(30))
		}
		res := va.Recv(aggregator.VerifRequest(t, historic, false, rk-1, format.LeastAllowedAgentCommitTs+1, data))
		if res.PollID != 0 && res.Where != "" {
			polls = append(polls, sent{poll: res.PollID, where: res.Where, t: res.Time})
		}
	}
	desc := fmt.Sprintf("%s | insert scenario rk=%d base=%d polls=%d", input, rk, base, len(polls))
	now := base + uint32(data_model.MaxShortWindow) + 1 + uint32(r.Intn(window))
	_, ready := va.Advance(now)
	for _, b := range ready {
		if b.Time()%3 != uint32(rk-1) {
			if len(b.Contributors()) != 0 {
				o.Fail("foreign_bucket_has_contributors", line, desc)
			}
			continue
		}
		fail := r.Chance(40)
		ch.fail.Store(fail)
		ok0 := ch.ok.Load()
		answered0 := map[int64]bool{}
		for _, p := range polls {
			answered0[p.poll] = va.Conn.Answer(p.poll).Answered
		}
		own := b.Contributors()
		va.InsertOnce(b, 1)
		okInserts := ch.ok.Load() - ok0
		for _, p := range polls {
			a := va.Conn.Answer(p.poll)
			if answered0[p.poll] || !a.Answered {
				continue
			}
			switch {
			case a.Err:
				o.Hist["insert-scenario/answer-error"]++
			case a.Discard:
				o.Hist["insert-scenario/answer-discard-"+p.where]++
			default:
				o.Hist["insert-scenario/answer-keep"]++
			}
			if a.Discard && !strings.Contains(a.Warning, "Successfully discarded") && okInserts == 0 {
				o.Fail("ack_without_successful_insert", line, fmt.Sprintf("%s: request filed into %s bucket t=%d answered discard by an insert iteration (bucket %d) whose INSERT failed=%v, successful INSERTs=%d", desc, p.where, p.t, b.Time(), fail, okInserts))
			}
			if !a.Discard && !a.Err && okInserts > 0 {
				o.Fail("keep_after_successful_insert", line, fmt.Sprintf("%s: request in %s bucket t=%d answered keep although the INSERT succeeded", desc, p.where, p.t))
			}
		}
		for _, id := range own {
			a := va.Conn.Answer(id)
			if !a.Answered {
				o.Fail("contributor_never_answered", line, fmt.Sprintf("%s: contributor %d of inserted bucket %d got no answer", desc, id, b.Time()))
			} else if !fail && !a.Discard {
				o.Fail("no_ack_after_successful_insert", line, fmt.Sprintf("%s: contributor of bucket %d not acknowledged although the INSERT succeeded", desc, b.Time()))
			}
		}
	}
}

func aggCases(r *vu.Rng, o *vu.Out, addrs []string, n int) {
	sh2 := makeAgent("", addrs) // the aggregator's built-in agent (never Run)
	data := agent.VerifBucketData()
	window := data_model.MaxShortWindow + data_model.FutureWindow
	ch := newFakeCH()
	defer ch.srv.Close()
	cfgAgents := map[uint32][2]*agent.Agent{}
	for i := 0; i < n; i++ {
		switch {
		case i%10 < 6: // one request through the real handler
			base := pickBase(r)
			rk := int32(1 + r.Intn(3))
			oldest := base + uint32(r.Intn(7))
			newest := oldest + uint32(window) - 1
			hw := uint32(r.Pick(2, 5, 30, 86400))
			historic := r.Bool()
			// every 4th request: the historic window comes through the real configuration path (remote config metric
			// -> Agent.updateRemoteConfig) into the aggregator's built-in agent and into an agent's shards
			viaConfig := i%4 == 1
			recvAgent := sh2
			if viaConfig {
				hw = uint32(r.Pick(172800, 172800, 100000, 90000, 3600, 86400))
				base = 1700000000 + uint32(r.Intn(1000000))
				oldest = base + uint32(r.Intn(7))
				newest = oldest + uint32(window) - 1
				historic = r.Chance(85)
				desc := fmt.Sprintf("# verif\n-historic-window=%d", hw)
				if _, have := cfgAgents[hw]; !have {
					cfgAgents[hw] = [2]*agent.Agent{makeAgentRemote(addrs, format.TagValueIDComponentAggregator, desc), makeAgentRemote(addrs, format.TagValueIDComponentAgent, desc)}
				}
				recvAgent = cfgAgents[hw][0]
			}
			var t uint32
			if viaConfig && r.Chance(70) { // ages between the default 24 h and the configured window, and around its edge
				switch r.Intn(3) {
				case 0:
					t = oldest - 86400 - uint32(r.Intn(int(hw)+1-86400+1000))
				case 1:
					t = oldest - hw + uint32(r.Intn(9)) - 4
				default:
					t = oldest - uint32(r.Intn(int(hw)+10))
				}
			} else {
				switch r.Intn(8) {
				case 0:
					t = oldest - hw + uint32(r.Intn(7)) - 3 // edge of the historic window
				case 1:
					t = newest + uint32(r.Intn(7)) - 3 // edge of the future
				case 2:
					t = oldest + uint32(r.Intn(7)) - 3 // edge late / recent
				case 3:
					t = r.U32()
				default:
					t = oldest + uint32(r.Intn(window+8)) - 4
				}
			}
			dec, shardOK, old, deny, down := !r.Chance(6), !r.Chance(8), r.Chance(10), r.Chance(70), r.Chance(6)
			if !viaConfig {
				agent.VerifSetHistoricWindow(sh2, hw)
			}
			va := aggregator.NewVerifAgg(recvAgent, 1, rk, false, deny, data_model.MaxShortWindow, "", oldest, window)
			if down {
				va.Shutdown()
			}
			shardReplica := rk - 1
			if !shardOK {
				shardReplica = (rk + int32(r.Intn(2))) % 3
				if shardReplica == rk-1 {
					shardReplica = 5
				}
			}
			commitTs := format.LeastAllowedAgentCommitTs + uint32(r.Intn(3))
			if old {
				commitTs = format.LeastAllowedAgentCommitTs - 1 - uint32(r.Intn(2))
			}
			req := aggregator.VerifRequest(t, historic, r.Bool(), shardReplica, commitTs, data)
			if !dec {
				switch r.Intn(3) {
				case 0:
					req = req[:r.Intn(len(req))]
				case 1: // valid envelope, body does not decompress
					req = aggregator.VerifRequest(t, historic, false, shardReplica, commitTs, append([]byte{255, 255, 0, 0}, data[4:]...))
				default: // decompresses, not a SourceBucket3
					req = aggregator.VerifRequest(t, historic, false, shardReplica, commitTs, []byte{3, 0, 0, 0, 1, 2, 3})
				}
			}
			res := va.Recv(req)
			ob := "GRNone"
			switch {
			case res.Immediate && res.Discard:
				ob = "GRDiscard"
			case res.Immediate:
				ob = "GRKeep"
			case res.PollID != 0 && res.Where == "recent":
				ob = "(GRRecent " + rel(base, res.Time) + ")"
			case res.PollID != 0 && res.Where == "historic":
				ob = "(GRHist " + rel(base, res.Time) + ")"
			}
			input := fmt.Sprintf("recv rk=%d window=[base%s..base%s] base=%d historic=%v t=base%s hw=%d decodable=%v shardOK=%v oldAgent=%v denyOld=%v shutdown=%v -> %s",
				rk, rel(base, oldest), rel(base, newest), base, historic, rel(base, t), hw, dec, shardOK, old, deny, down, ob)
			term := fmt.Sprintf("CRecv %d %d %s %d%%nat %s %s %d %s %s %s %s %s %s", base, rk, rel(base, oldest), window, vu.B(historic), rel(base, t), hw,
				vu.B(dec), vu.B(shardOK), vu.B(old), vu.B(deny), vu.B(down), ob)
			filed := strings.HasPrefix(ob, "(GR")
			kind := "recv/"
			if viaConfig {
				kind = "recv-remote-config/"
				input = fmt.Sprintf("%s | historic window %d configured through the remote config metric: aggregator's built-in agent uses %d, agent shards use %d",
					input, hw, recvAgent.HistoricWindow(), agent.VerifShardHistoricWindow(cfgAgents[hw][1]))
			}
			line := o.Case(input, term, filed || ob == "GRKeep", kind+strings.Trim(strings.Fields(ob)[0], "("))
			if viaConfig {
				if recvAgent.HistoricWindow() != hw || agent.VerifShardHistoricWindow(cfgAgents[hw][1]) != hw || cfgAgents[hw][1].HistoricWindow() != hw {
					o.Fail("configured_window_not_applied", line, input)
				}
				rounded0 := roundUp(t, rk)
				if ob == "GRDiscard" && historic && dec && shardOK && !(deny && old) && !down && rounded0 <= newest && !(oldest >= hw && rounded0 < oldest-hw) {
					o.Fail("rejected_although_inside_configured_window", line, input)
				}
			}
			// oracles: the property's list of deliberate rejections, computed here from the inputs
			rounded := roundUp(t, rk)
			future := rounded > newest
			beyond := historic && oldest >= hw && rounded < oldest-hw
			reasons := !dec || !shardOK || (deny && old) || future || beyond
			if res.Panic != "" && res.PollID == 0 {
				o.Fail("handler_panic", line, input)
			}
			if ob == "GRDiscard" && !reasons {
				o.Fail("discard_without_insert_or_reason", line, input)
			}
			if dec && shardOK && !(deny && old) && down && res.Immediate {
				o.Fail("answer_during_shutdown", line, input)
			}
			if filed && !down && t < ^uint32(0)-3 { // the rounding loop is specified without uint32 wrap of t+2 (C10)
				if res.Where == "recent" && (res.Time%3 != uint32(rk-1) || res.Time < t || res.Time > t+2) {
					o.Fail("filed_into_foreign_bucket", line, input)
				}
				if res.Where == "historic" && res.Time != t {
					o.Fail("filed_into_foreign_bucket", line, input)
				}
			}
		case i%10 < 8: // advanceRecentBuckets
			base := pickBase(r)
			sw := int(r.Pick(2, 3, 5, 5, 7))
			va := aggregator.NewVerifAgg(sh2, 1, 1, true, false, sw, "", base, 0)
			nb := r.Intn(sw + data_model.FutureWindow + 1)
			var times []uint32
			for k := 0; k < nb; k++ {
				times = append(times, base+uint32(k))
			}
			va.SetRecentTimes(times)
			now := base + uint32(r.Intn(sw+nb+6)) - 2
			if r.Chance(10) {
				now = base + uint32(r.Intn(100000))
			}
			ready, _ := va.Advance(now)
			recent := va.RecentTimes()
			input := fmt.Sprintf("advance base=%d buckets=%d now=base%s sw=%d -> ready=%d recent=%d", base, nb, rel(base, now), sw, len(ready), len(recent))
			term := fmt.Sprintf("CAdvance %d %s %s %d %s %s", base, relList(base, times), rel(base, now), sw, relList(base, ready), relList(base, recent))
			line := o.Case(input, term, len(ready) > 0 && len(ready) < nb, "advance")
			if i%2 == 1 {
				insertScenario(r, o, sh2, ch, data, line, input)
				o.Hist["insert-scenario"]++
			}
			if len(recent) != sw+data_model.FutureWindow {
				o.Fail("recent_window_length", line, input)
			}
			for k := 1; k < len(recent); k++ {
				if recent[k] != recent[k-1]+1 {
					o.Fail("recent_window_contiguous", line, input)
				}
			}
			for _, t := range ready {
				if !(now > t+uint32(sw)) {
					o.Fail("ready_before_short_window", line, input)
				}
			}
		default: // popOldestHistoricBucket
			base := pickBase(r)
			hw := uint32(r.Pick(2, 5, 30, 86400))
			oldest := base + uint32(r.Intn(60))
			if r.Chance(20) {
				oldest = uint32(r.Intn(int(hw) + 3))
			}
			agent.VerifSetHistoricWindow(sh2, hw)
			va := aggregator.NewVerifAgg(sh2, 1, 1, true, false, 5, "", oldest, window)
			seen := map[uint32]bool{}
			var times []uint32
			for k := 0; k < r.Intn(7); k++ {
				t := oldest - hw + uint32(r.Intn(11)) - 5
				if r.Chance(30) {
					t = oldest - uint32(r.Intn(40))
				}
				if !seen[t] {
					seen[t] = true
					times = append(times, t)
				}
			}
			va.SetHistoricTimes(times)
			popped, stale := va.PopHistoric(oldest)
			rest := va.HistoricTimes()
			ps := "None"
			if popped >= 0 {
				ps = "(Some " + rel(base, uint32(popped)) + ")"
			}
			sorted := append([]uint32{}, times...)
			sort.Slice(sorted, func(a, b int) bool { return sorted[a] < sorted[b] })
			input := fmt.Sprintf("pophist base=%d times=%s oldest=base%s hw=%d -> popped=%s stale=%s", base, relList(base, sorted), rel(base, oldest), hw, ps, relList(base, stale))
			// sort for the model by absolute value: the Coq side sorts absolute times, so print in that order
			absSort := func(ts []uint32) []uint32 {
				c := append([]uint32{}, ts...)
				sort.Slice(c, func(a, b int) bool { return c[a] < c[b] })
				return c
			}
			term := fmt.Sprintf("CPopHist %d %s %s %d %s %s %s", base, relList(base, sorted), rel(base, oldest), hw, relList(base, absSort(stale)), ps, relList(base, absSort(rest)))
			line := o.Case(input, term, popped >= 0 && len(stale) > 0, "pophist")
			for _, s := range stale {
				if !(oldest >= hw && s < oldest-hw) {
					o.Fail("stale_inside_window", line, input)
				}
			}
			if popped >= 0 {
				for _, t := range rest {
					if t < uint32(popped) {
						o.Fail("historic_oldest_first", line, input)
					}
				}
			}
		}
	}
}
