//go:build verif

package main

import (
	"context"
	"fmt"
	"net"
	"strings"
	"sync"
	"time"

	"github.com/VKCOM/tl/pkg/rpc"

	"github.com/VKCOM/statshouse/internal/agent"
	"github.com/VKCOM/statshouse/internal/aggregator"
	"github.com/VKCOM/statshouse/internal/compress"
	"github.com/VKCOM/statshouse/internal/data_model/gen2/tlstatshouse"
	"github.com/VKCOM/statshouse/internal/format"
	vu "github.com/VKCOM/statshouse/internal/verifutil"
)

// wireScenario runs, in real time and over a real rpc server + client, three hand-assembled aggregators with the
// real goTicker: (full) nobody reads the insert conveyor, (fail) one real goInsert whose INSERTs fail,
// (ok) one real goInsert whose INSERTs succeed. It records what the client (the agent's side of the wire) received.
type wireAnswer struct {
	kind     string // full | fail | ok
	what     string // recent | historic
	t        uint32
	err      error
	discard  bool
	warning  string
	okInsert int64 // successful INSERTs seen by the fake ClickHouse of this instance when the answer arrived
}

type wireRun struct {
	mu      sync.Mutex
	answers []wireAnswer
	wg      sync.WaitGroup
	stops   []func()
}

func startWire(sh2 *agent.Agent) *wireRun {
	w := &wireRun{}
	data := agent.VerifBucketData()
	originalSize, compressedData, _ := compress.DeFrame(data)
	for _, kind := range []string{"full", "fail", "ok"} {
		kind := kind
		ch := newFakeCH()
		ch.fail.Store(kind == "fail")
		rk := int32(1 + len(w.stops)%3)
		agent.VerifSetHistoricWindow(sh2, 86400)
		va := aggregator.NewVerifAgg(sh2, 1, rk, true, false, 2, strings.TrimPrefix(ch.srv.URL, "http://"), 0, 0)
		va.InitRecentNow()
		h := tlstatshouse.Handler{RawSendSourceBucket3: va.RawHandler()}
		srv := rpc.NewServer(rpc.ServerWithSyncHandler(h.Handle), rpc.ServerWithLogf(func(string, ...any) {}), rpc.ServerWithMaxWorkers(-1),
			rpc.ServerWithDisableContextTimeout(true), rpc.ServerWithDefaultResponseTimeout(0))
		ln, err := net.Listen("tcp4", "127.0.0.1:0")
		if err != nil {
			panic(err)
		}
		go func() { _ = srv.Serve(ln) }()
		if kind != "full" {
			va.StartInserter()
		}
		va.StartTicker()
		w.stops = append(w.stops, func() { va.Shutdown(); _ = srv.Close(); ch.srv.Close() })
		client := tlstatshouse.Client{Client: rpc.NewClient(rpc.ClientWithLogf(func(string, ...any) {})), Network: "tcp4", Address: ln.Addr().String()}
		now := uint32(time.Now().Unix())
		type reqSpec struct {
			what string
			t    uint32
		}
		specs := []reqSpec{{"recent", now}, {"recent", now + 1}}
		if kind != "full" {
			specs = append(specs, reqSpec{"historic", now - 20}, reqSpec{"historic", now - 7})
		}
		for _, sp := range specs {
			sp := sp
			w.wg.Add(1)
			go func() {
				defer w.wg.Done()
				args := tlstatshouse.SendSourceBucket3{Time: sp.t, BuildCommit: "00000000", BuildCommitTs: format.LeastAllowedAgentCommitTs + 1,
					OriginalSize: originalSize, CompressedData: string(compressedData)}
				args.Header.HostName = "verif-host"
				args.Header.ComponentTag = format.TagValueIDComponentAgent
				args.Header.ShardReplica = rk - 1
				args.Header.ShardReplicaTotal = 3
				args.SetHistoric(sp.what == "historic")
				ctx, cancel := context.WithTimeout(context.Background(), 12*time.Second)
				defer cancel()
				var resp tlstatshouse.SendSourceBucket3Response
				extra := rpc.InvokeReqExtra{FailIfNoConnection: true}
				err := client.SendSourceBucket3(ctx, args, &extra, &resp)
				a := wireAnswer{kind: kind, what: sp.what, t: sp.t, err: err, discard: err == nil && resp.IsSetDiscard(), warning: resp.Warning, okInsert: ch.ok.Load()}
				w.mu.Lock()
				w.answers = append(w.answers, a)
				w.mu.Unlock()
			}()
		}
	}
	return w
}

func (w *wireRun) finish(o *vu.Out) {
	w.wg.Wait()
	for _, s := range w.stops {
		s()
	}
	for _, a := range w.answers {
		path := "PFull"
		switch a.kind {
		case "fail":
			path = "(PInsert false)"
		case "ok":
			path = "(PInsert true)"
		}
		res := "WKeep"
		switch {
		case a.err != nil:
			res = "WError"
		case a.discard:
			res = "WDiscard"
		}
		errText := ""
		if a.err != nil {
			errText = a.err.Error()
			if len(errText) > 60 {
				errText = errText[:60]
			}
		}
		input := fmt.Sprintf("wire %s: real goTicker%s, %s request over rpc answered: err=%q discard=%v warning=%.60q successfulInserts=%d",
			a.kind, map[string]string{"full": " with nobody reading the insert conveyor", "fail": " + goInsert with failing INSERTs", "ok": " + goInsert with succeeding INSERTs"}[a.kind],
			a.what, errText, a.discard, a.warning, a.okInsert)
		timedOut := a.err != nil && (strings.Contains(a.err.Error(), "deadline") || strings.Contains(a.err.Error(), "context"))
		if timedOut {
			// never answered within the scenario (e.g. historic bucket not yet taken): no wire observation to replay
			o.Hist["wire/"+a.kind+"/unanswered"]++
			if a.kind == "ok" {
				o.Fail("no_ack_after_successful_insert", o.N, input)
			}
			continue
		}
		line := o.Case(input, fmt.Sprintf("CWire %s %s", path, res), true, "wire/"+a.kind+"/"+res)
		if a.discard && a.okInsert == 0 {
			o.Fail("ack_without_successful_insert", line, input)
		}
		if a.kind == "ok" && !a.discard {
			o.Fail("no_ack_after_successful_insert", line, input)
		}
	}
}
