//go:build verif

// Correspondence harness for C01 (agent -> aggregator -> storage pipeline).
//   agent side:      a real agent.Shard (agent.MakeAgent, real DiskBucketStorage in a temp dir) is driven through
//                    sendToSenders / goSendRecent+sendRecent / popOldestHistoricSecondLocked / sendHistoric /
//                    checkOutOfWindow / appendHistoricBucketsToSend against three scripted in-process rpc servers
//                    (answers: discard / keep / rpc error), with process restarts (storage closed, agent re-made).
//   aggregator side: a hand-assembled Aggregator runs the real handleSendSourceBucket3 (over a mock rpc connection),
//                    advanceRecentBuckets, popOldestHistoricBucket and goInsert (fake ClickHouse over HTTP).
// One case = one history; the property oracles are evaluated here on the implementation's own observations.
package main

import (
	"context"
	"flag"
	"fmt"
	"io"
	"log"
	"net"
	"os"
	"sort"
	"strings"
	"sync"
	"time"

	"github.com/VKCOM/tl/pkg/rpc"

	"github.com/VKCOM/statshouse/internal/agent"
	"github.com/VKCOM/statshouse/internal/data_model"
	"github.com/VKCOM/statshouse/internal/data_model/gen2/tlstatshouse"
	"github.com/VKCOM/statshouse/internal/format"
	"github.com/VKCOM/statshouse/internal/metajournal"
	"github.com/VKCOM/statshouse/internal/pcache"
	vu "github.com/VKCOM/statshouse/internal/verifutil"
)

// ---------------------------------------------------------------- scripted aggregators (agent side) -----

type served struct {
	replica  int
	time     uint32
	historic bool
	spare    bool
	answer   string
}

type script struct {
	mu     sync.Mutex
	answer string // "discard" | "keep" | "error"
	log    []served
}

func (s *script) set(a string) {
	s.mu.Lock()
	s.answer = a
	s.log = s.log[:0]
	s.mu.Unlock()
}

func (s *script) take() []served {
	s.mu.Lock()
	defer s.mu.Unlock()
	res := append([]served{}, s.log...)
	return res
}

func startServers(sc *script) (addrs []string, stop func()) {
	var servers []*rpc.Server
	for i := 0; i < 3; i++ {
		replica := i
		h := tlstatshouse.Handler{
			RawSendSourceBucket3: func(_ context.Context, hctx *rpc.HandlerContext) error {
				var args tlstatshouse.SendSourceBucket3Bytes
				if _, err := args.ReadTL1(hctx.Request); err != nil {
					return err
				}
				sc.mu.Lock()
				ans := sc.answer
				sc.log = append(sc.log, served{replica: replica, time: args.Time, historic: args.IsSetHistoric(), spare: args.IsSetSpare(), answer: ans})
				sc.mu.Unlock()
				if ans == "error" {
					return &rpc.Error{Code: data_model.RPCErrorInsert, Description: "scripted failure"}
				}
				var resp tlstatshouse.SendSourceBucket3ResponseBytes
				resp.SetDiscard(ans == "discard")
				hctx.Response, _ = args.WriteResultTL1(hctx.Response, resp)
				return nil
			},
		}
		srv := rpc.NewServer(rpc.ServerWithHandler(h.Handle), rpc.ServerWithLogf(func(string, ...any) {}))
		ln, err := net.Listen("tcp4", "127.0.0.1:0")
		if err != nil {
			panic(err)
		}
		go func() { _ = srv.Serve(ln) }()
		servers = append(servers, srv)
		addrs = append(addrs, ln.Addr().String())
	}
	return addrs, func() {
		for _, s := range servers {
			_ = s.Close()
		}
	}
}

// remoteConfigStorage: a metric journal that only holds the agents' remote config metric (its description is the config)
type remoteConfigStorage struct {
	*metajournal.MetricsStorage
	description string
}

func (s *remoteConfigStorage) GetMetaMetricByName(metricName string) *format.MetricMetaValue {
	if metricName == format.StatshouseAgentRemoteConfigMetric && s.description != "" {
		return &format.MetricMetaValue{Name: metricName, Description: s.description}
	}
	return s.MetricsStorage.GetMetaMetricByName(metricName)
}

// makeAgentRemote: an agent (or an aggregator's built-in agent) whose configuration arrives through the real path:
// MakeAgent -> updateRemoteConfig -> Config.updateFromRemoteDescription of the remote config metric
func makeAgentRemote(addrs []string, component int32, description string) *agent.Agent {
	cfg := agent.DefaultConfig()
	mc, _ := pcache.LoadMappingsCacheFile(nil, 1<<20, 86400)
	res := tlstatshouse.GetConfigResult3{Addresses: addrs, ShardByMetricCount: 1}
	a, err := agent.MakeAgent("tcp4", "", "", nil, cfg, "verif-host", component,
		&remoteConfigStorage{MetricsStorage: metajournal.MakeMetricsStorage(nil), description: description}, mc, nil, nil, func(string, ...any) {}, nil, &res, nil)
	if err != nil {
		panic(err)
	}
	return a
}

func makeAgent(cacheDir string, addrs []string) *agent.Agent {
	cfg := agent.DefaultConfig()
	mc, _ := pcache.LoadMappingsCacheFile(nil, 1<<20, 86400)
	res := tlstatshouse.GetConfigResult3{Addresses: addrs, ShardByMetricCount: 1}
	a, err := agent.MakeAgent("tcp4", cacheDir, "", nil, cfg, "verif-host", format.TagValueIDComponentAgent,
		metajournal.MakeMetricsStorage(nil), mc, nil, nil, func(string, ...any) {}, nil, &res, nil)
	if err != nil {
		panic(err)
	}
	return a
}

// ---------------------------------------------------------------- agent histories ------------------------

type keyInfo struct {
	key       int
	t         uint32
	saved     bool // a put with disk on and disk_ok happened (the harness's own bookkeeping, not the model's)
	acked     bool // a scripted server answered discard for this second
	windowOut bool // a window check with now-hw > t happened on it
	memDrop   bool // appended over the memory limit while not saved
	crashed   bool // restart while not saved
	diskLimit bool // thrown out by goEraseHistoric because the disk cache is over its size limit
	run       int  // run (between restarts) in which it was accepted
}

func ansName(a string) string {
	switch a {
	case "discard":
		return "ADiscard"
	case "keep":
		return "AKeep"
	case "error":
		return "AError"
	}
	return "ANoReplica"
}

func rel(base uint32, t uint32) string { return vu.Z(int64(int32(t - base))) }

func agentHistory(r *vu.Rng, o *vu.Out, addrs []string, sc *script, caseNo int, nops int) {
	diskOn := r.Chance(80)
	synthetic := r.Chance(35) // arbitrary uint32 times, only the calls that take `now` as a parameter
	dir := ""
	if diskOn {
		d, err := os.MkdirTemp("", "verif-c01-")
		if err != nil {
			panic(err)
		}
		dir = d
		defer os.RemoveAll(d)
	}
	a := makeAgent(dir, addrs)
	v := agent.NewVerifPipe(a)
	restartReads := 2 * data_model.MaxConveyorDelay
	var base uint32
	if synthetic {
		switch r.Intn(4) {
		case 0:
			base = uint32(r.Intn(300))
		case 1:
			base = ^uint32(0) - uint32(r.Intn(300))
		default:
			base = r.U32()
		}
	} else {
		base = uint32(time.Now().Unix())
	}
	var ops, obs, text []string
	keys := map[int]*keyInfo{}
	byTime := map[uint32]*keyInfo{}
	var out []agent.VerifCbd // popped, in the harness's hands
	nextKey := 0
	run := 0
	kinds := map[string]bool{}
	freshTime := func(around uint32, spread int) uint32 {
		for {
			t := around + uint32(r.Intn(2*spread+1)) - uint32(spread)
			if _, ok := byTime[t]; !ok {
				return t
			}
			spread++
		}
	}
	hwChoices := []int{3, 10, 60, 86400}
	recordAcks := func() {
		for _, s := range sc.take() {
			if s.answer == "discard" {
				if ki, ok := byTime[s.time]; ok {
					ki.acked = true
				}
			}
		}
	}
	fail := func(oracle, why string) {
		o.Fail(oracle, o.N, fmt.Sprintf("case=%d %s | %s", caseNo, why, strings.Join(text, " ")))
	}
	// presence of a second in what the running process knows about
	visible := func() map[uint32]bool {
		res := map[uint32]bool{}
		for _, c := range v.Hist() {
			res[c.Time] = true
		}
		for _, c := range out {
			res[c.Time] = true
		}
		_, times := v.Known()
		for _, t := range times {
			res[t] = true
		}
		return res
	}
	checkForgotten := func(where string, onlyRun int) {
		vis := visible()
		var ks []int
		for k := range keys {
			ks = append(ks, k)
		}
		sort.Ints(ks)
		for _, k := range ks {
			ki := keys[k]
			if onlyRun >= 0 && ki.run != onlyRun {
				continue
			}
			if vis[ki.t] || ki.acked || ki.windowOut || ki.memDrop || ki.crashed || ki.diskLimit {
				continue
			}
			fail("forget_only_after_ack", fmt.Sprintf("%s: second key=%d t=base%s is neither in memory nor on disk, and no discard response / window drop / memory-limit drop / crash explains it", where, k, rel(base, ki.t)))
		}
	}
	for i := 0; i < nops; i++ {
		choice := r.Intn(100)
		if synthetic && choice >= 14 && choice < 40 {
			choice = int(r.Pick(5, 45))
		}
		if choice >= 58 && choice < 80 && (len(out) == 0 || synthetic) {
			choice = int(r.Pick(45, 45, 85))
		}
		if choice >= 80 && choice < 88 && len(out) == 0 {
			choice = int(r.Pick(5, 45))
		}
		if choice >= 88 && choice < 94 && !diskOn {
			choice = 5
		}
		if choice >= 88 && choice < 94 && diskOn && !synthetic && run == 0 && len(out) == 0 && eraseAllPossible(v, keys, run) && r.Chance(60) {
			choice = 95
		}
		var nowReal uint32
		switch {
		case choice < 14: // sendToSenders with a full channel
			t := freshTime(base, 6)
			if !synthetic {
				t = freshTime(uint32(time.Now().Unix())-uint32(r.Intn(12)), 2)
			}
			diskOK, over := r.Chance(85), r.Chance(15)
			v.SetConfig(false, diskOK, 86400)
			k := nextKey
			nextKey++
			ki := &keyInfo{key: k, t: t, run: run}
			keys[k], byTime[t] = ki, ki
			v.AcceptFull(t, over)
			ki.saved = diskOn && diskOK
			if over && !ki.saved {
				ki.memDrop = true
				kinds["memdrop"] = true
			}
			ops = append(ops, fmt.Sprintf("OAcceptFull %d%%nat %s %s %s", k, rel(base, t), vu.B(diskOK), vu.B(over)))
			obs = append(obs, "RNone")
			text = append(text, fmt.Sprintf("full(k%d,t%s,disk=%v,over=%v)", k, rel(base, t), diskOK, over))
		case choice < 40 && !synthetic: // goSendRecent
			nowReal = agent.VerifAlignSecond()
			age := uint32(r.Intn(5))
			switch r.Intn(6) {
			case 0: // around the too-old boundary: t+9 < now
				age = uint32(8 + r.Intn(4))
			case 1:
				age = uint32(r.Intn(14))
			}
			t := freshTime(nowReal-age, 0)
			save, diskOK, over := r.Chance(50), r.Chance(85), r.Chance(12)
			ans := []string{"discard", "discard", "keep", "error", "noreplica"}[r.Intn(5)]
			v.SetConfig(save, diskOK, 86400)
			for rep := 0; rep < 3; rep++ {
				v.SetAlive(rep, ans != "noreplica")
			}
			if ans != "noreplica" && r.Chance(30) { // primary dead: spare is used
				v.SetAlive(int(t%3), false)
				kinds["spare"] = true
			}
			sc.set(ans)
			k := nextKey
			nextKey++
			ki := &keyInfo{key: k, t: t, run: run}
			keys[k], byTime[t] = ki, ki
			v.RecentOnce(t, over)
			reqs := sc.take()
			recordAcks()
			sent := len(reqs) > 0
			res := sent && ans == "discard"
			tooOld := t+data_model.MaxShortWindow+data_model.FutureWindow < nowReal
			if !res {
				ki.saved = diskOn && diskOK
				if over && !ki.saved {
					ki.memDrop = true
					kinds["memdrop"] = true
				}
			}
			if tooOld {
				kinds["tooold"] = true
			}
			for _, q := range reqs {
				if q.historic || q.time != t {
					fail("recent_request_shape", fmt.Sprintf("recent send of t=base%s produced request %+v", rel(base, t), q))
				}
			}
			// oracle: the bucket may disappear only if a discard answer was served
			ops = append(ops, fmt.Sprintf("ORecentBegin %d%%nat %s %s %s", k, rel(base, t), vu.B(save), vu.B(diskOK)),
				fmt.Sprintf("ORecentFinish %d%%nat %s %s %s %s", k, rel(base, nowReal), ansName(ans), vu.B(diskOK), vu.B(over)))
			obs = append(obs, "RNone", fmt.Sprintf("(RSent %s %s)", vu.B(sent), vu.B(res)))
			text = append(text, fmt.Sprintf("recent(k%d,t=now-%d,save=%v,disk=%v,over=%v,%s)", k, age, save, diskOK, over, ans))
			kinds["recent/"+ans] = true
		case choice < 58: // pop
			var now uint32
			if synthetic {
				now = base + uint32(r.Intn(300)) - 140
				if r.Chance(30) && len(v.Hist()) > 0 { // boundary of the future guard
					h := v.Hist()
					t := h[r.Intn(len(h))].Time
					now = t - uint32(r.Pick(0, 1, 121, 122, 123)) + uint32(r.Pick(0, 0, 1))
				}
			} else {
				now = uint32(time.Now().Unix()) + uint32(r.Pick(0, 0, 0, 1, 3))
				if r.Chance(10) {
					now -= uint32(r.Intn(15))
				}
			}
			c, ok := v.Pop(now)
			ob := "(RPop None)"
			if ok {
				out = append(out, c)
				ob = fmt.Sprintf("(RPop (Some (%s, %d, %s)))", rel(base, c.Time), c.ID, vu.B(c.HasData))
				kinds["pop"] = true
				if c.Time >= now && c.Time <= now+data_model.MaxFutureSecondsOnDisk {
					fail("pop_future_guard", fmt.Sprintf("popped t=base%s at now=base%s", rel(base, c.Time), rel(base, now)))
				}
				for _, h := range v.Hist() {
					if h.Time < c.Time {
						fail("pop_oldest_first", fmt.Sprintf("popped t=base%s while older base%s waits", rel(base, c.Time), rel(base, h.Time)))
					}
				}
			} else {
				kinds["pop/none"] = true
			}
			ops = append(ops, fmt.Sprintf("OPop %s", rel(base, now)))
			obs = append(obs, ob)
			text = append(text, fmt.Sprintf("pop(now%s)", rel(base, now)))
		case choice < 80 && len(out) > 0 && !synthetic: // one iteration of sendHistoric
			idx := r.Intn(len(out))
			c := out[idx]
			ki := byTime[c.Time]
			hw := hwChoices[r.Intn(len(hwChoices))]
			nowReal = agent.VerifAlignSecond()
			if r.Chance(25) { // exactly around the window edge
				hw = int(nowReal-c.Time) + int(r.Pick(-1, 0, 1))
				if hw < 1 {
					hw = 1
				}
			}
			ans := []string{"discard", "discard", "keep", "error", "noreplica"}[r.Intn(5)]
			v.SetConfig(false, true, hw)
			for rep := 0; rep < 3; rep++ {
				v.SetAlive(rep, ans != "noreplica")
			}
			if ans != "noreplica" && r.Chance(30) {
				v.SetAlive(int(c.Time%3), false)
				kinds["spare"] = true
			}
			sc.set(ans)
			ok0, keep0, failed0 := v.HistoricCounters()
			ctx, cancel := context.WithCancel(context.Background())
			if ans == "noreplica" {
				cancel()
			}
			done := make(chan struct{})
			go func() { v.SendHistoric(ctx, c); close(done) }()
			deadline := time.Now().Add(5 * time.Second)
		wait:
			for {
				select {
				case <-done:
					break wait
				default:
				}
				_, keep1, failed1 := v.HistoricCounters()
				if keep1 != keep0 || failed1 != failed0 || time.Now().After(deadline) {
					cancel()
					<-done
					break wait
				}
				time.Sleep(50 * time.Microsecond)
			}
			cancel()
			ok1, _, _ := v.HistoricCounters()
			reqs := sc.take()
			recordAcks()
			outOfWindow := nowReal >= uint32(hw) && c.Time < nowReal-uint32(hw)
			sent := len(reqs) > 0
			erased := false
			if c.ID != 0 {
				erased = true
				ids, _ := v.Known()
				for _, id := range ids {
					if id == c.ID {
						erased = false
					}
				}
			}
			dropped := outOfWindow
			finished := outOfWindow || (sent && ans == "discard")
			if finished {
				out = append(out[:idx], out[idx+1:]...)
			}
			if outOfWindow {
				ki.windowOut = true
				kinds["window"] = true
			}
			for _, q := range reqs {
				if !q.historic || q.time != c.Time {
					fail("historic_request_shape", fmt.Sprintf("historic send of t=base%s produced request %+v", rel(base, c.Time), q))
				}
			}
			if c.ID != 0 && erased && !outOfWindow && !ki.acked {
				fail("erase_only_after_discard", fmt.Sprintf("historic second t=base%s id=%d erased from disk, no discard response was served, hw=%d", rel(base, c.Time), c.ID, hw))
			}
			if ok1 != ok0 && !ki.acked {
				fail("erase_only_after_discard", fmt.Sprintf("historic send of t=base%s counted as success without a discard response", rel(base, c.Time)))
			}
			erasedObs := finished
			ops = append(ops, fmt.Sprintf("OHistIter %d%%nat %s %d %s", ki.key, rel(base, nowReal), hw, ansName(ans)))
			obs = append(obs, fmt.Sprintf("(RIter %s %s %s)", vu.B(dropped), vu.B(sent), vu.B(erasedObs)))
			text = append(text, fmt.Sprintf("hist(k%d,hw=%d,%s)", ki.key, hw, ans))
			kinds["hist/"+ans] = true
		case choice < 88 && len(out) > 0: // goEraseHistoric's window check + append back (disk-limit branch is inline code)
			idx := r.Intn(len(out))
			c := out[idx]
			ki := byTime[c.Time]
			out = append(out[:idx], out[idx+1:]...)
			hw := uint32(hwChoices[r.Intn(len(hwChoices))])
			var now uint32
			if synthetic {
				now = c.Time + hw + uint32(r.Pick(-2, -1, 0, 1, 2, 50, -50))
				if r.Chance(20) {
					now = uint32(r.Intn(int(hw) + 3))
				}
			} else {
				now = uint32(time.Now().Unix())
				if r.Chance(40) {
					hw = now - c.Time + uint32(r.Pick(-1, 0, 1))
				}
			}
			over := r.Chance(15)
			dropped := v.CheckOutOfWindow(now, c, hw)
			if dropped {
				ki.windowOut = true
				kinds["window"] = true
				if now < hw || c.Time >= now-hw {
					fail("window_drop_only_outside", fmt.Sprintf("t=base%s dropped at now=base%s hw=%d although inside the window", rel(base, c.Time), rel(base, now), hw))
				}
			} else {
				v.AppendHistoric(c, over)
				if over && c.ID == 0 {
					ki.memDrop = true
					kinds["memdrop"] = true
				}
			}
			ops = append(ops, fmt.Sprintf("OEraseIter %d%%nat %s %d false %s", ki.key, rel(base, now), hw, vu.B(over)))
			obs = append(obs, fmt.Sprintf("(RIter %s false %s)", vu.B(dropped), vu.B(dropped)))
			text = append(text, fmt.Sprintf("erase(k%d,now%s,hw=%d,over=%v)", ki.key, rel(base, now), hw, over))
		case choice >= 94 && choice < 97 && diskOn && !synthetic && run == 0 && len(out) == 0 && eraseAllPossible(v, keys, run):
			// the real goEraseHistoric goroutine with the disk cache over its size limit: every second of the historic
			// queue is thrown out, oldest first (then the process is restarted: the goroutine never returns)
			nowReal = uint32(time.Now().Unix())
			h := v.Hist()
			sort.Slice(h, func(a, b int) bool { return h[a].Time < h[b].Time })
			before := map[int64]bool{}
			ids0, _ := v.Known()
			for _, id := range ids0 {
				before[id] = true
			}
			done := v.EraseAllOverDiskLimit(8 * time.Second)
			if !done {
				fail("disk_limit_eraser_stuck", "goEraseHistoric did not empty the historic queue")
			}
			ids1, _ := v.Known()
			after := map[int64]bool{}
			for _, id := range ids1 {
				after[id] = true
			}
			for _, c := range h {
				ki := byTime[c.Time]
				ki.diskLimit = true
				if c.ID != 0 && after[c.ID] {
					fail("disk_limit_erase", fmt.Sprintf("t=base%s id=%d thrown out of the queue but still known on disk", rel(base, c.Time), c.ID))
				}
				ops = append(ops, fmt.Sprintf("OPop %s", rel(base, nowReal)), fmt.Sprintf("OEraseIter %d%%nat %s 86400 true false", ki.key, rel(base, nowReal)))
				obs = append(obs, fmt.Sprintf("(RPop (Some (%s, %d, %s)))", rel(base, c.Time), c.ID, vu.B(c.HasData)), "(RIter true false true)")
			}
			inHist := map[int64]bool{}
			for _, c := range h {
				inHist[c.ID] = true
			}
			for id := range before {
				if !after[id] && !inHist[id] {
					fail("disk_limit_erase", fmt.Sprintf("id=%d erased although it was not in the historic queue", id))
				}
			}
			text = append(text, fmt.Sprintf("eraseAllOverDiskLimit(%d)", len(h)))
			kinds["disklimit"] = true
			// restart
			for _, ki := range keys {
				if !ki.saved && !ki.acked && !ki.windowOut && !ki.memDrop && !ki.diskLimit {
					ki.crashed = true
				}
			}
			v.Close()
			out = nil
			a = makeAgent(dir, addrs)
			v = agent.NewVerifPipe(a)
			run++
			ops = append(ops, fmt.Sprintf("ORestart %d%%nat", restartReads))
			obs = append(obs, "RNone")
			text = append(text, "restart")
			kinds["restart"] = true
		case choice < 94 && diskOn: // restart
			checkForgotten("before restart", run)
			for _, ki := range keys {
				if !ki.saved && !ki.acked && !ki.windowOut && !ki.memDrop && !ki.diskLimit {
					ki.crashed = true
					kinds["crash"] = true
				}
			}
			v.Close()
			out = nil
			a = makeAgent(dir, addrs)
			v = agent.NewVerifPipe(a)
			run++
			ops = append(ops, fmt.Sprintf("ORestart %d%%nat", restartReads))
			obs = append(obs, "RNone")
			text = append(text, "restart")
			kinds["restart"] = true
		default:
			continue
		}
	}
	// final: restart (if disk) and read everything back: the disk directory after restart is an observable
	if diskOn {
		checkForgotten("before final restart", run)
		for _, ki := range keys {
			if !ki.saved && !ki.acked && !ki.windowOut && !ki.memDrop && !ki.diskLimit {
				ki.crashed = true
			}
		}
		v.Close()
		out = nil
		a = makeAgent(dir, addrs)
		v = agent.NewVerifPipe(a)
		v.ReadTail(1000)
		ops = append(ops, "ORestart 2000%nat")
		obs = append(obs, "RNone")
		text = append(text, "restart+readall")
		checkForgotten("after final restart", -1)
	} else {
		checkForgotten("end", -1)
	}
	var hist []string
	for _, c := range v.Hist() {
		hist = append(hist, fmt.Sprintf("(%s, %d, %s)", rel(base, c.Time), c.ID, vu.B(c.HasData)))
	}
	ids, times := v.Known()
	var known []string
	for i := range ids {
		known = append(known, fmt.Sprintf("(%d, %s)", ids[i], rel(base, times[i])))
	}
	v.Close()
	term := fmt.Sprintf("CAgent %s %d [%s] [%s] [%s] [%s]", vu.B(diskOn), base, strings.Join(ops, "; "), strings.Join(obs, "; "), strings.Join(hist, "; "), strings.Join(known, "; "))
	var ks []string
	for k := range kinds {
		ks = append(ks, "agent/"+k)
	}
	sort.Strings(ks)
	mode := "real"
	if synthetic {
		mode = "synthetic"
	}
	ks = append(ks, "agent/mode-"+mode)
	nontrivial := kinds["pop"] && (kinds["restart"] || kinds["hist/discard"] || kinds["window"])
	o.Case(fmt.Sprintf("agent case=%d disk=%v %s base=%d: %s", caseNo, diskOn, mode, base, strings.Join(text, " ")), term, nontrivial, ks...)
}

// eraseAllPossible: some second was written to disk in this run (the size limit can be exceeded), the queue is not
// empty and holds only seconds of the past (the eraser pops them all)
func eraseAllPossible(v *agent.VerifPipe, keys map[int]*keyInfo, run int) bool {
	saved := false
	for _, ki := range keys {
		if ki.saved && ki.run == run {
			saved = true
		}
	}
	h := v.Hist()
	now := uint32(time.Now().Unix())
	for _, c := range h {
		if c.Time+2 >= now {
			return false
		}
	}
	return saved && len(h) > 0 && len(h) <= 4
}

func main() {
	seed := flag.Uint64("seed", 1, "")
	n := flag.Int("n", 300, "")
	out := flag.String("out", "", "")
	flag.Parse()
	log.SetOutput(io.Discard)
	r := vu.NewRng(*seed)
	o := vu.NewOut(*out)
	defer o.Close()
	sc := &script{answer: "keep"}
	addrs, stop := startServers(sc)
	defer stop()
	wire := startWire(makeAgent("", addrs)) // real-time scenario, runs while the histories are generated
	nAgent := *n / 4
	for i := 0; i < nAgent; i++ {
		agentHistory(r, o, addrs, sc, i, 12+r.Intn(24))
	}
	aggCases(r, o, addrs, *n-nAgent)
	wire.finish(o)
}
