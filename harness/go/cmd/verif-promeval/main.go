//go:build verif

// Correspondence harness for C27 (PromQL evaluation and reductions): drives the real promql.Engine.Exec over a
// storage stub that serves generated rows under the series-query contract of internal/api's QuerySeries
// (rows of one time slot are merged per group-by key, the value is selected by "what"), prints cases for
// PromEval/Corr.v and evaluates the property oracles on the implementation's own results:
//   agg_def/<op>, over_time_def/<fn>   the un-reduced evaluation equals a closed-form reference of the definitions
//   reduction_preserves[/<class>]      Exec(E) (reductions on) == Exec(E with an explicit __by__, reductions off)
package main

import (
	"context"
	"flag"
	"fmt"
	"math"
	"math/big"
	"sort"
	"strings"
	"time"

	"github.com/VKCOM/statshouse/internal/data_model"
	"github.com/VKCOM/statshouse/internal/format"
	"github.com/VKCOM/statshouse/internal/promql"
	vu "github.com/VKCOM/statshouse/internal/verifutil"
)

const nTags = 3
const prePad = 10 // slots of data before the query start

var tagRef = [nTags][]string{{"0"}, {"a", "1"}, {"b", "2"}}

// ---------------------------------------------------------------- storage stub

type rawSeries struct {
	tags  [nTags]int64
	times []int64   // ascending
	evs   [][]int64 // events recorded at times[i]
}

// the row of the slot [t, t+lodStep): all events recorded in it
func (r *rawSeries) eventsAt(t, lodStep int64) []int64 {
	var res []int64
	for i, x := range r.times {
		if t <= x && x < t+lodStep {
			res = append(res, r.evs[i]...)
		}
	}
	return res
}

type srs struct { // a series as served / returned
	tags map[int]int64
	vals []float64
}

type stub struct {
	metric *format.MetricMetaValue
	data   []rawSeries
	// recorded from the last QuerySeries
	ts     data_model.Timescale
	served []srs
	what   promql.DigestWhat
	gb     []int
	rng    int64
	calls  int
}

func (s *stub) GetHostName(int32) string   { return "" }
func (s *stub) GetHostName64(int64) string { return "" }
func (s *stub) GetTagValue(q promql.TagValueQuery) string {
	return fmt.Sprintf("v%d", q.TagValueID)
}
func (s *stub) GetTagValueID(promql.TagValueIDQuery) (int64, error) { return 0, nil }
func (s *stub) GetTagFilter(*format.MetricMetaValue, int, string) (data_model.TagValue, error) {
	return data_model.TagValue{}, nil
}
func (s *stub) MatchMetrics(f *data_model.QueryFilter) error {
	f.MatchingMetrics = []*format.MetricMetaValue{s.metric}
	return nil
}
func (s *stub) QueryTagValueIDs(context.Context, promql.TagValuesQuery) ([]int64, error) {
	return nil, nil
}
func (s *stub) Alloc(n int) *[]float64 { v := make([]float64, n); return &v }
func (s *stub) Free(*[]float64)        {}
func (s *stub) Tracef(string, ...any)  {}

type mrow struct {
	count, sum, min, max, sumsq float64
	any                         bool
}

func (m *mrow) add(ev []int64) {
	for _, e := range ev {
		x := float64(e)
		if !m.any || x < m.min {
			m.min = x
		}
		if !m.any || m.max < x {
			m.max = x
		}
		m.any = true
		m.count++
		m.sum += x
		m.sumsq += x * x
	}
}

// tsValues.value of internal/api/promql.go (stableMulDiv(v, a, b) = v*a/b on this domain)
func (m *mrow) value(what promql.DigestWhat, queryStep, lodStep int64) float64 {
	switch what {
	case promql.DigestCount:
		return m.count * float64(queryStep) / float64(lodStep)
	case promql.DigestCountSec:
		return m.count / float64(lodStep)
	case promql.DigestSum:
		return m.sum * float64(queryStep) / float64(lodStep)
	case promql.DigestSumSec:
		return m.sum / float64(lodStep)
	case promql.DigestAvg:
		return m.sum / m.count
	case promql.DigestMin:
		return m.min
	case promql.DigestMax:
		return m.max
	case promql.DigestStdVar:
		if m.count < 2 {
			return 0
		}
		return math.Max((m.sumsq-m.sum*m.sum/m.count)/(m.count-1), 0)
	case promql.DigestStdDev:
		if m.count < 2 {
			return 0
		}
		return math.Sqrt(math.Max((m.sumsq-m.sum*m.sum/m.count)/(m.count-1), 0))
	}
	return math.NaN()
}

func (s *stub) QuerySeries(_ context.Context, qry *promql.SeriesQuery) (promql.Series, func(), error) {
	s.calls++
	s.ts = qry.Timescale
	s.what = qry.Whats[0].Digest
	s.gb = append([]int(nil), qry.GroupBy...)
	s.rng = qry.Range
	res := promql.Series{Meta: promql.SeriesMeta{Metric: qry.Metric}}
	step := qry.Range
	if step == 0 {
		step = qry.Timescale.Step
	}
	inGB := [nTags]bool{}
	for _, g := range qry.GroupBy {
		if g >= 0 && g < nTags {
			inGB[g] = true
		}
	}
	type key [nTags]int64
	var keys []key
	rows := map[key][]mrow{}
	n := len(qry.Timescale.Time)
	lodSteps := pointSteps(qry.Timescale)
	for _, r := range s.data {
		var k key
		for g := 0; g < nTags; g++ {
			if inGB[g] {
				k[g] = r.tags[g]
			}
		}
		if _, ok := rows[k]; !ok {
			rows[k] = make([]mrow, n)
			keys = append(keys, k)
		}
		for i, t := range qry.Timescale.Time {
			if i < len(lodSteps) {
				rows[k][i].add(r.eventsAt(t, lodSteps[i]))
			}
		}
	}
	s.served = nil
	for _, k := range keys {
		v := make([]float64, n)
		anyRow := false
		for i := range v {
			if rows[k][i].any {
				qs := step
				if qs == 0 {
					qs = lodSteps[i]
				}
				v[i] = rows[k][i].value(s.what, qs, lodSteps[i])
				anyRow = true
			} else {
				v[i] = promql.NilValue
			}
		}
		if !anyRow {
			continue
		}
		x := len(res.Data)
		res.Data = append(res.Data, promql.SeriesData{Values: &v, What: qry.Whats[0]})
		tg := map[int]int64{}
		for _, g := range qry.GroupBy {
			if g >= 0 && g < nTags && g < len(qry.Metric.Tags) {
				res.AddTagAt(x, &promql.SeriesTag{Metric: qry.Metric, Index: g + promql.SeriesTagIndexOffset, ID: format.TagID(g), Name: qry.Metric.Tags[g].Name, Value: k[g]})
				tg[g] = k[g]
			}
		}
		s.served = append(s.served, srs{tags: tg, vals: append([]float64(nil), v...)})
	}
	res.Meta.Total = len(res.Data)
	return res, func() {}, nil
}

// LOD step of every point of the axis
func pointSteps(ts data_model.Timescale) []int64 {
	var res []int64
	for _, l := range ts.LODs {
		for i := 0; i < l.Len; i++ {
			res = append(res, l.Step)
		}
	}
	return res
}

// first index of the LOD every point belongs to
func pointLODStart(ts data_model.Timescale) []int {
	var res []int
	x := 0
	for _, l := range ts.LODs {
		for i := 0; i < l.Len; i++ {
			res = append(res, x)
		}
		x += l.Len
	}
	return res
}

// ---------------------------------------------------------------- expressions

type node struct {
	kind    string // paren, matrix, subq, agg, call
	rng     int64
	op      string // agg op or over-time fn (without _over_time)
	q       float64
	qn, qd  int64
	k       int
	without bool
	hasGrp  bool
	gt      bool     // cmp: "> c" (else "<= c")
	c       int64    // cmp: the scalar
	g       []int    // tag indices (9 = unknown tag)
	gtxt    []string // as written
}

type expr struct {
	what  string // explicit __what__ or ""
	by    bool   // explicit __by__ matcher (the selector carries its own grouping)
	byG   []int  // its tag indices, ascending ([] is __by__="")
	chain []node // innermost first
}

func (e expr) selText() string {
	var m []string
	if e.what != "" {
		m = append(m, fmt.Sprintf(`__what__="%s"`, e.what))
	}
	if e.by {
		var ids []string
		for _, g := range e.byG {
			ids = append(ids, tagRef[g][len(tagRef[g])-1]) // canonical id
		}
		m = append(m, fmt.Sprintf(`__by__="%s"`, strings.Join(ids, ",")))
	}
	if len(m) == 0 {
		return "m"
	}
	return "m{" + strings.Join(m, ",") + "}"
}

func (e expr) text() string {
	s := e.selText()
	for _, n := range e.chain {
		switch n.kind {
		case "paren":
			s = "(" + s + ")"
		case "cmp":
			if n.gt {
				s = fmt.Sprintf("%s > %d", s, n.c)
			} else {
				s = fmt.Sprintf("%s <= %d", s, n.c)
			}
		case "matrix":
			s = fmt.Sprintf("%s[%ds]", s, n.rng)
		case "subq":
			s = fmt.Sprintf("%s[%ds:]", s, n.rng)
		case "call":
			if n.op == "qot" {
				s = fmt.Sprintf("quantile_over_time(%s, %s)", fmtFloat(n.q), s)
			} else {
				s = n.op + "_over_time(" + s + ")"
			}
		case "agg":
			grp := ""
			if n.hasGrp {
				kw := "by"
				if n.without {
					kw = "without"
				}
				grp = fmt.Sprintf(" %s (%s) ", kw, strings.Join(n.gtxt, ","))
			}
			switch n.op {
			case "quantile":
				s = fmt.Sprintf("quantile%s(%s, %s)", grp, fmtFloat(n.q), s)
			case "topk", "bottomk":
				s = fmt.Sprintf("%s%s(%d, %s)", n.op, grp, n.k, s)
			case "sort", "sort_desc":
				s = fmt.Sprintf("%s(%s)", n.op, s)
			default:
				s = fmt.Sprintf("%s%s(%s)", n.op, grp, s)
			}
		}
	}
	return s
}

func fmtFloat(f float64) string { return fmt.Sprintf("%g", f) }

var whatCoq = map[string]string{"": "WNone", "avg": "WAvg", "count": "WCount", "countsec": "WCountSec", "min": "WMin", "max": "WMax", "sum": "WSum", "sumsec": "WSumSec", "stdvar": "WStdVar"}
var aggCoq = map[string]string{"sum": "ASum", "min": "AMin", "max": "AMax", "avg": "AAvg", "count": "ACount", "group": "AGroup", "stdvar": "AStdVar", "quantile": "AQuantile"}
var fnCoq = map[string]string{"avg": "OAvg", "min": "OMin", "max": "OMax", "sum": "OSum", "count": "OCount", "stdvar": "OStdVar", "last": "OLast"}

func natList(xs []int) string {
	p := make([]string, len(xs))
	for i, x := range xs {
		p[i] = fmt.Sprintf("%d%%nat", x)
	}
	return "[" + strings.Join(p, ";") + "]"
}

func chainCoq(ch []node) string {
	var p []string
	for _, n := range ch {
		switch n.kind {
		case "paren":
			p = append(p, "NParen")
		case "cmp":
			p = append(p, fmt.Sprintf("NCmp %s %d", vu.B(n.gt), n.c))
		case "matrix":
			p = append(p, fmt.Sprintf("NMatrix %d", n.rng))
		case "subq":
			p = append(p, fmt.Sprintf("NSubquery %d", n.rng))
		case "call":
			switch n.op {
			case "qot":
				p = append(p, fmt.Sprintf("NCallQ (Qmake %d %d%%positive)", n.qn, n.qd))
			case "present":
				p = append(p, "NPresent")
			default:
				p = append(p, "NCall "+fnCoq[n.op])
			}
		case "agg":
			p = append(p, fmt.Sprintf("NAgg %s (Qmake %d %d%%positive) %s %s", aggCoq[n.op], n.qn, n.qd, vu.B(n.without), natList(n.g)))
		}
	}
	return "[" + strings.Join(p, ";") + "]"
}

// ---------------------------------------------------------------- values

const tol = 1e-9

func isNaN(v float64) bool { return math.IsNaN(v) }

func valCoq(v float64) string {
	if isNaN(v) {
		return "NA"
	}
	if v == math.Trunc(v) && math.Abs(v) < 1e15 {
		return "I " + vu.Z(int64(v))
	}
	r := new(big.Rat).SetFloat64(v)
	if r == nil {
		return "NA"
	}
	if r.Denom().BitLen() <= 24 {
		return fmt.Sprintf("F %s %s%%positive", zbig(r.Num()), r.Denom().String())
	}
	// not a short dyadic: rounded to 2^-40 (Corr compares within 2^-30)
	sc := new(big.Rat).Mul(r, new(big.Rat).SetInt(new(big.Int).Lsh(big.NewInt(1), 40)))
	f, _ := sc.Float64()
	n := new(big.Int)
	big.NewFloat(math.Round(f)).Int(n)
	return fmt.Sprintf("F %s 1099511627776%%positive", zbig(n))
}

func zbig(n *big.Int) string {
	if n.Sign() < 0 {
		return "(" + n.String() + ")"
	}
	return n.String()
}

func near(a, b float64) bool {
	if isNaN(a) || isNaN(b) {
		return isNaN(a) && isNaN(b)
	}
	return math.Abs(a-b) <= tol*math.Max(1, math.Max(math.Abs(a), math.Abs(b)))
}

func tagsKey(t map[int]int64) string {
	var p []string
	for g := 0; g < nTags; g++ {
		if v, ok := t[g]; ok {
			p = append(p, fmt.Sprintf("%d=%d", g, v))
		}
	}
	return strings.Join(p, ",")
}

func tagsCoq(t map[int]int64) string {
	var p []string
	for g := 0; g < nTags; g++ {
		if v, ok := t[g]; ok {
			p = append(p, fmt.Sprintf("(%d%%nat,%s)", g, vu.Z(v)))
		}
	}
	return "[" + strings.Join(p, ";") + "]"
}

func seriesCoq(l []srs) string {
	var p []string
	for _, s := range l {
		vs := make([]string, len(s.vals))
		for i, v := range s.vals {
			vs[i] = valCoq(v)
		}
		p = append(p, fmt.Sprintf("(%s,[%s])", tagsCoq(s.tags), strings.Join(vs, ";")))
	}
	return "[" + strings.Join(p, ";") + "]"
}

func sortSeries(l []srs) {
	sort.Slice(l, func(i, j int) bool { return tagsKey(l[i].tags) < tagsKey(l[j].tags) })
}

func sameSets(a, b []srs) bool {
	if len(a) != len(b) {
		return false
	}
	for i := range a {
		if tagsKey(a[i].tags) != tagsKey(b[i].tags) || len(a[i].vals) != len(b[i].vals) {
			return false
		}
		for j := range a[i].vals {
			if !near(a[i].vals[j], b[i].vals[j]) {
				return false
			}
		}
	}
	return true
}

// ---------------------------------------------------------------- running the engine

type world struct {
	st      *stub
	ng      promql.Engine
	start   int64
	end     int64
	step    int64 // requested step = step of the finest LOD
	now     int64
	coarse  int64 // step of the coarse LOD of a two-LOD world, 0 otherwise
	counter bool
	base    []srs // result of the bare selector at creation (data_not_mutated)
}

type result struct {
	ok     bool
	series []srs // sorted by tags
	ts     data_model.Timescale
	served []srs
	gb     []int
	rng    int64
	what   promql.DigestWhat
	err    string
}

func (w *world) run(q string) result {
	w.st.calls = 0
	v, cancel, err := w.ng.Exec(context.Background(), w.st, promql.Query{Start: w.start, End: w.end, Step: w.step, Expr: q,
		Options: promql.Options{TimeNow: w.now, Mode: data_model.RangeQuery}})
	if err != nil {
		return result{err: err.Error()}
	}
	defer cancel()
	ts, ok := v.(*promql.TimeSeries)
	if !ok || w.st.calls != 1 {
		return result{err: "unexpected result"}
	}
	r := result{ok: true, ts: w.st.ts, served: w.st.served, gb: w.st.gb, rng: w.st.rng, what: w.st.what}
	for _, d := range ts.Series.Data {
		tg := map[int]int64{}
		for id, t := range d.Tags.ID2Tag {
			for g := 0; g < nTags; g++ {
				if id == format.TagID(g) {
					tg[g] = t.Value
				}
			}
		}
		r.series = append(r.series, srs{tags: tg, vals: append([]float64(nil), (*d.Values)...)})
	}
	sortSeries(r.series)
	return r
}

var digestOf = map[string]promql.DigestWhat{"avg": promql.DigestAvg, "count": promql.DigestCount, "countsec": promql.DigestCountSec,
	"min": promql.DigestMin, "max": promql.DigestMax, "sum": promql.DigestSum, "sumsec": promql.DigestSumSec, "stdvar": promql.DigestStdVar}

// the series the selector itself yields (its own what and grouping, no pushed-down range), straight from the
// storage contract and independent of the query the engine chose to issue
func (w *world) underlying(e expr, ts data_model.Timescale) []srs {
	gb := []int{0, 1, 2}
	if e.by {
		gb = e.byG
	}
	q := promql.SeriesQuery{Metric: w.st.metric, Whats: []promql.SelectorWhat{{Digest: digestOf[effWhat(e, w.counter)]}}, GroupBy: gb, Timescale: ts}
	_, _, _ = w.st.QuerySeries(context.Background(), &q)
	return w.st.served
}

// every LOD uniform with its own step, LODs contiguous, the last LOD has the requested step, point count consistent
func axisOK(ts data_model.Timescale, step int64) bool {
	if len(ts.LODs) == 0 || len(ts.LODs) > 2 || ts.LODs[len(ts.LODs)-1].Step != step || ts.Step != step {
		return false
	}
	ps := pointSteps(ts)
	if len(ps) != len(ts.Time) || len(ps) == 0 {
		return false
	}
	for i := 1; i < len(ts.Time); i++ {
		if ts.Time[i]-ts.Time[i-1] != ps[i-1] {
			return false
		}
	}
	return true
}

// ---------------------------------------------------------------- reference definitions (closed form)

func presentOf(col []float64) []float64 {
	var p []float64
	for _, v := range col {
		if !isNaN(v) {
			p = append(p, v)
		}
	}
	return p
}

// the definition of an aggregation operator over the present points of one timestamp; second result false
// when the definition leaves the empty case open (count/group/stdvar/stddev over no points)
func aggDef(op string, q float64, col []float64) (float64, bool) {
	p := presentOf(col)
	if len(p) == 0 {
		// no point at all: the definitions leave the value open; what the code does (and later nodes consume)
		switch op {
		case "count", "stdvar", "stddev":
			return 0, false
		case "group":
			return 1, false
		}
		return math.NaN(), true
	}
	n := float64(len(p))
	var sum float64
	for _, v := range p {
		sum += v
	}
	switch op {
	case "sum":
		return sum, true
	case "avg":
		return sum / n, true
	case "count":
		return n, true
	case "group":
		return 1, true
	case "min", "max":
		r := p[0]
		for _, v := range p {
			if (op == "min" && v < r) || (op == "max" && v > r) {
				r = v
			}
		}
		return r, true
	case "stdvar", "stddev":
		mean := sum / n
		var acc float64
		for _, v := range p {
			acc += (v - mean) * (v - mean)
		}
		if op == "stddev" {
			return math.Sqrt(acc / n), true
		}
		return acc / n, true
	case "quantile":
		s := append([]float64(nil), p...)
		sort.Float64s(s)
		ix := q * (n - 1)
		i1 := int(math.Floor(ix))
		i2 := i1 + 1
		if i2 > len(s)-1 {
			i2 = len(s) - 1
		}
		fr := ix - float64(i1)
		return s[i1]*(1-fr) + s[i2]*fr, true
	}
	return math.NaN(), true
}

func groupKeyOf(n node, t map[int]int64) map[int]int64 {
	k := map[int]int64{}
	in := map[int]bool{}
	for _, g := range n.g {
		in[g] = true
	}
	for g, v := range t {
		if in[g] != n.without {
			k[g] = v
		}
	}
	return k
}

func refAgg(n node, l []srs, lenient bool) []srs {
	var order []string
	groups := map[string][]srs{}
	keys := map[string]map[int]int64{}
	for _, s := range l {
		k := groupKeyOf(n, s.tags)
		ks := tagsKey(k)
		if _, ok := groups[ks]; !ok {
			order = append(order, ks)
			keys[ks] = k
		}
		groups[ks] = append(groups[ks], s)
	}
	var res []srs
	for _, ks := range order {
		g := groups[ks]
		out := srs{tags: keys[ks], vals: make([]float64, len(g[0].vals))}
		for i := range out.vals {
			col := make([]float64, len(g))
			for j := range g {
				col[j] = g[j].vals[i]
			}
			v, defined := aggDef(n.op, n.q, col)
			if !defined && lenient {
				v = anyV // compared leniently
			}
			for _, x := range col {
				if isAny(x) {
					v = anyV
				}
			}
			out.vals[i] = v
		}
		res = append(res, out)
	}
	return res
}

// "any value" marker of the reference (compared leniently; contagious)
var anyV = math.Inf(1)

func isAny(v float64) bool { return math.IsInf(v, 1) }

// over-time definition: the window of the point i is the trailing c points, c = ceil(w/s) (non-strict: avg, min,
// max, last) or max(1, floor(w/s)) (strict: sum, count, stdvar, stddev, quantile; no window at all when w < s),
// s = the LOD step of the point; points whose window does not lie strictly inside the axis (first index >= 1) are
// missing.  Where the window (or the point before it) reaches into another LOD the definition is left open.
func refOverTime(fn string, q float64, w int64, ts data_model.Timescale, v []float64) []float64 {
	strict := fn == "sum" || fn == "count" || fn == "stdvar" || fn == "stddev" || fn == "qot"
	nilv := math.NaN()
	if fn == "count" {
		nilv = 0
	}
	steps := pointSteps(ts)
	lodStart := pointLODStart(ts)
	res := make([]float64, len(v))
	for i := range v {
		s := steps[i]
		var c int64
		if strict {
			c = w / s
			if c < 1 {
				c = 1
			}
		} else {
			c = (w + s - 1) / s
		}
		if lodStart[i] == 0 {
			if int64(i) < c { // moveOneLeft never accepts a window that starts at index 0 (the axis is widened by the range)
				res[i] = math.NaN()
				continue
			}
		} else if int64(i)-c < int64(lodStart[i]) {
			res[i] = anyV
			continue
		}
		if strict && w < s {
			res[i] = nilv
			continue
		}
		win := v[int64(i)-c+1 : i+1]
		hasAny := false
		for _, x := range win {
			if isAny(x) {
				hasAny = true
			}
		}
		if hasAny {
			res[i] = anyV
			continue
		}
		p := presentOf(win)
		if len(p) == 0 {
			res[i] = nilv
			continue
		}
		switch fn {
		case "last":
			res[i] = p[len(p)-1]
		case "qot":
			res[i], _ = aggDef("quantile", q, win)
		default:
			res[i], _ = aggDef(fn, 0, win)
		}
	}
	return res
}

// present_over_time: 1 where a point exists within the last w seconds, missing otherwise
func refPresent(w int64, ts data_model.Timescale, v []float64) []float64 {
	res := make([]float64, len(v))
	for i := range v {
		res[i] = math.NaN()
		for j := i; j >= 0 && ts.Time[i]-ts.Time[j] <= w; j-- {
			if isAny(v[j]) {
				res[i] = anyV
				break
			}
			if !isNaN(v[j]) {
				res[i] = 1
				break
			}
		}
	}
	return res
}

// set by refEval when a quantile node was given an input with a missing point
var quantileSawMissing bool

func refEval(ch []node, ts data_model.Timescale, l []srs) []srs {
	var evr int64
	lastX := -1
	for i, n := range ch {
		if n.kind != "paren" {
			lastX = i
		}
	}
	for i, n := range ch {
		switch n.kind {
		case "matrix", "subq":
			evr = n.rng
		case "cmp":
			out := make([]srs, len(l))
			for i, s := range l {
				vs := make([]float64, len(s.vals))
				for j, v := range s.vals {
					vs[j] = v
					if !isNaN(v) && !isAny(v) && (v > float64(n.c)) != n.gt {
						vs[j] = math.NaN()
					}
				}
				out[i] = srs{tags: s.tags, vals: vs}
			}
			l = out
		case "call":
			out := make([]srs, len(l))
			for i, s := range l {
				if n.op == "present" {
					out[i] = srs{tags: s.tags, vals: refPresent(evr, ts, s.vals)}
				} else {
					out[i] = srs{tags: s.tags, vals: refOverTime(n.op, n.q, evr, ts, s.vals)}
				}
			}
			l = out
			evr = 0
		case "agg":
			if n.op == "quantile" {
				for _, s := range l {
					for _, v := range s.vals {
						if isNaN(v) {
							quantileSawMissing = true
						}
					}
				}
			}
			l = refAgg(n, l, i == lastX)
		}
	}
	return l
}

// set by refFinish when the reference cannot tell whether a series is empty
var refUndecided bool

func refFinish(ts data_model.Timescale, l []srs) []srs {
	refUndecided = false
	var res []srs
	for _, s := range l {
		keep, open := false, false
		for _, v := range s.vals[ts.ViewStartX:ts.ViewEndX] {
			if isAny(v) {
				open = true
			} else if !isNaN(v) {
				keep = true
			}
		}
		if open && !keep {
			refUndecided = true // whether the series survives depends on values the reference leaves open
		}
		if keep || open {
			res = append(res, srs{tags: s.tags, vals: s.vals[ts.StartX:]})
		}
	}
	sortSeries(res)
	return res
}

func sameLenient(got, want []srs) bool {
	if refUndecided {
		return true
	}
	if len(got) != len(want) {
		return false
	}
	for i := range got {
		if tagsKey(got[i].tags) != tagsKey(want[i].tags) || len(got[i].vals) != len(want[i].vals) {
			return false
		}
		for j := range got[i].vals {
			if math.IsInf(want[i].vals[j], 1) {
				continue
			}
			if !near(got[i].vals[j], want[i].vals[j]) {
				return false
			}
		}
	}
	return true
}

// ---------------------------------------------------------------- classes of reductions (syntactic)

func effWhat(e expr, counter bool) string {
	if e.what != "" {
		return e.what
	}
	if counter {
		return "count"
	}
	return "avg"
}

func additive(w string) bool { return w == "sum" || w == "sumsec" || w == "count" || w == "countsec" }

func classAgg(op, w string) string {
	switch op {
	case "avg":
		return "/avg"
	case "count":
		return "/count"
	case "sum":
		if !additive(w) {
			return "/agg_what_mismatch"
		}
	case "min", "max":
		if w != op {
			return "/agg_what_mismatch"
		}
	}
	return ""
}

func classCall(fn string, r, step int64) string { // step = the coarsest LOD step
	switch fn {
	case "count":
		return "/count_over_time"
	case "stdvar", "stddev":
		return "/stdvar_over_time"
	case "last", "qot", "present":
		return ""
	}
	if r < step {
		return "/over_time_range"
	}
	return ""
}

// the class of the (possibly) non-preserving pushdown an expression contains, "" when every pushdown the
// reduction rules may apply to it is one that preserves results
func reductionClass(e expr, counter bool, step, stepMax int64) string {
	w := effWhat(e, counter)
	var ns []node
	for _, n := range e.chain {
		if n.kind != "paren" {
			ns = append(ns, n)
		}
	}
	if len(ns) == 0 {
		return ""
	}
	switch ns[0].kind {
	case "agg":
		if c := classAgg(ns[0].op, w); c != "" {
			return c
		}
		if len(ns) >= 3 && ns[1].kind == "subq" && ns[2].kind == "call" && ns[1].rng <= step {
			return classCall(ns[2].op, ns[1].rng, stepMax)
		}
	case "matrix":
		if ns[0].rng > step || len(ns) < 2 || ns[1].kind != "call" {
			return ""
		}
		if c := classCall(ns[1].op, ns[0].rng, stepMax); c != "" {
			return c
		}
		if len(ns) >= 3 && ns[2].kind == "agg" {
			return classAgg(ns[2].op, w)
		}
	}
	return ""
}

// ---------------------------------------------------------------- generation

func genGrouping(r *vu.Rng, n *node) {
	switch r.Intn(4) {
	case 0:
		return
	case 1, 2:
		n.hasGrp = true
	case 3:
		n.hasGrp = true
		n.without = true
	}
	for g := 0; g < nTags; g++ {
		if r.Chance(45) {
			n.g = append(n.g, g)
			n.gtxt = append(n.gtxt, tagRef[g][r.Intn(len(tagRef[g]))])
		}
	}
	if r.Chance(8) {
		n.g = append(n.g, 9)
		n.gtxt = append(n.gtxt, "zz")
	}
}

var aggOps = []string{"sum", "sum", "min", "max", "avg", "count", "group", "stdvar", "stddev", "quantile", "topk", "bottomk", "bottomk", "sort", "sort_desc"}

func isTop(op string) bool  { return op == "topk" || op == "bottomk" || op == "sort" || op == "sort_desc" }
func isDesc(op string) bool { return op == "topk" || op == "sort_desc" }
var otFns = []string{"avg", "min", "max", "sum", "sum", "count", "stdvar", "stddev", "last", "qot", "qot", "present"}
var whats = []string{"", "", "", "avg", "count", "countsec", "min", "max", "sum", "sumsec", "stdvar"}

func genAgg(r *vu.Rng, allowOrderDependent bool) node {
	n := node{kind: "agg", qn: 0, qd: 1}
	for {
		n.op = aggOps[r.Intn(len(aggOps))]
		if !allowOrderDependent && (n.op == "quantile" || isTop(n.op)) {
			continue
		}
		break
	}
	if n.op == "quantile" {
		qs := [][2]int64{{0, 1}, {1, 4}, {1, 2}, {3, 4}, {1, 1}, {1, 8}}
		c := qs[r.Intn(len(qs))]
		n.qn, n.qd = c[0], c[1]
		n.q = float64(c[0]) / float64(c[1])
	}
	if n.op == "topk" || n.op == "bottomk" {
		n.k = 1 + r.Intn(3) // k <= 0 returns before any storage query
	}
	if n.op == "sort" || n.op == "sort_desc" {
		n.k = 1 << 20
		return n
	}
	genGrouping(r, &n)
	return n
}

func genRange(r *vu.Rng, step, coarse int64) int64 {
	if coarse != 0 && r.Chance(55) { // two LODs: between the steps, equal to the coarse one, its multiples, around it
		switch r.Intn(6) {
		case 0:
			return coarse / 2
		case 1:
			return coarse
		case 2:
			return 2 * coarse
		case 3:
			return step + int64(r.Intn(int(coarse-step)))
		case 4:
			return coarse + step
		default:
			return coarse - step
		}
	}
	switch r.Intn(8) {
	case 0, 1, 2:
		return step
	case 3:
		return 2 * step
	case 4:
		return 3 * step
	case 5:
		return step + 1 + int64(r.Intn(int(step)))
	case 6:
		if step > 1 {
			return 1 + int64(r.Intn(int(step-1)))
		}
		return step
	default:
		return 2*step + int64(r.Intn(int(step)+1))
	}
}

func maybeParen(r *vu.Rng, ch []node) []node {
	if r.Chance(12) {
		ch = append(ch, node{kind: "paren"})
	}
	return ch
}

// with probability p the aggregate is the one whose pushdown pairs with the over-time function fn (rules #2, #3
// complete only for such pairs), and the range does not exceed the step
func pairedAgg(r *vu.Rng, fn string, allowOrderDependent bool) node {
	n := genAgg(r, allowOrderDependent)
	if r.Chance(45) {
		switch fn {
		case "sum", "min", "max", "avg", "count":
			n.op = fn
			n.qn, n.qd, n.q, n.k = 0, 1, 0, 0
		}
	}
	return n
}

func genExpr(r *vu.Rng, step, coarse int64) expr {
	e := expr{what: whats[r.Intn(len(whats))]}
	var ch []node
	fn := otFns[r.Intn(len(otFns))]
	form := r.Intn(10)
	if fn == "present" && form >= 8 { // NilValue bits are only what the storage serves: present_over_time over a selector only
		fn = "last"
	}
	call := func() {
		n := node{kind: "call", op: fn, qn: 0, qd: 1}
		if fn == "qot" {
			qs := [][2]int64{{0, 1}, {1, 4}, {1, 2}, {3, 4}, {1, 1}}
			c := qs[r.Intn(len(qs))]
			n.qn, n.qd, n.q = c[0], c[1], float64(c[0])/float64(c[1])
		}
		ch = append(ch, n)
	}
	rng := genRange(r, step, coarse)
	if r.Chance(35) {
		rng = step
	}
	cmp := func(p int) { // a filtering comparison with a scalar (always parenthesised): empties points and whole series
		if r.Chance(p) {
			ch = append(ch, node{kind: "cmp", gt: r.Chance(60), c: int64(r.Intn(9))}, node{kind: "paren"})
		}
	}
	switch form {
	case 0: // selector
		cmp(15)
	case 1, 2, 3: // agg(sel)
		cmp(20)
		ch = maybeParen(r, ch)
		ch = append(ch, genAgg(r, true))
	case 4, 5: // fn(sel[R])
		ch = append(ch, node{kind: "matrix", rng: rng})
		call()
	case 6, 7: // agg(fn(sel[R]))
		ch = append(ch, node{kind: "matrix", rng: rng})
		call()
		cmp(12)
		ch = maybeParen(r, ch)
		ch = append(ch, pairedAgg(r, fn, true))
	case 8: // fn(agg(sel)[R:])
		cmp(12)
		ch = maybeParen(r, ch)
		ch = append(ch, pairedAgg(r, fn, false))
		ch = maybeParen(r, ch)
		ch = append(ch, node{kind: "subq", rng: rng})
		call()
	case 9: // agg(fn(agg(sel)[R:]))
		ch = append(ch, pairedAgg(r, fn, false))
		ch = append(ch, node{kind: "subq", rng: rng})
		call()
		ch = append(ch, genAgg(r, false))
	}
	ch = maybeParen(r, ch)
	e.chain = ch
	if r.Chance(30) && len(ch) > 0 { // the what the innermost pushdown pairs with
		for _, n := range ch {
			if n.kind == "agg" || n.kind == "call" {
				switch n.op {
				case "min", "max", "avg", "count", "sum":
					e.what = n.op
				}
				break
			}
		}
	}
	return e
}

func (w *world) stepMax() int64 {
	if w.coarse != 0 {
		return w.coarse
	}
	return w.step
}

func genEvents(r *vu.Rng, density int) []int64 {
	var ev []int64
	if r.Chance(density) {
		cnts := []int{1, 1, 2, 2, 4, 3}
		for c := cnts[r.Intn(len(cnts))]; c > 0; c-- {
			ev = append(ev, int64(r.Intn(17))-4)
		}
	}
	return ev
}

func newMetric(counter bool) *format.MetricMetaValue {
	kind := format.MetricKindValue
	if counter {
		kind = format.MetricKindCounter
	}
	m := &format.MetricMetaValue{MetricID: 1, Name: "m", Kind: kind, Tags: []format.MetricMetaTag{{}, {Name: "a"}, {Name: "b"}}}
	_ = m.RestoreCachedInfo()
	return m
}

func genWorld(r *vu.Rng) *world {
	w := &world{counter: r.Chance(30)}
	var times []int64
	if r.Chance(35) {
		// two LODs: the query straddles a resolution switch of data_model.lodLevels
		// (now-52h+2s: 1m -> finer; now-33d+2m: 1h -> finer)
		type sw struct{ rel, coarse int64 }
		var c sw
		var fine int64
		if r.Chance(70) {
			c = sw{52*3600 - 2, 60}
			fine = []int64{1, 5, 15}[r.Intn(3)]
		} else {
			c = sw{33*86400 - 120, 3600}
			fine = []int64{60, 300}[r.Intn(2)]
		}
		edge := int64(1700000000) / 3600 * 3600
		w.now = edge + c.rel
		w.step, w.coarse = fine, c.coarse
		w.start = edge - c.coarse*int64(1+r.Intn(2))
		w.end = edge + fine*int64(3+r.Intn(5))
		for k := int64(12); k >= 1; k-- {
			times = append(times, edge-k*c.coarse)
			if r.Chance(15) {
				times = append(times, edge-k*c.coarse+fine*int64(1+r.Intn(3)))
			}
		}
		for t := edge; t < w.end+3*fine; t += fine {
			times = append(times, t)
		}
	} else {
		steps := []int64{1, 5, 15, 60, 60}
		w.step = steps[r.Intn(len(steps))]
		npts := int64(3 + r.Intn(5))
		w.start = int64(1700000000) / 3600 * 3600
		w.end = w.start + npts*w.step
		w.now = w.end + w.step
		for i := int64(-prePad); i < npts+2; i++ {
			times = append(times, w.start+i*w.step)
		}
	}
	st := &stub{metric: newMetric(w.counter)}
	ns := 1 + r.Intn(5)
	seen := map[[nTags]int64]bool{}
	for len(st.data) < ns {
		tg := [nTags]int64{int64(r.Intn(2)), int64(1 + r.Intn(2)), int64(1 + r.Intn(3))}
		if seen[tg] {
			continue
		}
		seen[tg] = true
		rs := rawSeries{tags: tg}
		density := 40 + r.Intn(60)
		if r.Chance(35) {
			density = 100 // dense series: windows without a missing point
		}
		hidden := r.Chance(22) // a series without a visible point: rows only left of the requested start (lead-in) or none
		for _, t := range times {
			if hidden && (t >= w.start || r.Chance(50)) {
				continue
			}
			if ev := genEvents(r, density); len(ev) != 0 {
				rs.times = append(rs.times, t)
				rs.evs = append(rs.evs, ev)
			}
		}
		if hidden && len(rs.times) == 0 && len(times) > 0 { // at least the point right before the start
			for i := len(times) - 1; i >= 0; i-- {
				if times[i] < w.start {
					rs.times, rs.evs = []int64{times[i]}, [][]int64{{int64(1 + r.Intn(9))}}
					break
				}
			}
		}
		st.data = append(st.data, rs)
	}
	w.st = st
	w.ng = promql.NewEngine(time.UTC, 0)
	if b := w.run(`m{__by__="0,1,2"}`); b.ok {
		w.base = b.series
	}
	return w
}

func (w *world) dataCoq(ts data_model.Timescale) (string, bool) {
	steps := pointSteps(ts)
	var p []string
	for i := range w.st.data {
		rs := &w.st.data[i]
		var sl []string
		for j, t := range ts.Time {
			sl = append(sl, vu.ListZ(rs.eventsAt(t, steps[j])))
		}
		p = append(p, fmt.Sprintf("R %s [%s]", vu.ListZ(rs.tags[:]), strings.Join(sl, ";")))
	}
	return "[" + strings.Join(p, ";") + "]", true
}

func queryCoq(w *world, ts data_model.Timescale) string {
	var lods []string
	x := 0
	for _, l := range ts.LODs {
		lods = append(lods, fmt.Sprintf("(%d,%d,%d%%nat)", ts.Time[x], l.Step, l.Len))
		x += l.Len
	}
	return fmt.Sprintf("(Y %s %d%%nat %d [%s] %d %d %d)", vu.B(w.counter), nTags, ts.Step, strings.Join(lods, ";"), ts.StartX, ts.ViewStartX, ts.ViewEndX)
}

func dataText(w *world) string {
	var p []string
	for _, rs := range w.st.data {
		var sl []string
		for i, ev := range rs.evs {
			s := fmt.Sprint(ev)
			sl = append(sl, fmt.Sprintf("%d:%s", rs.times[i]-w.start, strings.ReplaceAll(s[1:len(s)-1], " ", ",")))
		}
		p = append(p, fmt.Sprintf("%d.%d.%d@%s", rs.tags[0], rs.tags[1], rs.tags[2], strings.Join(sl, "|")))
	}
	return strings.Join(p, " ")
}

// ---------------------------------------------------------------- one case

func outermost(e expr) (node, bool) {
	for i := len(e.chain) - 1; i >= 0; i-- {
		if e.chain[i].kind != "paren" {
			return e.chain[i], true
		}
	}
	return node{}, false
}

func hasOp(e expr, ops ...string) bool {
	for _, n := range e.chain {
		for _, o := range ops {
			if (n.kind == "agg" || n.kind == "call") && n.op == o {
				return true
			}
		}
	}
	return false
}

func doCase(o *vu.Out, w *world, e expr, seedTag string) {
	kind := "counter"
	if !w.counter {
		kind = "value"
	}
	input := fmt.Sprintf("%s step=%d coarse=%d range=[%d,%d) kind=%s expr=%s data=%s", seedTag, w.step, w.coarse, w.start, w.end, kind, e.text(), dataText(w))
	if len(input) > 380 {
		input = input[:380] + "..."
	}
	got := w.run(e.text())
	if !got.ok {
		if verbose {
			fmt.Println("EXEC ERROR", e.text(), got.err)
		}
		o.Hist["skip/error"]++
		return
	}
	if !axisOK(got.ts, w.step) {
		o.Hist["skip/axis"]++
		return
	}
	dc, okd := w.dataCoq(got.ts)
	if !okd {
		o.Hist["skip/pad"]++
		return
	}
	reduced := !e.by && (got.rng != 0 || len(got.gb) != format.MaxTags) // GroupByAll lists all 48 indices
	last, hasLast := outermost(e)
	top := hasLast && last.kind == "agg" && isTop(last.op)
	stddev := hasOp(e, "stddev")
	kinds := []string{"form/" + formOf(e), fmt.Sprintf("lods/%d", len(got.ts.LODs))}
	if reduced {
		kinds = append(kinds, "reduced")
	}
	missing := false
	for _, s := range got.served {
		for _, v := range s.vals[got.ts.ViewStartX:got.ts.ViewEndX] {
			if isNaN(v) {
				missing = true
			}
		}
	}
	nontrivial := len(got.series) > 0 && len(e.chain) > 0 && missing
	line := -1
	byTerm := "None"
	if e.by {
		byTerm = "(Some " + natList(e.byG) + ")"
	}
	selTerm := fmt.Sprintf("(S_ %s %s)", whatCoq[e.what], byTerm)
	switch {
	case stddev:
		// sqrt is outside Q: stddev is tied to stdvar on the Go side (below); no Coq case
		o.Hist["go-only/stddev"]++
	case top:
		inner := e.chain
		for len(inner) > 0 && inner[len(inner)-1].kind == "paren" {
			inner = inner[:len(inner)-1]
		}
		inner = inner[:len(inner)-1]
		term := fmt.Sprintf("CTopK %s %s %s %s %s %s %s %s %s", queryCoq(w, got.ts), dc, selTerm, chainCoq(inner), vu.B(isDesc(last.op)),
			vu.Z(int64(last.k)), vu.B(last.without), natList(last.g), seriesCoq(got.series))
		line = o.Case(input, term, nontrivial, append(kinds, "topk")...)
	default:
		term := fmt.Sprintf("CExec %s %s %s %s %s", queryCoq(w, got.ts), dc, selTerm, chainCoq(e.chain), seriesCoq(got.series))
		line = o.Case(input, term, nontrivial, kinds...)
	}

	// ---- oracles on the implementation
	// (1) the un-reduced evaluation against the closed-form definitions
	un := e
	if !e.by {
		un.by, un.byG = true, []int{0, 1, 2}
	}
	ur := got
	if !e.by {
		ur = w.run(un.text())
	}
	if !ur.ok || !axisOK(ur.ts, w.step) || len(ur.ts.Time) != len(got.ts.Time) {
		o.Hist["skip/unreduced"]++
		return
	}
	direct := w.underlying(e, ur.ts)
	// the storage query of a selector with its own grouping keeps that grouping
	if e.by && fmt.Sprint(got.gb) != fmt.Sprint(e.byG) {
		o.Fail("reduction_preserves", line, input)
	}
	if top {
		checkTopK(o, line, input, w, un, last, ur, direct)
	} else if stddev {
		// stddev == sqrt(stdvar) pointwise, bit for bit, on the same inputs
		vr := un
		vr.chain = append([]node(nil), un.chain...)
		for i := range vr.chain {
			if vr.chain[i].op == "stddev" {
				vr.chain[i].op = "stdvar"
			}
		}
		if onlyOuterStddev(un) {
			rv := w.run(vr.text())
			if rv.ok && len(rv.series) == len(ur.series) {
				for i := range rv.series {
					for j := range rv.series[i].vals {
						a, b := ur.series[i].vals[j], math.Sqrt(rv.series[i].vals[j])
						if !(a == b || (isNaN(a) && isNaN(b))) {
							o.Fail("stddev_is_sqrt_stdvar", line, input)
						}
					}
				}
			}
		}
		quantileSawMissing = false
		want := refFinish(ur.ts, refEval(un.chain, ur.ts, direct))
		if !sameLenient(ur.series, want) {
			name := defOracle(un)
			if quantileSawMissing {
				name = "agg_def/quantile_missing_points"
			}
			if hasOp(un, "present") {
				name = "over_time_def/present_inverted"
			}
			o.Fail(name, line, input)
		}
	} else {
		quantileSawMissing = false
		want := refFinish(ur.ts, refEval(un.chain, ur.ts, direct))
		if !sameLenient(ur.series, want) {
			if verbose {
				fmt.Println("DEF FAIL", un.text(), "ts", ur.ts.Time, ur.ts.StartX, ur.ts.ViewStartX, ur.ts.ViewEndX)
				fmt.Println("  served", direct)
				fmt.Println("  got   ", ur.series)
				fmt.Println("  want  ", want)
			}
			name := defOracle(un)
			if quantileSawMissing {
				name = "agg_def/quantile_missing_points"
			}
			if hasOp(un, "present") {
				name = "over_time_def/present_inverted"
			}
			o.Fail(name, line, input)
		}
	}
	// (1b) evaluating an expression leaves the data alone: the bare selector still evaluates to what it did
	if w.base != nil {
		if b := w.run(`m{__by__="0,1,2"}`); !b.ok || !sameSets(b.series, w.base) {
			o.Fail("data_not_mutated", line, input)
		}
	}
	// (2) reductions preserve results
	if !e.by && !sameSets(got.series, ur.series) {
		cls := reductionClass(e, w.counter, w.step, w.stepMax())
		if cls == "" && !top && !stddev && quantileSawMissing {
			cls = "/quantile_missing_points" // the index permutation of funcQuantile depends on the NaNs of earlier timestamps
		}
		o.Fail("reduction_preserves"+cls, line, input)
	}
	if reduced {
		o.Hist["class"+reductionClass(e, w.counter, w.step, w.stepMax())+"/"]++
	}
}

func onlyOuterStddev(e expr) bool {
	n, ok := outermost(e)
	if !ok || n.op != "stddev" {
		return false
	}
	c := 0
	for _, x := range e.chain {
		if x.op == "stddev" {
			c++
		}
	}
	return c == 1
}

func formOf(e expr) string {
	var p []string
	for _, n := range e.chain {
		if n.kind != "paren" {
			p = append(p, n.kind)
		}
	}
	if len(p) == 0 {
		return "sel"
	}
	return strings.Join(p, "-")
}

func defOracle(e expr) string {
	n, ok := outermost(e)
	if !ok {
		return "selector"
	}
	if n.kind == "call" {
		return "over_time_def/" + n.op
	}
	return "agg_def/" + n.op
}

// topk/bottomk: the result is, per group, min(k, |group|) of the inner series (unchanged), none of them beaten by
// an inner series left out; weights as documented in evaluator.weight
func checkTopK(o *vu.Out, line int, input string, w *world, un expr, last node, ur result, direct []srs) {
	topName := "agg_def/" + last.op
	if hasOp(un, "present") {
		topName = "over_time_def/present_inverted" // the argument is not what the definition says (F-C27g)
	}
	ch := un.chain
	for len(ch) > 0 && ch[len(ch)-1].kind == "paren" {
		ch = ch[:len(ch)-1]
	}
	inner := refEval(ch[:len(ch)-1], ur.ts, direct)
	ts := ur.ts
	var live []srs
	for _, s := range inner {
		for _, v := range s.vals[ts.ViewStartX:ts.ViewEndX] {
			if !isNaN(v) {
				live = append(live, s)
				break
			}
		}
	}
	for _, s := range inner {
		for _, v := range s.vals {
			if isAny(v) {
				return // the reference leaves a value of the argument open (window across a LOD switch)
			}
		}
	}
	if last.k <= 0 {
		if len(ur.series) != 0 {
			o.Fail(topName, line, input)
		}
		return
	}
	groups := map[string][]srs{}
	for _, s := range live {
		k := tagsKey(groupKeyOf(last, s.tags))
		groups[k] = append(groups[k], s)
	}
	got := map[string]srs{}
	for _, s := range ur.series {
		got[tagsKey(s.tags)] = s
	}
	total := 0
	bad := false
	for _, g := range groups {
		ws := refWeights(g, ts)
		n := last.k
		if len(g) < n {
			n = len(g)
		}
		total += n
		cnt := 0
		for i, s := range g {
			o2, in := got[tagsKey(s.tags)]
			if !in {
				continue
			}
			cnt++
			for j, v := range s.vals[ts.StartX:] {
				if !near(v, o2.vals[j]) {
					bad = true
				}
			}
			for k2, s2 := range g {
				if _, in2 := got[tagsKey(s2.tags)]; in2 {
					continue
				}
				if (isDesc(last.op) && ws[k2] > ws[i]+tol) || (!isDesc(last.op) && ws[k2] < ws[i]-tol) {
					bad = true
				}
			}
		}
		if cnt != n {
			bad = true
		}
	}
	if total != len(ur.series) {
		bad = true
	}
	if bad {
		o.Fail(topName, line, input)
	}
}

func refWeights(g []srs, ts data_model.Timescale) []float64 {
	steps := pointSteps(ts)
	ws := make([]float64, len(g))
	allND := true
	for i, s := range g {
		prev := -math.MaxFloat64
		for j := ts.ViewStartX; j < ts.ViewEndX; j++ {
			v := s.vals[j]
			if isNaN(v) {
				continue
			}
			ws[i] += v * v * float64(steps[j])
			if v < prev {
				allND = false
			}
			prev = v
		}
	}
	if allND {
		for i, s := range g {
			ws[i] = -math.MaxFloat64
			for j := ts.ViewEndX; j > 0; j-- {
				if !isNaN(s.vals[j-1]) {
					ws[i] = s.vals[j-1]
					break
				}
			}
		}
	}
	return ws
}

// ---------------------------------------------------------------- recorded findings: minimal witnesses, replayed every run

func witnessWorld(counter bool, series ...rawSeries) *world {
	step := int64(60)
	start := int64(1700000000) / 3600 * 3600
	w := &world{start: start, end: start + 3*step, step: step, now: start + 4*step, counter: counter}
	w.st = &stub{metric: newMetric(counter), data: series}
	w.ng = promql.NewEngine(time.UTC, 0)
	return w
}

func constSeries(a, b int64, ev ...int64) rawSeries {
	rs := rawSeries{tags: [nTags]int64{0, a, b}}
	start := int64(1700000000) / 3600 * 3600
	for i := int64(-prePad); i < 6; i++ {
		rs.times = append(rs.times, start+i*60)
		rs.evs = append(rs.evs, ev)
	}
	return rs
}

func witnesses(o *vu.Out) {
	differ := func(w *world, reducedQ, plainQ string) string {
		a, b := w.run(reducedQ), w.run(plainQ)
		if !a.ok || !b.ok {
			return "error"
		}
		if sameSets(a.series, b.series) {
			return "gone"
		}
		return "reproduced"
	}
	two := func() *world { return witnessWorld(false, constSeries(1, 1, 1, 1, 1), constSeries(2, 1, 5)) }
	// F-C27a: sum(m) on a value metric: "sumsec" is computed by the rule but the storage is asked for the default avg
	o.Finding("F-C27a", differ(two(), `max(m{__what__="min"})`, `max(m{__what__="min",__by__="0,1,2"})`))
	// F-C27c: avg pushdown = sum/count of the merged rows, engine = mean of the per-series averages
	o.Finding("F-C27c", differ(two(), `avg(m{__what__="avg"})`, `avg(m{__what__="avg",__by__="0,1,2"})`))
	// F-C27d: count pushdown = events per second, engine count() = number of series
	o.Finding("F-C27d", differ(two(), `count(m{__what__="countsec"})`, `count(m{__what__="countsec",__by__="0,1,2"})`))
	// F-C27e: sum_over_time with range < step: storage value scaled by range/step, engine: no window at all
	o.Finding("F-C27e", differ(two(), `sum_over_time(m{__what__="sum"}[20s])`, `sum_over_time(m{__what__="sum",__by__="0,1,2"}[20s])`))
	// F-C27f: stdvar_over_time pushdown = sample variance of the events, engine = population variance of the points
	o.Finding("F-C27f", differ(witnessWorld(false, constSeries(1, 1, 1, 3)), `stdvar_over_time(m{__what__="stdvar"}[60s])`, `stdvar_over_time(m{__what__="stdvar",__by__="0,1,2"}[60s])`))
	// F-C27b: quantile with a missing point: series 2 has no row in the second slot
	w := witnessWorld(false, constSeries(1, 1, 3), constSeries(2, 1, 7))
	for i := range w.st.data[1].evs {
		if i%2 == 1 {
			w.st.data[1].evs[i] = nil
		}
	}
	r := w.run(`quantile(0, m{__by__="0,1,2"})`)
	out := "error"
	if r.ok && len(r.series) == 1 {
		out = "gone"
		for _, v := range r.series[0].vals {
			if isNaN(v) { // the definition gives 3 (the only present point), the code gives NaN
				out = "reproduced"
			}
		}
	}
	o.Finding("F-C27b", out)
	// F-C27g: present_over_time: a missing point one step after a present one (inside the range) must be 1
	w = witnessWorld(false, constSeries(1, 1, 3))
	for i := range w.st.data[0].evs {
		if i%2 == 1 {
			w.st.data[0].evs[i] = nil
		}
	}
	r = w.run(`present_over_time(m{__by__="0,1,2"}[60s])`)
	out = "error"
	if r.ok && len(r.series) == 1 {
		out = "gone"
		for _, v := range r.series[0].vals {
			if isNaN(v) {
				out = "reproduced"
			}
		}
	}
	o.Finding("F-C27g", out)
}

var verbose bool

func main() {
	flag.BoolVar(&verbose, "v", false, "")
	seed := flag.Uint64("seed", 1, "")
	n := flag.Int("n", 800, "")
	out := flag.String("out", "", "")
	flag.Parse()
	r := vu.NewRng(*seed)
	o := vu.NewOut(*out)
	defer o.Close()
	witnesses(o)
	var w *world
	for i := 0; i < *n; i++ {
		if i%6 == 0 {
			w = genWorld(r)
		}
		e := genExpr(r, w.step, w.coarse)
		if r.Chance(20) {
			e.by = true
			switch r.Intn(4) {
			case 0, 1:
				e.byG = []int{0, 1, 2}
			case 2:
				e.byG = []int{} // __by__=""
			default:
				for g := 0; g < nTags; g++ {
					if r.Chance(50) {
						e.byG = append(e.byG, g)
					}
				}
				if e.byG == nil {
					e.byG = []int{}
				}
			}
		}
		doCase(o, w, e, fmt.Sprintf("#%d", i))
	}
}
