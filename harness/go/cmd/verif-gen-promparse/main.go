//go:build verif

// Translator for C28: dumps the tables of internal/promql/parser that the Coq model uses as data —
// the lexer's keyword table (lex.go: key), the operator spellings used by the printer (ItemTypeStr via
// ItemType.String), the set of aggregators that take a parameter, and the names of the known functions.
package main

import (
	"flag"
	"fmt"
	"os"
	"sort"
	"strings"

	"github.com/VKCOM/statshouse/internal/promql/parser"
)

var binops = []struct {
	t parser.ItemType
	c string
}{
	{parser.ADD, "OAdd"}, {parser.SUB, "OSub"}, {parser.MUL, "OMul"}, {parser.DIV, "ODiv"}, {parser.MOD, "OMod"},
	{parser.POW, "OPow"}, {parser.ATAN2, "OAtan2"}, {parser.EQLC, "OEqlc"}, {parser.NEQ, "ONeq"}, {parser.LTE, "OLte"},
	{parser.LSS, "OLss"}, {parser.GTE, "OGte"}, {parser.GTR, "OGtr"}, {parser.LAND, "OAnd"}, {parser.LOR, "OOr"},
	{parser.LUNLESS, "OUnless"}, {parser.LDEFAULT, "ODefault"},
}
var aggops = []struct {
	t parser.ItemType
	c string
}{
	{parser.AVG, "AAvg"}, {parser.BOTTOMK, "ABottomk"}, {parser.COUNT, "ACount"}, {parser.COUNT_VALUES, "ACountValues"},
	{parser.DROP_EMPTY_SERIES, "ADropEmpty"}, {parser.GROUP, "AGroup"}, {parser.MAX, "AMax"}, {parser.MIN, "AMin"},
	{parser.QUANTILE, "AQuantile"}, {parser.STDDEV, "AStddev"}, {parser.STDVAR, "AStdvar"}, {parser.SUM, "ASum"},
	{parser.TOPK, "ATopk"}, {parser.SORT, "ASort"}, {parser.SORT_DESC, "ASortDesc"}, {parser.AGGREGATE, "ADbag"},
}
var kws = []struct {
	t parser.ItemType
	c string
}{
	{parser.BOOL, "KBool"}, {parser.BY, "KBy"}, {parser.GROUP_LEFT, "KGroupLeft"}, {parser.GROUP_RIGHT, "KGroupRight"},
	{parser.IGNORING, "KIgnoring"}, {parser.OFFSET, "KOffset"}, {parser.ON, "KOn"}, {parser.WITHOUT, "KWithout"},
	{parser.START, "KStart"}, {parser.END, "KEnd"},
}

func q(s string) string { return "\"" + strings.ReplaceAll(s, "\"", "\"\"") + "\"" }

func main() {
	out := flag.String("out", "", "")
	flag.Parse()
	class := map[parser.ItemType]string{}
	for _, b := range binops {
		class[b.t] = "WOp " + b.c
	}
	for _, a := range aggops {
		if !a.t.IsAggregator() {
			panic("not an aggregator: " + a.c)
		}
		class[a.t] = "WAgg " + a.c
	}
	for _, k := range kws {
		class[k.t] = "WKw " + k.c
	}
	var sb strings.Builder
	sb.WriteString("(* GENERATED on every run by harness/go/cmd/verif-gen-promparse from /repo/internal/promql/parser — do not edit *)\n")
	sb.WriteString("From Coq Require Import List String.\nFrom SH Require Import PromParse.Syntax.\nImport ListNotations.\nOpen Scope string_scope.\n\n")
	keys := parser.VerifKeywords()
	words := make([]string, 0, len(keys))
	for w := range keys {
		words = append(words, w)
	}
	sort.Strings(words)
	sb.WriteString("(* lex.go: key (lower-case word -> item type); inf/nan are NUMBER *)\nDefinition keywords : list (string * wordclass) := [\n")
	for i, w := range words {
		t := keys[w]
		c, ok := class[t]
		if t == parser.NUMBER {
			switch w {
			case "inf":
				c, ok = "WInf", true
			case "nan":
				c, ok = "WNaN", true
			}
		}
		if !ok {
			panic(fmt.Sprintf("keyword %q has an item type the model does not know: %v", w, t))
		}
		sep := ";"
		if i == len(words)-1 {
			sep = ""
		}
		fmt.Fprintf(&sb, "  (%s, %s)%s\n", q(w), c, sep)
	}
	sb.WriteString("].\n\n(* ItemType.String() of every binary operator (printer.go: BinaryExpr.String) *)\nDefinition binop_str (o : binop) : string :=\n  match o with\n")
	for _, b := range binops {
		if !b.t.IsOperator() {
			panic("not an operator: " + b.c)
		}
		fmt.Fprintf(&sb, "  | %s => %s\n", b.c, q(b.t.String()))
	}
	sb.WriteString("  end.\n\n(* ItemType.String() of every aggregator (printer.go: getAggOpStr) *)\nDefinition aggop_str (a : aggop) : string :=\n  match a with\n")
	for _, a := range aggops {
		fmt.Fprintf(&sb, "  | %s => %s\n", a.c, q(a.t.String()))
	}
	sb.WriteString("  end.\n\n(* lex.go: IsAggregatorWithParam *)\nDefinition agg_with_param (a : aggop) : bool :=\n  match a with\n")
	for _, a := range aggops {
		fmt.Fprintf(&sb, "  | %s => %v\n", a.c, a.t.IsAggregatorWithParam())
	}
	sb.WriteString("  end.\n\n(* functions.go: Functions (map key, and the Name the printer prints) *)\nDefinition functions : list (string * string) := [\n")
	fns := make([]string, 0, len(parser.Functions))
	for k := range parser.Functions {
		fns = append(fns, k)
	}
	sort.Strings(fns)
	for i, k := range fns {
		sep := ";"
		if i == len(fns)-1 {
			sep = ""
		}
		fmt.Fprintf(&sb, "  (%s, %s)%s\n", q(k), q(parser.Functions[k].Name), sep)
	}
	sb.WriteString("].\n")
	if err := os.WriteFile(*out, []byte(sb.String()), 0o644); err != nil {
		panic(err)
	}
}
