//go:build verif

// Correspondence harness for C18 (fsbinlog): drives the real fsbinlog writer and reader on gofs' in-memory file system
// through a recording engine and prints whole histories (appended bodies, produced files, returned offsets, commits,
// replays of the untouched / truncated / bit-flipped image) as cases for FsBinlog/Corr.v.  The property's clauses are
// evaluated here as oracles on the implementation's own outputs, independently of the model.
package main

import (
	"encoding/binary"
	"errors"
	"flag"
	"fmt"
	"hash/crc32"
	"math/rand"
	"sort"
	"strings"
	"sync"
	"time"

	"github.com/myxo/gofs"

	vu "github.com/VKCOM/statshouse/internal/verifutil"
	"github.com/VKCOM/statshouse/internal/vkgo/binlog"
	"github.com/VKCOM/statshouse/internal/vkgo/binlog/fsbinlog"
)

const (
	userMagic   = uint32(0x5aa5c33c) // Hamming distance >= 9 from every system lev magic
	schemaMagic = uint32(12345)
	mCrc        = uint32(0x04435243)
	mRotFrom    = uint32(0x04724cd2)
	mRotTo      = uint32(0x04464c72)
	mStart      = uint32(0x044c644b)
	hdrLen      = 44
	prefix      = "/tmp/bl"
)

// ---------------- recording engine ----------------
type rev struct {
	kind byte // 'A' apply, 'S' skip
	off  int64
	n    int64
	body []byte
}
type rcommit struct {
	pos     int64
	meta    []byte
	written int64
	// power loss at the moment of this Commit (gofs dirty-page tracking): lowest global position of a byte that was
	// written but not fsync'ed (-1: none) and the image with those ranges garbled
	dirtyAt int64
	crash   []nfile
}
type engine struct {
	mu      sync.Mutex
	off     int64
	evs     []rev
	commits []rcommit
	ready   chan struct{}
	once    sync.Once
	fs      gofs.FS
	track   *gofs.InMemoryFS // dirty-page tracking on: simulate loss of un-fsync'ed ranges at every Commit
	cond    *sync.Cond
}

func newEngine(off int64, fs gofs.FS) *engine {
	e := &engine{off: off, ready: make(chan struct{}), fs: fs}
	e.cond = sync.NewCond(&e.mu)
	return e
}
func pad4(n int64) int64 { return (n + 3) / 4 * 4 }

func (e *engine) Apply(p []byte) (int64, error) {
	e.mu.Lock()
	defer e.mu.Unlock()
	if len(p) < 4 {
		return e.off, binlog.ErrorNotEnoughData
	}
	if binary.LittleEndian.Uint32(p) != userMagic {
		return e.off, binlog.ErrorUnknownMagic
	}
	if len(p) < 8 {
		return e.off, binlog.ErrorNotEnoughData
	}
	n := int64(binary.LittleEndian.Uint32(p[4:]))
	if int64(len(p))-8 < n {
		return e.off, binlog.ErrorNotEnoughData
	}
	e.evs = append(e.evs, rev{kind: 'A', off: e.off, body: append([]byte(nil), p[8:8+n]...)})
	e.off += pad4(8 + n)
	return e.off, nil
}
func (e *engine) Skip(n int64) (int64, error) {
	e.mu.Lock()
	defer e.mu.Unlock()
	e.evs = append(e.evs, rev{kind: 'S', off: e.off, n: n})
	e.off += n
	return e.off, nil
}
func (e *engine) Commit(off int64, meta []byte, safe int64) error {
	var written int64 = -1
	if e.fs != nil {
		written = totalBytes(e.fs)
	}
	rc := rcommit{pos: off, meta: append([]byte(nil), meta...), written: written, dirtyAt: -1}
	if e.track != nil {
		// Commit is called by the writer goroutine, nothing writes to the files meanwhile.  Garble one byte in every
		// range that was written but not fsync'ed (that is all gofs offers), record what changed, and undo it.
		before := listFiles(e.track)
		e.track.CorruptDirtyPages(rand.New(rand.NewSource(1)))
		after := listFiles2(e.track, before)
		for fi := range before {
			for i := range before[fi].data {
				if i < len(after[fi].data) && before[fi].data[i] != after[fi].data[i] {
					if g := before[fi].start + int64(i); rc.dirtyAt < 0 || g < rc.dirtyAt {
						rc.dirtyAt = g
					}
					for k := 0; k < 255; k++ { // buff[i]++ 255 more times restores the byte
						_ = e.track.CorruptFile(before[fi].name, int64(i))
					}
				}
			}
		}
		if rc.dirtyAt >= 0 {
			rc.crash = after
		}
	}
	e.mu.Lock()
	e.commits = append(e.commits, rc)
	e.mu.Unlock()
	e.cond.Broadcast()
	return nil
}
func (e *engine) Revert(int64) (bool, error) { return false, nil }
func (e *engine) ChangeRole(i binlog.ChangeRoleInfo) error {
	if i.IsReady {
		e.once.Do(func() { close(e.ready) })
	}
	return nil
}
func (e *engine) StartReindex(binlog.ReindexOperator) {}
func (e *engine) Split(int64, string) bool            { return false }
func (e *engine) Shutdown()                           {}
func (e *engine) waitCommit(pos int64) {
	e.mu.Lock()
	for len(e.commits) == 0 || e.commits[len(e.commits)-1].pos < pos {
		e.cond.Wait()
	}
	e.mu.Unlock()
}

type nfile struct {
	name  string
	start int64
	data  []byte
}

func listFiles(fs gofs.FS) []nfile {
	ents, err := fs.ReadDir("/tmp")
	if err != nil {
		panic(err)
	}
	var out []nfile
	for _, en := range ents {
		if !strings.HasPrefix(en.Name(), "bl") {
			continue
		}
		d, err := fs.ReadFile("/tmp/" + en.Name())
		if err != nil {
			panic(err)
		}
		f := nfile{name: "/tmp/" + en.Name(), data: d}
		if len(d) >= 36 && binary.LittleEndian.Uint32(d) == mRotFrom {
			f.start = int64(binary.LittleEndian.Uint64(d[8:]))
		}
		out = append(out, f)
	}
	sort.SliceStable(out, func(i, j int) bool { return out[i].start < out[j].start })
	return out
}
// listFiles2 re-reads the files of a previous listing (same order, same start positions).
func listFiles2(fs gofs.FS, ref []nfile) []nfile {
	out := make([]nfile, len(ref))
	for i, f := range ref {
		d, err := fs.ReadFile(f.name)
		if err != nil {
			panic(err)
		}
		out[i] = nfile{name: f.name, start: f.start, data: d}
	}
	return out
}
func totalBytes(fs gofs.FS) int64 {
	ents, err := fs.ReadDir("/tmp")
	if err != nil {
		return -1
	}
	var t int64
	for _, en := range ents {
		if strings.HasPrefix(en.Name(), "bl") {
			if fi, err := fs.Stat("/tmp/" + en.Name()); err == nil {
				t += fi.Size()
			}
		}
	}
	return t
}

// ---------------- replay of an image ----------------
type robs struct {
	evs     []rev
	commits []rcommit
	err     int
	errText string
	pos     int64
	crc     uint32
}

func classify(err error) int {
	if err == nil {
		return 0
	}
	s := err.Error()
	switch {
	case strings.Contains(s, "crc32 mismatch"):
		return 1
	case errors.Is(err, binlog.ErrorUnknownMagic):
		return 2
	case strings.Contains(s, "Engine.Skip return new position"):
		return 3
	case strings.Contains(s, "magicKfsBinlogZipMagic"):
		return 4
	case strings.Contains(s, "magicLevSetPersistentConfigArray"):
		return 5
	case strings.Contains(s, "cannot seek"):
		return 7
	case strings.Contains(s, "tryed to seek"):
		return 8
	case strings.Contains(s, "start offset position is lesser"):
		return 9
	case strings.Contains(s, "apply lev: new position"), strings.Contains(s, "engine declared to read"), strings.Contains(s, "didnt read any bytes"):
		return 10
	case strings.Contains(s, "failed to scan directory"):
		return 11
	case strings.Contains(s, "cannot start from offset"):
		return 12
	case strings.Contains(s, "binlog not found"):
		return 13
	}
	return 99
}

func replay(files []nfile, from int64, meta []byte) (o robs) {
	fs := gofs.NewMemoryFs()
	_ = fs.TempDir()
	for _, f := range files {
		if err := fs.WriteFile(f.name, f.data, 0o640); err != nil {
			panic(err)
		}
	}
	bl, _ := fsbinlog.NewFsBinlog(nil, fsbinlog.Options{PrefixPath: prefix, Magic: schemaMagic, Fs: fs, ReadAndExit: true})
	e := newEngine(from, nil)
	func() {
		defer func() {
			if r := recover(); r != nil {
				o.err = 16
				o.errText = fmt.Sprint(r)
			}
		}()
		pi, err := bl.ReadAll(from, meta, e)
		o.err = classify(err)
		if err != nil {
			o.errText = err.Error()
		}
		o.pos, o.crc = pi.Offset, pi.Crc
	}()
	o.evs, o.commits = e.evs, e.commits
	return o
}

// replayFastCommits replays like replay() but through the in-package accessor with a 1 ns commit interval: the reader's
// commit timer fires in every loop iteration, so it issues a Commit after (almost) every record.
func replayFastCommits(files []nfile, from int64, meta []byte) (o robs) {
	fs := gofs.NewMemoryFs()
	_ = fs.TempDir()
	for _, f := range files {
		if err := fs.WriteFile(f.name, f.data, 0o640); err != nil {
			panic(err)
		}
	}
	e := newEngine(from, nil)
	func() {
		defer func() {
			if r := recover(); r != nil {
				o.err = 16
				o.errText = fmt.Sprint(r)
			}
		}()
		pos, crc, err := fsbinlog.VerifReadAllWithCommitInterval(fs, prefix, schemaMagic, from, meta, e, time.Nanosecond)
		o.err = classify(err)
		if err != nil {
			o.errText = err.Error()
		}
		o.pos, o.crc = pos, crc
	}()
	o.evs, o.commits = e.evs, e.commits
	return o
}

func mkMeta(pos int64, crc uint32, ts uint32) []byte {
	b := make([]byte, 24)
	binary.LittleEndian.PutUint32(b, 0x6b49d850)
	binary.LittleEndian.PutUint64(b[8:], uint64(pos))
	binary.LittleEndian.PutUint32(b[16:], crc)
	binary.LittleEndian.PutUint32(b[20:], ts)
	return b
}
func parseMeta(b []byte) (int64, uint32, uint32, bool) {
	if len(b) != 24 || binary.LittleEndian.Uint32(b) != 0x6b49d850 {
		return 0, 0, 0, false
	}
	return int64(binary.LittleEndian.Uint64(b[8:])), binary.LittleEndian.Uint32(b[16:]), binary.LittleEndian.Uint32(b[20:]), true
}

// ---------------- printing ----------------
func segs(b []byte) string {
	var sb strings.Builder
	sb.WriteString("[")
	first := true
	sep := func() {
		if !first {
			sb.WriteString(";")
		}
		first = false
	}
	i := 0
	var lit []byte
	flush := func() {
		if len(lit) > 0 {
			sep()
			sb.WriteString("L[")
			for k, x := range lit {
				if k > 0 {
					sb.WriteString(";")
				}
				fmt.Fprintf(&sb, "x%02x", x)
			}
			sb.WriteString("]")
			lit = lit[:0]
		}
	}
	for i < len(b) {
		j := i
		for j < len(b) && b[j] == b[i] {
			j++
		}
		if j-i >= 8 {
			flush()
			sep()
			fmt.Fprintf(&sb, "R %d x%02x", j-i, b[i])
		} else {
			lit = append(lit, b[i:j]...)
		}
		i = j
	}
	flush()
	sb.WriteString("]")
	return sb.String()
}

type op struct {
	framed  bool
	payload []byte
	asap    bool
	wait    bool
}

func frame(p []byte) []byte {
	b := make([]byte, 8, 8+len(p))
	binary.LittleEndian.PutUint32(b, userMagic)
	binary.LittleEndian.PutUint32(b[4:], uint32(len(p)))
	return append(b, p...)
}

func genPayload(r *vu.Rng, n int) []byte {
	p := make([]byte, n)
	switch r.Intn(4) {
	case 0: // short random
		if n > 24 {
			n = r.Intn(24)
			p = p[:n]
		}
		for i := range p {
			p[i] = byte(r.U64())
		}
	default: // 1-3 runs
		k := 1 + r.Intn(3)
		for s := 0; s < k; s++ {
			c := byte('a' + r.Intn(26))
			for i := s * n / k; i < (s+1)*n/k; i++ {
				p[i] = c
			}
		}
	}
	return p
}

type modif struct {
	kind     int // 0 none, 1 trunc, 2 flip
	k        int64
	fi, i, b int
}

func (m modif) coq() string {
	switch m.kind {
	case 1:
		return fmt.Sprintf("(MTrunc %d)", m.k)
	case 2:
		return fmt.Sprintf("(MFlip %d %d %d)", m.fi, m.i, m.b)
	}
	return "MNone"
}
func (m modif) text() string {
	switch m.kind {
	case 1:
		return fmt.Sprintf("trunc@%d", m.k)
	case 2:
		return fmt.Sprintf("flip file%d byte%d bit%d", m.fi, m.i, m.b)
	}
	return "intact"
}
func applyModif(files []nfile, m modif) []nfile {
	var out []nfile
	switch m.kind {
	case 0:
		return files
	case 1:
		for _, f := range files {
			if m.k <= f.start {
				break
			}
			n := m.k - f.start
			if n > int64(len(f.data)) {
				n = int64(len(f.data))
			}
			out = append(out, nfile{f.name, f.start, f.data[:n]})
		}
	case 2:
		for idx, f := range files {
			if idx == m.fi {
				d := append([]byte(nil), f.data...)
				d[m.i] ^= 1 << m.b
				f = nfile{f.name, f.start, d}
			}
			out = append(out, f)
		}
	}
	return out
}

func main() {
	seed := flag.Uint64("seed", 1, "")
	n := flag.Int("n", 120, "number of small histories")
	nbig := flag.Int("big", 4, "number of histories > 64 KiB (crc levs)")
	flips := flag.Int("flips", 2000, "bit flips per big history evaluated by the oracles")
	out := flag.String("out", "", "")
	flag.Parse()
	r := vu.NewRng(*seed)
	o := vu.NewOut(*out)
	defer o.Close()
	witnesses(o)
	for h := 0; h < *n+*nbig; h++ {
		runHistory(r, o, h, h >= *n, *flips, h-*n)
	}
}

type boundary struct {
	pos int64
	crc uint32
}

func runHistory(r *vu.Rng, o *vu.Out, hid int, big bool, nflips int, bigNo int) {
	// ---- generate
	var ops []op
	var chunk uint32
	alien := false
	if !big {
		nops := 1 + r.Intn(30)
		maxp := []int{0, 5, 40, 120, 400}[r.Intn(5)]
		chunk = uint32([]int{1, 60, 100, 200, 400, 800, 2000, 100000}[r.Intn(8)])
		for i := 0; i < nops; i++ {
			ops = append(ops, op{framed: true, payload: genPayload(r, r.Intn(maxp+1)), asap: r.Chance(25), wait: r.Chance(10)})
		}
		if r.Chance(6) {
			alien = true
			b := make([]byte, 4+r.Intn(9))
			binary.LittleEndian.PutUint32(b, 0x11223344)
			ops = append(ops, op{framed: false, payload: b})
		}
	} else {
		nops := 4 + r.Intn(24)
		total := 66000 + r.Intn(90000)
		bidx := bigNo % 5 // the first big history of a run has one chunk and crosses 64 KiB exactly
		chunk = uint32([]int{1 << 30, 30000, 1 << 30, 70000, 20000}[bidx])
		for i := 0; i < nops; i++ {
			sz := total / nops
			switch r.Intn(4) {
			case 0:
				sz = r.Intn(50)
			case 1:
				sz = sz * 2
			}
			ops = append(ops, op{framed: true, payload: genPayload(r, 25+sz), asap: r.Chance(20), wait: r.Chance(10)})
		}
		// boundary-directed: make the log cross 64 KiB after the header by exactly -4, 0, +4 in some histories
		if chunk == 1<<30 {
			acc := 0
			for i := range ops {
				l := int(pad4(int64(8 + len(ops[i].payload))))
				if acc+l >= 65536 {
					want := 65536 - acc + []int{0, 0, 4, 0, -4}[bidx]
					if want >= 8 {
						ops[i].payload = genPayload(r, want-8)
						if len(ops[i].payload) != want-8 {
							ops[i].payload = make([]byte, want-8)
						}
					}
					break
				}
				acc += l
			}
		}
	}

	// ---- run the real writer
	fs := gofs.NewThreadSafeMemoryFs()
	fs.TrackDirtyPages()
	_ = fs.TempDir()
	zero := time.Duration(0)
	opts := fsbinlog.Options{PrefixPath: prefix, Magic: schemaMagic, Fs: fs, MaxChunkSize: chunk, WriteCallDelay: &zero}
	if _, err := fsbinlog.CreateEmptyFsBinlog(opts); err != nil {
		panic(err)
	}
	bl, _ := fsbinlog.NewFsBinlog(nil, opts)
	eng := newEngine(0, fs)
	eng.track = fs
	done := make(chan error, 1)
	go func() { done <- bl.Run(0, nil, nil, eng) }()
	<-eng.ready
	eng.mu.Lock()
	off := eng.off
	eng.mu.Unlock()
	if off != hdrLen {
		panic(fmt.Sprintf("unexpected header length %d", off))
	}
	var offs []int64
	var badoff []string
	for i, p := range ops {
		body := p.payload
		if p.framed {
			body = frame(p.payload)
		}
		if i == len(ops)/2 { // an Append at a wrong offset must be refused and change nothing
			d := []int64{-4, 4, 1, -off}[r.Intn(4)]
			_, err := bl.Append(off+d, body)
			badoff = append(badoff, fmt.Sprintf("(%s,%s)", vu.Z(off+d), vu.B(err == nil)))
			if err == nil {
				o.Fail("append_wrong_offset_refused", o.N, fmt.Sprintf("hist#%d Append at %d accepted, expected offset %d", hid, off+d, off))
			}
		}
		var err error
		var noff int64
		if p.asap {
			noff, err = bl.AppendASAP(off, body)
		} else {
			noff, err = bl.Append(off, body)
		}
		if err != nil {
			panic(err)
		}
		off = noff
		offs = append(offs, off)
		if p.asap && p.wait {
			eng.waitCommit(off)
		}
	}
	bl.RequestShutdown()
	if err := <-done; err != nil {
		panic(err)
	}
	files := listFiles(fs)
	var stream []byte // the global byte stream
	for _, f := range files {
		if f.start != int64(len(stream)) {
			// the chunk files do not tile the offset space: no reader can deliver the events at the returned offsets
			ob := replay(files, 0, nil)
			o.Fail("replay_exact", o.N, fmt.Sprintf("hist#%d chunk=%d ops=%d sizes=%s: chunk %s claims position %d but %d bytes precede it; replay err=%d(%s)", hid, chunk, len(ops), sizesText(ops), f.name, f.start, len(stream), ob.err, ob.errText))
			return
		}
		stream = append(stream, f.data...)
	}
	total := int64(len(stream))
	wcommits := eng.commits

	// ---- uninterpreted inputs of the model, read back from the stream: timestamps and file hashes
	starts := append([]int64{hdrLen}, offs...)
	auxs := make([]string, len(ops))
	nrot, ncrc := 0, 0
	var crcPos []int64 // global positions of levCrc32 records
	var rotToPos []int64
	for i, p := range ops {
		bl := int64(len(p.payload))
		if p.framed {
			bl += 8
		}
		q := starts[i] + pad4(bl)
		var tsc, tsr uint32
		var h1, h2 uint64
		if q+20 <= starts[i+1] && binary.LittleEndian.Uint32(stream[q:]) == mCrc {
			tsc = binary.LittleEndian.Uint32(stream[q+4:])
			crcPos = append(crcPos, q)
			ncrc++
			q += 20
		}
		if q+72 <= starts[i+1] && binary.LittleEndian.Uint32(stream[q:]) == mRotTo {
			tsr = binary.LittleEndian.Uint32(stream[q+4:])
			h1 = binary.LittleEndian.Uint64(stream[q+20:])
			h2 = binary.LittleEndian.Uint64(stream[q+28:])
			rotToPos = append(rotToPos, q)
			nrot++
		}
		auxs[i] = fmt.Sprintf("(%s,%s,(%d,%d,%d,%d))", vu.B(p.framed), segs(p.payload), tsc, tsr, h1, h2)
	}
	if nrot != len(files)-1 {
		panic("rotation count does not match file count")
	}
	bounds := map[int64]uint32{}
	for _, s := range starts {
		bounds[s] = crc32.ChecksumIEEE(stream[:s])
	}

	desc := fmt.Sprintf("hist#%d chunk=%d ops=%d bytes=%d files=%d crclevs=%d alien=%v sizes=%s", hid, chunk, len(ops), total, len(files), ncrc, alien, sizesText(ops))
	line := o.N

	// ---- oracle: commit notifications are monotone and never exceed the bytes written (and carry the right crc)
	prev := int64(-1)
	var commitTerms []string
	for _, c := range wcommits {
		if c.pos < prev {
			o.Fail("commit_monotone", line, fmt.Sprintf("%s commit %d after %d", desc, c.pos, prev))
		}
		prev = c.pos
		if c.written >= 0 && c.pos > c.written {
			o.Fail("commit_le_written", line, fmt.Sprintf("%s commit %d but only %d bytes in files", desc, c.pos, c.written))
		}
		mp, mc, _, okm := parseMeta(c.meta)
		bc, isb := bounds[c.pos]
		if !okm || mp != c.pos || !isb || bc != mc {
			o.Fail("commit_meta_matches_stream", line, fmt.Sprintf("%s commit %d meta=%x", desc, c.pos, c.meta))
		}
		commitTerms = append(commitTerms, fmt.Sprintf("(%d,%d)", c.pos, mc))
	}
	if len(wcommits) == 0 || wcommits[len(wcommits)-1].pos != total {
		o.Fail("final_commit_covers_all", line, desc)
	}

	// expected events
	type exp struct {
		off  int64
		end  int64
		body []byte
	}
	var expected []exp
	for i, p := range ops {
		if !p.framed {
			break
		}
		expected = append(expected, exp{starts[i], starts[i] + pad4(int64(8+len(p.payload))), p.payload})
	}
	applies := func(ob robs) []rev {
		var a []rev
		for _, e := range ob.evs {
			if e.kind == 'A' {
				a = append(a, e)
			}
		}
		return a
	}
	// checks that the applies are exactly expected[lo:hi]
	sameEvents := func(a []rev, lo, hi int) bool {
		if len(a) != hi-lo {
			return false
		}
		for i, e := range a {
			if e.off != expected[lo+i].off || string(e.body) != string(expected[lo+i].body) {
				return false
			}
		}
		return true
	}
	wantErr := 0
	if alien {
		wantErr = 2
	}

	var rps []string
	addRP := func(m modif, from int64, meta []byte, ob robs) {
		var evs []string
		for _, e := range ob.evs {
			if e.kind == 'S' {
				evs = append(evs, fmt.Sprintf("OS %d %d", e.off, e.n))
				continue
			}
			idx := -1
			for i, x := range expected {
				if x.off == e.off && string(x.body) == string(e.body) {
					idx = i
					break
				}
			}
			if idx >= 0 {
				evs = append(evs, fmt.Sprintf("OA %d", idx))
			} else {
				evs = append(evs, fmt.Sprintf("OX %s %s", vu.Z(e.off), segs(e.body)))
			}
		}
		var cs []string
		for _, c := range ob.commits {
			p, cr, ts, _ := parseMeta(c.meta)
			cs = append(cs, fmt.Sprintf("(%d,%d,%d)", p, cr, ts))
		}
		ms := "None"
		if meta != nil {
			p, cr, ts, _ := parseMeta(meta)
			ms = fmt.Sprintf("(Some (%s,%d,%d))", vu.Z(p), cr, ts)
		}
		rps = append(rps, fmt.Sprintf("RP %s %s %s [%s] [%s] %d %s %d", m.coq(), vu.Z(from), ms, strings.Join(evs, ";"), strings.Join(cs, ";"), ob.err, vu.Z(ob.pos), ob.crc))
	}

	// ---- oracle: a Commit covers only fsync'ed bytes: power loss at the moment of any Commit(offset) (all written but
	// un-fsync'ed ranges garbled) must leave everything below the committed offset replayable
	for _, c := range wcommits {
		if c.dirtyAt < 0 {
			continue
		}
		o.Hist["commits_with_unsynced_ranges"]++
		ob := replay(c.crash, 0, nil)
		hi := 0
		for hi < len(expected) && expected[hi].end <= c.pos {
			hi++
		}
		a := applies(ob)
		okPrefix := len(a) >= hi && sameEvents(a[:hi], 0, hi)
		reachedCommit := ob.err == 0 || (len(ob.evs) > 0 && ob.evs[len(ob.evs)-1].off >= c.pos)
		if c.dirtyAt < c.pos || !okPrefix || !reachedCommit {
			o.Fail("commit_covers_only_fsynced_bytes", line, fmt.Sprintf("%s Commit(%d) while byte %d (and maybe more) was written but not fsync'ed; replay of the power-loss image: err=%d(%s) events=%d, %d committed", desc, c.pos, c.dirtyAt, ob.err, ob.errText, len(a), hi))
			break
		}
	}

	// ---- oracle: replay_exact (from 0 and from the end of the header)
	for _, from := range []int64{0, hdrLen} {
		ob := replay(files, from, nil)
		if ob.err != wantErr || !sameEvents(applies(ob), 0, len(expected)) || (ob.err == 0 && ob.pos != total) {
			o.Fail("replay_exact", line, fmt.Sprintf("%s from=%d err=%d(%s) events=%d/%d pos=%d", desc, from, ob.err, ob.errText, len(applies(ob)), len(expected), ob.pos))
		}
		if from == 0 || !big {
			addRP(modif{}, from, nil, ob)
		}
	}

	// ---- oracle: resume_suffix, from every committed position with its own meta, and from every returned offset
	// with the meta the writer would have produced there (and without meta)
	type resume struct {
		pos  int64
		meta []byte
	}
	var resumes []resume
	for _, c := range wcommits {
		resumes = append(resumes, resume{c.pos, c.meta})
	}
	if !big || len(starts) < 12 {
		for _, s := range starts {
			resumes = append(resumes, resume{s, mkMeta(s, bounds[s], 7)}, resume{s, nil})
		}
	}
	pick := map[int]bool{}
	for k := 0; k < 3 && len(resumes) > 0; k++ {
		pick[r.Intn(len(resumes))] = true
	}
	if big {
		pick = map[int]bool{r.Intn(len(resumes)): true}
	}
	for idx, rs := range resumes {
		lo := 0
		for lo < len(expected) && expected[lo].off < rs.pos {
			lo++
		}
		ob := replay(files, rs.pos, rs.meta)
		wantErr := wantErr
		if alien && rs.pos > starts[len(ops)-1] {
			wantErr = 0
		}
		if ob.err != wantErr || !sameEvents(applies(ob), lo, len(expected)) || (ob.err == 0 && ob.pos != total) {
			o.Fail("resume_suffix", line, fmt.Sprintf("%s resume@%d meta=%x err=%d(%s) events=%d want %d", desc, rs.pos, rs.meta, ob.err, ob.errText, len(applies(ob)), len(expected)-lo))
		}
		if pick[idx] {
			addRP(modif{}, rs.pos, rs.meta, ob)
		}
	}
	// ---- oracle: commits issued BY THE READER in the middle of a replay (commit timer): each carries the crc of the
	// stream up to its position, and resuming from it with its own meta delivers exactly the remaining suffix
	if !alien {
		fromR := []int64{0, starts[r.Intn(len(starts))]}[r.Intn(2)]
		fc := replayFastCommits(files, fromR, nil)
		if fc.err != 0 {
			o.Fail("replay_exact", line, fmt.Sprintf("%s replay from %d with 1ns reader commit interval: err=%d(%s)", desc, fromR, fc.err, fc.errText))
		}
		o.Hist["reader_timer_commits"] += len(fc.commits)
		seen := map[int64]bool{}
		var rcs []rcommit
		for _, c := range fc.commits {
			mp, mc, _, okm := parseMeta(c.meta)
			if !okm || mp != c.pos || c.pos < 0 || c.pos > total || crc32.ChecksumIEEE(stream[:c.pos]) != mc {
				o.Fail("reader_commit_meta_matches_stream", line, fmt.Sprintf("%s replay from %d: reader Commit(%d) meta=%x, stream crc at %d is %08x", desc, fromR, c.pos, c.meta, c.pos, crc32.ChecksumIEEE(stream[:max(0, min(c.pos, total))])))
				break
			}
			if !seen[c.pos] {
				seen[c.pos] = true
				rcs = append(rcs, c)
			}
		}
		nres := 6
		if big {
			nres = 3
		}
		for t := 0; t < nres && len(rcs) > 0; t++ {
			c := rcs[r.Intn(len(rcs))]
			lo := 0
			for lo < len(expected) && expected[lo].off < c.pos {
				lo++
			}
			ob := replay(files, c.pos, c.meta)
			if ob.err != 0 || !sameEvents(applies(ob), lo, len(expected)) || ob.pos != total {
				o.Fail("resume_from_reader_commit", line, fmt.Sprintf("%s resume@%d with the meta of the reader's own Commit meta=%x err=%d(%s) events=%d want %d", desc, c.pos, c.meta, ob.err, ob.errText, len(applies(ob)), len(expected)-lo))
				break
			}
			if t == 0 && !big {
				addRP(modif{}, c.pos, c.meta, ob)
			}
		}
	}

	// malformed resumes (correspondence only): wrong crc in the meta, meta ahead of the start offset, start inside an event,
	// start beyond the end
	if !big {
		s := starts[r.Intn(len(starts))]
		bad := []resume{{s, mkMeta(s, bounds[s]^1, 1)}, {s, mkMeta(s+4, bounds[s], 1)}, {s + 4, nil}, {total + 4, nil}, {s, mkMeta(starts[0], bounds[starts[0]], 9)}}
		b := bad[r.Intn(len(bad))]
		addRP(modif{}, b.pos, b.meta, replay(files, b.pos, b.meta))
	}

	// ---- oracle: truncation at k replays exactly the events that are complete before k, without error
	var ks []int64
	if !big && total <= 1200 {
		for k := int64(24); k <= total; k++ {
			ks = append(ks, k)
		}
	} else {
		for _, s := range starts {
			for d := int64(-5); d <= 5; d++ {
				ks = append(ks, s+d)
			}
		}
		for _, f := range files {
			for d := int64(-40); d <= 40; d++ {
				ks = append(ks, f.start+d)
			}
		}
		for i := 0; i < 200; i++ {
			ks = append(ks, int64(r.Intn(int(total))))
		}
	}
	pickT := map[int64]bool{}
	nt := 3
	if big {
		nt = 1
	}
	for i := 0; i < nt; i++ {
		switch r.Intn(3) {
		case 0:
			pickT[int64(24+r.Intn(int(total-23)))] = true
		case 1:
			f := files[r.Intn(len(files))]
			pickT[f.start+int64(r.Intn(44))-4] = true
		default:
			pickT[starts[r.Intn(len(starts))]+int64(r.Intn(13))-6] = true
		}
	}
	for _, k := range ks {
		if k < 24 || k > total {
			continue
		}
		m := modif{kind: 1, k: k}
		img := applyModif(files, m)
		ob := replay(img, 0, nil)
		hi := 0
		for hi < len(expected) && expected[hi].end <= k {
			hi++
		}
		we := 0
		if alien && hi == len(expected) && k >= starts[len(ops)-1]+4 {
			we = 2
		}
		partialHdr := false
		for _, f := range files[1:] {
			if k > f.start && k < f.start+36 {
				partialHdr = true
			}
		}
		okT := ob.err == we && sameEvents(applies(ob), 0, hi)
		if k < hdrLen {
			okT = ob.err == 0 && len(applies(ob)) == 0
		}
		if !okT {
			name := "truncated_yields_complete_prefix"
			if partialHdr {
				name = "truncated_in_chunk_header_yields_complete_prefix"
			}
			o.Fail(name, line, fmt.Sprintf("%s trunc@%d err=%d(%s) events=%d want %d", desc, k, ob.err, ob.errText, len(applies(ob)), hi))
		}
		if pickT[k] {
			addRP(m, 0, nil, ob)
			delete(pickT, k)
		}
	}

	// ---- oracle: reopen after truncation.  The log is cut at k (inside the last events or the system levs after them),
	// the binlog is started again AS A WRITING MASTER on it (replay, then append mode); either the start is refused or
	// whatever is appended replays exactly: the complete events before k, then the new events at the offsets Append
	// returned, never a partial event
	if !big && !alien {
		lo := starts[0]
		if len(starts) > 3 {
			lo = starts[len(starts)-3]
		}
		var rk []int64
		for k := lo; k <= total; k++ {
			rk = append(rk, k)
		}
		if len(rk) > 48 { // keep the boundaries and an even sample of the rest
			keep := map[int64]bool{total: true}
			for _, st := range starts {
				keep[st] = true
			}
			var sel []int64
			step := len(rk)/40 + 1
			off0 := r.Intn(step)
			for i, k := range rk {
				if keep[k] || (i+off0)%step == 0 {
					sel = append(sel, k)
				}
			}
			rk = sel
		}
		for _, k := range rk {
			img := applyModif(files, modif{kind: 1, k: k})
			news := [][]byte{genPayload(r, 1+r.Intn(20))}
			if r.Chance(50) {
				news = append(news, genPayload(r, r.Intn(70)))
			}
			ro := reopen(img, chunk, news)
			if !ro.started {
				o.Hist["reopen_refused"]++
				continue
			}
			o.Hist["reopen_started"]++
			hi := 0
			for hi < len(expected) && expected[hi].end <= k {
				hi++
			}
			bad := ro.appendErr
			tiles := true
			var n int64
			for _, f := range ro.files {
				if f.start != n {
					tiles = false
				}
				n += int64(len(f.data))
			}
			ob := replay(ro.files, 0, nil)
			a := applies(ob)
			if bad == "" && (!tiles || ob.err != 0 || len(a) != hi+len(news) || !sameEvents(a[:min(hi, len(a))], 0, min(hi, len(a)))) {
				bad = "replay differs"
			}
			if bad == "" {
				at := ro.startOff
				for i, p := range news {
					if a[hi+i].off != at || string(a[hi+i].body) != string(p) {
						bad = fmt.Sprintf("new event #%d delivered at %d, Append said %d", i, a[hi+i].off, at)
						break
					}
					at = ro.newOffs[i]
				}
				if bad == "" && ob.pos != at {
					bad = fmt.Sprintf("replay ends at %d, last Append returned %d", ob.pos, at)
				}
			}
			if bad != "" {
				o.Fail("reopen_after_truncation_never_yields_partial_event", line, fmt.Sprintf("%s trunc@%d then master restart (reader stopped at %d, %d bytes in files) + %d appends: %s; replay err=%d(%s) events=%d want %d+%d", desc, k, ro.startOff, k, len(news), bad, ob.err, ob.errText, len(a), hi, len(news)))
				break
			}
		}
	}

	// ---- oracle: a flipped bit in front of a checksum record is detected when that record is reached
	nfl := 40
	if big {
		nfl = nflips
	}
	pickF := 3
	if big {
		pickF = 2
	}
	fileOf := func(g int64) int {
		fi := 0
		for i, f := range files {
			if f.start <= g {
				fi = i
			}
		}
		return fi
	}
	for t := 0; t < nfl; t++ {
		var g int64
		switch r.Intn(6) {
		case 0: // around a file header
			f := files[r.Intn(len(files))]
			g = f.start + int64(r.Intn(40))
		case 1: // around an event start
			g = starts[r.Intn(len(starts))] + int64(r.Intn(12)) - 2
		case 2:
			if len(crcPos) > 0 {
				g = crcPos[r.Intn(len(crcPos))] + int64(r.Intn(24)) - 4
				break
			}
			fallthrough
		default:
			g = int64(r.Intn(int(total)))
		}
		if g < 0 || g >= total {
			continue
		}
		fi := fileOf(g)
		m := modif{kind: 2, fi: fi, i: int(g - files[fi].start), b: r.Intn(8)}
		img := applyModif(files, m)
		ob := replay(img, 0, nil)
		// first checksum record that starts after the flipped byte
		q, qrot := int64(-1), int64(-1)
		for _, c := range crcPos {
			if c > g {
				q = c
				break
			}
		}
		for _, c := range rotToPos {
			if c > g {
				qrot = c
				break
			}
		}
		// accepted = the engine was told to Skip the record itself (the reader verified and passed it);
		// beyond = some event behind the record was delivered.  A replay that stops earlier for any reason never
		// "reached" the record (the property only speaks about reaching it).
		passed := func(q int64, sz int64) (accepted bool, beyond bool) {
			for _, e := range ob.evs {
				if e.off == q && e.kind == 'S' && e.n == sz {
					accepted = true
				}
				if e.off > q {
					beyond = true
				}
			}
			return
		}
		// a flipped length field can make one (damaged) event swallow the following records, the checksum record
		// included: that record is never reached; the property then speaks about the next checksum record behind it
		swallowEnd := int64(-1)
		for _, e := range ob.evs {
			if e.kind == 'A' && e.off <= g {
				if end := e.off + pad4(int64(8+len(e.body))); (q >= 0 && e.off < q && q < end) || (qrot >= 0 && e.off < qrot && qrot < end) {
					swallowEnd = end
				}
			}
		}
		if swallowEnd >= 0 {
			o.Hist["flip_swallows_checksum_record"]++
			for _, q2 := range append(append([]int64{}, crcPos...), rotToPos...) {
				if q2 < swallowEnd {
					continue
				}
				sz := int64(20)
				if binary.LittleEndian.Uint32(stream[q2:]) == mRotTo {
					sz = 36
				}
				if acc, _ := passed(q2, sz); acc {
					o.Fail("flip_swallowing_checksum_record_detected_at_later_record", line, fmt.Sprintf("%s %s (global byte %d): a damaged event swallowed the checksum record; the later checksum record @%d was reached and accepted, err=%d(%s)", desc, m.text(), g, q2, ob.err, ob.errText))
					break
				}
			}
			q, qrot = -1, -1
		}
		if q >= 0 {
			sameFile := fileOf(q) == fi
			accepted, beyond := passed(q, 20)
			if accepted || beyond {
				name := "flip_detected_at_next_crc_record"
				if !sameFile {
					name = "flip_detected_at_next_crc_record_across_rotation"
				}
				o.Fail(name, line, fmt.Sprintf("%s %s (global byte %d) next levCrc32@%d err=%d(%s)", desc, m.text(), g, q, ob.err, ob.errText))
			}
			o.Hist["flip_before_crc"]++
		}
		if qrot >= 0 && (q < 0 || qrot < q) {
			// levRotateTo carries the running crc as well; the reader ignores it (finding F-C18a)
			accepted, beyond := passed(qrot, 36)
			if accepted || beyond {
				o.Fail("flip_detected_at_rotate_crc", line, fmt.Sprintf("%s %s (global byte %d) next levRotateTo@%d err=%d(%s)", desc, m.text(), g, qrot, ob.err, ob.errText))
			}
			o.Hist["flip_before_rotate"]++
		}
		if ob.err == 16 {
			o.Hist["flip_panics"]++
		}
		if t < pickF {
			addRP(m, 0, nil, ob)
		}
	}

	var fterms []string
	for _, f := range files {
		fterms = append(fterms, fmt.Sprintf("(%d,%s)", f.start, segs(f.data)))
	}
	term := fmt.Sprintf("CHist %d %d %d %s [%s] [%s] [%s] [%s] [%s] [%s]", chunk, userMagic, schemaMagic, segs(stream[:hdrLen]),
		strings.Join(auxs, ";"), joinZ(offs), strings.Join(fterms, ";"), strings.Join(commitTerms, ";"), strings.Join(badoff, ";"), strings.Join(rps, ";"))
	kinds := []string{fmt.Sprintf("rotations=%d", min(nrot, 6)), fmt.Sprintf("crclevs=%d", min(ncrc, 3))}
	if alien {
		kinds = append(kinds, "alien")
	}
	if big {
		kinds = append(kinds, "big")
	}
	o.Hist["replays"] += len(rps)
	o.Hist["truncations_checked"] += len(ks)
	o.Case(desc, term, nrot > 0 || ncrc > 0, kinds...)
}

func sizesText(ops []op) string {
	var s []string
	for i, p := range ops {
		if i >= 40 {
			s = append(s, "…")
			break
		}
		s = append(s, fmt.Sprint(len(p.payload)))
	}
	return strings.Join(s, ",")
}
func joinZ(xs []int64) string {
	s := make([]string, len(xs))
	for i, x := range xs {
		s[i] = vu.Z(x)
	}
	return strings.Join(s, ";")
}

// writeSimple runs the real writer on a fresh in-memory binlog and returns the chunk files.
func writeSimple(chunk uint32, payloads [][]byte) []nfile {
	fs := gofs.NewThreadSafeMemoryFs()
	_ = fs.TempDir()
	zero := time.Duration(0)
	opts := fsbinlog.Options{PrefixPath: prefix, Magic: schemaMagic, Fs: fs, MaxChunkSize: chunk, WriteCallDelay: &zero}
	if _, err := fsbinlog.CreateEmptyFsBinlog(opts); err != nil {
		panic(err)
	}
	bl, _ := fsbinlog.NewFsBinlog(nil, opts)
	eng := newEngine(0, fs)
	done := make(chan error, 1)
	go func() { done <- bl.Run(0, nil, nil, eng) }()
	<-eng.ready
	off := int64(hdrLen)
	for _, p := range payloads {
		var err error
		if off, err = bl.AppendASAP(off, frame(p)); err != nil {
			panic(err)
		}
	}
	bl.RequestShutdown()
	if err := <-done; err != nil {
		panic(err)
	}
	return listFiles(fs)
}

// witnesses replays the minimal reproducers of the recorded findings on the real code (the same inputs as the
// _refuted theorems in Props/C18.v: two appends [1 2 3 4 5] and [9 9], MaxChunkSize 1, so every append rotates).
func witnesses(o *vu.Out) {
	files := writeSimple(1, [][]byte{{1, 2, 3, 4, 5}, {9, 9}})
	if len(files) != 3 || len(files[0].data) != 96 {
		o.Finding("F-C18a", "witness-not-applicable")
		o.Finding("F-C18b", "witness-not-applicable")
		return
	}
	napplies := func(ob robs) int {
		n := 0
		for _, e := range ob.evs {
			if e.kind == 'A' {
				n++
			}
		}
		return n
	}
	// F-C18a: (1) one bit of the first event's body, in front of chunk 0's levRotateTo; (2) one bit inside that
	// levRotateTo record (last byte of chunk 0), covered only by the next chunk's levRotateFrom.Crc32
	a1 := replay(applyModif(files, modif{kind: 2, fi: 0, i: 52, b: 0}), 0, nil)
	a2 := replay(applyModif(files, modif{kind: 2, fi: 0, i: 95, b: 0}), 0, nil)
	o.Hist[fmt.Sprintf("witness F-C18a body-flip err=%d", a1.err)]++
	o.Hist[fmt.Sprintf("witness F-C18a rotate-record-flip err=%d", a2.err)]++
	if a1.err == 0 || a2.err == 0 {
		o.Finding("F-C18a", "reproduced")
	} else {
		o.Finding("F-C18a", "gone")
	}
	// F-C18c: chunk 0 = two events (21 and 20 bytes) + levRotateTo; bit 6 of the first length (21 -> 85) makes the
	// damaged event swallow the rest of the chunk exactly up to its end (same input as Props/C18.v)
	rep := func(b byte, n int) []byte {
		p := make([]byte, n)
		for i := range p {
			p[i] = b
		}
		return p
	}
	files2 := writeSimple(100, [][]byte{rep(7, 21), rep(8, 20), {9, 9}, rep(5, 60)})
	if len(files2) == 3 && len(files2[0].data) == 140 {
		c1 := replay(applyModif(files2, modif{kind: 2, fi: 0, i: 48, b: 6}), 0, nil)
		o.Hist[fmt.Sprintf("witness F-C18c length-flip err=%d events=%d", c1.err, napplies(c1))]++
		if c1.err == 0 {
			o.Finding("F-C18c", "reproduced")
		} else {
			o.Finding("F-C18c", "gone")
		}
	} else {
		o.Finding("F-C18c", "witness-not-applicable")
	}
	// F-C18b: cut 10 bytes (scan error) and 2 bytes (panic) into the header of the newest chunk
	last := files[len(files)-1].start
	b1 := replay(applyModif(files, modif{kind: 1, k: last + 10}), 0, nil)
	b2 := replay(applyModif(files, modif{kind: 1, k: last + 2}), 0, nil)
	o.Hist[fmt.Sprintf("witness F-C18b cut+10 err=%d events=%d", b1.err, napplies(b1))]++
	o.Hist[fmt.Sprintf("witness F-C18b cut+2 err=%d events=%d", b2.err, napplies(b2))]++
	if b1.err == 0 && napplies(b1) == 2 && b2.err == 0 && napplies(b2) == 2 {
		o.Finding("F-C18b", "gone")
	} else {
		o.Finding("F-C18b", "reproduced")
	}
}

type reopened struct {
	started   bool
	startErr  string
	startOff  int64 // the engine's offset when the master became ready = where the first Append goes
	newOffs   []int64
	appendErr string
	files     []nfile
}

// reopen starts the real binlog as a writing master on the given image (replay from 0, then the write loop), appends
// the payloads if the start succeeds, shuts down and returns the resulting files.
func reopen(img []nfile, chunk uint32, payloads [][]byte) (ro reopened) {
	fs := gofs.NewThreadSafeMemoryFs()
	_ = fs.TempDir()
	for _, f := range img {
		if err := fs.WriteFile(f.name, f.data, 0o640); err != nil {
			panic(err)
		}
	}
	zero := time.Duration(0)
	opts := fsbinlog.Options{PrefixPath: prefix, Magic: schemaMagic, Fs: fs, MaxChunkSize: chunk, WriteCallDelay: &zero}
	bl, _ := fsbinlog.NewFsBinlog(nil, opts)
	eng := newEngine(0, fs)
	done := make(chan error, 1)
	go func() {
		defer func() {
			if r := recover(); r != nil {
				done <- fmt.Errorf("panic: %v", r)
			}
		}()
		done <- bl.Run(0, nil, nil, eng)
	}()
	select {
	case <-eng.ready:
	case err := <-done:
		if err != nil {
			ro.startErr = err.Error()
		}
		return ro
	case <-time.After(60 * time.Second):
		panic("binlog neither started nor failed")
	}
	ro.started = true
	eng.mu.Lock()
	off := eng.off
	eng.mu.Unlock()
	ro.startOff = off
	for _, p := range payloads {
		noff, err := bl.AppendASAP(off, frame(p))
		if err != nil {
			ro.appendErr = "Append: " + err.Error()
			break
		}
		off = noff
		ro.newOffs = append(ro.newOffs, off)
	}
	bl.RequestShutdown()
	if err := <-done; err != nil && ro.appendErr == "" {
		ro.appendErr = "write loop: " + err.Error()
	}
	ro.files = listFiles(fs)
	return ro
}
