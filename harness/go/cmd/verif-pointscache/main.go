//go:build verif

// Correspondence harness for C24 (API points cache): drives the real pointsCache.get / loadCached /
// invalidate with a scripted clock and a counting loader whose body may itself run cache operations
// (deterministic interleavings: the loader runs with no lock held), flattens what happened into the
// atomic steps of PointsCache/Model.v and prints one Coq case per history. Property oracles are
// evaluated here, on the implementation's own outputs, against a shadow log of invalidations.
package main

import (
	"flag"
	"fmt"
	"sort"
	"strings"
	"time"

	"github.com/VKCOM/statshouse/internal/api"
	vu "github.com/VKCOM/statshouse/internal/verifutil"
)

const (
	ns48h    = int64(48 * time.Hour)
	nsLinger = int64(15 * time.Second)
	nsSec    = int64(time.Second)
)

func fdiv(a, b int64) int64 {
	q := a / b
	if a%b != 0 && ((a < 0) != (b < 0)) {
		q--
	}
	return q
}

type clock struct {
	cur  int64
	log  []int64
	r    *vu.Rng
	zero int // number of following calls that do not advance the clock
}

func (c *clock) now() time.Time {
	v := c.cur
	c.log = append(c.log, v)
	if c.zero > 0 {
		c.zero--
	} else {
		c.cur += c.r.Pick(0, 0, 1, 1, 7, 1000, 1000000)
	}
	return time.Unix(0, v)
}
func (c *clock) take() []int64 { l := c.log; c.log = nil; return l }

type rng3 struct{ key string; from, to int64 }
type event struct{ at, sec int64 }
type load struct {
	key      string
	from, to int64
	loadAt   int64
	n        int
}
type frame struct {
	key          string
	from, to     int64
	avoid, fail  bool
	nested       int
	id, rid      int64
	n            int
	loaderCalled bool
	before       api.VerifPCacheSnap
	depth        int
}
type failure struct{ oracle, text string }

type hist struct {
	idx      int
	r        *vu.Rng
	clk      *clock
	pc       *api.VerifPCache
	max      int
	off      int64
	steps    []string
	desc     []string
	stack    []*frame
	npend    int
	nextID   int64
	nextRid  *int64
	events   []event
	loads    map[int64]load
	last     map[rng3]int64 // (key,range) -> rid stored last, while the key's entry lives
	monotone bool
	maxN     int
	fails    []failure
	flags    map[string]int
	pool     []rng3
	keys     []string
	lastInvAt int64
	nsteps   int
}

func keyZ(k string) int64 { var x int64; fmt.Sscanf(k, "k%d", &x); return x }

func (h *hist) fail(oracle, format string, a ...any) {
	h.fails = append(h.fails, failure{oracle, fmt.Sprintf("hist=%d step=%d max=%d off=%d ", h.idx, h.nsteps, h.max, h.off) + fmt.Sprintf(format, a...)})
}

func (h *hist) digest(s api.VerifPCacheSnap) string {
	var nranges, rowsSize, nsum int64
	var lru, loadAt, inv uint64
	for _, e := range s.Entries {
		nranges += int64(len(e.Ranges))
		rowsSize += int64(e.RowsSize)
		lru += uint64(e.Lru)
		for _, g := range e.Ranges {
			nsum += int64(g.N)
			loadAt += uint64(g.LoadedAtNano)
		}
	}
	for i := range s.Maps {
		for _, v := range s.Maps[i] {
			inv += uint64(v)
		}
	}
	// one number per step keeps the Coq case files small: h = fold (h*1000003 + x mod p) mod p, p = 2^31-1 (Corr.dhash)
	const p = 2147483647
	acc := uint64(7)
	mix := func(x uint64) { acc = (acc*1000003 + x%p) % p }
	mixi := func(x int64) { mix(uint64(((x % p) + p) % p)) }
	mixi(int64(s.Size))
	mixi(int64(len(s.Entries)))
	mixi(nranges)
	mixi(rowsSize)
	mix(lru)
	mixi(int64(len(s.Maps[0])))
	mixi(int64(len(s.Maps[1])))
	mixi(int64(len(s.Maps[2])))
	mixi(int64(h.npend))
	mixi(nsum)
	mix(loadAt)
	mix(inv)
	return fmt.Sprintf("%d", acc)
}

// state oracles: "the cache stays within its size bound regardless of the sequence of requests"
func (h *hist) checkState(s api.VerifPCacheSnap) {
	var w, actual int
	for _, e := range s.Entries {
		w += e.RowsSize + len(e.Ranges)
		a := 0
		for _, g := range e.Ranges {
			a += g.N
		}
		actual += a
		if a > e.RowsSize {
			h.fail("rows_size_covers_rows", "key=%s rowsSize=%d actual=%d", e.Key, e.RowsSize, a)
		}
	}
	if w != s.Size {
		h.fail("size_invariant", "size=%d sum=%d", s.Size, w)
	}
	bound := h.max + 1 + h.maxN
	if s.Size+len(s.Entries) > bound || actual+len(s.Entries) > bound {
		h.fail("size_bound", "size=%d entries=%d rows=%d bound=%d", s.Size, len(s.Entries), actual, bound)
	}
}

func (h *hist) emit(op string, found string, valid bool, nclk int, s api.VerifPCacheSnap) {
	h.steps = append(h.steps, fmt.Sprintf("mk (%s) %s %s %d %s", op, found, vu.B(valid), nclk, h.digest(s)))
	h.nsteps++
	h.checkState(s)
}

func (h *hist) emitLookup(viaget bool, key string, from, to int64, calls []int64, found bool, rid int64, n int, valid bool) {
	tl, tc := h.clk.cur, h.clk.cur
	if len(calls) == 2 {
		tl, tc = calls[0], calls[1]
	}
	f := "None"
	if found {
		f = fmt.Sprintf("(Some (%s, %d))", vu.Z(rid), n)
	}
	h.emit(fmt.Sprintf("OLookup %s %d %s %s %s %s", vu.B(viaget), keyZ(key), vu.Z(from), vu.Z(to), vu.Z(tl), vu.Z(tc)), f, valid, len(calls), h.pc.Snapshot())
}

// oracles on a lookup outcome. tmin = clock when the operation started, tmax = largest clock value it could have read.
func (h *hist) checkLookup(what, key string, from, to int64, tmin, tmax int64, found, served bool, rid int64, n int) {
	tr := rng3{key, from, to}
	want, have := h.last[tr]
	if served {
		h.flags["served"]++
		if !have || (n > 0 && rid != want) || h.loads[want].n != n {
			h.fail("served_rows_are_last_loaded", "%s key=%s range=[%d,%d] served rid=%d n=%d expected rid=%d present=%v", what, key, from, to, rid, n, want, have)
			return
		}
		if !h.monotone {
			return
		}
		l := h.loads[want]
		imm := tmax - ns48h
		if to*nsSec < tmin-ns48h {
			h.flags["served-immutable"]++
		}
		if to*nsSec >= imm { // certainly inside the mutable window
			lo := from
			if e := fdiv(imm, nsSec); e > lo {
				lo = e
				h.flags["served-clamped"]++
			}
			for _, ev := range h.events {
				if ev.sec >= lo && ev.sec <= to && ev.at+nsLinger >= l.loadAt {
					h.fail("served_after_invalidation", "%s key=%s range=[%d,%d] rid=%d loadedAt=%d but second %d invalidated at %d (clock<=%d)", what, key, from, to, want, l.loadAt, ev.sec, ev.at, tmax)
					return
				}
			}
		}
		return
	}
	if found || have {
		h.flags["refused"]++
	}
	// "Outside the mutable window cached results are served as loaded"
	if have && h.monotone && to*nsSec < tmin-ns48h {
		h.fail("immutable_not_served", "%s key=%s range=[%d,%d] rid=%d is cached and older than the mutable window (clock>=%d) but was not served", what, key, from, to, want, tmin)
	}
	// no invalidation at all recorded for the range and cached: must be served
	if have && h.monotone {
		hit := false
		for _, ev := range h.events {
			if ev.sec >= from-3700 && ev.sec <= to+3700 {
				hit = true
				break
			}
		}
		if !hit {
			h.fail("uninvalidated_not_served", "%s key=%s range=[%d,%d] rid=%d cached, no invalidation within an hour of the range, not served", what, key, from, to, want)
		}
	}
}

func (h *hist) loader(key string, from, to int64) (int64, int, bool) {
	f := h.stack[len(h.stack)-1]
	f.loaderCalled = true
	calls := h.clk.take()
	tload := h.clk.cur
	nclk := 0
	look := calls
	if len(calls) > 0 {
		tload = calls[len(calls)-1]
		look = calls[:len(calls)-1]
		nclk = 1
	}
	if key != f.key || from != f.from || to != f.to {
		h.fail("loader_args", "loader called with %s [%d,%d] for get %s [%d,%d]", key, from, to, f.key, f.from, f.to)
	}
	if !f.avoid {
		tmin := tload
		if len(calls) > 0 {
			tmin = calls[0]
		}
		h.emitLookup(true, f.key, f.from, f.to, look, false, 0, 0, false)
		h.checkLookup("get", f.key, f.from, f.to, tmin, tload, false, false, 0, 0)
	} else if len(look) > 0 {
		nclk = len(calls)
	}
	f.id = h.nextID
	h.nextID++
	*h.nextRid++
	f.rid = *h.nextRid
	h.npend++
	h.emit(fmt.Sprintf("OLoadStart %d %d %s %s %s", f.id, keyZ(f.key), vu.Z(f.from), vu.Z(f.to), vu.Z(tload)), "None", false, nclk, h.pc.Snapshot())
	h.loads[f.rid] = load{f.key, f.from, f.to, tload, f.n}
	if f.n > h.maxN {
		h.maxN = f.n
	}
	for i := 0; i < f.nested; i++ {
		h.flags["nested"]++
		h.randomOp(f.depth + 1)
	}
	f.before = h.pc.Snapshot()
	if l := h.clk.take(); len(l) != 0 {
		panic("clock log not empty")
	}
	return f.rid, f.n, f.fail
}

func (h *hist) doGet(key string, from, to int64, avoid, fail bool, n, nested, depth int) {
	f := &frame{key: key, from: from, to: to, avoid: avoid, fail: fail, n: n, nested: nested, depth: depth}
	h.desc = append(h.desc, fmt.Sprintf("g %s %d %d", key, from, to))
	h.stack = append(h.stack, f)
	tmin := h.clk.cur
	rid, rn, failed := h.pc.Get(key, from, to, avoid)
	h.stack = h.stack[:len(h.stack)-1]
	calls := h.clk.take()
	if !f.loaderCalled {
		tmax := tmin
		if len(calls) > 0 {
			tmax = calls[len(calls)-1]
		}
		h.emitLookup(true, key, from, to, calls, true, rid, rn, true)
		h.checkLookup("get", key, from, to, tmin, tmax, true, true, rid, rn)
		if failed || avoid {
			h.fail("get_result", "get %s [%d,%d] avoid=%v returned without loading, failed=%v", key, from, to, avoid, failed)
		}
		return
	}
	h.npend--
	if failed != fail || (!fail && (rn != f.n || (rn > 0 && rid != f.rid))) {
		h.fail("get_result", "get %s [%d,%d] loaded rid=%d n=%d fail=%v but returned rid=%d n=%d failed=%v", key, from, to, f.rid, f.n, fail, rid, rn, failed)
	}
	after := h.pc.Snapshot()
	if avoid || fail {
		h.emit(fmt.Sprintf("ODrop %d", f.id), "None", false, len(calls), after)
		return
	}
	// victims: entries present when the loader returned that are gone or re-created
	type vic struct {
		k   int64
		lru int64
		w   int
		key string
	}
	var vs []vic
	am := map[string]api.VerifPCacheEntry{}
	for _, e := range after.Entries {
		am[e.Key] = e
	}
	for _, e := range f.before.Entries {
		if a, ok := am[e.Key]; !ok || a.Ptr != e.Ptr {
			vs = append(vs, vic{keyZ(e.Key), e.Lru, e.RowsSize + len(e.Ranges), e.Key})
		}
	}
	// The ORDER of the evictions inside one get is not observable (only the set of victims is, read back
	// above). The model validates a sequence: while more than 100 entries are present evictLocked samples
	// the map (any present key may go), otherwise the victim has a minimal lru (ties in any order), the
	// loop condition holds before every eviction and fails after the last. Whether such a sequence exists
	// depends only on which victim goes last (size+len decreases monotonically, so the condition before
	// the last eviction is the binding one): given the last victim x, the best arrangement of the others
	// is "the k = len-100 largest lru first (sampled), the rest by ascending lru". All choices of x are
	// tried against a simulation of exactly these rules; the real run is one of them, so on conforming
	// code an accepted order is always found. If none is, the default order is printed and the model
	// rejects the step (a real disagreement).
	less := func(a, b vic) bool {
		if a.lru != b.lru {
			return a.lru < b.lru
		}
		if a.w != b.w {
			return a.w < b.w
		}
		return a.k < b.k
	}
	sort.Slice(vs, func(i, j int) bool { return less(vs[i], vs[j]) })
	simulate := func(order []vic) bool {
		size, L := f.before.Size, len(f.before.Entries)
		gone := map[string]bool{}
		for _, v := range order {
			if size+L < h.max {
				return false
			}
			if L <= 100 {
				for _, e := range f.before.Entries {
					if !gone[e.Key] && e.Lru < v.lru {
						return false
					}
				}
			}
			gone[v.key] = true
			size -= v.w
			L--
		}
		return size+L < h.max
	}
	arrange := func(j int) []vic {
		rest := make([]vic, 0, len(vs))
		rest = append(rest, vs[:j]...)
		rest = append(rest, vs[j+1:]...)
		k := len(f.before.Entries) - 100
		if k < 0 {
			k = 0
		}
		if k > len(rest) {
			k = len(rest)
		}
		order := append([]vic{}, rest[len(rest)-k:]...)
		order = append(order, rest[:len(rest)-k]...)
		return append(order, vs[j])
	}
	if len(vs) > 0 {
		if len(f.before.Entries) > 100 {
			h.flags["evict-sampled"]++
		}
		chosen := arrange(len(vs) - 1)
		if !simulate(chosen) {
			for j := len(vs) - 2; j >= 0; j-- {
				if o := arrange(j); simulate(o) {
					chosen = o
					h.flags["evict-order-searched"]++
					break
				}
			}
		}
		vs = chosen
	}
	vz := make([]int64, len(vs))
	for i, v := range vs {
		vz[i] = v.k
		h.flags["evict"]++
		for tr := range h.last {
			if tr.key == v.key {
				delete(h.last, tr)
			}
		}
	}
	tl := h.clk.cur
	if len(calls) == 1 {
		tl = calls[0]
	}
	if _, ok := h.last[rng3{key, from, to}]; ok {
		h.flags["replace"]++
	}
	h.last[rng3{key, from, to}] = f.rid
	h.emit(fmt.Sprintf("OStore %d %d %d %s %s", f.id, f.n, f.rid, vu.Z(tl), vu.ListZ(vz)), "None", false, len(calls), after)
}

func (h *hist) doLoadCached(key string, from, to int64) {
	h.desc = append(h.desc, fmt.Sprintf("l %s %d %d", key, from, to))
	tmin := h.clk.cur
	found, rid, n, valid := h.pc.LoadCached(key, from, to)
	calls := h.clk.take()
	tmax := tmin
	if len(calls) > 0 {
		tmax = calls[len(calls)-1]
	}
	h.emitLookup(false, key, from, to, calls, found, rid, n, valid)
	h.checkLookup("loadCached", key, from, to, tmin, tmax, found, valid, rid, n)
}

func (h *hist) doInvalidate(secs []int64) {
	if len(secs) <= 4 {
		h.desc = append(h.desc, fmt.Sprintf("i %v", secs))
	} else {
		h.desc = append(h.desc, fmt.Sprintf("i #%d", len(secs)))
	}
	tmin := h.clk.cur
	h.pc.Invalidate(secs)
	calls := h.clk.take()
	ta, tp := tmin, tmin
	if len(calls) == 2 {
		ta, tp = calls[0], calls[1]
	}
	for _, s := range secs {
		h.events = append(h.events, event{tmin, s})
	}
	h.lastInvAt = tmin
	snap := h.pc.Snapshot()
	from := fdiv(tp-ns48h, nsSec)
	var surv [3][]int64
	for i := range snap.Maps {
		for k := range snap.Maps[i] {
			if k < from {
				surv[i] = append(surv[i], k)
			}
		}
		sort.Slice(surv[i], func(a, b int) bool { return surv[i][a] < surv[i][b] })
		if len(snap.Maps[i]) > 100 {
			h.flags["bigmap"]++
		}
	}
	h.emit(fmt.Sprintf("OInvalidate %s %s %s %s %s %s", vu.ListZ(secs), vu.Z(ta), vu.Z(tp), vu.ListZ(surv[0]), vu.ListZ(surv[1]), vu.ListZ(surv[2])), "None", false, len(calls), snap)
}

func (h *hist) nowSec() int64 { return fdiv(h.clk.cur, nsSec) }
func (h *hist) edge() int64   { return fdiv(h.clk.cur-ns48h, nsSec) }

func (h *hist) newRange() (int64, int64) {
	r := h.r
	now := h.nowSec()
	switch r.Intn(10) {
	case 0: // inside one minute
		f := now - int64(r.Intn(7200))
		return f, f + int64(r.Intn(50))
	case 1, 2: // straddles minute / hour cells, boundaries on and next to cell starts
		hr := api.VerifPCacheRoundTime(now-int64(r.Intn(40))*3600, 3600, h.off)
		f := hr + r.Pick(-1, 0, 1, 59, 60, 61, 3599, -3600, -61)
		return f, f + r.Pick(0, 1, 59, 60, 61, 119, 120, 3599, 3600, 3601, 7199, 7200, 7201, 10000)
	case 3: // many hours
		f := now - int64(r.Intn(47*3600))
		return f, f + int64(r.Intn(30*3600))
	case 4, 5: // around the edge of the mutable window
		e := h.edge()
		f := e + r.Pick(-7200, -61, -2, -1, 0, 1, 2, 30)
		t := e + r.Pick(-2, -1, 0, 1, 2, 59, 61, 3700)
		return f, t
	case 6: // entirely immutable
		t := h.edge() - int64(5+r.Intn(100000))
		return t - int64(r.Intn(5000)), t
	case 7: // reaches into the future
		f := now - int64(r.Intn(600))
		return f, now + int64(r.Intn(4000))
	case 8:
		if r.Chance(20) { // empty (reversed) range
			f := now - int64(r.Intn(7200))
			return f, f - int64(1+r.Intn(100))
		}
		fallthrough
	default:
		f := now - int64(r.Intn(3*3600))
		return f, f + int64(r.Intn(400))
	}
}

func (h *hist) pickRange() rng3 {
	if len(h.pool) == 0 || h.r.Chance(12) {
		f, t := h.newRange()
		g := rng3{h.keys[h.r.Intn(len(h.keys))], f, t}
		if len(h.pool) < 12 {
			h.pool = append(h.pool, g)
		}
		return g
	}
	g := h.pool[h.r.Intn(len(h.pool))]
	if h.r.Chance(15) { // same range under another key / same key shifted by one
		g.key = h.keys[h.r.Intn(len(h.keys))]
	}
	return g
}

func (h *hist) pickSecs() []int64 {
	r := h.r
	n := 1 + r.Intn(4)
	if r.Chance(1) {
		n = 101 + r.Intn(60)
	}
	secs := make([]int64, 0, n)
	for i := 0; i < n; i++ {
		var s int64
		switch {
		case n > 100:
			s = h.nowSec() - int64(r.Intn(46))*3600 - int64(r.Intn(60))*60 - int64(r.Intn(60))
		case len(h.pool) > 0 && r.Chance(75):
			g := h.pool[r.Intn(len(h.pool))]
			fr := api.VerifPCacheRoundTime(g.from, 3600, h.off)
			tr := api.VerifPCacheRoundTime(g.to, 3600, h.off)
			fm := api.VerifPCacheRoundTime(g.from, 60, h.off)
			tm := api.VerifPCacheRoundTime(g.to, 60, h.off)
			w := g.to - g.from
			if w < 1 {
				w = 1
			}
			s = r.Pick(g.from, g.to, g.from-1, g.to+1, g.from+1, g.to-1, fr+3600, fr+3599, fr+3601, tr, tr-1, tr+1, fm+60, fm+59, fm+61, tm, tm-1,
				g.from+int64(r.Intn(int(w%100000)+1)), g.from+int64(r.Intn(int(w%100000)+1)), fr+7200+int64(r.Intn(3600)))
		case r.Chance(30):
			s = h.edge() + r.Pick(-3, -1, 0, 1, 3, 100)
		default:
			s = h.nowSec() - int64(r.Intn(4*3600))
		}
		secs = append(secs, s)
	}
	return secs
}

func (h *hist) advance() {
	r := h.r
	var d int64
	switch r.Intn(8) {
	case 0:
		d = int64(r.Intn(1000)) * 1000000
	case 1:
		d = nsSec * int64(1+r.Intn(14))
	case 2, 3: // land next to lastInvalidation + linger
		t := h.lastInvAt + nsLinger + r.Pick(-1, 0, 1, 2)
		if t >= h.clk.cur {
			h.clk.cur = t
			h.clk.zero = 3
			h.flags["linger-edge"]++
			return
		}
		d = nsLinger + r.Pick(-1, 0, 1)
	case 4:
		d = nsSec * int64(16+r.Intn(100))
	case 5:
		d = nsSec * 3600 * int64(1+r.Intn(5))
	case 6: // to a whole second (equality at the window edge is reachable), clock then stands still
		h.clk.cur = (h.nowSec()+1)*nsSec + r.Pick(-1, 0, 0, 1)
		h.clk.zero = 4
		return
	default:
		d = int64(r.Intn(2000000))
	}
	h.clk.cur += d
	h.desc = append(h.desc, fmt.Sprintf("a %d", d))
}

func (h *hist) randomOp(depth int) {
	r := h.r
	x := r.Intn(100)
	switch {
	case x < 45:
		g := h.pickRange()
		nested := 0
		if depth < 2 && r.Chance(25) {
			nested = 1 + r.Intn(3)
		}
		n := r.Intn(5)
		if r.Chance(5) {
			n = 10 + r.Intn(30)
		}
		h.doGet(g.key, g.from, g.to, r.Chance(6), r.Chance(5), n, nested, depth)
	case x < 60:
		g := h.pickRange()
		h.doLoadCached(g.key, g.from, g.to)
	case x < 82:
		h.doInvalidate(h.pickSecs())
	case x < 84 && h.flags["clockback-allowed"] > 0:
		h.clk.cur -= int64(r.Intn(100)) * nsSec
		h.monotone = false
		h.flags["clockback"]++
	default:
		h.advance()
	}
}

func main() {
	seed := flag.Uint64("seed", 1, "")
	n := flag.Int("n", 400, "")
	out := flag.String("out", "", "")
	flag.Parse()
	r := vu.NewRng(*seed)
	o := vu.NewOut(*out)
	defer o.Close()
	consts := vu.ListZ(api.VerifPCacheConsts())
	var rid int64

	for i := 0; i < *n; i++ {
		h := &hist{idx: i, r: r, loads: map[int64]load{}, last: map[rng3]int64{}, monotone: true, flags: map[string]int{}, nextRid: &rid}
		h.clk = &clock{cur: 1700000000*nsSec + int64(r.Intn(1000000))*nsSec + int64(r.Intn(1000000000)), r: r}
		h.lastInvAt = h.clk.cur
		flavor := []string{"random", "random", "random", "linger", "edge", "evict", "otherrange", "clockback"}[i%8]
		h.max = int(r.Pick(1, 2, 3, 5, 8, 13, 25, 60, 1000))
		if flavor == "evict" {
			h.max = int(r.Pick(2, 4, 6, 9))
		}
		h.off = r.Pick(0, 0, 10800, -18000, 19800, 1234, -37)
		nkeys := 2 + r.Intn(3)
		nops := 8 + r.Intn(28)
		if i%97 == 50 { // more than 100 entries: eviction samples the map
			flavor = "bigcache"
			h.max = 330
			nkeys = 140
			nops = 200
		}
		for k := 1; k <= nkeys; k++ {
			h.keys = append(h.keys, fmt.Sprintf("k%d", k))
		}
		h.pc = api.NewVerifPCache(h.max, h.off, h.clk.now, h.loader)
		switch flavor {
		case "linger":
			// load, invalidate a second of the range, reload exactly linger+d after the invalidation, look again
			f, t := h.newRange()
			if t < f {
				t = f + 5
			}
			if t < h.edge()+10 {
				f, t = h.nowSec()-100, h.nowSec()-40
			}
			k := h.keys[0]
			h.pool = append(h.pool, rng3{k, f, t})
			h.doGet(k, f, t, false, false, 2, 0, 0)
			h.clk.cur += int64(r.Intn(3)) * nsSec
			lo := f
			if e := h.edge() + 1; e > lo {
				lo = e
			}
			h.doInvalidate([]int64{lo + int64(r.Intn(int((t-lo)%5000)+1))})
			h.clk.cur = h.lastInvAt + nsLinger + r.Pick(-1, 0, 1, 2)
			h.clk.zero = 3
			h.doGet(k, f, t, false, false, 3, 0, 0)
			h.clk.cur += r.Pick(0, 1, nsSec)
			h.doLoadCached(k, f, t)
		case "otherrange":
			// the regression of pcache_stale_repro_test: another range of the same key is loaded after the invalidation
			b := h.nowSec() - 3600
			k := h.keys[0]
			h.pool = append(h.pool, rng3{k, b, b + 60}, rng3{k, b + 120, b + 180})
			h.doGet(k, b, b+60, false, false, 1, 0, 0)
			h.clk.cur += nsSec
			h.doInvalidate([]int64{b + int64(r.Intn(61))})
			h.clk.cur += nsLinger + nsSec
			h.doGet(k, b+120, b+180, false, false, 1, 0, 0)
			h.doLoadCached(k, b, b+60)
		case "clockback":
			h.flags["clockback-allowed"] = 1
		case "bigcache":
			for j := 0; j < nkeys; j++ {
				h.doGet(h.keys[j], h.nowSec()-100, h.nowSec()-50, false, false, r.Intn(2), 0, 0)
			}
		}
		for j := 0; j < nops; j++ {
			h.randomOp(0)
		}
		// final sweep: look at every pooled range once more
		for _, g := range h.pool {
			if r.Chance(50) {
				h.doLoadCached(g.key, g.from, g.to)
			}
		}
		desc := strings.Join(h.desc, ";")
		if len(desc) > 200 {
			desc = desc[:200] + "…"
		}
		input := fmt.Sprintf("hist=%d seed=%d flavor=%s max=%d off=%d steps=%d ops=%s", i, *seed, flavor, h.max, h.off, h.nsteps, desc)
		term := fmt.Sprintf("CHist (mkc %d %s) %s [%s]", h.max, vu.Z(h.off), consts, strings.Join(h.steps, "; "))
		kinds := []string{"flavor/" + flavor}
		for k, v := range h.flags {
			if v > 0 && k != "clockback-allowed" {
				kinds = append(kinds, "has/"+k)
			}
		}
		sort.Strings(kinds)
		line := o.Case(input, term, h.flags["served"] > 0 && h.flags["refused"] > 0, kinds...)
		for _, f := range h.fails {
			o.Fail(f.oracle, line, f.text)
		}
	}
}
