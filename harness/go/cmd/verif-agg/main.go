//go:build verif

// Correspondence harness for C04 (aggregation merge order independence): drives the real
// ItemValue/MultiValue.Merge, ItemCounter.AddCounterHost, ChUnique (Insert/insertHash/Merge/MergeRead)
// and api.tsValues.merge, prints cases for Agg/Corr.v and evaluates the property's oracles on the Go side.
package main

import (
	"bytes"
	"encoding/binary"
	"flag"
	"fmt"
	"math"
	"sort"
	"strings"

	"pgregory.net/rand"

	"github.com/VKCOM/statshouse/internal/api"
	"github.com/VKCOM/statshouse/internal/data_model"
	"github.com/VKCOM/statshouse/internal/data_model/gen2/tlstatshouse"
	"github.com/VKCOM/statshouse/internal/format"
	vu "github.com/VKCOM/statshouse/internal/verifutil"
)

// ---------- exact rationals (all generated floats are multiples of 1/128 of small magnitude) ----------

func q(x float64, den int64) string {
	n := x * float64(den)
	if n != math.Trunc(n) || math.Abs(n) > 1e15 {
		panic(fmt.Sprintf("value %v is not an exact multiple of 1/%d", x, den))
	}
	return fmt.Sprintf("(%s # %d)", vu.Z(int64(n)), den)
}

// ---------- host tags: integer tags as themselves, string tags "sN" as 2^32+N ----------

func tagOf(id int64) data_model.TagUnion {
	if id >= 1<<32 {
		return data_model.TagUnion{S: fmt.Sprintf("s%d", id-(1<<32))}
	}
	return data_model.TagUnion{I: int32(id)}
}

func idOf(t data_model.TagUnion) int64 {
	if t.S != "" {
		var n int64
		fmt.Sscanf(t.S, "s%d", &n)
		return 1<<32 + n
	}
	return int64(t.I)
}

// ---------- trees ----------

type tree struct {
	leaf int
	l, r *tree
}

func (t *tree) term() string {
	if t.l == nil {
		return fmt.Sprintf("(Leaf %d%%nat)", t.leaf)
	}
	return "(Node " + t.l.term() + " " + t.r.term() + ")"
}
func (t *tree) text() string {
	if t.l == nil {
		return fmt.Sprintf("%d", t.leaf)
	}
	return "(" + t.l.text() + " " + t.r.text() + ")"
}

// random binary tree over the leaves in the given order
func randTree(r *vu.Rng, ls []int) *tree {
	if len(ls) == 1 {
		return &tree{leaf: ls[0]}
	}
	k := 1 + r.Intn(len(ls)-1)
	switch r.Intn(4) {
	case 0:
		k = 1
	case 1:
		k = len(ls) - 1
	}
	return &tree{l: randTree(r, ls[:k]), r: randTree(r, ls[k:])}
}

func perm(r *vu.Rng, n int) []int {
	p := make([]int, n)
	for i := range p {
		p[i] = i
	}
	for i := n - 1; i > 0; i-- {
		j := r.Intn(i + 1)
		p[i], p[j] = p[j], p[i]
	}
	return p
}

func allPerms(n int) [][]int {
	var res [][]int
	var rec func(cur []int, used int)
	rec = func(cur []int, used int) {
		if len(cur) == n {
			res = append(res, append([]int(nil), cur...))
			return
		}
		for i := 0; i < n; i++ {
			if used&(1<<i) == 0 {
				rec(append(cur, i), used|1<<i)
			}
		}
	}
	rec(nil, 0)
	return res
}

// ---------- events and MultiValue leaves ----------

type event struct {
	isValue bool
	v, c    float64
	host    int64
}

func (e event) term() string {
	if e.isValue {
		return fmt.Sprintf("EValue %s %s %s", q(e.v, 8), q(e.c, 2), vu.Z(e.host))
	}
	return fmt.Sprintf("ECount %s %s", q(e.c, 2), vu.Z(e.host))
}
func (e event) text() string {
	if e.isValue {
		return fmt.Sprintf("v%g*%g@%d", e.v, e.c, e.host)
	}
	return fmt.Sprintf("c%g@%d", e.c, e.host)
}

type leaf struct {
	events []event
	uniq   []uint64
}

// recording of rng.Uint64n draws: the merge functions draw at most once; the draw is re-derived from a
// copy of the generator state taken before the call (same algorithm, same state => same value)
type drawRec struct {
	rng   *rand.Rand
	draws []uint64
}

func (d *drawRec) around(total uint64, f func()) {
	before := *d.rng
	f()
	if *d.rng != before {
		d.draws = append(d.draws, before.Uint64n(total))
	}
}

func totalWeight(a, b float64) uint64 {
	if a <= 0 || b <= 0 {
		return 1
	}
	return data_model.CounterHostDistribution(a) + data_model.CounterHostDistribution(b)
}

func buildLeaf(d *drawRec, l leaf) *data_model.MultiValue {
	mv := &data_model.MultiValue{}
	for _, e := range l.events {
		e := e
		d.around(totalWeight(mv.Value.Count(), e.c), func() {
			if e.isValue {
				mv.AddValueCounterHost(d.rng, e.v, e.c, tagOf(e.host))
			} else {
				mv.AddCounterHost(d.rng, e.c, tagOf(e.host))
			}
		})
	}
	for _, u := range l.uniq {
		mv.HLL.Insert(u)
	}
	return mv
}

func evalMulti(d *drawRec, t *tree, built []*data_model.MultiValue) *data_model.MultiValue {
	if t.l == nil {
		return built[t.leaf]
	}
	a := evalMulti(d, t.l, built)
	b := evalMulti(d, t.r, built)
	d.around(totalWeight(a.Value.Count(), b.Value.Count()), func() { a.Merge(d.rng, b) })
	return a
}

func runMulti(seed uint64, ls []leaf, t *tree) (*data_model.MultiValue, []uint64) {
	d := &drawRec{rng: rand.New(seed)}
	built := make([]*data_model.MultiValue, len(ls))
	for i, l := range ls {
		built[i] = buildLeaf(d, l)
	}
	return evalMulti(d, t, built), d.draws
}

func vobs(v *data_model.ItemValue) string {
	return fmt.Sprintf("(VObs %s %s %s %s %s %s %s %s %s)", q(v.Count(), 2), vu.Z(idOf(v.MaxCounterHostTag)),
		q(v.ValueMin, 8), q(v.ValueMax, 8), q(v.ValueSum, 128), q(v.ValueSumSquare, 128),
		vu.Z(idOf(v.MinHostTag)), vu.Z(idOf(v.MaxHostTag)), vu.B(v.ValueSet))
}

// ---------- ChUnique observation ----------

func udig(ch *data_model.ChUnique) string {
	st := ch.VerifState()
	var nnz, sum, possum uint64
	for i, x := range st.Buf {
		if x != 0 {
			nnz++
			sum += uint64(x)
			possum += uint64(i+1) * uint64(x)
		}
	}
	sd := st.SizeDegree
	return fmt.Sprintf("(UD %s %d %d %s %d %d %d %d %d)", vu.B(st.Nil), st.Skip, st.Count, vu.B(st.Zero), sd, ch.Size(true), nnz, sum, possum)
}

type uset struct {
	skip  uint32
	count int32
	zero  bool
	elems []uint32
}

func usetOf(ch *data_model.ChUnique) uset {
	st := ch.VerifState()
	s := uset{skip: st.Skip, count: st.Count, zero: st.Zero}
	for _, x := range st.Buf {
		if x != 0 {
			s.elems = append(s.elems, x)
		}
	}
	sort.Slice(s.elems, func(i, j int) bool { return s.elems[i] < s.elems[j] })
	return s
}

func (a uset) equal(b uset) bool {
	if a.skip != b.skip || a.count != b.count || a.zero != b.zero || len(a.elems) != len(b.elems) {
		return false
	}
	for i := range a.elems {
		if a.elems[i] != b.elems[i] {
			return false
		}
	}
	return true
}

// every stored hash is divisible by 2^skip and itemsCount is the number of stored hashes
func (a uset) consistent() bool {
	n := int32(len(a.elems))
	if a.zero {
		n++
	}
	if n != a.count {
		return false
	}
	for _, x := range a.elems {
		if a.skip < 32 && x != (x>>a.skip)<<a.skip {
			return false
		}
		if a.skip >= 32 {
			return false
		}
	}
	return true
}

func clone(ch *data_model.ChUnique) data_model.ChUnique {
	var c data_model.ChUnique
	st := ch.VerifState()
	if st.Nil {
		return c
	}
	// rebuild through the wire format of the code would use the code under test; copy the table instead
	c = *ch
	c.VerifSetBuf(append([]uint32(nil), st.Buf...))
	return c
}

func wire(sd byte, items []uint32) *bytes.Buffer {
	var tmp [binary.MaxVarintLen64]byte
	b := []byte{sd}
	n := binary.PutUvarint(tmp[:], uint64(len(items)))
	b = append(b, tmp[:n]...)
	for _, x := range items {
		binary.LittleEndian.PutUint32(tmp[:], x)
		b = append(b, tmp[:4]...)
	}
	return bytes.NewBuffer(b)
}

// ---------- unique histories ----------

type uop struct {
	kind   string
	r1, r2 int
	vals   []uint64
	a      uint32
	step   uint32
	n      int
	sd     byte
}

func listU64(xs []uint64) string {
	p := make([]string, len(xs))
	for i, x := range xs {
		p[i] = fmt.Sprintf("%d", x)
	}
	return "[" + strings.Join(p, ";") + "]"
}

func (o uop) term() string {
	switch o.kind {
	case "ins":
		return fmt.Sprintf("UInsert %d%%nat %s", o.r1, listU64(o.vals))
	case "hash":
		return fmt.Sprintf("UInsHashes %d%%nat %s", o.r1, listU64(o.vals))
	case "range":
		return fmt.Sprintf("UInsRange %d%%nat %d %d %d", o.r1, o.a, o.step, o.n)
	case "merge":
		return fmt.Sprintf("UMerge %d%%nat %d%%nat", o.r1, o.r2)
	case "mread":
		return fmt.Sprintf("UMergeRead %d%%nat %d%%nat", o.r1, o.r2)
	case "reset":
		return fmt.Sprintf("UReset %d%%nat", o.r1)
	case "unm":
		return fmt.Sprintf("UUnmarshal %d%%nat %d %s", o.r1, o.sd, listU64(o.vals))
	}
	panic(o.kind)
}

func (o uop) text() string {
	switch o.kind {
	case "ins", "hash":
		return fmt.Sprintf("%s r%d %v", o.kind, o.r1, o.vals)
	case "range":
		return fmt.Sprintf("range r%d a=%d step=%d n=%d", o.r1, o.a, o.step, o.n)
	case "merge", "mread":
		return fmt.Sprintf("%s r%d<-r%d", o.kind, o.r1, o.r2)
	case "reset":
		return fmt.Sprintf("reset r%d", o.r1)
	case "unm":
		return fmt.Sprintf("unm r%d sd=%d %v", o.r1, o.sd, o.vals)
	}
	panic(o.kind)
}

type uhist struct {
	o           *vu.Out
	reportKnown bool
	regs        [4]data_model.ChUnique
	ops         []string
	obs         []string
	text        []string
	kinds       map[string]bool
	fails       []string // oracle names fired (reported after the case line is known)
	known       []string
	thinned     bool
	diffSkip    bool
	impure      [4]bool              // register has seen Merge/MergeRead since its last Reset
	shadow      [4]map[uint32]bool   // hashes inserted into a pure register
}

// a sketch built by inserts alone must be the canonical one: skip is the least degree at which the hashes
// divisible by 2^skip fit into uniquesHashMaxSize, and exactly those hashes are stored
func (h *uhist) insertOracle(r int) {
	if h.impure[r] {
		return
	}
	_, maxSize, _, _ := data_model.VerifChConsts()
	d := uint32(0)
	cnt := 0
	for ; ; d++ {
		cnt = 0
		for x := range h.shadow[r] {
			if x == 0 || (d < 32 && x == (x>>d)<<d) {
				cnt++
			}
		}
		if cnt <= maxSize {
			break
		}
	}
	u := usetOf(&h.regs[r])
	if u.skip != d || int(u.count) != cnt || !u.consistent() || h.regs[r].Size(true) != uint64(cnt)<<d {
		h.fails = append(h.fails, "unique_insert_canonical")
	}
}

// the open-addressing table itself: no duplicates, itemsCount = occupied cells + zero flag, and for every stored
// hash all cells from its home cell to its position (cyclically) are occupied (otherwise a later insert of the same
// hash does not find it)
func (h *uhist) tableOracle(r int) {
	st := h.regs[r].VerifState()
	if st.Nil {
		return
	}
	_, _, bits, _ := data_model.VerifChConsts()
	n := len(st.Buf)
	seen := map[uint32]bool{}
	occ := 0
	ok := n == 1<<st.SizeDegree
	for i, x := range st.Buf {
		if x == 0 {
			continue
		}
		occ++
		if seen[x] {
			ok = false
		}
		seen[x] = true
		for p := int(x>>uint(bits)) & (n - 1); p != i; p = (p + 1) & (n - 1) {
			if st.Buf[p] == 0 {
				ok = false
				break
			}
		}
	}
	if st.Zero {
		occ++
	}
	if occ != int(st.Count) {
		ok = false
	}
	if !ok {
		h.fails = append(h.fails, "table_probing_invariant")
	}
}

func (h *uhist) note(r int, x uint32) {
	if h.shadow[r] == nil {
		h.shadow[r] = map[uint32]bool{}
	}
	h.shadow[r][x] = true
}

// the property on one merge: the result must not depend on the side, every stored hash must be
// divisible by 2^skip, and Merge and MergeRead of the same operand must agree
func (h *uhist) mergeOracles(a, b *data_model.ChUnique) {
	ca, cb := clone(a), clone(b)
	ca2, cb2 := clone(a), clone(b)
	sa, sb := a.VerifState(), b.VerifState()
	ca.Merge(cb2)  // a + b
	cb.Merge(ca2)  // b + a
	ab, ba := usetOf(&ca), usetOf(&cb)
	maxSkip := max(sa.Skip, sb.Skip)
	// F-C04 pattern: operands of different skip degree, or thinning during the merge
	// (or an operand that an earlier such merge left inconsistent: a stored hash not divisible by 2^skip)
	wfa, wfb := usetOf(a).consistent(), usetOf(b).consistent()
	pattern := sa.Skip != sb.Skip || ab.skip > maxSkip || ba.skip > maxSkip || !wfa || !wfb
	report := func(name string) {
		if pattern {
			h.known = append(h.known, name)
		} else {
			h.fails = append(h.fails, name)
		}
	}
	if !ab.equal(ba) {
		report("unique_merge_commutes")
	}
	if ca.Size(true) != cb.Size(true) {
		report("unique_estimate_order_independent")
	}
	if wfa && wfb && (!ab.consistent() || !ba.consistent()) {
		report("unique_result_thinned_consistently")
	}
	// MergeRead(Marshall(b)) into a copy of a
	cr := clone(a)
	cb3 := clone(b)
	if err := cr.MergeRead(bytes.NewBuffer(cb3.MarshallAppend(nil))); err == nil && !sa.Nil {
		rd := usetOf(&cr)
		patternRead := sb.Skip > sa.Skip || pattern
		if !rd.equal(ab) {
			if patternRead {
				h.known = append(h.known, "unique_mergeread_equals_merge")
			} else {
				h.fails = append(h.fails, "unique_mergeread_equals_merge")
			}
		}
	}
	if pattern {
		h.kinds["uniq/merge-diff-skip-or-thinning"] = true
	}
}

func (h *uhist) apply(o uop) {
	ch := &h.regs[o.r1]
	before := ch.VerifState().Skip
	switch o.kind {
	case "ins":
		for _, v := range o.vals {
			ch.Insert(v)
			h.note(o.r1, ch.VerifHash(v))
		}
		h.insertOracle(o.r1)
	case "hash":
		for _, v := range o.vals {
			ch.VerifInsertHash(uint32(v))
			h.note(o.r1, uint32(v))
		}
		h.insertOracle(o.r1)
	case "range":
		for k := 0; k < o.n; k++ {
			ch.VerifInsertHash(o.a + uint32(k)*o.step)
			h.note(o.r1, o.a+uint32(k)*o.step)
		}
		h.insertOracle(o.r1)
	case "merge":
		h.impure[o.r1] = true
		h.mergeOracles(ch, &h.regs[o.r2])
		if h.regs[o.r2].VerifState().Skip != before && !h.regs[o.r2].VerifState().Nil && !ch.VerifState().Nil {
			h.diffSkip = true
		}
		ch.Merge(h.regs[o.r2])
	case "mread":
		h.impure[o.r1] = true
		if err := ch.MergeRead(bytes.NewBuffer(h.regs[o.r2].MarshallAppend(nil))); err != nil {
			panic(err)
		}
	case "reset":
		ch.Reset()
		h.impure[o.r1], h.shadow[o.r1] = false, nil
	case "unm":
		h.impure[o.r1] = true
		*ch = data_model.ChUnique{}
		items := make([]uint32, len(o.vals))
		for i, v := range o.vals {
			items[i] = uint32(v)
		}
		if err := ch.MergeRead(wire(o.sd, items)); err != nil {
			panic(err)
		}
	}
	h.tableOracle(o.r1)
	if o.kind != "unm" && o.kind != "reset" && ch.VerifState().Skip > before {
		h.thinned = true
	}
	h.ops = append(h.ops, o.term())
	h.obs = append(h.obs, udig(ch))
	h.text = append(h.text, o.text())
	h.kinds["uniq/op-"+o.kind] = true
}

func (h *uhist) finish(label string) {
	kinds := []string{"uniq/" + label}
	for k := range h.kinds {
		kinds = append(kinds, k)
	}
	if h.thinned {
		kinds = append(kinds, "uniq/thinned")
	}
	sort.Strings(kinds)
	input := label + ": " + strings.Join(h.text, "; ")
	if len(input) > 280 {
		input = input[:280] + "…"
	}
	term := "CUniq [" + strings.Join(h.ops, "; ") + "] [" + strings.Join(h.obs, "; ") + "]"
	line := h.o.Case(input, term, h.thinned || h.diffSkip || len(h.ops) >= 6, kinds...)
	for _, f := range h.fails {
		h.o.Fail(f, line, input)
	}
	if h.reportKnown {
		for _, f := range h.known {
			h.o.Fail(f+"_skip", line, input)
		}
	}
}

// hashes that collide in the table: same high bits (place = x >> 15 masked), different low bits
func clusterHashes(r *vu.Rng, n int) []uint64 {
	base := uint32(r.Intn(1<<17)) << 15
	if r.Chance(30) { // end of the table: chains wrap around
		base = uint32((1<<17)-1-r.Intn(3)) << 15
	}
	out := make([]uint64, n)
	for i := range out {
		hi := base + uint32(r.Intn(3))<<15
		low := uint32(r.Intn(1 << 15))
		switch r.Intn(4) {
		case 0:
			low &^= 1 // divisible by 2
		case 1:
			low &^= 7
		}
		out[i] = uint64(hi | low)
	}
	return out
}

func smallUniqHistory(r *vu.Rng, o *vu.Out, reportKnown bool) {
	h := &uhist{o: o, reportKnown: reportKnown, kinds: map[string]bool{}}
	nops := 4 + r.Intn(14)
	pool := make([]uint64, 12)
	for i := range pool {
		pool[i] = uint64(r.Intn(50))
		if r.Chance(30) {
			pool[i] = r.U64()
		}
	}
	if r.Chance(12) {
		// a collision chain that wraps around the end of the table at the moment it grows: X and Y both live in the
		// last cell of the 16-cell table (Y spills into cell 0); after growth X (and sometimes Y) belongs to the upper half
		reg := r.Intn(4)
		low := func() uint32 { return uint32(r.Intn(1 << 15)) }
		x := uint32(31+32*r.Intn(1000))<<15 | low()
		y := uint32(15+16*r.Intn(2000))<<15 | low()
		vals := []uint64{uint64(x), uint64(y)}
		for j := 0; j < r.Intn(3); j++ {
			vals = append(vals, uint64(uint32(15+16*r.Intn(2000))<<15|low()))
		}
		h.apply(uop{kind: "hash", r1: reg, vals: vals})
		fill := make([]uint64, 7+r.Intn(12))
		for j := range fill {
			fill[j] = uint64(r.U32() | 1)
		}
		h.apply(uop{kind: "hash", r1: reg, vals: fill})
		h.apply(uop{kind: "hash", r1: reg, vals: vals}) // the same hashes once more
		h.kinds["uniq/wrap-at-resize"] = true
	}
	for i := 0; i < nops; i++ {
		r1 := r.Intn(4)
		r2 := (r1 + 1 + r.Intn(3)) % 4
		switch k := r.Intn(100); {
		case k < 25:
			n := 1 + r.Intn(12)
			if r.Chance(10) {
				n = 20 + r.Intn(60) // forces resizes
			}
			vals := make([]uint64, n)
			for j := range vals {
				if r.Chance(60) {
					vals[j] = pool[r.Intn(len(pool))]
				} else {
					vals[j] = r.U64()
				}
			}
			h.apply(uop{kind: "ins", r1: r1, vals: vals})
		case k < 40:
			vals := clusterHashes(r, 1+r.Intn(14))
			if r.Chance(25) {
				vals[r.Intn(len(vals))] = 0
			}
			h.apply(uop{kind: "hash", r1: r1, vals: vals})
		case k < 45:
			h.apply(uop{kind: "range", r1: r1, a: r.U32(), step: r.U32() | 1, n: 1 + r.Intn(200)})
		case k < 70:
			h.apply(uop{kind: "merge", r1: r1, r2: r2})
		case k < 82:
			h.apply(uop{kind: "mread", r1: r1, r2: r2})
		case k < 85:
			h.apply(uop{kind: "reset", r1: r1})
		default:
			// a sketch as it arrives from the wire, already thinned to degree sd
			sd := byte(r.Intn(4))
			if r.Chance(10) {
				sd = byte(r.Pick(0, 1, 15, 16, 31, 32, 33, 255))
			}
			n := r.Intn(12)
			seen := map[uint32]bool{}
			var vals []uint64
			for j := 0; j < n; j++ {
				x := uint32(clusterHashes(r, 1)[0])
				if r.Chance(50) {
					x = r.U32()
				}
				if sd < 32 {
					x = (x >> sd) << sd
				} else {
					x = 0
				}
				if x == 0 && r.Chance(70) {
					continue
				}
				if seen[x] {
					continue
				}
				seen[x] = true
				vals = append(vals, uint64(x))
			}
			h.apply(uop{kind: "unm", r1: r1, sd: sd, vals: vals})
		}
	}
	h.finish("small")
}

// histories that cross uniquesHashMaxSize: thinning at one or two different degrees
func bigUniqHistory(r *vu.Rng, o *vu.Out, reportKnown bool, variant int) {
	h := &uhist{o: o, reportKnown: reportKnown, kinds: map[string]bool{}}
	_, maxSize, _, _ := data_model.VerifChConsts()
	rng := func(reg, n int) uop { return uop{kind: "range", r1: reg, a: r.U32(), step: r.U32() | 1, n: n} }
	label := ""
	switch variant % 6 {
	case 0: // thinned + small, both sides
		label = "big/thinned+small"
		h.apply(rng(0, maxSize+1+r.Intn(maxSize)))
		h.apply(rng(1, 500+r.Intn(1500)))
		h.apply(uop{kind: "merge", r1: 0, r2: 1})
	case 1: // small + thinned
		label = "big/small+thinned"
		h.apply(rng(0, 500+r.Intn(1500)))
		h.apply(rng(1, maxSize+1+r.Intn(maxSize)))
		h.apply(uop{kind: "merge", r1: 0, r2: 1})
	case 2: // thinning in the middle of a merge of two unthinned sketches
		label = "big/thinning-mid-merge"
		h.apply(rng(0, maxSize/2+r.Intn(maxSize/2)))
		h.apply(rng(1, maxSize/2+1+r.Intn(maxSize/2)))
		h.apply(uop{kind: "merge", r1: 0, r2: 1})
	case 3: // exactly at the boundary: maxSize items, then one more
		label = "big/boundary"
		a, st := r.U32(), r.U32()|1
		h.apply(uop{kind: "range", r1: 0, a: a, step: st, n: maxSize})
		h.apply(uop{kind: "range", r1: 1, a: a + uint32(maxSize)*st, step: st, n: 1 + r.Intn(3)})
		h.apply(uop{kind: "merge", r1: 0, r2: 1})
	case 4: // two different degrees, three operands
		label = "big/two-degrees"
		h.apply(rng(0, 2*maxSize+1+r.Intn(maxSize)))
		h.apply(rng(1, maxSize+1+r.Intn(maxSize/2)))
		h.apply(rng(2, 1000+r.Intn(30000)))
		h.apply(uop{kind: "merge", r1: 1, r2: 2})
		h.apply(uop{kind: "merge", r1: 0, r2: 1})
	default: // MergeRead of a thinned sketch into a small one and the reverse
		label = "big/mergeread"
		h.apply(rng(0, 500+r.Intn(1500)))
		h.apply(rng(1, maxSize+1+r.Intn(maxSize)))
		h.apply(uop{kind: "mread", r1: 0, r2: 1})
		h.apply(rng(2, 500+r.Intn(1500)))
		h.apply(uop{kind: "mread", r1: 1, r2: 2})
	}
	h.finish(label)
}

// ---------- MultiValue cases ----------

func genLeaves(r *vu.Rng, nl int) []leaf {
	hosts := []int64{0, 1, 2, 3, 7, -5, 1<<32 + 1, 1<<32 + 2}
	nh := 1 + r.Intn(len(hosts))
	vpool := make([]float64, 1+r.Intn(5))
	for i := range vpool {
		vpool[i] = float64(r.Intn(161)-80) / 8
	}
	upool := make([]uint64, 8)
	for i := range upool {
		upool[i] = uint64(r.Intn(30))
	}
	counts := []float64{1, 1, 1, 2, 3, 0.5, 1.5, 10, 0, 0.5}
	negative := r.Chance(4)
	ls := make([]leaf, nl)
	for i := range ls {
		ne := r.Intn(4)
		if r.Chance(50) {
			ne = 1
		}
		for j := 0; j < ne; j++ {
			e := event{isValue: r.Chance(65), c: counts[r.Intn(len(counts))], host: hosts[r.Intn(nh)]}
			if negative && r.Chance(30) {
				e.c = -float64(1+r.Intn(3)) / 2
			}
			if e.isValue {
				e.v = vpool[r.Intn(len(vpool))]
			}
			ls[i].events = append(ls[i].events, e)
		}
		if r.Chance(40) {
			for j := 0; j < 1+r.Intn(4); j++ {
				ls[i].uniq = append(ls[i].uniq, upool[r.Intn(len(upool))])
			}
		}
	}
	return ls
}

func multiCase(r *vu.Rng, o *vu.Out) {
	nl := 1 + r.Intn(5)
	if r.Chance(8) {
		nl = 6 + r.Intn(35)
	}
	multiCaseWith(r, o, genLeaves(r, nl))
}

// ---------- the agent -> aggregator path: MultiValueToTL, WriteTL1/ReadTL1, MergeWithTL2 ----------

type tlGroup struct {
	agent  int64 // host of the sending agent: the host of every contribution without an explicit one
	leaves []leaf
}

var tlMeta = func() *format.MetricMetaValue {
	m := &format.MetricMetaValue{MetricID: 1, Name: "a", Kind: "value"}
	if err := m.RestoreCachedInfo(); err != nil {
		panic(err)
	}
	return m
}()

// Groups are merged in memory on their agent (random tree), shipped as TL and merged on the aggregator in the
// given order. Every group is either fully explicit (all events carry a host) or fully implicit (none does), so
// that the recorded finding F-C02b (an empty min/max-count host next to a non-empty max host is filled with the
// max host) cannot occur; all counts are positive (a row with count 0 is not sent at all).
func runTL(r *vu.Rng, groups []tlGroup, order []int) *data_model.MultiValue {
	var agg data_model.MultiValue
	rng := rand.New(r.U64())
	for _, gi := range order {
		g := groups[gi]
		part, _ := runMulti(r.U64(), g.leaves, randTree(r, perm(r, len(g.leaves))))
		var src tlstatshouse.MultiValue
		var fm uint32
		scratch := part.MultiValueToTL(tlMeta, &src, 1, &fm, nil)
		scratch = src.WriteTL1(scratch[:0], fm)
		var dst tlstatshouse.MultiValueBytes
		if _, err := dst.ReadTL1(scratch, fm); err != nil {
			panic(err)
		}
		if ie := agg.MergeWithTL2(rng, &dst, fm, tagOf(g.agent), data_model.AggregatorPercentileCompression); ie != 0 {
			panic(fmt.Sprintf("ingestion error %d", ie))
		}
	}
	return &agg
}

func tlCase(r *vu.Rng, o *vu.Out) {
	agents := []int64{90, 91, 92, 1<<32 + 9}
	explicit := []int64{1, 2, 3, 7, -5, 1<<32 + 1}
	counts := []float64{1, 1, 2, 3, 0.5, 1.5, 10}
	vpool := make([]float64, 1+r.Intn(4))
	for i := range vpool {
		vpool[i] = float64(r.Intn(161)-80) / 8
	}
	ng := 1 + r.Intn(4)
	groups := make([]tlGroup, ng)
	var flat []leaf
	for gi := range groups {
		g := &groups[gi]
		g.agent = agents[r.Intn(len(agents))]
		implicit := r.Chance(35)
		nh := 1 + r.Intn(3)
		for li := 0; li < 1+r.Intn(3); li++ {
			var l leaf
			for j := 0; j < 1+r.Intn(3); j++ {
				e := event{isValue: r.Chance(70), c: counts[r.Intn(len(counts))]}
				if !implicit {
					e.host = explicit[r.Intn(nh)]
				}
				if e.isValue {
					e.v = vpool[r.Intn(len(vpool))]
				}
				l.events = append(l.events, e)
			}
			if r.Chance(30) {
				for j := 0; j < 1+r.Intn(3); j++ {
					l.uniq = append(l.uniq, uint64(r.Intn(30)))
				}
			}
			g.leaves = append(g.leaves, l)
			flat = append(flat, l)
		}
	}
	// the in-memory merge of the same leaves is the recorded (modelled) case
	line, input := multiCaseWith(r, o, flat)
	o.Hist["multi/tl-path"]++
	// expected aggregates; a contribution without a host counts for its agent
	var cnt, sum, sq float64
	mn, mx := math.Inf(1), math.Inf(-1)
	uniq := map[uint64]bool{}
	host := func(g tlGroup, e event) int64 {
		if e.host == 0 {
			return g.agent
		}
		return e.host
	}
	for _, g := range groups {
		for _, l := range g.leaves {
			for _, e := range l.events {
				cnt += e.c
				if e.isValue {
					sum += e.v * e.c
					sq += e.v * e.v * e.c
					mn, mx = math.Min(mn, e.v), math.Max(mx, e.v)
				}
			}
			for _, u := range l.uniq {
				uniq[u] = true
			}
		}
	}
	minHosts, maxHosts, cntHosts := map[int64]bool{}, map[int64]bool{}, map[int64]bool{}
	for _, g := range groups {
		for _, l := range g.leaves {
			for _, e := range l.events {
				cntHosts[host(g, e)] = true
				if e.isValue && e.v == mn {
					minHosts[host(g, e)] = true
				}
				if e.isValue && e.v == mx {
					maxHosts[host(g, e)] = true
				}
			}
		}
	}
	var agentsTxt []string
	for _, g := range groups {
		agentsTxt = append(agentsTxt, fmt.Sprintf("%d:%d", g.agent, len(g.leaves)))
	}
	input = "tl agents=" + strings.Join(agentsTxt, ",") + " " + input
	if len(input) > 295 {
		input = input[:295] + "…"
	}
	var orders [][]int
	if ng <= 3 {
		orders = allPerms(ng)
	} else {
		for i := 0; i < 4; i++ {
			orders = append(orders, perm(r, ng))
		}
	}
	for _, ord := range orders {
		v := runTL(r, groups, ord)
		if v.Value.Count() != cnt {
			o.Fail("count_is_sum_of_contributions_tl", line, input)
		}
		if v.Value.ValueSet != !math.IsInf(mn, 1) {
			o.Fail("value_set_tl", line, input)
		}
		if v.Value.ValueSet {
			if v.Value.ValueMin != mn || v.Value.ValueMax != mx {
				o.Fail("min_max_of_contributions_tl", line, input)
			}
			if v.Value.ValueSum != sum || v.Value.ValueSumSquare != sq {
				o.Fail("sum_sumsq_of_contributions_tl", line, input)
			}
			if !minHosts[idOf(v.Value.MinHostTag)] {
				o.Fail("min_host_contributed_min_tl", line, input)
			}
			if !maxHosts[idOf(v.Value.MaxHostTag)] {
				o.Fail("max_host_contributed_max_tl", line, input)
			}
		}
		if !cntHosts[idOf(v.Value.MaxCounterHostTag)] {
			o.Fail("max_count_host_contributed_tl", line, input)
		}
		if int(v.HLL.Size(true)) != len(uniq) {
			o.Fail("unique_count_of_union_tl", line, input)
		}
	}
}

func multiCaseWith(r *vu.Rng, o *vu.Out, ls []leaf) (int, string) {
	nl := len(ls)
	t := randTree(r, perm(r, nl))
	seed := r.U64()
	res, draws := runMulti(seed, ls, t)
	var lt, ltxt []string
	nonneg := true
	for _, l := range ls {
		var es, et []string
		for _, e := range l.events {
			es = append(es, e.term())
			et = append(et, e.text())
			if e.c < 0 {
				nonneg = false
			}
		}
		lt = append(lt, "(["+strings.Join(es, "; ")+"], "+listU64(l.uniq)+")")
		ltxt = append(ltxt, "["+strings.Join(et, " ")+fmt.Sprintf(" u%v]", l.uniq))
	}
	input := fmt.Sprintf("multi seed=%d tree=%s leaves=%s", seed, t.text(), strings.Join(ltxt, ""))
	if len(input) > 290 {
		input = input[:290] + "…"
	}
	term := fmt.Sprintf("CVal [%s] %s %s %s %s", strings.Join(lt, "; "), t.term(), listU64(draws), vobs(&res.Value), udig(&res.HLL))
	kinds := []string{"multi"}
	if len(draws) > 0 {
		kinds = append(kinds, "multi/rng-draw")
	}
	if nl > 5 {
		kinds = append(kinds, "multi/large-tree")
	}
	if !nonneg {
		kinds = append(kinds, "multi/negative-count")
	}
	line := o.Case(input, term, nl >= 2 && res.Value.ValueSet, kinds...)
	if !nonneg {
		return line, input // the property is about accepted contributions (negative counters are rejected at ingestion)
	}
	// ---- oracles: expected aggregates straight from the contributions ----
	var cnt, sum, sq float64
	mn, mx := math.Inf(1), math.Inf(-1)
	minHosts, maxHosts, cntHosts := map[int64]bool{}, map[int64]bool{}, map[int64]bool{}
	uniq := map[uint64]bool{}
	for _, l := range ls {
		for _, e := range l.events {
			cnt += e.c
			if e.c > 0 {
				cntHosts[e.host] = true
			}
			if e.isValue {
				sum += e.v * e.c
				sq += e.v * e.v * e.c
				mn, mx = math.Min(mn, e.v), math.Max(mx, e.v)
			}
		}
		for _, u := range l.uniq {
			uniq[u] = true
		}
	}
	for _, l := range ls {
		for _, e := range l.events {
			if e.isValue && e.v == mn {
				minHosts[e.host] = true
			}
			if e.isValue && e.v == mx {
				maxHosts[e.host] = true
			}
		}
	}
	check := func(v *data_model.MultiValue, what string) {
		if v.Value.Count() != cnt {
			o.Fail("count_is_sum_of_contributions"+what, line, input)
		}
		if v.Value.ValueSet != !math.IsInf(mn, 1) {
			o.Fail("value_set"+what, line, input)
		}
		if v.Value.ValueSet {
			if v.Value.ValueMin != mn || v.Value.ValueMax != mx {
				o.Fail("min_max_of_contributions"+what, line, input)
			}
			if v.Value.ValueSum != sum || v.Value.ValueSumSquare != sq {
				o.Fail("sum_sumsq_of_contributions"+what, line, input)
			}
			if !minHosts[idOf(v.Value.MinHostTag)] {
				o.Fail("min_host_contributed_min"+what, line, input)
			}
			if !maxHosts[idOf(v.Value.MaxHostTag)] {
				o.Fail("max_host_contributed_max"+what, line, input)
			}
		}
		if cnt > 0 && !cntHosts[idOf(v.Value.MaxCounterHostTag)] {
			o.Fail("max_count_host_contributed"+what, line, input)
		}
		if int(v.HLL.Size(true)) != len(uniq) {
			o.Fail("unique_count_of_union"+what, line, input)
		}
	}
	check(res, "")
	// ---- the same multiset under other permutations and groupings ----
	ref := usetOf(&res.HLL)
	var perms [][]int
	if nl <= 4 {
		perms = allPerms(nl)
	} else {
		for i := 0; i < 6; i++ {
			perms = append(perms, perm(r, nl))
		}
	}
	for _, p := range perms {
		t2 := randTree(r, p)
		res2, _ := runMulti(r.U64(), ls, t2)
		check(res2, "_permuted")
		if !usetOf(&res2.HLL).equal(ref) {
			o.Fail("unique_order_independent", line, input)
		}
	}
	return line, input
}

// ---------- API rows ----------

type tsRow struct {
	v    api.VerifTsValues
	uniq []uint64
}

func tsObs(v api.VerifTsValues) string {
	return fmt.Sprintf("(TsObs %s %s %s %s %s %s %s %s %s %s)", q(v.Min, 8), q(v.Max, 8), q(v.Sum, 128), q(v.Count, 2), q(v.SumSquare, 128),
		q(v.Cardinality, 2), vu.Z(int64(v.MinHostArg)), q(float64(v.MinHostVal), 8), vu.Z(int64(v.MaxHostArg)), q(float64(v.MaxHostVal), 8))
}

func evalTs(t *tree, rows []tsRow) api.VerifTsValues {
	if t.l == nil {
		v := rows[t.leaf].v
		v.Unique = data_model.ChUnique{}
		for _, u := range rows[t.leaf].uniq {
			v.Unique.Insert(u)
		}
		return v
	}
	a := evalTs(t.l, rows)
	b := evalTs(t.r, rows)
	return api.VerifTsMerge(a, b)
}

func tsCase(r *vu.Rng, o *vu.Out) {
	n := 1 + r.Intn(5)
	vpool := make([]float64, 1+r.Intn(4))
	for i := range vpool {
		vpool[i] = float64(r.Intn(81)-40) / 8
	}
	rows := make([]tsRow, n)
	var terms, txt []string
	for i := range rows {
		a, b := vpool[r.Intn(len(vpool))], vpool[r.Intn(len(vpool))]
		if a > b {
			a, b = b, a
		}
		c := float64(1+r.Intn(6)) / 2
		v := api.VerifTsValues{Min: a, Max: b, Sum: (a + b) * c / 2 * 2, Count: c, SumSquare: (a*a + b*b) * c, Cardinality: float64(r.Intn(5)),
			MinHostArg: int32(r.Intn(5)), MaxHostArg: int32(r.Intn(5)), MinHostVal: float32(a), MaxHostVal: float32(b)}
		if r.Chance(10) { // host columns not filled
			v.MinHostArg, v.MinHostVal, v.MaxHostArg, v.MaxHostVal = 0, 0, 0, 0
		}
		rows[i].v = v
		for j := 0; j < r.Intn(5); j++ {
			rows[i].uniq = append(rows[i].uniq, uint64(r.Intn(20)))
		}
		terms = append(terms, "("+tsObs(v)+", "+listU64(rows[i].uniq)+")")
		txt = append(txt, fmt.Sprintf("[min=%g max=%g cnt=%g minh=%d maxh=%d u%v]", a, b, c, v.MinHostArg, v.MaxHostArg, rows[i].uniq))
	}
	t := randTree(r, perm(r, n))
	res := evalTs(t, rows)
	input := fmt.Sprintf("ts tree=%s rows=%s", t.text(), strings.Join(txt, ""))
	if len(input) > 290 {
		input = input[:290] + "…"
	}
	term := fmt.Sprintf("CTs [%s] %s %s %s %d", strings.Join(terms, "; "), t.term(), tsObs(res), udig(&res.Unique), res.MergeCount)
	line := o.Case(input, term, n >= 2, "ts")
	// oracles
	minv, maxv := float32(math.Inf(1)), float32(math.Inf(-1))
	for _, rw := range rows {
		minv, maxv = min(minv, rw.v.MinHostVal), max(maxv, rw.v.MaxHostVal)
	}
	okMin, okMax := false, false
	for _, rw := range rows {
		if rw.v.MinHostVal == minv && rw.v.MinHostArg == res.MinHostArg {
			okMin = true
		}
		if rw.v.MaxHostVal == maxv && rw.v.MaxHostArg == res.MaxHostArg {
			okMax = true
		}
	}
	if !okMin || res.MinHostVal != minv {
		o.Fail("ts_min_host_contributed_min", line, input)
	}
	if !okMax || res.MaxHostVal != maxv {
		o.Fail("ts_max_host_contributed_max", line, input)
	}
	ref := usetOf(&res.Unique)
	for _, p := range allPerms(n) {
		if n > 3 && r.Chance(80) {
			continue
		}
		res2 := evalTs(randTree(r, p), rows)
		if res2.Min != res.Min || res2.Max != res.Max || res2.Sum != res.Sum || res2.Count != res.Count || res2.SumSquare != res.SumSquare ||
			res2.Cardinality != res.Cardinality || res2.MinHostVal != res.MinHostVal || res2.MaxHostVal != res.MaxHostVal {
			o.Fail("ts_order_independent", line, input)
		}
		if !usetOf(&res2.Unique).equal(ref) {
			o.Fail("ts_unique_order_independent", line, input)
		}
	}
}

// ---------- finding witnesses on the real code ----------

func findingWitnesses(o *vu.Out) {
	// F-C04a: a thinned sketch merged with a small one depends on the side
	build := func(from, to uint64) data_model.ChUnique {
		var c data_model.ChUnique
		for v := from; v < to; v++ {
			c.Insert(v)
		}
		return c
	}
	a1, b1 := build(0, 200000), build(200000, 201001)
	a2, b2 := build(0, 200000), build(200000, 201001)
	a1.Merge(b1) // thinned <- small
	b2.Merge(a2) // small <- thinned
	if a1.Size(true) != b2.Size(true) || !usetOf(&a1).consistent() {
		o.Finding("F-C04a", "reproduced")
	} else {
		o.Finding("F-C04a", "gone")
	}
	// F-C04b: MergeRead of a thinned sketch into a small one keeps the small skip degree
	a3, b3 := build(0, 200000), build(200000, 201001)
	a4, b4 := build(0, 200000), build(200000, 201001)
	_ = b3.MergeRead(bytes.NewBuffer(a3.MarshallAppend(nil)))
	b4.Merge(a4)
	if b3.VerifState().Skip != a3.VerifState().Skip || !usetOf(&b3).equal(usetOf(&b4)) {
		o.Finding("F-C04b", "reproduced")
	} else {
		o.Finding("F-C04b", "gone")
	}
}

// F-C04c: a sketch deserialised with exactly uniquesHashMaxSize items gets sizeDegree 18 (log2(ic)+2 without the
// "-1" of the ClickHouse original), so maxFill = 2^17 and shrinkIfNeed returns before the thinning test: the sketch
// grows past uniquesHashMaxSize, and its own serialisation is then rejected by UmMarshall/MergeRead/ReadFrom.
func findingSizeDegree(o *vu.Out) {
	_, maxSize, _, _ := data_model.VerifChConsts()
	var a data_model.ChUnique
	for k := 0; k < maxSize; k++ {
		a.VerifInsertHash(uint32(12345) + uint32(k)*2654435761)
	}
	var b data_model.ChUnique
	if err := b.MergeRead(bytes.NewBuffer(a.MarshallAppend(nil))); err != nil || int(a.VerifState().Count) != maxSize {
		o.Finding("F-C04c", "gone")
		return
	}
	for k := maxSize; k < maxSize+1000; k++ {
		b.VerifInsertHash(uint32(12345) + uint32(k)*2654435761)
	}
	var c data_model.ChUnique
	err := c.MergeRead(bytes.NewBuffer(b.MarshallAppend(nil)))
	if int(b.VerifState().Count) > maxSize && b.VerifState().Skip == 0 && err != nil {
		o.Finding("F-C04c", "reproduced")
	} else {
		o.Finding("F-C04c", "gone")
	}
}

func main() {
	seed := flag.Uint64("seed", 1, "")
	n := flag.Int("n", 1500, "")
	big := flag.Int("big", 6, "number of histories that cross uniquesHashMaxSize")
	every := flag.Int("big-every", 40, "a big history at the head of every block of this many cases (= shard_size)")
	reportKnown := flag.Bool("report-known", false, "also report oracle failures that match the recorded finding F-C04 (as <oracle>_skip)")
	out := flag.String("out", "", "")
	flag.Parse()
	r := vu.NewRng(*seed)
	o := vu.NewOut(*out)
	defer o.Close()

	findingWitnesses(o)
	findingSizeDegree(o)
	// one history that crosses uniquesHashMaxSize at the head of every block of *every cases, so that
	// each correspondence shard (shard_size = *every) replays at most one of the expensive ones
	bigDone := 0
	for i := 0; i < *n; i++ {
		if *every > 0 && i%*every == 0 && bigDone < *big {
			bigUniqHistory(r, o, *reportKnown, bigDone+int(*seed))
			bigDone++
			continue
		}
		switch k := i % 10; {
		case k < 3:
			multiCase(r, o)
		case k < 5:
			tlCase(r, o)
		case k < 6:
			tsCase(r, o)
		default:
			smallUniqHistory(r, o, *reportKnown)
		}
	}
}
