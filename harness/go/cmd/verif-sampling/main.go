//go:build verif

// Correspondence harness for C05/C06 (sampling): drives the real NewSampler/Add/Run on generated buckets,
// records every KeepF/DiscardF observation, evaluates the property oracles on the implementation and prints
// cases for Sampling/Corr.v.
package main

import (
	"flag"
	"fmt"
	"math"
	"math/big"
	"sort"
	"strings"

	"pgregory.net/rand"

	"github.com/VKCOM/statshouse/internal/agent"
	"github.com/VKCOM/statshouse/internal/data_model"
	"github.com/VKCOM/statshouse/internal/format"
	vu "github.com/VKCOM/statshouse/internal/verifutil"
)

type metricSpec struct {
	id, ns, group int32
	nsw, gw, mw   int64 // nsw/gw: 0 = no meta for that namespace/group
	nsa           bool
	fki           []int
	budget        uint32
	viaStorage    bool // the meta storage knows this metric
	missing       bool // expected resolution is missingMetricMeta (no row carries the metric's own meta and the storage cannot resolve it)
}

type rowSpec struct {
	id     int
	m      *metricSpec
	size   int
	whale  int
	single bool
	imeta  int // what Item.MetricMeta is: 0 the meta of the accounted metric, 1 nil, 2 the meta of ANOTHER metric (re-accounted row)
	tags   [4]int32
	item   *data_model.MultiItem
}

type cfgSpec struct {
	agent, keepSingle, disableNSA, budgets, nss, groups, keys, quota bool
	rng                                                           bool
	noMeta                                                        bool
}

type bucketSpec struct {
	cfg     cfgSpec
	budget  int64
	metrics []*metricSpec
	rows    []*rowSpec
}

type metaMock struct {
	metrics map[int32]*format.MetricMetaValue
	groups  map[int32]*format.MetricsGroup
	nss     map[int32]*format.NamespaceMeta
}

func (m *metaMock) GetMetaMetric(id int32) *format.MetricMetaValue {
	if v, ok := m.metrics[id]; ok {
		return v
	}
	return nil
}
func (m *metaMock) GetMetaMetricByName(string) *format.MetricMetaValue { return nil }
func (m *metaMock) GetGroup(id int32) *format.MetricsGroup {
	if v, ok := m.groups[id]; ok {
		return v
	}
	return nil
}
func (m *metaMock) GetNamespace(id int32) *format.NamespaceMeta {
	if v, ok := m.nss[id]; ok {
		return v
	}
	return nil
}
func (m *metaMock) GetNamespaceByName(string) *format.NamespaceMeta { return nil }
func (m *metaMock) GetGroupByName(string) *format.MetricsGroup      { return nil }

type event struct {
	kind  int // 0 keep, 1 discard
	row   int
	sf    float64
	quota uint32
}

type result struct {
	events   []event
	perms    [][]int
	rdraws   []float64
	seldraws map[int]float64
	selsf    map[int]float64 // factor given to SelectF for each row it received
	fragile  bool
	panicked string
}

func fairKey(c cfgSpec, r *rowSpec) string {
	if !c.keys || len(r.m.fki) == 0 || r.m.missing {
		return ""
	}
	n := len(r.m.fki)
	if n > 3 {
		n = 3
	}
	var sb strings.Builder
	for j := 0; j < n; j++ {
		x := r.m.fki[j]
		v := int32(0)
		if 0 <= x && x < format.MaxTags {
			if x < 4 {
				v = r.tags[x]
			}
		}
		fmt.Fprintf(&sb, "%d,", v)
	}
	return sb.String()
}

func leafKey(c cfgSpec, r *rowSpec) string {
	return fmt.Sprintf("%d/%d/%s", r.m.id, r.m.budget, fairKey(c, r))
}

// runReal executes the real sampler on the bucket.
func runReal(b *bucketSpec, seed uint64) (res result) {
	res.seldraws = map[int]float64{}
	res.selsf = map[int]float64{}
	c := b.cfg
	byItem := map[*data_model.MultiItem]*rowSpec{}
	mock := &metaMock{metrics: map[int32]*format.MetricMetaValue{}, groups: map[int32]*format.MetricsGroup{}, nss: map[int32]*format.NamespaceMeta{}}
	metas := map[int32]*format.MetricMetaValue{}
	for _, m := range b.metrics {
		mv := &format.MetricMetaValue{MetricID: m.id, NamespaceID: m.ns, GroupID: m.group, EffectiveWeight: m.mw, NoSampleAgent: m.nsa, FairKeyIndex: m.fki}
		metas[m.id] = mv
		if m.viaStorage {
			mock.metrics[m.id] = mv
		}
		if m.gw != 0 {
			mock.groups[m.group] = &format.MetricsGroup{ID: m.group, NamespaceID: m.ns, EffectiveWeight: m.gw}
		}
		if m.nsw != 0 {
			mock.nss[m.ns] = &format.NamespaceMeta{ID: m.ns, EffectiveWeight: m.nsw}
		}
	}
	foreign := foreignMeta(b)
	mock.nss[foreign.NamespaceID] = &format.NamespaceMeta{ID: foreign.NamespaceID, EffectiveWeight: 4}
	var r *rand.Rand
	if c.rng {
		r = rand.New(seed)
	}
	replay := func(before rand.Rand) (draws []float64) {
		cp := before
		for i := 0; cp != *r && i < 100000; i++ {
			draws = append(draws, cp.Float64())
		}
		return draws
	}
	conf := data_model.SamplerConfig{
		ModeAgent: c.agent, SampleKeepSingle: c.keepSingle, DisableNoSampleAgent: c.disableNSA,
		SampleBudgets: c.budgets, SampleNamespaces: c.nss, SampleGroups: c.groups, SampleKeys: c.keys,
		Rand: r,
		KeepF: func(v *data_model.MultiItem, _ uint32, quota uint32) {
			res.events = append(res.events, event{0, byItem[v].id, v.SF, quota})
		},
		DiscardF: func(v *data_model.MultiItem, _ uint32) {
			res.events = append(res.events, event{1, byItem[v].id, v.SF, 0})
		},
	}
	if !c.noMeta {
		conf.Meta = mock
	}
	if c.quota {
		conf.SampleF = data_model.SampleQuota
	}
	rowByID := map[int]*rowSpec{}
	for _, rw := range b.rows {
		rowByID[rw.id] = rw
	}
	conf.SelectF = func(items []data_model.SamplingMultiItemPair, sf float64, rr *rand.Rand) int {
		ids := make([]int, len(items))
		for i := range items {
			ids[i] = byItem[items[i].Item].id
		}
		// the leaf = whales kept just before (same leaf key) followed by the rows given to SelectF
		var lk string
		if len(ids) > 0 {
			lk = leafKey(c, rowByID[ids[0]])
		} else if n := len(res.events); n > 0 {
			lk = leafKey(c, rowByID[res.events[n-1].row])
		}
		var whales []int
		for i := len(res.events) - 1; i >= 0; i-- {
			e := res.events[i]
			if e.kind != 0 || e.sf != 1 || leafKey(c, rowByID[e.row]) != lk {
				break
			}
			whales = append([]int{e.row}, whales...)
		}
		res.perms = append(res.perms, append(whales, ids...))
		for _, id := range ids {
			res.selsf[id] = sf
		}
		if !c.rng {
			n := int(math.Floor(float64(len(items))/sf + 1e-9))
			if n > len(items) {
				n = len(items)
			}
			if n < 0 {
				n = 0
			}
			return n
		}
		before := *rr
		n := data_model.VerifSelectRandom(items, sf, rr)
		draws := replay(before)
		for i := 0; i < len(draws) && i < len(ids); i++ {
			res.seldraws[ids[i]] = draws[i]
			if math.Abs(draws[i]*sf-1) < 1e-9 {
				res.fragile = true
			}
		}
		if len(draws) != 0 && len(draws) != len(ids) {
			res.fragile = false // not a rounding matter: let the model disagree
		}
		return n
	}
	conf.RoundF = func(x float64, rr *rand.Rand) float64 {
		if !c.rng {
			return math.Floor(x + 1e-9)
		}
		before := *rr
		v := data_model.VerifRoundSampleFactor(x, rr)
		draws := replay(before)
		res.rdraws = append(res.rdraws, draws...)
		for _, u := range draws {
			if math.Abs(u-(x-math.Floor(x))) < 1e-9 {
				res.fragile = true
			}
		}
		return v
	}
	defer func() {
		if e := recover(); e != nil {
			res.panicked = fmt.Sprint(e)
		}
	}()
	s := data_model.NewSampler(conf)
	for _, rw := range b.rows {
		it := &data_model.MultiItem{}
		it.Key.Metric = rw.m.id
		for i, t := range rw.tags {
			it.Key.Tags[i] = t
		}
		if !rw.single {
			it.Top = map[data_model.TagUnion]*data_model.MultiValue{{I: 1}: {}, {I: 2}: {}}
		}
		switch rw.imeta {
		case 0:
			it.MetricMeta = metas[rw.m.id]
		case 2:
			it.MetricMeta = foreign
		}
		rw.item = it
		byItem[it] = rw
		s.Add(data_model.SamplingMultiItemPair{Item: it, WhaleWeight: float64(rw.whale), Size: rw.size, MetricID: rw.m.id, Budget: rw.m.budget, BucketTs: 1000})
	}
	s.Run(b.budget)
	return res
}

func ratTerm(x float64) string {
	r := new(big.Rat)
	if r.SetFloat64(x) == nil {
		return "(q 0 1)"
	}
	n := r.Num().String()
	if r.Num().Sign() < 0 {
		n = "(" + n + ")"
	}
	return fmt.Sprintf("(q %s %s)", n, r.Denom().String())
}

func listInt(xs []int) string {
	p := make([]string, len(xs))
	for i, x := range xs {
		p[i] = vu.Z(int64(x))
	}
	return "[" + strings.Join(p, ";") + "]"
}

// foreignMeta: the meta of another metric, attached to re-accounted rows (as the built-in ingestion status meta is)
func foreignMeta(b *bucketSpec) *format.MetricMetaValue {
	w := int64(1 + len(b.rows)%5)
	return &format.MetricMetaValue{MetricID: 777777, NamespaceID: 9, GroupID: 99, EffectiveWeight: w, NoSampleAgent: len(b.rows)%3 == 0, FairKeyIndex: []int{0}}
}

func metTerm(c cfgSpec, m *metricSpec) string {
	nsw, gw := m.nsw, m.gw
	if c.noMeta || m.ns == 0 {
		nsw = 0
	}
	if c.noMeta || m.group == 0 {
		gw = 0
	}
	return fmt.Sprintf("(M %s %s %s %d %d %d %s %s)", vu.Z(int64(m.id)), vu.Z(int64(m.ns)), vu.Z(int64(m.group)), nsw, gw, m.mw, vu.B(m.nsa), listInt(m.fki))
}

func listNat(xs []int) string {
	p := make([]string, len(xs))
	for i, x := range xs {
		p[i] = fmt.Sprintf("%d%%nat", x)
	}
	return "[" + strings.Join(p, ";") + "]"
}

func rowTerm(c cfgSpec, r *rowSpec, mi, foreignIdx int) string {
	tags := "[]"
	if c.keys {
		tags = listInt([]int{int(r.tags[0]), int(r.tags[1]), int(r.tags[2]), int(r.tags[3])})
	}
	im := "None"
	switch r.imeta {
	case 0:
		im = fmt.Sprintf("(Some %d%%nat)", mi)
	case 2:
		im = fmt.Sprintf("(Some %d%%nat)", foreignIdx)
	}
	return fmt.Sprintf("(R %d %s %d %s %s %d %s %s)", r.id, vu.Z(int64(r.size)), r.whale, vu.B(r.single), vu.Z(int64(r.m.id)), r.m.budget, im, tags)
}

// finalizeMetas decides what each Item carries as MetricMeta and whether the storage knows the metric, such that all rows
// of one accounted metric resolve to the same meta under the rule "Item.MetricMeta only if its MetricID is the accounted one,
// else the storage, else missingMetricMeta".
func finalizeMetas(r *vu.Rng, b *bucketSpec) {
	c := b.cfg
	for _, m := range b.metrics {
		mode := r.Intn(100)
		allOwn, allOther := false, false
		switch {
		case mode < 50:
			allOwn, m.viaStorage = true, r.Chance(30)
		case mode < 80: // known to the storage; rows carry their own meta, none, or the meta of another metric
			m.viaStorage = true
			if c.noMeta {
				allOwn = r.Bool()
				allOther = !allOwn
			}
		case mode < 88: // unknown everywhere
			m.viaStorage, allOther = false, true
		default: // only re-accounted / meta-less rows this second
			m.viaStorage, allOther = true, true
		}
		own := false
		for _, rw := range b.rows {
			if rw.m != m {
				continue
			}
			switch {
			case allOwn:
				rw.imeta = 0
			case allOther:
				rw.imeta = 1 + r.Intn(2)
			default:
				rw.imeta = r.Intn(3)
			}
			own = own || rw.imeta == 0
		}
		m.missing = !own && (!m.viaStorage || c.noMeta)
	}
}

func b01(b bool) byte {
	if b {
		return '1'
	}
	return '0'
}

func genBucket(r *vu.Rng, directed int) *bucketSpec {
	b := &bucketSpec{}
	c := &b.cfg
	c.agent, c.keepSingle, c.disableNSA = r.Bool(), r.Chance(30), r.Chance(30)
	c.budgets, c.nss, c.groups, c.keys = r.Chance(40), r.Bool(), r.Bool(), r.Bool()
	c.quota = r.Chance(12)
	c.rng = r.Chance(40)
	c.noMeta = r.Chance(8)
	nMetrics := 1 + r.Intn(11)
	if r.Chance(30) {
		nMetrics = 1 + r.Intn(3)
	}
	nNs := 1 + r.Intn(3)
	type nsT struct {
		id  int32
		w   int64
		grp []int32
	}
	weights := []int64{0, 1, 1, 2, 3, 5, 10}
	var nss []nsT
	gid := int32(10)
	gws := map[int32]int64{}
	for i := 0; i < nNs; i++ {
		n := nsT{id: int32(i + 1), w: weights[r.Intn(len(weights))]}
		if r.Chance(5) {
			n.id = 0
		}
		for g := 0; g < 1+r.Intn(2); g++ {
			gid++
			id := gid
			if r.Chance(4) {
				id = 0
			}
			if r.Chance(4) {
				id = 11 // the same group id under several namespaces
			}
			n.grp = append(n.grp, id)
			if _, ok := gws[id]; !ok {
				gws[id] = weights[r.Intn(len(weights))]
			}
		}
		nss = append(nss, n)
	}
	hasFixed := r.Chance(45)
	rowID := 0
	equalSize := r.Chance(45)
	baseSize := 2 + r.Intn(120)
	for i := 0; i < nMetrics; i++ {
		n := nss[r.Intn(len(nss))]
		m := &metricSpec{id: int32(i + 1), ns: n.id, nsw: n.w, group: n.grp[r.Intn(len(n.grp))]}
		if r.Chance(10) {
			m.id = -100000 - int32(i)
		}
		m.gw = gws[m.group]
		m.mw = []int64{1, 1, 1, 2, 3, 7, 10}[r.Intn(7)]
		m.nsa = r.Chance(12)
		if r.Chance(45) {
			for j := 0; j < 1+r.Intn(3); j++ {
				x := r.Intn(4)
				if r.Chance(6) {
					x = []int{-1, 48, 47, 100}[r.Intn(4)]
				}
				m.fki = append(m.fki, x)
			}
			if r.Chance(5) {
				m.fki = append(m.fki, 1, 2)
			}
		}
		if hasFixed && r.Chance(40) {
			m.budget = uint32(1 + r.Intn(400))
		}
		b.metrics = append(b.metrics, m)
		nRows := 1 + r.Intn(8)
		if r.Chance(15) {
			nRows = 10 + r.Intn(30)
		}
		if r.Chance(20) {
			nRows = 1
		}
		distinctWhales := r.Bool()
		for k := 0; k < nRows; k++ {
			rw := &rowSpec{id: rowID, m: m, single: r.Chance(50)}
			rowID++
			rw.size = baseSize
			if !equalSize {
				rw.size = 1 + r.Intn(200)
				if r.Chance(10) {
					rw.size = 1 + r.Intn(3)
				}
				if r.Chance(3) {
					rw.size = -r.Intn(3) // Size < 1: discarded by Add
				}
			}
			rw.whale = r.Intn(6)
			if distinctWhales {
				rw.whale = k*7 + r.Intn(7)
			}
			tagRange := 3
			if r.Chance(30) {
				tagRange = 5
			}
			for t := 0; t < 4; t++ {
				rw.tags[t] = int32(r.Intn(tagRange))
			}
			b.rows = append(b.rows, rw)
		}
	}
	// fixed budgets directed at the metric's own size
	for _, m := range b.metrics {
		if m.budget != 0 && r.Chance(60) {
			sz := 0
			for _, rw := range b.rows {
				if rw.m == m && rw.size > 0 {
					sz += rw.size
				}
			}
			v := sz + []int{-1, 0, 1, -sz / 2, sz}[r.Intn(5)]
			if v < 1 {
				v = 1
			}
			m.budget = uint32(v)
		}
	}
	// shuffle Add order
	for i := len(b.rows) - 1; i > 0; i-- {
		j := r.Intn(i + 1)
		b.rows[i], b.rows[j] = b.rows[j], b.rows[i]
	}
	total := int64(0)
	for _, rw := range b.rows {
		if rw.size > 0 {
			total += int64(rw.size)
		}
	}
	switch r.Intn(9) {
	case 0:
		b.budget = total
	case 1:
		b.budget = total - 1
	case 2:
		b.budget = total + 1 + int64(r.Intn(50))
	case 3:
		b.budget = total / 2
	case 4:
		b.budget = int64(r.Intn(3))
	case 5:
		b.budget = total * 3 / 4
	default:
		b.budget = int64(r.Intn(int(2*total + 2)))
	}
	_ = directed
	finalizeMetas(r, b)
	return b
}

// genDirected: sibling partitions (metrics, groups or namespaces) with DIFFERENT effective weights whose size/weight
// ratios are equal, differ by one unit of the cross product, or share the integer quotient; the budget is placed at the
// total size, next to it, or on the share boundary of one of the partitions.
func genDirected(r *vu.Rng) *bucketSpec {
	b := &bucketSpec{}
	c := &b.cfg
	level := r.Intn(3) // 0: metrics, 1: groups, 2: namespaces are the weighted siblings
	c.agent, c.keepSingle, c.disableNSA = r.Bool(), r.Chance(15), r.Bool()
	c.budgets, c.keys, c.quota, c.rng = r.Chance(15), r.Chance(30), r.Chance(8), r.Chance(30)
	switch level {
	case 0:
		c.nss, c.groups = r.Chance(25), r.Chance(25)
	case 1:
		c.groups, c.nss = true, r.Chance(25)
	default:
		c.nss, c.groups = true, r.Bool()
	}
	wset := []int64{1, 2, 3, 5, 7, 64, 128, 256, 384, 640, 1280}
	k := 2
	if r.Chance(35) {
		k = 3
	}
	var ws []int64
	for len(ws) < k {
		w := wset[r.Intn(len(wset))]
		if r.Chance(50) {
			w = []int64{128, 256, 384}[r.Intn(3)] // multiples of EffectiveWeightOne
		}
		dup := false
		for _, x := range ws {
			dup = dup || x == w
		}
		if !dup {
			ws = append(ws, w)
		}
	}
	q := int64(1 + r.Intn(9))
	mode := r.Intn(4)
	fracNum := int64(r.Intn(16)) // common fractional part, in 16ths
	sizes := make([]int64, k)
	for i, w := range ws {
		var rem int64
		switch mode {
		case 0: // exactly equal ratios
			rem = 0
		case 1: // same integer quotient, arbitrary remainders
			rem = int64(r.Intn(int(w)))
		default: // nearly equal ratios: remainders of the same fraction, off by -1..1
			rem = w*fracNum/16 + int64(r.Intn(3)) - 1
		}
		if rem < 0 {
			rem = 0
		}
		if rem >= w {
			rem = w - 1
		}
		sizes[i] = q*w + rem
		if mode == 3 && r.Chance(30) { // quotients one apart
			sizes[i] += w
		}
	}
	rowID := 0
	mid := int32(0)
	addMetric := func(ns, group int32, nsw, gw, mw int64, size int64) {
		mid++
		m := &metricSpec{id: mid, ns: ns, group: group, nsw: nsw, gw: gw, mw: mw}
		b.metrics = append(b.metrics, m)
		n := int64(1 + r.Intn(6))
		if n > size {
			n = size
		}
		for j := int64(0); j < n; j++ {
			sz := size / n
			if j < size%n {
				sz++
			}
			rw := &rowSpec{id: rowID, m: m, size: int(sz), whale: r.Intn(8), single: r.Bool()}
			rowID++
			b.rows = append(b.rows, rw)
		}
	}
	small := []int64{1, 2, 3}
	for i := 0; i < k; i++ {
		switch level {
		case 0:
			addMetric(1, 11, 2, 3, ws[i], sizes[i])
		case 1:
			g := int32(11 + i)
			if sizes[i] >= 2 && r.Bool() { // two metrics in the group
				a := 1 + int64(r.Intn(int(sizes[i]-1)))
				addMetric(1, g, 2, ws[i], small[r.Intn(3)], a)
				addMetric(1, g, 2, ws[i], small[r.Intn(3)], sizes[i]-a)
			} else {
				addMetric(1, g, 2, ws[i], small[r.Intn(3)], sizes[i])
			}
		default:
			ns := int32(1 + i)
			g := int32(11 + i)
			if sizes[i] >= 2 && r.Bool() {
				a := 1 + int64(r.Intn(int(sizes[i]-1)))
				addMetric(ns, g, ws[i], 1, small[r.Intn(3)], a)
				addMetric(ns, g, ws[i], 1, small[r.Intn(3)], sizes[i]-a)
			} else {
				addMetric(ns, g, ws[i], 1, small[r.Intn(3)], sizes[i])
			}
		}
	}
	if r.Bool() { // reverse the ids' order relative to the ratios
		for i := len(b.rows) - 1; i > 0; i-- {
			j := r.Intn(i + 1)
			b.rows[i], b.rows[j] = b.rows[j], b.rows[i]
		}
	}
	total, W, maxS := int64(0), int64(0), int64(0)
	for i := range sizes {
		total += sizes[i]
		W += ws[i]
		if sizes[i] > maxS {
			maxS = sizes[i]
		}
	}
	switch r.Intn(7) {
	case 0, 1:
		b.budget = total
	case 2:
		b.budget = total - 1
	case 3:
		b.budget = total + 1
	case 4:
		b.budget = total - int64(r.Intn(int(maxS)+1))
	default: // the share boundary of one partition: B*w ~ W*size
		i := r.Intn(k)
		b.budget = (W*sizes[i]+ws[i]-1)/ws[i] + int64(r.Intn(3)) - 1
	}
	if b.budget < 0 {
		b.budget = 0
	}
	finalizeMetas(r, b)
	return b
}

// genFairKeys: a metric with a fair key of length >= 2 that is over budget: one small first-level key within its share and
// several big ones, each with 2-5 distinct second-level values (so that nested partitionByKey calls happen for partitions
// at every sorted position), optionally a third level and a neighbour metric.
func genFairKeys(r *vu.Rng) *bucketSpec {
	b := &bucketSpec{}
	c := &b.cfg
	c.agent, c.keepSingle, c.disableNSA = r.Bool(), r.Chance(15), r.Bool()
	c.keys, c.nss, c.groups, c.budgets = true, r.Chance(30), r.Chance(30), r.Chance(15)
	c.quota, c.rng = r.Chance(8), r.Chance(35)
	m := &metricSpec{id: 1, ns: 1, group: 11, nsw: 2, gw: 1, mw: 1}
	m.fki = [][]int{{0, 1}, {1, 0}, {0, 1, 2}, {2, 0}}[r.Intn(4)]
	b.metrics = append(b.metrics, m)
	rowID := 0
	size := 5 + r.Intn(60)
	nFirst := 2 + r.Intn(4)
	for v0 := 0; v0 < nFirst; v0++ {
		nSecond := 2 + r.Intn(4)
		per := 1 + r.Intn(3)
		if v0 == 0 && r.Chance(70) { // the small key
			nSecond, per = 1, 1+r.Intn(2)
		}
		for v1 := 0; v1 < nSecond; v1++ {
			for k := 0; k < per; k++ {
				rw := &rowSpec{id: rowID, m: m, size: size, whale: r.Intn(50), single: r.Bool()}
				if r.Chance(25) {
					rw.size = 1 + r.Intn(2*size)
				}
				rowID++
				rw.tags[m.fki[0]] = int32(v0)
				rw.tags[m.fki[1]] = int32(v1)
				for t := 0; t < 4; t++ {
					if t != m.fki[0] && t != m.fki[1] {
						rw.tags[t] = int32(r.Intn(3))
					}
				}
				b.rows = append(b.rows, rw)
			}
		}
	}
	if r.Chance(40) {
		m2 := &metricSpec{id: 2, ns: 1, group: 11, nsw: 2, gw: 1, mw: int64(1 + r.Intn(3))}
		b.metrics = append(b.metrics, m2)
		for k := 0; k < 1+r.Intn(5); k++ {
			b.rows = append(b.rows, &rowSpec{id: rowID, m: m2, size: size, whale: r.Intn(9), single: r.Bool()})
			rowID++
		}
	}
	total := int64(0)
	for _, rw := range b.rows {
		total += int64(rw.size)
	}
	b.budget = total * int64(1+r.Intn(9)) / 10
	if r.Chance(10) {
		b.budget = total
	}
	for i := len(b.rows) - 1; i > 0; i-- {
		j := r.Intn(i + 1)
		b.rows[i], b.rows[j] = b.rows[j], b.rows[i]
	}
	finalizeMetas(r, b)
	return b
}

type rowObs struct {
	n     int
	kept  bool
	sf    float64
	quota uint32
}

func describe(b *bucketSpec, fixedOver, fixedFit int) string {
	c := b.cfg
	var sb strings.Builder
	fmt.Fprintf(&sb, "cfg=%c%c%c%c%c%c%c%c rng=%c nometa=%c budget=%d fixedover=%d fixedfit=%d rows[id:size:whale:metric:fixed]=",
		b01(c.agent), b01(c.keepSingle), b01(c.disableNSA), b01(c.budgets), b01(c.nss), b01(c.groups), b01(c.keys), b01(c.quota), b01(c.rng), b01(c.noMeta), b.budget, fixedOver, fixedFit)
	for i, rw := range b.rows {
		if sb.Len() > 260 {
			fmt.Fprintf(&sb, "...(%d rows)", len(b.rows))
			break
		}
		if i > 0 {
			sb.WriteByte(' ')
		}
		fmt.Fprintf(&sb, "%d:%d:%d:%d:%d", rw.id, rw.size, rw.whale, rw.m.id, rw.m.budget)
	}
	sb.WriteString(" metrics[id:ns:grp:nsw:gw:mw:nsa]=")
	for i, m := range b.metrics {
		if sb.Len() > 420 {
			sb.WriteString("...")
			break
		}
		if i > 0 {
			sb.WriteByte(' ')
		}
		fmt.Fprintf(&sb, "%d:%d:%d:%d:%d:%d:%c", m.id, m.ns, m.group, m.nsw, m.gw, m.mw, b01(m.nsa))
	}
	return sb.String()
}

// topKey: the key of the first partition level below the fixed-budget split; ok=false when the consecutive-run
// quirks make that level ambiguous (the oracle is then not evaluated)
func topKey(b *bucketSpec, rw *rowSpec) (string, int64) {
	c := b.cfg
	m := rw.m
	ns, group, mw, nsw, gw := m.ns, m.group, m.mw, m.nsw, m.gw
	if m.missing {
		ns, group, mw = format.BuiltinNamespaceIDMissing, format.BuiltinGroupIDMissing, 1
	}
	if c.noMeta || ns == 0 || nsw < 1 {
		nsw = 1
	}
	if c.noMeta || group == 0 || gw < 1 {
		gw = 1
	}
	switch {
	case c.nss:
		return fmt.Sprintf("ns%d", ns), nsw
	case c.groups:
		return fmt.Sprintf("ns%d/g%d", ns, group), gw
	default:
		return fmt.Sprintf("m%d", m.id), mw
	}
}

// which property's oracles are evaluated (the two properties share the harness)
var prop = "C05"

type failer struct {
	o *vu.Out
}

var c05Oracles = map[string]bool{"no_panic": true, "each_row_once": true, "small_row_discarded_maxfloat": true, "kept_sf_ge_1": true, "kept_sf_ge_1_fixed_metric_within_budget": true,
	"no_sample_agent_kept": true, "quota_factors": true, "random_keep_is_draw_below_inverse_factor": true, "row_carries_selection_factor": true, "agent_kept_row_carries_factor_on_wire": true, "agent_each_row_at_most_once_on_wire": true,
	"kept_without_selection_has_factor_1": true}

func (f failer) Fail(name string, line int, input string) {
	if name == "no_panic" || name == "each_row_once" || c05Oracles[name] == (prop == "C05") {
		f.o.Fail(name, line, input)
	}
}
func (f failer) Case(input, term string, nontrivial bool, kinds ...string) int {
	return f.o.Case(input, term, nontrivial, kinds...)
}

func evalCase(o0 *vu.Out, b *bucketSpec, seed uint64) (skipped bool) {
	o := failer{o0}
	c := b.cfg
	res := runReal(b, seed)
	if res.fragile {
		o0.Hist["skipped/float-fragile"]++
		return true
	}
	obs := map[int]*rowObs{}
	for _, e := range res.events {
		ro := obs[e.row]
		if ro == nil {
			ro = &rowObs{}
			obs[e.row] = ro
		}
		ro.n++
		ro.kept, ro.sf, ro.quota = e.kind == 0, e.sf, e.quota
	}
	// per-metric facts
	fixedOver := 0
	anyFixedRow := false
	msize := map[*metricSpec]int64{}
	for _, rw := range b.rows {
		if rw.size > 0 {
			msize[rw.m] += int64(rw.size)
		}
		if rw.m.budget != 0 {
			anyFixedRow = true
		}
	}
	fixedFit := 0 // fixed-budget metrics whose size is within their own budget
	for m, sz := range msize {
		if c.budgets && m.budget != 0 && int64(m.budget) < sz {
			fixedOver++
		}
		if c.budgets && m.budget != 0 && int64(m.budget) >= sz {
			fixedFit++
		}
	}
	input := describe(b, fixedOver, fixedFit)
	// Coq term
	var rows, ob, perms, rd, sd []string
	sorted := append([]*rowSpec(nil), b.rows...)
	var mets []string
	midx := map[*metricSpec]int{}
	for i, m := range b.metrics {
		midx[m] = i
		mets = append(mets, metTerm(c, m))
	}
	fm := foreignMeta(b)
	mets = append(mets, fmt.Sprintf("(M %d %d %d %d 0 %d %s %s)", fm.MetricID, fm.NamespaceID, fm.GroupID, map[bool]int{true: 0, false: 4}[c.noMeta], fm.EffectiveWeight, vu.B(fm.NoSampleAgent), listInt(fm.FairKeyIndex)))
	var storage []int
	for i, m := range b.metrics {
		if m.viaStorage {
			storage = append(storage, i)
		}
	}
	for _, rw := range b.rows {
		rows = append(rows, rowTerm(c, rw, midx[rw.m], len(b.metrics)))
	}
	sort.Slice(sorted, func(i, j int) bool { return sorted[i].id < sorted[j].id })
	for _, rw := range sorted {
		if ro := obs[rw.id]; ro != nil {
			if ro.kept && ro.sf == 1 {
				ob = append(ob, fmt.Sprintf("OK1 %d %d", rw.id, ro.quota))
			} else {
				ob = append(ob, fmt.Sprintf("Ob %d %s %s %d", rw.id, vu.B(ro.kept), ratTerm(ro.sf), ro.quota))
			}
		}
	}
	for _, p := range res.perms {
		perms = append(perms, listInt(p))
	}
	mode := "MDet"
	if c.rng {
		for _, u := range res.rdraws {
			rd = append(rd, ratTerm(u))
		}
		ids := make([]int, 0, len(res.seldraws))
		for id := range res.seldraws {
			ids = append(ids, id)
		}
		sort.Ints(ids)
		for _, id := range ids {
			sd = append(sd, fmt.Sprintf("(%d,%s)", id, ratTerm(res.seldraws[id])))
		}
		mode = fmt.Sprintf("(MRng [%s] [%s])", strings.Join(rd, ";"), strings.Join(sd, ";"))
	}
	term := fmt.Sprintf("CRun (mkcfg %s %s %s %s %s %s %s %s false) %s %s [%s] %s [%s] %s [%s] [%s]",
		vu.B(c.agent), vu.B(c.keepSingle), vu.B(c.disableNSA), vu.B(c.budgets), vu.B(c.nss), vu.B(c.groups), vu.B(c.keys), vu.B(c.quota),
		vu.Z(b.budget), vu.B(!c.noMeta), strings.Join(mets, ";"), listNat(storage), strings.Join(rows, ";"), mode, strings.Join(perms, ";"), strings.Join(ob, ";"))
	nSampled, nWhale, nSmall := 0, 0, 0
	for _, rw := range b.rows {
		if ro := obs[rw.id]; ro != nil && ro.sf != 1 && rw.size > 0 {
			nSampled++
		}
		if rw.size < 1 {
			nSmall++
		}
	}
	for _, p := range res.perms {
		if len(p) > 0 {
			if ro := obs[p[0]]; ro != nil && ro.kept && ro.sf == 1 {
				nWhale++
			}
		}
	}
	kinds := []string{"mode/" + map[bool]string{false: "det", true: "rng"}[c.rng]}
	if c.quota {
		kinds = append(kinds, "quota")
	}
	if nSampled > 0 {
		kinds = append(kinds, "some-row-sampled")
	} else {
		kinds = append(kinds, "all-kept")
	}
	if nWhale > 0 {
		kinds = append(kinds, "with-whales")
	}
	if fixedOver > 0 {
		kinds = append(kinds, "fixed-budget-exceeded")
	}
	if len(res.rdraws) > 0 {
		kinds = append(kinds, "nested-rounding-draw")
	}
	if nSmall > 0 {
		kinds = append(kinds, "size<1-rows")
	}
	if res.panicked != "" {
		kinds = append(kinds, "panic")
	}
	kinds = append(kinds, fmt.Sprintf("opts/%c%c%c%c%c%c%c", b01(c.agent), b01(c.keepSingle), b01(c.disableNSA), b01(c.budgets), b01(c.nss), b01(c.groups), b01(c.keys)))
	line := o.Case(input, term, nSampled > 0 && len(b.metrics) > 1, kinds...)

	// ---- property oracles evaluated on the implementation's own output
	if res.panicked != "" {
		o.Fail("no_panic", line, input+" panic="+res.panicked)
	}
	total, keptSize, quotaSum := int64(0), int64(0), int64(0)
	equalSize := true
	firstSize := 0
	weightsOK := true
	for _, m := range b.metrics {
		if m.mw < 1 {
			weightsOK = false
		}
	}
	nsaActive := false
	for _, rw := range b.rows {
		ro := obs[rw.id]
		if ro == nil || ro.n != 1 {
			o.Fail("each_row_once", line, input)
			return
		}
		if rw.size < 1 {
			if ro.kept || ro.sf != math.MaxFloat32 {
				o.Fail("small_row_discarded_maxfloat", line, input)
			}
			continue
		}
		if firstSize == 0 {
			firstSize = rw.size
		}
		if rw.size != firstSize {
			equalSize = false
		}
		total += int64(rw.size)
		if ro.kept {
			keptSize += int64(rw.size)
			quotaSum += int64(ro.quota)
			if ro.sf < 1 { // a keep probability cannot exceed 1
				if c.budgets && rw.m.budget != 0 && int64(rw.m.budget) >= msize[rw.m] {
					o.Fail("kept_sf_ge_1_fixed_metric_within_budget", line, input)
				} else {
					o.Fail("kept_sf_ge_1", line, input)
				}
			}
		}
		nsa := rw.m.nsa && !rw.m.missing
		if nsa && c.agent && !c.disableNSA {
			nsaActive = true
			if !c.quota && (!ro.kept || ro.sf != 1) {
				o.Fail("no_sample_agent_kept", line, input)
			}
		}
		if ssf, ok := res.selsf[rw.id]; ok {
			if ro.sf != ssf {
				o.Fail("row_carries_selection_factor", line, input)
			}
			if u, ok := res.seldraws[rw.id]; ok && math.Abs(u*ssf-1) > 1e-9 {
				if !(ro.sf > 1) || ro.kept != (u*ro.sf < 1) {
					o.Fail("random_keep_is_draw_below_inverse_factor", line, input)
				}
			}
		} else if !c.quota && ro.kept && ro.sf != 1 {
			o.Fail("kept_without_selection_has_factor_1", line, input)
		}
		if c.quota && ((ro.kept && ro.sf != 1) || (!ro.kept && ro.sf != math.MaxFloat32)) {
			o.Fail("quota_factors", line, input)
		}
	}
	fixedInPlay := c.budgets && anyFixedRow
	if !fixedInPlay && weightsOK && total <= b.budget {
		for _, rw := range b.rows {
			if ro := obs[rw.id]; rw.size > 0 && (!ro.kept || ro.sf != 1) {
				o.Fail("fits_budget_nothing_sampled", line, input)
				break
			}
		}
	}
	if !c.rng && !c.quota && !fixedInPlay && !nsaActive && !c.keepSingle && weightsOK && keptSize > b.budget && firstSize >= 2 {
		if equalSize {
			o.Fail("det_kept_size_le_budget_equal_sizes", line, input)
		} else {
			o.Fail("det_kept_size_le_budget", line, input)
		}
	}
	if !c.rng && c.quota && !fixedInPlay && !nsaActive && weightsOK && quotaSum > b.budget && b.budget >= 0 {
		o.Fail("quota_sum_le_budget", line, input)
	}
	if c.quota && !c.keys {
		// inside one metric quotas are monotone in the reported size
		for _, m := range b.metrics {
			var rs []*rowSpec
			for _, rw := range b.rows {
				if rw.m == m && rw.size > 0 {
					rs = append(rs, rw)
				}
			}
			for _, x := range rs {
				for _, y := range rs {
					qx, qy := obs[x.id].quota, obs[y.id].quota
					if x.size <= y.size && qx > qy {
						o.Fail("quota_monotone", line, input)
					}
				}
			}
		}
	}
	// a metric with a fixed per-metric budget that is within that budget is kept entirely with factor 1
	if c.budgets {
	fixedLoop:
		for _, rw := range b.rows {
			if rw.size > 0 && rw.m.budget != 0 && int64(rw.m.budget) >= msize[rw.m] {
				if ro := obs[rw.id]; !ro.kept || ro.sf != 1 {
					o.Fail("fixed_metric_within_budget_kept", line, input)
					break fixedLoop
				}
			}
		}
	}
	// within-share at the first level: a partition with size*W <= B*w is kept entirely with factor 1
	ambiguous := (!c.budgets && anyFixedRow) || !weightsOK
	if c.groups && !c.nss { // the same group id may sit under several namespaces
		seen := map[int32]int32{}
		for _, m := range b.metrics {
			if ns, ok := seen[m.group]; ok && ns != m.ns {
				ambiguous = true
			}
			seen[m.group] = m.ns
		}
	}
	for _, m := range b.metrics {
		if m.missing {
			ambiguous = true
		}
	}
	if !ambiguous {
		psize := map[string]int64{}
		pw := map[string]int64{}
		for _, rw := range b.rows {
			if rw.size < 1 || (c.budgets && rw.m.budget != 0) {
				continue
			}
			k, w := topKey(b, rw)
			psize[k] += int64(rw.size)
			pw[k] = w
		}
		W := int64(0)
		for _, w := range pw {
			W += w
		}
		// a partition with a larger size/weight ratio is never kept entirely while one with a smaller ratio is sampled
		// (deterministic floor rounding only: roundSampleFactor may round the nested budget of the larger one up to its size)
		if !c.rng && !nsaActive && !c.keepSingle && fixedOver == 0 {
			entire := map[string]bool{}
			for k := range psize {
				entire[k] = true
			}
			for _, rw := range b.rows {
				if rw.size < 1 || (c.budgets && rw.m.budget != 0) {
					continue
				}
				k, _ := topKey(b, rw)
				if ro := obs[rw.id]; !ro.kept || ro.sf != 1 || int64(ro.quota) != int64(rw.size) {
					entire[k] = false
				}
			}
		mono:
			for kp, sp := range psize {
				for kq, sq := range psize {
					if sp*pw[kq] < sq*pw[kp] && entire[kq] && !entire[kp] {
						o.Fail("sf_monotone_in_ratio", line, input)
						break mono
					}
				}
			}
		}
		for k, sz := range psize {
			if sz*W <= b.budget*pw[k] {
				for _, rw := range b.rows {
					if rw.size < 1 || (c.budgets && rw.m.budget != 0) {
						continue
					}
					if k2, _ := topKey(b, rw); k2 == k {
						if ro := obs[rw.id]; !ro.kept || ro.sf != 1 {
							o.Fail("within_share_kept", line, input)
							return
						}
					}
				}
			}
		}
	}
	return false
}

// agentStage: the agent path. Shard.sampleBucket samples a bucket that exceeds the shard budget and its keepF writes the
// kept rows into the SourceBucket3; every kept row must be transferred as count*SF and sum*SF (sum as the receiver
// restores it when only min and counter are sent).
func agentStage(o0 *vu.Out, r *vu.Rng) {
	o := failer{o0}
	const now = 1000 * 24 * 3600
	target := []int{2, 3, 4, 10, 6, 20}[r.Intn(6)] // intended factor of the non-whale rows
	n := target * (1 + r.Intn(4))
	if target <= 3 && r.Bool() { // no whales: SF = sf
		n = 2 + r.Intn(2)
		if n >= 2*target {
			n = 2*target - 1
		}
	}
	kind := r.Intn(3) // 0 counter, 1 value rows with min == max, 2 value rows with min != max
	raws := []float64{1, 1, 1, 2, 3, 0.5, 1.5, 2.25}
	sameRaw := r.Chance(60)
	raw0 := raws[r.Intn(len(raws))]
	meta := &format.MetricMetaValue{MetricID: 1, NamespaceID: 1, GroupID: 1, EffectiveResolution: 1, EffectiveWeight: 1}
	meta2 := &format.MetricMetaValue{MetricID: 2, NamespaceID: 1, GroupID: 1, EffectiveResolution: 1, EffectiveWeight: 1}
	type orig struct {
		item     *data_model.MultiItem
		raw, sum float64
	}
	var items []*data_model.MultiItem
	origs := map[[2]int32]*orig{}
	add := func(m *format.MetricMetaValue, i int32, raw float64) int {
		it := &data_model.MultiItem{Key: data_model.Key{Timestamp: now, Metric: m.MetricID, Tags: [format.MaxTags]int32{i}}, SF: 1, MetricMeta: m}
		og := &orig{item: it, raw: raw}
		switch kind {
		case 0:
			it.Tail.Value.AddCounter(raw)
		case 1:
			v := float64(1 + r.Intn(9))
			it.Tail.Value.AddValueCounter(v, raw)
			og.sum = v * raw
		default:
			it.Tail.Value.AddValueCounter(2, raw)
			it.Tail.Value.AddValueCounter(5, 1)
			og.raw, og.sum = raw+1, 2*raw+5
		}
		items = append(items, it)
		origs[[2]int32{m.MetricID, i}] = og
		return it.Key.TLSizeEstimate(now) + it.TLSizeEstimate()
	}
	total := 0
	for i := 1; i <= n; i++ {
		raw := raw0
		if !sameRaw {
			raw = raws[r.Intn(len(raws))]
		}
		total += add(meta, int32(i), raw)
	}
	budget := total * 2 / target // sf = target/2, doubled when whales take half
	if n < 2*target && n <= 3 {
		budget = total / target // no whales: sf = target
	}
	small := 0
	if r.Chance(40) { // a neighbour metric within its share: SF 1 rows
		small = add(meta2, 1, raws[r.Intn(len(raws))])
		budget = 2 * budget // both metrics have weight 1: each gets half
		if small > budget/2 {
			small = 0
		}
	}
	if budget < 1 {
		budget = 1
	}
	rows := agent.VerifSampleBucketWithBudget(now, items, r.U64(), budget)
	var ws []string
	seen := map[[2]int32]bool{}
	bad, dup := false, false
	nSampled1, nSampled := 0, 0
	for _, m := range rows {
		if len(m.Keys) == 0 {
			continue
		}
		k := [2]int32{m.Metric, m.Keys[0]}
		og := origs[k]
		if og == nil {
			continue
		}
		if seen[k] {
			dup = true
		}
		seen[k] = true
		wc := m.Tail.Counter
		if m.Tail.IsSetCounterEq1(m.FieldsMask) {
			wc = 1
		}
		wsum := 0.0
		if m.Tail.IsSetValueSet(m.FieldsMask) {
			if m.Tail.IsSetValueMax(m.FieldsMask) {
				wsum = m.Tail.ValueSum
			} else {
				wsum = m.Tail.ValueMin * wc // MergeWithTLItem2 restores the sum
			}
		}
		sf := og.item.SF
		if sf > 1 {
			nSampled++
			if og.raw == 1 {
				nSampled1++
			}
		}
		if wc != og.raw*sf || math.Abs(wsum-og.sum*sf) > 1e-12*math.Abs(og.sum*sf) {
			bad = true
		}
		ws = append(ws, fmt.Sprintf("W %s %s %s %s %s", ratTerm(og.raw), ratTerm(og.sum), ratTerm(sf), ratTerm(wc), ratTerm(wsum)))
	}
	input := fmt.Sprintf("agent-path kind=%d rows=%d target_sf=%d raw=%v same_raw=%v total=%d shard_budget=%d neighbour=%d kept_on_wire=%d kept_with_sf>1=%d of_them_raw_count_1=%d",
		kind, n, target, raw0, sameRaw, total, budget, small, len(ws), nSampled, nSampled1)
	kinds := []string{"agent-path"}
	if nSampled > 0 {
		kinds = append(kinds, "agent-path/kept-with-sf>1")
	}
	if nSampled1 > 0 {
		kinds = append(kinds, "agent-path/raw-count-1-kept-with-sf>1")
	}
	line := o.Case(input, "CWire ["+strings.Join(ws, ";")+"]", nSampled > 0, kinds...)
	if bad {
		o.Fail("agent_kept_row_carries_factor_on_wire", line, input)
	}
	if dup {
		o.Fail("agent_each_row_at_most_once_on_wire", line, input)
	}
}

func witness(cfg cfgSpec, budget int64, ms []*metricSpec, rows []*rowSpec) *bucketSpec {
	return &bucketSpec{cfg: cfg, budget: budget, metrics: ms, rows: rows}
}

func main() {
	seed := flag.Uint64("seed", 1, "")
	n := flag.Int("n", 1500, "")
	out := flag.String("out", "", "")
	flag.StringVar(&prop, "prop", "C05", "C05 or C06: which property's oracles are evaluated")
	flag.Parse()
	r := vu.NewRng(*seed)
	o := vu.NewOut(*out)
	defer o.Close()

	// recorded findings: replay their witnesses on the real code
	{ // F-C05: metric 1 exceeds its fixed budget, metric 2 (size 100) is within its share of 150 and is kept with SF = 2/3
		m1 := &metricSpec{id: 1, ns: 1, group: 11, mw: 1, budget: 5}
		m2 := &metricSpec{id: 2, ns: 1, group: 11, mw: 1}
		b := witness(cfgSpec{budgets: true}, 150, []*metricSpec{m1, m2}, []*rowSpec{{id: 0, m: m1, size: 10}, {id: 1, m: m2, size: 100}})
		res := runReal(b, 1)
		got := "gone"
		for _, e := range res.events {
			if e.row == 1 && e.kind == 0 && e.sf < 1 {
				got = "reproduced"
			}
		}
		o.Finding("F-C05", got)
		evalCase(o, b, 1)
	}
	{ // F-C05b: metric 2 (size 5) exceeds its share of the bucket budget 2; metric 1 (size 10) is within its own fixed budget 15
		// but is sorted after it, goes through sampler.sample and is kept with SF = 10/15
		m1 := &metricSpec{id: 1, ns: 1, group: 11, mw: 1, budget: 15}
		m2 := &metricSpec{id: 2, ns: 1, group: 11, mw: 1}
		b := witness(cfgSpec{budgets: true}, 2, []*metricSpec{m1, m2}, []*rowSpec{{id: 0, m: m1, size: 10}, {id: 1, m: m2, size: 5}})
		res := runReal(b, 1)
		got := "gone"
		for _, e := range res.events {
			if e.row == 0 && e.kind == 0 && e.sf < 1 {
				got = "reproduced"
			}
		}
		o.Finding("F-C05b", got)
		o.Finding("F-C06c", got) // the same run: the fixed-budget metric within its budget is not kept with factor 1
		evalCase(o, b, 1)
	}
	{ // F-C06: sizes 1,1,1,100 with the heavy row a whale, budget 52: kept size 100+ > 52
		m1 := &metricSpec{id: 1, ns: 1, group: 11, mw: 1}
		rows := []*rowSpec{{id: 0, m: m1, size: 3, whale: 1}, {id: 1, m: m1, size: 3, whale: 2}, {id: 2, m: m1, size: 3, whale: 3}, {id: 3, m: m1, size: 100, whale: 100}}
		b := witness(cfgSpec{}, 55, []*metricSpec{m1}, rows)
		res := runReal(b, 1)
		kept := int64(0)
		for _, e := range res.events {
			if e.kind == 0 {
				kept += int64(rows[e.row].size)
			}
		}
		got := "gone"
		if kept > b.budget {
			got = "reproduced"
		}
		o.Finding("F-C06", got)
		evalCase(o, b, 1)
	}
	for i := 0; o.N < *n && i < *n*3; i++ {
		b := genBucket(r, i)
		if i%4 == 3 {
			b = genDirected(r)
		} else if i%8 == 5 {
			b = genFairKeys(r)
		} else if i%8 == 1 && prop == "C05" {
			agentStage(o, r)
			continue
		}
		evalCase(o, b, r.U64())
	}
}
