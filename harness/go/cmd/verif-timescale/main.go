//go:build verif

// Correspondence harness for C22 (query time axes): drives the real data_model.GetTimescale, GetLODs,
// Timescale.GetLODs, startOfLOD, endOfLOD, roundTime, mathDiv and prints cases for Timescale/Corr.v.
// The clauses of the property are evaluated on the Go output (o.Fail) independently of the model.
package main

import (
	"flag"
	"fmt"
	"strings"
	"time"

	"github.com/VKCOM/statshouse/internal/data_model"
	"github.com/VKCOM/statshouse/internal/format"
	vu "github.com/VKCOM/statshouse/internal/verifutil"
)

const (
	day   = int64(86400)
	week  = 7 * day
	month = 31 * day // _1M
)

var fixedSteps = []int64{604800, 86400, 14400, 3600, 900, 300, 60, 15, 5, 1}

type zone struct {
	name string
	loc  *time.Location
}

func mustZone(name string) zone {
	l, err := time.LoadLocation(name)
	if err != nil {
		panic(err)
	}
	return zone{name, l}
}

// calendar table dumped from Go's time package: (month start, AddDate(0,1,0) of it)
func monthTable(loc *time.Location, from, to int64) [][2]int64 {
	a := time.Unix(from, 0).In(loc)
	y, m := a.Year(), int(a.Month())
	m -= 3
	for m < 1 {
		m += 12
		y--
	}
	var res [][2]int64
	for {
		ms := time.Date(y, time.Month(m), 1, 0, 0, 0, 0, loc).Unix()
		nx := time.Unix(ms, 0).In(loc).AddDate(0, 1, 0).UTC().Unix()
		res = append(res, [2]int64{ms, nx})
		if ms > to+100*day {
			break
		}
		m++
		if m > 12 {
			m = 1
			y++
		}
	}
	return res
}

func tableTerm(t [][2]int64) string {
	parts := make([]string, len(t))
	for i, p := range t {
		parts[i] = fmt.Sprintf("(%s,%s)", vu.Z(p[0]), vu.Z(p[1]))
	}
	return "[" + strings.Join(parts, ";") + "]"
}

func rle(ts []int64) string {
	var parts []string
	for i := 0; i < len(ts); {
		if i+1 == len(ts) {
			parts = append(parts, fmt.Sprintf("(%s,0,1)", vu.Z(ts[i])))
			break
		}
		d := ts[i+1] - ts[i]
		j := i + 1
		for j+1 < len(ts) && ts[j+1]-ts[j] == d {
			j++
		}
		parts = append(parts, fmt.Sprintf("(%s,%s,%d)", vu.Z(ts[i]), vu.Z(d), j-i+1))
		i = j + 1
	}
	return "[" + strings.Join(parts, ";") + "]"
}

func errTerm(err error) string {
	s := err.Error()
	switch {
	case strings.HasPrefix(s, "exceeded maximum resolution"):
		return "EOutOfRange"
	case strings.HasPrefix(s, "LOD out of range"):
		return "ELod"
	case strings.HasPrefix(s, "offset "):
		return "EOffset"
	}
	panic("unknown error: " + s)
}

func floorDiv(a, b int64) int64 {
	q := a / b
	if a%b != 0 && (a < 0) != (b < 0) {
		q--
	}
	return q
}

func logRange(r *vu.Rng, max int64) int64 {
	// log-uniform in [1, max]
	bits := 1
	for (int64(1) << bits) < max {
		bits++
	}
	b := 1 + r.Intn(bits)
	v := int64(r.U64()%(uint64(1)<<b)) + 1
	if v > max {
		v = max
	}
	return v
}

type metricSpec struct {
	off int64
	res int
}

func main() {
	seed := flag.Uint64("seed", 1, "")
	n := flag.Int("n", 3000, "")
	out := flag.String("out", "", "")
	failKnown := flag.Bool("fail-known", false, "report occurrences of recorded finding F-C22a as oracle failures too")
	flag.Parse()
	r := vu.NewRng(*seed)
	o := vu.NewOut(*out)
	defer o.Close()

	levels := data_model.VerifLodLevels()
	maxPoints := data_model.VerifMaxPoints()
	fixedZones := []struct {
		name string
		off  int64
	}{{"UTC", 0}, {"UTC+3", 10800}, {"UTC-5", -18000}, {"UTC+5:30", 19800}, {"UTC+12:45", 45900}, {"UTC-9:30", -34200}}
	monthZones := []zone{mustZone("UTC"), mustZone("Europe/Moscow"), mustZone("America/New_York"), mustZone("Australia/Lord_Howe"), mustZone("Asia/Kolkata")}

	runTs := func(a data_model.GetTimescaleArgs, ms []metricSpec, zname string, tag string) {
		monthly := a.Step == month
		metas := make([]*format.MetricMetaValue, len(ms))
		a.QueryStat = data_model.QueryStat{}
		var mterm []string
		var mtext []string
		for i, m := range ms {
			metas[i] = &format.MetricMetaValue{MetricID: int32(i + 1), Resolution: m.res}
			a.QueryStat.Add(metas[i], m.off)
			mterm = append(mterm, fmt.Sprintf("(%s,%d)", vu.Z(m.off), m.res))
			mtext = append(mtext, fmt.Sprintf("%d/%d", m.off, m.res))
		}
		var maxOff int64
		for _, m := range ms {
			if m.off > maxOff {
				maxOff = m.off
			}
		}
		var tbl [][2]int64
		if monthly {
			lo, hi := a.Start, a.End
			for _, m := range ms {
				if a.Start-m.off < lo {
					lo = a.Start - m.off
				}
				if a.Start-m.off > hi {
					hi = a.Start - m.off
				}
			}
			tbl = monthTable(a.Location, lo-3*month, hi+3*month)
		}
		ts, err := data_model.GetTimescale(a)
		// LODs for the storage layer
		wrapper := len(ms) == 1 && r.Chance(50)
		var lodOff int64
		lodRes := 1
		var lodMeta *format.MetricMetaValue
		if len(ms) > 0 {
			k := r.Intn(len(ms))
			lodOff, lodRes, lodMeta = ms[k].off, ms[k].res, metas[k]
		} else {
			lodMeta = &format.MetricMetaValue{MetricID: 99, Resolution: 1}
		}
		var lods []data_model.LOD
		var lerr error
		if wrapper {
			b := a
			b.QueryStat = data_model.QueryStat{}
			b.Metric, b.Offset = lodMeta, lodOff
			lods, lerr = data_model.GetLODs(b)
		} else if err == nil {
			lods = ts.GetLODs(lodMeta, lodOff)
		} else {
			lerr = err
		}
		input := fmt.Sprintf("ts %s start=%d end=%d step=%d now=%d w=%d mode=%d ext=%v utc=%d zone=%s metrics=%v lod=%d/%d wrapper=%v",
			tag, a.Start, a.End, a.Step, a.TimeNow, a.ScreenWidth, int(a.Mode), a.Extend, a.UTCOffset, zname, mtext, lodOff, lodRes, wrapper)
		modeTerm := [...]string{"MRange", "MInstant", "MPoint", "MTags"}[a.Mode]
		aterm := fmt.Sprintf("{| a_start := %s; a_end := %s; a_step := %s; a_now := %s; a_width := %s; a_mode := %s; a_extend := %s; a_metrics := [%s]; a_utc := %s |}",
			vu.Z(a.Start), vu.Z(a.End), vu.Z(a.Step), vu.Z(a.TimeNow), vu.Z(a.ScreenWidth), modeTerm, vu.B(a.Extend), strings.Join(mterm, ";"), vu.Z(a.UTCOffset))
		var obs string
		if err != nil {
			obs = "(OErr " + errTerm(err) + ")"
		} else {
			var lt []string
			for _, l := range ts.LODs {
				lt = append(lt, fmt.Sprintf("(%d,%d)", l.Step, l.Len))
			}
			obs = fmt.Sprintf("(OOk %s [%s] %d %d %d)", rle(ts.Time), strings.Join(lt, ";"), ts.StartX, ts.ViewStartX, ts.ViewEndX)
		}
		var lobs string
		if lerr != nil {
			lobs = "(LErr " + errTerm(lerr) + ")"
		} else {
			var lt []string
			for _, l := range lods {
				lt = append(lt, fmt.Sprintf("(%s,%s,%d)", vu.Z(l.FromSec), vu.Z(l.ToSec), l.StepSec))
			}
			lobs = "(LOk [" + strings.Join(lt, ";") + "])"
		}
		term := fmt.Sprintf("CTs %s %s %s %s %s %d %s", aterm, tableTerm(tbl), obs, vu.B(wrapper), vu.Z(lodOff), lodRes, lobs)
		point := a.Mode == data_model.PointQuery
		kind := "ts/fixed"
		if monthly {
			kind = "ts/monthly"
		}
		if point {
			kind += "/point"
		}
		kinds := []string{kind, fmt.Sprintf("lods=%d", len(ts.LODs))}
		if err != nil {
			kinds = append(kinds, "err/"+errTerm(err))
		} else if len(ts.Time) == 0 {
			kinds = append(kinds, "empty")
		}
		// recorded finding F-C22a: the start of the (shifted) range lies exactly on a LOD switch and is aligned to the
		// finest step of that level: the level contributes zero points and the code answers "LOD out of range"
		fc22a := false
		if !monthly && a.Start < a.End && a.Step >= 0 {
			for _, l := range levels {
				fin := l.Levels[len(l.Levels)-1]
				s := a.Start - maxOff
				if a.TimeNow-l.RelSwitch == s && floorDiv(s+a.UTCOffset, fin)*fin == s+a.UTCOffset {
					fc22a = true
				}
			}
		}
		if fc22a {
			kinds = append(kinds, "on-switch-aligned")
			input += " fc22a=1"
		}
		// recorded findings of the calendar part: F-C22b = the location has a month whose first local midnight does not
		// exist (AddDate(0,1,0) of that month start is not the next month start); F-C22c = monthly step with a non-zero offset
		known := ""
		if monthly {
			for i := 0; i+1 < len(tbl); i++ {
				if tbl[i][1] != tbl[i+1][0] && tbl[i][0] <= a.End && tbl[i+1][0] >= a.Start-3*month {
					known = "F-C22b"
				}
			}
			if known == "" {
				for _, m := range ms {
					if m.off != 0 {
						known = "F-C22c"
					}
				}
			}
			if known != "" {
				input += " known=" + known
			}
		}
		line := o.Case(input, term, err == nil && len(ts.LODs) >= 2 || (err == nil && monthly && len(ts.Time) > 2), kinds...)
		fail := func(name string) {
			if known != "" {
				o.Hist["finding/"+known]++
				if *failKnown {
					o.Fail(name, line, input)
				}
				return
			}
			o.Fail(name, line, input)
		}

		// ---- property oracles on the implementation's output ----
		if err != nil {
			switch errTerm(err) {
			case "ELod":
				if fc22a {
					o.Hist["finding/F-C22a"]++
					if *failKnown {
						o.Fail("spurious_lod_error", line, input)
					}
				} else {
					o.Fail("spurious_lod_error", line, input)
				}
			case "EOutOfRange":
				// legitimate only if even the coarsest step needs more than maxPoints points
				coarsest := week
				if monthly {
					coarsest = 28 * day
				}
				if point || (a.End-a.Start)/coarsest+2 <= maxPoints {
					fail("error_only_when_out_of_range")
				}
			case "EOffset":
				all0 := true
				for _, m := range ms {
					if m.off%week != 0 || (monthly && m.off != 0) {
						all0 = false
					}
				}
				if all0 {
					fail("offset_error_only_when_unaligned")
				}
			}
			return
		}
		if len(ts.Time) == 0 {
			if !point && a.Start < a.End && a.Step >= 0 && a.Start-maxOff <= a.TimeNow {
				fail("nonempty_when_range_not_in_future")
			}
			return
		}
		isMonthStart := func(t int64) (int, bool) {
			for i, p := range tbl {
				if p[0] == t {
					return i, true
				}
			}
			return 0, false
		}
		// per-point step
		var stepAt []int64
		sumLen := 0
		for k, l := range ts.LODs {
			if _, okT := data_model.LODTables[data_model.Version6][l.Step]; !okT {
				fail("lod_step_in_table")
			}
			if l.Len <= 0 {
				fail("lod_len_positive")
			}
			if k > 0 && ts.LODs[k-1].Step <= l.Step {
				fail("lod_steps_get_finer")
			}
			sumLen += l.Len
			if !point {
				for j := 0; j < l.Len; j++ {
					stepAt = append(stepAt, l.Step)
				}
			}
		}
		aligned := func(t, step int64) bool {
			if step == month {
				_, okM := isMonthStart(t)
				return okM
			}
			return floorDiv(t+a.UTCOffset, step)*step == t+a.UTCOffset
		}
		nextOf := func(t, step int64) int64 {
			if step == month {
				if i, okM := isMonthStart(t); okM && i+1 < len(tbl) {
					return tbl[i+1][0]
				}
				return t - 1 // not a month start: nothing is "next"
			}
			return t + step
		}
		for i := 0; i+1 < len(ts.Time); i++ {
			if ts.Time[i] >= ts.Time[i+1] {
				fail("time_strictly_increasing")
				break
			}
		}
		if point {
			s0 := ts.LODs[0].Step
			if len(ts.Time) != 2 || !aligned(ts.Time[0], s0) || !aligned(ts.Time[1], s0) {
				fail("point_query_endpoints_aligned")
			}
			if !a.Extend && (ts.Time[0] < a.Start || ts.Time[1] > a.End) {
				fail("point_query_within_range")
			}
			if a.Extend && (ts.Time[0] > a.Start || ts.Time[1] < a.End) {
				fail("point_query_covers_range")
			}
		} else {
			if sumLen != len(ts.Time) {
				fail("lod_lens_sum_to_points")
			} else {
				for i := range ts.Time {
					if !aligned(ts.Time[i], stepAt[i]) {
						fail("points_aligned")
						break
					}
				}
				for i := 0; i+1 < len(ts.Time); i++ {
					if nextOf(ts.Time[i], stepAt[i]) != ts.Time[i+1] {
						fail("consecutive_diff_is_lod_step")
						break
					}
				}
			}
			if int64(len(ts.Time)) > maxPoints+3 || len(ts.Time) > data_model.MaxSlice {
				fail("point_count_bounded")
			}
			// coverage: the axis returned to the client is Time[StartX:]; it holds every aligned point of [Start, End),
			// preceded and followed by one more point when Extend is set
			ext := 0
			if a.Extend {
				ext = 1
			}
			nView := len(ts.Time) - ext // points before the one appended for Extend
			if ts.StartX != 1 || ts.ViewStartX != ts.StartX+ext || ts.ViewStartX > nView ||
				(ts.ViewStartX < nView && ts.ViewEndX != nView) || (ts.ViewStartX >= nView && ts.ViewEndX != ts.ViewStartX) {
				fail("indices_in_range")
			} else {
				if ts.Time[ts.ViewStartX-1] >= a.Start || (ts.ViewStartX < len(ts.Time) && ts.Time[ts.ViewStartX] < a.Start) {
					fail("range_covered_from_StartX")
				}
				last := ts.Time[len(ts.Time)-1]
				lastStep := ts.LODs[len(ts.LODs)-1].Step
				if a.Extend {
					if last < a.End || ts.Time[len(ts.Time)-2] >= a.End {
						fail("range_covered_to_end")
					}
				} else if nextOf(last, lastStep) < a.End || last >= a.End {
					fail("range_covered_to_end")
				}
			}
			// storage ranges of a monthly axis start and end at month starts of the location, whatever the offset
			// (regular calendars only; evaluated on every case, also on those tagged with a recorded finding)
			if lerr == nil && monthly && known != "F-C22b" {
				for _, l := range lods {
					for _, x := range []int64{l.FromSec, l.ToSec} {
						lt := time.Unix(x, 0).In(a.Location)
						if time.Date(lt.Year(), lt.Month(), 1, 0, 0, 0, 0, a.Location).Unix() != x {
							o.Fail("lods_start_at_month_starts", line, input)
						}
					}
				}
			}
			// storage ranges
			if lerr == nil {
				if len(lods) != len(ts.LODs) {
					fail("lods_match_time")
				} else {
					x := 0
					for k, l := range lods {
						if l.StepSec != ts.LODs[k].Step || l.FromSec != ts.Time[x]-lodOff && !monthly {
							fail("lods_match_time")
						}
						if monthly && lodOff == 0 && l.FromSec != ts.Time[x] {
							fail("lods_match_time")
						}
						if k > 0 && lods[k-1].ToSec != l.FromSec {
							fail("lods_contiguous")
						}
						if l.StepSec != month && l.ToSec-l.FromSec != int64(ts.LODs[k].Len)*l.StepSec {
							fail("lods_match_time")
						}
						x += ts.LODs[k].Len
					}
					if !monthly || lodOff == 0 {
						lastL := lods[len(lods)-1]
						if lastL.ToSec != nextOf(ts.Time[len(ts.Time)-1], lastL.StepSec)-lodOff {
							fail("lods_match_time")
						}
					}
				}
			}
		}
	}

	pickStep := func() int64 {
		switch r.Intn(10) {
		case 0:
			return 0
		case 1:
			return int64(r.Pick(7, 2, 3601, 120, 1800, 7200, 43200, 1209600, 2678399, 2678401))
		case 2:
			if r.Chance(30) {
				return -int64(r.Intn(3)) - 1
			}
			return 1
		default:
			return fixedSteps[r.Intn(len(fixedSteps))]
		}
	}
	pickWidth := func() int64 {
		switch r.Intn(8) {
		case 0, 1, 2:
			return 0
		case 3:
			return int64(r.Intn(300))
		case 4:
			return int64(r.Pick(100, 1000, 1920, 4000, 7679, 7680, 7681, 8192))
		case 5:
			return -int64(r.Intn(5)) - 1
		default:
			return int64(r.Intn(9000))
		}
	}
	pickMetrics := func(monthly bool, alignTo int64) []metricSpec {
		var ms []metricSpec
		k := r.Intn(4)
		if r.Chance(40) {
			k = 0
		}
		for i := 0; i < k; i++ {
			m := metricSpec{res: int(r.Pick(0, 1, 1, 1, 5, 15, 60, 60))}
			switch x := r.Intn(100); {
			case x < 50:
				m.off = 0
			case x < 80:
				m.off = week * int64(1+r.Intn(60))
			case x < 88:
				m.off = day * int64(r.Intn(400))
			case x < 94:
				m.off = alignTo * int64(r.Intn(50))
			case x < 97:
				m.off = -week * int64(r.Intn(5))
			default:
				m.off = int64(r.Intn(100000))
			}
			if monthly { // offsets of whole "months" (k * _1M) are the ones that pass the multiple-of-step check
				switch x := r.Intn(100); {
				case x < 50:
					m.off = 0
				case x < 95:
					m.off = month * int64(1+r.Intn(14))
				}
			}
			ms = append(ms, m)
		}
		return ms
	}

	// witness of F-C22a replayed on the implementation (UTC, Monday week start: utcOffset = 3 days)
	{
		a := data_model.GetTimescaleArgs{Start: 1700006400, End: 1700006400 + 36000, Step: 1, TimeNow: 1700006400 + levels[1].RelSwitch, UTCOffset: 3 * day, Location: time.UTC}
		_, err := data_model.GetTimescale(a)
		if err != nil && errTerm(err) == "ELod" {
			o.Finding("F-C22a", "reproduced")
		} else {
			o.Finding("F-C22a", "gone")
		}
		runTs(a, nil, "UTC", "witness")
	}

	// witness of F-C22b: America/Asuncion, 2023-10-01 00:00 does not exist (DST starts at local midnight of the 1st);
	// every later point of a monthly axis is off its month start. Evaluated on the Go side only (the calendar is a
	// parameter of the model and such locations are outside its assumptions).
	if loc, err := time.LoadLocation("America/Asuncion"); err == nil {
		a := data_model.GetTimescaleArgs{Start: 1690862400 + 86400, End: 1704000000, Step: month, TimeNow: 1705000000, UTCOffset: 3*day - 4*3600, Location: loc}
		ts, err := data_model.GetTimescale(a)
		bad := false
		if err == nil {
			for _, t := range ts.Time {
				lt := time.Unix(t, 0).In(loc)
				if time.Date(lt.Year(), lt.Month(), 1, 0, 0, 0, 0, loc).Unix() != t {
					bad = true
				}
			}
		}
		if bad {
			o.Finding("F-C22b", "reproduced")
		} else {
			o.Finding("F-C22b", "gone")
		}
	}
	// witness of F-C22c: monthly step, one metric shifted by one "month" (offset = _1M): requested [Feb 1, Mar 2) UTC
	// spans two months, the lengths are counted on [Jan 1, Jan 30) and only one point is produced
	{
		m := &format.MetricMetaValue{MetricID: 1, Resolution: 1}
		a := data_model.GetTimescaleArgs{Start: 1675209600, End: 1677715200, Step: month, TimeNow: 1680000000, UTCOffset: 3 * day, Location: time.UTC}
		a.QueryStat.Add(m, month)
		ts, err := data_model.GetTimescale(a)
		if err == nil && len(ts.Time) > 0 && ts.Time[len(ts.Time)-1] < 1677628800 { // no point for March 1
			o.Finding("F-C22c", "reproduced")
		} else {
			o.Finding("F-C22c", "gone")
		}
		runTs(a, []metricSpec{{month, 1}}, "UTC", "witness")
	}

	for i := 0; i < *n; i++ {
		switch {
		case i%10 < 7: // fixed-step timescale
			z := fixedZones[r.Intn(len(fixedZones))]
			ws := int64(r.Intn(7))
			utc := (4-ws)*day + z.off
			if r.Chance(5) {
				utc = int64(r.Intn(700000)) - 100000
			}
			a := data_model.GetTimescaleArgs{UTCOffset: utc, Location: time.UTC}
			a.Step = pickStep()
			for a.Step == month {
				a.Step = pickStep()
			}
			a.ScreenWidth = pickWidth()
			a.Mode = data_model.QueryMode(r.Intn(4))
			if r.Chance(50) {
				a.Mode = data_model.RangeQuery
			}
			a.Extend = r.Chance(35)
			rng := logRange(r, 3*366*day)
			if r.Chance(3) {
				rng = int64(r.U64() % 7000000000)
			}
			if a.Mode == data_model.PointQuery && rng > 40*day {
				rng = rng%(40*day) + 1 // the code walks point queries second by second
			}
			a.TimeNow = 1500000000 + int64(r.Intn(400000000))
			alignStep := fixedSteps[r.Intn(len(fixedSteps))]
			ms := pickMetrics(false, alignStep)
			var maxOff int64
			for _, m := range ms {
				if m.off > maxOff {
					maxOff = m.off
				}
			}
			tag := "rand"
			switch r.Intn(8) {
			case 0, 1, 2: // range ends around now
				a.End = a.TimeNow + int64(r.Intn(7)) - 3
				a.Start = a.End - rng
			case 3, 4: // the (shifted) start sits near a LOD switch
				tag = "near-switch"
				l := levels[r.Intn(len(levels))]
				s := a.TimeNow - l.RelSwitch + int64(r.Intn(5)) - 2
				if r.Chance(60) {
					// aligned start, now exactly/nearly on the switch
					s = floorDiv(a.TimeNow-l.RelSwitch+utc, alignStep)*alignStep - utc
					a.TimeNow = s + l.RelSwitch + int64(r.Pick(0, 0, 0, 1, -1, 2, -2))
				}
				a.Start = s + maxOff
				a.End = a.Start + rng
			case 5: // entirely or partly in the future
				tag = "future"
				a.Start = a.TimeNow + int64(r.Intn(200000)) - 100000
				a.End = a.Start + rng
			case 6: // aligned endpoints
				tag = "aligned"
				a.Start = floorDiv(a.TimeNow-int64(r.Intn(90*86400))-rng+utc, alignStep)*alignStep - utc
				a.End = a.Start + (rng/alignStep+1)*alignStep
			default:
				a.Start = a.TimeNow - int64(r.Intn(500*86400)) - rng
				a.End = a.Start + rng
			}
			if r.Chance(30) { // several LODs: fine step, wide screen, a range of days to weeks that ends near now
				tag = "multi-lod"
				a.Step = int64(r.Pick(0, 1, 1, 5, 15, 60, 300))
				a.ScreenWidth = int64(r.Pick(0, 0, 0, 8000, 5000, 3000))
				a.End = a.TimeNow + int64(r.Intn(4000)) - 2000
				a.Start = a.End - 2*day - int64(r.Intn(int(70*day)))
				if r.Chance(30) {
					a.Start = a.End - int64(r.Intn(int(6*day))) - 3600
				}
				if a.Mode == data_model.PointQuery {
					a.Mode = data_model.RangeQuery
				}
				a.Start += maxOff
				a.End += maxOff
			}
			if r.Chance(2) {
				a.End = a.Start - int64(r.Intn(3))
			}
			// boundary of maxPoints: make the range need about maxPoints points at some step
			if r.Chance(8) && a.Mode != data_model.PointQuery {
				tag = "near-maxpoints"
				st := fixedSteps[r.Intn(len(fixedSteps))]
				a.End = a.Start + st*(maxPoints+int64(r.Intn(7))-3) + int64(r.Intn(3)) - 1
			}
			runTs(a, ms, z.name, tag)
		case i%10 < 9: // monthly timescale (calendar part)
			z := monthZones[r.Intn(len(monthZones))]
			ws := int64(r.Intn(7))
			_, zoff := time.Unix(0, 0).In(z.loc).Zone()
			utc := (4-ws)*day + int64(zoff)
			a := data_model.GetTimescaleArgs{UTCOffset: utc, Location: z.loc, Step: month}
			a.ScreenWidth = pickWidth()
			a.Mode = data_model.QueryMode(r.Intn(4))
			if r.Chance(50) {
				a.Mode = data_model.RangeQuery
			}
			a.Extend = r.Chance(35)
			a.TimeNow = 1500000000 + int64(r.Intn(400000000))
			rng := logRange(r, 12*366*day)
			a.End = a.TimeNow - int64(r.Intn(100*86400)) + 86400
			a.Start = a.End - rng
			tag := "rand"
			if r.Chance(40) { // start or end exactly on / next to a month start
				tag = "on-month-start"
				t := time.Unix(a.Start, 0).In(z.loc)
				a.Start = time.Date(t.Year(), t.Month(), 1, 0, 0, 0, 0, z.loc).Unix() + int64(r.Pick(0, 0, 1, -1))
				if r.Chance(50) {
					t = time.Unix(a.End, 0).In(z.loc)
					a.End = time.Date(t.Year(), t.Month(), 1, 0, 0, 0, 0, z.loc).Unix() + int64(r.Pick(0, 0, 1, -1))
				}
			}
			if r.Chance(5) {
				a.Start = a.TimeNow + int64(r.Intn(1000)) - 500
				a.End = a.Start + rng
			}
			runTs(a, pickMetrics(true, month), z.name, tag)
		default: // helpers
			switch r.Intn(4) {
			case 0:
				t := int64(r.Intn(2000000000)) - 100000000
				if r.Chance(20) {
					t = int64(r.Intn(2000)) - 1000
				}
				step := fixedSteps[r.Intn(len(fixedSteps))]
				if r.Chance(20) {
					step = int64(1 + r.Intn(100000))
				}
				utc := int64(r.Intn(1400000)) - 700000
				if r.Chance(30) {
					t = floorDiv(t, step)*step - utc + int64(r.Intn(3)) - 1
				}
				got := data_model.VerifRoundTime(t, step, utc)
				input := fmt.Sprintf("round t=%d step=%d utc=%d", t, step, utc)
				line := o.Case(input, fmt.Sprintf("CRound %s %d %s %s %s", vu.Z(t), step, vu.Z(utc), vu.Z(got), vu.Z(got)), (t+utc)%step != 0, "round")
				if got > t || t-got >= step || floorDiv(got+utc, step)*step != got+utc {
					o.Fail("round_time_is_floor_aligned", line, input)
				}
			case 1:
				a := int64(r.Intn(2000001)) - 1000000
				b := int64(r.Intn(2001)) - 1000
				if b == 0 {
					b = 7
				}
				if r.Chance(30) {
					a = b * (int64(r.Intn(200)) - 100)
				}
				got := data_model.VerifMathDiv(a, b)
				input := fmt.Sprintf("div a=%d b=%d", a, b)
				line := o.Case(input, fmt.Sprintf("CDiv %s %s %s %s", vu.Z(a), vu.Z(b), vu.Z(got), vu.Z(got)), a < 0 || b < 0, "div")
				if got != floorDiv(a, b) {
					o.Fail("math_div_is_floor", line, input)
				}
			case 2:
				step := fixedSteps[r.Intn(len(fixedSteps))]
				start := int64(r.Intn(2000000000))
				e := start + int64(r.Intn(3000)) - 100
				if r.Chance(50) {
					e = start + step*int64(r.Intn(9000)) + int64(r.Intn(3)) - 1
				}
				le := r.Bool()
				ge, gn := data_model.VerifEndOfLOD(start, step, e, le, time.UTC)
				input := fmt.Sprintf("eol start=%d step=%d end=%d le=%v", start, step, e, le)
				line := o.Case(input, fmt.Sprintf("CEol %s %d %s %s [] %s %d", vu.Z(start), step, vu.Z(e), vu.B(le), vu.Z(ge), gn), gn > 0, "eol")
				if ge != start+int64(gn)*step || (start < e && !le && (ge < e || ge-step >= e)) || (start < e && le && (ge > e || ge+step <= e)) {
					o.Fail("end_of_lod_closed_form", line, input)
				}
			default:
				z := monthZones[r.Intn(len(monthZones))]
				t := 1000000000 + int64(r.Intn(900000000))
				tbl := monthTable(z.loc, t-40*day, t+40*day)
				if r.Chance(40) {
					t = tbl[3+r.Intn(2)][0] + int64(r.Pick(0, 0, 1, -1, 3600, -3600))
				}
				got := data_model.VerifStartOfLOD(t, month, z.loc, 0)
				input := fmt.Sprintf("startof t=%d zone=%s", t, z.name)
				line := o.Case(input, fmt.Sprintf("CStartOf %s %d 0 %s %s", vu.Z(t), month, tableTerm(tbl), vu.Z(got)), true, "startof-month")
				if got > t || t-got > 32*day {
					o.Fail("month_start_le_t", line, input)
				}
				start := got
				e := start + int64(r.Intn(int(400*day)))
				le := r.Bool()
				ge, gn := data_model.VerifEndOfLOD(start, month, e, le, z.loc)
				input = fmt.Sprintf("eol-month start=%d end=%d le=%v zone=%s", start, e, le, z.name)
				o.Case(input, fmt.Sprintf("CEol %s %d %s %s %s %s %d", vu.Z(start), month, vu.Z(e), vu.B(le), tableTerm(monthTable(z.loc, start-40*day, e+40*day)), vu.Z(ge), gn), gn > 0, "eol-month")
			}
		}
	}
}
