//go:build verif

// Correspondence harness for C09 (agent disk cache): drives the real agent.DiskBucketStorage in temporary
// directories with generated histories (put/get/erase/readTail/sizes/restart, rotation by ageing the writing
// file, byte corruption in a separate stream), tears the last write of every history at every byte offset
// (copy of the directory, truncated / patched, reopened), prints everything as cases for DiskCache/Corr.v and
// evaluates the property's clauses as executable oracles on the implementation's answers.
package main

import (
	"bytes"
	"flag"
	"fmt"
	"hash/crc32"
	"io"
	"os"
	"path/filepath"
	"sort"
	"strings"

	"github.com/VKCOM/statshouse/internal/agent"
	vu "github.com/VKCOM/statshouse/internal/verifutil"
)

type entry struct { // one second that was put and not erased (the specification side, kept by the harness)
	time uint32
	body []byte
	id   int64 // id in the current session, 0 = not handed out yet
}

type world struct {
	dir       string
	nsh       int
	st        *agent.DiskBucketStorage
	spec      [][]*entry // per shard, in write order
	erased    []map[int64]bool // ids handed out in this session and erased since (ids are per-session handles)
	maxID     []int64          // highest id handed out by put/tail in this session, per shard
	corrupted []bool
	drained   []bool // tail returned id 0 in this session
	putBodies []map[string]bool
	ops       []string // coq terms of (shard, op)
	obs       []string
	short     []string // compact text
	kinds     map[string]int
	isCrash   bool
	scratch   []byte // ONE scratch buffer shared by every GetBucket of the history (the agent's senders do that)
	nGet      int
	lastLen   int
	aborted   bool // an operation that cannot fail on correct code failed: stop the history, report
	diskOnly  int // crash worlds: print the directory contents of this shard only (-1 = all)
}

var (
	tmpRoot  string
	tolerate = map[string]bool{}
	consts   = agent.VerifDiskCacheConsts()
)

func must(err error) {
	if err != nil {
		panic(err)
	}
}

func logf(string, ...interface{}) {}

func openStorage(dir string, nsh int) *agent.DiskBucketStorage {
	st, err := agent.MakeDiskBucketStorage(dir, nsh, logf)
	must(err)
	return st
}

func copyDir(src, dst string) {
	must(filepath.Walk(src, func(p string, info os.FileInfo, err error) error {
		if err != nil {
			return err
		}
		rel, _ := filepath.Rel(src, p)
		t := filepath.Join(dst, rel)
		if info.IsDir() {
			return os.MkdirAll(t, 0o755)
		}
		b, err := os.ReadFile(p)
		if err != nil {
			return err
		}
		return os.WriteFile(t, b, 0o644)
	}))
}

func shardFiles(dir string, sh int) []string { // sorted by name, like makeDiscCacheShard
	p := filepath.Join(dir, fmt.Sprint(sh))
	dis, err := os.ReadDir(p)
	must(err)
	var names []string
	for _, di := range dis {
		if !di.IsDir() {
			names = append(names, filepath.Join(p, di.Name()))
		}
	}
	sort.Strings(names)
	return names
}

func hexB(b []byte) string { return fmt.Sprintf("(hx \"%x\"%%string)", b) }

func opT(sh int, op string) string { return fmt.Sprintf("(%d%%nat, %s)", sh, op) }

func getErrKind(err error) string {
	s := err.Error()
	switch {
	case strings.Contains(s, "not known"):
		return "GUnknown"
	case strings.Contains(s, "wrong second"):
		return "GWrongTime"
	case strings.Contains(s, "failed read"):
		return "GReadErr"
	case strings.Contains(s, "wrong crc"):
		return "GCrcErr"
	}
	panic("unknown GetBucket error: " + s)
}

// pad returns the shared scratch buffer, now and then left by the "caller" in another shape: nil, short len with
// large cap, longer than any body. GetBucket must return exactly the second's bytes whatever it is given.
func (w *world) pad() *[]byte {
	w.nGet++
	switch (w.nGet * 7) % 11 {
	case 0:
		w.scratch = nil
	case 3:
		b := make([]byte, 3, 600)
		copy(b[:cap(b)], bytes.Repeat([]byte{0xAA}, 600))
		w.scratch = b
	case 6:
		w.scratch = bytes.Repeat([]byte{0xBB}, 700)
	case 8:
		if cap(w.scratch) > 0 {
			w.scratch = w.scratch[:w.nGet%(cap(w.scratch)+1)]
		}
	}
	return &w.scratch
}

func (w *world) gotLen(n int) {
	if n < w.lastLen {
		w.kinds["get_shorter_after_longer"]++
	}
	w.lastLen = n
}

func (w *world) rec(sh int, op, obs, short string, kind string) {
	w.ops = append(w.ops, opT(sh, op))
	w.obs = append(w.obs, obs)
	w.short = append(w.short, short)
	w.kinds[kind]++
}

type failure struct{ oracle, detail string }

// ---- operations on the real storage, each recording (op, obs) and checking the oracles ----

func (w *world) put(sh int, t uint32, body []byte, age bool, fails *[]failure) int64 {
	nFilesBefore := len(shardFiles(w.dir, sh))
	wfBefore, _ := w.st.VerifWritingFile(sh)
	if age {
		w.st.VerifAgeWritingFile(sh)
	}
	id, err := w.st.PutBucket(sh, t, body)
	if err != nil { // only i/o errors or an O_EXCL name collision could fail here
		*fails = append(*fails, failure{"put_succeeds", fmt.Sprintf("PutBucket shard=%d t=%d len=%d failed: %v", sh, t, len(body), err)})
		w.aborted = true
		return 0
	}
	wfAfter, _ := w.st.VerifWritingFile(sh)
	if wfBefore != "" && wfBefore != wfAfter {
		w.kinds["rotation"]++
		if len(shardFiles(w.dir, sh)) <= nFilesBefore {
			w.kinds["rotation_removed_old_file"]++
		}
	}
	w.rec(sh, fmt.Sprintf("OPut %d %s %s", t, hexB(body), vu.B(age)), fmt.Sprintf("RPut (Some %d)", id),
		fmt.Sprintf("P%d:t%d:l%d%s", sh, t, len(body), map[bool]string{true: ":age", false: ""}[age]), "put")
	w.spec[sh] = append(w.spec[sh], &entry{time: t, body: append([]byte(nil), body...), id: id})
	if id > w.maxID[sh] {
		w.maxID[sh] = id
	}
	w.putBodies[sh][string(body)] = true
	return id
}

func (w *world) get(sh int, id int64, t uint32, fails *[]failure) {
	data, err := w.st.GetBucket(sh, id, t, w.pad())
	var e *entry
	for _, x := range w.spec[sh] {
		if x.id == id && id != 0 {
			e = x
		}
	}
	if err != nil {
		k := getErrKind(err)
		w.rec(sh, fmt.Sprintf("OGet %d %d", id, t), "RGet "+k, fmt.Sprintf("G%d:%d:t%d", sh, id, t), "get/"+k)
		if e != nil && e.time == t && !w.corrupted[sh] {
			*fails = append(*fails, failure{"get_identical_bytes", fmt.Sprintf("get id=%d t=%d of a live second failed: %s", id, t, k)})
		}
		if k == "GReadErr" || k == "GCrcErr" { // the cache erased it
			w.dropID(sh, id)
		}
		return
	}
	w.rec(sh, fmt.Sprintf("OGet %d %d", id, t), fmt.Sprintf("RGet (GOk %s)", hexB(data)), fmt.Sprintf("G%d:%d:t%d", sh, id, t), "get/ok")
	w.gotLen(len(data))
	if w.erased[sh][id] {
		*fails = append(*fails, failure{"never_returns_erased", fmt.Sprintf("get id=%d returned data after erase", id)})
	}
	if !w.corrupted[sh] {
		if e == nil || e.time != t || !bytes.Equal(e.body, data) {
			want := -1
			if e != nil {
				want = len(e.body)
			}
			*fails = append(*fails, failure{"get_identical_bytes", fmt.Sprintf("get id=%d t=%d returned %d bytes that are not the %d bytes put (shared scratch buffer)", id, t, len(data), want)})
		}
	} else if !w.putBodies[sh][string(data)] {
		*fails = append(*fails, failure{"never_returns_corrupted", fmt.Sprintf("get id=%d t=%d returned bytes never put", id, t)})
	}
}

func (w *world) dropID(sh int, id int64) {
	for i, x := range w.spec[sh] {
		if x.id == id && id != 0 {
			w.spec[sh] = append(w.spec[sh][:i:i], w.spec[sh][i+1:]...)
			break
		}
	}
	// erasing an id that was not handed out yet is a NOP; that id may be given to a later second of this session
	if id > 0 && id <= w.maxID[sh] {
		w.erased[sh][id] = true
	}
}

func (w *world) erase(sh int, id int64, fails *[]failure) {
	if err := w.st.EraseBucket(sh, id); err != nil {
		*fails = append(*fails, failure{"erase_succeeds", fmt.Sprintf("EraseBucket shard=%d id=%d failed: %v", sh, id, err)})
		w.aborted = true
		return
	}
	w.rec(sh, fmt.Sprintf("OErase %d", id), "RUnit", fmt.Sprintf("E%d:%d", sh, id), "erase")
	w.dropID(sh, id)
}

func (w *world) tail(sh int, fails *[]failure) (uint32, int64) {
	nFiles := len(shardFiles(w.dir, sh))
	t, id := w.st.ReadNextTailBucket(sh)
	w.rec(sh, "OTail", fmt.Sprintf("RTail %d %d", t, id), fmt.Sprintf("T%d", sh), "tail")
	if id > w.maxID[sh] {
		w.maxID[sh] = id
	}
	if id != 0 && w.erased[sh][id] {
		*fails = append(*fails, failure{"never_returns_erased", fmt.Sprintf("tail handed out id=%d again after it was erased in this session", id)})
	}
	if len(shardFiles(w.dir, sh)) < nFiles {
		w.kinds["tail_removed_file"]++
	}
	if w.corrupted[sh] {
		return t, id
	}
	var next *entry
	for _, x := range w.spec[sh] {
		if x.id == 0 {
			next = x
			break
		}
	}
	switch {
	case id == 0 && next != nil:
		*fails = append(*fails, failure{"reread_exact", fmt.Sprintf("tail of shard %d ended but second t=%d len=%d was put and not erased", sh, next.time, len(next.body))})
		for _, x := range w.spec[sh] { // keep going with what the cache says
			if x.id == 0 {
				x.id = -1
			}
		}
	case id != 0 && next == nil:
		*fails = append(*fails, failure{"reread_exact", fmt.Sprintf("tail of shard %d returned t=%d id=%d, nothing unread expected", sh, t, id)})
	case id != 0 && next.time != t:
		*fails = append(*fails, failure{"reread_exact", fmt.Sprintf("tail of shard %d returned t=%d, next in write order is t=%d", sh, t, next.time)})
		next.id = id
	case id != 0:
		next.id = id
	}
	if id == 0 {
		w.drained[sh] = true
	} else {
		w.kinds["tail_found"]++
	}
	return t, id
}

func (w *world) sizes(sh int, fails *[]failure) {
	total, unsent := w.st.TotalFileSize(sh)
	var fs []int64
	var sum int64
	names := shardFiles(w.dir, sh)
	for _, n := range names {
		st, err := os.Stat(n)
		must(err)
		fs = append(fs, st.Size())
		sum += st.Size()
	}
	w.rec(sh, "OSizes", fmt.Sprintf("RSizes %d %d %s", total, unsent, vu.ListZ(fs)), fmt.Sprintf("S%d", sh), "sizes")
	if total != sum {
		*fails = append(*fails, failure{"sizes_match_files", fmt.Sprintf("shard %d total=%d, files on disk=%d", sh, total, sum)})
	}
	if w.corrupted[sh] {
		return
	}
	var live int64
	allRead := true
	for _, x := range w.spec[sh] {
		live += int64(len(x.body)) + consts.HeaderSize
		if x.id <= 0 {
			allRead = false
		}
	}
	if unsent > total || unsent < live || (allRead && w.drained[sh] && unsent != live) {
		*fails = append(*fails, failure{"sizes_match_files", fmt.Sprintf("shard %d unsent=%d total=%d live=%d drained=%v", sh, unsent, total, live, w.drained[sh])})
	}
	if w.drained[sh] && allRead { // every file except the writing one holds a live second
		holds := map[string]bool{}
		for _, x := range w.spec[sh] {
			if n, _, _, ok := w.st.VerifBucketPlace(sh, x.id); ok {
				holds[n] = true
			}
		}
		wf, _ := w.st.VerifWritingFile(sh)
		for _, n := range names {
			if !holds[n] && n != wf {
				*fails = append(*fails, failure{"fully_erased_file_deleted", fmt.Sprintf("shard %d file %s has no live second, is not written to, and still exists", sh, filepath.Base(n))})
			}
		}
	}
}

func (w *world) disk(sh int) {
	var parts []string
	for _, n := range shardFiles(w.dir, sh) {
		b, err := os.ReadFile(n)
		must(err)
		parts = append(parts, hexB(b))
	}
	w.rec(sh, "ODisk", "RDisk ["+strings.Join(parts, ";")+"]", fmt.Sprintf("D%d", sh), "disk")
}

func (w *world) restart() {
	must(w.st.Close())
	w.st = openStorage(w.dir, w.nsh)
	for sh := 0; sh < w.nsh; sh++ {
		w.rec(sh, "ORestart", "RUnit", "R", "restart")
		for _, x := range w.spec[sh] {
			x.id = 0
		}
		w.erased[sh] = map[int64]bool{}
		w.maxID[sh] = 0
		w.drained[sh] = false
	}
}

func (w *world) corrupt(sh int, r *vu.Rng, fails *[]failure) bool {
	names := shardFiles(w.dir, sh)
	if len(names) == 0 {
		return false
	}
	fi := r.Intn(len(names))
	b, err := os.ReadFile(names[fi])
	must(err)
	if len(b) == 0 {
		return false
	}
	pos := r.Intn(len(b))
	if r.Chance(30) && len(b) >= 20 { // aim at a header field of the first records
		pos = r.Intn(20)
	}
	var hitID int64
	var hitTime uint32
	if ids := w.knownIDs(sh); len(ids) > 0 && r.Chance(60) { // aim at the body of a known second, then fetch it
		id := ids[r.Intn(len(ids))]
		if n, p, size, ok := w.st.VerifBucketPlace(sh, id); ok && size > 0 {
			for i, x := range names {
				if x == n {
					fi, pos = i, int(p)+int(consts.HeaderSize)+r.Intn(size)
					b, err = os.ReadFile(names[fi])
					must(err)
					hitID = id
					for _, e := range w.spec[sh] {
						if e.id == id {
							hitTime = e.time
						}
					}
				}
			}
		}
	}
	defer func() {
		if hitID != 0 {
			w.kinds["corrupt_known_body"]++
			w.get(sh, hitID, hitTime, fails)
		}
	}()
	v := b[pos] ^ byte(1<<uint(r.Intn(8)))
	if r.Chance(20) {
		v = byte(r.Intn(256))
	}
	f, err := os.OpenFile(names[fi], os.O_RDWR, 0)
	must(err)
	_, err = f.WriteAt([]byte{v}, int64(pos))
	must(err)
	must(f.Close())
	w.rec(sh, fmt.Sprintf("OCorrupt %d%%nat %d %d", fi, pos, v), "RUnit", fmt.Sprintf("C%d:f%d:p%d:v%d", sh, fi, pos, v), "corrupt")
	w.corrupted[sh] = true
	return true
}

// drainAll: the script run after a (re)start: disk, sizes, tail+get until id 0, sizes. Returns what was re-read per shard.
func (w *world) drainAll(fails *[]failure, withDisk bool) [][]*entry {
	out := make([][]*entry, w.nsh)
	for sh := 0; sh < w.nsh; sh++ {
		if withDisk && (w.diskOnly < 0 || w.diskOnly == sh) {
			w.disk(sh)
		}
		w.sizes(sh, fails)
		for {
			t, id := w.tail(sh, fails)
			if id == 0 {
				break
			}
			data, err := w.st.GetBucket(sh, id, t, w.pad())
			if err == nil {
				w.gotLen(len(data))
			}
			if err != nil {
				k := getErrKind(err)
				w.rec(sh, fmt.Sprintf("OGet %d %d", id, t), "RGet "+k, fmt.Sprintf("G%d:%d", sh, id), "get/"+k)
				if !w.corrupted[sh] || w.isCrash {
					*fails = append(*fails, failure{"reread_exact", fmt.Sprintf("shard %d re-read second t=%d id=%d cannot be fetched: %s", sh, t, id, k)})
				}
				if k == "GReadErr" || k == "GCrcErr" {
					w.dropID(sh, id)
				}
				continue
			}
			if w.isCrash {
				w.rec(sh, fmt.Sprintf("OGet %d %d", id, t), fmt.Sprintf("RGetSum %d %d", len(data), crc32.Checksum(data, crc32.MakeTable(crc32.Castagnoli))), fmt.Sprintf("G%d:%d", sh, id), "get/ok")
			} else {
				w.rec(sh, fmt.Sprintf("OGet %d %d", id, t), fmt.Sprintf("RGet (GOk %s)", hexB(data)), fmt.Sprintf("G%d:%d", sh, id), "get/ok")
			}
			out[sh] = append(out[sh], &entry{time: t, body: append([]byte(nil), data...)})
		}
		w.sizes(sh, fails)
	}
	return out
}

func sameEntries(a, b []*entry) bool {
	if len(a) != len(b) {
		return false
	}
	for i := range a {
		if a[i].time != b[i].time || !bytes.Equal(a[i].body, b[i].body) {
			return false
		}
	}
	return true
}

func without(a []*entry, e *entry) []*entry {
	var r []*entry
	for _, x := range a {
		if x != e {
			r = append(r, x)
		}
	}
	return r
}

func newWorld(nsh int) *world {
	dir, err := os.MkdirTemp(tmpRoot, "w")
	must(err)
	w := &world{dir: dir, nsh: nsh, kinds: map[string]int{}, diskOnly: -1}
	w.st = openStorage(dir, nsh)
	w.reset()
	return w
}

func (w *world) reset() {
	w.spec = make([][]*entry, w.nsh)
	w.erased = make([]map[int64]bool, w.nsh)
	w.putBodies = make([]map[string]bool, w.nsh)
	w.corrupted = make([]bool, w.nsh)
	w.drained = make([]bool, w.nsh)
	w.maxID = make([]int64, w.nsh)
	for i := range w.erased {
		w.erased[i] = map[int64]bool{}
		w.putBodies[i] = map[string]bool{}
	}
}

func genBody(r *vu.Rng, small bool) []byte {
	var n int
	switch x := r.Intn(20); {
	case x == 0:
		n = 0
	case x < 8:
		n = 1 + r.Intn(8)
	case x < 17 || small:
		n = 8 + r.Intn(40)
	default:
		n = 48 + r.Intn(160)
	}
	b := make([]byte, n)
	for i := range b {
		switch r.Intn(4) {
		case 0:
			b[i] = byte(r.Pick(0, 0xEC, 0x07, 0xb9, 0x59, 0xff)) // bytes of the magics inside bodies
		default:
			b[i] = byte(r.Intn(256))
		}
	}
	return b
}

func genTime(r *vu.Rng) uint32 {
	switch r.Intn(6) {
	case 0:
		return uint32(r.Pick(0, 1, 0xffffffff, 0x80000000, 2028, 1505298412))
	case 1:
		return r.U32()
	default:
		return 1700000000 + uint32(r.Intn(6))
	}
}

func (w *world) knownIDs(sh int) []int64 {
	var ids []int64
	for _, x := range w.spec[sh] {
		if x.id > 0 {
			ids = append(ids, x.id)
		}
	}
	return ids
}

// one history; returns failures found by the oracles
func history(o *vu.Out, seed uint64, idx int, malformed bool) {
	r := vu.NewRng(seed*1000003 + uint64(idx))
	nsh := 2
	if r.Chance(25) {
		nsh = 1 + r.Intn(3)
	}
	w := newWorld(nsh)
	defer func() {
		_ = w.st.Close()
		_ = os.RemoveAll(w.dir)
	}()
	var fails []failure
	nops := 8 + r.Intn(34)
	nRestart, nErase := 0, 0
	for i := 0; i < nops && !w.aborted; i++ {
		sh := r.Intn(nsh)
		if r.Chance(60) {
			sh = 0 // concentrate so that files get several seconds
		}
		switch x := r.Intn(100); {
		case x < 34:
			w.put(sh, genTime(r), genBody(r, false), r.Chance(14), &fails)
		case x < 48:
			ids := w.knownIDs(sh)
			if len(ids) > 0 && r.Chance(85) {
				id := ids[r.Intn(len(ids))]
				var t uint32
				for _, e := range w.spec[sh] {
					if e.id == id {
						t = e.time
					}
				}
				if r.Chance(10) {
					t++
				}
				w.get(sh, id, t, &fails)
			} else {
				w.get(sh, int64(r.Intn(12)), genTime(r), &fails)
			}
		case x < 68:
			ids := w.knownIDs(sh)
			if len(ids) > 0 && r.Chance(90) {
				// erase in write order most of the time (what the agent does), so that whole files get erased
				id := ids[0]
				if r.Chance(35) {
					id = ids[r.Intn(len(ids))]
				}
				w.erase(sh, id, &fails)
				nErase++
			} else {
				w.erase(sh, int64(r.Intn(12)), &fails)
			}
		case x < 86:
			w.tail(sh, &fails)
		case x < 92:
			w.sizes(sh, &fails)
		case x < 97 && malformed:
			w.corrupt(sh, r, &fails)
		default:
			for s := 0; s < nsh; s++ {
				w.disk(s)
				w.sizes(s, &fails)
			}
			w.restart()
			nRestart++
			if r.Chance(50) {
				w.drainAll(&fails, false)
			}
		}
	}
	for s := 0; s < nsh; s++ {
		w.sizes(s, &fails)
		w.disk(s)
	}
	anyCorrupt := false
	for _, c := range w.corrupted {
		anyCorrupt = anyCorrupt || c
	}
	input := fmt.Sprintf("hist=%d seed=%d nsh=%d malformed=%v ops=%s", idx, seed, nsh, malformed, strings.Join(w.short, " "))
	if len(input) > 280 {
		input = input[:280] + "…"
	}
	kinds := []string{"hist"}
	for k, n := range w.kinds {
		for j := 0; j < n; j++ {
			kinds = append(kinds, k)
		}
	}
	line := o.Case(input, fmt.Sprintf("CHist %d%%nat [%s] [%s]", nsh, strings.Join(w.ops, "; "), strings.Join(w.obs, "; ")),
		w.kinds["rotation"] > 0 && nErase > 0 && nRestart > 0, kinds...)
	for _, f := range fails {
		o.Fail(f.oracle, line, input+" :: "+f.detail)
	}
	if anyCorrupt || w.aborted {
		return
	}
	crashSweep(o, r, w, seed, idx)
}

// crashSweep tears one more operation (a put or an erase) at every byte offset of its write.
func crashSweep(o *vu.Out, r *vu.Rng, w *world, seed uint64, idx int) {
	pre := append([]string(nil), w.ops...)
	preShort := strings.Join(w.short, " ")
	sh := 0
	if r.Chance(25) {
		sh = r.Intn(w.nsh)
	}
	ids := w.knownIDs(sh)
	doErase := len(ids) > 0 && r.Chance(45)
	var base, what string
	var tornEntry *entry
	var file string
	var pos int64
	var full []byte
	snap, err := os.MkdirTemp(tmpRoot, "snap")
	must(err)
	defer os.RemoveAll(snap)
	var dummy []failure
	if doErase {
		// prefer a second that is followed by another live one in the same file (the interesting case)
		id := ids[r.Intn(len(ids))]
		for _, cand := range ids {
			f1, p1, _, _ := w.st.VerifBucketPlace(sh, cand)
			for _, other := range ids {
				f2, p2, _, _ := w.st.VerifBucketPlace(sh, other)
				if f1 == f2 && p2 > p1 && r.Chance(60) {
					id = cand
				}
			}
		}
		for _, e := range w.spec[sh] {
			if e.id == id {
				tornEntry = e
			}
		}
		file, pos, _, _ = w.st.VerifBucketPlace(sh, id)
		full = []byte{byte(consts.MagicDeleted), byte(consts.MagicDeleted >> 8), byte(consts.MagicDeleted >> 16), byte(consts.MagicDeleted >> 24)}
		base = fmt.Sprintf("OErase %d", id)
		what = fmt.Sprintf("torn=erase id=%d shard=%d", id, sh)
		copyDir(w.dir, snap) // the directory just before the overwrite
	} else {
		body := genBody(r, true)
		if len(body) > 28 {
			body = body[:28]
		}
		t := genTime(r)
		age := r.Chance(20)
		nops := len(w.ops)
		id := w.put(sh, t, body, age, &dummy)
		if w.aborted {
			line := o.Case("crash-put after "+preShort, "CHist 1%nat [] []", false, "aborted")
			o.Fail(dummy[0].oracle, line, fmt.Sprintf("hist=%d seed=%d :: %s", idx, seed, dummy[0].detail))
			return
		}
		w.ops, w.obs, w.short = w.ops[:nops], w.obs[:nops], w.short[:nops]
		tornEntry = w.spec[sh][len(w.spec[sh])-1]
		file, pos, _, _ = w.st.VerifBucketPlace(sh, id)
		full = make([]byte, int(consts.HeaderSize)+len(body))
		base = fmt.Sprintf("OPut %d %s %s", t, hexB(body), vu.B(age))
		what = fmt.Sprintf("torn=put t=%d len=%d age=%v shard=%d", t, len(body), age, sh)
		copyDir(w.dir, snap) // after the complete put: rotation/creation done, record fully written
	}
	rel, _ := filepath.Rel(w.dir, file)
	specAll := make([][]*entry, w.nsh)
	for s := range specAll {
		specAll[s] = append([]*entry(nil), w.spec[s]...)
	}
	var outs []string
	var fails []failure
	f09 := false
	for k := 0; k <= len(full); k++ {
		cd, err := os.MkdirTemp(tmpRoot, "crash")
		must(err)
		copyDir(snap, cd)
		target := filepath.Join(cd, rel)
		if doErase {
			f, err := os.OpenFile(target, os.O_RDWR, 0)
			must(err)
			_, err = f.WriteAt(full[:k], pos)
			must(err)
			must(f.Close())
		} else {
			must(os.Truncate(target, pos+int64(k)))
		}
		st := openStorage(cd, w.nsh)
		got := make([][]*entry, w.nsh)
		var sums []string
		for s := 0; s < w.nsh; s++ {
			sum, g, fs := crashObserve(st, cd, s)
			sums = append(sums, sum)
			got[s] = g
			for _, f := range fs {
				fails = append(fails, failure{f.oracle, fmt.Sprintf("%s k=%d: %s", what, k, f.detail)})
			}
		}
		dsk := "None"
		if k == 0 || k == 3 || k == len(full) {
			parts := tornDisk(snap, rel, sh, doErase, full[:k], pos) // the drain may already have removed files: rebuild the torn view
			dsk = "(Some [" + strings.Join(parts, ";") + "])"
		}
		must(st.Close())
		_ = os.RemoveAll(cd)
		w.kinds["crash_seconds_reread"] += len(got[sh])
		outs = append(outs, fmt.Sprintf("(%d, [%s], %s)", k, strings.Join(sums, "; "), dsk))
		for s := 0; s < w.nsh; s++ {
			okWith := sameEntries(got[s], specAll[s])
			okWithout := s == sh && sameEntries(got[s], without(specAll[s], tornEntry))
			if okWith || okWithout {
				continue
			}
			detail := fmt.Sprintf("%s k=%d: shard %d re-read %d seconds, expected %d (or one less on the torn shard)", what, k, s, len(got[s]), len(specAll[s]))
			if doErase {
				if k == 3 && tolerate["F-C09"] {
					f09 = true
					continue
				}
				fails = append(fails, failure{"torn_erase_loses_only_it", detail})
			} else {
				fails = append(fails, failure{"torn_put_loses_only_it", detail})
			}
		}
		if !doErase && k == len(full) && !sameEntries(got[sh], specAll[sh]) {
			fails = append(fails, failure{"reread_exact", what + " complete write then restart: second missing"})
		}
	}
	if f09 {
		w.kinds["F-C09_seen_in_sweep"]++
	}
	input := fmt.Sprintf("crash hist=%d seed=%d nsh=%d %s offsets=0..%d after ops=%s", idx, seed, w.nsh, what, len(full), preShort)
	if len(input) > 280 {
		input = input[:280] + "…"
	}
	kind := "crash/put"
	if doErase {
		kind = "crash/erase"
	}
	line := o.Case(input, fmt.Sprintf("CCrash %d%%nat [%s] %d%%nat (%s) [%s]", w.nsh, strings.Join(pre, "; "), sh, base, strings.Join(outs, "; ")), true, kind)
	o.Hist["crash_points"] += len(full) + 1
	for _, f := range fails {
		o.Fail(f.oracle, line, input+" :: "+f.detail)
	}
}

// tornDisk returns the files of shard sh of the snapshot with the tear applied (what the restart finds).
func tornDisk(snap, rel string, sh int, doErase bool, part []byte, pos int64) []string {
	var parts []string
	for _, n := range shardFiles(snap, sh) {
		b, err := os.ReadFile(n)
		must(err)
		if n == filepath.Join(snap, rel) {
			if doErase {
				copy(b[pos:], part)
			} else {
				b = b[:pos+int64(len(part))]
			}
		}
		parts = append(parts, hexB(b))
	}
	return parts
}

func dirSizes(dir string, sh int) ([]int64, int64) {
	var fs []int64
	var sum int64
	for _, n := range shardFiles(dir, sh) {
		st, err := os.Stat(n)
		must(err)
		fs = append(fs, st.Size())
		sum += st.Size()
	}
	return fs, sum
}

// crashObserve: sizes + listing, tail+get until id 0, sizes + listing, as a Corr.dsum term.
func crashObserve(st *agent.DiskBucketStorage, dir string, sh int) (string, []*entry, []failure) {
	var fails []failure
	var got []*entry
	t0, u0 := st.TotalFileSize(sh)
	f0, sum0 := dirSizes(dir, sh)
	if t0 != sum0 || u0 != t0 {
		fails = append(fails, failure{"sizes_match_files", fmt.Sprintf("after restart shard %d total=%d unsent=%d files=%d", sh, t0, u0, sum0)})
	}
	var secs []string
	var scratch []byte // shared by all reads of this shard; initial shape varies with the shard and its size
	switch (sh + len(f0) + int(t0)) % 3 {
	case 1:
		scratch = make([]byte, 2, 400)
	case 2:
		scratch = bytes.Repeat([]byte{0xCC}, 300)
	}
	for {
		t, id := st.ReadNextTailBucket(sh)
		if id == 0 {
			break
		}
		data, err := st.GetBucket(sh, id, t, &scratch)
		if err != nil {
			secs = append(secs, fmt.Sprintf("(%d, %d, (-1), (-1))", t, id))
			fails = append(fails, failure{"reread_exact", fmt.Sprintf("shard %d re-read second t=%d id=%d cannot be fetched: %s", sh, t, id, getErrKind(err))})
			continue
		}
		secs = append(secs, fmt.Sprintf("(%d, %d, %d, %d)", t, id, len(data), crc32.Checksum(data, crc32.MakeTable(crc32.Castagnoli))))
		got = append(got, &entry{time: t, body: append([]byte(nil), data...)})
	}
	t1, u1 := st.TotalFileSize(sh)
	f1, sum1 := dirSizes(dir, sh)
	var live int64
	for _, e := range got {
		live += int64(len(e.body)) + consts.HeaderSize
	}
	if t1 != sum1 || u1 != live {
		fails = append(fails, failure{"sizes_match_files", fmt.Sprintf("after re-reading shard %d total=%d unsent=%d files=%d live=%d", sh, t1, u1, sum1, live)})
	}
	// every file left holds a live second
	if len(f1) > len(got) {
		fails = append(fails, failure{"fully_erased_file_deleted", fmt.Sprintf("shard %d: %d files left for %d live seconds", sh, len(f1), len(got))})
	}
	return fmt.Sprintf("DS %d %d %s [%s] %d %d %s", t0, u0, vu.ListZ(f0), strings.Join(secs, "; "), t1, u1, vu.ListZ(f1)), got, fails
}

// witnessFC09 replays the minimal witness of finding F-C09 on the real code: two seconds in one file, the
// erase of the first one torn after 3 of its 4 bytes; the second one must still be re-read.
func witnessFC09(o *vu.Out) {
	w := newWorld(1)
	defer os.RemoveAll(w.dir)
	var fails []failure
	id1 := w.put(0, 1700000001, []byte("first"), false, &fails)
	w.put(0, 1700000002, []byte("second"), false, &fails)
	file, pos, _, _ := w.st.VerifBucketPlace(0, id1)
	must(w.st.Close())
	f, err := os.OpenFile(file, os.O_RDWR, 0)
	must(err)
	m := consts.MagicDeleted
	_, err = f.WriteAt([]byte{byte(m), byte(m >> 8), byte(m >> 16)}, pos)
	must(err)
	must(f.Close())
	w.st = openStorage(w.dir, 1)
	found := false
	for {
		t, id := w.st.ReadNextTailBucket(0)
		if id == 0 {
			break
		}
		if t == 1700000002 {
			found = true
		}
	}
	must(w.st.Close())
	if found {
		o.Finding("F-C09", "gone")
	} else {
		o.Finding("F-C09", "reproduced")
	}
}

// sizeRotation drives the size branch of the rotation test on the real code only (bodies of ~50 MB are not
// replayed through the model): a record that exactly fills the file must stay, one more byte must rotate.
func sizeRotation(o *vu.Out) {
	w := newWorld(1)
	defer func() {
		_ = w.st.Close()
		_ = os.RemoveAll(w.dir)
	}()
	var fails []failure
	big := make([]byte, int(consts.FileRotateSize-2*consts.HeaderSize)-10)
	id, err := w.st.PutBucket(0, 1, big)
	must(err)
	_, err = w.st.PutBucket(0, 2, make([]byte, 10)) // size+20+10 == fileRotateSize: not greater, same file
	must(err)
	n1 := len(shardFiles(w.dir, 0))
	_, err = w.st.PutBucket(0, 3, nil) // size == fileRotateSize, +20 > : rotates
	must(err)
	n2 := len(shardFiles(w.dir, 0))
	input := "size-rotation boundary: put len=fileRotateSize-50, put len=10 (fills exactly), put len=0"
	if n1 != 1 {
		fails = append(fails, failure{"rotation_by_size", fmt.Sprintf("record filling the file exactly rotated early (%d files)", n1)})
	}
	if n2 != 2 {
		fails = append(fails, failure{"rotation_by_size", fmt.Sprintf("file over fileRotateSize not rotated (%d files)", n2)})
	}
	var scratch []byte
	if d, err := w.st.GetBucket(0, id, 1, &scratch); err != nil || len(d) != len(big) {
		fails = append(fails, failure{"get_identical_bytes", "large second not read back"})
	}
	if _, err := w.st.PutBucket(0, 4, make([]byte, int(consts.MaxChunkSize)+1)); err == nil {
		fails = append(fails, failure{"rotation_by_size", "chunk larger than maxChunkSize accepted"})
	}
	total, _ := w.st.TotalFileSize(0)
	var sum int64
	for _, n := range shardFiles(w.dir, 0) {
		st, _ := os.Stat(n)
		sum += st.Size()
	}
	if total != sum {
		fails = append(fails, failure{"sizes_match_files", fmt.Sprintf("total=%d files=%d", total, sum)})
	}
	line := o.Case(input, "CHist 1%nat [] []", false, "size_rotation_boundary")
	for _, f := range fails {
		o.Fail(f.oracle, line, input+" :: "+f.detail)
	}
}

func main() {
	seed := flag.Uint64("seed", 1, "")
	n := flag.Int("n", 40, "number of histories (each followed by a crash sweep)")
	out := flag.String("out", "", "")
	tol := flag.String("tolerate", "", "comma-separated finding ids whose exact pattern is reported as a finding, not as an oracle failure")
	flag.Parse()
	for _, t := range strings.Split(*tol, ",") {
		if t != "" {
			tolerate[t] = true
		}
	}
	o := vu.NewOut(*out)
	defer o.Close()
	tmpRoot = os.TempDir()
	if st, err := os.Stat("/dev/shm"); err == nil && st.IsDir() {
		tmpRoot = "/dev/shm"
	}
	var err error
	tmpRoot, err = os.MkdirTemp(tmpRoot, "verif-c09-")
	must(err)
	defer os.RemoveAll(tmpRoot)
	_ = io.Discard
	witnessFC09(o)
	sizeRotation(o)
	for i := 0; i < *n; i++ {
		history(o, *seed, i, i%5 == 4)
	}
}
