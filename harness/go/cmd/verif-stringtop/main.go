//go:build verif

// Correspondence harness for C07 (string-top rows conserve totals and keep the heaviest values): drives the real
// MultiItem.MapStringTop / MapStringTopBytes / resample / FinishStringTop with the event writers the agent uses
// (mv.AddCounterHost / mv.AddValueCounterHost), prints one case per row history for StringTop/Corr.v and evaluates
// the property's oracles on the Go side.
//
// What the model cannot predict is recorded as a witness and validated in Coq: the raw rng outputs (from a copy
// of the generator), the map iteration order of every resample round and the order sort.Slice left in
// FinishStringTop. The two orders are not observable from outside, so the harness SEARCHES for orders under which
// a step-by-step replay (using the real ItemValue.Merge) ends in the observed state; a wrong witness can only
// produce a mismatch, never hide one.
package main

import (
	"flag"
	"fmt"
	"math"
	"math/big"
	"os"
	"sort"
	"strings"
	"time"

	"pgregory.net/rand"

	"github.com/VKCOM/statshouse/internal/data_model"
	vu "github.com/VKCOM/statshouse/internal/verifutil"
)

type TU = data_model.TagUnion

// ---------- exact rationals ----------

func q(x float64) string {
	if math.IsNaN(x) || math.IsInf(x, 0) {
		panic("non-finite value")
	}
	if x == math.Trunc(x) && math.Abs(x) < 1e18 {
		return vu.Z(int64(x))
	}
	r := new(big.Rat).SetFloat64(x)
	n := r.Num().String()
	if r.Sign() < 0 {
		n = "(" + n + ")"
	}
	return fmt.Sprintf("(%s # %s)", n, r.Denom().String())
}

// ---------- tags ----------

// string-top tag (i, s): s names the string "t<s>" (0 = empty)
type tg struct {
	i int32
	s int
}

func (t tg) str() string {
	if t.s == 0 {
		return ""
	}
	return fmt.Sprintf("t%d", t.s)
}
func (t tg) tu() TU        { return TU{I: t.i, S: t.str()} }
func (t tg) term() string  { return vu.Z(int64(t.i)*1024 + int64(t.s)) } // decoded by Corr.tg
func (t tg) text() string  { return fmt.Sprintf("%d/%d", t.i, t.s) }
func tuTerm(k TU) string {
	s := 0
	if k.S != "" {
		fmt.Sscanf(k.S, "t%d", &s)
	}
	return vu.Z(int64(k.I)*1024 + int64(s))
}
func tuList(ks []TU) string {
	p := make([]string, len(ks))
	for i, k := range ks {
		p[i] = tuTerm(k)
	}
	return "[" + strings.Join(p, ";") + "]"
}

// host tags: integer tags as themselves, string tags "sN" as 2^32+N (same convention as the C04 harness)
func hostOf(id int64) TU {
	if id >= 1<<32 {
		return TU{S: fmt.Sprintf("s%d", id-(1<<32))}
	}
	return TU{I: int32(id)}
}
func hostID(t TU) int64 {
	if t.S != "" {
		var n int64
		fmt.Sscanf(t.S, "s%d", &n)
		return 1<<32 + n
	}
	return int64(t.I)
}

// x*den as an integer literal; ok=false when x is not a multiple of 1/den
func scaled(x float64, den float64) (string, bool) {
	n := x * den
	if n != math.Trunc(n) || math.Abs(n) > 1e30 {
		return "", false
	}
	if math.Abs(n) > 1e18 {
		bi, _ := new(big.Float).SetFloat64(n).Int(nil)
		if bi.Sign() < 0 {
			return "(" + bi.String() + ")", true
		}
		return bi.String(), true
	}
	return vu.Z(int64(n)), true
}

func vobs(v *data_model.ItemValue) string {
	c2, ok1 := scaled(v.Count(), 2)
	if ok1 && !v.ValueSet && v.ValueMin == 0 && v.ValueMax == 0 && v.ValueSum == 0 && v.ValueSumSquare == 0 && v.MinHostTag == (TU{}) && v.MaxHostTag == (TU{}) {
		return fmt.Sprintf("(VC %s %s)", c2, vu.Z(hostID(v.MaxCounterHostTag)))
	}
	mn, ok2 := scaled(v.ValueMin, 8)
	mx, ok3 := scaled(v.ValueMax, 8)
	sm, ok4 := scaled(v.ValueSum, 16)
	sq, ok5 := scaled(v.ValueSumSquare, 128)
	if ok1 && ok2 && ok3 && ok4 && ok5 && v.ValueSet {
		return fmt.Sprintf("(VS %s %s %s %s %s %s %s %s)", c2, vu.Z(hostID(v.MaxCounterHostTag)), mn, mx, sm, sq, vu.Z(hostID(v.MinHostTag)), vu.Z(hostID(v.MaxHostTag)))
	}
	return fmt.Sprintf("(VO %s %s %s %s %s %s %s %s %s)", q(v.Count()), vu.Z(hostID(v.MaxCounterHostTag)),
		q(v.ValueMin), q(v.ValueMax), q(v.ValueSum), q(v.ValueSumSquare), vu.Z(hostID(v.MinHostTag)), vu.Z(hostID(v.MaxHostTag)), vu.B(v.ValueSet))
}

// ---------- events ----------

type event struct {
	isValue bool
	v, c    float64
	host    int64
}

func (e event) term() string {
	c2, ok := scaled(e.c, 2)
	v8, ok2 := scaled(e.v, 8)
	if !ok || !ok2 {
		panic("event outside the exact domain")
	}
	if e.isValue {
		return fmt.Sprintf("(EV %s %s %s)", v8, c2, vu.Z(e.host))
	}
	return fmt.Sprintf("(EC %s %s)", c2, vu.Z(e.host))
}
func (e event) text() string {
	if e.isValue {
		return fmt.Sprintf("v%g*%g@%d", e.v, e.c, e.host)
	}
	return fmt.Sprintf("c%g@%d", e.c, e.host)
}

// ---------- witness search: resample rounds ----------

type simState struct {
	keys []TU // keys still in Top, in a canonical order
	tail data_model.ItemValue
	rng  rand.Rand
	path [][]TU
}

func (s *simState) sig() string {
	ks := make([]string, len(s.keys))
	for i, k := range s.keys {
		ks[i] = fmt.Sprintf("%d:%s", k.I, k.S)
	}
	sort.Strings(ks)
	return fmt.Sprintf("%v|%v|%v", ks, s.tail, s.rng)
}

func permutations(n int, limit int) [][]int {
	var res [][]int
	var rec func(cur []int, used uint64)
	rec = func(cur []int, used uint64) {
		if len(res) >= limit {
			return
		}
		if len(cur) == n {
			res = append(res, append([]int(nil), cur...))
			return
		}
		for i := 0; i < n; i++ {
			if used&(1<<uint(i)) == 0 {
				rec(append(cur, i), used|1<<uint(i))
			}
		}
	}
	rec(nil, 0)
	return res
}

// one round of resample replayed on copies, visiting the keys in the given order (replay of the loop body with the
// real ItemValue.Merge; used only to find the witness)
func simRound(s *simState, vals map[TU]data_model.ItemValue, sfl int, order []TU) *simState {
	n := &simState{tail: s.tail, rng: s.rng}
	n.path = append(append([][]TU(nil), s.path...), order)
	sf := 1 << uint(sfl)
	for _, k := range order {
		v := vals[k]
		if v.Count() >= float64(sf) {
			n.keys = append(n.keys, k)
			continue
		}
		rv := n.rng.Intn(sf)
		if v.Count() > float64(rv) {
			n.keys = append(n.keys, k)
			continue
		}
		n.tail.Merge(&n.rng, &v)
	}
	return n
}

// searches the iteration orders of `rounds` resample rounds that lead from (keys, tail, rng) to the observed state
func searchResample(vals map[TU]data_model.ItemValue, start *simState, sflBefore, rounds, capacity int,
	wantKeys map[TU]bool, wantTail data_model.ItemValue, wantRng rand.Rand) ([][]TU, bool) {
	frontier := []*simState{start}
	for r := 1; r <= rounds; r++ {
		sfl := sflBefore + r
		if sfl >= 62 {
			return nil, false
		}
		sf := 1 << uint(sfl)
		next := map[string]*simState{}
		var nextList []*simState
		for _, s := range frontier {
			if len(s.keys) < capacity { // the loop would have stopped
				continue
			}
			var still, drawing []TU
			for _, k := range s.keys {
				if v := vals[k]; v.Count() >= float64(sf) {
					still = append(still, k)
				} else {
					drawing = append(drawing, k)
				}
			}
			for _, p := range permutations(len(drawing), 5040) {
				order := append([]TU(nil), still...)
				for _, i := range p {
					order = append(order, drawing[i])
				}
				n := simRound(s, vals, sfl, order)
				g := n.sig()
				if _, ok := next[g]; !ok {
					next[g] = n
					nextList = append(nextList, n)
				}
			}
			if len(nextList) > 20000 {
				return nil, false
			}
		}
		frontier = nextList
	}
	for _, s := range frontier {
		if len(s.keys) >= capacity || len(s.keys) != len(wantKeys) || s.tail != wantTail || s.rng != wantRng {
			continue
		}
		okk := true
		for _, k := range s.keys {
			if !wantKeys[k] {
				okk = false
			}
		}
		if okk {
			return s.path, true
		}
	}
	return nil, false
}

// ---------- witness search: FinishStringTop fold order ----------

func searchFinish(folded []TU, vals map[TU]data_model.ItemValue, tail data_model.ItemValue, rng rand.Rand,
	wantTail data_model.ItemValue, wantRng rand.Rand) ([]TU, bool) {
	nodes := 0
	var rec func(rem []TU, tail data_model.ItemValue, rng rand.Rand, acc []TU) ([]TU, bool)
	rec = func(rem []TU, tail data_model.ItemValue, rng rand.Rand, acc []TU) ([]TU, bool) {
		nodes++
		if nodes > 50000 {
			return nil, false
		}
		if len(rem) == 0 {
			if tail == wantTail && rng == wantRng {
				return append([]TU(nil), acc...), true
			}
			return nil, false
		}
		mx := math.Inf(-1)
		for _, k := range rem {
			if v := vals[k]; v.Count() > mx {
				mx = v.Count()
			}
		}
		for i, k := range rem {
			v := vals[k]
			if v.Count() != mx {
				continue
			}
			t2, r2 := tail, rng
			t2.Merge(&r2, &v)
			rest := append(append([]TU(nil), rem[:i]...), rem[i+1:]...)
			if res, ok := rec(rest, t2, r2, append(acc, k)); ok {
				return res, true
			}
		}
		return nil, false
	}
	return rec(folded, tail, rng, nil)
}

// ---------- one history ----------

type opKind int

const (
	opEvent opKind = iota
	opFinish
	opSnap
)

type hop struct {
	kind  opKind
	cap   int
	tag   tg
	ev    event
	bytes bool
}

type totals struct {
	cnt, sum, sq float64
	any          bool
	mn, mx       float64
}

func (t *totals) add(e event) {
	if e.c > 0 {
		t.cnt += e.c
	}
	if e.isValue {
		t.sum += e.v * e.c
		t.sq += e.v * e.v * e.c
		if !t.any || e.v < t.mn {
			t.mn = e.v
		}
		if !t.any || e.v > t.mx {
			t.mx = e.v
		}
		t.any = true
	}
}

func rowTotals(item *data_model.MultiItem) totals {
	var t totals
	add := func(v *data_model.ItemValue) {
		t.cnt += v.Count()
		t.sum += v.ValueSum
		t.sq += v.ValueSumSquare
		if v.ValueSet {
			if !t.any || v.ValueMin < t.mn {
				t.mn = v.ValueMin
			}
			if !t.any || v.ValueMax > t.mx {
				t.mx = v.ValueMax
			}
			t.any = true
		}
	}
	add(&item.Tail.Value)
	for _, v := range item.Top {
		add(&v.Value)
	}
	return t
}

func cntOf(vals map[TU]data_model.ItemValue, k TU) float64 { v := vals[k]; return v.Count() }

func mix(a, b uint64) uint64 {
	z := a ^ (b+0x9E3779B97F4A7C15)*0xBF58476D1CE4E5B9
	z = (z ^ (z >> 30)) * 0xBF58476D1CE4E5B9
	z = (z ^ (z >> 27)) * 0x94D049BB133111EB
	return z ^ (z >> 31)
}

func nkOf(t tg) TU {
	k := t.tu()
	k.Normalize()
	return k
}

type failure struct{ oracle, what string }

type histResult struct {
	steps    []string
	raws     []uint64
	fails    []failure
	kinds    map[string]bool
	giveup   bool
	rounds   int
	evicted  int
	folded   int
	sampled  int
	tworaw   bool
}

// copies keys (cloned strings) and values by ranging over the map: no lookups, so it also works on a map whose keys a
// defective implementation has corrupted
func snapshotTop(m map[TU]*data_model.MultiValue) ([]TU, map[TU]data_model.ItemValue) {
	vals := map[TU]data_model.ItemValue{}
	var ks []TU
	for k, v := range m {
		kc := TU{I: k.I, S: strings.Clone(k.S)}
		if _, dup := vals[kc]; dup {
			continue
		}
		vals[kc] = v.Value
		ks = append(ks, kc)
	}
	sort.Slice(ks, func(i, j int) bool {
		if ks[i].I != ks[j].I {
			return ks[i].I < ks[j].I
		}
		return ks[i].S < ks[j].S
	})
	return ks, vals
}

func runHistory(seed uint64, ops []hop) *histResult {
	res := &histResult{kinds: map[string]bool{}}
	item := &data_model.MultiItem{}
	rng := rand.New(seed)
	start := *rng
	var want totals
	proto := int(mix(seed, 12345) % 5)
	if proto > 2 {
		proto = 1 + proto%2
	}
	scratch := make([]byte, 0, 32)
	packet := make([]byte, 64)
	written := map[TU]bool{} // every (normalised) non-empty tag an event was written with
	var writtenNames []string
	fail := func(oracle, what string) { res.fails = append(res.fails, failure{oracle, what}) }
	checkKeys := func(at int) {
		seen := map[string]bool{}
		for k := range item.Top {
			g := fmt.Sprintf("%d:%q", k.I, k.S)
			if seen[g] {
				fail("top_keys_distinct", fmt.Sprintf("after op %d: Top holds two entries with key %s", at, g))
			}
			seen[g] = true
			if !written[TU{I: k.I, S: strings.Clone(k.S)}] {
				fail("top_keys_are_written_values", fmt.Sprintf("after op %d: Top holds key %s, which is not a value that was written", at, g))
			}
		}
	}
	checkConserve := func(oracle string, at int) {
		got := rowTotals(item)
		if got.cnt != want.cnt || got.sum != want.sum || got.sq != want.sq || got.any != want.any ||
			(got.any && (got.mn != want.mn || got.mx != want.mx)) {
			fail(oracle, fmt.Sprintf("after op %d: row has count=%v sum=%v sumsq=%v min=%v max=%v, events written have count=%v sum=%v sumsq=%v min=%v max=%v",
				at, got.cnt, got.sum, got.sq, got.mn, got.mx, want.cnt, want.sum, want.sq, want.mn, want.mx))
		}
	}
	for idx, op := range ops {
		switch op.kind {
		case opEvent:
			keys, vals := snapshotTop(item.Top)
			sflBefore := item.VerifStringTopSFL()
			rngBefore := *rng
			tailBefore := item.Tail.Value
			var mv *data_model.MultiValue
			if op.bytes {
				// caller protocols of the []byte API: a fresh slice, ONE scratch buffer reused for every value, or a
				// sub-slice of a larger packet buffer; reused buffers are overwritten right after the call, as a real
				// caller (TL request buffer, ingestion-status scratch) does before the next value
				name := op.tag.str()
				h := mix(seed, uint64(idx))
				var arg []byte
				switch proto {
				case 0:
					arg = []byte(name)
				case 1:
					scratch = append(scratch[:0], name...)
					arg = scratch
				default:
					off := int(h>>8) % 24
					copy(packet[off:], name)
					arg = packet[off : off+len(name) : off+len(name)]
				}
				if len(name) == 0 && h&1 == 0 {
					arg = nil
				}
				mv = item.MapStringTopBytes(rng, op.cap, data_model.TagUnionBytes{I: op.tag.i, S: arg}, op.ev.c)
				res.kinds["bytes-variant"] = true
				if proto != 0 { // the buffer now holds something else: another value's bytes, or garbage
					res.kinds[fmt.Sprintf("bytes-buffer-reused/proto%d", proto)] = true
					fill := []byte("xxxxxxxxxxxxxxxx")
					switch (h >> 16) % 4 {
					case 0:
						if len(writtenNames) > 0 {
							fill = []byte(writtenNames[int(h>>20)%len(writtenNames)] + "t1t2t3t4t5t6t7t8")
						}
					case 1:
						fill = make([]byte, 16)
					case 2:
						fill = []byte("t9t8t7t6t5t4t3t2t1")
					}
					if proto == 1 {
						scratch = scratch[:cap(scratch)]
						for i := range scratch {
							scratch[i] = fill[i%len(fill)]
						}
					} else {
						for i := range packet {
							packet[i] = fill[i%len(fill)]
						}
					}
				}
			} else {
				mv = item.MapStringTop(rng, op.cap, op.tag.tu(), op.ev.c)
			}
			isTop := mv != &item.Tail
			{ // capacity pressure: Top never grows beyond the capacity in force
				capInForce := op.cap
				if capInForce < 1 {
					capInForce = data_model.DefaultStringTopCapacity
				}
				if len(item.Top) > len(keys) && len(item.Top) > capInForce {
					fail("top_within_capacity", fmt.Sprintf("op %d: MapStringTop(capacity %d) left %d top values (%d before)", idx, op.cap, len(item.Top), len(keys)))
				}
				if found := item.Top[nkOf(op.tag)]; isTop && found != mv {
					fail("top_conserves", fmt.Sprintf("op %d: MapStringTop returned a value that is neither Tail nor Top[tag]", idx))
				}
			}
			sflAfter := item.VerifStringTopSFL()
			rounds := sflAfter - sflBefore
			var ords [][]TU
			nk := op.tag.tu()
			nk.Normalize()
			if _, existed := vals[nk]; !existed && !op.tag.tu().Empty() && sflBefore != 0 && !isTop {
				res.sampled++
			}
			if rounds > 0 {
				res.rounds += rounds
				capacity := op.cap
				if capacity < 1 {
					capacity = data_model.DefaultStringTopCapacity
				}
				wantKeys := map[TU]bool{}
				for k := range item.Top {
					if k != nk {
						wantKeys[k] = true
					}
				}
				res.evicted += len(keys) - len(wantKeys)
				st := &simState{keys: keys, tail: tailBefore, rng: rngBefore}
				if sflBefore != 0 {
					st.rng.Float64() // the sampling draw of MapStringTop precedes the loop
				}
				var found bool
				ords, found = searchResample(vals, st, sflBefore, rounds, capacity, wantKeys, item.Tail.Value, *rng)
				if !found {
					// no iteration order explains the observation: emit identity orders, Coq will report the mismatch
					res.kinds["witness-not-found"] = true
					fmt.Fprintf(os.Stderr, "resample witness not found: op %d rounds=%d sflBefore=%d keys=%d cap=%d\n", idx, rounds, sflBefore, len(keys), capacity)
					ords = nil
					for r := 0; r < rounds; r++ {
						ords = append(ords, keys)
					}
				}
			}
			if op.ev.isValue {
				mv.AddValueCounterHost(rng, op.ev.v, op.ev.c, hostOf(op.ev.host))
			} else {
				mv.AddCounterHost(rng, op.ev.c, hostOf(op.ev.host))
			}
			want.add(op.ev)
			if !op.tag.tu().Empty() {
				written[nkOf(op.tag)] = true
				if n := nkOf(op.tag).S; n != "" {
					writtenNames = append(writtenNames, n)
				}
			}
			ot := make([]string, len(ords))
			for i, o := range ords {
				ot[i] = tuList(o)
			}
			res.steps = append(res.steps, fmt.Sprintf("CE %s %s %s [%s] %s %d %d", vu.Z(int64(op.cap)), op.tag.term(), op.ev.term(),
				strings.Join(ot, ";"), vu.B(isTop), item.VerifStringTopSFL(), len(item.Top)))
			checkConserve("top_conserves", idx)
			checkKeys(idx)
		case opFinish:
			keys, vals := snapshotTop(item.Top)
			tailBefore, rngBefore := item.Tail.Value, *rng
			w := item.FinishStringTop(rng, op.cap)
			var retained, folded []TU
			for _, k := range keys {
				if mvp, ok := item.Top[k]; ok {
					retained = append(retained, k)
					if mvp.Value != vals[k] {
						fail("finish_keeps_heaviest", fmt.Sprintf("op %d: retained value %v changed in FinishStringTop", idx, k))
					}
				} else {
					folded = append(folded, k)
				}
			}
			res.folded += len(folded)
			sort.SliceStable(retained, func(i, j int) bool { return cntOf(vals, retained[i]) > cntOf(vals, retained[j]) })
			sort.SliceStable(folded, func(i, j int) bool { return cntOf(vals, folded[i]) > cntOf(vals, folded[j]) })
			ord := append([]TU(nil), retained...)
			if fo, ok := searchFinish(folded, vals, tailBefore, rngBefore, item.Tail.Value, *rng); ok {
				ord = append(ord, fo...)
			} else {
				res.kinds["witness-not-found"] = true
				fmt.Fprintf(os.Stderr, "finish witness not found: op %d folded=%d\n", idx, len(folded))
				ord = append(ord, folded...)
			}
			// oracles of the finalisation clauses
			limit := op.cap
			if limit < 0 {
				limit = 0
			}
			if len(item.Top) > limit {
				fail("finish_at_most_capacity", fmt.Sprintf("op %d: %d top values remain after FinishStringTop(%d)", idx, len(item.Top), op.cap))
			}
			if len(keys) > 0 && len(item.Top) < limit && len(item.Top) < len(keys) {
				fail("finish_at_most_capacity", fmt.Sprintf("op %d: only %d of %d top values remain after FinishStringTop(%d)", idx, len(item.Top), len(keys), op.cap))
			}
			for _, rk := range retained {
				for _, fk := range folded {
					if cntOf(vals, rk) < cntOf(vals, fk) {
						fail("finish_keeps_heaviest", fmt.Sprintf("op %d: retained %v (count %v) is lighter than folded %v (count %v)", idx, rk, cntOf(vals, rk), fk, cntOf(vals, fk)))
					}
				}
			}
			if w != want.cnt {
				fail("finish_conserves", fmt.Sprintf("op %d: FinishStringTop returned weight %v, events written have count %v", idx, w, want.cnt))
			}
			checkConserve("finish_conserves", idx)
			checkKeys(idx)
			if len(keys) == 0 {
				ord = nil
			}
			w2, okw := scaled(w, 2)
			if !okw {
				panic("weight outside the exact domain")
			}
			res.steps = append(res.steps, fmt.Sprintf("CF %s %s %s %d", vu.Z(int64(op.cap)), tuList(ord), w2, len(item.Top)))
		case opSnap:
			ks, vs := snapshotTop(item.Top)
			p := make([]string, len(ks))
			for i, k := range ks {
				v := vs[k]
				p[i] = fmt.Sprintf("(%s,%s)", tuTerm(k), vobs(&v))
			}
			res.steps = append(res.steps, fmt.Sprintf("CS [%s] %s %d", strings.Join(p, ";"), vobs(&item.Tail.Value), item.VerifStringTopSFL()))
		}
	}
	// the raw outputs consumed, plus one sentinel
	c := start
	n := 0
	for c != *rng {
		c.Uint64()
		n++
		if n > 1000000 {
			panic("cannot locate the rng position")
		}
	}
	c = start
	for i := 0; i <= n; i++ {
		res.raws = append(res.raws, c.Uint64())
	}
	return res
}

// runs one history with a watchdog: a defective implementation may loop forever (resample that cannot delete) or panic
func runGuarded(seed uint64, ops []hop) (*histResult, string) {
	type out struct {
		res *histResult
		why string
	}
	ch := make(chan out, 1)
	go func() {
		defer func() {
			if p := recover(); p != nil {
				ch <- out{nil, fmt.Sprintf("panic while the history was applied: %v", p)}
			}
		}()
		ch <- out{runHistory(seed, ops), ""}
	}()
	select {
	case o := <-ch:
		return o.res, o.why
	case <-time.After(30 * time.Second):
		return nil, "the history did not complete within 30 s (a call into the row never returned)"
	}
}

// ---------- generators ----------

var countPool = []float64{0, 0.5, 1, 1, 1, 1.5, 2, 2, 3, 4, 10}

func genEvent(r *vu.Rng, heavy int) event {
	e := event{host: int64(r.Intn(4))}
	if r.Chance(10) {
		e.host = 1<<32 + int64(1+r.Intn(2))
	}
	switch heavy {
	case 0:
		e.c = countPool[r.Intn(len(countPool))]
	case 1:
		e.c = float64(r.Pick(16, 64, 100, 1000, 1024, 4096))
	case 2:
		e.c = float64(int64(1) << uint(30+r.Intn(6))) // 2^30..2^35: Intn and Uint64n above 2^32 take two raw outputs
	}
	if r.Chance(45) {
		e.isValue = true
		e.v = float64(r.Intn(33)-16) / 8
	}
	return e
}

func genTag(r *vu.Rng, k int) tg {
	// key number k (1-based) in one of its spellings
	switch k % 3 {
	case 0:
		return tg{s: k}
	case 1:
		if k%2 == 0 {
			return tg{i: -int32(k)}
		}
		return tg{i: int32(k)}
	default:
		switch r.Intn(3) {
		case 0:
			return tg{i: int32(k), s: 1 + r.Intn(3)} // Normalize drops the string
		case 1:
			return tg{s: k}
		}
		return tg{i: int32(k)}
	}
}

func zipf(r *vu.Rng, n int) int { // 1..n, weight 1/k
	tot := 0.0
	for k := 1; k <= n; k++ {
		tot += 1 / float64(k)
	}
	x := float64(r.U64()>>11) / float64(1<<53) * tot
	for k := 1; k <= n; k++ {
		x -= 1 / float64(k)
		if x < 0 {
			return k
		}
	}
	return n
}

func genHistory(r *vu.Rng, style int) (ops []hop, name string, capacity int) {
	capacity = 1 + r.Intn(5)
	n := 6 + r.Intn(20)
	pool := capacity + 1 + r.Intn(5)
	varyCap := r.Chance(10)
	bytesShare := []int{15, 50, 100}[r.Intn(3)]
	ev := func(k int, heavy int) hop {
		c := capacity
		if varyCap {
			c = 1 + r.Intn(5)
		}
		t := genTag(r, k)
		if k == 0 || r.Chance(4) {
			t = tg{}
		}
		return hop{kind: opEvent, cap: c, tag: t, ev: genEvent(r, heavy), bytes: r.Chance(bytesShare)}
	}
	next := 1
	switch style {
	case 0:
		name = "zipf"
		for i := 0; i < n; i++ {
			h := 0
			if r.Chance(8) {
				h = 1
			}
			ops = append(ops, ev(zipf(r, pool), h))
		}
	case 1:
		name = "uniform"
		for i := 0; i < n; i++ {
			ops = append(ops, ev(1+r.Intn(pool), 0))
		}
	case 2:
		name = "all-new"
		for i := 0; i < n; i++ {
			ops = append(ops, ev(next, 0))
			next++
		}
	case 3:
		name = "heavy-then-light"
		for i := 0; i < capacity; i++ {
			ops = append(ops, ev(next, 1))
			next++
		}
		for i := 0; i < n; i++ {
			if r.Chance(70) {
				ops = append(ops, ev(next, 0))
				next++
			} else {
				ops = append(ops, ev(1+r.Intn(next-1), 0))
			}
		}
	case 4:
		name = "light-then-heavy"
		for i := 0; i < capacity+2; i++ {
			ops = append(ops, ev(next, 0))
			next++
		}
		for i := 0; i < n/2; i++ {
			ops = append(ops, ev(next, 1))
			next++
		}
	case 5:
		name = "default-capacity"
		capacity = -r.Intn(2)
		for i := 0; i < n; i++ {
			ops = append(ops, ev(1+r.Intn(pool+6), 0))
		}
	case 6:
		name = "huge-counts"
		capacity = 1 + r.Intn(2)
		for i := 0; i < capacity; i++ {
			ops = append(ops, ev(next, 2))
			next++
		}
		for i := 0; i < 2+r.Intn(3); i++ {
			ops = append(ops, ev(next, r.Intn(3)))
			next++
		}
	}
	// snapshots and finalisation
	var out []hop
	for _, o := range ops {
		out = append(out, o)
		if r.Chance(4) {
			out = append(out, hop{kind: opSnap})
		}
	}
	fin := func() {
		c := r.Intn(capacity + 3)
		switch r.Intn(8) {
		case 0:
			c = -1 - r.Intn(3)
		case 1:
			c = 0
		case 2:
			c = 100
		}
		if capacity < 1 {
			c = r.Intn(5)
		}
		if r.Chance(35) {
			out = append(out, hop{kind: opSnap})
		}
		out = append(out, hop{kind: opFinish, cap: c}, hop{kind: opSnap})
	}
	fin()
	if r.Chance(25) { // the row keeps receiving events after it was finalised once (aggregator: insert of a historic second)
		for i := 0; i < 2+r.Intn(4); i++ {
			out = append(out, ev(1+r.Intn(pool+3), 0))
		}
		fin()
	}
	return out, name, capacity
}

// a row at the default capacity (100): 100 distinct values, all but a few too heavy to draw, then new values
func genDefaultFull(r *vu.Rng) (ops []hop, name string, capacity int) {
	capacity = 0
	light := 3 + r.Intn(2)
	for k := 1; k <= 100; k++ {
		e := event{c: float64(1<<20 + k), host: int64(r.Intn(3))} // distinct counts: sort.Slice leaves one order
		if k <= light {
			e.c = 1
		}
		ops = append(ops, hop{kind: opEvent, cap: capacity, tag: tg{i: int32(k)}, ev: e})
	}
	for k := 101; k <= 103; k++ {
		ops = append(ops, hop{kind: opEvent, cap: capacity, tag: tg{i: int32(k)}, ev: genEvent(r, 0), bytes: r.Bool()})
	}
	ops = append(ops, hop{kind: opFinish, cap: 20}, hop{kind: opSnap})
	return ops, "default-capacity-full", capacity
}

func histText(seed uint64, ops []hop) string {
	var b strings.Builder
	proto := int(mix(seed, 12345) % 5)
	if proto > 2 {
		proto = 1 + proto%2
	}
	fmt.Fprintf(&b, "rng=%d bytesbuf=%s", seed, []string{"fresh", "reused-scratch", "packet-subslice"}[proto])
	lastCap := math.MinInt
	for _, o := range ops {
		switch o.kind {
		case opEvent:
			if o.cap != lastCap {
				fmt.Fprintf(&b, " cap=%d", o.cap)
				lastCap = o.cap
			}
			bs := ""
			if o.bytes {
				bs = "b"
			}
			fmt.Fprintf(&b, " %s%s:%s", o.tag.text(), bs, o.ev.text())
		case opFinish:
			fmt.Fprintf(&b, " FIN(%d)", o.cap)
		}
	}
	return b.String()
}

// Finding F-C07a: with `capacity` top values of count >= 2^62 in a row, MapStringTop of one more value never returns
// (`1 << sampleFactorLog2` wraps to MinInt64 and then 0, nothing is ever evicted). The witness is replayed on the real
// code in a goroutine that is abandoned when the process exits; this is the last thing the harness does.
func replayHang(o *vu.Out) {
	const big62 = float64(1 << 62)
	ops := []hop{{kind: opEvent, cap: 1, tag: tg{i: 1}, ev: event{c: big62, host: 1}}, {kind: opSnap}}
	const hs = 7
	res := runHistory(hs, ops)
	rs := make([]string, len(res.raws))
	for j, x := range res.raws {
		rs[j] = vu.ZU(x)
	}
	text := "hang-witness rng=7 cap=1 1/0:c4611686018427387904@1 then MapStringTop(cap=1, 2/0, count 1)"
	line := o.Case(text, fmt.Sprintf("CHist [%s] [%s]", strings.Join(res.steps, "; "), strings.Join(rs, ";")), false, "finding/F-C07a-witness")
	for _, f := range res.fails {
		o.Fail(f.oracle, line, text+" :: "+f.what)
	}
	item := &data_model.MultiItem{}
	rng := rand.New(hs)
	item.MapStringTop(rng, 1, TU{I: 1}, big62).AddCounterHost(rng, big62, hostOf(1))
	done := make(chan struct{})
	go func() {
		item.MapStringTop(rng, 1, TU{I: 2}, 1)
		close(done)
	}()
	for i := 0; i < 50; i++ {
		select {
		case <-done:
			o.Finding("F-C07a", "gone")
			return
		case <-time.After(100 * time.Millisecond):
		}
		if sfl := item.VerifStringTopSFL(); sfl > 1000 { // racy read of a counter that only grows; far beyond the 64 rounds after which sf is 0
			o.Finding("F-C07a", "reproduced")
			o.Fail("map_string_top_terminates", line, text+fmt.Sprintf(" :: MapStringTop has not returned after %d resample rounds (sampleFactorLog2=%d, len(Top)=1)", sfl, sfl))
			return
		}
	}
	o.Finding("F-C07a", "reproduced")
	o.Fail("map_string_top_terminates", line, text+" :: MapStringTop has not returned after 5 s")
}

func main() {
	seed := flag.Uint64("seed", 1, "")
	n := flag.Int("n", 600, "")
	out := flag.String("out", "", "")
	flag.Parse()
	r := vu.NewRng(*seed)
	o := vu.NewOut(*out)
	defer o.Close()
	defer replayHang(o)

	for i := 0; i < *n; i++ {
		var ops []hop
		var name string
		if i%150 == 77 {
			ops, name, _ = genDefaultFull(r)
		} else {
			style := r.Intn(7)
			if style == 6 && !r.Chance(40) {
				style = r.Intn(5)
			}
			ops, name, _ = genHistory(r, style)
		}
		hs := r.U64()
		text0 := histText(hs, ops)
		res, why := runGuarded(hs, ops)
		if res == nil {
			// the implementation did not finish this history: a concrete failing input; the abandoned goroutine may
			// still be spinning, so nothing more is generated
			line := o.Case(text0, "CHist [] [0]", false, "history-not-completed")
			o.Fail("map_string_top_terminates", line, text0+" :: "+why)
			return
		}
		rs := make([]string, len(res.raws))
		for j, x := range res.raws {
			rs[j] = vu.ZU(x)
		}
		term := fmt.Sprintf("CHist [%s] [%s]", strings.Join(res.steps, "; "), strings.Join(rs, ";"))
		text := histText(hs, ops)
		kinds := []string{"style/" + name}
		if res.rounds > 0 {
			kinds = append(kinds, "resample-fired")
		}
		if res.evicted > 0 {
			kinds = append(kinds, "evicted-into-tail")
		}
		if res.sampled > 0 {
			kinds = append(kinds, "new-value-sampled-into-tail")
		}
		if res.folded > 0 {
			kinds = append(kinds, "finish-folded")
		}
		for k := range res.kinds {
			kinds = append(kinds, k)
		}
		sort.Strings(kinds[1:])
		nontrivial := res.evicted > 0 && res.folded > 0
		line := o.Case(text, term, nontrivial, kinds...)
		for _, f := range res.fails {
			o.Fail(f.oracle, line, text+" :: "+f.what)
		}
	}
}
