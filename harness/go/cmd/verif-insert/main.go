//go:build verif

// Correspondence harness for C03 (inserted rows equal the merge of all contributions and read back intact).
//
//	row level:  MultiValues built with the real operations are encoded by the real appendKeys + multiValueMarshal
//	            (appendAggregates, AppendCentroids, ChUnique.MarshallAppend, appendHosts/appendArgMinMaxTag); the bytes are
//	            decoded here by a RowBinary reader whose aggregate-state columns are the real chutil.ColUnique /
//	            ColTDigest / ColArgMin|MaxStringFloat32.DecodeColumn; both directions are printed for Insert/Corr.v.
//	body level: rows assembled by the real TLMultiItemFromKey/MultiValueToTL go, as requests of several agents,
//	            through the real handleSendSourceBucket3 of a hand-assembled Aggregator; the real
//	            rowDataMarshalAppendPositions produces the insert body, which is decoded here (oracles) and by the
//	            model's decoder (Insert/Corr.v) and compared with the merge of the contributions.
//	columns:    the argMin/argMax column readers are driven the way ch-go drives them (Reset, DecodeColumn per block).
//
// Property oracles are evaluated here, independent of the model.
package main

import (
	"bytes"
	"encoding/binary"
	"flag"
	"fmt"
	"math"
	"math/big"
	"os"
	"sort"
	"strings"

	"github.com/ClickHouse/ch-go/proto"
	"github.com/hrissan/tdigest"
	"pgregory.net/rand"

	"github.com/VKCOM/statshouse/internal/agent"
	"github.com/VKCOM/statshouse/internal/aggregator"
	"github.com/VKCOM/statshouse/internal/chutil"
	"github.com/VKCOM/statshouse/internal/data_model"
	"github.com/VKCOM/statshouse/internal/data_model/gen2/tlstatshouse"
	"github.com/VKCOM/statshouse/internal/format"
	"github.com/VKCOM/statshouse/internal/metajournal"
	"github.com/VKCOM/statshouse/internal/pcache"
	vu "github.com/VKCOM/statshouse/internal/verifutil"
)

// ---------- printing ----------

func q(x float64) string {
	if math.IsNaN(x) || math.IsInf(x, 0) {
		panic("non-finite value in a case")
	}
	if x == 0 {
		return "z0"
	}
	r := new(big.Rat).SetFloat64(x)
	n := r.Num().String()
	if r.IsInt() {
		if r.Num().Sign() < 0 {
			return "(qi (" + n + "))"
		}
		return "(qi " + n + ")"
	}
	if r.Num().Sign() < 0 {
		n = "(" + n + ")"
	}
	return "(q " + n + " " + r.Denom().String() + ")"
}

// per-case string table: id 0 = "", ids from 1 in order of first use
type strTab struct {
	ids  map[string]int64
	strs []string
}

func newTab() *strTab { return &strTab{ids: map[string]int64{}} }
func (t *strTab) sid(s string) int64 {
	if s == "" {
		return 0
	}
	id, ok := t.ids[s]
	if !ok {
		t.strs = append(t.strs, s)
		id = int64(len(t.strs))
		t.ids[s] = id
	}
	return id
}
func (t *strTab) term() string {
	p := make([]string, len(t.strs))
	for i, s := range t.strs {
		p[i] = vu.Bytes([]byte(s))
	}
	return "[" + strings.Join(p, ";") + "]"
}
func (t *strTab) hz(u data_model.TagUnion) int64 {
	if u.I != 0 {
		return 2 * int64(u.I)
	}
	if u.S != "" {
		return 2*t.sid(u.S) + 1
	}
	return 0
}

func hzText(t data_model.TagUnion) string {
	if t.I != 0 {
		return fmt.Sprintf("%d", t.I)
	}
	if t.S != "" {
		return t.S
	}
	return "-"
}

func hsTerm(ch *data_model.ChUnique) string {
	st := ch.VerifState()
	if st.Nil {
		return "HNil"
	}
	var p []string
	for i, x := range st.Buf {
		if x != 0 {
			p = append(p, fmt.Sprintf("(%d,%d)", i, x))
		}
	}
	return fmt.Sprintf("(H %d %d %d %s [%s])", st.Skip, st.SizeDegree, st.Count, vu.B(st.Zero), strings.Join(p, ";"))
}

func centsTerm(nilDigest bool, cs []tdigest.Centroid) string {
	if nilDigest {
		return "None"
	}
	p := make([]string, len(cs))
	for i, c := range cs {
		p[i] = "(" + q(c.Mean) + "," + q(c.Weight) + ")"
	}
	return "(Some [" + strings.Join(p, ";") + "])"
}

func (t *strTab) mvsTerm(mv *data_model.MultiValue) string {
	v := &mv.Value
	var cs []tdigest.Centroid
	if mv.ValueTDigest != nil {
		cs = mv.ValueTDigest.Centroids()
	}
	return fmt.Sprintf("(MV %s %s %s %s %s %s %s %s %s %s %s)", q(v.Count()), vu.Z(t.hz(v.MaxCounterHostTag)),
		q(v.ValueMin), q(v.ValueMax), q(v.ValueSum), q(v.ValueSumSquare), vu.Z(t.hz(v.MinHostTag)), vu.Z(t.hz(v.MaxHostTag)),
		vu.B(v.ValueSet), centsTerm(mv.ValueTDigest == nil, cs), hsTerm(&mv.HLL))
}

func sparseI(a []int32) string {
	var p []string
	for i, x := range a {
		if x != 0 {
			p = append(p, fmt.Sprintf("(%d,%s)", i, vu.Z(int64(x))))
		}
	}
	return "[" + strings.Join(p, ";") + "]"
}

func (t *strTab) sparseS(a []string) string {
	var p []string
	for i, x := range a {
		if x != "" {
			p = append(p, fmt.Sprintf("(%d,%d)", i, t.sid(x)))
		}
	}
	return "[" + strings.Join(p, ";") + "]"
}

// run-length encoded bytes: R n b | L [..]
func segs(b []byte) string {
	var p []string
	i := 0
	var lit []byte
	flush := func() {
		if len(lit) > 0 {
			p = append(p, "L "+vu.Bytes(lit))
			lit = nil
		}
	}
	for i < len(b) {
		j := i
		for j < len(b) && b[j] == b[i] {
			j++
		}
		if j-i >= 6 {
			flush()
			p = append(p, fmt.Sprintf("R %d %d", j-i, b[i]))
		} else {
			lit = append(lit, b[i:j]...)
		}
		i = j
	}
	flush()
	return "[" + strings.Join(p, ";") + "]"
}

// ---------- a RowBinary reader for statshouse_v3_incoming ----------

type decRow struct {
	metric int32
	time   uint32
	tagI   [format.MaxTags]int32 // slot 47 = the string top
	tagS   [format.MaxTags]string
	agg    [6]float64
	cents  []byte // raw column values
	uniq   []byte
	host   [3][]byte
}

func (d *decRow) wkey() string {
	var sb strings.Builder
	fmt.Fprintf(&sb, "t=%d m=%d", d.time, d.metric)
	for i := range d.tagI {
		if d.tagI[i] != 0 || d.tagS[i] != "" {
			fmt.Fprintf(&sb, " %d:%d/%q", i, d.tagI[i], d.tagS[i])
		}
	}
	return sb.String()
}

func readStr(b []byte) (string, []byte, error) {
	n, k := binary.Uvarint(b)
	if k <= 0 || uint64(len(b)-k) < n {
		return "", nil, fmt.Errorf("short string")
	}
	return string(b[k : k+int(n)]), b[k+int(n):], nil
}

func decodeRow(b []byte) (d decRow, rest []byte, err error) {
	need := func(n int) error {
		if len(b) < n {
			return fmt.Errorf("short row")
		}
		return nil
	}
	if err = need(9); err != nil {
		return
	}
	if b[0] != 0 {
		err = fmt.Errorf("index_type %d", b[0])
		return
	}
	d.metric = int32(binary.LittleEndian.Uint32(b[1:]))
	d.time = binary.LittleEndian.Uint32(b[5:])
	b = b[9:]
	for i := 0; i < format.MaxTags; i++ {
		if err = need(4); err != nil {
			return
		}
		d.tagI[i] = int32(binary.LittleEndian.Uint32(b))
		if d.tagS[i], b, err = readStr(b[4:]); err != nil {
			return
		}
	}
	if err = need(48); err != nil {
		return
	}
	for i := range d.agg {
		d.agg[i] = math.Float64frombits(binary.LittleEndian.Uint64(b[8*i:]))
	}
	b = b[48:]
	n, k := binary.Uvarint(b)
	if k <= 0 || uint64(len(b)-k) < 8*n {
		err = fmt.Errorf("short centroids")
		return
	}
	d.cents, b = b[:k+8*int(n)], b[k+8*int(n):]
	if err = need(2); err != nil {
		return
	}
	n, k = binary.Uvarint(b[1:])
	if k <= 0 || uint64(len(b)-1-k) < 4*n {
		err = fmt.Errorf("short uniq state")
		return
	}
	d.uniq, b = b[:1+k+4*int(n)], b[1+k+4*int(n):]
	for h := 0; h < 3; h++ { // SingleValueDataString + SingleValueDataFixed<Float32>
		if err = need(5); err != nil {
			return
		}
		l := binary.LittleEndian.Uint32(b)
		sz := 4
		if l != math.MaxUint32 {
			sz += int(l)
		}
		if err = need(sz + 1); err != nil {
			return
		}
		if b[sz] != 0 {
			sz += 4
		}
		sz++
		if err = need(sz); err != nil {
			return
		}
		d.host[h], b = b[:sz], b[sz:]
	}
	return d, b, nil
}

func decodeBody(b []byte) (rows []decRow, err error) {
	for len(b) > 0 {
		var d decRow
		if d, b, err = decodeRow(b); err != nil {
			return rows, err
		}
		rows = append(rows, d)
	}
	return rows, nil
}

// the real column readers
func readUnique(raw []byte) (*data_model.ChUnique, error) {
	var col chutil.ColUnique
	if err := col.DecodeColumn(proto.NewReader(bytes.NewReader(raw)), 1); err != nil {
		return nil, err
	}
	return &col[0], nil
}
func readDigest(raw []byte) (*tdigest.TDigest, error) {
	var col chutil.ColTDigest
	if err := col.DecodeColumn(proto.NewReader(bytes.NewReader(raw)), 1); err != nil {
		return nil, err
	}
	return col[0], nil
}
func readArgMin(raw []byte) (data_model.ArgMinMaxStringFloat32, error) {
	var col chutil.ColArgMinStringFloat32
	if err := col.DecodeColumn(proto.NewReader(bytes.NewReader(raw)), 1); err != nil {
		return data_model.ArgMinMaxStringFloat32{}, err
	}
	return col[0].ArgMinMaxStringFloat32, nil
}
func readArgMax(raw []byte) (data_model.ArgMinMaxStringFloat32, error) {
	var col chutil.ColArgMaxStringFloat32
	if err := col.DecodeColumn(proto.NewReader(bytes.NewReader(raw)), 1); err != nil {
		return data_model.ArgMinMaxStringFloat32{}, err
	}
	return col[0].ArgMinMaxStringFloat32, nil
}

func arg3Term(a data_model.ArgMinMaxStringFloat32) string {
	return fmt.Sprintf("(%s,%d,%d)", vu.Bytes([]byte(a.AsString)), uint32(a.AsInt32), math.Float32bits(a.Val))
}

func sortedSet(ch *data_model.ChUnique) []uint32 {
	st := ch.VerifState()
	var e []uint32
	for _, x := range st.Buf {
		if x != 0 {
			e = append(e, x)
		}
	}
	if st.Zero {
		e = append(e, 0)
	}
	sort.Slice(e, func(i, j int) bool { return e[i] < e[j] })
	return e
}

func wireTerm(ch *data_model.ChUnique) string {
	w := ch.MarshallAppend(nil)
	n, k := binary.Uvarint(w[1:])
	items := make([]string, 0, n)
	for i := 0; i < int(n) && 1+k+4*i+4 <= len(w); i++ {
		items = append(items, fmt.Sprint(binary.LittleEndian.Uint32(w[1+k+4*i:])))
	}
	return fmt.Sprintf("(%d,%d,[%s])", w[0], n, strings.Join(items, ";"))
}

func tagMatches(a data_model.ArgMinMaxStringFloat32, t data_model.TagUnion) bool {
	if t.I != 0 {
		return a.AsInt32 == t.I && a.AsString == ""
	}
	return a.AsString == t.S && a.AsInt32 == 0
}

// ---------- generators ----------

var hosts = []data_model.TagUnion{{}, {I: 7}, {I: 8}, {I: -3}, {S: "h-a"}, {S: "h-b"}, {I: 1 << 30}, {S: "h"}}

func pickHost(r *vu.Rng) data_model.TagUnion { return hosts[r.Intn(len(hosts))] }
func pickVal(r *vu.Rng) float64 {
	switch r.Intn(6) {
	case 0:
		return float64(r.Intn(9) - 4)
	case 1:
		return float64(r.Intn(64)-32) / 8
	case 2:
		return float64(r.Intn(2000) - 1000)
	default:
		return float64(r.Intn(33)-16) / 4
	}
}
func pickCount(r *vu.Rng) float64 {
	return []float64{1, 1, 1, 2, 3, 0.5, 1.5, 10, 4}[r.Intn(9)]
}

// one MultiValue built by the real operations; kind: counter, value, percentile, unique, mixed
func genValue(r *vu.Rng, kind string, seed uint64) (*data_model.MultiValue, int) {
	rng := rand.New(seed)
	mv := &data_model.MultiValue{}
	n := 1 + r.Intn(4)
	distinct := map[int64]struct{}{}
	if kind == "unique-wrap" {
		seqs, d := wrapSeq(r)
		for _, hs := range seqs {
			mv.ApplyUnique(rng, hs, float64(len(hs)), pickHost(r))
		}
		return mv, d
	}
	if kind == "percentile-tiny" { // a centroid whose weight (times sf) is lost or denormal in float32
		tiny := tinyWeights[r.Intn(len(tinyWeights))]
		at := r.Intn(3)
		for i := 0; i < 3+r.Intn(2); i++ {
			w := float64(1 + r.Intn(4))
			if i == at || r.Chance(15) {
				w = tiny
			}
			mv.AddValueCounterHostPercentile(rng, float64(i*3+r.Intn(3)), w, pickHost(r), 256)
		}
		return mv, 0
	}
	for i := 0; i < n; i++ {
		h := pickHost(r)
		switch kind {
		case "counter":
			mv.AddCounterHost(rng, pickCount(r), h)
		case "value":
			mv.AddValueCounterHost(rng, pickVal(r), pickCount(r), h)
		case "percentile":
			mv.AddValueCounterHostPercentile(rng, pickVal(r), float64(1+r.Intn(4)), h, 256)
		case "unique":
			m := 1 + r.Intn(6)
			hs := make([]int64, m)
			for j := range hs {
				hs[j] = int64(r.Intn(40))
				if r.Chance(10) {
					hs[j] = int64(r.Intn(3000))
				}
				distinct[hs[j]] = struct{}{}
			}
			mv.ApplyUnique(rng, hs, float64(m), h)
		default:
			if r.Bool() {
				mv.AddCounterHost(rng, pickCount(r), h)
			} else {
				mv.AddValueCounterHost(rng, pickVal(r), pickCount(r), h)
			}
		}
	}
	return mv, len(distinct)
}

var valueKinds = []string{"counter", "value", "value", "percentile", "unique", "mixed", "unique-wrap", "percentile-tiny"}

// ---- directed unique sets: collision chains that wrap around the end of the table at the moment it grows ----

var hashOf = func() func(uint64) uint32 {
	var ch data_model.ChUnique
	return func(v uint64) uint32 { return ch.VerifHash(v) }
}()

func placeAt(v uint64, degree uint) int { return int(hashOf(v)>>15) & ((1 << degree) - 1) }

func findVal(r *vu.Rng, used map[uint64]bool, pred func(v uint64) bool) uint64 {
	for v := uint64(1 + r.Intn(3000)); ; v++ {
		if !used[v] && hashOf(v) != 0 && pred(v) {
			used[v] = true
			return v
		}
	}
}

// wrapSeq: three successive contributions for a table of 2^d cells (d = 4, 5, 6):
//   A = fillers that bring the table to degree d, then 1-2 values whose home is one of the last two cells,
//   B = 1-3 more values with the same home cells (they wrap to the front), then fillers until the table grows,
//   C = the values of the chain once more (must be found, not inserted again), sometimes a fresh one.
func wrapSeq(r *vu.Rng) (seqs [3][]int64, distinct int) {
	d := uint(4 + r.Intn(3))
	size := 1 << d
	used := map[uint64]bool{}
	last := func(v uint64) bool { return placeAt(v, d) >= size-1-r.Intn(2) }
	lastUp := func(v uint64) bool { return placeAt(v, d) == size-1 && placeAt(v, d+1) == 2*size-1 }
	lastLow := func(v uint64) bool { return placeAt(v, d) == size-1 && placeAt(v, d+1) == size-1 }
	mid := func(v uint64) bool { p := placeAt(v, d); return p >= 2+r.Intn(3) && p < size-3 }
	var a, b, c []uint64
	count := 0
	if d > 4 { // fillers that make the table grow to degree d: more than 2^(d-2) items
		for count <= size/4 {
			a = append(a, findVal(r, used, mid))
			count++
		}
	}
	var chain []uint64
	if r.Bool() {
		chain = append(chain, findVal(r, used, lastUp))
	} else {
		chain = append(chain, findVal(r, used, last))
	}
	a = append(a, chain[0])
	count++
	for n := 1 + r.Intn(3); n > 0; n-- {
		var y uint64
		if r.Chance(60) {
			y = findVal(r, used, lastLow)
		} else {
			y = findVal(r, used, last)
		}
		chain = append(chain, y)
		b = append(b, y)
		count++
	}
	for count <= size/2 { // the next insert after maxFill triggers the resize
		b = append(b, findVal(r, used, mid))
		count++
	}
	for _, y := range chain {
		if r.Chance(80) {
			c = append(c, y)
		}
	}
	if len(c) == 0 {
		c = append(c, chain[len(chain)-1])
	}
	if r.Chance(30) {
		c = append(c, findVal(r, used, mid))
	}
	if r.Chance(30) { // the same across one more growth
		for n := size / 2; n > 0; n-- {
			c = append(c, findVal(r, used, func(uint64) bool { return true }))
		}
		c = append(c, chain...)
	}
	conv := func(x []uint64) []int64 {
		o := make([]int64, len(x))
		for i, v := range x {
			o[i] = int64(v)
		}
		return o
	}
	return [3][]int64{conv(a), conv(b), conv(c)}, len(used)
}

var tinyWeights = []float64{1e-50, 1e-46, 1.4e-45, 2.8e-45, 7e-46, 1e-45, 4.2e-45, 3e-39, 1e-300}

func genKey(r *vu.Rng, t uint32, metricPool int) data_model.Key {
	k := data_model.Key{Timestamp: t, Metric: int32(1 + r.Intn(metricPool))}
	switch r.Intn(5) {
	case 0:
	case 1:
		k.Tags[1+r.Intn(4)] = int32(1 + r.Intn(3))
	case 2:
		k.Tags[0] = int32(r.Intn(3))
		k.STags[1+r.Intn(3)] = fmt.Sprintf("s%d", r.Intn(3))
	case 3:
		k.Tags[format.MaxTags-2] = -int32(1 + r.Intn(2))
		k.STags[format.MaxTags-2-r.Intn(2)] = "z"
	default:
		k.Tags[r.Intn(16)] = int32(r.U32())
		k.Tags[r.Intn(16)] = int32(1 + r.Intn(2))
	}
	// a well-formed agent key: a slot holds an int or a string, never both; slot 47 is the string top (removed)
	for i := range k.Tags {
		if k.Tags[i] != 0 {
			k.STags[i] = ""
		}
	}
	return k
}

func genTop(r *vu.Rng) data_model.TagUnion {
	if r.Bool() {
		return data_model.TagUnion{I: int32(1 + r.Intn(4))}
	}
	return data_model.TagUnion{S: fmt.Sprintf("top%d", r.Intn(4))}
}

func f32exact(x float64) bool { return float64(float32(x)) == x }

func exact(mv *data_model.MultiValue, sf float64) bool {
	if mv.ValueTDigest != nil {
		for _, c := range mv.ValueTDigest.Centroids() {
			if !f32exact(c.Mean) || !f32exact(c.Weight*sf) {
				return false
			}
		}
	}
	return true
}

// ---------- row level ----------

var rowMetrics = []int32{1, 2, 77, 101, 102, 103, 104, 105, 106, 107, 103, 105, format.BuiltinMetricIDIngestionStatus, format.BuiltinMetricIDAgentSamplingFactor, format.BuiltinMetricIDAggMappingCreated, format.BuiltinMetricIDBadges, format.BuiltinMetricIDContributorsLog, -1000000}

// what a lookup of a metric id in the insert's metricIndexCache finds (Insert.Model.mres)
func mresTerm(m int32) string {
	a, b, c := aggregator.VerifInsSkips(m) // a fresh cache: the metric's own flags
	fl := fmt.Sprintf("%s %s %s", vu.B(a), vu.B(b), vu.B(c))
	if m == format.BuiltinMetricIDIngestionStatus {
		return "D " + fl
	}
	if _, ok := format.BuiltinMetrics[m]; ok || (m >= 101 && m <= 107) {
		return "F " + fl
	}
	return "U"
}

var builtinIDsCache []int32

func builtinIDs() []int32 {
	if builtinIDsCache == nil {
		for id := range format.BuiltinMetrics {
			builtinIDsCache = append(builtinIDsCache, id)
		}
		sort.Slice(builtinIDsCache, func(i, j int) bool { return builtinIDsCache[i] < builtinIDsCache[j] })
	}
	return builtinIDsCache
}

func rowCase(o *vu.Out, r *vu.Rng, idx int) {
	tab := newTab()
	kind := valueKinds[r.Intn(len(valueKinds))]
	mv, distinct := genValue(r, kind, r.U64())
	if r.Chance(4) {
		mv = &data_model.MultiValue{} // an empty value still encodes
		kind = "empty"
	}
	sf := []float64{1, 1, 1, 2, 4, 0.5}[r.Intn(6)]
	metric := rowMetrics[r.Intn(len(rowMetrics))]
	if r.Chance(15) { // any built-in metric: their skip flags differ
		metric = builtinIDs()[r.Intn(len(builtinIDs()))]
	}
	key := genKey(r, 1700000000+uint32(r.Intn(1000)), 5)
	key.Metric = metric
	hostile := r.Chance(12)
	if hostile { // what a misbehaving sender could put into a key
		switch r.Intn(3) {
		case 0:
			key.Tags[format.StringTopTagIndexV3] = int32(1 + r.Intn(5))
		case 1:
			key.STags[format.StringTopTagIndexV3] = "x47"
		default:
			i := r.Intn(format.MaxTags - 1)
			key.Tags[i] = 5
			key.STags[i] = "both"
		}
	}
	var top data_model.TagUnion
	if r.Chance(40) {
		top = genTop(r)
	}
	if r.Chance(3) {
		key.STags[r.Intn(10)] = strings.Repeat("L", 128+r.Intn(3)) // 2-byte varint length
		for i := range key.Tags {
			if key.STags[i] != "" {
				key.Tags[i] = 0
			}
		}
	}
	skMax, skMin, skSq := aggregator.VerifInsSkips(metric)
	seed := r.U64()
	kb := aggregator.VerifInsKeys(&key, top)
	var before []int32 // metrics the insert's metricIndexCache served just before this row
	if r.Chance(45) {
		for n := 1 + r.Intn(2); n > 0; n-- {
			if r.Chance(70) {
				before = append(before, int32(101+r.Intn(7))) // a user metric with skip flags
			} else {
				before = append(before, rowMetrics[r.Intn(len(rowMetrics))])
			}
		}
	}
	vb := aggregator.VerifInsValueAfter(seed, before, metric, mv, sf)
	// what each lookup finds (for the model of the cache) and the pattern of F-C03c: this metric is known to neither
	// the built-ins nor the journal, was looked up just before, and an earlier metric left flags in the cache
	var lookups []string
	for _, m := range append(append([]int32{}, before...), metric) {
		lookups = append(lookups, fmt.Sprintf("(%s,%s)", vu.Z(int64(m)), mresTerm(m)))
	}
	stalePattern := false
	if mresTerm(metric) == "U" && len(before) > 0 && before[len(before)-1] == metric {
		for _, m := range before {
			if a, b, c := aggregator.VerifInsSkips(m); a || b || c {
				stalePattern = true
			}
		}
	}
	raw := append(append([]byte{}, kb...), vb...)
	input := fmt.Sprintf("row kind=%s after=%v metric=%d t=%d tags=%s stags=%v top=%s sf=%v skips=%v/%v/%v hostile=%v count=%v set=%v min=%v max=%v sum=%v minh=%s maxh=%s mch=%s uniq=%d seed=%d",
		kind, before, metric, key.Timestamp, sparseI(key.Tags[:]), nonEmpty(key.STags[:]), hzText(top), sf, skMax, skMin, skSq, hostile,
		mv.Value.Count(), mv.Value.ValueSet, mv.Value.ValueMin, mv.Value.ValueMax, mv.Value.ValueSum,
		hzText(mv.Value.MinHostTag), hzText(mv.Value.MaxHostTag), hzText(mv.Value.MaxCounterHostTag), mv.HLL.ItemsCount(), seed)

	d, rest, err := decodeRow(raw)
	var fails []string
	fail := func(name string) { fails = append(fails, name) }
	hv := [3]uint32{}
	utable, amin, amax := "(0,0,[])", "([],0,0)", "([],0,0)"
	if err != nil {
		fail("row_does_not_decode")
	} else if len(rest) != 0 {
		fail("row_fully_consumed")
	} else {
		// keys
		for i := 0; i < format.MaxTags-1; i++ {
			wi, ws := key.Tags[i], ""
			if key.Tags[i] == 0 {
				ws = key.STags[i]
			}
			if d.tagI[i] != wi || d.tagS[i] != ws {
				fail("key_slot_not_written")
			}
		}
		ti, ts := top.I, ""
		if top.I == 0 {
			ts = top.S
		}
		if d.tagI[format.MaxTags-1] != ti || d.tagS[format.MaxTags-1] != ts || d.metric != key.Metric || d.time != key.Timestamp {
			fail("key_top_or_header_wrong")
		}
		// aggregates
		v := &mv.Value
		c := v.Count() * sf
		want := [6]float64{c, c, 0, 0, 0, 0}
		if v.ValueSet {
			want = [6]float64{c, c, v.ValueMin, v.ValueMax, v.ValueSum * sf, v.ValueSumSquare * sf}
			if skSq {
				want[5] = 0
			}
		}
		if d.agg != want {
			fail("aggregates_differ")
		}
		// unique state through the real column reader
		if u, err := readUnique(d.uniq); err != nil {
			fail("unique_state_unreadable")
		} else {
			a, b := sortedSet(u), sortedSet(&mv.HLL)
			us, ms := u.VerifState(), mv.HLL.VerifState()
			same := len(a) == len(b) && us.Skip == ms.Skip && us.Count == ms.Count
			for i := 0; same && i < len(a); i++ {
				same = a[i] == b[i]
			}
			if !same {
				fail("unique_state_roundtrip")
			}
			if (kind == "unique" || kind == "unique-wrap") && (u.Size(true) != uint64(distinct) || us.Skip != 0 || len(a) != distinct) {
				fail("unique_exact_below_limit")
			}
			utable = wireTerm(u)
		}
		// centroids through the real column reader
		if td, err := readDigest(d.cents); err != nil {
			fail("centroids_unreadable")
		} else {
			// every centroid whose weight is representable (> 0) in float32 must be read back; the reader drops the others
			var wantC []tdigest.Centroid
			written, small := 0, false
			var wantW float64
			if mv.ValueTDigest != nil {
				for _, c := range mv.ValueTDigest.Centroids() {
					written++
					w := float64(float32(c.Weight * sf))
					if w < 1e-3 {
						small = true
					}
					if w > 0 {
						wantC = append(wantC, tdigest.Centroid{Mean: float64(float32(c.Mean)), Weight: w})
						wantW += w
					}
				}
			}
			if n, k := binary.Uvarint(d.cents); k <= 0 || int(n) != written || len(d.cents) != k+8*written {
				fail("centroids_count_and_payload_disagree")
			}
			got := td.Centroids()
			if !small {
				same := len(got) == len(wantC)
				for i := 0; same && i < len(got); i++ {
					same = got[i] == wantC[i]
				}
				if !same {
					fail("centroids_roundtrip")
				}
			} else { // the digest may fold denormal weights into a neighbour: compare number (at most) and total weight
				var gotW float64
				for _, c := range got {
					gotW += c.Weight
				}
				if len(got) > len(wantC) || (len(wantC) > 0 && len(got) == 0) || math.Abs(gotW-wantW) > 1e-6*wantW {
					fail("centroids_roundtrip")
				}
			}
		}
		// hosts through the real column readers
		check := func(h int, raw []byte, rd func([]byte) (data_model.ArgMinMaxStringFloat32, error), tag data_model.TagUnion, present bool, val float64, minmax bool) string {
			a, err := rd(raw)
			if err != nil {
				fail("host_state_unreadable")
				return "([],0,0)"
			}
			if !present {
				tag = data_model.TagUnion{}
			}
			if !tagMatches(a, tag) {
				fail("host_tag_roundtrip")
			}
			if present && !tag.Empty() {
				hv[h] = math.Float32bits(a.Val)
				lo, hi := val/2, val
				if !minmax {
					lo, hi = 0, math.Log2(1+val)
				}
				if lo > hi {
					lo, hi = hi, lo
				}
				if float64(a.Val) < float64(float32(lo)) || float64(a.Val) > float64(float32(hi)) {
					fail("host_value_out_of_skew_range")
				}
			} else if a.Val != 0 {
				fail("host_value_without_tag")
			}
			return arg3Term(a)
		}
		amin = check(0, d.host[0], readArgMin, v.MinHostTag, v.ValueSet && !skMin, v.ValueMin, true)
		amax = check(1, d.host[1], readArgMax, v.MaxHostTag, v.ValueSet && !skMax, v.ValueMax, true)
		_ = check(2, d.host[2], readArgMax, v.MaxCounterHostTag, true, c, false)
	}
	term := "CNone"
	big := mv.HLL.ItemsCount() > 400
	if exact(mv, sf) && !big {
		term = fmt.Sprintf("(CRow %s %d %s %s %s %s %s %s [%s] (%d,%d,%d) %s %s %s %s)", tab.term0(func() {
			tab.sparseS(key.STags[:])
			tab.hz(top)
			tab.mvsTerm(mv)
		}), key.Timestamp, vu.Z(int64(key.Metric)), sparseI(key.Tags[:]), tab.sparseS(key.STags[:]), vu.Z(tab.hz(top)), tab.mvsTerm(mv), q(sf),
			strings.Join(lookups, ";"), hv[0], hv[1], hv[2], segs(raw), utable, amin, amax)
	}
	kinds := []string{"row/" + kind}
	if hostile {
		kinds = append(kinds, "row/hostile-key")
	}
	if skMax || skMin || skSq {
		kinds = append(kinds, "row/with-skips")
	}
	if len(before) > 0 {
		kinds = append(kinds, "row/after-other-metric")
		if metric < 0 && before[len(before)-1] > 100 {
			kinds = append(kinds, "row/builtin-after-skip-metric")
		}
	}
	if term == "CNone" {
		kinds = append(kinds, "row/oracle-only")
	}
	line := o.Case(input, term, kind != "empty", kinds...)
	for _, f := range fails {
		if stalePattern && (f == "aggregates_differ" || f == "host_tag_roundtrip" || f == "host_value_without_tag") {
			f = "unknown_metric_inherits_skip_flags" // the pattern of F-C03c, under its own name
		}
		o.Fail(f, line, input)
	}
	_ = idx
}

// term0 interns every string the closure touches first, so that the table printed at the head of the term is complete
func (t *strTab) term0(touch func()) string {
	touch()
	return t.term()
}

func nonEmpty(a []string) []string {
	var p []string
	for i, s := range a {
		if s != "" {
			if len(s) > 12 {
				s = fmt.Sprintf("%s..(%d)", s[:4], len(s))
			}
			p = append(p, fmt.Sprintf("%d:%s", i, s))
		}
	}
	return p
}

// ---------- body level ----------

type agentRow struct {
	key  data_model.Key
	tail *data_model.MultiValue
	top  map[data_model.TagUnion]*data_model.MultiValue
	hasp bool
}

func sortedTops(m map[data_model.TagUnion]*data_model.MultiValue) []data_model.TagUnion {
	ks := make([]data_model.TagUnion, 0, len(m))
	for k := range m {
		ks = append(ks, k)
	}
	sort.Slice(ks, func(i, j int) bool {
		if ks[i].I != ks[j].I {
			return ks[i].I < ks[j].I
		}
		return ks[i].S < ks[j].S
	})
	return ks
}

// the row assembly of sampleBucket.keepF (as in the C02 harness), SF = 1
func assemble(a *agentRow, bt uint32) (tlstatshouse.MultiItem, []data_model.TagUnion) {
	var scratch []byte
	meta := &format.MetricMetaValue{HasPercentiles: a.hasp}
	item := a.key.TLMultiItemFromKey(bt)
	scratch = a.tail.MultiValueToTL(meta, &item.Tail, 1, &item.FieldsMask, scratch)
	var top []tlstatshouse.TopElement
	order := sortedTops(a.top)
	for _, key := range order {
		el := tlstatshouse.TopElement{Stag: key.S}
		if key.I != 0 {
			el.SetTag(key.I)
		}
		scratch = a.top[key].MultiValueToTL(meta, &el.Value, 1, &el.FieldsMask, scratch)
		top = append(top, el)
	}
	if len(top) != 0 {
		item.SetTop(top)
	}
	return item, order
}

type cellKey struct {
	wkey string
}

type cellSum struct {
	count, sum, sumsq, min, max float64
	set                         bool
	n                           int
}

func (c *cellSum) add(v *data_model.ItemValue) {
	if v.Count() <= 0 {
		return
	}
	c.n++
	c.count += v.Count()
	if !v.ValueSet {
		return
	}
	c.sum += v.ValueSum
	c.sumsq += v.ValueSumSquare
	if !c.set || v.ValueMin < c.min {
		c.min = v.ValueMin
	}
	if !c.set || v.ValueMax > c.max {
		c.max = v.ValueMax
	}
	c.set = true
}

func writtenKey(k *data_model.Key, top data_model.TagUnion) string {
	d := decRow{metric: k.Metric, time: k.Timestamp}
	for i := 0; i < format.MaxTags-1; i++ {
		d.tagI[i] = k.Tags[i]
		if k.Tags[i] == 0 {
			d.tagS[i] = k.STags[i]
		}
	}
	d.tagI[format.MaxTags-1] = top.I
	if top.I == 0 {
		d.tagS[format.MaxTags-1] = top.S
	}
	return d.wkey()
}

func makeAgent(dir string) *agent.Agent {
	cfg := agent.DefaultConfig()
	mc, _ := pcache.LoadMappingsCacheFile(nil, 1<<20, 86400)
	res := tlstatshouse.GetConfigResult3{Addresses: []string{"127.0.0.1:1", "127.0.0.1:2", "127.0.0.1:3"}, ShardByMetricCount: 1}
	a, err := agent.MakeAgent("tcp4", dir, "", nil, cfg, "verif-host", format.TagValueIDComponentAgent,
		metajournal.MakeMetricsStorage(nil), mc, nil, nil, func(string, ...any) {}, nil, &res, nil)
	if err != nil {
		panic(err)
	}
	return a
}

type bodyOpts struct {
	hostile string // "", "slot47", "both"
	pool    bool   // several agents send subsets of one pool of keys (different lengths) in different orders
}

type planRow struct {
	row  *agentRow
	uniq []int64 // the row is a unique-only contribution of these values
	tiny bool    // the row carries a centroid weight that float32 loses
}

// poolPlan: 2-3 agents, each sends a random permutation of a random subset of one pool of keys. The pool mixes
// short keys ending in an (unmapped) string tag with longer keys (many int tags with non-zero bytes, long strings),
// so that the handler's one scratch buffer holds a longer key before a shorter one in some requests and not in others.
// One key may be a unique-only series whose contributions form a wrap-around collision chain across a table growth,
// one may be a percentile series with a contribution whose weight is lost in float32.
func poolPlan(r *vu.Rng, base uint32) [][]planRow {
	var pool []data_model.Key
	mk := func(f func(k *data_model.Key)) {
		k := data_model.Key{Timestamp: base, Metric: int32(1 + r.Intn(2))}
		f(&k)
		pool = append(pool, k)
	}
	nshort := 2 + r.Intn(3)
	for i := 0; i < nshort; i++ { // short keys whose last byte is the terminator of a string tag
		mk(func(k *data_model.Key) {
			switch r.Intn(4) {
			case 0:
				k.STags[0] = fmt.Sprintf("s%d", i)
			case 1:
				k.Tags[0] = int32(1 + r.Intn(3))
				k.STags[1+r.Intn(3)] = fmt.Sprintf("v%d", i)
			case 2:
				k.STags[r.Intn(4)] = strings.Repeat("q", 1+r.Intn(6)) + fmt.Sprint(i)
			default:
				k.Tags[2] = int32(r.U32() | 0x01010101)
				k.STags[3] = fmt.Sprintf("w%d", i)
				k.STags[5] = "e"
			}
		})
	}
	for i := 0; i < 1+r.Intn(3); i++ { // longer keys
		mk(func(k *data_model.Key) {
			switch r.Intn(3) {
			case 0:
				for t := 0; t < 6+r.Intn(20); t++ {
					k.Tags[t] = int32(r.U32() | 0x01010101)
				}
			case 1:
				k.STags[r.Intn(3)] = strings.Repeat("L", 20+r.Intn(60)) + fmt.Sprint(i)
			default:
				for t := 0; t < 4+r.Intn(8); t++ {
					k.Tags[t] = int32(r.U32() | 0x01010101)
				}
				k.STags[12+r.Intn(4)] = strings.Repeat("M", 5+r.Intn(30)) + fmt.Sprint(i)
			}
		})
	}
	uniqKey, tinyKey := -1, -1
	if r.Chance(50) {
		uniqKey = r.Intn(len(pool))
	}
	if r.Chance(30) {
		tinyKey = r.Intn(len(pool))
		if tinyKey == uniqKey {
			tinyKey = -1
		}
	}
	seqs, _ := wrapSeq(r)
	nextSeq := 0
	tinyAt := r.Intn(2)
	nagents := 2 + r.Intn(2)
	if uniqKey >= 0 {
		nagents = 3
	}
	plan := make([][]planRow, nagents)
	for a := 0; a < nagents; a++ {
		perm := make([]int, len(pool))
		for i := range perm {
			perm[i] = i
		}
		for i := len(perm) - 1; i > 0; i-- {
			j := r.Intn(i + 1)
			perm[i], perm[j] = perm[j], perm[i]
		}
		for _, ki := range perm {
			if ki != uniqKey && ki != tinyKey && r.Chance(25) {
				continue // not every agent has every series
			}
			row := &agentRow{key: pool[ki], top: map[data_model.TagUnion]*data_model.MultiValue{}}
			pr := planRow{row: row}
			rng := rand.New(r.U64())
			switch ki {
			case uniqKey:
				hs := seqs[nextSeq%3]
				nextSeq++
				row.tail = &data_model.MultiValue{}
				row.tail.ApplyUnique(rng, hs, float64(len(hs)), pickHost(r))
				pr.uniq = hs
			case tinyKey:
				row.hasp = true
				row.tail = &data_model.MultiValue{}
				if a == tinyAt { // a single value with a valid but tiny counter: sent as implicit centroid
					row.tail.AddValueCounterHostPercentile(rng, float64(100+r.Intn(5)), tinyWeights[r.Intn(2)], pickHost(r), 256)
					pr.tiny = true
				} else {
					row.tail.AddValueCounterHostPercentile(rng, float64(3*a), float64(1+r.Intn(3)), pickHost(r), 256)
					row.tail.AddValueCounterHostPercentile(rng, float64(3*a+1), float64(1+r.Intn(3)), pickHost(r), 256)
				}
			default:
				kind := []string{"counter", "value", "value", "unique", "mixed"}[r.Intn(5)]
				row.tail, _ = genValue(r, kind, r.U64())
				if r.Chance(25) {
					row.top[genTop(r)], _ = genValue(r, "value", r.U64())
				}
			}
			plan[a] = append(plan[a], pr)
		}
		if len(plan[a]) == 0 {
			row := &agentRow{key: pool[0], top: map[data_model.TagUnion]*data_model.MultiValue{}}
			row.tail, _ = genValue(r, "counter", r.U64())
			plan[a] = append(plan[a], planRow{row: row})
		}
	}
	return plan
}

func bodyCase(o *vu.Out, r *vu.Rng, sh2 *agent.Agent, opt bodyOpts) (dupFound bool) {
	tab := newTab()
	rk := int32(1 + r.Intn(3))
	base := 1700000001 + uint32(r.Intn(100000))*3 + uint32(rk-1) // our second (1700000001 = 0 mod 3)
	va := aggregator.NewVerifInsAgg(sh2, rk, base, 4, 0)
	nreq := 1 + r.Intn(4)
	metricPool := 1 + r.Intn(3)
	var cterms []string
	expect := map[string]*cellSum{}
	var text []string
	nItems, merges := 0, 0
	accepted := true
	randomRow := func(j int) *agentRow {
		row := &agentRow{key: genKey(r, base, metricPool), top: map[data_model.TagUnion]*data_model.MultiValue{}, hasp: r.Chance(30)}
		if r.Chance(40) { // collide with an earlier key on purpose
			row.key = data_model.Key{Timestamp: base, Metric: int32(1 + r.Intn(metricPool))}
			row.key.Tags[1] = int32(1 + r.Intn(2))
		}
		if r.Chance(15) {
			row.key.Timestamp = base - uint32(1+r.Intn(5)) // an older event second inside the same bucket
		}
		switch opt.hostile {
		case "slot47":
			row.key = data_model.Key{Timestamp: base, Metric: 1}
			row.key.Tags[format.StringTopTagIndexV3] = int32(1 + j)
		case "both":
			row.key = data_model.Key{Timestamp: base, Metric: 1}
			row.key.Tags[3] = 5
			if j%2 == 1 {
				row.key.STags[3] = "both"
			}
		}
		kind := valueKinds[r.Intn(len(valueKinds))]
		if kind == "percentile-tiny" || (kind == "percentile" && !row.hasp) {
			kind = "value"
		}
		row.tail, _ = genValue(r, kind, r.U64())
		if r.Chance(10) {
			row.tail = &data_model.MultiValue{}
		}
		if r.Chance(35) {
			for n := 1 + r.Intn(3); n > 0; n-- {
				k2 := kind
				if k2 == "percentile" || r.Chance(30) {
					k2 = "value"
				}
				row.top[genTop(r)], _ = genValue(r, k2, r.U64())
			}
		}
		if row.tail.Empty() && len(row.top) == 0 {
			row.tail, _ = genValue(r, "counter", r.U64())
		}
		return row
	}
	var skipMetrics []int32 // this body's user metrics carry skip flags (metrics 101..107 of the harness storage)
	if opt.hostile == "" && r.Chance(45) {
		skipMetrics = []int32{int32(101 + r.Intn(7)), int32(101 + r.Intn(7)), 107}[:2+r.Intn(2)]
	}
	var plan [][]planRow
	if opt.pool {
		plan = poolPlan(r, base)
		nreq = len(plan)
	}
	expectUniq := map[string]map[int64]bool{}
	tinyCase := false
	for a := 0; a < nreq; a++ {
		host := fmt.Sprintf("agent%d", r.Intn(3))
		ah := data_model.TagUnion{S: host}
		var items []tlstatshouse.MultiItem
		nrows := 1 + r.Intn(4)
		if plan != nil {
			nrows = len(plan[a])
		}
		for j := 0; j < nrows; j++ {
			var row *agentRow
			var pr planRow
			if plan != nil {
				pr = plan[a][j]
				row = pr.row
			} else {
				row = randomRow(j)
			}
			if skipMetrics != nil && row.key.Metric > 0 && row.key.Metric < 100 {
				row.key.Metric = skipMetrics[int(row.key.Metric)%len(skipMetrics)]
			}
			item, order := assemble(row, base)
			items = append(items, item)
			nItems++
			// expected cells (independent of the model): totals per written key
			add := func(top data_model.TagUnion, mv *data_model.MultiValue) {
				wk := writtenKey(&row.key, top)
				c := expect[wk]
				if c == nil {
					c = &cellSum{}
					expect[wk] = c
				} else if mv.Value.Count() > 0 {
					merges++
				}
				c.add(&mv.Value)
			}
			add(data_model.TagUnion{}, row.tail)
			if pr.uniq != nil {
				wk := writtenKey(&row.key, data_model.TagUnion{})
				if expectUniq[wk] == nil {
					expectUniq[wk] = map[int64]bool{}
				}
				for _, v := range pr.uniq {
					expectUniq[wk][v] = true
				}
			}
			if pr.tiny {
				tinyCase = true
			}
			var tops []string
			for _, tk := range order {
				add(tk, row.top[tk])
				tops = append(tops, fmt.Sprintf("(%s,%s)", vu.Z(tab.hz(tk)), tab.mvsTerm(row.top[tk])))
			}
			cterms = append(cterms, fmt.Sprintf("(CT %d %s %s %s %s [%s] %s %d %s)", row.key.Timestamp, vu.Z(int64(row.key.Metric)),
				sparseI(row.key.Tags[:]), tab.sparseS(row.key.STags[:]), tab.mvsTerm(row.tail), strings.Join(tops, ";"), vu.B(row.hasp), base, vu.Z(tab.hz(ah))))
			text = append(text, fmt.Sprintf("%s:m%d t%d %s %v tail(c=%v set=%v min=%v max=%v sum=%v u=%d) tops=%d", host, row.key.Metric, int64(row.key.Timestamp)-int64(base),
				sparseI(row.key.Tags[:]), nonEmpty(row.key.STags[:]), row.tail.Value.Count(), row.tail.Value.ValueSet, row.tail.Value.ValueMin, row.tail.Value.ValueMax, row.tail.Value.ValueSum, row.tail.HLL.ItemsCount(), len(order)))
		}
		ok, panicked := va.Recv(aggregator.VerifInsRequest(base, host, rk-1, items))
		if !ok || panicked {
			accepted = false
		}
	}
	input := fmt.Sprintf("body rk=%d base=%d hostile=%q pool=%v skipmetrics=%v requests=%d rows=[%s]", rk, base, opt.hostile, opt.pool, skipMetrics, nreq, strings.Join(text, " | "))
	if len(input) > 1500 {
		input = input[:1500] + "…"
	}
	if !accepted {
		line := o.Case(input, "CNone", false, "body/not-accepted")
		o.Fail("request_not_accepted", line, input)
		return
	}
	body := va.Body(0, r.U64())
	if os.Getenv("VERIF_DEBUG") != "" {
		all, user := va.Items(0)
		fmt.Fprintln(os.Stderr, "items", all, user, "body", len(body))
	}
	rows, err := decodeBody(body)
	var fails []string
	if err != nil {
		fails = append(fails, "body_does_not_decode")
	}
	seen := map[string]int{}
	user, builtinChecked := 0, 0
	for i := range rows {
		d := &rows[i]
		if d.metric < 0 {
			// rows the aggregator writes about itself (contributors log: one value, counter 1, its own host):
			// they must carry the sum of squares and min/max host of that single contribution
			if err == nil && (d.metric == format.BuiltinMetricIDContributorsLog || d.metric == format.BuiltinMetricIDContributorsLogRev) {
				builtinChecked++
				v := d.agg[2]
				if d.agg[0] != 1 || d.agg[3] != v || d.agg[4] != v || d.agg[5] != v*v {
					fails = append(fails, "builtin_row_aggregates_not_the_merge")
				}
				hmin, e1 := readArgMin(d.host[0])
				hmax, e2 := readArgMax(d.host[1])
				want := data_model.TagUnion{I: aggregator.VerifInsAggHost}
				if e1 != nil || e2 != nil || !tagMatches(hmin, want) || !tagMatches(hmax, want) {
					fails = append(fails, "builtin_row_hosts_not_written")
				}
			}
			continue
		}
		user++
		wk := d.wkey()
		seen[wk]++
		if seen[wk] == 2 {
			dupFound = true
			if opt.hostile != "" {
				fails = append(fails, "duplicate_written_key_from_malformed_key")
			} else {
				fails = append(fails, "body_duplicate_key")
			}
		}
		c := expect[wk]
		if c == nil || c.count <= 0 {
			fails = append(fails, "body_row_without_contribution")
			continue
		}
		if opt.hostile != "" {
			continue // totals of colliding keys are spread over the duplicates
		}
		want := [6]float64{c.count, c.count, 0, 0, 0, 0}
		if c.set {
			want = [6]float64{c.count, c.count, c.min, c.max, c.sum, c.sumsq}
			if _, _, skSq := aggregator.VerifInsSkips(d.metric); skSq {
				want[5] = 0
			}
		}
		if d.agg != want {
			fails = append(fails, "body_aggregates_not_the_merge")
		}
		// the aggregate states of every row must be readable by the API's column readers
		if u, err := readUnique(d.uniq); err != nil {
			fails = append(fails, "unique_state_unreadable")
		} else if vals := expectUniq[wk]; vals != nil && seen[wk] == 1 {
			// "unique-count estimates are exact while a row holds fewer distinct values than the exact-mode limit"
			if u.Size(true) != uint64(len(vals)) || len(sortedSet(u)) != len(vals) {
				fails = append(fails, "unique_exact_below_limit")
			}
		}
		if _, err := readDigest(d.cents); err != nil {
			fails = append(fails, "centroids_unreadable")
		}
	}
	for wk, c := range expect {
		if c.count > 0 && seen[wk] == 0 {
			fails = append(fails, "body_contribution_missing")
		}
	}
	term := "CNone"
	if opt.hostile == "" && !tinyCase {
		term = fmt.Sprintf("(CBody %s [%s] %s)", tab.term(), strings.Join(cterms, ";"), segs(body))
	}
	kinds := []string{"body"}
	if merges > 0 {
		kinds = append(kinds, "body/with-merged-cells")
	}
	if opt.hostile != "" {
		kinds = append(kinds, "body/hostile-"+opt.hostile)
	}
	if opt.pool {
		kinds = append(kinds, "body/key-pool")
	}
	if skipMetrics != nil {
		kinds = append(kinds, "body/skip-flag-metrics-then-builtin-rows")
	}
	o.Hist["body/builtin-rows-checked"] += builtinChecked
	if len(expectUniq) > 0 {
		kinds = append(kinds, "body/unique-wrap-chain")
	}
	if tinyCase {
		kinds = append(kinds, "body/tiny-centroid-weight")
	}
	line := o.Case(input, term, merges > 0 && user >= 2, kinds...)
	o.Hist["body/user-rows"] += user
	o.Hist["body/all-rows"] += len(rows)
	done := map[string]bool{}
	for _, f := range fails {
		if !done[f] {
			done[f] = true
			o.Fail(f, line, input)
		}
	}
	return dupFound
}

// ---------- column readers driven the way ch-go drives them: Reset, DecodeColumn, per block ----------

func argBytes(tag data_model.TagUnion, v float32) []byte { return aggregator.VerifInsArgTag(tag, v) }

func argState(tab *strTab, tag data_model.TagUnion, v float32) string {
	if tag.Empty() {
		return "AEmpty"
	}
	if tag.I != 0 {
		return fmt.Sprintf("(AInt %d %d)", uint32(tag.I), math.Float32bits(v))
	}
	return fmt.Sprintf("(AStr %s %d)", vu.Bytes([]byte(tag.S)), math.Float32bits(v))
}

func twoBlocksMin(b1, b2 []byte) (g1, g2 data_model.ArgMinMaxStringFloat32, ok bool) {
	var col chutil.ColArgMinStringFloat32
	col.Reset()
	if err := col.DecodeColumn(proto.NewReader(bytes.NewReader(b1)), 1); err != nil || len(col) < 1 {
		return g1, g2, false
	}
	g1 = col[0].ArgMinMaxStringFloat32
	col.Reset()
	if err := col.DecodeColumn(proto.NewReader(bytes.NewReader(b2)), 1); err != nil || len(col) < 1 {
		return g1, g2, false
	}
	return g1, col[0].ArgMinMaxStringFloat32, true
}

func twoBlocksMax(b1, b2 []byte) (g1, g2 data_model.ArgMinMaxStringFloat32, ok bool) {
	var col chutil.ColArgMaxStringFloat32
	col.Reset()
	if err := col.DecodeColumn(proto.NewReader(bytes.NewReader(b1)), 1); err != nil || len(col) < 1 {
		return g1, g2, false
	}
	g1 = col[0].ArgMinMaxStringFloat32
	col.Reset()
	if err := col.DecodeColumn(proto.NewReader(bytes.NewReader(b2)), 1); err != nil || len(col) < 1 {
		return g1, g2, false
	}
	return g1, col[0].ArgMinMaxStringFloat32, true
}

// two blocks of one row each through the same column object; returns whether the second row was read wrong
func blocksCase(o *vu.Out, r *vu.Rng, first, second data_model.TagUnion, v1, v2 float32, useMax bool, record bool) bool {
	b1, b2 := argBytes(first, v1), argBytes(second, v2)
	var got1, got2, fresh data_model.ArgMinMaxStringFloat32
	var ok bool
	var err error
	if useMax {
		got1, got2, ok = twoBlocksMax(b1, b2)
		fresh, err = readArgMax(b2)
	} else {
		got1, got2, ok = twoBlocksMin(b1, b2)
		fresh, err = readArgMin(b2)
	}
	unreadable := !ok || err != nil
	wrong := got2 != fresh || !tagMatches(got2, second) || (second.Empty() && got2.Val != 0)
	if record {
		input := fmt.Sprintf("column blocks max=%v first=%s/%v second=%s/%v", useMax, hzText(first), v1, hzText(second), v2)
		term := fmt.Sprintf("(CBlocks %s %s %s %s)", argState(nil, first, v1), argState(nil, second, v2), arg3Term(got1), arg3Term(got2))
		line := o.Case(input, term, !first.Empty() || !second.Empty(), "column-blocks")
		if unreadable {
			o.Fail("host_column_unreadable", line, input)
		} else if wrong {
			o.Fail("host_column_keeps_previous_block", line, input)
		}
	}
	return wrong
}

// blocks of several rows through one column object (Reset + DecodeColumn per block, as ch-go does); every row is
// compared after its whole block has been decoded, and the rows of the first block (copied the way the API copies
// them into its cache) once more after the next block has been decoded
func multiRowBlocks(o *vu.Out, r *vu.Rng) {
	useMax := r.Bool()
	genBlock := func(n int) (tags []data_model.TagUnion, vals []float32, raw []byte) {
		l := 3 + r.Intn(12)
		for i := 0; i < n; i++ {
			var t data_model.TagUnion
			switch r.Intn(10) {
			case 0:
				t = data_model.TagUnion{I: int32(1 + r.Intn(1000))}
			case 1:
			default: // unmapped string hosts: same length, shorter, sometimes longer than the previous one
				switch r.Intn(4) {
				case 0:
				case 1, 2:
					l = 1 + r.Intn(l)
				default:
					l += r.Intn(8)
				}
				b := make([]byte, l)
				for j := range b {
					b[j] = byte('a' + r.Intn(26))
				}
				t = data_model.TagUnion{S: string(b)}
			}
			v := float32(0)
			if !t.Empty() {
				v = float32(r.Intn(64)-32) / 4
			}
			tags, vals = append(tags, t), append(vals, v)
			raw = append(raw, argBytes(t, v)...)
		}
		return
	}
	n1, n2 := 2+r.Intn(5), 1+r.Intn(6)
	t1, v1, raw1 := genBlock(n1)
	t2, v2, raw2 := genBlock(n2)
	var got1, saved1, got2 []data_model.ArgMinMaxStringFloat32
	ok := true
	if useMax {
		var col chutil.ColArgMaxStringFloat32
		col.Reset()
		ok = col.DecodeColumn(proto.NewReader(bytes.NewReader(raw1)), n1) == nil && len(col) == n1
		for _, x := range col {
			got1 = append(got1, x.ArgMinMaxStringFloat32)
		}
		col.Reset()
		ok = ok && col.DecodeColumn(proto.NewReader(bytes.NewReader(raw2)), n2) == nil && len(col) == n2
		for _, x := range col {
			got2 = append(got2, x.ArgMinMaxStringFloat32)
		}
	} else {
		var col chutil.ColArgMinStringFloat32
		col.Reset()
		ok = col.DecodeColumn(proto.NewReader(bytes.NewReader(raw1)), n1) == nil && len(col) == n1
		for _, x := range col {
			got1 = append(got1, x.ArgMinMaxStringFloat32)
		}
		col.Reset()
		ok = ok && col.DecodeColumn(proto.NewReader(bytes.NewReader(raw2)), n2) == nil && len(col) == n2
		for _, x := range col {
			got2 = append(got2, x.ArgMinMaxStringFloat32)
		}
	}
	saved1 = got1 // struct copies: the string headers the API keeps in its cache
	list := func(ts []data_model.TagUnion, vs []float32) (string, string) {
		var a, b []string
		for i := range ts {
			a = append(a, argState(nil, ts[i], vs[i]))
			b = append(b, fmt.Sprintf("%s/%v", hzText(ts[i]), vs[i]))
		}
		return "[" + strings.Join(a, ";") + "]", strings.Join(b, ",")
	}
	obs := func(as []data_model.ArgMinMaxStringFloat32) string {
		var p []string
		for _, a := range as {
			p = append(p, arg3Term(a))
		}
		return "[" + strings.Join(p, ";") + "]"
	}
	c1, x1 := list(t1, v1)
	c2, x2 := list(t2, v2)
	input := fmt.Sprintf("column rows max=%v block1=[%s] block2=[%s]", useMax, x1, x2)
	term := fmt.Sprintf("(CBlockRows %s %s %s %s)", c1, c2, obs(saved1), obs(got2))
	line := o.Case(input, term, true, "column-multi-row-blocks")
	if !ok {
		o.Fail("host_column_unreadable", line, input)
		return
	}
	bad := false
	for i := range t1 {
		if !tagMatches(saved1[i], t1[i]) || saved1[i].Val != v1[i] {
			bad = true
		}
	}
	stale := false
	for i := range t2 {
		if !tagMatches(got2[i], t2[i]) || got2[i].Val != v2[i] {
			if i < n1 && !t1[i].Empty() && (t2[i].Empty() || (t2[i].I != 0) != (t1[i].I != 0)) {
				stale = true // the pattern of F-C03b (receiver not cleared), under its own oracle name
			} else {
				bad = true
			}
		}
	}
	if bad {
		o.Fail("host_column_rows_overwritten", line, input)
	}
	if stale {
		o.Fail("host_column_keeps_previous_block", line, "column blocks "+input)
	}
}

func main() {
	seed := flag.Uint64("seed", 1, "")
	n := flag.Int("n", 600, "")
	out := flag.String("out", "", "")
	flag.Parse()
	r := vu.NewRng(*seed)
	o := vu.NewOut(*out)
	defer o.Close()
	dir, _ := os.MkdirTemp("", "verif-insert")
	defer os.RemoveAll(dir)
	sh2 := makeAgent(dir)

	// recorded findings: replay the minimal witnesses on the real code
	if bodyCase(o, vu.NewRng(11), sh2, bodyOpts{hostile: "slot47"}) {
		o.Finding("F-C03a", "reproduced")
	} else {
		o.Finding("F-C03a", "gone")
	}
	if blocksCase(o, r, data_model.TagUnion{S: "host-a"}, data_model.TagUnion{}, 2, 0, false, true) {
		o.Finding("F-C03b", "reproduced")
	} else {
		o.Finding("F-C03b", "gone")
	}

	{ // F-C03c: metric 1 (unknown to the journal) written twice in a row after metric 107 (all skip flags)
		mv := &data_model.MultiValue{}
		rng := rand.New(5)
		mv.AddValueCounterHost(rng, 3, 1, data_model.TagUnion{I: 7})
		mv.AddValueCounterHost(rng, 5, 1, data_model.TagUnion{I: 8})
		vb := aggregator.VerifInsValueAfter(1, []int32{107, 1}, 1, mv, 1)
		if len(vb) >= 48 && math.Float64frombits(binary.LittleEndian.Uint64(vb[40:])) == 0 {
			o.Finding("F-C03c", "reproduced")
		} else {
			o.Finding("F-C03c", "gone")
		}
	}

	for i := 0; i < *n; i++ {
		switch {
		case i%8 == 7:
			opt := bodyOpts{pool: i%16 == 15}
			if i%64 == 63 {
				opt = bodyOpts{hostile: []string{"slot47", "both"}[r.Intn(2)]}
			}
			bodyCase(o, r, sh2, opt)
		case i%16 == 3:
			pick := func() (data_model.TagUnion, float32) {
				h := pickHost(r)
				if h.Empty() {
					return h, 0
				}
				return h, float32(r.Intn(64)-32) / 4
			}
			a, va := pick()
			b, vb := pick()
			blocksCase(o, r, a, b, va, vb, r.Bool(), true)
			multiRowBlocks(o, r)
			multiRowBlocks(o, r)
		default:
			rowCase(o, r, i)
		}
	}
}
