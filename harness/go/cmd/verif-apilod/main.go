//go:build verif

// Correspondence harness for C22, internal/api/lod.go: roundTime, mathDiv, shiftTimestamp, calcUTCOffset.
package main

import (
	"flag"
	"fmt"
	"time"

	"github.com/VKCOM/statshouse/internal/api"
	"github.com/VKCOM/statshouse/internal/data_model"
	vu "github.com/VKCOM/statshouse/internal/verifutil"
)

func floorDiv(a, b int64) int64 {
	q := a / b
	if a%b != 0 && (a < 0) != (b < 0) {
		q--
	}
	return q
}

func main() {
	seed := flag.Uint64("seed", 1, "")
	n := flag.Int("n", 600, "")
	out := flag.String("out", "", "")
	flag.Parse()
	r := vu.NewRng(*seed)
	o := vu.NewOut(*out)
	defer o.Close()
	steps := []int64{604800, 86400, 14400, 3600, 900, 300, 60, 15, 5, 1}
	month := data_model.VerifMonthStep()
	zones := []string{"UTC", "Europe/Moscow", "America/New_York", "Asia/Kolkata", "Pacific/Chatham", "America/Asuncion"}
	for i := 0; i < *n; i++ {
		switch i % 4 {
		case 0:
			t := int64(r.Intn(2000000000)) - 100000000
			step := steps[r.Intn(len(steps))]
			if r.Chance(20) {
				step = int64(1 + r.Intn(100000))
			}
			utc := int64(r.Intn(1400000)) - 700000
			if r.Chance(30) {
				t = floorDiv(t, step)*step - utc + int64(r.Intn(3)) - 1
			}
			g1, g2 := data_model.VerifRoundTime(t, step, utc), api.VerifLodRoundTime(t, step, utc)
			input := fmt.Sprintf("round t=%d step=%d utc=%d", t, step, utc)
			line := o.Case(input, fmt.Sprintf("CRound %s %d %s %s %s", vu.Z(t), step, vu.Z(utc), vu.Z(g1), vu.Z(g2)), (t+utc)%step != 0, "round")
			if g1 != g2 || g2 > t || t-g2 >= step || floorDiv(g2+utc, step)*step != g2+utc {
				o.Fail("round_time_is_floor_aligned", line, input)
			}
		case 1:
			a := int64(r.Intn(2000001)) - 1000000
			b := int64(r.Intn(2001)) - 1000
			if b == 0 {
				b = 7
			}
			if r.Chance(30) {
				a = b * (int64(r.Intn(200)) - 100)
			}
			g1, g2 := data_model.VerifMathDiv(a, b), api.VerifLodMathDiv(a, b)
			input := fmt.Sprintf("div a=%d b=%d", a, b)
			line := o.Case(input, fmt.Sprintf("CDiv %s %s %s %s", vu.Z(a), vu.Z(b), vu.Z(g1), vu.Z(g2)), a < 0 || b < 0, "div")
			if g1 != g2 || g2 != floorDiv(a, b) {
				o.Fail("math_div_is_floor", line, input)
			}
		case 2:
			zn := zones[r.Intn(len(zones))]
			loc, err := time.LoadLocation(zn)
			if err != nil {
				panic(err)
			}
			ws := r.Intn(7)
			_, zoff := time.Unix(0, 0).In(loc).Zone()
			got := api.VerifLodCalcUTCOffset(loc, time.Weekday(ws))
			input := fmt.Sprintf("utcoffset zone=%s weekstart=%d", zn, ws)
			line := o.Case(input, fmt.Sprintf("CUtc %s %d %s", vu.Z(int64(zoff)), ws, vu.Z(got)), true, "utcoffset")
			// a week-aligned instant must be local midnight (in the zone's offset at the epoch) of the configured week day
			t := floorDiv(1700000000+int64(r.Intn(100000000))+got, 604800)*604800 - got
			lt := time.Unix(t, 0).In(time.FixedZone("x", zoff))
			if lt.Hour() != 0 || lt.Minute() != 0 || lt.Second() != 0 || int(lt.Weekday()) != ws {
				o.Fail("week_aligned_is_week_start_midnight", line, input)
			}
		default:
			ts := int64(r.Intn(2000000000))
			step := steps[r.Intn(len(steps))]
			shift := -int64(r.Intn(100)) * step
			if r.Chance(30) {
				shift = int64(r.Intn(2000000)) - 1000000
			}
			if r.Chance(25) { // monthly with shift 0 on a month start: identity (the only monthly use in table.go)
				loc, _ := time.LoadLocation(zones[r.Intn(5)])
				tt := time.Unix(ts, 0).In(loc)
				ts = time.Date(tt.Year(), tt.Month(), 1, 0, 0, 0, 0, loc).Unix()
				got := api.VerifLodShiftTimestamp(ts, month, 0, loc)
				input := fmt.Sprintf("shift-month ts=%d zone=%s", ts, loc)
				o.Case(input, fmt.Sprintf("CShift %s %d 0 %s", vu.Z(ts), month, vu.Z(got)), true, "shift-month0")
				continue
			}
			got := api.VerifLodShiftTimestamp(ts, step, shift, time.UTC)
			input := fmt.Sprintf("shift ts=%d step=%d shift=%d", ts, step, shift)
			line := o.Case(input, fmt.Sprintf("CShift %s %d %s %s", vu.Z(ts), step, vu.Z(shift), vu.Z(got)), shift != 0, "shift")
			if got != ts+shift {
				o.Fail("shift_is_addition", line, input)
			}
		}
	}
}
