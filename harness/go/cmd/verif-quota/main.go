//go:build verif

// Second correspondence harness of C06: the aggregator's quota function calcHostMetricBudgets (quota-mode sampler over
// the per-host original sizes agents reported), on a real metajournal.MetricsStorage filled through ApplyEvent.
package main

import (
	"flag"
	"fmt"
	"sort"
	"strings"

	"github.com/VKCOM/statshouse/internal/aggregator"
	"github.com/VKCOM/statshouse/internal/data_model"
	"github.com/VKCOM/statshouse/internal/data_model/gen2/tlmetadata"
	"github.com/VKCOM/statshouse/internal/format"
	"github.com/VKCOM/statshouse/internal/metajournal"
	vu "github.com/VKCOM/statshouse/internal/verifutil"
)

type report struct {
	id     int
	metric int32
	host   data_model.TagUnion
	size   uint32
}

func listInt(xs []int) string {
	p := make([]string, len(xs))
	for i, x := range xs {
		p[i] = vu.Z(int64(x))
	}
	return "[" + strings.Join(p, ";") + "]"
}

func b01(b bool) byte {
	if b {
		return '1'
	}
	return '0'
}

func main() {
	seed := flag.Uint64("seed", 1, "")
	n := flag.Int("n", 300, "")
	out := flag.String("out", "", "")
	flag.Parse()
	r := vu.NewRng(*seed)
	o := vu.NewOut(*out)
	defer o.Close()

	weights := []string{"", "0.5", "1", "2", "3", "1.5"}
	for it := 0; it < *n; it++ {
		ms := metajournal.MakeMetricsStorage(nil)
		var evs []tlmetadata.Event
		ver := int64(1)
		nNs := r.Intn(3)
		for i := 1; i <= nNs; i++ {
			data := "{}"
			if w := weights[r.Intn(len(weights))]; w != "" {
				data = `{"weight":` + w + `}`
			}
			evs = append(evs, tlmetadata.Event{Id: int64(i), Name: fmt.Sprintf("ns%d", i), EventType: format.NamespaceEvent, Version: ver, Data: data})
			ver++
		}
		prefixes := []string{"ga_", "gb_", "gc_"}
		nG := r.Intn(4)
		for i := 0; i < nG; i++ {
			data := "{}"
			if w := weights[r.Intn(len(weights))]; w != "" {
				data = `{"weight":` + w + `}`
			}
			e := tlmetadata.Event{Id: int64(21 + i), Name: prefixes[i], EventType: format.MetricsGroupEvent, Version: ver, Data: data}
			evs = append(evs, e)
			ver++
		}
		nM := 1 + r.Intn(6)
		fks := []string{"", "", `"1"`, `"2"`, `"1","2"`, `"0","1"`}
		var mids []int32
		for i := 1; i <= nM; i++ {
			id := int32(1000 + i)
			mids = append(mids, id)
			if r.Chance(8) { // reported size of a metric the storage does not know
				continue
			}
			name := fmt.Sprintf("m%d", i)
			if nG > 0 && r.Chance(70) {
				name = prefixes[r.Intn(nG)] + name
			}
			data := `{"kind":"counter","tags":[{"name":"env"},{"name":"a"},{"name":"b"}]`
			if fk := fks[r.Intn(len(fks))]; fk != "" {
				data += `,"fair_key_tag_ids":[` + fk + `]`
			}
			if w := weights[r.Intn(len(weights))]; w != "" {
				data += `,"weight":` + w
			}
			data += "}"
			e := tlmetadata.Event{Id: int64(id), Name: name, EventType: format.MetricEvent, Version: ver, Data: data}
			if nNs > 0 && r.Chance(70) {
				e.NamespaceId = int64(1 + r.Intn(nNs))
			}
			evs = append(evs, e)
			ver++
		}
		ms.ApplyEvent(evs)

		// reports
		var reps []*report
		sizes := map[int32]map[data_model.TagUnion]uint32{}
		equal := r.Chance(25)
		base := uint32(1 + r.Intn(3000))
		for _, id := range mids {
			nh := 1 + r.Intn(5)
			if r.Chance(30) {
				nh = 2
			}
			sizes[id] = map[data_model.TagUnion]uint32{}
			for h := 0; h < nh; h++ {
				host := data_model.TagUnion{I: int32(101 + r.Intn(7))}
				if r.Chance(10) {
					host = data_model.TagUnion{S: fmt.Sprintf("h%d", r.Intn(3))}
				}
				if _, ok := sizes[id][host]; ok {
					continue
				}
				sz := base
				if !equal {
					sz = uint32(1 + r.Intn(4000))
					if r.Chance(15) {
						sz = uint32(1 + r.Intn(5))
					}
				}
				if r.Chance(2) {
					sz = 0
				}
				sizes[id][host] = sz
				reps = append(reps, &report{metric: id, host: host, size: sz})
			}
		}
		sort.Slice(reps, func(i, j int) bool {
			a, b := reps[i], reps[j]
			if a.metric != b.metric {
				return a.metric < b.metric
			}
			if a.host.I != b.host.I {
				return a.host.I < b.host.I
			}
			return a.host.S < b.host.S
		})
		total := int64(0)
		for i, rp := range reps {
			rp.id = i
			total += int64(rp.size)
		}
		var budget int64
		switch r.Intn(8) {
		case 0:
			budget = total
		case 1:
			budget = total - 1
		case 2:
			budget = total + 1
		case 3:
			budget = total / 2
		case 4:
			budget = total / 3
		case 5:
			budget = int64(r.Intn(20))
		default:
			budget = int64(r.Intn(int(total*3/2 + 2)))
		}
		if budget < 0 {
			budget = 0
		}
		nss, groups, keys := r.Bool(), r.Bool(), r.Bool()
		res, panicked := aggregator.VerifCalcHostMetricBudgets(ms, nss, groups, keys, int(budget), sizes)

		// the metas the storage knows (the model resolves each report's metric through them, else missingMetricMeta)
		var mets []string
		fairOnHostTag := false
		weightOf := func(ns, group int32) (nsw, gw int64) {
			if ns != 0 {
				if x := ms.GetNamespace(ns); x != nil {
					nsw = x.EffectiveWeight
				}
			}
			if group != 0 {
				if x := ms.GetGroup(group); x != nil {
					gw = x.EffectiveWeight
				}
			}
			return
		}
		for _, id := range mids {
			m := ms.GetMetaMetric(id)
			if m == nil {
				continue
			}
			for _, x := range m.FairKeyIndex {
				if x == 1 {
					fairOnHostTag = true
				}
			}
			nsw, gw := weightOf(m.NamespaceID, m.GroupID)
			mets = append(mets, fmt.Sprintf("(M %s %s %s %d %d %d false %s)", vu.Z(int64(id)), vu.Z(int64(m.NamespaceID)), vu.Z(int64(m.GroupID)), nsw, gw, m.EffectiveWeight, listInt(m.FairKeyIndex)))
		}
		missNsw, missGw := weightOf(format.BuiltinNamespaceIDMissing, format.BuiltinGroupIDMissing)
		got := map[[2]string]int64{} // (metric, host) -> budget
		dup := false
		for host, list := range res {
			for _, mb := range list {
				k := [2]string{fmt.Sprint(mb.MetricId), fmt.Sprint(host.I, "/", host.S)}
				if _, ok := got[k]; ok {
					dup = true
				}
				got[k] = int64(mb.Budget)
			}
		}
		var rows, obs, txt []string
		for _, rp := range reps {
			k := [2]string{fmt.Sprint(rp.metric), fmt.Sprint(rp.host.I, "/", rp.host.S)}
			rows = append(rows, fmt.Sprintf("(R %d %d 0 false %d 0 None [])", rp.id, rp.size, rp.metric))
			obs = append(obs, fmt.Sprintf("(%d,%d)", rp.id, got[k]))
			txt = append(txt, fmt.Sprintf("%d@%d%s:%d->%d", rp.metric, rp.host.I, rp.host.S, rp.size, got[k]))
		}
		input := fmt.Sprintf("quota nss=%c groups=%c keys=%c budget=%d total=%d fairkey_on_host_tag=%c reports[metric@host:size->budget]=%s metas[M id ns group nsw gw mw nsa fki]=%s",
			b01(nss), b01(groups), b01(keys), budget, total, b01(fairOnHostTag), strings.Join(txt, " "), strings.Join(mets, " "))
		if len(input) > 700 {
			input = input[:700] + "..."
		}
		term := fmt.Sprintf("CQuota %s %s %s %d %d [%s] [%s] [%s]", vu.B(nss), vu.B(groups), vu.Z(budget), missNsw, missGw, strings.Join(mets, ";"), strings.Join(rows, ";"), strings.Join(obs, ";"))
		contended := total > budget
		kinds := []string{fmt.Sprintf("cfg/nss%c-groups%c-keys%c", b01(nss), b01(groups), b01(keys))}
		if contended {
			kinds = append(kinds, "contended")
		}
		if fairOnHostTag {
			kinds = append(kinds, "fair-key-on-host-tag")
		}
		line := o.Case(input, term, contended && len(reps) > 1, kinds...)

		// ---- oracles on the implementation
		if !strings.Contains(panicked, "nil pointer") && panicked != "" {
			o.Fail("quota_no_unexpected_panic", line, input+" panic="+panicked)
		}
		if dup || len(got) > len(reps) {
			o.Fail("quota_one_budget_per_report", line, input)
		}
		// undo the "x2 for reports that fit" bonus: outside the sum claim
		quota := func(rp *report) int64 {
			k := [2]string{fmt.Sprint(rp.metric), fmt.Sprint(rp.host.I, "/", rp.host.S)}
			q := got[k]
			if q%2 == 0 && int64(rp.size) <= q/2 {
				q /= 2
			}
			return q
		}
		sum := int64(0)
		for _, rp := range reps {
			sum += quota(rp)
		}
		slack := int64(0)
		if nss || groups { // roundSampleFactor may round each nested budget up by less than 1
			slack = int64(nNs + nG + 3)
		}
		if sum > budget+slack {
			o.Fail("quota_sum_le_budget", line, input)
		}
		for _, a := range reps {
			for _, b := range reps {
				if a.metric != b.metric || a.id >= b.id {
					continue
				}
				qa, qb := quota(a), quota(b)
				d := qa*int64(b.size) - qb*int64(a.size)
				if d < 0 {
					d = -d
				}
				if d > int64(a.size)+int64(b.size) {
					o.Fail("quota_proportional", line, input)
				}
				if (a.size <= b.size && qa > qb) || (b.size <= a.size && qb > qa) {
					o.Fail("quota_monotone", line, input)
				}
			}
		}
	}
}
