//go:build verif

// Translator for C08: dumps the constants of the agent super-queue (internal/agent/agent_shard.go,
// agent_shard_send.go, data_model.AgentWindow, format.AllowedResolution) of the current tree as Gallina
// definitions (Gen/AgentQueueConsts.v). The side condition Consts_ok of AgentQueue/Proofs.v is proved over
// these values, so a changed queue length / future slots / gap literal / resolution table re-opens the proofs.
package main

import (
	"flag"
	"fmt"
	"os"
	"strings"

	"github.com/VKCOM/statshouse/internal/agent"
)

func main() {
	out := flag.String("out", "", "")
	flag.Parse()
	c := agent.VerifQueueConsts()
	s := "(* GENERATED on every run by harness/go/cmd/verif-gen-agentqueue from /repo's internal/agent/agent_shard.go,\n" +
		"   internal/data_model/constants.go and internal/format/format.go — do not edit *)\n" +
		"From Coq Require Import ZArith List.\nImport ListNotations.\nOpen Scope Z_scope.\n"
	s += fmt.Sprintf("Definition queue_len : Z := %d.\n", c.QueueLen)
	s += fmt.Sprintf("Definition future_slots : Z := %d.\n", c.FutureSlots)
	s += "(* queue_len - future_slots - <the literal 120 of gapInReceivingQueueLocked>, probed as -gap(0,0) *)\n"
	s += fmt.Sprintf("Definition gap_slack : Z := %d.\n", c.GapSlack)
	s += fmt.Sprintf("Definition agent_window_ms : Z := %d.\n", c.AgentWindowMs)
	s += "(* number of FlushAllDataSingleStep calls per shard in Agent.FlushAllData, probed by running it *)\n"
	s += fmt.Sprintf("Definition flush_all_steps : Z := %d.\n", c.FlushAllSteps)
	rs := make([]string, len(c.Resolutions))
	mx := int64(0)
	for i, r := range c.Resolutions {
		rs[i] = fmt.Sprintf("%d", r)
		if r > mx {
			mx = r
		}
	}
	s += "(* the image of format.AllowedResolution *)\n"
	s += fmt.Sprintf("Definition allowed_resolutions : list Z := [%s].\n", strings.Join(rs, "; "))
	s += fmt.Sprintf("Definition max_resolution : Z := %d.\n", mx)
	if err := os.WriteFile(*out, []byte(s), 0o644); err != nil {
		panic(err)
	}
}
