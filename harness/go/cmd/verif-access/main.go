//go:build verif

// Correspondence harness for C30 (access control): mints JWTs with real ed25519 keys, runs the real
// vkuth.JWTHelper.ParseVkuthData and api.parseAccessToken / CanViewMetric / canChangeMetricByName / CanEditMetric,
// prints cases for Access/Corr.v and evaluates the property's oracles on the implementation's answers.
package main

import (
	"crypto/ed25519"
	"crypto/hmac"
	"crypto/sha256"
	"encoding/base64"
	"encoding/json"
	"flag"
	"fmt"
	"sort"
	"strings"
	"time"

	"github.com/golang-jwt/jwt/v4"

	"github.com/VKCOM/statshouse/internal/api"
	"github.com/VKCOM/statshouse/internal/format"
	vu "github.com/VKCOM/statshouse/internal/verifutil"
	"github.com/VKCOM/statshouse/internal/vkgo/vkuth"
)

// ---------- Coq printing ----------

// printable ASCII goes as a Coq string literal under Corr.st (= Model.txt), anything else as a byte list
func S(s string) string {
	for i := 0; i < len(s); i++ {
		if s[i] < 32 || s[i] > 126 {
			return vu.Bytes([]byte(s))
		}
	}
	return `(st "` + strings.ReplaceAll(s, `"`, `""`) + `")`
}
func LS(xs []string) string {
	p := make([]string, len(xs))
	for i, x := range xs {
		p[i] = S(x)
	}
	return "[" + strings.Join(p, "; ") + "]"
}

// header value: absent / string / other JSON type
type jval struct {
	kind int // 0 absent, 1 string, 2 other
	s    string
	raw  any
}

func (j jval) term() string {
	switch j.kind {
	case 0:
		return "JAbsent"
	case 1:
		return "(JStr " + S(j.s) + ")"
	}
	return "JOther"
}
func (j jval) text() string {
	switch j.kind {
	case 0:
		return "-"
	case 1:
		return fmt.Sprintf("%q", j.s)
	}
	return fmt.Sprintf("%v", j.raw)
}
func jstr(s string) jval { return jval{kind: 1, s: s} }

type claimsAbs struct {
	iss          *string
	exp, iat, nbf *int64 // milliseconds
	sub          *string
	hasData      bool
	user         string
	service      bool
	bits         []string
}

func (c *claimsAbs) registered() bool {
	return c.iss != nil || c.exp != nil || c.iat != nil || c.nbf != nil || c.sub != nil
}

func optMs(p *int64) string {
	if p == nil {
		return "None"
	}
	return "(Some " + vu.Z(*p) + ")"
}

func (c *claimsAbs) term() string {
	iss := "None"
	if c.iss != nil {
		iss = "(Some " + S(*c.iss) + ")"
	}
	return fmt.Sprintf("(Build_claims %s %s %s %s %s %s %s %s)",
		iss, optMs(c.exp), optMs(c.iat), optMs(c.nbf), vu.B(c.sub != nil), S(c.user), vu.B(c.service), LS(c.bits))
}

func msJSON(ms int64) json.Number {
	neg := ms < 0
	if neg {
		ms = -ms
	}
	s := fmt.Sprintf("%d", ms/1000)
	if ms%1000 != 0 {
		s += strings.TrimRight(fmt.Sprintf(".%03d", ms%1000), "0")
	}
	if neg {
		s = "-" + s
	}
	return json.Number(s)
}

func (c *claimsAbs) json() []byte {
	m := map[string]any{}
	if c.iss != nil {
		m["iss"] = *c.iss
	}
	if c.sub != nil {
		m["sub"] = *c.sub
	}
	if c.exp != nil {
		m["exp"] = msJSON(*c.exp)
	}
	if c.iat != nil {
		m["iat"] = msJSON(*c.iat)
	}
	if c.nbf != nil {
		m["nbf"] = msJSON(*c.nbf)
	}
	if c.hasData {
		d := map[string]any{"user": c.user, "is_service": c.service}
		if c.bits != nil {
			d["bits"] = c.bits
		}
		m["vkuth_data"] = d
	}
	b, _ := json.Marshal(m)
	return b
}

func msText(p *int64) string {
	if p == nil {
		return "-"
	}
	return string(msJSON(*p))
}

func (c *claimsAbs) text() string {
	iss := "-"
	if c.iss != nil {
		iss = fmt.Sprintf("%q", *c.iss)
	}
	return fmt.Sprintf("iss=%s exp=%s iat=%s nbf=%s user=%q svc=%v bits=%q", iss, msText(c.exp), msText(c.iat), msText(c.nbf), c.user, c.service, c.bits)
}

func b64(b []byte) string { return base64.RawURLEncoding.EncodeToString(b) }

func viewTerm(v api.VerifAccessView) string {
	return fmt.Sprintf("(Build_access_info %s %s %s %s %s %s %s %s %s %s %s)",
		S(v.User), vu.B(v.Service), LS(v.Protected), vu.B(v.Admin), vu.B(v.Developer), vu.B(v.ViewDefault), vu.B(v.EditDefault),
		LS(v.ViewPrefix), LS(v.EditPrefix), LS(v.ViewMetric), LS(v.EditMetric))
}

func viewText(v api.VerifAccessView) string {
	return fmt.Sprintf("ai{prot=%q admin=%v vd=%v ed=%v vp=%q ep=%q vm=%q em=%q}", v.Protected, v.Admin, v.ViewDefault, v.EditDefault, v.ViewPrefix, v.EditPrefix, v.ViewMetric, v.EditMetric)
}

// weights are eighths (exact in float64)
func metricTerm(m format.MetricMetaValue, w8 int64) string {
	raws := make([]string, len(m.Tags))
	for i, t := range m.Tags {
		raws[i] = t.RawKind
	}
	return fmt.Sprintf("(Build_metric %s (mkQ %s 8) %d %s %s %s %s %s %d %d %d %d %s)",
		S(m.Name), vu.Z(w8), m.PreKeyFrom, vu.B(m.PreKeyOnly), vu.B(m.SkipMaxHost), vu.B(m.SkipMinHost), vu.B(m.SkipSumSquare), S(m.ShardStrategy),
		m.ShardNum, m.ShardFixedKey, m.ShardFixedKey2, m.ShardFixedKey2Timestamp, LS(raws))
}

func metricText(m format.MetricMetaValue) string {
	raws := make([]string, len(m.Tags))
	for i, t := range m.Tags {
		raws[i] = t.RawKind
	}
	return fmt.Sprintf("{%q w=%v pk=%d pko=%v skips=%v%v%v strat=%q shard=%d/%d/%d/%d raw=%q}", m.Name, m.Weight, m.PreKeyFrom, m.PreKeyOnly,
		m.SkipMaxHost, m.SkipMinHost, m.SkipSumSquare, m.ShardStrategy, m.ShardNum, m.ShardFixedKey, m.ShardFixedKey2, m.ShardFixedKey2Timestamp, raws)
}

var editErrs = map[string]string{
	"": "EdOk",
	"access forbidden":                                         "EdForbidden",
	"access control prevents changing weight":                  "EdWeight",
	"access control prevents changing 'presort tag'":           "EdPresort",
	"access control prevents changing 'presort tag only'":      "EdPresortOnly",
	"access control prevents changing 'max host', 'min host' or 'sum square'": "EdSkips",
	"access control prevents changing sharding strategy":       "EdStrategy",
	"access control prevents changing sharding strategy shard": "EdShard",
	"access control prevents modifying Raw Tag attribute":      "EdRaw",
}

// ---------- the property, written directly (oracles) ----------

var remoteConfig = map[string]bool{"statshouse_agent_remote_config": true, "statshouse_journal_dump": true,
	"statshouse_aggregator_remote_config": true, "statshouse_api_remote_config": true}

func protectedName(prot []string, name string) bool {
	for _, p := range prot {
		if strings.HasPrefix(name, p) {
			return true
		}
	}
	return false
}

// does a raw token bit (with app prefix) give `right` ("view"/"edit") on name
func bitGives(app, raw, right, name string, prot []string) bool {
	if !strings.HasPrefix(raw, app+":") {
		return false
	}
	b := raw[len(app)+1:]
	at := func(s string) string { return strings.Replace(s, "@", ":", 1) }
	switch {
	case b == right+"_default":
		return !protectedName(prot, name)
	case strings.HasPrefix(b, right+"_metric."):
		return at(b[len(right)+8:]) == name
	case strings.HasPrefix(b, right+"_prefix."):
		return strings.HasPrefix(name, at(b[len(right)+8:]))
	case strings.HasPrefix(b, right+"_namespace."):
		return strings.HasPrefix(name, b[len(right)+11:]+":")
	}
	return false
}

func hasRaw(bits []string, x string) bool {
	for _, b := range bits {
		if b == x {
			return true
		}
	}
	return false
}

// which kind of bit gives the right: 'm' metric, 'p' prefix/namespace, 'd' default
func bitKind(app, raw, right string) byte {
	b := strings.TrimPrefix(raw, app+":")
	switch {
	case b == right+"_default":
		return 'd'
	case strings.HasPrefix(b, right+"_metric."):
		return 'm'
	}
	return 'p'
}

func specView(app string, bits []string, prot []string, name string) bool {
	if remoteConfig[name] && !hasRaw(bits, app+":admin") {
		return false
	}
	for _, b := range bits {
		if bitGives(app, b, "view", name, prot) {
			return true
		}
	}
	return false
}

// non-admin: rename/edit needs the same kind of right on both names
func specChange(app string, bits []string, prot []string, o, n string) bool {
	if hasRaw(bits, app+":admin") {
		return true
	}
	if remoteConfig[o] || remoteConfig[n] {
		return false
	}
	for _, k := range []byte{'m', 'p', 'd'} {
		ho, hn := false, false
		for _, b := range bits {
			if bitKind(app, b, "edit") != k {
				continue
			}
			ho = ho || bitGives(app, b, "edit", o, prot)
			hn = hn || bitGives(app, b, "edit", n, prot)
		}
		if ho && hn {
			return true
		}
	}
	return false
}

// spec on an accessInfo directly
func specViewAI(v api.VerifAccessView, name string) bool {
	if remoteConfig[name] && !v.Admin {
		return false
	}
	for _, m := range v.ViewMetric {
		if m == name {
			return true
		}
	}
	for _, p := range v.ViewPrefix {
		if strings.HasPrefix(name, p) {
			return true
		}
	}
	return v.ViewDefault && !protectedName(v.Protected, name)
}

func editRightAI(v api.VerifAccessView, name string) (m, p, d bool) {
	for _, x := range v.EditMetric {
		m = m || x == name
	}
	for _, x := range v.EditPrefix {
		p = p || strings.HasPrefix(name, x)
	}
	d = v.EditDefault && !protectedName(v.Protected, name)
	return
}

// ---------- generators ----------

var namePool = []string{"foo_bar", "foo_", "foo", "foo_baz", "fo", "bar", "ns:foo_bar", "ns:", "ns", "ns:x", "ns2:foo_bar", "secret_x", "secret_", "secre",
	"statshouse_agent_remote_config", "statshouse_journal_dump", "statshouse_aggregator_remote_config", "statshouse_api_remote_config",
	"statshouse_api_remote_confi", "statshouse_api_remote_config2", "", "a@b", "ns@foo_bar", "x:y:z", "__src_ingestion_status", "foo_bar "}

var protPool = []string{"foo_", "secret_", "ns:", "statshouse_", "", "foo_bar", "x", "ns"}

var bitBodies = []string{"admin", "developer", "view_default", "edit_default", "administrator", "admin ", "Admin", "view_defaul", "edit_default2",
	"view_prefix.", "edit_prefix.", "view_prefix", "view_metric", "view_namespace.", "edit_namespace.", "", ":", "unknown", "view_prefix.@", "view_metric.a@b@c",
	"view_namespace.a@b", "edit_metric.x:y:z", "view_metric.ns@@x"}

func genName(r *vu.Rng) string {
	if r.Chance(8) {
		n := r.Intn(6)
		b := make([]byte, n)
		for i := range b {
			b[i] = "fo_:@nsx"[r.Intn(8)]
		}
		return string(b)
	}
	return namePool[r.Intn(len(namePool))]
}

func atName(r *vu.Rng, s string) string { // how a token spells a name with ':'
	if r.Chance(85) {
		return strings.Replace(s, ":", "@", 1)
	}
	return s
}

func genBitBody(r *vu.Rng) string {
	if r.Chance(20) {
		return bitBodies[r.Intn(len(bitBodies))]
	}
	right := []string{"view", "edit"}[r.Intn(2)]
	switch r.Intn(8) {
	case 0:
		return right + "_default"
	case 1, 2:
		return right + "_metric." + atName(r, genName(r))
	case 3, 4:
		return right + "_prefix." + atName(r, genName(r))
	case 5:
		return right + "_namespace." + []string{"ns", "ns2", "", "x:y", "n"}[r.Intn(5)]
	case 6:
		return []string{"admin", "developer"}[r.Intn(2)]
	}
	return right + "_prefix." + []string{"foo_", "fo", "ns@", "ns@foo", "secret_", "s"}[r.Intn(6)]
}

var appPool = []string{"statshouse", "sh", "statshouse2", "a:b", ""}

func genBits(r *vu.Rng, app string) []string {
	n := r.Intn(7)
	if r.Chance(10) {
		n = 0
	}
	bits := make([]string, 0, n)
	for i := 0; i < n; i++ {
		body := genBitBody(r)
		switch {
		case r.Chance(72):
			bits = append(bits, app+":"+body)
		case r.Chance(30):
			bits = append(bits, body) // no application prefix
		default: // foreign or near-miss application
			pre := []string{"other", app + "2", strings.ToUpper(app), app + " ", "x" + app, app + ":" + app}[r.Intn(6)]
			if len(app) > 1 && r.Chance(30) {
				pre = app[:len(app)-1]
			}
			sep := ":"
			if r.Chance(15) {
				sep = []string{".", "", "::", "@"}[r.Intn(4)]
			}
			bits = append(bits, pre+sep+body)
		}
	}
	if r.Chance(10) && len(bits) > 0 {
		bits = append(bits, bits[r.Intn(len(bits))])
	}
	return bits
}

func genMetric(r *vu.Rng, name string) (format.MetricMetaValue, int64) {
	w8 := r.Pick(0, 8, 8, 8, 16, 4, 12, 1, 800, -8)
	m := format.MetricMetaValue{Name: name, Weight: float64(w8) / 8}
	if r.Chance(30) {
		m.PreKeyFrom = uint32(r.Pick(1, 2, 1700000000, 4294967295))
	}
	m.PreKeyOnly = r.Chance(20)
	m.SkipMaxHost, m.SkipMinHost, m.SkipSumSquare = r.Chance(20), r.Chance(20), r.Chance(20)
	m.ShardStrategy = []string{"", "", format.ShardByMetricID, format.ShardByTagsHash, format.ShardFixed}[r.Intn(5)]
	if r.Chance(30) {
		m.ShardNum = uint32(r.Intn(4))
	}
	if r.Chance(20) {
		m.ShardFixedKey = uint32(1 + r.Intn(3))
	}
	if r.Chance(20) {
		m.ShardFixedKey2 = uint32(1 + r.Intn(3))
	}
	if r.Chance(20) {
		m.ShardFixedKey2Timestamp = uint32(r.Pick(1, 1700000000, 4294967295))
	}
	nt := r.Intn(5)
	for i := 0; i < nt; i++ {
		m.Tags = append(m.Tags, format.MetricMetaTag{RawKind: []string{"", "", "", "int", "hex", "timestamp", "ip"}[r.Intn(7)]})
	}
	return m, w8
}

// one mutation of the protected fields (or of the name) of a copy
func mutateMetric(r *vu.Rng, m format.MetricMetaValue, w8 int64) (format.MetricMetaValue, int64, string) {
	n := m
	n.Tags = append([]format.MetricMetaTag(nil), m.Tags...)
	what := ""
	switch r.Intn(16) {
	case 0:
		w8 = r.Pick(0, 8, 16, 4, 9, -8)
		n.Weight = float64(w8) / 8
		what = "weight"
	case 1:
		n.PreKeyFrom = m.PreKeyFrom + uint32(r.Pick(1, 4294967295))
		what = "presort"
	case 2:
		n.PreKeyOnly = !m.PreKeyOnly
		what = "presortonly"
	case 3:
		n.SkipMaxHost = !m.SkipMaxHost
		what = "skipmax"
	case 4:
		n.SkipMinHost = !m.SkipMinHost
		what = "skipmin"
	case 5:
		n.SkipSumSquare = !m.SkipSumSquare
		what = "skipsumsq"
	case 6:
		n.ShardStrategy = []string{"", format.ShardByMetricID, format.ShardByTagsHash, format.ShardFixed, "x"}[r.Intn(5)]
		what = "strategy"
	case 7:
		n.ShardNum = m.ShardNum + 1
		what = "shardnum"
	case 8:
		n.ShardFixedKey = m.ShardFixedKey + 1
		what = "fixedkey"
	case 9:
		n.ShardFixedKey2 = m.ShardFixedKey2 + 1
		what = "fixedkey2"
	case 10:
		n.ShardFixedKey2Timestamp = m.ShardFixedKey2Timestamp + 1
		what = "fixedkey2ts"
	case 11: // flip / change one raw kind
		if len(n.Tags) > 0 {
			i := r.Intn(len(n.Tags))
			n.Tags[i].RawKind = []string{"", "int", "hex", "uint"}[r.Intn(4)]
		}
		what = "rawkind"
	case 12: // drop trailing tags
		if len(n.Tags) > 0 {
			n.Tags = n.Tags[:r.Intn(len(n.Tags))]
		}
		what = "tagsdrop"
	case 13: // add tags
		k := 1 + r.Intn(2)
		for i := 0; i < k; i++ {
			n.Tags = append(n.Tags, format.MetricMetaTag{RawKind: []string{"", "", "int"}[r.Intn(3)]})
		}
		what = "tagsadd"
	case 14:
		n.Name = genName(r)
		what = "rename"
	default:
		what = "same"
	}
	return n, w8, what
}

func mutBucket(what string) string {
	if strings.Contains(what, "+") {
		return "double"
	}
	return what
}

func rawFlags(m format.MetricMetaValue, n int) []bool {
	res := make([]bool, n)
	for i := range m.Tags {
		if i < n {
			res[i] = m.Tags[i].RawKind != ""
		}
	}
	return res
}

func protectedFieldsSame(o, n format.MetricMetaValue) (bool, string) {
	if o.Weight != n.Weight && !(o.Weight == 0 && n.Weight == 1) {
		return false, "weight"
	}
	if o.PreKeyFrom != n.PreKeyFrom || o.PreKeyOnly != n.PreKeyOnly {
		return false, "presort"
	}
	if o.ShardStrategy != n.ShardStrategy || o.ShardNum != n.ShardNum || o.ShardFixedKey != n.ShardFixedKey || o.ShardFixedKey2 != n.ShardFixedKey2 || o.ShardFixedKey2Timestamp != n.ShardFixedKey2Timestamp {
		return false, "sharding"
	}
	if o.SkipMaxHost != n.SkipMaxHost || o.SkipMinHost != n.SkipMinHost || o.SkipSumSquare != n.SkipSumSquare {
		return false, "skips"
	}
	k := max(len(o.Tags), len(n.Tags))
	a, b := rawFlags(o, k), rawFlags(n, k)
	for i := range a {
		if a[i] != b[i] {
			return false, "raw"
		}
	}
	return true, ""
}

type harness struct {
	r *vu.Rng
	o *vu.Out
}

// view and edit decisions on an accessInfo; bits/app != "" when the accessInfo came out of a token
func (h *harness) viewCase(a *api.VerifAI, name string, app string, bits []string, fromToken bool) {
	v := a.View()
	got := a.CanViewName(name)
	got2 := a.CanView(format.MetricMetaValue{Name: name})
	input := fmt.Sprintf("view %s name=%q", viewText(v), name)
	if fromToken {
		input += fmt.Sprintf(" app=%q bits=%q", app, bits)
	}
	kind := "view/deny"
	if got {
		kind = "view/allow"
	}
	line := h.o.Case(input, fmt.Sprintf("CView %s %s %s", viewTerm(v), S(name), vu.B(got)), got || remoteConfig[name] || protectedName(v.Protected, name), kind)
	if got != got2 {
		h.o.Fail("view_metric_is_view_name", line, input)
	}
	if got != specViewAI(v, name) {
		h.o.Fail("view_iff_matching_bit_or_default", line, input)
	}
	if !v.Admin && remoteConfig[name] && got {
		h.o.Fail("remote_config_view_admin_only", line, input)
	}
	if fromToken && got != specView(app, bits, v.Protected, name) {
		h.o.Fail("view_iff_token_carries_bit", line, input)
	}
}

func (h *harness) editCase(a *api.VerifAI, old, new_ format.MetricMetaValue, ow8, nw8 int64, what string, app string, bits []string, fromToken bool) {
	v := a.View()
	create := h.r.Chance(20)
	byName := a.CanChangeByName(create, old, new_)
	txt := a.CanEdit(create, old, new_)
	res, known := editErrs[txt]
	input := fmt.Sprintf("edit %s create=%v old=%s new=%s (%s)", viewText(v), create, metricText(old), metricText(new_), what)
	if fromToken {
		input += fmt.Sprintf(" app=%q bits=%q", app, bits)
	}
	if !known {
		res = "EdForbidden"
	}
	line := h.o.Case(input, fmt.Sprintf("CEdit %s %s %s %s %s", viewTerm(v), metricTerm(old, ow8), metricTerm(new_, nw8), vu.B(byName), res),
		byName && !v.Admin, "edit/"+res, "editmut/"+mutBucket(what))
	if !known {
		h.o.Fail("edit_unknown_error_text", line, input+" err="+txt)
	}
	okEdit := txt == ""
	if okEdit && !byName {
		h.o.Fail("edit_needs_name_rights", line, input)
	}
	if !v.Admin {
		if okEdit {
			if same, f := protectedFieldsSame(old, new_); !same {
				h.o.Fail("nonadmin_cannot_change_"+f, line, input)
			}
		}
		if (remoteConfig[old.Name] || remoteConfig[new_.Name]) && (byName || okEdit) {
			h.o.Fail("remote_config_edit_admin_only", line, input)
		}
		// rights on both names
		om, op, od := editRightAI(v, old.Name)
		nm, np, nd := editRightAI(v, new_.Name)
		if byName && !((om || op || od) && (nm || np || nd)) {
			h.o.Fail("rename_needs_both", line, input)
		}
		want := !(remoteConfig[old.Name] || remoteConfig[new_.Name]) && ((om && nm) || (op && np) || (od && nd))
		if byName != want {
			h.o.Fail("edit_iff_matching_bit_or_default", line, input)
		}
		if byName && !(a.CanChangeByName(create, old, old) && a.CanChangeByName(create, new_, new_)) {
			h.o.Fail("rename_needs_both", line, input)
		}
	} else if !byName || !okEdit {
		h.o.Fail("admin_can_edit", line, input)
	}
	if fromToken && byName != specChange(app, bits, v.Protected, old.Name, new_.Name) {
		h.o.Fail("edit_iff_token_carries_bit", line, input)
	}
}

func (h *harness) decisions(a *api.VerifAI, k int, app string, bits []string, fromToken bool) {
	r := h.r
	for j := 0; j < k; j++ {
		name := genName(r)
		v := a.View()
		// aim at the bits the accessInfo has
		if r.Chance(50) {
			cands := append(append(append(append([]string{}, v.ViewMetric...), v.ViewPrefix...), v.EditMetric...), v.EditPrefix...)
			if len(cands) > 0 {
				name = cands[r.Intn(len(cands))]
				switch r.Intn(4) {
				case 0:
					name += "x"
				case 1:
					if len(name) > 0 {
						name = name[:len(name)-1]
					}
				}
			}
		}
		if r.Bool() {
			h.viewCase(a, name, app, bits, fromToken)
		} else {
			if r.Chance(60) { // a name the accessInfo may edit, so that the field checks decide
				cands := append(append([]string{}, v.EditMetric...), v.EditPrefix...)
				if v.EditDefault {
					cands = append(cands, "bar", "zzz", "ns3:q")
				}
				if len(cands) > 0 {
					name = cands[r.Intn(len(cands))]
				}
			}
			old, ow8 := genMetric(r, name)
			new_, nw8, what := mutateMetric(r, old, ow8)
			if r.Chance(10) {
				var w2 string
				new_, nw8, w2 = mutateMetric(r, new_, nw8)
				what += "+" + w2
			}
			if what == "weight" && r.Chance(40) { // the permitted 0 -> 1
				old.Weight, ow8 = 0, 0
				new_.Weight, nw8 = 1, 8
				what = "weight01"
			}
			h.editCase(a, old, new_, ow8, nw8, what, app, bits, fromToken)
		}
	}
}

func pickSubset(r *vu.Rng, pool []string, maxN int) []string {
	n := r.Intn(maxN + 1)
	res := []string{}
	for i := 0; i < n; i++ {
		res = append(res, pool[r.Intn(len(pool))])
	}
	sort.Strings(res)
	out := res[:0]
	for i, x := range res {
		if i == 0 || x != res[i-1] {
			out = append(out, x)
		}
	}
	return out
}

func main() {
	seed := flag.Uint64("seed", 1, "")
	n := flag.Int("n", 2000, "")
	out := flag.String("out", "", "")
	flag.Parse()
	r := vu.NewRng(*seed)
	o := vu.NewOut(*out)
	defer o.Close()
	h := &harness{r: r, o: o}

	// keys: 3 configured, 1 attacker's
	var pubs []ed25519.PublicKey
	var privs []ed25519.PrivateKey
	for i := 0; i < 4; i++ {
		sd := make([]byte, ed25519.SeedSize)
		for j := range sd {
			sd[j] = byte(r.U64())
		}
		p := ed25519.NewKeyFromSeed(sd)
		privs = append(privs, p)
		pubs = append(pubs, p.Public().(ed25519.PublicKey))
	}
	var enc []string
	for i := 0; i < 3; i++ {
		enc = append(enc, b64(pubs[i]))
	}
	keyMap, err := vkuth.ParseVkuthKeys(enc)
	if err != nil || len(keyMap) != 3 {
		panic(fmt.Sprint("ParseVkuthKeys: ", err))
	}
	kids := make([]string, 3)
	for kid, k := range keyMap {
		for i := 0; i < 3; i++ {
			if string(k) == string(pubs[i]) {
				kids[i] = kid
			}
		}
	}
	keysTerm := fmt.Sprintf("[(%s, 0); (%s, 1); (%s, 2)]", S(kids[0]), S(kids[1]), S(kids[2]))
	algs := jwt.GetAlgorithms()
	sort.Strings(algs)

	for i := 0; i < *n; i++ {
		switch {
		case i%5 < 2:
			h.tokenCase(pubs, privs, keyMap, kids, keysTerm, algs)
		default: // decisions on a directly built accessInfo
			v := api.VerifAccessView{User: "u", Admin: r.Chance(12), Developer: r.Chance(10), ViewDefault: r.Chance(45), EditDefault: r.Chance(45),
				Protected: pickSubset(r, protPool, 2), ViewPrefix: pickSubset(r, append(protPool, namePool...), 2), EditPrefix: pickSubset(r, append(protPool, namePool...), 2),
				ViewMetric: pickSubset(r, namePool, 3), EditMetric: pickSubset(r, namePool, 3)}
			a := api.NewVerifAI(v)
			h.decisions(a, 2, "", nil, false)
		}
	}
}

func (h *harness) tokenCase(pubs []ed25519.PublicKey, privs []ed25519.PrivateKey, keyMap map[string][]byte, kids []string, keysTerm string, algs []string) {
	r, o := h.r, h.o
	app := "statshouse"
	if r.Chance(15) {
		app = appPool[r.Intn(len(appPool))]
	}
	nowS := int64(1700000000 + r.Intn(100000))
	nowNs := r.Pick(0, 0, 1, 500000000, 999999999)
	now := time.Unix(nowS, nowNs)
	nowAbs := nowS*1000000000 + nowNs

	// start from a valid token
	signer := r.Intn(3)
	alg, kind, kid := jstr("EdDSA"), jstr("token"), jstr(kids[signer])
	iss := "vkuth"
	exp, iat := (nowS+3600)*1000, (nowS-10)*1000
	c := &claimsAbs{iss: &iss, exp: &exp, iat: &iat, hasData: true, user: "user@example.com", service: r.Chance(20), bits: genBits(r, app)}
	if r.Chance(40) {
		nbf := (nowS - 10) * 1000
		c.nbf = &nbf
	}
	if r.Chance(10) {
		c.user = "robot"
	}
	var muts []string
	nm := 0
	switch x := r.Intn(100); {
	case x < 30:
		nm = 0
	case x < 90:
		nm = 1
	default:
		nm = 2
	}
	sigMode := "good" // good / flip / trunc / empty / junk / hmac / none
	tamper := false
	malformed := ""
	empty := false
	local, insecure := false, false
	frac := func() int64 { return r.Pick(0, 0, 125, 500, 875, 999) }
	for k := 0; k < nm; k++ {
		m := r.Intn(17)
		switch m {
		case 0: // algorithm
			switch r.Intn(5) {
			case 0:
				alg = jstr("none")
				sigMode = "empty"
			case 1:
				alg = jstr("HS256")
				sigMode = "hmac"
			case 2:
				alg = jstr(algs[r.Intn(len(algs))])
			case 3:
				alg = jstr([]string{"eddsa", "EdDSA ", "ED25519", "", "Ed25519", "NONE"}[r.Intn(6)])
			default:
				if r.Bool() {
					alg = jval{}
				} else {
					alg = jval{kind: 2, raw: 5}
				}
			}
			muts = append(muts, "alg")
		case 1:
			switch r.Intn(4) {
			case 0:
				kind = jval{}
			case 1:
				kind = jstr([]string{"cookie", "Token", "", "token ", "tokens"}[r.Intn(5)])
			default:
				kind = jval{kind: 2, raw: []any{true, 1, []string{"token"}}[r.Intn(3)]}
			}
			muts = append(muts, "kind")
		case 2:
			switch r.Intn(5) {
			case 0:
				kid = jval{}
			case 1:
				kid = jval{kind: 2, raw: 7}
			case 2:
				kid = jstr([]string{"0123456789abcdef", "", kids[signer][:15], kids[signer] + "0", strings.ToUpper(kids[signer])}[r.Intn(5)])
			default: // another configured key
				kid = jstr(kids[(signer+1+r.Intn(2))%3])
			}
			muts = append(muts, "kid")
		case 3: // attacker's own key
			signer = 3
			muts = append(muts, "attackerkey")
		case 4:
			tamper = true
			muts = append(muts, "tamper")
		case 5:
			sigMode = []string{"flip", "trunc", "empty", "junk"}[r.Intn(4)]
			muts = append(muts, "sig"+sigMode)
		case 6, 7: // expiry around now - 5 s
			if r.Chance(12) {
				c.exp = nil
			} else {
				e := (nowS-5+r.Pick(-2, -1, 0, 1, 2))*1000 + frac()
				if r.Chance(10) {
					e = r.Pick(0, -1500, 1, (nowS-100000)*1000)
				}
				c.exp = &e
			}
			muts = append(muts, "exp")
		case 8, 9: // issued-at around now + 5 s
			if r.Chance(12) {
				c.iat = nil
			} else {
				e := (nowS+5+r.Pick(-2, -1, 0, 1, 2))*1000 + frac()
				if r.Chance(10) {
					e = (nowS + 100000) * 1000
				}
				c.iat = &e
			}
			muts = append(muts, "iat")
		case 10: // not-before around now
			e := (nowS+r.Pick(-6, -5, -1, 0, 1, 4, 5, 6))*1000 + frac()
			c.nbf = &e
			muts = append(muts, "nbf")
		case 11:
			if r.Chance(20) {
				c.iss = nil
			} else {
				s := []string{"", "vkuth2", "Vkuth", "vkut", "statshouse", " vkuth"}[r.Intn(6)]
				c.iss = &s
			}
			muts = append(muts, "iss")
		case 12:
			if r.Chance(30) {
				c.hasData = false
				c.user, c.service, c.bits = "", false, nil
			} else {
				c.user = ""
			}
			muts = append(muts, "user")
		case 13: // no registered claim at all
			c.iss, c.exp, c.iat, c.nbf = nil, nil, nil, nil
			if r.Chance(30) {
				s := "x"
				c.sub = &s
			}
			muts = append(muts, "noregistered")
		case 14:
			malformed = []string{"2seg", "4seg", "b64hdr", "b64pl", "jsonhdr", "jsonpl", "bitstype", "bearer"}[r.Intn(8)]
			muts = append(muts, "malformed/"+malformed)
		case 15:
			if r.Chance(50) {
				empty = true
				muts = append(muts, "empty")
			} else {
				local, insecure = r.Bool(), r.Bool()
				muts = append(muts, fmt.Sprintf("mode/%v%v", local, insecure))
			}
		default: // only foreign bits, among them admin
			c.bits = []string{"other:admin", "admin", app + "2:admin", ":admin", app + ":"}
			if r.Bool() {
				c.bits = append(c.bits, app+":view_default")
			}
			muts = append(muts, "foreignbits")
		}
	}
	if len(muts) == 0 {
		muts = []string{"valid"}
	}

	// mint
	hdr := map[string]any{"typ": "JWT"}
	for name, v := range map[string]jval{"alg": alg, "kind": kind, "kid": kid} {
		switch v.kind {
		case 1:
			hdr[name] = v.s
		case 2:
			hdr[name] = v.raw
		}
	}
	hb, _ := json.Marshal(hdr)
	pl := c.json()
	signing := b64(hb) + "." + b64(pl)
	var sig []byte
	switch sigMode {
	case "hmac": // algorithm confusion: HMAC keyed with the public key the kid names
		mac := hmac.New(sha256.New, pubs[min(signer, 2)])
		mac.Write([]byte(signing))
		sig = mac.Sum(nil)
	case "empty":
		sig = nil
	default:
		sig = ed25519.Sign(privs[signer], []byte(signing))
		switch sigMode {
		case "flip":
			sig[r.Intn(len(sig))] ^= byte(1 << r.Intn(8))
		case "trunc":
			sig = sig[:len(sig)-1-r.Intn(3)]
		}
	}
	sigSeg := b64(sig)
	if sigMode == "junk" {
		sigSeg += []string{"=", "A", "!", "=="}[r.Intn(4)]
	}
	seen := c
	if tamper { // payload replaced after signing: grant admin / extend life
		t := *c
		t.bits = append(append([]string{}, c.bits...), app+":admin")
		if r.Bool() && c.exp != nil {
			e := *c.exp + 1000
			t.exp = &e
		}
		seen = &t
		pl = seen.json()
	}
	token := b64(hb) + "." + b64(pl) + "." + sigSeg
	switch malformed {
	case "2seg":
		token = b64(hb) + "." + b64(pl)
	case "4seg":
		token += "." + sigSeg
	case "b64hdr":
		token = "!" + token
	case "b64pl":
		token = b64(hb) + ".*" + b64(pl) + "." + sigSeg
	case "jsonhdr":
		token = b64(hb[:len(hb)-1]) + "." + b64(pl) + "." + sigSeg
	case "jsonpl":
		token = b64(hb) + "." + b64(pl[:len(pl)-1]) + "." + sigSeg
	case "bitstype":
		token = b64(hb) + "." + b64([]byte(`{"iss":"vkuth","exp":99999999999,"iat":1,"vkuth_data":{"user":"u","bits":"statshouse:admin"}}`)) + "." + sigSeg
	case "bearer":
		token = "Bearer " + token
	}
	if empty {
		token = ""
	}
	c = seen

	// the signature, verified independently of the JWT library, under every configured key
	verifies := []int64{}
	parts := strings.Split(token, ".")
	if len(parts) == 3 {
		if raw, err := base64.RawURLEncoding.DecodeString(parts[2]); err == nil {
			for i := 0; i < 3; i++ {
				if ed25519.Verify(pubs[i], []byte(parts[0]+"."+parts[1]), raw) {
					verifies = append(verifies, int64(i))
				}
			}
		}
	}

	helper := vkuth.NewJWTHelper(keyMap, app)
	helper.SetNow(func() time.Time { return now })
	prot := pickSubset(r, protPool, 2)

	// real code
	vkTerm := "None"
	vkAccepted := false
	var granted []string
	if token != "" {
		func() {
			defer func() {
				if rec := recover(); rec != nil {
					vkTerm = "(Some OPanic)"
				}
			}()
			d, err := helper.ParseVkuthData(token)
			if err != nil {
				vkTerm = fmt.Sprintf("(Some (OErr %d))", api.VerifJWTMask(err))
				return
			}
			vkAccepted = true
			for b := range d.Bits {
				granted = append(granted, b)
			}
			sort.Strings(granted)
			vkTerm = fmt.Sprintf("(Some (OOk (Build_access_data %s %s %s)))", LS(granted), S(d.User), vu.B(d.IsService))
		}()
	}
	a, mask, code, panicked := api.VerifParseAccessToken(helper, token, prot, local, insecure)
	aiTerm := ""
	switch {
	case panicked:
		aiTerm = "APanic"
	case a == nil:
		aiTerm = fmt.Sprintf("(AErr %d)", mask)
	default:
		aiTerm = "(AOk " + viewTerm(a.View()) + ")"
	}
	tokTerm := "None"
	if token != "" {
		if malformed != "" {
			tokTerm = "(Some TMalformed)"
		} else {
			tokTerm = fmt.Sprintf("(Some (TParsed %s %s %s tt %s %s))", alg.term(), kind.term(), kid.term(), vu.ListZ(verifies), c.term())
		}
	}
	input := fmt.Sprintf("token[%s] app=%q now=%d.%09d alg=%s kind=%s kid=%s signer=%d sig=%s verifies=%v %s prot=%q local=%v insecure=%v",
		strings.Join(muts, "+"), app, nowS, nowNs, alg.text(), kind.text(), kid.text(), signer, sigMode, verifies, c.text(), prot, local, insecure)
	accepted := a != nil
	outKind := "tok/rejected"
	if accepted {
		outKind = "tok/accepted"
	}
	if panicked {
		outKind = "tok/panic"
	}
	kindsH := []string{outKind}
	for _, m := range muts {
		kindsH = append(kindsH, "mut/"+strings.SplitN(m, "/", 2)[0])
	}
	line := o.Case(input, fmt.Sprintf("CTok %s %s %d %s %s %s %s %s %s", S(app), keysTerm, nowAbs, tokTerm, LS(prot), vu.B(local), vu.B(insecure), vkTerm, aiTerm),
		len(muts) > 0, kindsH...)

	// ----- oracles: the property's list of conditions, evaluated on what the generator put into the token
	valid := token != "" && malformed == "" &&
		alg.kind == 1 && alg.s == "EdDSA" && kind.kind == 1 && kind.s == "token" && kid.kind == 1
	if valid {
		idx := -1
		for i, k := range kids {
			if k == kid.s {
				idx = i
			}
		}
		valid = idx >= 0
		if valid {
			valid = false
			for _, v := range verifies {
				valid = valid || v == int64(idx)
			}
		}
	}
	floorSec := func(ms int64) int64 {
		q := ms / 1000
		if ms%1000 < 0 {
			q--
		}
		return q
	}
	validClaims := c.iss != nil && *c.iss == "vkuth" && c.user != "" &&
		c.exp != nil && nowAbs-5000000000 < floorSec(*c.exp)*1000000000 &&
		c.iat != nil && floorSec(*c.iat)*1000000000 <= nowAbs+5000000000 &&
		(c.nbf == nil || floorSec(*c.nbf)*1000000000 <= nowAbs)
	if !local && !insecure {
		if accepted && !(valid && validClaims) {
			o.Fail("accepted_only_if_valid", line, input)
		}
		if valid && validClaims && !accepted {
			o.Fail("valid_token_accepted", line, input)
		}
		if accepted != vkAccepted {
			o.Fail("parse_access_token_follows_vkuth", line, input)
		}
		if !accepted && !panicked && code != 401 {
			o.Fail("rejected_is_401", line, input)
		}
		if accepted {
			v := a.View()
			for _, g := range granted {
				if g == "" || !hasRaw(c.bits, app+":"+g) {
					o.Fail("only_app_bits_granted", line, input)
				}
			}
			for _, b := range c.bits {
				if strings.HasPrefix(b, app+":") && len(b) > len(app)+1 && !hasRaw(granted, b[len(app)+1:]) {
					o.Fail("app_bits_granted", line, input)
				}
			}
			if v.Admin != hasRaw(c.bits, app+":admin") || v.Developer != hasRaw(c.bits, app+":developer") ||
				v.ViewDefault != hasRaw(c.bits, app+":view_default") || v.EditDefault != hasRaw(c.bits, app+":edit_default") {
				o.Fail("only_app_bits_granted", line, input)
			}
			if v.User != c.user || v.Service != c.service {
				o.Fail("user_from_token", line, input)
			}
		}
	}
	if accepted {
		fromToken := !local && !insecure
		h.decisions(a, 3, app, c.bits, fromToken)
	}
}
