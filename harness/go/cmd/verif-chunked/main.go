//go:build verif

// Correspondence harness for C21: drives the real data_model.ChunkedStorage2 (slice backend) and the real
// pcache.MappingsCache and prints cases for Chunked/Corr.v; evaluates the property's oracles on the Go side.
package main

import (
	"bytes"
	"encoding/binary"
	"flag"
	"fmt"
	"runtime"
	"strings"
	"sync"

	"github.com/zeebo/xxh3"

	"github.com/VKCOM/statshouse/internal/data_model"
	"github.com/VKCOM/statshouse/internal/pcache"
	vu "github.com/VKCOM/statshouse/internal/verifutil"
	"github.com/VKCOM/statshouse/internal/vkgo/basictl"
)

const magicA = data_model.ChunkedMagicMappings
const magicB = data_model.ChunkedMagicJournal

// ---------- Coq printing ----------

// bz prints a byte string as a Coq term of type bytes; long runs become (R b n)
func bz(b []byte) string {
	var parts []string
	var lit []string
	flush := func() {
		if len(lit) > 0 {
			parts = append(parts, "["+strings.Join(lit, ";")+"]")
			lit = nil
		}
	}
	for i := 0; i < len(b); {
		j := i
		for j < len(b) && b[j] == b[i] {
			j++
		}
		if j-i >= 24 {
			flush()
			parts = append(parts, fmt.Sprintf("R %d %d", b[i], j-i))
		} else {
			for k := i; k < j; k++ {
				lit = append(lit, fmt.Sprintf("%d", b[k]))
			}
		}
		i = j
	}
	flush()
	if len(parts) == 0 {
		return "[]"
	}
	if len(parts) == 1 && strings.HasPrefix(parts[0], "[") {
		return parts[0]
	}
	return "(" + strings.Join(parts, " ++ ") + ")"
}

func bzList(bs [][]byte) string {
	p := make([]string, len(bs))
	for i, b := range bs {
		p[i] = bz(b)
	}
	return "[" + strings.Join(p, "; ") + "]"
}

func itemTerm(it pcache.VerifItem) string {
	return fmt.Sprintf("(%s, {| e_val := %s; e_ts := %d |})", bz([]byte(it.Str)), vu.Z(int64(it.Value)), it.TS)
}
func itemsTerm(its []pcache.VerifItem) string {
	p := make([]string, len(its))
	for i, it := range its {
		p[i] = itemTerm(it)
	}
	return "[" + strings.Join(p, "; ") + "]"
}

// ---------- xxh3 table ----------

type htab struct {
	seen  map[string]bool
	terms []string
}

func newHtab() *htab { return &htab{seen: map[string]bool{}} }
func hashBytes(in []byte) []byte {
	h := xxh3.Hash128(in)
	out := binary.BigEndian.AppendUint64(nil, h.Hi)
	return binary.BigEndian.AppendUint64(out, h.Lo)
}
func (t *htab) add(in []byte) {
	if t.seen[string(in)] {
		return
	}
	t.seen[string(in)] = true
	t.terms = append(t.terms, fmt.Sprintf("(%s, %s)", bz(in), bz(hashBytes(in))))
}

// walk adds the hash inputs of every frame reachable by following the size fields of f; the previous hash of a
// frame is the trailer stored before it (what the reader carries over and what the writer continues from)
func (t *htab) walk(f []byte) {
	off := 0
	prev := make([]byte, 16)
	for off+24 <= len(f) {
		s := int(binary.LittleEndian.Uint32(f[off+4:]))
		if s > data_model.ChunkSize || off+8+s+16 > len(f) {
			return
		}
		in := append(append([]byte{}, prev...), f[off:off+8+s]...)
		t.add(in)
		prev = f[off+8+s : off+8+s+16]
		off += 24 + s
	}
}
func (t *htab) term() string { return "[" + strings.Join(t.terms, "; ") + "]" }

// ---------- storage histories ----------

type sop struct {
	kind  string // read, readall, reset, start, item, finish
	magic uint32
	item  []byte
}

func errCode(err error) string {
	s := err.Error()
	switch {
	case strings.Contains(s, "header overflows"):
		return "EHdrOverflow"
	case strings.Contains(s, "invalid magic"):
		return "EMagic"
	case strings.Contains(s, "overflows hard limit"):
		return "EBodyLimit"
	case strings.Contains(s, "overflows file size"):
		return "EBodyOverflow"
	case strings.Contains(s, "wrong xxhash"):
		return "EHash"
	}
	return "EUnknown_" + strings.ReplaceAll(s, " ", "_")
}

func resTerm(chunk []byte, err error) string {
	if err != nil {
		return "(RErr " + errCode(err) + ")"
	}
	if chunk == nil {
		return "REnd"
	}
	return "(RChunk " + bz(chunk) + ")"
}

// readAll runs the loop every caller runs; returns copies of the chunks, the final (chunk, err)
func readAll(st *data_model.ChunkedStorage2, magic uint32) (chunks [][]byte, last []byte, err error) {
	for {
		chunk, e := st.ReadNext(magic)
		if e != nil {
			return chunks, nil, e
		}
		if len(chunk) == 0 {
			return chunks, chunk, nil
		}
		chunks = append(chunks, append([]byte{}, chunk...))
	}
}

type storeRun struct {
	opsTerm, obsTerm []string
	tab              *htab
	file             []byte
	readChunks       [][][]byte // result of every readall
	readErr          []error
}

func runStore(initial []byte, ops []sop) *storeRun {
	r := &storeRun{tab: newHtab()}
	r.file = append([]byte{}, initial...)
	r.tab.walk(r.file)
	st := data_model.NewChunkedStorage2Slice(&r.file)
	var chunk []byte
	for _, op := range ops {
		switch op.kind {
		case "read":
			c, err := st.ReadNext(op.magic)
			r.opsTerm = append(r.opsTerm, fmt.Sprintf("SRead %d", op.magic))
			r.obsTerm = append(r.obsTerm, "BRes "+resTerm(c, err))
		case "readall":
			cs, last, err := readAll(st, op.magic)
			r.readChunks = append(r.readChunks, cs)
			r.readErr = append(r.readErr, err)
			r.opsTerm = append(r.opsTerm, fmt.Sprintf("SReadAll %d", op.magic))
			r.obsTerm = append(r.obsTerm, fmt.Sprintf("BAll %s %s", bzList(cs), resTerm(last, err)))
		case "reset":
			st.ResetToStartOfFile()
			r.opsTerm = append(r.opsTerm, "SReset")
			r.obsTerm = append(r.obsTerm, "BNone")
		case "start":
			chunk = st.StartWriteChunk(op.magic, 0)
			r.opsTerm = append(r.opsTerm, fmt.Sprintf("SStart %d", op.magic))
			r.obsTerm = append(r.obsTerm, "BNone")
		case "item":
			chunk = append(chunk, op.item...)
			var err error
			chunk, err = st.FinishItem(chunk)
			r.tab.walk(r.file)
			r.opsTerm = append(r.opsTerm, "SItem "+bz(op.item))
			r.obsTerm = append(r.obsTerm, fmt.Sprintf("BItem %s %d", vu.B(err != nil), len(r.file)))
		case "finish":
			_ = st.FinishWriteChunk(chunk)
			chunk = nil
			r.tab.walk(r.file)
			r.opsTerm = append(r.opsTerm, "SFinish")
			r.obsTerm = append(r.obsTerm, "BFile "+bz(r.file))
		}
	}
	return r
}

func (r *storeRun) term(initial []byte) string {
	return fmt.Sprintf("CStore %s %s [%s] [%s]", bz(initial), r.tab.term(), strings.Join(r.opsTerm, "; "), strings.Join(r.obsTerm, "; "))
}

func randItem(r *vu.Rng) []byte {
	n := 1 + r.Intn(12)
	if r.Chance(10) {
		n = 0
	}
	b := make([]byte, n)
	for i := range b {
		b[i] = byte(r.Intn(256))
	}
	if r.Chance(20) {
		for i := range b {
			b[i] = 0
		}
	}
	return b
}

// writeFile produces a file by the real writer: sessions of items (one chunk per non-empty session while below the half-chunk threshold)
func writeFile(magic uint32, sessions [][][]byte) []byte {
	var fp []byte
	st := data_model.NewChunkedStorage2Slice(&fp)
	_, _, _ = readAll(st, magic)
	for _, items := range sessions {
		chunk := st.StartWriteChunk(magic, 0)
		for _, it := range items {
			chunk = append(chunk, it...)
			chunk, _ = st.FinishItem(chunk)
		}
		_ = st.FinishWriteChunk(chunk)
	}
	return fp
}

func isPrefix(a, b [][]byte) bool {
	if len(a) > len(b) {
		return false
	}
	for i := range a {
		if !bytes.Equal(a[i], b[i]) {
			return false
		}
	}
	return true
}

// chunkEnds returns the end offset of every chunk of a well-formed file
func chunkEnds(f []byte) (ends []int) {
	off := 0
	for off+24 <= len(f) {
		s := int(binary.LittleEndian.Uint32(f[off+4:]))
		off += 24 + s
		ends = append(ends, off)
	}
	return ends
}

func genSessions(r *vu.Rng) [][][]byte {
	ns := 1 + r.Intn(3)
	var sessions [][][]byte
	for s := 0; s < ns; s++ {
		var items [][]byte
		for i := 0; i < r.Intn(4)+(1-s%2); i++ {
			items = append(items, randItem(r))
		}
		sessions = append(sessions, items)
	}
	return sessions
}

func appendOps(r *vu.Rng, magic uint32) []sop {
	ops := []sop{{kind: "start", magic: magic}}
	for i := 0; i < 1+r.Intn(2); i++ {
		ops = append(ops, sop{kind: "item", item: randItem(r)})
	}
	return append(ops, sop{kind: "finish"})
}

// damaged-file case: read everything from [f] (a damaged copy of [orig]), optionally append and re-read
func damagedCase(o *vu.Out, r *vu.Rng, desc string, orig []byte, origChunks [][]byte, f []byte, wantChunks int, kind string) {
	ops := []sop{{kind: "readall", magic: magicA}}
	doAppend := r.Chance(25)
	if doAppend {
		ops = append(ops, appendOps(r, magicA)...)
	}
	run := runStore(f, ops)
	line := o.Case(desc, run.term(f), true, kind)
	got := run.readChunks[0]
	if !isPrefix(got, origChunks) {
		o.Fail("damaged_file_yields_prefix", line, desc)
	} else if wantChunks >= 0 && len(got) != wantChunks {
		o.Fail("damage_detected_at_damaged_chunk", line, desc)
	}
	if doAppend { // the file written after a damaged read must read back as accepted chunks + the new chunk
		st := data_model.NewChunkedStorage2Slice(&run.file)
		cs, _, err := readAll(st, magicA)
		if err != nil || !isPrefix(got, cs) || len(cs) > len(got)+1 {
			o.Fail("append_after_damage_roundtrip", line, desc)
		}
	}
}

func storageCases(o *vu.Out, r *vu.Rng, n int, seed uint64) {
	// 1. write/read round trips with small items, several sessions, reset, wrong magic
	for i := 0; i < n/8+1; i++ {
		sessions := genSessions(r)
		var ops []sop
		ops = append(ops, sop{kind: "readall", magic: magicA})
		var allItems [][]byte
		for si, items := range sessions {
			if si > 0 && r.Chance(15) {
				ops = append(ops, sop{kind: "reset"})
				allItems = nil
			}
			ops = append(ops, sop{kind: "start", magic: magicA})
			for _, it := range items {
				ops = append(ops, sop{kind: "item", item: it})
			}
			ops = append(ops, sop{kind: "finish"})
			_ = si
		}
		run := runStore(nil, ops)
		// fresh reader over the result: step-by-step reads, sometimes with the wrong magic
		var ops2 []sop
		m := uint32(magicA)
		if r.Chance(10) {
			m = magicB
		}
		for k := 0; k < 2+r.Intn(4); k++ {
			ops2 = append(ops2, sop{kind: "read", magic: m})
		}
		ops2 = append(ops2, sop{kind: "readall", magic: magicA})
		if r.Chance(50) {
			ops2 = append(ops2, appendOps(r, magicA)...)
		}
		run2 := runStore(run.file, ops2)
		desc := fmt.Sprintf("store-write seed=%d i=%d sessions=%d filelen=%d", seed, i, len(sessions), len(run.file))
		line := o.Case(desc, run.term(nil), len(run.file) > 0, "store/write")
		o.Case(desc+" reread", run2.term(run.file), len(run.file) > 0, "store/reread")
		// oracle: reload yields exactly the saved items (when no reset happened in between)
		hasReset := false
		for _, op := range ops {
			if op.kind == "reset" {
				hasReset = true
			}
		}
		if !hasReset {
			for _, items := range sessions {
				allItems = append(allItems, items...)
			}
			st := data_model.NewChunkedStorage2Slice(&run.file)
			cs, _, err := readAll(st, magicA)
			if err != nil || !bytes.Equal(bytes.Join(cs, nil), bytes.Join(allItems, nil)) {
				o.Fail("chunks_roundtrip", line, desc)
			}
			nonEmpty := 0
			for _, items := range sessions {
				if len(bytes.Join(items, nil)) > 0 {
					nonEmpty++
				}
			}
			if len(cs) != nonEmpty {
				o.Fail("one_chunk_per_session", line, desc)
			}
		}
	}
	// 2. truncation at every point and bit flips of small multi-chunk files
	nFiles := n/600 + 1
	for fi := 0; fi < nFiles; fi++ {
		var sessions [][][]byte
		for s := 0; s < 2+r.Intn(2); s++ {
			sessions = append(sessions, [][]byte{randItem(r), append(randItem(r), byte(1+r.Intn(255)))})
		}
		orig := writeFile(magicA, sessions)
		st := data_model.NewChunkedStorage2Slice(&orig)
		origChunks, _, _ := readAll(st, magicA)
		ends := chunkEnds(orig)
		for k := 0; k <= len(orig); k++ {
			want := 0
			for _, e := range ends {
				if e <= k {
					want++
				}
			}
			desc := fmt.Sprintf("truncate seed=%d file=%d len=%d at=%d", seed, fi, len(orig), k)
			damagedCase(o, r, desc, orig, origChunks, orig[:k], want, "store/truncate")
		}
		nflips := n / 2 / nFiles
		for j := 0; j < nflips; j++ {
			bit := r.Intn(len(orig) * 8)
			if nflips >= len(orig)*8 {
				bit = j % (len(orig) * 8)
			}
			f := append([]byte{}, orig...)
			f[bit/8] ^= 1 << (bit % 8)
			want := 0
			for _, e := range ends {
				if e <= bit/8 {
					want++
				}
			}
			desc := fmt.Sprintf("bitflip seed=%d file=%d len=%d bit=%d", seed, fi, len(orig), bit)
			damagedCase(o, r, desc, orig, origChunks, f, want, "store/bitflip")
		}
		// other damage: overwritten ranges, size fields set to boundary values, swapped chunks, garbage appended
		for j := 0; j < n/40/nFiles+4; j++ {
			f := append([]byte{}, orig...)
			var what string
			switch r.Intn(5) {
			case 0:
				a := r.Intn(len(f))
				b := a + r.Intn(len(f)-a)
				for k := a; k <= b && k < len(f); k++ {
					f[k] = byte(r.Intn(256))
				}
				what = fmt.Sprintf("overwrite %d..%d", a, b)
			case 1:
				ci := r.Intn(len(ends))
				start := 0
				if ci > 0 {
					start = ends[ci-1]
				}
				v := uint32(r.Pick(0, 1, int64(len(f)-start-24), int64(len(f)-start-23), data_model.ChunkSize, data_model.ChunkSize+1, 0xffffffff))
				binary.LittleEndian.PutUint32(f[start+4:], v)
				what = fmt.Sprintf("size chunk=%d val=%d", ci, v)
			case 2:
				f = append(f, make([]byte, r.Intn(30))...)
				what = "zeros appended"
			case 3:
				if len(ends) >= 2 {
					f = append(append([]byte{}, orig[ends[0]:ends[1]]...), orig[:ends[0]]...)
					f = append(f, orig[ends[1]:]...)
				}
				what = "first two chunks swapped"
			case 4:
				ci := r.Intn(len(ends))
				start := 0
				if ci > 0 {
					start = ends[ci-1]
				}
				f = append(append([]byte{}, orig[:start]...), orig[ends[ci]:]...)
				what = fmt.Sprintf("chunk %d cut out", ci)
			}
			desc := fmt.Sprintf("damage seed=%d file=%d len=%d %s", seed, fi, len(orig), what)
			damagedCase(o, r, desc, orig, origChunks, f, -1, "store/damage")
		}
	}
}

// item streams crossing the half-chunk threshold (long runs are printed run-length encoded); one call = one stream
func bigStoreCase(o *vu.Out, r *vu.Rng, i int, seed uint64) {
	var ops []sop
	ops = append(ops, sop{kind: "readall", magic: magicA}, sop{kind: "start", magic: magicA})
	var items [][]byte
	total := 0
	for total < data_model.ChunkSize/2+100000*r.Intn(2) {
		l := int(r.Pick(1, 50000, 200000, data_model.ChunkSize/2-1-int64(total%7), data_model.ChunkSize/2, data_model.ChunkSize/2+1, 300000))
		if i == 0 && len(items) == 0 {
			l = data_model.ChunkSize/2 - 1
		}
		it := bytes.Repeat([]byte{byte(65 + len(items))}, l)
		it[len(it)-1] = byte(r.Intn(256))
		items = append(items, it)
		total += l
		ops = append(ops, sop{kind: "item", item: it})
	}
	if r.Chance(30) { // an oversized chunk: FinishItem must report it
		ops = append(ops, sop{kind: "item", item: bytes.Repeat([]byte{9}, data_model.ChunkSize+1)})
	} else {
		ops = append(ops, sop{kind: "finish"})
	}
	run := runStore(nil, ops)
	desc := fmt.Sprintf("store-big seed=%d i=%d items=%d total=%d filelen=%d", seed, i, len(items), total, len(run.file))
	line := o.Case(desc, run.term(nil), true, "store/threshold")
	if ops[len(ops)-1].kind == "finish" {
		run2 := runStore(run.file, []sop{{kind: "readall", magic: magicA}})
		o.Case(desc+" reread", run2.term(run.file), true, "store/threshold-reread")
		if run2.readErr[0] != nil || !bytes.Equal(bytes.Join(run2.readChunks[0], nil), bytes.Join(items, nil)) {
			o.Fail("chunks_roundtrip", line, desc)
		}
		// every chunk is a concatenation of whole items
		idx := 0
		for _, c := range run2.readChunks[0] {
			rest := c
			for len(rest) > 0 && idx < len(items) && bytes.HasPrefix(rest, items[idx]) {
				rest = rest[len(items[idx]):]
				idx++
			}
			if len(rest) != 0 {
				o.Fail("chunk_is_whole_items", line, desc)
			}
		}
	}
}

// ---------- cache histories ----------

func parseBodies(bodies [][]byte) (its []pcache.VerifItem) {
	for _, chunk := range bodies {
		for len(chunk) != 0 {
			var it pcache.VerifItem
			var err error
			if chunk, err = basictl.StringRead(chunk, &it.Str); err != nil {
				return its
			}
			if chunk, err = basictl.IntRead(chunk, &it.Value); err != nil {
				return its
			}
			if chunk, err = basictl.NatRead(chunk, &it.TS); err != nil {
				return its
			}
			its = append(its, it)
		}
	}
	return its
}

func fileBodies(fp []byte) ([][]byte, error) {
	cp := append([]byte{}, fp...)
	st := data_model.NewChunkedStorage2Slice(&cp)
	cs, _, err := readAll(st, magicA)
	return cs, err
}

func sameItems(a, b []pcache.VerifItem) bool {
	if len(a) != len(b) {
		return false
	}
	for i := range a {
		if a[i] != b[i] {
			return false
		}
	}
	return true
}

func exactSums(d []pcache.VerifItem) (ss, st int64) {
	for _, it := range d {
		ss += pcache.VerifElementSizeMem(it.Str)
		st += int64(it.TS)
	}
	return
}

func genKey(r *vu.Rng, big bool) string {
	if big {
		return strings.Repeat(string(rune('a'+r.Intn(26))), int(r.Pick(100000, 120000, 253, 254, 255, 70000)))
	}
	switch r.Intn(12) {
	case 0:
		return ""
	case 1:
		return strings.Repeat("k", 1+r.Intn(8)) + string(rune('a'+r.Intn(4)))
	case 2:
		return string([]byte{byte(r.Intn(256)), byte(r.Intn(256))})
	default:
		return string(rune('a' + r.Intn(14)))
	}
}

func genValue(r *vu.Rng) int32 {
	switch r.Intn(10) {
	case 0:
		return int32(r.Pick(0, -1, -2))
	case 1:
		return int32(r.Pick(-3, 2147483647, -2147483648, 1))
	default:
		return int32(1 + r.Intn(1000))
	}
}

func cacheHistory(o *vu.Out, seed uint64, idx int, big bool) {
	r := vu.NewRng(seed*1000003 + uint64(idx))
	det := r.Bool()
	ms := int64(r.Pick(0, 33, 66, 100, 170, 200, 330, 500, 1000, 100000))
	ttl := int(r.Pick(0, 0, 5, 20, 100))
	nops := 8 + r.Intn(30)
	if big {
		ms = 2000000
		nops = 5
	}
	ms0, ttl0 := ms, ttl
	var fp []byte
	c, _ := pcache.LoadMappingsCacheSlice(&fp, ms)
	c.SetSizeTTL(ms, ttl)
	c.VerifSetDeterministic(det)
	now := uint32(1000 + r.Intn(50))
	var opsT, obsT []string
	dupSeen := false
	slow := 0
	evictions := 0
	saves := 0
	reloads := 0
	var fails []string
	added := map[string]map[int32]bool{}
	var lastSaved []pcache.VerifItem
	boundOK := true // maxSize was never lowered below the current sumSize and nothing was loaded under another size
	prevDump, prevSS, _ := c.VerifDump()
	for i := 0; i < nops; i++ {
		var ret string = "None"
		did := false
		var bodies [][]byte
		var opT string
		kind := r.Intn(100)
		if big {
			kind = []int{0, 0, 0, 80, 90}[i]
		}
		checkBound := true
		switch {
		case kind < 45: // AddValues
			if r.Chance(70) {
				now += uint32(r.Intn(6))
			} else if r.Chance(30) && now > 20 {
				now -= uint32(r.Intn(10))
			}
			np := 1 + r.Intn(5)
			var pairs []pcache.MappingPair
			for j := 0; j < np; j++ {
				p := pcache.MappingPair{Str: genKey(r, big), Value: genValue(r)}
				for tries := 0; tries < 8; tries++ { // strings of one batch are distinct unless a duplicate is asked for below
					clash := false
					for _, q := range pairs {
						if q.Str == p.Str {
							clash = true
						}
					}
					if !clash {
						break
					}
					p.Str = genKey(r, big) + string(rune('A'+tries))
				}
				if j > 0 && r.Chance(2) { // the same string twice in one batch
					p.Str = pairs[r.Intn(len(pairs))].Str
				}
				pairs = append(pairs, p)
			}
			// duplicate strings that pass the filter (not yet in the cache, not markers)?
			cnt := map[string]int{}
			for _, p := range pairs {
				present := false
				for _, d := range prevDump {
					if d.Str == p.Str {
						present = true
					}
				}
				if !present && p.Str != "" && p.Value != 0 && p.Value != -1 && p.Value != -2 {
					cnt[p.Str]++
					if cnt[p.Str] > 1 {
						dupSeen = true
					}
				}
				if added[p.Str] == nil {
					added[p.Str] = map[int32]bool{}
				}
				added[p.Str][p.Value] = true
			}
			var pt []string
			for _, p := range pairs {
				pt = append(pt, fmt.Sprintf("(%s, %s)", bz([]byte(p.Str)), vu.Z(int64(p.Value))))
			}
			c.VerifResetItemCache()
			cp := append([]pcache.MappingPair{}, pairs...) // AddValues compacts its argument in place
			c.AddValues(now, cp)
			items := c.VerifItemCache()
			if len(items) > 0 {
				slow++
			}
			opT = fmt.Sprintf("AAdd %d [%s] %s", now, strings.Join(pt, "; "), itemsTerm(items))
		case kind < 70: // GetValue
			k := genKey(r, false)
			if len(prevDump) > 0 && r.Chance(70) {
				k = prevDump[r.Intn(len(prevDump))].Str
			}
			ts := now + uint32(r.Intn(8)) - 3
			v, ok := c.GetValue(ts, k)
			if ok {
				ret = "(Some " + vu.Z(int64(v)) + ")"
				if !added[k][v] {
					fails = append(fails, "cache_never_wrong_value")
				}
				if v == 0 || v == -1 || v == -2 {
					fails = append(fails, "cache_never_marker")
				}
			}
			opT = fmt.Sprintf("AGet %d %s", ts, bz([]byte(k)))
		case kind < 80: // RemoveByTTL
			maxc := int(r.Pick(0, 1, 2, 3, 1000))
			tnow := now + uint32(r.Intn(40))
			c.VerifResetItemCache()
			c.RemoveByTTL(maxc, tnow)
			items := c.VerifItemCache()
			opT = fmt.Sprintf("ATTL %d %d %s", maxc, tnow, itemsTerm(items))
		case kind < 85: // SetSizeTTL
			nms := int64(r.Pick(0, 33, 100, 170, 330, 500, 1000))
			nttl := int(r.Pick(0, 5, 20, 100))
			if nms < prevSS {
				boundOK = false
			}
			ms, ttl = nms, nttl
			c.SetSizeTTL(ms, ttl)
			checkBound = false
			opT = fmt.Sprintf("ASetSize %d %d", ms, ttl)
		case kind < 93: // Save
			ok, err := c.Save()
			did = ok && err == nil
			if did {
				saves++
				bodies, _ = fileBodies(fp)
				order := parseBodies(bodies)
				opT = "ASave " + itemsTerm(order)
				// oracle: the saved file reloads (real code, fresh cache) to the same contents with exact sums
				cpf := append([]byte{}, fp...)
				c2, lerr := pcache.LoadMappingsCacheSlice(&cpf, ms)
				d2, ss2, st2 := c2.VerifDump()
				es, et := exactSums(prevDump)
				if lerr != nil || !sameItems(d2, prevDump) || ss2 != es || st2 != et {
					fails = append(fails, "cache_save_load_same")
				}
				lastSaved = prevDump
			} else {
				opT = "ASave []"
			}
		default: // reload from the file
			nc, lerr := pcache.LoadMappingsCacheSlice(&fp, ms)
			nc.SetSizeTTL(ms, ttl)
			nc.VerifSetDeterministic(det)
			c = nc
			reloads++
			checkBound = false
			d, _, _ := c.VerifDump()
			if lerr != nil || !sameItems(d, lastSaved) {
				fails = append(fails, "cache_reload_same")
			}
			es, _ := exactSums(d)
			if es > ms {
				boundOK = false
			}
			opT = fmt.Sprintf("AReload %d %d", ms, ttl)
		}
		dump, ss, st := c.VerifDump()
		if len(dump) < len(prevDump) {
			evictions++
		}
		// oracles on the state
		es, et := exactSums(dump)
		if ss != es || st != et {
			fails = append(fails, "accounting_exact")
		}
		if checkBound && ss > prevSS && ss > ms {
			fails = append(fails, "cache_size_le_max")
		}
		if boundOK && es > ms {
			fails = append(fails, "cache_size_le_max")
		}
		for _, d := range dump {
			if d.Str == "" || d.Value == 0 || d.Value == -1 || d.Value == -2 {
				fails = append(fails, "cache_never_marker")
			}
			if !added[d.Str][d.Value] {
				fails = append(fails, "cache_never_wrong_value")
			}
			if !strings.HasPrefix(opT, "AAdd") && !strings.HasPrefix(opT, "AReload") { // a value never changes while the string stays cached
				for _, p := range prevDump {
					if p.Str == d.Str && p.Value != d.Value {
						fails = append(fails, "cache_value_stable")
					}
				}
			}
		}
		opsT = append(opsT, opT)
		obsT = append(obsT, fmt.Sprintf("Ob %s %s %s %d %d %s", ret, vu.B(did), bzList(bodies), ss, st, itemsTerm(dump)))
		prevDump, prevSS = dump, ss
	}
	dup := 0
	if dupSeen {
		dup = 1
	}
	desc := fmt.Sprintf("hist seed=%d idx=%d big=%v det=%v ms=%d ttl=%d nops=%d dup=%d", seed, idx, big, det, ms, ttl, nops, dup)
	term := fmt.Sprintf("CHist %s %d %d [%s] [%s]", vu.B(det), ms0, ttl0, strings.Join(opsT, "; "), strings.Join(obsT, "; "))
	kinds := []string{"hist"}
	if slow > 0 {
		kinds = append(kinds, "hist/slow-path")
	}
	if evictions > 0 {
		kinds = append(kinds, "hist/evicting")
	}
	if saves > 0 {
		kinds = append(kinds, "hist/saving")
	}
	if reloads > 0 && saves > 0 {
		kinds = append(kinds, "hist/save+reload")
	}
	if dupSeen {
		kinds = append(kinds, "hist/dup-batch")
	}
	if big {
		kinds = append(kinds, "hist/big")
	}
	line := o.Case(desc, term, evictions > 0 || saves > 0, kinds...)
	seen := map[string]bool{}
	for _, f := range fails {
		if !seen[f] {
			seen[f] = true
			o.Fail(f, line, desc)
		}
	}
}

// ---------- crafted load files, item encoding, StringRead ----------

func loadCases(o *vu.Out, r *vu.Rng, n int, seed uint64) {
	for i := 0; i < n; i++ {
		var sessions [][][]byte
		for s := 0; s < 1+r.Intn(2); s++ {
			var items [][]byte
			for j := 0; j < r.Intn(5); j++ {
				var b []byte
				k := genKey(r, false)
				if r.Chance(5) {
					k = strings.Repeat("x", int(r.Pick(252, 253, 254, 255, 256)))
				}
				b = basictl.StringWrite(b, k)
				b = basictl.IntWrite(b, genValue(r))
				b = basictl.NatWrite(b, uint32(r.Pick(0, 1, 1000, 4294967295)))
				switch r.Intn(14) {
				case 0:
					b = b[:r.Intn(len(b))] // truncated item
				case 1:
					b[r.Intn(len(b))] ^= byte(1 << r.Intn(8)) // damaged inside a chunk with a valid hash
				case 2:
					b = append(b, byte(r.Intn(3)))
				}
				items = append(items, b)
			}
			sessions = append(sessions, items)
		}
		fp := writeFile(magicA, sessions)
		bodies, _ := fileBodies(fp)
		ms := int64(r.Pick(0, 100, 1000))
		c, err := pcache.LoadMappingsCacheSlice(&fp, ms)
		dump, ss, st := c.VerifDump()
		desc := fmt.Sprintf("load seed=%d i=%d bodies=%d err=%v n=%d", seed, i, len(bodies), err != nil, len(dump))
		o.Case(desc, fmt.Sprintf("CLoad %s %d %s %d %d %s", bzList(bodies), ms, vu.B(err != nil), ss, st, itemsTerm(dump)), len(dump) > 0, "load")
	}
	for i := 0; i < n; i++ {
		k := genKey(r, false)
		if r.Chance(20) {
			k = strings.Repeat("y", int(r.Pick(250, 251, 252, 253, 254, 255, 256, 257, 1000)))
		}
		v := genValue(r)
		ts := uint32(r.Pick(0, 1, 77, 4294967295, 2147483648))
		var b []byte
		b = basictl.StringWrite(b, k)
		b = basictl.IntWrite(b, v)
		b = basictl.NatWrite(b, ts)
		o.Case(fmt.Sprintf("item len=%d v=%d ts=%d", len(k), v, ts), fmt.Sprintf("CItem %s %s %d %s", bz([]byte(k)), vu.Z(int64(v)), ts, bz(b)), true, "item")
		// StringRead on (possibly damaged) bytes
		rb := basictl.StringWrite(nil, k)
		rb = append(rb, byte(r.Intn(256)), 0, 7)
		switch r.Intn(5) {
		case 0:
			rb[0] = byte(r.Pick(0, 253, 254, 255, 1))
		case 1:
			rb = rb[:r.Intn(len(rb))]
		case 2:
			rb[r.Intn(len(rb))] ^= byte(1 << r.Intn(8))
		case 3:
			if len(rb) > 4 && rb[0] == 254 {
				rb[1], rb[2], rb[3] = byte(r.Pick(253, 254, 0)), 0, 0
			}
		}
		var s string
		rest, err := basictl.StringRead(rb, &s)
		res := "None"
		if err == nil {
			res = fmt.Sprintf("(Some (%s, %d))", bz([]byte(s)), len(rest))
		}
		o.Case(fmt.Sprintf("strread len=%d b0=%d err=%v", len(rb), first(rb), err != nil), fmt.Sprintf("CStrRead %s %s", bz(rb), res), err == nil, "strread")
	}
}

func first(b []byte) int {
	if len(b) == 0 {
		return -1
	}
	return int(b[0])
}


// ---------- big files: damage of the size field must never panic and must yield the good prefix ----------

func readAllNoPanic(fp []byte) (chunks [][]byte, err error, panicked any) {
	defer func() {
		if r := recover(); r != nil {
			panicked = r
		}
	}()
	cp := append([]byte{}, fp...)
	st := data_model.NewChunkedStorage2Slice(&cp)
	cs, _, e := readAll(st, magicA)
	return cs, e, nil
}

func bigSizeFieldCases(o *vu.Out, r *vu.Rng, seed uint64) {
	// 4 chunks of exactly ChunkSize/2 bytes and a short tail: the file is larger than the 1 MiB scratch buffer
	var items [][]byte
	for k := 0; k < 4; k++ {
		it := bytes.Repeat([]byte{byte(70 + k)}, data_model.ChunkSize/2)
		it[len(it)-1] = byte(r.Intn(256))
		items = append(items, it)
	}
	items = append(items, []byte{1, 2, 3, byte(r.Intn(256))})
	orig := writeFile(magicA, [][][]byte{items})
	ends := chunkEnds(orig)
	origChunks, err0, p0 := readAllNoPanic(orig)
	anchor := o.Case(fmt.Sprintf("bigfile seed=%d len=%d chunks=%d intact", seed, len(orig), len(ends)), "CItem [] 1 1 [0;0;0;0;1;0;0;0;1;0;0;0]", true, "store/bigfile")
	if p0 != nil || err0 != nil || len(origChunks) != 5 {
		o.Fail("chunks_roundtrip", anchor, fmt.Sprintf("bigfile seed=%d intact file does not reload: err=%v panic=%v chunks=%d", seed, err0, p0, len(origChunks)))
		return
	}
	for k := 0; k < 4; k++ {
		start := 0
		if k > 0 {
			start = ends[k-1]
		}
		for bit := 0; bit < 32; bit++ {
			f := append([]byte{}, orig...)
			f[start+4+bit/8] ^= 1 << (bit % 8)
			desc := fmt.Sprintf("bigfile-sizeflip seed=%d len=%d chunk=%d sizebit=%d", seed, len(orig), k, bit)
			got, err, p := readAllNoPanic(f)
			line := anchor
			if p == nil && k == 0 && bit == 20 { // one of them also goes through the model
				run := runStore(f, []sop{{kind: "readall", magic: magicA}})
				line = o.Case(desc, run.term(f), true, "store/bigfile-sizeflip")
			}
			if p != nil {
				o.Fail("damaged_size_field_never_panics_or_misreads", line, desc+fmt.Sprintf(" panic=%v", p))
				continue
			}
			if err == nil || len(got) != k || !isPrefix(got, origChunks) {
				o.Fail("damaged_size_field_never_panics_or_misreads", line, desc+fmt.Sprintf(" err=%v chunks=%d", err, len(got)))
			}
		}
	}
}

// ---------- F-C21b: GetValue between the two lock phases of AddValues ----------

// raceWitness forces the schedule "AddValues collects its eviction candidates under RLock; GetValue refreshes the
// accessTS of one candidate while AddValues holds no lock on mu (it is sorting); AddValues removes the candidate with
// the accessTS it remembered".  The helper goroutine finds the window by probing the two mutexes.
func raceWitness(o *vu.Out, failRace bool) {
	const n = 20000
	size := pcache.VerifElementSizeMem("k00000")
	outcome := "not-reproduced"
	detail := ""
	for trial := 0; trial < 30 && outcome != "reproduced"; trial++ {
		var fp []byte
		c, _ := pcache.LoadMappingsCacheSlice(&fp, int64(n)*size)
		victim := "k00000"
		c.AddValues(50, []pcache.MappingPair{{Str: victim, Value: 7}})
		var pairs []pcache.MappingPair
		for i := 1; i < n; i++ {
			pairs = append(pairs, pcache.MappingPair{Str: fmt.Sprintf("k%05d", i), Value: int32(i + 10)})
		}
		c.AddValues(100, pairs)
		var fresh []pcache.MappingPair
		for i := 0; i < n*3/4; i++ {
			fresh = append(fresh, pcache.MappingPair{Str: fmt.Sprintf("n%05d", i), Value: int32(i + 10)})
		}
		var wg sync.WaitGroup
		wg.Add(1)
		go func() {
			defer wg.Done()
			spin := func(cond func() bool) bool {
				for i := 0; i < 50000000; i++ {
					if cond() {
						return true
					}
					if i%64 == 63 {
						runtime.Gosched()
					}
				}
				return false
			}
			if !spin(c.VerifModifyLocked) { // AddValues has started
				return
			}
			if !spin(func() bool { return !c.VerifMuFree() }) { // it reads the map under RLock
				return
			}
			if !spin(c.VerifMuFree) { // RUnlock done: it sorts the candidates, mu is free
				return
			}
			c.GetValue(90, victim)
		}()
		runtime.Gosched()
		c.AddValues(200, fresh)
		wg.Wait()
		d, ss, st := c.VerifDump()
		es, et := exactSums(d)
		if st != et || ss != es {
			outcome = "reproduced"
			detail = fmt.Sprintf("race trial=%d entries=%d sumTS=%d exact=%d sumSize=%d exact=%d", trial, len(d), st, et, ss, es)
		}
	}
	o.Finding("F-C21b", outcome)
	if outcome == "reproduced" && failRace {
		line := o.Case(detail, "CItem [] 1 1 [0;0;0;0;1;0;0;0;1;0;0;0]", true, "race")
		o.Fail("accounting_exact_concurrent", line, detail)
	}
}

// the recorded finding F-C21: one string twice in one AddValues batch
func findingWitness(o *vu.Out) {
	var fp []byte
	c, _ := pcache.LoadMappingsCacheSlice(&fp, 1000)
	c.AddValues(10, []pcache.MappingPair{{Str: "a", Value: 1}, {Str: "a", Value: 2}})
	d, ss, st := c.VerifDump()
	es, et := exactSums(d)
	if len(d) == 1 && (ss != es || st != et) {
		o.Finding("F-C21", "reproduced")
	} else {
		o.Finding("F-C21", "gone")
	}
}

func main() {
	seed := flag.Uint64("seed", 1, "")
	n := flag.Int("n", 3000, "")
	out := flag.String("out", "", "")
	failRace := flag.Bool("failrace", false, "report the reproduced AddValues/GetValue race (F-C21b) as an oracle failure")
	flag.Parse()
	r := vu.NewRng(*seed)
	o := vu.NewOut(*out)
	defer o.Close()
	findingWitness(o)
	raceWitness(o, *failRace)
	// the few large cases are spread over the case stream so that they land in different correspondence shards
	bigStoreCase(o, r, 0, *seed)
	storageCases(o, r, *n, *seed)
	bigStoreCase(o, r, 1, *seed)
	for i := 0; i < *n/6+1; i++ {
		cacheHistory(o, *seed, i, false)
		if i == *n/12 {
			for j := 0; j < *n/3000+1; j++ {
				cacheHistory(o, *seed, 1000000+j, true)
			}
		}
	}
	for i := 2; i < *n/3000+2; i++ {
		bigStoreCase(o, r, i, *seed)
	}
	loadCases(o, r, *n/10+1, *seed)
	bigSizeFieldCases(o, r, *seed)
}
