//go:build verif

// Correspondence harness for C11 (tag value normalisation, raw tag parsing): drives the real
// format.ValidStringValueBytes / AppendValidStringValue / ForceValidStringValueBytes / ForceValidStringValue /
// ContainsRawTagValueBytes / ContainsRawTagValue64Bytes (and utf8.DecodeRune/AppendRune, unicode.IsSpace/IsPrint, which
// the model reproduces) and prints cases for TagValue/Corr.v. Property oracles are evaluated here on the Go results.
package main

import (
	"bytes"
	"encoding/hex"
	"flag"
	"fmt"
	"math/big"
	"strings"
	"unicode"
	"unicode/utf8"

	"github.com/VKCOM/statshouse/internal/format"
	vu "github.com/VKCOM/statshouse/internal/verifutil"
)

// ---- executable statement of "valid value", independent of the implementation and of the model
func specValid(b []byte) bool {
	if len(b) > 128 || !utf8.Valid(b) {
		return false
	}
	rs := []rune(string(b))
	for i, r := range rs {
		if r == ' ' {
			if i == 0 || i == len(rs)-1 || rs[i-1] == ' ' {
				return false
			}
			continue
		}
		if unicode.IsSpace(r) || !unicode.IsPrint(r) {
			return false
		}
	}
	return true
}

var (
	r   *vu.Rng
	o   *vu.Out
	pfx = []byte("PFX")
)

// Coq.Strings.Byte constructors
func bl(b []byte) string {
	var sb strings.Builder
	sb.WriteString("[")
	for i, c := range b {
		if i > 0 {
			sb.WriteString(";")
		}
		fmt.Fprintf(&sb, "x%02x", c)
	}
	sb.WriteString("]")
	return sb.String()
}

// run-length encoded byte string (TagValue/Corr.v: list seg)
func segs(b []byte) string {
	var parts []string
	lit := 0
	flush := func(to int) {
		if to > lit {
			parts = append(parts, "L "+bl(b[lit:to]))
		}
	}
	for i := 0; i < len(b); {
		j := i
		for j < len(b) && b[j] == b[i] {
			j++
		}
		if j-i >= 4 {
			flush(i)
			parts = append(parts, fmt.Sprintf("R %d x%02x", j-i, b[i]))
			lit = j
		}
		i = j
	}
	flush(len(b))
	return "[" + strings.Join(parts, ";") + "]"
}

// an observed output relative to its reference value
func outv(b, ref []byte) string {
	if bytes.Equal(b, ref) {
		return "Same"
	}
	return "(Other " + segs(b) + ")"
}

func strCase(s []byte, kind string) {
	in := append([]byte(nil), s...)
	valid := format.ValidStringValueBytes(append([]byte(nil), s...))
	validS := format.ValidStringValue(string(s))
	strict, err := format.AppendValidStringValue(append([]byte(nil), pfx...), append([]byte(nil), s...))
	fbytes := format.ForceValidStringValueBytes(append([]byte(nil), s...))
	fstr := []byte(format.ForceValidStringValue(string(s)))
	input := "str hex=" + hex.EncodeToString(in)
	prefixOK := bytes.HasPrefix(strict, pfx)
	var strictOut []byte
	if prefixOK {
		strictOut = strict[len(pfx):]
	}
	strictTerm := "None"
	if err == nil {
		strictTerm = "(Some " + outv(strictOut, fbytes) + ")"
		if !prefixOK {
			strictTerm = "(Some (Other [L [x00;x00;x00;x00]]))" // never equal to a model output ending the same way: flagged by the oracle below
		}
	}
	term := fmt.Sprintf("CStr %s %s %s %s %s", segs(in), vu.B(valid), strictTerm, outv(fbytes, in), outv(fstr, fbytes))
	nontrivial := !bytes.Equal(fbytes, in) || !isASCII(in)
	kinds := []string{"str/" + kind}
	if !bytes.Equal(fbytes, in) {
		kinds = append(kinds, "str:changed")
	}
	if len(in) > 128 {
		kinds = append(kinds, "str:long")
	}
	if err != nil {
		kinds = append(kinds, "str:strict-error")
	}
	if valid {
		kinds = append(kinds, "str:valid")
	}
	line := o.Case(input, term, nontrivial, kinds...)
	// oracles
	sv := specValid(in)
	if valid != sv || validS != sv {
		o.Fail("valid_iff_spec", line, input)
	}
	if !specValid(fbytes) || !specValid(fstr) {
		o.Fail("force_valid", line, input)
	}
	if sv && (!bytes.Equal(fbytes, in) || !bytes.Equal(fstr, in)) {
		o.Fail("force_id_on_valid", line, input)
	}
	if !bytes.Equal(fbytes, fstr) {
		o.Fail("force_bytes_eq_force_string", line, input)
	}
	f2 := format.ForceValidStringValueBytes(append([]byte(nil), fbytes...))
	f2s := format.ForceValidStringValue(string(fstr))
	if !bytes.Equal(f2, fbytes) || f2s != string(fstr) {
		o.Fail("force_idempotent", line, input)
	}
	if err != nil && utf8.Valid(in) {
		o.Fail("strict_fails_only_on_bad_utf8", line, input)
	}
	if err == nil && (!prefixOK || !bytes.Equal(strictOut, fbytes)) {
		o.Fail("strict_agrees_with_force", line, input)
	}
	if err != nil && !bytes.Equal(strict, pfx) {
		o.Fail("strict_error_keeps_dst", line, input)
	}
}

func isASCII(b []byte) bool {
	for _, c := range b {
		if c >= 0x80 {
			return false
		}
	}
	return true
}

// ---- generators for strings
var uniSpaces = []rune{'\t', '\n', '\v', '\f', '\r', ' ', 0x85, 0xA0, 0x1680, 0x2000, 0x2003, 0x200A, 0x2028, 0x2029, 0x202F, 0x205F, 0x3000}
var nonPrint = []rune{0, 1, 0x1f, 0x7f, 0x80, 0x9f, 0xAD, 0x200B, 0x200E, 0xFEFF, 0xE000, 0xF8FF, 0x378, 0xFFFE, 0xFFFF, 0x10FFFF, 0xE0001, 0xF0000, 0x180E}
var printable = []rune{'a', 'z', 'A', '0', '_', '-', '.', '~', '!', 0xA1, 0xE9, 0x416, 0x44F, 0x7FF, 0x800, 0x4E2D, 0xD7FF, 0xE9, 0xFFFD, 0x10000, 0x1F600, 0x1D11E, 0x2FA1D, 0xFFE6, 0xFB01}
var badSeqs = [][]byte{{0xff}, {0x80}, {0xbf}, {0xc0, 0x80}, {0xc1, 0xbf}, {0xc2}, {0xe0, 0x80, 0x80}, {0xe0, 0x9f, 0xbf}, {0xed, 0xa0, 0x80}, {0xed, 0xbf, 0xbf},
	{0xe2, 0x82}, {0xf0, 0x8f, 0xbf, 0xbf}, {0xf0, 0x9f, 0x98}, {0xf4, 0x90, 0x80, 0x80}, {0xf5, 0x80, 0x80, 0x80}, {0xf8}, {0xe4, 0xb8}, {0xc3, 0x28}, {0xfe, 0xff}}

func word() []byte {
	var b []byte
	n := 1 + r.Intn(8)
	for i := 0; i < n; i++ {
		if r.Chance(80) {
			b = append(b, byte(0x21+r.Intn(0x7e-0x21+1)))
		} else {
			b = utf8.AppendRune(b, printable[r.Intn(len(printable))])
		}
	}
	return b
}

func structured(target int) []byte {
	var b []byte
	dirty := r.Intn(4) // 0: valid, else: that many kinds of dirt
	for len(b) < target {
		if len(b) > 0 {
			b = append(b, ' ')
		}
		b = append(b, word()...)
		if dirty > 0 && r.Chance(35) {
			switch r.Intn(6) {
			case 0: // whitespace run
				for k := 0; k < 1+r.Intn(4); k++ {
					b = utf8.AppendRune(b, uniSpaces[r.Intn(len(uniSpaces))])
				}
			case 1:
				b = utf8.AppendRune(b, nonPrint[r.Intn(len(nonPrint))])
			case 2:
				if dirty > 1 {
					b = append(b, badSeqs[r.Intn(len(badSeqs))]...)
				}
			case 3:
				b = append(b, ' ', ' ')
			case 4:
				b = utf8.AppendRune(b, rune(r.Intn(0x110000)))
			case 5:
				b = append(b, byte(r.Intn(256)))
			}
		}
	}
	if dirty > 0 && r.Chance(40) {
		b = append(utf8.AppendRune(nil, uniSpaces[r.Intn(len(uniSpaces))]), b...)
	}
	if dirty > 0 && r.Chance(40) {
		b = utf8.AppendRune(b, uniSpaces[r.Intn(len(uniSpaces))])
	}
	return b
}

func clip(b []byte, n int) []byte {
	if len(b) > n {
		return b[:n]
	}
	return b
}

func randomBytes(n int) []byte {
	b := make([]byte, n)
	for i := range b {
		switch r.Intn(4) {
		case 0:
			b[i] = byte(r.Intn(256))
		case 1:
			b[i] = byte(0x20 + r.Intn(0x60))
		case 2:
			b[i] = []byte{0x20, 0x09, 0x0a, 0xc2, 0xa0, 0x85, 0xe2, 0x80, 0x83, 0xef, 0xbf, 0xbd, 0xf0, 0x9f, 0x98, 0x80, 0xed, 0xa0, 0x7f, 0x00}[r.Intn(20)]
		default:
			b[i] = byte(0x61 + r.Intn(26))
		}
	}
	return b
}

// strings whose interesting rune sits exactly at the 128-byte boundary
func boundaryStrings(full bool) {
	fill := func(n int) []byte { return bytes.Repeat([]byte{'x'}, n) }
	tails := [][]byte{nil, {'y'}, {' '}, {' ', 'y'}, {' ', ' ', 'y'}, {'\t'}, {0xc2, 0xa0}, {0xc2, 0xa0, 'y'}, {0xd0, 0x96}, {0xe4, 0xb8, 0xad}, {0xf0, 0x9f, 0x98, 0x80},
		{0xff}, {0xff, 'y'}, {0x01}, {0xe2, 0x80, 0x8b}, {0xef, 0xbf, 0xbd}, {0xe4, 0xb8}, {0xf0, 0x9f, 0x98}, {0xd0, 0x96, ' '}, {' ', 0xd0, 0x96}, {'y', ' ', 0xff, 0xff}, {' ', 0xff}, {0xe4, 0xb8, 0xad, ' ', 'z'}}
	n0 := 123
	if full {
		n0 = 110
	}
	for n := n0; n <= 132; n++ {
		for _, t := range tails {
			strCase(append(fill(n), t...), "boundary")
			if n >= 124 {
				strCase(append(append(fill(n), t...), t...), "boundary")
				strCase(append(append([]byte{' '}, fill(n-1)...), t...), "boundary")
			}
		}
	}
	// expansion: invalid bytes / non-printables grow 1 -> 3 bytes; whitespace runs shrink
	for n := 40; n <= 46; n++ {
		strCase(bytes.Repeat([]byte{0xff}, n), "boundary")
		strCase(append(bytes.Repeat([]byte{0x01}, n), 'a', 'b', 'c'), "boundary")
		strCase(append([]byte{'a'}, bytes.Repeat([]byte{0xff}, n)...), "boundary")
		strCase(append([]byte{'a', 'b'}, bytes.Repeat([]byte{0xff}, n)...), "boundary")
	}
	for n := 60; n <= 70; n++ {
		strCase(bytes.Repeat([]byte{'a', ' '}, n), "boundary")
		strCase(bytes.Repeat([]byte{'a', ' ', ' '}, n/2+14), "boundary")
		strCase(append(bytes.Repeat([]byte{' '}, n*2), 'a'), "boundary")
		strCase(append(bytes.Repeat([]byte{'\n', 0xc2, 0xa0}, n), 'a', 'b'), "boundary")
	}
	strCase(bytes.Repeat([]byte{' '}, 140), "boundary")
	strCase(bytes.Repeat([]byte{' '}, 128), "boundary")
	strCase(bytes.Repeat([]byte{'\t'}, 7), "boundary")
	strCase(nil, "boundary")
}

var edgeBytes = []byte{0, 9, 10, 13, 14, 31, 32, 33, 65, 126, 127, 128, 133, 143, 144, 159, 160, 161, 173, 189, 191, 192, 193, 194, 195, 223, 224, 225, 236, 237, 238, 239, 240, 241, 243, 244, 245, 247, 248, 254, 255}

// ---- raw tags
var (
	big0 = big.NewInt(0)
)

func bigPow2(k uint) *big.Int { return new(big.Int).Lsh(big.NewInt(1), k) }

func rawCase(s []byte, kind string) {
	x, ok := format.ContainsRawTagValueBytes(append([]byte(nil), s...))
	lo, hi, ok64 := format.ContainsRawTagValue64Bytes(append([]byte(nil), s...))
	input := fmt.Sprintf("raw %q", string(s))
	term := fmt.Sprintf("CRaw %s %s %s %s %s %s", bl(s), vu.Z(int64(x)), vu.B(ok), vu.Z(int64(lo)), vu.Z(int64(hi)), vu.B(ok64))
	// independent reading of the numeral
	str := string(s)
	sign := ""
	digits := str
	if len(str) > 0 && (str[0] == '+' || str[0] == '-') {
		sign, digits = str[:1], str[1:]
	}
	isNum := len(digits) > 0 && strings.Trim(digits, "0123456789") == ""
	v := new(big.Int)
	if isNum {
		v.SetString(digits, 10)
		if sign == "-" {
			v.Neg(v)
		}
	}
	in := func(lo, hi *big.Int) bool { return v.Cmp(lo) >= 0 && v.Cmp(hi) <= 0 }
	want32 := isNum && in(new(big.Int).Neg(bigPow2(31)), new(big.Int).Sub(bigPow2(32), big.NewInt(1)))
	want64 := isNum && sign != "+" && in(new(big.Int).Neg(bigPow2(63)), new(big.Int).Sub(bigPow2(64), big.NewInt(1)))
	near := false
	if isNum {
		for _, e := range []*big.Int{new(big.Int).Neg(bigPow2(63)), new(big.Int).Neg(bigPow2(31)), big0, bigPow2(31), bigPow2(32), bigPow2(63), bigPow2(64)} {
			d := new(big.Int).Sub(v, e)
			if d.CmpAbs(big.NewInt(2)) <= 0 {
				near = true
			}
		}
	}
	kinds := []string{"raw/" + kind}
	if ok {
		kinds = append(kinds, "raw:ok32")
	}
	if ok64 {
		kinds = append(kinds, "raw:ok64")
	}
	if near {
		kinds = append(kinds, "raw:near-edge")
	}
	line := o.Case(input, term, near || (isNum && (sign != "" || (len(digits) > 1 && digits[0] == '0'))), kinds...)
	if ok != want32 {
		o.Fail("raw32_accepts_iff", line, input)
	}
	if ok64 != want64 {
		o.Fail("raw64_accepts_iff", line, input)
	}
	if ok && want32 {
		var back *big.Int
		if v.Sign() < 0 {
			back = big.NewInt(int64(x))
		} else {
			back = new(big.Int).SetUint64(uint64(uint32(x)))
		}
		if back.Cmp(v) != 0 {
			o.Fail("raw32_bits_roundtrip", line, input)
		}
	}
	if ok64 && want64 {
		bits := uint64(uint32(lo)) | uint64(uint32(hi))<<32
		var back *big.Int
		if v.Sign() < 0 {
			back = big.NewInt(int64(bits))
		} else {
			back = new(big.Int).SetUint64(bits)
		}
		if back.Cmp(v) != 0 {
			o.Fail("raw64_bits_roundtrip", line, input)
		}
	}
}

func rawEdges(full bool) {
	var edges []*big.Int
	ks := []uint{0, 31, 32, 63, 64}
	tens := []int{9, 10, 18, 19, 20}
	zeroPads := []string{"", "0", strings.Repeat("0", 25)}
	if full {
		ks = []uint{0, 7, 8, 15, 16, 31, 32, 33, 53, 62, 63, 64, 65}
		tens = nil
		for k := 1; k <= 22; k++ {
			tens = append(tens, k)
		}
		zeroPads = []string{"", "0", "00", strings.Repeat("0", 19), strings.Repeat("0", 40)}
	}
	for _, k := range ks {
		p := bigPow2(k)
		if k == 0 {
			p = big.NewInt(0)
		}
		edges = append(edges, p, new(big.Int).Neg(p))
	}
	// the strconv cutoff (2^64-1)/10+1 and 10^k
	c := new(big.Int).Div(new(big.Int).Sub(bigPow2(64), big.NewInt(1)), big.NewInt(10))
	edges = append(edges, c, new(big.Int).Mul(c, big.NewInt(10)), new(big.Int).Neg(c))
	for _, k := range tens {
		p := new(big.Int).Exp(big.NewInt(10), big.NewInt(int64(k)), nil)
		edges = append(edges, p, new(big.Int).Neg(p))
	}
	for _, e := range edges {
		for d := int64(-2); d <= 2; d++ {
			v := new(big.Int).Add(e, big.NewInt(d))
			abs := new(big.Int).Abs(v).String()
			for _, zeros := range zeroPads {
				for _, sg := range []string{"", "+", "-", "--", "+-", "-+", " "} {
					if zeros != "" && len(sg) > 1 && d != 0 {
						continue
					}
					rawCase([]byte(sg+zeros+abs), "edge")
				}
			}
		}
	}
}

func rawMalformed(full bool) {
	for _, s := range []string{"", "-", "+", " ", "0", "-0", "+0", "00", "-00", " 5", "5 ", "5\n", "0x10", "0X1F", "1_000", "1e3", "1.0", "1,0", "５", "١٢", "12a", "a12", "1a2", "0b1", "0o7",
		"99999999999999999999999x", "-99999999999999999999999x", "x99999999999999999999999", "18446744073709551616_", "1844674407370955161a", "1844674407370955162a", "18446744073709551615a",
		"-9223372036854775808a", "- 1", "+ 1", "1-", "1+", "1-1", "\x001", "1\x00", "/", ":", "0/", "0:", "9:", "\xff", "12\xc2\xa0", "-\t1", "++1", "+", "0000000000000000000000000000000000000000", "-0000000000000000000000000000000000000000"} {
		rawCase([]byte(s), "malformed")
	}
	for c := 0; c < 256; c++ { // every byte alone, after a digit, before a digit, and as a sign position
		rawCase([]byte{byte(c)}, "byte")
		rawCase([]byte{'7', byte(c)}, "byte")
		if full || c < 0x40 || c >= 0xf0 {
			rawCase([]byte{byte(c), '7'}, "byte")
			rawCase([]byte{'-', byte(c)}, "byte")
		}
	}
}

func rawRandom() {
	n := 1 + r.Intn(24)
	b := make([]byte, 0, n+2)
	switch r.Intn(6) {
	case 0:
		b = append(b, '-')
	case 1:
		b = append(b, '+')
	}
	for z := r.Intn(3); z > 0 && r.Chance(30); z-- {
		b = append(b, '0')
	}
	for i := 0; i < n; i++ {
		b = append(b, byte('0'+r.Intn(10)))
	}
	if r.Chance(8) {
		b[r.Intn(len(b))] = []byte{' ', 'a', '_', '-', '+', '.', '/', ':', 0xff}[r.Intn(9)]
	}
	rawCase(b, "random")
}

// ---- library functions the model reproduces
func runeCase(x rune, kind string) {
	enc := utf8.AppendRune(nil, x)
	o.Case(fmt.Sprintf("rune %d", x), fmt.Sprintf("CRune %s %s %s %s", vu.Z(int64(x)), vu.B(unicode.IsSpace(x)), vu.B(unicode.IsPrint(x)), bl(enc)),
		x >= 0x80, "rune/"+kind)
}

func decCase(p []byte, kind string) {
	x, n := utf8.DecodeRune(p)
	line := o.Case("dec hex="+hex.EncodeToString(p), fmt.Sprintf("CDec %s %d %d", bl(p), x, n), n > 1, "dec/"+kind)
	// the decoder and the encoder of the runtime are inverse on what the decoder accepts
	if !(x == utf8.RuneError && n <= 1) && !bytes.Equal(utf8.AppendRune(nil, x), p[:n]) {
		o.Fail("utf8_decode_encode", line, "dec hex="+hex.EncodeToString(p))
	}
}

func main() {
	seed := flag.Uint64("seed", 1, "")
	n := flag.Int("n", 3000, "")
	all2 := flag.Bool("all2", false, "every 2-byte string (65536 cases) instead of the edge-byte square")
	full := flag.Bool("full", false, "wide fixed sweeps (thorough tier)")
	out := flag.String("out", "", "")
	flag.Parse()
	r = vu.NewRng(*seed)
	o = vu.NewOut(*out)
	defer o.Close()

	// 1. fixed sweeps
	for c := 0; c < 256; c++ {
		strCase([]byte{byte(c)}, "1byte")
	}
	if *all2 {
		for a := 0; a < 256; a++ {
			for b := 0; b < 256; b++ {
				strCase([]byte{byte(a), byte(b)}, "2byte")
			}
		}
	} else {
		for _, a := range edgeBytes {
			for _, b := range edgeBytes {
				strCase([]byte{a, b}, "2byte")
			}
		}
	}
	boundaryStrings(*full)
	rawEdges(*full)
	rawMalformed(*full)
	// unicode tables: every boundary of IsSpace / IsPrint, both sides
	prevS, prevP := false, false
	for x := rune(0); x <= utf8.MaxRune+1; x++ {
		s, p := unicode.IsSpace(x), unicode.IsPrint(x)
		if s != prevS || p != prevP {
			runeCase(x-1, "table-edge")
			runeCase(x, "table-edge")
		}
		prevS, prevP = s, p
	}
	for _, x := range []rune{-1, -65533, 0, 0x7f, 0x80, 0x7ff, 0x800, 0xd7ff, 0xd800, 0xdbff, 0xdfff, 0xe000, 0xfffd, 0xffff, 0x10000, 0x10ffff, 0x110000, 0x7fffffff, -0x80000000} {
		runeCase(x, "encode-edge")
	}
	// decoder: every lead byte with edge continuation bytes
	for a := 0; a < 256; a++ {
		decCase([]byte{byte(a)}, "lead")
		for bi, b := range []byte{0x00, 0x7f, 0x80, 0x8f, 0x90, 0x9f, 0xa0, 0xbf, 0xc0, 0xff} {
			if !*full && a < 0xc0 && bi%3 != a%3 {
				continue
			}
			decCase([]byte{byte(a), b}, "lead2")
			if a >= 0xe0 {
				cs := []byte{0x7f, 0x80, 0xbf, 0xc0}
				if !*full {
					cs = []byte{[]byte{0x7f, 0x80, 0xbf, 0xc0}[(a+int(b))%4], 0x80}
				}
				for _, c := range cs {
					decCase([]byte{byte(a), b, c}, "lead3")
					if a >= 0xf0 {
						decCase([]byte{byte(a), b, c, 0x80}, "lead4")
						decCase([]byte{byte(a), b, c, 0xbf, 'x'}, "lead4")
						decCase([]byte{byte(a), b, 0x80, c}, "lead4")
					}
				}
			}
		}
	}
	decCase(nil, "empty")

	// 2. seeded streams
	for i := 0; i < *n; i++ {
		switch i % 10 {
		case 0, 1, 2, 3:
			t := r.Intn(60)
			if r.Chance(8) {
				t = 100 + r.Intn(40)
			}
			strCase(clip(structured(t), 140), "structured")
		case 4, 5:
			l := r.Intn(24)
			if r.Chance(8) {
				l = 110 + r.Intn(30)
			}
			strCase(randomBytes(l), "random")
		case 6:
			runeCase(rune(r.Intn(0x110000)), "random")
			p := randomBytes(1 + r.Intn(5))
			decCase(p, "random")
			decCase(utf8.AppendRune(nil, rune(r.Intn(0x110000))), "random")
		default:
			rawRandom()
		}
	}
}
