//go:build verif

// Correspondence harness for C10 (routing): drives the real sharding.Shard, Agent.shard,
// MetricMetaValue.Shard/Sharded and getShardReplicaForSecond and prints cases for Routing/Corr.v.
package main

import (
	"flag"
	"fmt"
	"math"

	"github.com/VKCOM/statshouse/internal/agent"
	"github.com/VKCOM/statshouse/internal/data_model"
	"github.com/VKCOM/statshouse/internal/format"
	"github.com/VKCOM/statshouse/internal/sharding"
	vu "github.com/VKCOM/statshouse/internal/verifutil"
)

func stratName(s string) string {
	switch s {
	case format.ShardFixed:
		return "SFixed"
	case format.ShardByMetricID:
		return "SByMetricID"
	case format.ShardByTagsHash:
		return "SByTagsHash"
	default:
		return "SOther"
	}
}

func metaTerm(m *format.MetricMetaValue) string {
	return fmt.Sprintf("{| m_metric_id := %s; m_fixed_key := %d; m_fixed_key2 := %d; m_strategy := %s; m_shard_num := %d |}",
		vu.Z(int64(m.MetricID)), m.ShardFixedKey, m.ShardFixedKey2, stratName(m.ShardStrategy), m.ShardNum)
}

func boundaryU32(r *vu.Rng, around ...uint32) uint32 {
	switch r.Intn(6) {
	case 0:
		return r.U32()
	case 1:
		return uint32(r.Intn(40))
	case 2:
		return math.MaxUint32 - uint32(r.Intn(4))
	default:
		if len(around) == 0 {
			return uint32(r.Intn(20))
		}
		a := around[r.Intn(len(around))]
		return a + uint32(r.Intn(5)) - 2
	}
}

func main() {
	seed := flag.Uint64("seed", 1, "")
	n := flag.Int("n", 4000, "")
	out := flag.String("out", "", "")
	flag.Parse()
	r := vu.NewRng(*seed)
	o := vu.NewOut(*out)
	defer o.Close()

	strategies := []string{format.ShardFixed, format.ShardByMetricID, format.ShardByTagsHash, format.ShardBuiltinDist, "unknown_strategy"}
	for i := 0; i < *n; i++ {
		switch {
		case i%4 != 3: // shard selection
			ns := 1 + r.Intn(16)
			cnt := uint32(ns)
			if r.Chance(30) { // by-metric count differs from number of shards
				cnt = uint32(1 + r.Intn(24))
			}
			if r.Chance(3) {
				cnt = math.MaxUint32 - uint32(r.Intn(3))
			}
			m := &format.MetricMetaValue{}
			switch r.Intn(5) {
			case 0:
				m.MetricID = int32(r.U32())
			case 1:
				m.MetricID = -int32(r.Intn(2000))
			case 2:
				m.MetricID = int32(r.Pick(math.MaxInt32, math.MinInt32, math.MaxInt32-1, math.MinInt32+1, 0, -1, 1))
			default:
				m.MetricID = int32(r.Intn(100000))
			}
			m.ShardStrategy = strategies[r.Intn(len(strategies))]
			if r.Chance(30) {
				m.ShardFixedKey = boundaryU32(r, uint32(ns), uint32(ns)+1)
			}
			if r.Chance(40) {
				m.ShardFixedKey2 = boundaryU32(r, uint32(ns), uint32(ns)+1, m.ShardFixedKey, m.ShardNum+1)
			}
			m.ShardNum = boundaryU32(r, uint32(ns))
			if r.Chance(50) {
				m.ShardNum = uint32(r.Intn(ns + 1))
			}
			key := data_model.Key{Metric: m.MetricID, Timestamp: r.U32()}
			if r.Chance(5) { // key of another metric: agent uses key.Metric, not meta.MetricID
				key.Metric = int32(r.U32())
			}
			for t := 0; t < r.Intn(6); t++ {
				key.Tags[r.Intn(len(key.Tags))] = int32(r.U32())
			}
			if r.Chance(30) {
				key.STags[r.Intn(len(key.STags))] = fmt.Sprintf("s%d", r.Intn(1000))
			}
			v := agent.NewVerifRouting(ns, cnt)
			_, kh := key.XXHash(nil)
			raw, rawok := sharding.Shard(&key, m, cnt, nil)
			n1, ok, n2 := v.Shard(&key, m)
			// same key at other timestamps: routing must not depend on it
			nT2 := n1
			t1 := key.Timestamp
			for _, t2 := range []uint32{t1 + 1, t1 ^ 0x80000000, t1 ^ 0x01000000, r.U32(), 0} {
				k2 := key
				k2.Timestamp = t2
				x, okx, _ := v.Shard(&k2, m)
				if x != n1 || okx != ok {
					nT2 = x
					if okx != ok {
						nT2 = -1
					}
				}
			}
			tagsTxt := ""
			for ti, tv := range key.Tags {
				if tv != 0 {
					tagsTxt += fmt.Sprintf(" t%d=%d", ti, tv)
				}
			}
			for ti, tv := range key.STags {
				if tv != "" {
					tagsTxt += fmt.Sprintf(" s%d=%s", ti, tv)
				}
			}
			input := fmt.Sprintf("shard metric=%d keymetric=%d fk=%d fk2=%d strat=%q num=%d cnt=%d ns=%d ts=%d%s",
				m.MetricID, key.Metric, m.ShardFixedKey, m.ShardFixedKey2, m.ShardStrategy, m.ShardNum, cnt, ns, t1, tagsTxt)
			term := fmt.Sprintf("CShard %s %d %s %d %d %d %s %d %s %s %s", vu.Z(int64(key.Metric)), kh, metaTerm(m), cnt, ns,
				raw, vu.B(rawok), n1, vu.B(ok), vu.OptZ(n2 >= 0, int64(n2)), vu.Z(int64(nT2)))
			line := o.Case(input, term, ok || n2 >= 0, "shard/"+stratName(m.ShardStrategy))
			// property oracles on the implementation itself
			if n1 < 0 || n1 >= ns {
				o.Fail("shard_in_range", line, input)
			}
			if n2 >= ns || (n2 >= 0 && n2 == n1) {
				o.Fail("secondary_differs", line, input)
			}
			if nT2 != n1 {
				o.Fail("shard_time_independent", line, input)
			}
			// API side: same shard count configured
			sharded := m.Sharded()
			apiShard := m.Shard(int(cnt))
			term2 := fmt.Sprintf("CApi %s %d %s %s", metaTerm(m), cnt, vu.B(sharded), vu.Z(int64(apiShard)))
			line2 := o.Case("api "+input, term2, sharded, "api")
			if sharded && ok && key.Metric == m.MetricID && apiShard != n1 {
				o.Fail("agent_api_agree", line2, input)
			}
		default: // replica selection
			ns := 1 + r.Intn(4)
			v := agent.NewVerifRouting(ns, uint32(ns))
			sh := r.Intn(ns)
			alive := [3]bool{r.Chance(60), r.Chance(60), r.Chance(60)}
			v.SetAlive(sh, alive)
			ts := boundaryU32(r, 1700000000)
			rep, spare := v.ReplicaForSecond(sh, ts)
			obs := "None"
			if rep >= 0 {
				obs = fmt.Sprintf("(Some (%d, %s))", rep, vu.B(spare))
			}
			input := fmt.Sprintf("replica ts=%d alive=%v shard=%d/%d", ts, alive, sh, ns)
			line := o.Case(input, fmt.Sprintf("CReplica %d %s %s %s %s", ts, vu.B(alive[0]), vu.B(alive[1]), vu.B(alive[2]), obs),
				!alive[ts%3], "replica")
			if rep >= 0 {
				if !alive[rep] {
					o.Fail("replica_alive", line, input)
				}
				if !spare && rep != int(ts%3) {
					o.Fail("primary_is_ts_mod_3", line, input)
				}
				if spare && rep == int(ts%3) {
					o.Fail("spare_differs_from_primary", line, input)
				}
			}
			// "the two remaining replicas share spare traffic": with the primary dead and both others alive,
			// the two seconds of a six-second period that share this primary go to different spares
			if p := int(ts % 3); !alive[p] && alive[(p+1)%3] && alive[(p+2)%3] && ts < math.MaxUint32-8 {
				r2, sp2 := v.ReplicaForSecond(sh, ts+3)
				if !spare || !sp2 || r2 == rep {
					o.Fail("spares_share_traffic", line, input)
				}
			}
		}
	}
}
