//go:build verif

// Translator for C10: reads internal/aggregator/aggregator_handlers.go from the current tree, finds in
// handleSendSourceBucket the loop that rounds a bucket time up to this replica's second and the
// historic/recent filing decision, and emits them as Gallina definitions (Gen/Filing.v).
// The handler cannot be called in isolation (it is one 600-line function), so this source-to-model
// translation is what ties that part of the C10 model to the code; Routing/GenTie.v proves the emitted
// definitions equal to the hand-written model, and breaks when the code changes meaning.
package main

import (
	"flag"
	"fmt"
	"go/ast"
	"go/parser"
	"go/printer"
	"go/token"
	"os"
	"strings"
)

var fset = token.NewFileSet()

func src(n ast.Node) string {
	var sb strings.Builder
	_ = printer.Fprint(&sb, fset, n)
	return strings.Join(strings.Fields(sb.String()), " ")
}

type untranslatable struct{ what string }

func fail(format string, a ...any) { panic(untranslatable{fmt.Sprintf(format, a...)}) }

// Go identifiers/selectors of the handler -> model variables
var names = map[string]string{
	"roundedToOurTime": "r", "newestTime": "newest", "oldestTime": "oldest", "historicWindow": "hw",
	"args.Time": "t", "a.replicaKey": "rk", "aggBucket.time": "bt",
}

func isBoolOp(op token.Token) bool {
	switch op {
	case token.LAND, token.LOR, token.LSS, token.GTR, token.LEQ, token.GEQ, token.EQL, token.NEQ:
		return true
	}
	return false
}

// expr translates an integer or boolean expression over the known names; uint32 arithmetic wraps.
func expr(e ast.Expr) string {
	switch x := e.(type) {
	case *ast.ParenExpr:
		return expr(x.X)
	case *ast.Ident:
		if v, ok := names[x.Name]; ok {
			return v
		}
		fail("unknown identifier %s", x.Name)
	case *ast.SelectorExpr:
		if v, ok := names[src(x)]; ok {
			return v
		}
		fail("unknown selector %s", src(x))
	case *ast.BasicLit:
		if x.Kind == token.INT {
			return x.Value
		}
		fail("literal %s", x.Value)
	case *ast.CallExpr:
		if id, ok := x.Fun.(*ast.Ident); ok && id.Name == "uint32" && len(x.Args) == 1 {
			return "(u32 " + expr(x.Args[0]) + ")"
		}
		fail("call %s", src(x))
	case *ast.UnaryExpr:
		if x.Op == token.NOT {
			return "(negb " + expr(x.X) + ")"
		}
		fail("unary %s", src(x))
	case *ast.BinaryExpr:
		a, b := expr(x.X), expr(x.Y)
		switch x.Op {
		case token.ADD:
			return "(u32 (" + a + " + " + b + "))"
		case token.SUB:
			if a == "rk" { // int32 arithmetic on replicaKey: no wrap before the uint32() conversion around it
				return "(" + a + " - " + b + ")"
			}
			return "(u32 (" + a + " - " + b + "))"
		case token.MUL:
			return "(u32 (" + a + " * " + b + "))"
		case token.REM:
			return "(" + a + " mod " + b + ")"
		case token.QUO:
			return "(" + a + " / " + b + ")"
		case token.LSS:
			return "(" + a + " <? " + b + ")"
		case token.GTR:
			return "(" + b + " <? " + a + ")"
		case token.LEQ:
			return "(" + a + " <=? " + b + ")"
		case token.GEQ:
			return "(" + b + " <=? " + a + ")"
		case token.EQL:
			return "(" + a + " =? " + b + ")"
		case token.NEQ:
			return "(negb (" + a + " =? " + b + "))"
		case token.LAND:
			return "(" + a + " && " + b + ")"
		case token.LOR:
			return "(" + a + " || " + b + ")"
		}
		fail("operator %s", x.Op)
	}
	fail("expression %s", src(e))
	return ""
}

// conditions that do not take part in the filing decision (named in the generated file)
var skipped []string

func skippable(cond ast.Expr) bool {
	s := src(cond)
	return s == "aggBucket == nil" || strings.HasPrefix(s, "a.config.SimulateRandomErrors > 0")
}

// decide translates a statement list to a term of type `filing`; "" = no decision in this list.
func decide(stmts []ast.Stmt) string {
	for i, st := range stmts {
		switch s := st.(type) {
		case *ast.ReturnStmt:
			if len(s.Results) != 3 {
				fail("return with %d results", len(s.Results))
			}
			id, ok := s.Results[2].(*ast.Ident)
			if !ok || (id.Name != "true" && id.Name != "false") {
				fail("discard flag is not a literal: %s", src(s))
			}
			if id.Name == "true" {
				return "FDiscard"
			}
			return "FKeep"
		case *ast.AssignStmt:
			if len(s.Lhs) == 1 && src(s.Lhs[0]) == "aggBucket" && s.Tok == token.ASSIGN {
				ix, ok := s.Rhs[0].(*ast.IndexExpr)
				if !ok {
					fail("aggBucket assigned from %s", src(s.Rhs[0]))
				}
				switch src(ix.X) {
				case "a.historicBuckets":
					return "(FHistoric " + expr(ix.Index) + ")"
				case "a.recentBuckets": // recentBuckets[i].time = oldest + i
					return "(FRecent (u32 (oldest + " + expr(ix.Index) + ")))"
				}
				fail("aggBucket assigned from %s", src(s.Rhs[0]))
			}
		case *ast.IfStmt:
			if s.Init != nil {
				fail("if with init: %s", src(s.Cond))
			}
			if skippable(s.Cond) {
				skipped = append(skipped, src(s.Cond))
				continue
			}
			thenD := decide(s.Body.List)
			elseD := ""
			if s.Else != nil {
				switch e := s.Else.(type) {
				case *ast.BlockStmt:
					elseD = decide(e.List)
				case *ast.IfStmt:
					elseD = decide([]ast.Stmt{e})
				}
			}
			if thenD == "" && elseD == "" {
				fail("if %s decides nothing and is not a known non-deciding condition", src(s.Cond))
			}
			if elseD == "" {
				elseD = decide(stmts[i+1:])
			}
			if thenD == "" {
				thenD = decide(stmts[i+1:])
			}
			if thenD == "" || elseD == "" {
				fail("branch of if %s reaches no decision", src(s.Cond))
			}
			return "(if " + expr(s.Cond) + " then " + thenD + " else " + elseD + ")"
		}
	}
	return ""
}

func main() {
	out := flag.String("out", "", "")
	flag.Parse()
	f, err := parser.ParseFile(fset, "internal/aggregator/aggregator_handlers.go", nil, 0)
	if err != nil {
		fmt.Fprintln(os.Stderr, err)
		os.Exit(1)
	}
	defer func() {
		if r := recover(); r != nil {
			if u, ok := r.(untranslatable); ok {
				fmt.Fprintln(os.Stderr, "verif-gen-filing: cannot translate:", u.what)
				os.Exit(2)
			}
			panic(r)
		}
	}()
	var fn *ast.FuncDecl
	for _, d := range f.Decls {
		if fd, ok := d.(*ast.FuncDecl); ok && fd.Name.Name == "handleSendSourceBucket" {
			fn = fd
		}
	}
	if fn == nil {
		fail("handleSendSourceBucket not found")
	}
	var roundInit, roundCond, roundStep, decision string
	var roundSrc, decisionSrc string
	list := fn.Body.List
	for i, st := range list {
		if as, ok := st.(*ast.AssignStmt); ok && as.Tok == token.DEFINE && len(as.Lhs) == 1 && src(as.Lhs[0]) == "roundedToOurTime" {
			roundInit = expr(as.Rhs[0])
			fs, ok := list[i+1].(*ast.ForStmt)
			if !ok || fs.Init != nil || fs.Post != nil || fs.Cond == nil || len(fs.Body.List) != 1 {
				fail("statement after roundedToOurTime := … is not the expected rounding loop")
			}
			roundCond = expr(fs.Cond)
			roundSrc = src(fs)
			switch b := fs.Body.List[0].(type) {
			case *ast.IncDecStmt:
				if src(b.X) != "roundedToOurTime" || b.Tok != token.INC {
					fail("loop body %s", src(b))
				}
				roundStep = "(u32 (r + 1))"
			case *ast.AssignStmt:
				if len(b.Lhs) != 1 || src(b.Lhs[0]) != "roundedToOurTime" {
					fail("loop body %s", src(b))
				}
				switch b.Tok {
				case token.ADD_ASSIGN:
					roundStep = "(u32 (r + " + expr(b.Rhs[0]) + "))"
				case token.ASSIGN:
					roundStep = expr(b.Rhs[0])
				default:
					fail("loop body %s", src(b))
				}
			default:
				fail("loop body %s", src(b))
			}
		}
		if is, ok := st.(*ast.IfStmt); ok && src(is.Cond) == "args.IsSetHistoric()" && roundCond != "" && decision == "" {
			h := decide(is.Body.List)
			eb, ok := is.Else.(*ast.BlockStmt)
			if !ok {
				fail("historic/recent if has no else block")
			}
			rc := decide(eb.List)
			if h == "" || rc == "" {
				fail("historic/recent branches reach no decision")
			}
			decision = "if historic then " + h + "\n  else " + rc
			decisionSrc = fmt.Sprintf("%s:%d", "internal/aggregator/aggregator_handlers.go", fset.Position(is.Pos()).Line)
		}
	}
	if roundCond == "" || decision == "" {
		fail("rounding loop or filing decision not found")
	}
	// goTicker: which ready buckets this replica does NOT insert ("must be empty")
	tickerSkip := ""
	if f2, err := parser.ParseFile(fset, "internal/aggregator/aggregator.go", nil, 0); err == nil {
		ast.Inspect(f2, func(n ast.Node) bool {
			fd, ok := n.(*ast.FuncDecl)
			if !ok || fd.Name.Name != "goTicker" {
				return true
			}
			ast.Inspect(fd, func(m ast.Node) bool {
				if is, ok := m.(*ast.IfStmt); ok && tickerSkip == "" && strings.Contains(src(is.Cond), "aggBucket.time") && len(is.Body.List) > 0 {
					if _, isContinue := is.Body.List[len(is.Body.List)-1].(*ast.BranchStmt); isContinue {
						tickerSkip = expr(is.Cond)
					}
				}
				return true
			})
			return false
		})
	}
	if tickerSkip == "" {
		fail("goTicker's own-second filter not found")
	}
	var sb strings.Builder
	sb.WriteString("(* GENERATED on every run by harness/go/cmd/verif-gen-filing from /repo's internal/aggregator/aggregator_handlers.go — do not edit *)\n")
	sb.WriteString("From Coq Require Import ZArith Bool.\nFrom SH Require Import Common.Wrap Routing.Model.\nOpen Scope Z_scope.\n\n")
	fmt.Fprintf(&sb, "(* source: roundedToOurTime := %s ; %s *)\n", "args.Time", roundSrc)
	fmt.Fprintf(&sb, "Definition gen_round_init (t : Z) : Z := %s.\n", roundInit)
	fmt.Fprintf(&sb, "Definition gen_round_continue (r rk : Z) : bool := %s.\n", roundCond)
	fmt.Fprintf(&sb, "Definition gen_round_step (r : Z) : Z := %s.\n\n", roundStep)
	fmt.Fprintf(&sb, "(* source: the if args.IsSetHistoric() {…} else {…} at %s; conditions not part of the decision: %q *)\n", decisionSrc, skipped)
	fmt.Fprintf(&sb, "Definition gen_file (historic : bool) (t r oldest newest hw : Z) : filing :=\n  %s.\n", decision)
	fmt.Fprintf(&sb, "\n(* source: goTicker, the `if … { …; continue }` on aggBucket.time *)\nDefinition gen_ticker_skip (bt rk : Z) : bool := %s.\n", tickerSkip)
	if err := os.WriteFile(*out, []byte(sb.String()), 0o644); err != nil {
		fmt.Fprintln(os.Stderr, err)
		os.Exit(1)
	}
}
