//go:build verif

// verif-tl: correspondence harness of C14 (TL round trips and bucket frames).
// For every factory item of the generated TL packages it produces byte strings (valid encodings built from
// the schema description with boundary-directed strings/masks/counts, then truncations, byte flips, word
// overwrites and junk), runs the generated ReadTL1/ReadTL1Boxed + WriteTL1 on them and records what
// happened as a Coq case; on accepted inputs it evaluates the property's oracles on the Go side
// (TL1 / JSON / TL2 write->read->equal, string vs bytes variants, tag check). Same for compress/lz4.go.
package main

import (
	"bytes"
	"encoding/binary"
	"encoding/hex"
	"flag"
	"fmt"
	"math"
	"os"
	"regexp"
	"sort"
	"strings"

	"github.com/pierrec/lz4"

	"github.com/VKCOM/statshouse/internal/compress"
	"github.com/VKCOM/statshouse/internal/data_model"
	"github.com/VKCOM/statshouse/internal/veriftl"
	items "github.com/VKCOM/statshouse/internal/veriftlitems"
	vu "github.com/VKCOM/statshouse/internal/verifutil"
	"github.com/VKCOM/statshouse/internal/vkgo/basictl"
)

var jsonSpecial = []byte{'"', '\\', '\n', '\r', '\t', '<', '>', '&', 8, 12, 0, 1, 0x1f, 0x7f}

type gen struct {
	r       *vu.Rng
	noncan  bool // emit one non-canonical string header
	badpad  bool // emit one non-zero padding byte
	longStr bool // allow strings around the 253/254 boundary
	mode    int  // 0 random; 1 rich: all mask bits, non-empty vectors/dictionaries/strings; 2 present but empty; 3 all masks 0, everything empty
	hist    map[string]int
}

func le32(v uint32) []byte { return binary.LittleEndian.AppendUint32(nil, v) }
func le64(v uint64) []byte { return binary.LittleEndian.AppendUint64(nil, v) }

var niceDoubles = []float64{0, 1, -1, 0.5, -2.25, 1024, 1e6, 3.75, math.Inf(1), math.Inf(-1), 1.0 / 1024, 123456789, -0.125}

func (g *gen) rawStr() []byte {
	r := g.r
	var l int
	switch {
	case g.mode == 1:
		l = 3 + r.Intn(10)
	case g.mode >= 2:
		l = 0
	case g.longStr && r.Chance(12):
		l = int(r.Pick(250, 251, 252, 253, 254, 255, 256, 257, 300))
		g.hist["str_boundary"]++
	case r.Chance(25):
		l = 0
	default:
		l = r.Intn(14)
	}
	s := make([]byte, 0, l+4)
	mode := r.Intn(10)
	for len(s) < l {
		switch {
		case mode == 0:
			s = append(s, byte(r.U32())) // arbitrary bytes (not UTF-8)
		case mode == 1:
			// every character class the JSON string writers treat specially
			s = append(s, jsonSpecial[r.Intn(len(jsonSpecial))])
		case mode == 2:
			s = append(s, []string{"\u00e9", "\u2028", "\u2029", "\ufffd", "\U0001F600", "a", "/"}[r.Intn(7)]...)
		default:
			s = append(s, "abcXYZ019_-. "[r.Intn(13)])
		}
	}
	return s
}

func (g *gen) str() []byte { return g.encStr(g.rawStr()) }

func (g *gen) encStr(s []byte) []byte {
	r := g.r
	l := len(s)
	var w []byte
	p := 0
	switch {
	case g.noncan && l <= 253 && r.Chance(50):
		g.noncan = false
		g.hist["noncanonical_len"]++
		w = append(w, 254, byte(l), byte(l>>8), byte(l>>16))
		p = l
	case l <= 253:
		w = append(w, byte(l))
		p = l + 1
	default:
		w = append(w, 254, byte(l), byte(l>>8), byte(l>>16))
		p = l
	}
	w = append(w, s...)
	for p%4 != 0 {
		if g.badpad && r.Chance(50) {
			g.badpad = false
			g.hist["bad_padding"]++
			w = append(w, byte(1+r.Intn(255)))
		} else {
			w = append(w, 0)
		}
		p++
	}
	return w
}

func (g *gen) mask() uint32 {
	r := g.r
	if g.mode == 1 || g.mode == 2 {
		return 0xFFFFFFFF
	}
	if g.mode == 3 {
		return 0
	}
	switch r.Intn(6) {
	case 0:
		return 0
	case 1:
		return 0xFFFFFFFF
	case 2:
		return uint32(1) << r.Intn(32)
	case 3:
		return r.U32() & r.U32() & r.U32()
	case 4:
		return r.U32() & 0x7FFFF
	}
	return r.U32()
}

func evalNat(n veriftl.NatExpr, env []uint32) uint32 {
	if n.Const {
		return uint32(n.Val)
	}
	if int(n.Val) < len(env) {
		return env[n.Val]
	}
	return 0
}

// a valid TL1 encoding of a random value of d (unless g.noncan / g.badpad fire)
func (g *gen) bytes(d *veriftl.Desc, env []uint32, depth int) []byte {
	r := g.r
	switch d.Kind {
	case "prim":
		switch d.Prim {
		case "PNat":
			return le32(g.mask())
		case "PInt":
			return le32(uint32(r.Pick(0, 1, -1, math.MinInt32, math.MaxInt32, int64(int32(r.U32())))))
		case "PLong":
			return le64(uint64(r.Pick(0, 1, -1, math.MinInt64, math.MaxInt64, int64(r.U64()))))
		case "PFloat":
			return le32(math.Float32bits(float32(niceDoubles[r.Intn(len(niceDoubles))])))
		case "PDouble":
			return le64(math.Float64bits(niceDoubles[r.Intn(len(niceDoubles))]))
		case "PString":
			return g.str()
		}
	case "bool":
		if r.Bool() {
			return le32(d.Tt)
		}
		return le32(d.Tf)
	case "vector":
		n := r.Intn(4)
		if depth > 3 {
			n = r.Intn(2)
		}
		if r.Chance(3) {
			n = 5 + r.Intn(5)
		}
		if g.mode == 1 {
			n = 2 + r.Intn(2)
		} else if g.mode >= 2 {
			n = 0
		}
		w := le32(uint32(n))
		if d.Sorted && d.Elem.Kind == "struct" && len(d.Elem.Fields) == 2 && r.Chance(80) {
			// a dictionary as a Go map writes it: distinct keys in ascending order
			keys := map[string]bool{}
			for len(keys) < n {
				keys[string(g.rawStr())] = true
			}
			ks := make([]string, 0, n)
			for k := range keys {
				ks = append(ks, k)
			}
			sort.Strings(ks)
			for _, k := range ks {
				w = append(w, g.encStr([]byte(k))...)
				w = append(w, g.bytes(d.Elem.Fields[1].T, env, depth+1)...)
			}
			g.hist["dict_sorted"]++
			return w
		}
		for i := 0; i < n; i++ {
			w = append(w, g.bytes(d.Elem, env, depth+1)...)
		}
		return w
	case "tuple":
		n := int(evalNat(d.N, env))
		var w []byte
		for i := 0; i < n && i < 64; i++ {
			w = append(w, g.bytes(d.Elem, env, depth+1)...)
		}
		return w
	case "struct":
		var w []byte
		lenv := env
		for _, f := range d.Fields {
			isNat := f.T.Kind == "prim" && f.T.Prim == "PNat"
			if f.Cond && evalNat(f.Mask, lenv)&(1<<uint(f.Bit)) == 0 {
				if isNat {
					lenv = append(lenv[:len(lenv):len(lenv)], 0)
				}
				continue
			}
			b := g.bytes(f.T, lenv, depth+1)
			w = append(w, b...)
			if isNat {
				lenv = append(lenv[:len(lenv):len(lenv)], binary.LittleEndian.Uint32(b))
			}
		}
		return w
	case "union":
		c := d.Ctors[r.Intn(len(d.Ctors))]
		return append(le32(c.Tag), g.bytes(c.T, env, depth+1)...)
	case "boxed":
		return append(le32(d.Tag), g.bytes(d.Elem, env, depth+1)...)
	}
	panic("bad desc")
}

// a JSON object key that is the {"base64":…} form of a non-UTF-8 string, resp. a key containing an escape
// sequence (only dictionary keys can: field names are plain identifiers)
var reKeyBase64 = regexp.MustCompile(`[{,]\{"base64":"[^"]*"\}:`)
var reKeyEscaped = regexp.MustCompile(`[{,]"(?:[^"\\]|\\.)*\\.(?:[^"\\]|\\.)*":`)

type readResult struct {
	ok        bool
	rest      int
	rewritten []byte
	obj       items.Obj
	panicked  string
}

func goRead(create func() items.Obj, boxed bool, in []byte) (res readResult) {
	defer func() {
		if e := recover(); e != nil {
			res = readResult{panicked: fmt.Sprint(e)}
		}
	}()
	obj := create()
	var rest []byte
	var err error
	buf := append([]byte(nil), in...)
	if boxed {
		rest, err = obj.ReadTL1Boxed(buf)
	} else {
		rest, err = obj.ReadTL1(buf)
	}
	if err != nil {
		return readResult{}
	}
	var w []byte
	if boxed {
		w, err = obj.WriteTL1BoxedGeneral(nil)
	} else {
		w, err = obj.WriteTL1General(nil)
	}
	if err != nil {
		return readResult{panicked: "write error after successful read: " + err.Error()}
	}
	return readResult{ok: true, rest: len(rest), rewritten: w, obj: obj}
}

// readInto decodes into an EXISTING object (possibly holding another value)
func readInto(obj items.Obj, boxed bool, in []byte) (ok bool, rest int, panicked bool) {
	defer func() {
		if e := recover(); e != nil {
			ok, rest, panicked = false, 0, true
		}
	}()
	var r []byte
	var err error
	buf := append([]byte(nil), in...)
	if boxed {
		r, err = obj.ReadTL1Boxed(buf)
	} else {
		r, err = obj.ReadTL1(buf)
	}
	return err == nil, len(r), false
}

func readJSONInto(obj items.Obj, j string) (ok bool) {
	defer func() {
		if recover() != nil {
			ok = false
		}
	}()
	return obj.ReadJSONGeneral(&basictl.JSONReadContext{}, &basictl.JsonLexer{Data: []byte(j)}) == nil
}

func readTL2Into(obj items.Obj, w []byte) (ok bool) {
	defer func() {
		if recover() != nil {
			ok = false
		}
	}()
	rest, err := obj.(items.TL2).ReadTL2(append([]byte(nil), w...), &basictl.TL2ReadContext{})
	return err == nil && len(rest) == 0
}

func writeTL2(obj items.Obj) (w []byte, ok bool) {
	defer func() {
		if recover() != nil {
			w, ok = nil, false
		}
	}()
	return obj.(items.TL2).WriteTL2(nil, &basictl.TL2WriteContext{}), true
}

// a float field holding -0.0 is "not != 0" for the generated JSON writer, is omitted and reads back as +0.0:
// equal as a float value, different as bytes (0x80 in the top byte of an aligned word becomes 0x00)
func onlyNegZeroLost(want, got []byte) bool {
	if len(want) != len(got) {
		return false
	}
	for i := range want {
		if want[i] != got[i] && !(i%4 == 3 && want[i] == 0x80 && got[i] == 0x00) {
			return false
		}
	}
	return true
}

func jsonUsable(j string) bool {
	return !strings.Contains(j, `"NaN"`) && !reKeyBase64.MatchString(j) && !reKeyEscaped.MatchString(j)
}

func write(obj items.Obj, boxed bool) []byte {
	var w []byte
	if boxed {
		w, _ = obj.WriteTL1BoxedGeneral(nil)
	} else {
		w, _ = obj.WriteTL1General(nil)
	}
	return w
}

func jsonOf(obj items.Obj) (s string, ok bool) {
	defer func() {
		if recover() != nil {
			s, ok = "", false
		}
	}()
	w, err := obj.WriteJSONGeneral(&basictl.JSONWriteContext{}, nil)
	return string(w), err == nil
}

func main() {
	seed := flag.Uint64("seed", 1, "")
	outDir := flag.String("out", ".", "")
	n := flag.Int("n", 2000, "")
	flag.Parse()
	rng := vu.NewRng(*seed)
	o := vu.NewOut(*outDir)
	defer o.Close()

	descs, _, err := veriftl.LoadAll(veriftl.RepoRoot(), items.TagOf())
	if err != nil {
		fmt.Fprintln(os.Stderr, err)
		os.Exit(2)
	}
	idx := map[string]int{}
	for i, d := range descs {
		idx[d.Key()] = i
	}
	type entry struct {
		it  items.Item
		tid int
		d   veriftl.Item
	}
	var es []entry
	missing := 0
	for _, it := range items.All() {
		i, ok := idx[it.Key()]
		if !ok {
			missing++
			o.Hist["factory_item_without_description:"+it.Key()]++
			continue
		}
		es = append(es, entry{it, i, descs[i]})
	}
	o.Hist["factory_items"] = len(es) + missing
	o.Hist["factory_items_described"] = len(es)

	// fixed witnesses of the recorded JSON findings, replayed on the real code: `stat` = Dictionary string
	for _, e := range es {
		if e.it.Key() != "statshouse/stat" {
			continue
		}
		replay := func(id string, key []byte) {
			in := le32(1)
			g0 := &gen{r: rng, hist: map[string]int{}}
			in = append(in, g0.encStr(key)...)
			in = append(in, g0.encStr([]byte("x"))...)
			res := goRead(e.it.Create, false, in)
			outcome := "gone"
			if res.ok {
				j, _ := jsonOf(res.obj)
				obj := e.it.Create()
				err := func() (err error) {
					defer func() {
						if r := recover(); r != nil {
							err = fmt.Errorf("panic")
						}
					}()
					return obj.ReadJSONGeneral(&basictl.JSONReadContext{}, &basictl.JsonLexer{Data: []byte(j)})
				}()
				if err != nil || !bytes.Equal(write(obj, false), res.rewritten) {
					outcome = "reproduced"
				}
			}
			o.Finding(id, outcome)
		}
		replay("F-C14a", []byte{0xff})
		replay("F-C14b", []byte{'\t'})
	}

	// destination reuse (oracle level; the model's read is a function of the bytes only): receivers decode
	// message after message into ONE object, so a read into an object that already holds another value must
	// give what a read into a fresh object gives
	pool := map[string]items.Obj{}
	reuseSeq := func(e entry, line int) {
		boxed := rng.Bool() || e.d.IsUnion
		d := e.d.D
		if boxed && !e.d.IsUnion {
			d = &veriftl.Desc{Kind: "boxed", Tag: e.d.Tag, Elem: d}
		}
		type val struct {
			in   []byte
			b    []byte
			j    string
			jok  bool
			t2   []byte
			t2ok bool
			mode int
		}
		var ins []struct {
			in   []byte
			mode int
		}
		for _, mode := range []int{1, 2, 1, 3, 1, 0, 2, 0} {
			g := &gen{r: rng, hist: map[string]int{}, mode: mode}
			in := g.bytes(d, nil, 0)
			if len(in) > 6000 {
				continue
			}
			ins = append(ins, struct {
				in   []byte
				mode int
			}{in, mode})
		}
		variants := []struct {
			name   string
			create func() items.Obj
		}{{"", e.it.Create}}
		if e.it.CreateBytes != nil {
			variants = append(variants, struct {
				name   string
				create func() items.Obj
			}{"_bytes_variant", e.it.CreateBytes})
		}
		for _, vr := range variants {
			// what a read into a FRESH object of this variant gives for each input
			var vals []val
			for _, x := range ins {
				fr := goRead(vr.create, boxed, x.in)
				if !fr.ok || fr.rest != 0 {
					continue
				}
				v := val{in: x.in, b: fr.rewritten, mode: x.mode}
				v.j, v.jok = jsonOf(fr.obj)
				v.jok = v.jok && jsonUsable(v.j)
				if _, is := fr.obj.(items.TL2); is && e.it.HasTL2 {
					v.t2, v.t2ok = writeTL2(fr.obj)
				}
				vals = append(vals, v)
			}
			for _, codec := range []string{"tl1", "json", "tl2"} {
				obj := vr.create()
				prev := "fresh"
				for _, v := range vals {
					ok := false
					switch codec {
					case "tl1":
						var rest int
						ok, rest, _ = readInto(obj, boxed, v.in)
						ok = ok && rest == 0
					case "json":
						if !v.jok {
							continue
						}
						ok = readJSONInto(obj, v.j)
					case "tl2":
						if !v.t2ok {
							continue
						}
						ok = readTL2Into(obj, v.t2)
					}
					o.Hist["oracle:reuse_"+codec]++
					if !ok || !bytes.Equal(write(obj, boxed), v.b) {
						name := "read_into_reused_object_equals_fresh"
						if codec != "tl1" {
							name += "_" + codec
						}
						o.Fail(name+vr.name, line, fmt.Sprintf("reuse %s boxed=%v codec=%s after=%s value(mode %d) hex=%s", e.it.Key(), boxed, codec, prev, v.mode, hex.EncodeToString(v.in)))
						break
					}
					prev = fmt.Sprintf("mode%d:%s", v.mode, hex.EncodeToString(v.in))
					if len(prev) > 400 {
						prev = prev[:400] + "..."
					}
				}
			}
		}
	}

	nTL := *n * 9 / 10
	for k := 0; k < nTL; k++ {
		e := es[k%len(es)]
		boxed := rng.Bool()
		if e.d.IsUnion {
			boxed = true
		}
		g := &gen{r: rng, hist: o.Hist, longStr: rng.Chance(40)}
		kind := "valid"
		switch x := rng.Intn(100); {
		case x < 4:
			g.noncan, kind = true, "noncanonical"
		case x < 8:
			g.badpad, kind = true, "badpad"
		}
		d := e.d.D
		if boxed && !e.d.IsUnion {
			d = &veriftl.Desc{Kind: "boxed", Tag: e.d.Tag, Elem: d}
		}
		in := g.bytes(d, nil, 0)
		if (kind == "noncanonical" && g.noncan) || (kind == "badpad" && g.badpad) {
			kind = "valid" // the directed defect found no string to sit in
		}
		validInput := kind == "valid"
		if len(in) > 700 {
			o.Hist["skipped_large"]++
			continue
		}
		// mutations
		if validInput {
			switch x := rng.Intn(100); {
			case x < 45:
			case x < 55:
				kind = "valid+junk"
				in = append(in, le32(rng.U32())[:1+rng.Intn(4)]...)
			case x < 70 && len(in) > 0:
				kind = "truncated"
				in = in[:rng.Intn(len(in))]
			case x < 82 && len(in) > 0:
				kind = "flip"
				p := rng.Intn(len(in))
				if rng.Bool() && len(in) > 8 {
					p = rng.Intn(8)
				}
				in = append([]byte(nil), in...)
				in[p] ^= byte(1 << rng.Intn(8))
			case x < 92 && len(in) >= 4:
				kind = "word"
				p := 4 * rng.Intn(len(in)/4)
				in = append([]byte(nil), in...)
				binary.LittleEndian.PutUint32(in[p:], uint32(rng.Pick(0, 1, 2, 3, 253, 254, 255, 256, 0xFFFFFFFF, 0x7FFFFFFF, 1<<24, int64(len(in)/4), int64(len(in)/4+1), int64(rng.U32()))))
			default:
				kind = "random"
				in = make([]byte, rng.Intn(48))
				for i := range in {
					in[i] = byte(rng.U32())
				}
			}
		}
		res := goRead(e.it.Create, boxed, in)
		text := fmt.Sprintf("tl %s boxed=%v kind=%s hex=%s", e.it.Key(), boxed, kind, hex.EncodeToString(in))
		obs := "None"
		if res.ok {
			obs = fmt.Sprintf("(Some (%d, %s))", res.rest, vu.Bytes(res.rewritten))
		}
		term := fmt.Sprintf("CRead %d%%nat %s %s %s", e.tid, vu.B(boxed), vu.Bytes(in), obs)
		acc := "rejected"
		if res.ok {
			acc = "accepted"
			if !bytes.Equal(res.rewritten, in[:len(in)-res.rest]) {
				// only a dictionary (Go map) may be written back differently from what was read
				acc = "accepted_normalised"
				term = fmt.Sprintf("CReadNorm %d%%nat %s %s %d %s", e.tid, vu.B(boxed), vu.Bytes(in), res.rest, vu.Bytes(res.rewritten))
			}
		}
		line := o.Case(text, term, res.ok && len(in) > 8, "tl:"+kind, "tl:"+acc, "group:"+e.it.Group)
		if res.panicked != "" {
			o.Fail("tl_no_panic", line, text+" :: "+res.panicked)
			continue
		}
		// the string and the []byte variant of a type read every input alike
		if e.it.CreateBytes != nil {
			rb := goRead(e.it.CreateBytes, boxed, in)
			if rb.panicked != "" || rb.ok != res.ok || rb.rest != res.rest {
				o.Fail("bytes_string_variants_read_alike", line, text)
			}
		}
		if !res.ok {
			// an encoding built from the schema (canonical lengths, zero padding, known tags) must be readable:
			// it is what a correct writer produces for some value
			if kind == "valid" || kind == "valid+junk" {
				o.Fail("tl1_valid_encoding_rejected", line, text)
			}
			continue
		}
		if kind == "badpad" || kind == "noncanonical" {
			// non-zero padding and long-form lengths of short strings are rejected, not silently normalised
			o.Fail("tl1_noncanonical_encoding_accepted", line, text)
		}
		if kind == "valid" && res.rest != 0 {
			o.Fail("tl1_valid_encoding_not_consumed", line, text)
		}
		// ---- oracles of the property on the value Go just decoded ----
		obj1 := res.obj
		b1 := res.rewritten
		j1, jok := jsonOf(obj1)
		// read the same input into the object that holds the previous accepted value of this item
		for vi, create := range []func() items.Obj{e.it.Create, e.it.CreateBytes} {
			if create == nil {
				continue
			}
			key := fmt.Sprintf("%s/%d", e.it.Key(), vi)
			dirty := pool[key]
			if dirty == nil {
				dirty = create()
				pool[key] = dirty
			}
			want, wantJ, wantJok := b1, j1, jok
			if vi == 1 {
				fb := goRead(create, boxed, in)
				if !fb.ok {
					continue // reported by bytes_string_variants_read_alike
				}
				want = fb.rewritten
				wantJ, wantJok = jsonOf(fb.obj)
			}
			ok, rest, _ := readInto(dirty, boxed, in)
			if !ok || rest != res.rest || !bytes.Equal(write(dirty, boxed), want) {
				o.Fail([]string{"read_into_reused_object_equals_fresh", "read_into_reused_object_equals_fresh_bytes_variant"}[vi], line, text)
				delete(pool, key)
			} else if jd, okd := jsonOf(dirty); wantJok && (!okd || jd != wantJ) {
				o.Fail([]string{"read_into_reused_object_equals_fresh", "read_into_reused_object_equals_fresh_bytes_variant"}[vi], line, text+" (json differs)")
				delete(pool, key)
			}
			o.Hist["oracle:reuse_stream"]++
		}
		if rng.Chance(8) {
			reuseSeq(e, line)
		}
		// TL1: write -> read -> equal (with and without trailing bytes)
		junk := []byte{0xAB, 0xCD, 0xEF}[:rng.Intn(4)]
		r2 := goRead(e.it.Create, boxed, append(append([]byte(nil), b1...), junk...))
		if !r2.ok || r2.rest != len(junk) || !bytes.Equal(r2.rewritten, b1) {
			o.Fail("tl1_roundtrip", line, text)
		} else if j2, ok2 := jsonOf(r2.obj); jok && (!ok2 || j2 != j1) {
			o.Fail("tl1_roundtrip_value", line, text)
		}
		// string vs []byte variants
		if e.it.CreateBytes != nil {
			rb := goRead(e.it.CreateBytes, boxed, b1)
			if !rb.ok || rb.rest != 0 || !bytes.Equal(rb.rewritten, b1) {
				o.Fail("bytes_string_variants_equal", line, text)
			} else if jb, okb := jsonOf(rb.obj); jok && (!okb || jb != j1) {
				o.Fail("bytes_string_variants_equal_json", line, text)
			}
			if _, is := rb.obj.(items.TL2); rb.ok && is && e.it.HasTL2 && r2.ok {
				ws, oks := writeTL2(r2.obj)
				wb, okb := writeTL2(rb.obj)
				if !oks || !okb || !bytes.Equal(ws, wb) {
					o.Fail("bytes_string_variants_equal_tl2", line, text)
				}
			}
			o.Hist["oracle:bytes_variant"]++
		}
		// boxed tag is checked
		if boxed && len(b1) >= 4 {
			bad := append([]byte(nil), b1...)
			bad[rng.Intn(4)] ^= byte(1 << rng.Intn(8))
			if e.d.IsUnion {
				// another constructor's tag may be valid; only a tag outside the union must be rejected
				t := binary.LittleEndian.Uint32(bad)
				for _, c := range e.d.D.Ctors {
					if c.Tag == t {
						bad = nil
					}
				}
			}
			if bad != nil {
				if rt := goRead(e.it.Create, true, bad); rt.ok {
					o.Fail("tl1_boxed_tag_checked", line, text)
				}
			}
		}
		// JSON: write -> read -> same TL1 bytes
		if jok && !strings.Contains(j1, `"NaN"`) { // NaN payloads are not representable in JSON (and NaN != NaN)
			func() {
				defer func() {
					if e := recover(); e != nil {
						o.Fail("json_no_panic", line, text)
					}
				}()
				obj3 := e.it.Create()
				oracle := "json_roundtrip"
				if reKeyBase64.MatchString(j1) {
					oracle = "json_roundtrip_dict_key_not_utf8"
				} else if reKeyEscaped.MatchString(j1) {
					oracle = "json_roundtrip_dict_key_escaped"
				}
				if err := obj3.ReadJSONGeneral(&basictl.JSONReadContext{}, &basictl.JsonLexer{Data: []byte(j1)}); err != nil {
					o.Fail(oracle, line, text+" json="+j1+" err="+err.Error())
				} else if b3 := write(obj3, boxed); !bytes.Equal(b3, b1) && !onlyNegZeroLost(b1, b3) {
					j3, _ := jsonOf(obj3)
					o.Fail(oracle, line, text+" json="+j1+" reread="+j3)
				}
				o.Hist["oracle:json"]++
			}()
		}
		// TL2 correspondence: what Go wrote for this value (intact or damaged) is read by ReadTL2 and by the model
		if _, is := obj1.(items.TL2); is && e.it.HasTL2 {
			if w2, ok := writeTL2(obj1); ok && len(w2) > 0 && len(w2) < 600 {
				bare := write(obj1, false)
				o.Case(fmt.Sprintf("cross %s tl1=%s tl2=%s", e.it.Key(), hex.EncodeToString(bare), hex.EncodeToString(w2)),
					fmt.Sprintf("CCross %d%%nat %s %s", e.tid, vu.Bytes(bare), vu.Bytes(w2)), len(bare) > 8, "tl2:cross_tl1_tl2")
				for rep := 0; rep < 5; rep++ {
					in2 := append([]byte(nil), w2...)
					k2 := "intact"
					switch x := rng.Intn(100); {
					case x < 40:
					case x < 50:
						k2 = "junk"
						in2 = append(in2, le32(rng.U32())[:1+rng.Intn(4)]...)
					case x < 65:
						k2 = "truncated"
						in2 = in2[:rng.Intn(len(in2))]
					case x < 85:
						k2 = "flip"
						in2[rng.Intn(len(in2))] ^= byte(1 << rng.Intn(8))
					case x < 95:
						k2 = "byte"
						in2[rng.Intn(len(in2))] = byte(rng.Pick(0, 1, 2, 3, 127, 128, 253, 254, 255, int64(len(in2)), int64(len(in2)-1)))
					default:
						k2 = "insert"
						p := rng.Intn(len(in2) + 1)
						in2 = append(in2[:p:p], append([]byte{byte(rng.Pick(0, 1, 2, 255, int64(rng.U32()&0xff)))}, in2[p:]...)...)
					}
					o2 := e.it.Create()
					obs2, acc2 := "None", "rejected"
					var rest2 []byte
					var err2 error
					pan := func() (p bool) {
						defer func() {
							if recover() != nil {
								p = true
							}
						}()
						rest2, err2 = o2.(items.TL2).ReadTL2(append([]byte(nil), in2...), &basictl.TL2ReadContext{})
						return false
					}()
					text2 := fmt.Sprintf("tl2 %s kind=%s hex=%s", e.it.Key(), k2, hex.EncodeToString(in2))
					if pan {
						o.Fail("tl2_no_panic", o.N, text2)
					} else {
						if err2 == nil {
							if rw, ok := writeTL2(o2); ok {
								obs2, acc2 = fmt.Sprintf("(Some (%d, %s))", len(rest2), vu.Bytes(rw)), "accepted"
							} else {
								o.Fail("tl2_no_panic", o.N, text2+" (write after read)")
							}
						}
						l2 := o.Case(text2, fmt.Sprintf("CRead2 %d%%nat %s %s", e.tid, vu.Bytes(in2), obs2), err2 == nil && len(in2) > 4, "tl2:"+k2, "tl2:"+acc2)
						if k2 == "intact" && (err2 != nil || len(rest2) != 0) {
							o.Fail("tl2_roundtrip", l2, text2)
						}
					}
				}
			} else if ok && len(w2) == 0 {
				o.Hist["tl2:enum_element_item_writes_nothing"]++
			}
		}
		// TL2: write -> read -> same TL1 bytes
		if t2, ok := obj1.(items.TL2); ok && e.it.HasTL2 {
			func() {
				defer func() {
					if e := recover(); e != nil {
						o.Fail("tl2_no_panic", line, text)
					}
				}()
				w2 := t2.WriteTL2(nil, &basictl.TL2WriteContext{})
				obj4 := e.it.Create()
				rest, err := obj4.(items.TL2).ReadTL2(w2, &basictl.TL2ReadContext{})
				if err != nil || len(rest) != 0 || !bytes.Equal(write(obj4, boxed), b1) {
					o.Fail("tl2_roundtrip", line, text)
				}
				o.Hist["oracle:tl2"]++
			}()
		}
	}

	// ---------------- frames ----------------
	// the size limit itself, on real compressed frames (too large to replay in Coq; oracle only): a payload of
	// exactly MaxUncompressedBucketSize bytes round-trips, one byte more is rejected by Decompress
	for _, extra := range []int{0, 1} {
		big := make([]byte, data_model.MaxUncompressedBucketSize+extra)
		for i := 0; i < len(big); i += 4096 {
			big[i] = byte(i >> 12)
		}
		cbuf := make([]byte, lz4.CompressBlockBound(len(big)))
		cn, cerr := lz4.CompressBlock(big, cbuf, nil) // the fast compressor: only Decompress is probed here
		text := fmt.Sprintf("frame limit payload=%d bytes (zeros with a byte every 4096) lz4 block=%d bytes", len(big), cn)
		if cerr != nil || cn == 0 || cn >= len(big) {
			o.Fail("lz4_compress_error", o.N, text)
			continue
		}
		osz, cd, err := compress.DeFrame(append(le32(uint32(len(big))), cbuf[:cn]...))
		if err != nil || int(osz) != len(big) {
			o.Fail("frame_roundtrip", o.N, text)
			continue
		}
		back, err := compress.Decompress(osz, cd)
		if extra == 0 && (err != nil || !bytes.Equal(back, big)) {
			o.Fail("frame_roundtrip", o.N, text)
		}
		if extra == 1 && err == nil {
			o.Fail("frame_rejects_oversized", o.N, text)
		}
		o.Hist["frame:limit_probe"]++
	}
	nF := *n - nTL
	for k := 0; k < nF; k++ {
		// payloads: compressible, incompressible, empty, tiny
		var data []byte
		l := int(rng.Pick(0, 1, 2, 3, 4, 5, 12, 13, 16, 17, 40, 100, 200, int64(rng.Intn(300))))
		data = make([]byte, l)
		pk := rng.Intn(3)
		for i := range data {
			switch pk {
			case 0:
				data[i] = byte(rng.U32())
			case 1:
				data[i] = "ab"[rng.Intn(2)]
			default:
				data[i] = byte(i / 16)
			}
		}
		// boundary-directed: a payload whose lz4 form is exactly as long as the payload (>= vs > in CompressAndFrame)
		if rng.Chance(20) {
			head := make([]byte, 14+rng.Intn(8))
			tail := make([]byte, 13+rng.Intn(4))
			for i := range head {
				head[i] = byte(rng.U32())
			}
			for i := range tail {
				tail[i] = byte(rng.U32())
			}
			for m := 4; m < 40; m++ {
				cand := append(append(append([]byte(nil), head...), bytes.Repeat([]byte{head[0] ^ 0x5a}, m)...), tail...)
				tmp := make([]byte, lz4.CompressBlockBound(len(cand)))
				if cn, err := lz4.CompressBlockHC(cand, tmp, 0); err == nil && cn == len(cand) {
					data = cand
					o.Hist["frame:lz4_size_equals_payload"]++
					break
				}
			}
		}
		// what lz4 itself returns for this payload (input of the model)
		cbuf := make([]byte, lz4.CompressBlockBound(len(data)))
		cn, cerr := lz4.CompressBlockHC(data, cbuf, 0)
		if cerr != nil {
			o.Fail("lz4_compress_error", o.N, hex.EncodeToString(data))
			continue
		}
		frame := compress.CompressAndFrame(append([]byte(nil), data...))
		text := fmt.Sprintf("frame compress data=%s", hex.EncodeToString(data))
		stored := "lz4"
		if len(frame) == 4+len(data) {
			stored = "raw"
		}
		line := o.Case(text, fmt.Sprintf("CFrameC %s %s %s", vu.Bytes(data), vu.Bytes(cbuf[:cn]), vu.Bytes(frame)), len(data) > 16, "frame:compress", "frame:stored_"+stored)
		// oracle: the frame decompresses to the original bytes
		osz, cd, err := compress.DeFrame(frame)
		if err != nil || int(osz) != len(data) {
			o.Fail("frame_roundtrip", line, text)
		} else if back, err := compress.Decompress(osz, cd); err != nil || !bytes.Equal(back, data) {
			o.Fail("frame_roundtrip", line, text)
		}

		// DeFrame / Decompress on the frame and on damaged versions of it
		fr := append([]byte(nil), frame...)
		fkind := "intact"
		switch x := rng.Intn(100); {
		case x < 30:
		case x < 45:
			fkind = "short"
			fr = fr[:rng.Intn(5)%(len(fr)+1)]
		case x < 60 && len(fr) > 4:
			fkind = "cut"
			fr = fr[:4+rng.Intn(len(fr)-4)]
		case x < 75:
			fkind = "size"
			binary.LittleEndian.PutUint32(fr, uint32(rng.Pick(0, 1, int64(len(data))-1, int64(len(data))+1, data_model.MaxUncompressedBucketSize, data_model.MaxUncompressedBucketSize+1, 0xFFFFFFFF, int64(len(fr))-4)))
		case x < 90 && len(fr) > 4:
			fkind = "flip"
			fr[4+rng.Intn(len(fr)-4)] ^= byte(1 << rng.Intn(8))
		default:
			fkind = "oversized"
			binary.LittleEndian.PutUint32(fr, uint32(data_model.MaxUncompressedBucketSize+1+rng.Intn(1000)))
		}
		osz2, cd2, err2 := func() (a uint32, b []byte, err error) {
			defer func() {
				if r := recover(); r != nil {
					o.Fail("frame_no_panic", o.N, "frame deframe frame="+hex.EncodeToString(fr))
					err = fmt.Errorf("panic")
				}
			}()
			return compress.DeFrame(fr)
		}()
		text2 := fmt.Sprintf("frame deframe kind=%s frame=%s", fkind, hex.EncodeToString(fr))
		obs := "None"
		if err2 == nil {
			obs = fmt.Sprintf("(Some (%d, %d))", osz2, len(cd2))
		}
		line2 := o.Case(text2, fmt.Sprintf("CDeframe %s %s", vu.Bytes(fr), obs), err2 == nil, "frame:deframe_"+fkind)
		if (len(fr) < 4) != (err2 != nil) {
			o.Fail("frame_rejects_short", line2, text2)
		}
		if err2 != nil {
			continue
		}
		// what lz4 returns for exactly the call Decompress makes
		lz := "None"
		lzWritten := -1 // bytes lz4 itself produces for this frame (-1: error or not called)
		if int(osz2) != len(cd2) && osz2 <= data_model.MaxUncompressedBucketSize {
			dst := make([]byte, int(osz2))
			s, lerr := lz4.UncompressBlock(cd2, dst)
			if lerr == nil {
				lzWritten = s
				if s > 2000 {
					o.Hist["frame:skipped_large_lz4_output"]++
					continue
				}
				lz = "(Some " + vu.Bytes(dst[:s]) + ")"
			}
		}
		out3, err3 := compress.Decompress(osz2, append([]byte(nil), cd2...))
		obs3 := "None"
		if err3 == nil {
			if len(out3) > 2000 {
				o.Hist["frame:skipped_large_output"]++
				continue
			}
			obs3 = "(Some " + vu.Bytes(out3) + ")"
		}
		text3 := fmt.Sprintf("frame decompress kind=%s osize=%d cd=%s", fkind, osz2, hex.EncodeToString(cd2))
		acc := "rejected"
		if err3 == nil {
			acc = "accepted"
		}
		line3 := o.Case(text3, fmt.Sprintf("CDecomp %d %s %s %s", osz2, vu.Bytes(cd2), lz, obs3), err3 == nil, "frame:decompress_"+fkind, "frame:decompress_"+acc)
		// oracles: never misread (announced size), oversized rejected
		if err3 == nil && len(out3) != int(osz2) {
			o.Fail("frame_never_misread", line3, text3)
		}
		// a frame whose compressed data does not decode to exactly the announced size must be rejected
		if err3 == nil && int(osz2) != len(cd2) && lzWritten != int(osz2) {
			o.Fail("frame_never_misread", line3, text3)
		}
		if err3 == nil && osz2 > data_model.MaxUncompressedBucketSize && int(osz2) != len(cd2) {
			o.Fail("frame_rejects_oversized", line3, text3)
		}
		if fkind == "intact" && (err3 != nil || !bytes.Equal(out3, data)) {
			o.Fail("frame_roundtrip", line3, text3)
		}
	}
	tl2SizeSweep(o)
}

// TL2 size prefixes: TL2CalculateSize / TL2WriteSize / TL2PutSize / TL2ParseSize must agree for every length (the generated
// writers precompute sizes with TL2CalculateSize and abort when the written length differs). Go-side oracle on every
// length 0..70000 and around 2^24 / 2^32; the boundary lengths are also decided by the model (CSize).
func tl2SizeSweep(o *vu.Out) {
	one := func(l int, emit bool) {
		w := basictl.TL2WriteSize(nil, l)
		calc := basictl.TL2CalculateSize(l)
		var buf [9]byte
		put := basictl.TL2PutSize(buf[:], l)
		rest, pl, err := basictl.TL2ParseSize(append(append([]byte(nil), w...), 0xAA))
		text := fmt.Sprintf("tl2 size prefix l=%d", l)
		line := o.N
		if emit {
			obs := "None"
			if err == nil {
				obs = fmt.Sprintf("(Some (%d, %d))", pl, len(rest))
			}
			line = o.Case(text, fmt.Sprintf("CSize %d %s %d %d %s", l, vu.Bytes(w), calc, put, obs), l >= 254, "tl2:size_prefix")
		}
		if calc != len(w) || put != len(w) || !bytes.Equal(buf[:put], w) || err != nil || pl != l || len(rest) != 1 {
			o.Fail("tl2_size_prefix_consistent", line, text)
		}
		o.Hist["oracle:tl2_size_prefix"]++
	}
	emit := map[int]bool{}
	for _, b := range []int{0, 1, 253, 254, 255, 256, 65535, 65536, 65537, 65700, 65788, 65789, 65790, 65791, 70000, 1 << 24, 1<<24 + 254, 1<<32 - 1, 1 << 32, 1<<32 + 254} {
		emit[b] = true
	}
	for l := 0; l <= 70000; l++ {
		one(l, emit[l])
	}
	for _, c := range []int{1 << 24, 1 << 32} {
		for l := c - 300; l <= c+300; l++ {
			one(l, emit[l])
		}
	}
}
