//go:build verif

// Correspondence harness for C08 (agent super-queue): drives a real agent.Shard (Apply*/Add*, flushBuckets,
// FlushAllDataSingleStep, StopReceivingIncomingData, the BucketsToPreprocess channel) through random
// histories under monotone, paused, jumping and backward clocks, and the real Agent.Map + OriginalMarshalAppend
// + ApplyMetric on pairs of agents with different mapping caches / tag orders. Prints cases for AgentQueue/Corr.v
// and evaluates the property's oracles on the implementation's own output.
package main

import (
	"flag"
	"fmt"
	"math"
	"sort"
	"strings"
	"time"

	"github.com/VKCOM/statshouse/internal/agent"
	"github.com/VKCOM/statshouse/internal/data_model"
	"github.com/VKCOM/statshouse/internal/data_model/gen2/tl"
	"github.com/VKCOM/statshouse/internal/data_model/gen2/tlstatshouse"
	"github.com/VKCOM/statshouse/internal/format"
	vu "github.com/VKCOM/statshouse/internal/verifutil"
)

var consts = agent.VerifQueueConsts()

func tsv(base uint32, t uint32) string {
	d := int64(t) - int64(base)
	if d > -100000 && d < 100000 {
		return "(R " + vu.Z(d) + ")"
	}
	return fmt.Sprintf("(A %d)", t)
}

type evInfo struct {
	id        int32
	ts        uint32 // as sent
	clampedTs uint32 // min(ts or cur, cur+futureSlots) at the time of the call
	res       uint32
	keyTs     uint32
	accepted  bool
	late      bool
	clamped   bool
	jumpsAt   int
	delivered int
	bucket    uint32
}

type hist struct {
	r       *vu.Rng
	q       *agent.VerifQueue
	base    uint32
	ops     []string
	evs     map[int32]*evInfo
	nextID  int32
	stopped bool
	jumps   int // number of flushes after which SendTime moved by more than the buckets it sent
	lastT   int64
	fails   []string
	kinds   map[string]bool
	stres   uint32
	hw      [2]int32
	u32wrap bool
}

// Histories whose clock is within 1000 s of 2^32 (February 2106) are outside the property's clock domain:
// CurrentTime+superQueueFutureSlots and the slot arithmetic wrap there (recorded finding F-C08a). Their oracle
// failures are reported under distinct names so that only the known-findings entry can suppress them.
func (h *hist) fail(oracle, what string) {
	if h.u32wrap {
		oracle += "@u32wrap"
	}
	h.fails = append(h.fails, oracle+"\x00"+what)
}

func itemsTerm(base uint32, items []agent.VerifQueueItem) string {
	var parts []string
	for _, it := range items {
		if it.Status {
			if it.ID != agent.VerifQueueStatusClamped() {
				continue
			}
			for c := int64(0); c < it.Count; c++ {
				parts = append(parts, fmt.Sprintf("((-1), %s)", tsv(base, it.Ts)))
			}
			continue
		}
		parts = append(parts, fmt.Sprintf("(%d, %s)", it.ID, tsv(base, it.Ts)))
	}
	return "[" + strings.Join(parts, "; ") + "]"
}

// a bucket arrived at the preprocessor: property oracles
func (h *hist) received(t uint32, items []agent.VerifQueueItem) {
	h.kinds["bucket"] = true
	if int64(t) <= h.lastT {
		h.fail("bucket_times_increase", fmt.Sprintf("bucket %d after %d", t, h.lastT))
	}
	h.lastT = int64(t)
	for _, it := range items {
		if it.Status {
			if it.Ts > t {
				h.fail("row_from_future", fmt.Sprintf("status row ts=%d in bucket %d", it.Ts, t))
			}
			continue
		}
		e := h.evs[it.ID]
		if e == nil || !e.accepted {
			h.fail("delivered_not_accepted", fmt.Sprintf("id=%d bucket=%d", it.ID, t))
			continue
		}
		e.delivered++
		e.bucket = t
		if e.delivered > 1 {
			h.fail("delivered_twice", fmt.Sprintf("id=%d bucket=%d", it.ID, t))
		}
		if it.Count != 1 {
			h.fail("delivered_twice", fmt.Sprintf("id=%d counter=%d", it.ID, it.Count))
		}
		if t < e.clampedTs {
			h.fail("bucket_before_timestamp", fmt.Sprintf("id=%d ts=%d clamped=%d bucket=%d res=%d", it.ID, e.ts, e.clampedTs, t, e.res))
		}
		if it.Ts > t {
			h.fail("row_from_future", fmt.Sprintf("id=%d keyts=%d bucket=%d", it.ID, it.Ts, t))
		}
		if it.Ts != e.keyTs {
			h.fail("key_ts_changed", fmt.Sprintf("id=%d keyts=%d then %d", it.ID, e.keyTs, it.Ts))
		}
		if e.jumpsAt != h.jumps {
			h.kinds["delivered-after-jump"] = true
		}
	}
}

func (h *hist) drain(emit bool) {
	t, items, ok := h.q.Drain()
	if !ok {
		if emit {
			h.ops = append(h.ops, "Dr None")
		}
		return
	}
	h.received(t, items)
	h.ops = append(h.ops, fmt.Sprintf("Dr (Some (%s, %s))", tsv(h.base, t), itemsTerm(h.base, items)))
}

var resChoices = []int{1, 1, 1, 5, 15, 60, 2, 3, 4, 6, 10, 12, 20, 30}

func (h *hist) apply() {
	r := h.r
	cur, snd := h.q.Times()
	res := resChoices[r.Intn(len(resChoices))]
	var meta *format.MetricMetaValue
	mi := "MNil"
	effRes := uint32(1)
	switch r.Intn(12) {
	case 0: // nil metricInfo
	case 1, 2: // hardware metrics take the shard's configured resolution
		slow := r.Bool()
		meta = &format.MetricMetaValue{MetricID: -1000 - int32(r.Intn(50)), EffectiveResolution: res, IsHardwareSlowMetric: slow}
		mi = fmt.Sprintf("(MI %s %d %s)", vu.Z(int64(meta.MetricID)), res, vu.B(slow))
		effRes = uint32(h.hw[0])
		if slow {
			effRes = uint32(h.hw[1])
		}
	default:
		id := int32(1 + r.Intn(5))
		if r.Chance(5) {
			id = -999 + int32(r.Intn(3)) // builtin but not hardware
		}
		meta = &format.MetricMetaValue{MetricID: id, EffectiveResolution: res}
		mi = fmt.Sprintf("(MI %s %d false)", vu.Z(int64(id)), res)
		effRes = uint32(res)
	}
	// timestamp: boundary-directed around SendTime, CurrentTime, CurrentTime+futureSlots, resolution multiples
	var ts uint32
	switch r.Intn(12) {
	case 0:
		ts = 0
	case 1:
		ts = snd + uint32(r.Intn(5)) - 2
	case 2:
		ts = cur + uint32(consts.FutureSlots) + uint32(r.Intn(3)) - 1
	case 3:
		ts = cur + uint32(r.Intn(400)) // future
	case 4:
		ts = cur - uint32(r.Intn(300)) // past
	case 5:
		ts = r.U32()
	case 6:
		ts = (cur/effRes)*effRes + uint32(r.Intn(3)) - 1
	case 7:
		ts = uint32(r.Pick(1, 2, math.MaxUint32, math.MaxUint32-1, 127, 128))
	default:
		ts = cur - uint32(r.Intn(4)) + uint32(r.Intn(3))
	}
	// only the low 32 bits matter to the slot; keep most literals short (Coq parsing cost), some full 64-bit
	hash := uint64(r.U32())
	switch r.Intn(8) {
	case 0:
		hash = r.U64() &^ 0xFFFFFFFF
	case 1:
		hash = r.U64() | 0xFFFFFFFF
	case 2:
		hash = r.U64()
	case 3:
		hash = uint64(r.Pick(0, 1, 0xFFFFFFFF, 0x80000000, 0x7FFFFFFF))
	}
	if effRes == 1 && r.Chance(70) {
		hash = 0 // what ApplyMetric passes for 1-second metrics
	}
	dropb := uint32(0)
	if r.Chance(25) { // secondary shard with a start time
		switch r.Intn(3) {
		case 0:
			dropb = cur + uint32(r.Intn(7)) - 3
		case 1:
			dropb = (ts/effRes)*effRes + uint32(r.Intn(3)) - 1
		default:
			dropb = ts + uint32(r.Intn(3)) - 1
		}
	}
	if r.Chance(6) { // a row with implicit timestamp (status rows) on a secondary shard around its start time
		ts = 0
		dropb = cur + uint32(r.Intn(5)) - 3
	}
	kind := r.Intn(6)
	ws := kind <= 2
	h.nextID++
	id := h.nextID
	key := data_model.Key{Timestamp: ts}
	if meta != nil {
		key.Metric = meta.MetricID
	}
	key.Tags[1] = id
	keyTs := h.q.Apply(kind, &key, hash, meta, dropb)
	idx, storedTs, n := h.q.Find(id)
	e := &evInfo{id: id, ts: ts, res: effRes, accepted: n > 0, keyTs: storedTs, jumpsAt: h.jumps}
	t0 := ts
	if t0 == 0 {
		t0 = cur
	}
	e.clampedTs = t0
	if uint64(t0) > uint64(cur)+uint64(consts.FutureSlots) {
		e.clampedTs = cur + uint32(consts.FutureSlots)
		e.clamped = true
	}
	h.evs[id] = e
	obs := "None"
	if n > 0 {
		obs = fmt.Sprintf("(Some (%d, %s))", idx, tsv(h.base, storedTs))
		h.kinds["accepted"] = true
		if effRes != 1 {
			h.kinds["accepted-lowres"] = true
		}
		if e.clamped {
			h.kinds["clamped"] = true
		}
	} else {
		h.kinds["dropped"] = true
	}
	h.ops = append(h.ops, fmt.Sprintf("Ap %d %s %s %d %s %s %s", id, tsv(h.base, ts), mi, hash, tsv(h.base, dropb), vu.B(ws), obs))
	what := fmt.Sprintf("id=%d ts=%d res=%d hash=%d drop=%d kind=%d cur=%d send=%d stopped=%v", id, ts, effRes, hash, dropb, kind, cur, snd, h.stopped)
	// --- property oracles on the implementation's own output ---
	if n > 1 {
		h.fail("stored_in_two_slots", what)
	}
	gap := int64(cur) - int64(snd) - consts.GapSlack
	// the timestamp the row must be filed under, computed here (not read back from the key the shard rewrites):
	// 0 means "current second", future clamp, rounding down to the resolution
	expKts := e.clampedTs
	if effRes > 1 {
		expKts = (e.clampedTs / effRes) * effRes
	}
	if n == 0 && !h.stopped && gap <= 0 && expKts >= dropb {
		if dropb != 0 {
			h.fail("dropped_after_secondary_start", what+fmt.Sprintf(" expected_keyts=%d", expKts))
		} else {
			h.fail("dropped_without_reason", what)
		}
	}
	_ = keyTs
	if n > 0 && (h.stopped || gap > 0) {
		h.fail("accepted_while_gap_or_stopped", what)
	}
	if n > 0 {
		if storedTs != keyTs {
			h.fail("key_ts_changed", what)
		}
		if effRes != 0 && (storedTs%effRes != 0 || storedTs > e.clampedTs || uint64(storedTs)+uint64(effRes) <= uint64(e.clampedTs)) {
			h.fail("lowres_rounding", what+fmt.Sprintf(" keyts=%d clamped=%d", storedTs, e.clampedTs))
		}
	}
}

func (h *hist) flush(now time.Time) {
	cur0, snd0 := h.q.Times()
	full0 := h.q.ChanLen()
	gap, st := h.q.Flush(now)
	cur, snd := h.q.Times()
	l := h.q.ChanLen()
	if gap > 0 {
		h.kinds["gap"] = true
	}
	sent := uint32(0)
	if l > full0 {
		sent = 1
	}
	_ = sent
	if snd-snd0 >= uint32(consts.QueueLen) {
		h.jumps++
		h.kinds["jump-ahead"] = true
	}
	if cur != cur0 && int64(cur)-int64(cur0) < 0 {
		h.fail("current_time_went_back", fmt.Sprintf("%d -> %d", cur0, cur))
	}
	ms := int64(now.Nanosecond() / 1000000)
	nowT := fmt.Sprintf("(R %s)", vu.Z(now.Unix()-int64(h.base)))
	if d := now.Unix() - int64(h.base); d <= -100000 || d >= 100000 {
		nowT = fmt.Sprintf("(A %s)", vu.Z(now.Unix()))
	}
	h.ops = append(h.ops, fmt.Sprintf("Fl %s %d %s %s %s %s %d", nowT, ms, vu.Z(gap), tsv(h.base, st), tsv(h.base, cur), tsv(h.base, snd), l))
}

// shutdown: the REAL Agent.ShutdownFlusher + Agent.FlushAllData, a goroutine playing the preprocessor
func (h *hist) flushAll() {
	var bs []string
	for _, b := range h.q.ShutdownAndFlushAllData() {
		h.received(b.Time, b.Items)
		bs = append(bs, fmt.Sprintf("(%s, %s)", tsv(h.base, b.Time), itemsTerm(h.base, b.Items)))
	}
	h.ops = append(h.ops, "Fa ["+strings.Join(bs, "; ")+"]")
}

// end of every history: stop, flush everything, every accepted event delivered exactly once, ring empty
func (h *hist) finish(o *vu.Out, input string, extraKinds ...string) {
	h.stopped = true
	h.ops = append(h.ops, "St")
	h.flushAll()
	nAcc := 0
	for _, e := range h.evs {
		if e.accepted {
			nAcc++
			if e.delivered != 1 {
				h.fail("delivered_exactly_once", fmt.Sprintf("id=%d ts=%d res=%d delivered %d times", e.id, e.ts, e.res, e.delivered))
			}
		}
	}
	for idx := 0; idx < int(consts.QueueLen); idx++ {
		if len(h.q.RingItems(idx)) != 0 {
			h.fail("delivered_exactly_once", fmt.Sprintf("ring slot %d not empty after FlushAllData", idx))
		}
	}
	input += fmt.Sprintf(" ops=%d accepted=%d", len(h.ops), nAcc)
	term := fmt.Sprintf("CHist %d %d %d %d [%s]", h.base, h.hw[0], h.hw[1], h.stres, strings.Join(h.ops, "; "))
	var kinds []string
	for k := range h.kinds {
		kinds = append(kinds, "hist/"+k)
	}
	sort.Strings(kinds)
	kinds = append(kinds, extraKinds...)
	nontrivial := h.kinds["accepted"] && h.kinds["bucket"]
	line := o.Case(input, term, nontrivial, kinds...)
	for _, f := range h.fails {
		p := strings.SplitN(f, "\x00", 2)
		o.Fail(p[0], line, input+" :: "+p[1])
	}
}

// one explicit row: resolution, timestamp and resolution hash chosen by the caller
func (h *hist) applyExact(res int, ts uint32, hash uint64, kind int) {
	cur, snd := h.q.Times()
	meta := &format.MetricMetaValue{MetricID: 3, EffectiveResolution: res}
	h.nextID++
	id := h.nextID
	key := data_model.Key{Timestamp: ts, Metric: 3}
	key.Tags[1] = id
	h.q.Apply(kind, &key, hash, meta, 0)
	idx, storedTs, n := h.q.Find(id)
	e := &evInfo{id: id, ts: ts, res: uint32(res), accepted: n > 0, keyTs: storedTs, jumpsAt: h.jumps}
	e.clampedTs = ts
	if uint64(ts) > uint64(cur)+uint64(consts.FutureSlots) {
		e.clampedTs = cur + uint32(consts.FutureSlots)
		e.clamped = true
	}
	h.evs[id] = e
	obs := "None"
	if n > 0 {
		obs = fmt.Sprintf("(Some (%d, %s))", idx, tsv(h.base, storedTs))
		h.kinds["accepted"] = true
		if d := (uint32(idx) - snd) % uint32(consts.QueueLen); d >= 120 {
			h.kinds[fmt.Sprintf("slot-send+%d", d)] = true
		}
	}
	h.ops = append(h.ops, fmt.Sprintf("Ap %d %s (MI 3 %d false) %d (A 0) %s %s", id, tsv(h.base, ts), res, hash, vu.B(kind <= 2), obs))
	what := fmt.Sprintf("id=%d ts=%d res=%d hash=%d kind=%d cur=%d send=%d", id, ts, res, hash, kind, cur, snd)
	if n > 1 {
		h.fail("stored_in_two_slots", what)
	}
	if gap := int64(cur) - int64(snd) - consts.GapSlack; n == 0 && gap <= 0 {
		h.fail("dropped_without_reason", what)
	}
}

// Directed histories for the farthest ring slots (SendTime+120..127): the conveyor lags `lag` seconds behind the
// clock (preprocessor stalled with an empty bucket waiting in the channel, or just drained), rows of a low
// resolution are stamped with the allowed future second CurrentTime+futureSlots on a resolution boundary, and their
// resolution hashes select the LAST spread seconds. Variant 0: shutdown at once (ShutdownFlusher + FlushAllData).
// Variant 1: the preprocessor first takes the bucket that was waiting while the rows were filed, then shutdown.
// Variant 2: the conveyor resumes for queue_len+ seconds (flush/receive every second), then shutdown.
func runDirected(o *vu.Out, seed uint64, k int) {
	r := vu.NewRng(seed*1000003 + 900000 + uint64(k))
	resList := []int{60, 30, 20, 15}
	lag := 1 + k%5 // CurrentTime - SendTime when the rows arrive; 5 = the maximum without a gap
	res := resList[(k/5)%4]
	variant := (k / 20) % 3
	// cts = CurrentTime+futureSlots must be a multiple of res: SendTime = base-1, CurrentTime = base-1+lag
	base := uint32(1700000000+r.Intn(1000000))/uint32(res)*uint32(res) - uint32(lag) - uint32(consts.FutureSlots) + 1
	h := &hist{r: r, base: base, evs: map[int32]*evInfo{}, kinds: map[string]bool{}, lastT: -1, hw: [2]int32{5, 15},
		stres: uint32(format.BuiltinMetricMetaIngestionStatus.EffectiveResolution)}
	h.q = agent.NewVerifQueue(base, 5, 15, 1)
	at := func(sec int64, ms int64) time.Time { return time.Unix(int64(base)+sec, ms*1000000) }
	h.flush(at(0, 400)) // sends the (empty) bucket base-2: it now waits in the channel, SendTime = base-1
	for j := int64(1); j < int64(lag); j++ {
		h.flush(at(j, int64(r.Intn(1000)))) // channel full: nothing more is sent, CurrentTime advances
	}
	if variant == 0 && r.Bool() {
		h.drain(true)
	}
	cur, _ := h.q.Times()
	cts := cur + uint32(consts.FutureSlots)
	hashFor := func(n int) uint64 { // smallest 32-bit hash whose fixed-point product selects spread second n
		return (uint64(n)<<32 + uint64(res) - 1) / uint64(res)
	}
	for _, n := range []int{res - 1, res - 2, res - 3, res - 1, 0} {
		ts := cts
		if r.Chance(25) {
			ts = cts + uint32(1+r.Intn(100)) // further in the future: clamped to the same second
		}
		hash := hashFor(n)
		if r.Bool() {
			hash |= r.U64() << 32
		}
		h.applyExact(res, ts, hash, r.Intn(6))
	}
	h.applyExact(res, cts-1, hashFor(res-1), 3)
	switch variant {
	case 1:
		h.drain(true) // the bucket that waited in the channel while the rows were filed
		h.flush(at(int64(lag), 500))
		h.drain(true)
	case 2:
		for j := int64(lag); j < int64(lag)+int64(consts.QueueLen)+3; j++ {
			h.drain(false)
			h.flush(at(j, 500))
		}
	}
	input := fmt.Sprintf("hist directed seed=%d k=%d base=%d clock=ok lag=%d res=%d variant=%d", seed, k, base, lag, res, variant)
	h.finish(o, input, "hist/directed", fmt.Sprintf("hist/directed-lag%d", lag), fmt.Sprintf("hist/directed-variant%d", variant))
}

func pickBase(r *vu.Rng) uint32 {
	switch r.Intn(20) {
	case 0:
		return uint32(128 + r.Intn(300)) // just above the u32 wrap of CurrentTime-125
	case 1:
		return uint32(2 + r.Intn(126)) // below it: `CurrentTime - 125` wraps (harmlessly, as long as SendTime = now-2 does not)
	case 2:
		return math.MaxUint32 - uint32(r.Intn(600)) // the end of uint32 time
	default:
		return 1700000000 + uint32(r.Intn(100000000))
	}
}

func runHistory(o *vu.Out, seed uint64, i int) {
	r := vu.NewRng(seed*1000003 + uint64(i))
	base := pickBase(r)
	hwc := []int32{5, 1, 15, 60, 2}
	h := &hist{r: r, base: base, evs: map[int32]*evInfo{}, kinds: map[string]bool{}, lastT: -1,
		hw: [2]int32{hwc[r.Intn(len(hwc))], hwc[r.Intn(len(hwc))]}, stres: uint32(format.BuiltinMetricMetaIngestionStatus.EffectiveResolution)}
	h.u32wrap = base > math.MaxUint32-1000
	h.q = agent.NewVerifQueue(base, h.hw[0], h.hw[1], 1)
	nowMs := int64(base)*1000 + int64(r.Intn(1000))
	mode := r.Intn(5) // 0 monotone, 1 with pauses, 2 with jumps, 3 with backward steps, 4 stuck conveyor
	modeName := []string{"monotone", "pauses", "jumps", "backward", "stuck"}[mode]
	nops := 10 + r.Intn(50)
	for k := 0; k < nops; k++ {
		x := r.Intn(100)
		switch {
		case x < 55:
			h.apply()
		case x < 88:
			// clock step
			switch {
			case mode == 1 && r.Chance(15):
				nowMs += int64(2000 + r.Intn(200000))
			case mode == 2 && r.Chance(20):
				nowMs += int64(r.Pick(300000, -300000, 125000, 126000, 127000, 128000, 129000, 130000, 253000, 256000, 5000, 6000, 7000, 120000, 121000))
			case mode == 3 && r.Chance(30):
				nowMs -= int64(r.Intn(5000))
			default:
				nowMs += int64(r.Pick(0, 100, 300, 500, 700, 1000, 1000, 1300, 1500, 2000))
			}
			if nowMs < 0 {
				nowMs = 0
			}
			if nowMs/1000 > math.MaxUint32 {
				nowMs = int64(math.MaxUint32) * 1000
			}
			h.flush(time.Unix(nowMs/1000, (nowMs%1000)*1000000))
			p := 90
			if mode == 4 {
				p = 25
			}
			if r.Chance(p) {
				h.drain(false)
			}
		case x < 94:
			h.drain(true)
		case x < 96 && k > nops/2:
			h.q.Stop()
			h.stopped = true
			h.kinds["stop"] = true
			h.ops = append(h.ops, "St")
		case x < 98:
			if h.q.ChanLen() != 0 {
				h.drain(false)
			}
			se := r.Bool()
			_, snd0 := h.q.Times()
			ret := h.q.Step(se)
			_, snd := h.q.Times()
			_ = snd0
			h.ops = append(h.ops, fmt.Sprintf("Sp %s %d %s", vu.B(se), ret, tsv(h.base, snd)))
		default:
			h.apply()
		}
	}
	clock := "ok"
	if h.u32wrap {
		clock = "u32wrap"
	}
	input := fmt.Sprintf("hist seed=%d i=%d base=%d clock=%s mode=%s hw=%d/%d", seed, i, base, clock, modeName, h.hw[0], h.hw[1])
	extra := []string{"hist/mode-" + modeName}
	if h.u32wrap {
		extra = append(extra, "hist/clock-u32wrap")
	}
	if base < 128 {
		extra = append(extra, "hist/clock-below-128")
	}
	h.finish(o, input, extra...)
}

// ---------- Agent.Map / OriginalMarshalAppend / two agents ----------

type tagSpec struct {
	index int
	kind  int // 0 unknown name, 1 plain, 2 raw ok, 3 raw invalid
	name  string
	value string
}

func mapMeta(res int, strategy string) *format.MetricMetaValue {
	m := &format.MetricMetaValue{MetricID: 77, Name: "verif_metric", Kind: format.MetricKindCounter, Resolution: res}
	m.Tags = make([]format.MetricMetaTag, 16)
	m.Tags[3].RawKind = "int"
	m.Tags[4].RawKind = "int64"
	m.Tags[7].Name = "color"
	_ = m.RestoreCachedInfo()
	m.ShardStrategy = strategy
	return m
}

// metrics of the events a worker handled before (they leave their bytes in the worker's scratch buffer)
func noiseMeta(k int, res int, strategy string) *format.MetricMetaValue {
	m := &format.MetricMetaValue{MetricID: int32(201 + k), Name: fmt.Sprintf("verif_noise_%d", k), Kind: format.MetricKindCounter, Resolution: res}
	m.Tags = make([]format.MetricMetaTag, 16)
	_ = m.RestoreCachedInfo()
	m.ShardStrategy = strategy
	return m
}

var plainValues = []string{"a", "b", "prod", "x1", "yy", "z"}

func genTags(r *vu.Rng) []tagSpec {
	n := r.Intn(7)
	var tags []tagSpec
	used := map[int]bool{}
	for len(tags) < n {
		idx := []int{0, 1, 2, 3, 4, 6, 7, 9, 15}[r.Intn(9)]
		if used[idx] && r.Chance(85) { // mostly distinct tags; sometimes a tag is set twice (then order matters by definition)
			continue
		}
		used[idx] = true
		t := tagSpec{index: idx, kind: 1, name: fmt.Sprintf("%d", idx)}
		if idx == 7 && r.Bool() {
			t.name = "color"
		}
		switch {
		case idx == 3 || idx == 4:
			t.kind = 2
			t.value = fmt.Sprintf("%d", r.Intn(1000))
			if r.Chance(15) {
				t.kind, t.value = 3, "q"+plainValues[r.Intn(len(plainValues))]
			}
		default:
			t.value = plainValues[r.Intn(len(plainValues))]
		}
		if r.Chance(8) {
			t.value = ""
		}
		tags = append(tags, t)
	}
	if r.Chance(20) {
		tags = append(tags, tagSpec{index: -100, kind: 0, name: "nosuchtag", value: "v"})
	}
	if r.Chance(20) {
		tags = append(tags, tagSpec{index: -2, kind: 1, name: "_h", value: "host" + plainValues[r.Intn(3)]})
	}
	return tags
}

func metricBytes(tags []tagSpec, ts uint32) *tlstatshouse.MetricBytes {
	m := &tlstatshouse.MetricBytes{Name: []byte("verif_metric"), Counter: 1, Ts: ts}
	for _, t := range tags {
		m.Tags = append(m.Tags, tl.DictFieldStringStringBytes{Key: []byte(t.name), Value: []byte(t.value)})
	}
	return m
}

func distinctIdx(tags []tagSpec) bool {
	seen := map[int]bool{}
	for _, t := range tags {
		if seen[t.index] {
			return false
		}
		seen[t.index] = true
	}
	return true
}

func runMap(o *vu.Out, seed uint64, i int) {
	r := vu.NewRng(seed*1000003 + uint64(i))
	res := []int{1, 5, 15, 60, 5, 15, 60}[r.Intn(7)]
	strategy := format.ShardByMetricID
	if r.Bool() {
		strategy = format.ShardByTagsHash // sharding marshals the MAPPED key into the worker's scratch
	}
	meta := mapMeta(res, strategy)
	tags := genTags(r)
	base := uint32(1700000000 + r.Intn(1000000))
	ts := base + uint32(r.Intn(5)) - 1
	numShards := 1
	secondary := r.Chance(35)
	var start uint32
	if secondary { // primary shard 0, secondary shard 1 with a start time
		numShards = 2
		meta.ShardStrategy = format.ShardFixed
		meta.ShardFixedKey = 1
		meta.ShardFixedKey2 = 2
		start = uint32(int64(base) + r.Pick(-10, -1, 0, 1, 2, 1000, int64(ts)-int64(base), int64(ts)-int64(base)-int64(res)))
		if start == 0 {
			start = 1
		}
		meta.ShardFixedKey2Timestamp = start
	}
	// agent A: empty cache, tags as given. agent B: some values cached, tags permuted, another conveyor position.
	// Each agent has ONE scratch buffer reused across its events, as a receiver worker has.
	qa := agent.NewVerifQueue(base, 5, 15, numShards)
	qb := agent.NewVerifQueue(base, 5, 15, numShards)
	for k, v := range plainValues {
		if r.Bool() {
			qb.AddMapping(base, v, int32(100+k))
		}
	}
	var scratchA, scratchB []byte
	doMap := func(q *agent.VerifQueue, mt *format.MetricMetaValue, tg []tagSpec, t uint32, scratch *[]byte) (*data_model.MappedMetricHeader, *tlstatshouse.MetricBytes) {
		m := metricBytes(tg, t)
		m.Name = []byte(mt.Name)
		h := &data_model.MappedMetricHeader{ReceiveTime: time.Unix(int64(base), 0), MetricMeta: mt}
		h.Key.Metric = mt.MetricID
		h.Key.Timestamp = t
		q.MapEvent(m, h, scratch)
		return h, m
	}
	// different earlier events on the two workers
	prior := func(q *agent.VerifQueue, scratch *[]byte) int {
		n := r.Intn(4)
		for k := 0; k < n; k++ {
			st := format.ShardByMetricID
			if r.Bool() {
				st = format.ShardByTagsHash
			}
			nm := noiseMeta(r.Intn(3), []int{1, 5, 60}[r.Intn(3)], st)
			var tg []tagSpec
			for t := 0; t < r.Intn(5); t++ {
				v := plainValues[r.Intn(len(plainValues))]
				if r.Chance(30) {
					v = strings.Repeat(v, 5+r.Intn(10)) // long values
				}
				idx := 1 + r.Intn(14)
				tg = append(tg, tagSpec{index: idx, kind: 1, name: fmt.Sprintf("%d", idx), value: v})
			}
			h, m := doMap(q, nm, tg, base, scratch)
			if h.IngestionStatus == 0 {
				q.ApplyMetric(m, h, scratch)
			}
		}
		return n
	}
	nA := prior(qa, &scratchA)
	nB := prior(qb, &scratchB)
	perm := append([]tagSpec(nil), tags...)
	for k := len(perm) - 1; k > 0; k-- {
		j := r.Intn(k + 1)
		perm[k], perm[j] = perm[j], perm[k]
	}
	ha, ma := doMap(qa, meta, tags, ts, &scratchA)
	hb, mb := doMap(qb, meta, perm, ts, &scratchB)
	bytesA := ha.OriginalMarshalAppend(nil)
	bytesB := hb.OriginalMarshalAppend(nil)
	_, hashA := ha.OriginalHash(nil)
	_, hashB := hb.OriginalHash(nil)
	// OriginalHash on a scratch that still holds other bytes (what the worker's buffer holds now, or some bytes)
	dirty := append([]byte(nil), scratchA...)
	if len(dirty) == 0 || r.Chance(30) {
		dirty = nil
		for k := 0; k < 1+r.Intn(8); k++ {
			dirty = append(dirty, byte(r.Intn(256)))
		}
	}
	if len(dirty) > 12 {
		dirty = dirty[:12]
	}
	hashedDirty, hashDirty := ha.OriginalHash(append(make([]byte, 0, 64), dirty...))
	hashedDirty = append([]byte(nil), hashedDirty...)
	var tt []string
	var desc []string
	for _, t := range tags {
		tt = append(tt, fmt.Sprintf("(%s, %d, %s)", vu.Z(int64(t.index)), t.kind, vu.Bytes([]byte(t.value))))
		desc = append(desc, fmt.Sprintf("%s=%q", t.name, t.value))
	}
	input := fmt.Sprintf("map seed=%d i=%d res=%d shard=%s secondary_start=%d ts=%d base=%d prior=%d/%d tags=[%s]", seed, i, res, meta.ShardStrategy, start, ts, base, nA, nB, strings.Join(desc, " "))
	term := fmt.Sprintf("CMap %d [%s] %s %s %s", meta.MetricID, strings.Join(tt, "; "), vu.Bytes(bytesA), vu.Bytes(dirty), vu.Bytes(hashedDirty))
	kinds := []string{"map", "map/shard-" + meta.ShardStrategy}
	distinct := distinctIdx(tags)
	if distinct {
		kinds = append(kinds, "map/distinct-tags")
	}
	if secondary {
		kinds = append(kinds, "map/secondary-shard")
	}
	if len(scratchA) != 0 || len(scratchB) != 0 {
		kinds = append(kinds, "map/worker-scratch-dirty")
	}
	line := o.Case(input, term, len(tags) > 0, kinds...)
	if ha.IngestionStatus != 0 || hb.IngestionStatus != 0 {
		o.Fail("map_rejected_valid_event", line, input)
		return
	}
	if hashDirty != hashA || string(hashedDirty) != string(bytesA) {
		o.Fail("original_hash_depends_on_cache_or_order", line, input+fmt.Sprintf(" :: OriginalHash over a scratch holding %d leftover bytes hashes %d bytes, over an empty one %d", len(dirty), len(hashedDirty), len(bytesA)))
	}
	if distinct {
		if string(bytesA) != string(bytesB) || hashA != hashB {
			o.Fail("original_hash_depends_on_cache_or_order", line, input)
		}
	}
	// the same event through ApplyMetric on both agents; B's conveyor state differs but the row is late on neither
	type got struct {
		t     uint32
		items []agent.VerifQueueItem
	}
	step := func(q *agent.VerifQueue, ms int64) []got {
		var out []got
		for sh := 0; sh < q.NumShards(); sh++ {
			qs := q.Shard(sh)
			qs.Flush(time.Unix(ms/1000, (ms%1000)*1000000))
			if t, items, ok := qs.Drain(); ok {
				out = append(out, got{t, items})
			}
		}
		return out
	}
	nowMs := int64(base)*1000 + 400
	if r.Bool() { // B already sent second base-2 and base-1, A did not
		step(qb, nowMs)
		step(qb, nowMs+1)
	}
	curA, sndA := qa.Times()
	curB, sndB := qb.Times()
	notLate := ts >= sndA && ts >= sndB && ts <= curA+uint32(consts.FutureSlots) && ts <= curB+uint32(consts.FutureSlots)
	qa.ApplyMetric(ma, ha, &scratchA)
	qb.ApplyMetric(mb, hb, &scratchB)
	if secondary {
		// "dropped on a secondary shard only before its configured start time": the OK status row has the implicit
		// timestamp 0 (= current second), the event row its rounded timestamp
		for name, q := range map[string]*agent.VerifQueue{"A": qa, "B": qb} {
			cur, _ := q.Times()
			cts := ts
			if cts > cur+uint32(consts.FutureSlots) {
				cts = cur + uint32(consts.FutureSlots)
			}
			kts := (cts / uint32(res)) * uint32(res)
			haveStatus, haveRow := false, false
			for idx := 0; idx < int(consts.QueueLen); idx++ {
				for _, it := range q.Shard(1).RingItems(idx) {
					if it.Status && it.ID == agent.VerifQueueStatusOK() && it.Metric == meta.MetricID {
						haveStatus = true
					}
					if !it.Status && it.Metric == meta.MetricID {
						haveRow = true
					}
				}
			}
			if cur >= start && !haveStatus {
				o.Fail("dropped_after_secondary_start", line, input+fmt.Sprintf(" :: agent %s: status row with implicit timestamp (current second %d) missing on the secondary shard", name, cur))
			}
			if kts >= start && !haveRow {
				o.Fail("dropped_after_secondary_start", line, input+fmt.Sprintf(" :: agent %s: event row keyts=%d missing on the secondary shard", name, kts))
			}
		}
	}
	find := func(q *agent.VerifQueue) (uint32, int) {
		found, at := 0, uint32(0)
		for k := 0; k < 200; k++ {
			nowMs2 := nowMs + int64(k)*1000
			for {
				bs := step(q, nowMs2)
				if len(bs) == 0 {
					break
				}
				for _, b := range bs {
					for _, it := range b.items {
						if !it.Status && it.Metric == meta.MetricID {
							found++
							at = b.t
						}
					}
				}
			}
		}
		return at, found
	}
	ta, na := find(qa)
	tb, nb := find(qb)
	if !secondary {
		if na != 1 || nb != 1 {
			o.Fail("delivered_exactly_once", line, input+fmt.Sprintf(" :: ApplyMetric row delivered %d/%d times", na, nb))
		} else if distinct && notLate && ta != tb {
			o.Fail("same_series_different_second", line, input+fmt.Sprintf(" :: agent A sends in %d, agent B in %d", ta, tb))
		}
		if na == 1 && ta < ts && notLate {
			o.Fail("bucket_before_timestamp", line, input+fmt.Sprintf(" :: ts=%d bucket=%d", ts, ta))
		}
	} else if na > 2 || nb > 2 || na < 1 || nb < 1 {
		o.Fail("delivered_exactly_once", line, input+fmt.Sprintf(" :: ApplyMetric row delivered %d/%d times over two shards", na, nb))
	}
}

// F-C08a: the witness of AgentQueue/ProofsHist.v u32_time_wrap_witness on the real code. An agent started 3 s before
// 2^32 gets an event stamped "now": CurrentTime+3 wraps to 0, the event is "clamped" to timestamp 0 and sent in
// bucket now-2, i.e. before its own timestamp.
func findingU32Wrap(o *vu.Out) {
	const now = uint32(math.MaxUint32 - 2) // 4294967293
	q := agent.NewVerifQueue(now, 5, 15, 1)
	key := data_model.Key{Timestamp: now, Metric: 1}
	key.Tags[1] = 1
	meta := &format.MetricMetaValue{MetricID: 1, EffectiveResolution: 1}
	q.Apply(3, &key, 0, meta, 0)
	idx, kts, n := q.Find(1)
	obs := "None"
	if n > 0 {
		obs = fmt.Sprintf("(Some (%d, %s))", idx, tsv(now, kts))
	}
	var bs []string
	bucket := int64(-1)
	for _, b := range q.ShutdownAndFlushAllData() {
		bs = append(bs, fmt.Sprintf("(%s, %s)", tsv(now, b.Time), itemsTerm(now, b.Items)))
		for _, it := range b.Items {
			if !it.Status && it.ID == 1 {
				bucket = int64(b.Time)
			}
		}
	}
	input := fmt.Sprintf("hist witness=F-C08a base=%d clock=u32wrap event ts=%d stored ts=%d bucket=%d", now, now, kts, bucket)
	term := fmt.Sprintf("CHist %d 5 15 %d [Ap 1 (R 0) (MI 1 1 false) 0 (A 0) false %s; St; Fa [%s]]", now, format.BuiltinMetricMetaIngestionStatus.EffectiveResolution, obs, strings.Join(bs, "; "))
	line := o.Case(input, term, true, "hist/witness-F-C08a")
	if bucket >= 0 && bucket < int64(now) {
		o.Finding("F-C08a", "reproduced")
		o.Fail("bucket_before_timestamp@u32wrap", line, input)
	} else {
		o.Finding("F-C08a", "gone")
	}
}

func main() {
	seed := flag.Uint64("seed", 1, "")
	n := flag.Int("n", 300, "")
	out := flag.String("out", "", "")
	flag.Parse()
	o := vu.NewOut(*out)
	defer o.Close()
	findingU32Wrap(o)
	nd := 60 // lag 1..5 x resolution 60/30/20/15 x 3 variants
	if *n < 60 {
		nd = *n
	}
	for k := 0; k < nd+*n/20; k++ {
		runDirected(o, *seed, k)
	}
	for i := 0; i < *n; i++ {
		if i%4 == 3 {
			runMap(o, *seed, i)
		} else {
			runHistory(o, *seed, i)
		}
	}
}
