//go:build verif

// Translator for C09: dumps the constants of internal/agent/disk_cache.go (magics, header size, rotation
// and chunk limits) of the current tree as Gallina definitions (Gen/DiskCacheConsts.v).
package main

import (
	"flag"
	"fmt"
	"os"

	"github.com/VKCOM/statshouse/internal/agent"
)

func main() {
	out := flag.String("out", "", "")
	flag.Parse()
	c := agent.VerifDiskCacheConsts()
	s := "(* GENERATED on every run by harness/go/cmd/verif-gen-diskcache from /repo's internal/agent/disk_cache.go — do not edit *)\n" +
		"From Coq Require Import ZArith.\nOpen Scope Z_scope.\n"
	s += fmt.Sprintf("Definition magic_good : Z := %d.\n", c.MagicGood)
	s += fmt.Sprintf("Definition magic_deleted : Z := %d.\n", c.MagicDeleted)
	s += fmt.Sprintf("Definition header_size : Z := %d.\n", c.HeaderSize)
	s += fmt.Sprintf("Definition file_rotate_size : Z := %d.\n", c.FileRotateSize)
	s += fmt.Sprintf("Definition max_chunk_size : Z := %d.\n", c.MaxChunkSize)
	s += fmt.Sprintf("Definition file_rotate_interval_sec : Z := %d.\n", c.FileRotateIntervalSec)
	if err := os.WriteFile(*out, []byte(s), 0o644); err != nil {
		panic(err)
	}
}
