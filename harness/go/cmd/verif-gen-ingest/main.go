//go:build verif

// Translator for C12: dumps the constants the ingestion model uses (ingestion status codes, MaxFloat32, tag index
// conventions, builtin metric ids of the two ingestion-status metrics, superQueueFutureSlots) of the current tree
// as Gallina definitions (Gen/IngestConsts.v). The side conditions IngestConsts_ok of Ingest/Proofs.v are proved
// over these values, so a changed status code / limit re-opens the proofs.
package main

import (
	"flag"
	"fmt"
	"math"
	"math/big"
	"os"

	"github.com/VKCOM/statshouse/internal/agent"
	"github.com/VKCOM/statshouse/internal/format"
)

func main() {
	out := flag.String("out", "", "")
	flag.Parse()
	s := "(* GENERATED on every run by harness/go/cmd/verif-gen-ingest from /repo's internal/format (builtin_tags.go,\n" +
		"   builtin_metrics.go, format.go), internal/agent/agent_shard.go and Go's math.MaxFloat32 — do not edit *)\n" +
		"From Coq Require Import ZArith.\nOpen Scope Z_scope.\n"
	d := func(name string, v int64) {
		if v < 0 {
			s += fmt.Sprintf("Definition %s : Z := (%d).\n", name, v)
		} else {
			s += fmt.Sprintf("Definition %s : Z := %d.\n", name, v)
		}
	}
	d("st_ok_cached", format.TagValueIDSrcIngestionStatusOKCached)
	d("st_err_nan_inf_value", format.TagValueIDSrcIngestionStatusErrNanInfValue)
	d("st_err_nan_inf_counter", format.TagValueIDSrcIngestionStatusErrNanInfCounter)
	d("st_err_negative_counter", format.TagValueIDSrcIngestionStatusErrNegativeCounter)
	d("st_warn_tag_name_not_found", format.TagValueIDSrcIngestionStatusWarnMapTagNameNotFound)
	d("st_err_tag_value_encoding", format.TagValueIDSrcIngestionStatusErrMapTagValueEncoding)
	d("st_err_metric_disabled", format.TagValueIDSrcIngestionStatusErrMetricDisabled)
	d("st_warn_tag_set_twice", format.TagValueIDSrcIngestionStatusWarnMapTagSetTwice)
	d("st_warn_deprecated_key_name", format.TagValueIDSrcIngestionStatusWarnDeprecatedKeyName)
	d("st_err_tag_name_encoding", format.TagValueIDSrcIngestionStatusErrMapTagNameEncoding)
	d("st_err_value_unique_both_set", format.TagValueIDSrcIngestionStatusErrValueUniqueBothSet)
	d("st_warn_invalid_raw_tag_value", format.TagValueIDSrcIngestionStatusWarnMapInvalidRawTagValue)
	d("st_warn_tag_name_found_draft", format.TagValueIDSrcIngestionStatusWarnMapTagNameFoundDraft)
	d("st_err_sharding_failed", format.TagValueIDSrcIngestionStatusErrShardingFailed)
	d("st_warn_ts_clamped_future", format.TagValueIDSrcIngestionStatusWarnTimestampClampedFuture)
	d("st_err_too_big_counter", format.TagValueIDSrcIngestionStatusErrTooBigCounter)
	d("st_err_too_big_value", format.TagValueIDSrcIngestionStatusErrTooBigValue)
	d("st_err_zero_counter", format.TagValueIDSrcIngestionStatusErrZeroCounter)
	d("st_err_tag_value_corrupted", format.TagValueIDSrcIngestionStatusErrMapTagValueCorrupted)
	d("component_agent", format.TagValueIDComponentAgent)
	d("max_tags", format.MaxTags)
	d("tag_id_shift", format.TagIDShift)
	d("host_tag_index", format.HostTagIndex)
	d("string_top_index", format.StringTopTagIndexV3)
	d("metric_ingestion_status", int64(format.BuiltinMetricMetaIngestionStatus.MetricID))
	d("metric_ingestion_status_no_shard", int64(format.BuiltinMetricMetaIngestionStatusNoShard.MetricID))
	d("ingest_future_slots", agent.VerifQueueConsts().FutureSlots)
	d("hex_max_src", format.MaxStringLen/2)
	mf, _ := new(big.Float).SetFloat64(math.MaxFloat32).Int(nil)
	s += "(* math.MaxFloat32 = (2^24-1)*2^104, an integer *)\n"
	s += fmt.Sprintf("Definition max_float32 : Z := %s.\n", mf.String())
	if err := os.WriteFile(*out, []byte(s), 0o644); err != nil {
		panic(err)
	}
}
