//go:build verif

// Correspondence harness for C17 (binlog-backed SQLite engine).
//
// Drives the real sqlite.OpenEngine (real SQLite through the overlay link shim) with a key-value schema and a
// scripted in-memory binlog.Binlog that follows fsbinlog's calling protocol (reader loop: Apply/Skip/Commit/
// ChangeRole; writer: padded Append, service levs, Commit after "fsync"). One case = one whole history; after
// every step the engine state is observed (write tx, committed db through View, offsets, acknowledgements) and the
// database files are copied = a crash image, which is reopened against a surviving binlog prefix.
// Property oracles are evaluated here on the Go side (o.Fail); the Coq model replays the same history.
package main

import (
	"context"
	"encoding/binary"
	"errors"
	"flag"
	"fmt"
	"io"
	"log"
	"os"
	"path/filepath"
	"runtime"
	"strings"
	"sync"
	"sync/atomic"
	"time"

	"github.com/VKCOM/statshouse/internal/sqlite"
	vu "github.com/VKCOM/statshouse/internal/verifutil"
	"github.com/VKCOM/statshouse/internal/vkgo/binlog"
	"github.com/VKCOM/statshouse/internal/vkgo/binlog/fsbinlog"
)

const (
	nKeys     = 3
	magicUser = uint32(0x0c17e001)
	magicSvc  = uint32(0x0c17e0ff)
	svcSize   = 20
	scheme    = "CREATE TABLE IF NOT EXISTS kv (k INTEGER PRIMARY KEY, v INTEGER NOT NULL);"
	never     = time.Duration(1<<63 - 1)
	always    = time.Duration(-1)
)

var errCallback = errors.New("verif: callback fails")

// ---------------------------------------------------------------- events

type lev struct {
	svc  bool
	k    int
	set  bool
	x    int64
	junk int
}

func (l lev) raw() []byte { // unpadded, as the callback returns it
	if l.svc {
		b := make([]byte, svcSize)
		binary.LittleEndian.PutUint32(b, magicSvc)
		return b
	}
	b := make([]byte, 16+l.junk)
	binary.LittleEndian.PutUint32(b, magicUser)
	b[4] = byte(l.k)
	if l.set {
		b[5] = 1
	}
	binary.LittleEndian.PutUint16(b[6:], uint16(l.junk))
	binary.LittleEndian.PutUint64(b[8:], uint64(l.x))
	for i := 0; i < l.junk; i++ {
		b[16+i] = byte(0xA0 + i)
	}
	return b
}
func (l lev) size() int { return fsbinlog.AddPadding(len(l.raw())) }
func (l lev) padded() []byte {
	b := l.raw()
	for len(b)%4 != 0 {
		b = append(b, 0)
	}
	return b
}
func (l lev) term() string {
	if l.svc {
		return "LSvc"
	}
	kd := "KAdd"
	if l.set {
		kd = "KSet"
	}
	return fmt.Sprintf("(LUser %d %s %s %d)", l.k, kd, vu.Z(l.x), l.junk)
}
func (l lev) text() string {
	if l.svc {
		return "svc"
	}
	op := "+="
	if l.set {
		op = ":="
	}
	return fmt.Sprintf("k%d%s%d,j%d", l.k, op, l.x, l.junk)
}

func parseOne(data []byte) (l lev, n int, err error) {
	if len(data) < 4 {
		return l, 0, binlog.ErrorNotEnoughData
	}
	switch binary.LittleEndian.Uint32(data) {
	case magicUser:
	default:
		return l, 0, binlog.ErrorUnknownMagic
	}
	if len(data) < 16 {
		return l, 0, binlog.ErrorNotEnoughData
	}
	l.k = int(data[4])
	l.set = data[5] == 1
	l.junk = int(binary.LittleEndian.Uint16(data[6:]))
	l.x = int64(binary.LittleEndian.Uint64(data[8:]))
	n = fsbinlog.AddPadding(16 + l.junk)
	if len(data) < n {
		return l, 0, binlog.ErrorNotEnoughData
	}
	return l, n, nil
}

func applyFn(scan bool) sqlite.ApplyEventFunction {
	return func(conn sqlite.Conn, offset int64, data []byte) (int, error) {
		read := 0
		for len(data) > 0 {
			l, n, err := parseOne(data)
			if err != nil {
				return read, err
			}
			if !scan {
				if err := execLev(conn, l); err != nil {
					return read, err
				}
			}
			data = data[n:]
			read += n
		}
		return read, nil
	}
}

func execLev(conn sqlite.Conn, l lev) error {
	var err error
	if l.set {
		_, err = conn.Exec("kv_set", "INSERT INTO kv(k,v) VALUES($k,$x) ON CONFLICT(k) DO UPDATE SET v = $x", sqlite.Int64("$k", int64(l.k)), sqlite.Int64("$x", l.x))
	} else {
		_, err = conn.Exec("kv_add", "INSERT INTO kv(k,v) VALUES($k,$x) ON CONFLICT(k) DO UPDATE SET v = v + $x", sqlite.Int64("$k", int64(l.k)), sqlite.Int64("$x", l.x))
	}
	return err
}

// reference semantics of a byte string of levs (Go side, independent of the Coq model)
type kvState [nKeys]int64

func refApply(kv kvState, l lev) kvState {
	if l.svc || l.k >= nKeys {
		return kv
	}
	if l.set {
		kv[l.k] = l.x
	} else {
		kv[l.k] += l.x
	}
	return kv
}

func sizeOf(ls []lev) int64 {
	var s int64
	for _, l := range ls {
		s += int64(l.size())
	}
	return s
}

func refPrefix(ls []lev, off int64) (kv kvState, boundary bool) {
	var s int64
	for _, l := range ls {
		if s == off {
			return kv, true
		}
		if s > off {
			return kv, false
		}
		kv = refApply(kv, l)
		s += int64(l.size())
	}
	return kv, s == off
}

// ---------------------------------------------------------------- scripted binlog

type mockBinlog struct {
	mu       sync.Mutex
	buf      []byte
	torn     []byte // partial lev after buf, present in the "file" at restart only
	durable  int64
	replica  bool
	engine   binlog.Engine
	stop     chan struct{}
	stopOnce sync.Once
	nextSvc  bool
	nextSync bool
	appended int
	protoErr error
}

func newMock(buf []byte, torn []byte, replica bool) *mockBinlog {
	return &mockBinlog{buf: append([]byte(nil), buf...), torn: torn, replica: replica, stop: make(chan struct{})}
}

func isEOFErr(err error) bool {
	return errors.Is(err, binlog.ErrorNotEnoughData) || errors.Is(err, io.EOF) || errors.Is(err, io.ErrUnexpectedEOF)
}

// Run follows fsbinlog's readUncompressedFile loop, then (master) WriteLoop's Commit + ChangeRole.
func (b *mockBinlog) Run(offset int64, snapshotMeta []byte, controlMeta []byte, engine binlog.Engine) error {
	b.mu.Lock()
	b.engine = engine
	if offset < 0 || offset > int64(len(b.buf)) {
		b.mu.Unlock()
		return fmt.Errorf("verif: engine asks for offset %d beyond binlog end %d", offset, len(b.buf))
	}
	pos := offset
	data := append(append([]byte(nil), b.buf[offset:]...), b.torn...)
	b.mu.Unlock()
	unknown := false
loop:
	for len(data) >= 4 {
		if binary.LittleEndian.Uint32(data) == magicSvc {
			if len(data) < svcSize {
				break
			}
			newPos, err := engine.Skip(svcSize)
			if err != nil {
				return fmt.Errorf("Engine.Skip return error %w", err)
			}
			if newPos != pos+svcSize {
				return fmt.Errorf("Engine.Skip return new position %d, expect %d", newPos, pos+svcSize)
			}
			pos += svcSize
			data = data[svcSize:]
			unknown = false
			continue
		}
		if unknown {
			return binlog.ErrorUnknownMagic
		}
		aligned := data[:len(data)-len(data)%4]
		newPos, perr := engine.Apply(aligned)
		if newPos < pos {
			return fmt.Errorf("apply lev: new position (%d) is less than preceous (%d)", newPos, pos)
		}
		rb := int(newPos - pos)
		if rb > len(aligned) {
			return fmt.Errorf("engine declared to read %d bytes, but payload buffer only have %d bytes", rb, len(aligned))
		}
		if rb <= 0 && perr == nil {
			return fmt.Errorf("engine Apply(...) call didnt read any bytes nor return any error")
		}
		rb = fsbinlog.AddPadding(rb)
		pos += int64(rb)
		data = data[rb:]
		if perr != nil {
			switch {
			case errors.Is(perr, binlog.ErrorUnknownMagic):
				unknown = true
				continue
			case isEOFErr(perr):
				break loop
			default:
				return fmt.Errorf("Engine.Apply return error %w", perr)
			}
		}
		unknown = false
	}
	b.mu.Lock()
	if pos < int64(len(b.buf)) {
		b.protoErr = fmt.Errorf("replay stopped at %d before binlog end %d", pos, len(b.buf))
	}
	b.torn = nil
	b.durable = pos
	b.mu.Unlock()
	meta := binary.AppendVarint(nil, pos)
	if err := engine.Commit(pos, meta, pos); err != nil {
		return fmt.Errorf("Engine.Commit return error %w", err)
	}
	if err := engine.ChangeRole(binlog.ChangeRoleInfo{IsMaster: !b.replica, IsReady: true}); err != nil {
		return err
	}
	<-b.stop
	return nil
}

func (b *mockBinlog) doAppend(onOffset int64, payload []byte, asap bool) (int64, error) {
	b.mu.Lock()
	if onOffset != int64(len(b.buf)) {
		n := int64(len(b.buf))
		b.mu.Unlock()
		return n, fmt.Errorf("append get wrong offset, expect: %d, got: %d", n, onOffset)
	}
	b.buf = append(b.buf, payload...)
	for len(b.buf)%4 != 0 {
		b.buf = append(b.buf, 0)
	}
	if b.nextSvc {
		b.buf = append(b.buf, lev{svc: true}.raw()...)
	}
	b.appended++
	n := int64(len(b.buf))
	sync := b.nextSync && asap
	if sync {
		b.durable = n
	}
	b.nextSvc, b.nextSync = false, false
	b.mu.Unlock()
	if sync { // the writer goroutine fsyncs and delivers Commit before Append returns to the engine
		_ = b.engine.Commit(n, binary.AppendVarint(nil, n), n)
	}
	return n, nil
}
func (b *mockBinlog) Append(onOffset int64, payload []byte) (int64, error) {
	return b.doAppend(onOffset, payload, false)
}
func (b *mockBinlog) AppendASAP(onOffset int64, payload []byte) (int64, error) {
	return b.doAppend(onOffset, payload, true)
}
func (b *mockBinlog) AddStats(stats map[string]string)        {}
func (b *mockBinlog) EngineStatus(status binlog.EngineStatus) {}
func (b *mockBinlog) GetStartCmd() (binlog.StartCmd, bool)    { return binlog.StartCmd{}, false }
func (b *mockBinlog) RequestReindex(diff bool, fast bool)     {}
func (b *mockBinlog) RequestShutdown()                        { b.stopOnce.Do(func() { close(b.stop) }) }
func (b *mockBinlog) commit(off int64) error {
	return b.engine.Commit(off, binary.AppendVarint(nil, off), off)
}

// ---------------------------------------------------------------- one engine life

type ticket struct {
	code int64
	ch   chan struct{}
	off  int64 // offset that must be durable when acknowledged
}

type life struct {
	e       *sqlite.Engine
	bl      *mockBinlog
	dir     string
	wait    bool // WaitCommit
	replica bool
	levs    []lev // levs of bl.buf
	pending []ticket
	acked   []int64
}

func openLife(dir string, wait, replica bool, buf, torn []byte, levs []lev) (*life, error) {
	bl := newMock(buf, torn, replica)
	mode := sqlite.NoWaitCommit
	if wait {
		mode = sqlite.WaitCommit
	}
	e, err := sqlite.OpenEngine(sqlite.Options{
		Path: filepath.Join(dir, "db"), APPID: 17, Scheme: scheme, Replica: replica,
		CommitEvery: time.Hour, DurabilityMode: mode, MaxROConn: 2, CacheMaxSizePerConnect: 16,
	}, bl, applyFn(false), applyFn(true))
	if err != nil {
		bl.RequestShutdown()
		return nil, err
	}
	if bl.protoErr != nil {
		return nil, bl.protoErr
	}
	if !e.VerifParkTxLoop() {
		panic("verif: background txLoop did not stop")
	}
	e.VerifSetCommitEvery(never)
	return &life{e: e, bl: bl, dir: dir, wait: wait, replica: replica, levs: append([]lev(nil), levs...)}, nil
}

type dbObs struct {
	kv  kvState
	off int64
}

func readConn(c sqlite.Conn) (o dbObs, err error) {
	rows := c.Query("kv_all", "SELECT k, v FROM kv")
	for rows.Next() {
		k, _ := rows.ColumnInt64(0)
		v, _ := rows.ColumnInt64(1)
		if k >= 0 && k < nKeys {
			o.kv[k] = v
		}
	}
	if rows.Error() != nil {
		return o, rows.Error()
	}
	rows = c.Query("kv_off", "SELECT offset FROM __binlog_offset")
	if rows.Next() {
		o.off, _ = rows.ColumnInt64(0)
	} else {
		o.off = 0 // no row yet: binlogLoadOrCreatePosition reads this as position 0
	}
	return o, rows.Error()
}

func (l *life) readRW() (o dbObs, err error) {
	err = l.e.VerifRW(func(c sqlite.Conn) error {
		var err error
		o, err = readConn(c)
		return err
	})
	return
}
func (l *life) readView() (o dbObs, err error) {
	err = l.e.View(context.Background(), "verif_view", func(c sqlite.Conn) error {
		var err error
		o, err = readConn(c)
		return err
	})
	return
}

func (l *life) poll() {
	rest := l.pending[:0]
	for _, t := range l.pending {
		select {
		case <-t.ch:
			l.acked = append(l.acked, t.code)
		default:
			rest = append(rest, t)
		}
	}
	l.pending = rest
}

const mixM = 2147483647

func mix(h int64, x int64) int64 {
	x %= mixM
	if x < 0 {
		x += mixM
	}
	return (h*1000003 + x + 12345) % mixM
}

func sumDB(h int64, o dbObs) int64 {
	for _, v := range o.kv {
		h = mix(h, v)
	}
	return mix(h, o.off)
}

func copyImage(src, dst string) error {
	ents, err := os.ReadDir(src)
	if err != nil {
		return err
	}
	if err := os.MkdirAll(dst, 0o755); err != nil {
		return err
	}
	for _, en := range ents {
		if en.IsDir() {
			continue
		}
		b, err := os.ReadFile(filepath.Join(src, en.Name()))
		if err != nil {
			return err
		}
		if err := os.WriteFile(filepath.Join(dst, en.Name()), b, 0o644); err != nil {
			return err
		}
	}
	return nil
}

// ---------------------------------------------------------------- history driver

type hist struct {
	r        *vu.Rng
	o        *vu.Out
	root     string
	l        *life
	wait     bool
	replica  bool
	ops      []string // coq
	obs      []string // coq
	text     []string
	fails    []string // oracle name + detail, recorded when the case line is known
	kinds    map[string]bool
	nread    int
	images   int
	fullObs  bool
	debugOut []string
}

func (h *hist) fail(oracle, detail string) { h.fails = append(h.fails, oracle+"\x00"+detail) }

func (h *hist) durableLevs() (n int) { // number of whole levs inside the durable prefix
	h.l.bl.mu.Lock()
	d := h.l.bl.durable
	h.l.bl.mu.Unlock()
	var s int64
	for i, l := range h.l.levs {
		if s >= d {
			return i
		}
		s += int64(l.size())
	}
	return len(h.l.levs)
}

func (h *hist) syncLevs() { // re-derive lev list from the mock's bytes (after appends)
	h.l.bl.mu.Lock()
	buf := append([]byte(nil), h.l.bl.buf...)
	h.l.bl.mu.Unlock()
	var ls []lev
	for len(buf) > 0 {
		if binary.LittleEndian.Uint32(buf) == magicSvc {
			ls = append(ls, lev{svc: true})
			buf = buf[svcSize:]
			continue
		}
		l, n, err := parseOne(buf)
		if err != nil {
			panic("verif: mock binlog holds unparsable bytes: " + err.Error())
		}
		ls = append(ls, l)
		buf = buf[n:]
	}
	h.l.levs = ls
}

// observe: state checksum after a step + Go-side oracles on the live engine
func (h *hist) observe(step int) int64 {
	l := h.l
	l.poll()
	rw, err1 := l.readRW()
	view, err2 := l.readView()
	if err1 != nil || err2 != nil {
		h.fail("engine_readable", fmt.Sprintf("step %d: rw=%v view=%v", step, err1, err2))
	}
	eoff := l.e.VerifDBOffset()
	comm := l.e.VerifCommittedOffset()
	l.bl.mu.Lock()
	durable := l.bl.durable
	total := int64(len(l.bl.buf))
	l.bl.mu.Unlock()

	// oracle: write tx = application of a prefix of the binlog, stored offset marks its end
	if kv, ok := refPrefix(l.levs, rw.off); !ok || kv != rw.kv {
		h.fail("tx_db_is_binlog_prefix", fmt.Sprintf("step %d: stored offset %d kv %v, binlog prefix gives %v (boundary %v)", step, rw.off, rw.kv, kv, ok))
	}
	// oracle: what readers see = application of a prefix of the binlog, and (both binlog modes) of the durable binlog
	if kv, ok := refPrefix(l.levs, view.off); !ok || kv != view.kv {
		h.fail("view_is_binlog_prefix", fmt.Sprintf("step %d: committed offset %d kv %v, binlog prefix gives %v (boundary %v)", step, view.off, view.kv, kv, ok))
	}
	if view.off > durable {
		h.fail("committed_db_within_durable_binlog", fmt.Sprintf("step %d: sqlite committed offset %d > durable binlog %d", step, view.off, durable))
	}
	if view.off > rw.off || rw.off > eoff || eoff > total {
		h.fail("offsets_ordered", fmt.Sprintf("step %d: committed %d tx %d engine %d binlog %d", step, view.off, rw.off, eoff, total))
	}
	s := sumDB(0, rw)
	s = mix(s, eoff)
	s = mix(s, comm)
	s = sumDB(s, view)
	for _, c := range l.acked {
		s = mix(s, c)
	}
	if h.fullObs {
		h.debugOut = append(h.debugOut, fmt.Sprintf("  step %d: rw=%v view=%v eoff=%d comm=%d durable=%d total=%d acked=%v pending=%d", step, rw, view, eoff, comm, durable, total, l.acked, len(l.pending)))
	}
	return s
}

// crash image: copy the db files now, reopen against a surviving binlog prefix, compare with the binlog
func (h *hist) crashImage(step int) (keep int, sum int64) {
	l := h.l
	dl := h.durableLevs()
	keep = dl + h.r.Intn(len(l.levs)-dl+1)
	var torn []byte
	if keep < len(l.levs) && h.r.Chance(40) {
		p := l.levs[keep].padded()
		torn = p[:1+h.r.Intn(len(p)-1)]
	}
	keepBytes := sizeOf(l.levs[:keep])
	img := filepath.Join(h.root, fmt.Sprintf("img%d", h.images))
	h.images++
	defer os.RemoveAll(img)
	if err := copyImage(l.dir, img); err != nil {
		panic(err)
	}
	l.bl.mu.Lock()
	buf := append([]byte(nil), l.bl.buf[:keepBytes]...)
	l.bl.mu.Unlock()
	l2, err := openLife(img, h.wait, h.replica, buf, torn, l.levs[:keep])
	if err != nil {
		h.fail("restart_succeeds", fmt.Sprintf("step %d keep %d torn %d: %v", step, keep, len(torn), err))
		return keep, -1
	}
	rw, err := l2.readRW()
	eoff := l2.e.VerifDBOffset()
	_ = l2.e.VerifAbort()
	if err != nil {
		h.fail("restart_succeeds", fmt.Sprintf("step %d keep %d: read after restart: %v", step, keep, err))
		return keep, -1
	}
	want, _ := refPrefix(l.levs[:keep], keepBytes)
	if rw.kv != want || rw.off != keepBytes || eoff != keepBytes {
		h.fail("restart_equals_durable_binlog", fmt.Sprintf("step %d keep %d levs (%d bytes, torn tail %d): after restart kv %v stored offset %d engine offset %d, binlog gives %v", step, keep, keepBytes, len(torn), rw.kv, rw.off, eoff, want))
	}
	if h.fullObs {
		h.debugOut = append(h.debugOut, fmt.Sprintf("    image keep=%d torn=%d -> %v eoff=%d", keep, len(torn), rw, eoff))
	}
	return keep, mix(sumDB(0, rw), eoff)
}

func (h *hist) genLev() lev {
	l := lev{k: h.r.Intn(nKeys), set: h.r.Chance(30), junk: h.r.Intn(8)}
	switch h.r.Intn(4) {
	case 0:
		l.x = int64(h.r.Intn(2000)) - 1000
	default:
		l.x = int64(h.r.Intn(9)) + 1
	}
	return l
}

func bit(b bool, n uint) int {
	if b {
		return 1 << n
	}
	return 0
}

// doWrite: Engine.Do with a callback that changes the db and returns the event (or fails after the change)
func (h *hist) doWrite(step int) {
	l := h.l
	ev := h.genLev()
	failMode := 0 // 0 ok, 1 error after the change, 2 error before any statement, 3 SQL error after the change
	if h.r.Chance(18) {
		failMode = 1 + h.r.Intn(3)
	}
	svc := h.r.Chance(15)
	now := !h.wait && h.r.Chance(35)
	asap := h.wait || now
	sync := asap && h.r.Chance(20)
	before, _ := l.readRW()
	eoffBefore := l.e.VerifDBOffset()
	l.bl.mu.Lock()
	totalBefore := len(l.bl.buf)
	l.bl.nextSvc, l.bl.nextSync = svc, sync
	l.bl.mu.Unlock()
	if now {
		l.e.VerifSetCommitEvery(always)
	}
	done := make(chan struct{})
	var delivered atomic.Bool
	delivered.Store(true)
	if now && !sync && failMode == 0 && !h.replica { // the writer's fsync+Commit arrives while Do waits for it
		delivered.Store(false)
		go func() {
			defer close(done)
			for dl := time.Now().Add(5 * time.Second); l.e.VerifWaitQLen() == 0; {
				if time.Now().After(dl) {
					return
				}
				time.Sleep(20 * time.Microsecond)
			}
			time.Sleep(400 * time.Microsecond)
			delivered.Store(true)
			l.bl.mu.Lock()
			n := int64(len(l.bl.buf))
			l.bl.durable = n
			l.bl.mu.Unlock()
			_ = l.bl.commit(n)
		}()
	} else {
		close(done)
	}
	idx := len(l.levs)
	ch, _, err := l.e.VerifDo(context.Background(), "verif_do", func(c sqlite.Conn, _ []byte) ([]byte, error) {
		if failMode == 2 {
			return nil, errCallback
		}
		if err := execLev(c, ev); err != nil {
			return nil, err
		}
		switch failMode {
		case 1:
			return nil, errCallback
		case 3:
			if _, err := c.Exec("kv_bad", "INSERT INTO kv(k,v) VALUES(99,NULL)"); err != nil {
				return nil, err
			}
			return nil, errors.New("verif: NOT NULL violation did not fail")
		}
		return ev.raw(), nil
	})
	if !delivered.Load() && err == nil {
		// Do came back although the binlog has neither fsynced nor committed this event: what did SQLite commit?
		if view, verr := l.readView(); verr == nil {
			l.bl.mu.Lock()
			d := l.bl.durable
			l.bl.mu.Unlock()
			if view.off > d {
				h.fail("committed_db_within_durable_binlog", fmt.Sprintf("step %d: commit-now Do returned before the binlog commit; sqlite committed offset %d > durable binlog %d", step, view.off, d))
			}
		}
	}
	<-done
	if now {
		l.e.VerifSetCommitEvery(never)
	}
	l.bl.mu.Lock()
	l.bl.nextSvc, l.bl.nextSync = false, false
	totalAfter := len(l.bl.buf)
	l.bl.mu.Unlock()
	expectErr := failMode != 0 || h.replica
	if expectErr {
		after, _ := l.readRW()
		if err == nil {
			h.fail("failed_callback_reports_error", fmt.Sprintf("step %d: failMode %d replica %v but Do returned nil", step, failMode, h.replica))
		}
		if after != before || totalAfter != totalBefore || l.e.VerifDBOffset() != eoffBefore {
			h.fail("failed_callback_no_trace", fmt.Sprintf("step %d failMode %d: db %v -> %v, binlog %d -> %d bytes, engine offset %d -> %d", step, failMode, before, after, totalBefore, totalAfter, eoffBefore, l.e.VerifDBOffset()))
		}
		h.kinds["do_failed"] = true
	} else {
		if err != nil {
			h.fail("write_succeeds", fmt.Sprintf("step %d: Do returned %v", step, err))
		}
		h.syncLevs()
		off := sizeOf(l.levs[:idx+1])
		h.checkAcks(step)
		l.poll() // tickets released by a Commit delivered inside this Do come first
		if ch != nil {
			l.pending = append(l.pending, ticket{code: int64(2 * idx), ch: ch, off: off})
			h.kinds["do_waits"] = true
		} else if h.wait {
			l.acked = append(l.acked, int64(2*idx))
			l.bl.mu.Lock()
			d := l.bl.durable
			l.bl.mu.Unlock()
			if off > d {
				h.fail("acked_write_is_durable", fmt.Sprintf("step %d: write at offset %d acknowledged at once, durable binlog %d", step, off, d))
			}
		}
		if now && !sync { // Do waited for the channel itself before committing
			l.acked = append(l.acked, int64(2*idx))
			l.bl.mu.Lock()
			d := l.bl.durable
			l.bl.mu.Unlock()
			if off > d {
				h.fail("acked_write_is_durable", fmt.Sprintf("step %d: commit-now write at offset %d returned, durable binlog %d", step, off, d))
			}
		}
		if svc {
			h.kinds["svc_lev"] = true
		}
		if now {
			h.kinds["commit_now"] = true
		}
	}
	flags := bit(failMode != 0, 0) | bit(svc, 1) | bit(now, 2) | bit(sync, 3)
	h.ops = append(h.ops, fmt.Sprintf("ODo %s %d", ev.term(), flags))
	t := "w(" + ev.text()
	if failMode != 0 {
		t += fmt.Sprintf(",F%d", failMode)
	}
	if svc {
		t += ",S"
	}
	if now {
		t += ",N"
	}
	if sync {
		t += ",Y"
	}
	h.text = append(h.text, t+")")
}

func (h *hist) doRead(step int) {
	l := h.l
	var seen dbObs
	ch, _, err := l.e.VerifDo(context.Background(), "verif_read", func(c sqlite.Conn, _ []byte) ([]byte, error) {
		var err error
		seen, err = readConn(c)
		return nil, err
	})
	if err != nil {
		h.fail("read_succeeds", fmt.Sprintf("step %d: %v", step, err))
	}
	code := int64(2*h.nread + 1)
	h.nread++
	l.poll()
	if h.wait {
		if ch != nil {
			l.pending = append(l.pending, ticket{code: code, ch: ch, off: seen.off})
			h.kinds["read_waits"] = true
		} else {
			l.acked = append(l.acked, code)
			l.bl.mu.Lock()
			d := l.bl.durable
			l.bl.mu.Unlock()
			if seen.off > d && !h.replica {
				h.fail("acked_read_saw_only_durable", fmt.Sprintf("step %d: read saw offset %d, returned at once, durable binlog %d", step, seen.off, d))
			}
		}
	}
	h.ops = append(h.ops, "ORead")
	h.text = append(h.text, "r")
}

func (h *hist) checkAcks(step int) { // tickets acknowledged by the last step must be durable
	l := h.l
	l.bl.mu.Lock()
	d := l.bl.durable
	l.bl.mu.Unlock()
	for _, t := range l.pending {
		select {
		case <-t.ch:
			if t.off > d {
				name := "acked_write_is_durable"
				if t.code%2 == 1 {
					name = "acked_read_saw_only_durable"
				}
				h.fail(name, fmt.Sprintf("step %d: ticket %d for offset %d acknowledged, durable binlog %d", step, t.code, t.off, d))
			}
		default:
		}
	}
}

func (h *hist) doFsync() {
	l := h.l
	dl := h.durableLevs()
	n := dl + h.r.Intn(len(l.levs)-dl+1)
	if h.r.Chance(50) {
		n = len(l.levs)
	}
	l.bl.mu.Lock()
	l.bl.durable = sizeOf(l.levs[:n])
	l.bl.mu.Unlock()
	h.ops = append(h.ops, fmt.Sprintf("OFsync %d", n))
	h.text = append(h.text, fmt.Sprintf("f%d", n))
}

func (h *hist) doCommit() {
	l := h.l
	dl := h.durableLevs()
	n := dl
	if h.r.Chance(20) && n > 0 { // stale commit
		n = h.r.Intn(n + 1)
		h.kinds["stale_commit"] = true
	}
	_ = l.bl.commit(sizeOf(l.levs[:n]))
	h.ops = append(h.ops, fmt.Sprintf("OCommit %d", n))
	h.text = append(h.text, fmt.Sprintf("c%d", n))
}

func (h *hist) doTick() {
	l := h.l
	blocked := l.e.VerifCommittedOffset() < l.e.VerifDBOffset()
	completed, finish := l.e.VerifTxLoopStart() // the engine's real txLoop, one (or a few idempotent) iterations
	if blocked {
		// txLoop must block in binlogWaitDBSync until the writer fsyncs and delivers Commit
		time.Sleep(500 * time.Microsecond)
		early := false
		for j := 0; j < 20 && !early; j++ {
			early = completed()
			time.Sleep(10 * time.Microsecond)
		}
		if early {
			if view, verr := l.readView(); verr == nil {
				l.bl.mu.Lock()
				d := l.bl.durable
				l.bl.mu.Unlock()
				if view.off > d {
					h.fail("committed_db_within_durable_binlog", fmt.Sprintf("txLoop committed before the binlog commit; sqlite committed offset %d > durable binlog %d", view.off, d))
				}
			}
		}
		n := len(l.levs)
		l.bl.mu.Lock()
		l.bl.durable = sizeOf(l.levs)
		l.bl.mu.Unlock()
		_ = l.bl.commit(sizeOf(l.levs))
		finish()
		h.ops = append(h.ops, fmt.Sprintf("OFsync %d", n), fmt.Sprintf("OCommit %d", n), "OTick")
		h.text = append(h.text, "T")
		h.kinds["tick_blocked"] = true
	} else {
		finish()
		h.ops = append(h.ops, "OTick")
		h.text = append(h.text, "t")
		h.kinds["tick"] = true
	}
	if err := l.e.VerifBroken(); err != nil {
		h.fail("tick_succeeds", err.Error())
	}
}

func (h *hist) doDeliver() {
	l := h.l
	ev := h.genLev()
	if h.r.Chance(20) {
		ev = lev{svc: true}
	}
	timer := h.r.Chance(40)
	if timer {
		l.e.VerifSetCommitEvery(always)
	}
	l.bl.mu.Lock()
	pos := int64(len(l.bl.buf))
	l.bl.buf = append(l.bl.buf, ev.padded()...) // the commit position (durable) lags: it moves only by fsync steps
	l.bl.mu.Unlock()
	var newPos int64
	var err error
	if ev.svc {
		newPos, err = l.bl.engine.Skip(svcSize)
	} else {
		newPos, err = l.bl.engine.Apply(ev.padded())
	}
	if timer {
		l.e.VerifSetCommitEvery(never)
	}
	if err != nil || newPos != pos+int64(ev.size()) {
		h.fail("replica_apply_position", fmt.Sprintf("deliver %s at %d: new position %d err %v", ev.text(), pos, newPos, err))
	}
	l.levs = append(l.levs, ev)
	h.ops = append(h.ops, fmt.Sprintf("ODeliver %s %s", ev.term(), vu.B(timer)))
	if timer {
		h.text = append(h.text, "d("+ev.text()+",T)")
	} else {
		h.text = append(h.text, "d("+ev.text()+")")
	}
}

func (h *hist) doCrash(step int) bool {
	l := h.l
	dl := h.durableLevs()
	keep := dl + h.r.Intn(len(l.levs)-dl+1)
	keepBytes := sizeOf(l.levs[:keep])
	l.bl.mu.Lock()
	buf := append([]byte(nil), l.bl.buf[:keepBytes]...)
	l.bl.mu.Unlock()
	levs := append([]lev(nil), l.levs[:keep]...)
	_ = l.e.VerifAbort()
	l2, err := openLife(l.dir, h.wait, h.replica, buf, nil, levs)
	h.ops = append(h.ops, fmt.Sprintf("OCrash %d", keep))
	h.text = append(h.text, fmt.Sprintf("X%d", keep))
	h.kinds["crash_continue"] = true
	if err != nil {
		h.fail("restart_succeeds", fmt.Sprintf("step %d crash keep %d: %v", step, keep, err))
		return false
	}
	h.l = l2
	return true
}

func runHistory(r *vu.Rng, o *vu.Out, root string, idx int, nsteps int, fullObs bool) {
	h := &hist{r: r, o: o, root: filepath.Join(root, fmt.Sprintf("h%d", idx)), kinds: map[string]bool{}, fullObs: fullObs}
	h.wait = r.Chance(60)
	h.replica = r.Chance(25)
	dir := filepath.Join(h.root, "live")
	if err := os.MkdirAll(dir, 0o755); err != nil {
		panic(err)
	}
	defer os.RemoveAll(h.root)
	l, err := openLife(dir, h.wait, h.replica, nil, nil, nil)
	if err != nil {
		panic("verif: cannot open engine: " + err.Error())
	}
	h.l = l
	alive := true
	for step := 0; step < nsteps && alive; step++ {
		nops := len(h.ops)
		switch p := r.Intn(100); {
		case h.replica && p < 45:
			h.doDeliver()
		case h.replica && p < 58:
			h.doFsync()
		case h.replica && p < 73:
			h.doCommit()
		case p < 45 || (h.replica && p < 80):
			h.doWrite(step)
		case p < 55 || (h.replica && p < 91):
			h.doRead(step)
		case h.replica || p >= 95:
			alive = h.doCrash(step)
		case p < 68:
			h.doFsync()
		case p < 82:
			h.doCommit()
		default:
			if h.wait {
				h.doTick()
			} else {
				h.doFsync()
			}
		}
		if !alive {
			for len(h.obs) < len(h.ops) {
				h.obs = append(h.obs, "(-1,0%nat,0)")
			}
			break
		}
		h.checkAcks(step)
		s := h.observe(step)
		keep, rs := h.crashImage(step)
		for i := nops; i < len(h.ops)-1; i++ { // composite steps: only the last op carries an observation
			h.obs = append(h.obs, "(-1,0%nat,0)")
		}
		h.obs = append(h.obs, fmt.Sprintf("(%d,%d%%nat,%d)", s, keep, rs))
	}
	if alive {
		_ = h.l.e.VerifAbort()
	}
	mode := "NoWaitCommit"
	if h.wait {
		mode = "WaitCommit"
	}
	role := "master"
	if h.replica {
		role = "replica"
	}
	text := fmt.Sprintf("%s %s: %s", mode, role, strings.Join(h.text, " "))
	term := fmt.Sprintf("CHist %s %s [%s] [%s]", mode, vu.B(h.replica), strings.Join(h.ops, "; "), strings.Join(h.obs, "; "))
	kinds := []string{mode, fmt.Sprintf("replica_%v", h.replica)}
	for k := range h.kinds {
		kinds = append(kinds, k)
	}
	nontrivial := len(h.l.levs) >= 3 && (h.kinds["tick"] || h.kinds["tick_blocked"] || h.kinds["commit_now"] || h.replica)
	line := o.Case(text, term, nontrivial, kinds...)
	for _, f := range h.fails {
		p := strings.SplitN(f, "\x00", 2)
		o.Fail(p[0], line, p[1]+" | "+text)
	}
	if fullObs {
		fmt.Println(text)
		for _, d := range h.debugOut {
			fmt.Println(d)
		}
	}
}

func main() {
	seed := flag.Uint64("seed", 1, "")
	n := flag.Int("n", 60, "number of histories")
	steps := flag.Int("steps", 22, "steps per history")
	out := flag.String("out", "", "")
	debug := flag.Bool("debug", false, "print full observations")
	kills := flag.Int("kills", 0, "thorough tier: number of SIGKILL rounds against a child running the real fsbinlog (kill.go)")
	child := flag.String("child", "", "internal: work|check")
	childDir := flag.String("child-dir", "", "internal")
	childSeed := flag.Uint64("child-seed", 0, "internal")
	childWait := flag.Bool("child-wait", true, "internal")
	childGraceful := flag.Bool("child-graceful", false, "internal")
	flag.Parse()
	log.SetOutput(io.Discard)
	switch *child {
	case "work":
		killChildWork(*childDir, *childSeed, *childWait)
		return
	case "check":
		killChildCheck(*childDir, *childWait, *childGraceful)
		return
	}
	r := vu.NewRng(*seed)
	o := vu.NewOut(*out)
	defer o.Close()
	base := os.TempDir()
	if st, err := os.Stat("/dev/shm"); err == nil && st.IsDir() {
		base = "/dev/shm"
	}
	root, err := os.MkdirTemp(base, "verif-engine-")
	if err != nil {
		panic(err)
	}
	defer os.RemoveAll(root)
	// watchdog: a history that does not finish is a deadlock (of the engine or of the harness): dump all stacks
	var progress atomic.Int64
	go func() {
		last, since := int64(-1), time.Now()
		for {
			time.Sleep(time.Second)
			if p := progress.Load(); p != last {
				last, since = p, time.Now()
			} else if time.Since(since) > 120*time.Second {
				buf := make([]byte, 1<<20)
				buf = buf[:runtime.Stack(buf, true)]
				fmt.Fprintf(os.Stderr, "verif-engine: history %d made no progress for 120s\n%s\n", p, buf)
				os.Exit(3)
			}
		}
	}()
	for i := 0; i < *n; i++ {
		ns := *steps/2 + r.Intn(*steps)
		runHistory(r, o, root, i, ns, *debug)
		progress.Add(1)
	}
	if *kills > 0 {
		progress.Add(1)
		runKills(r, o, root, *kills)
	}
}
