//go:build verif

// Thorough-tier crash test for C17: a child process runs the real engine on the REAL fsbinlog (files in a temp
// dir, tiny chunk size so that rotation levs appear) with concurrent writers and readers, the parent kills it with
// SIGKILL at a random moment, then a second child reopens the directory and checks
//
//	restart_equals_durable_binlog : db after restart == application of every user event found in the binlog files
//	                                (read independently with a recording binlog.Engine), stored offset == binlog end
//	acked_write_survives          : every write whose Do returned in WaitCommit mode (the child appends a line to
//	                                an ack file after Do returns) is in the binlog files
//
// This is sampling (real time, real goroutines): it supports the search for failing inputs, not the theorems.
package main

import (
	"bufio"
	"context"
	"encoding/binary"
	"errors"
	"fmt"
	"os"
	"os/exec"
	"path/filepath"
	"strconv"
	"strings"
	"sync"
	"syscall"
	"time"

	"github.com/VKCOM/statshouse/internal/sqlite"
	vu "github.com/VKCOM/statshouse/internal/verifutil"
	"github.com/VKCOM/statshouse/internal/vkgo/binlog"
	"github.com/VKCOM/statshouse/internal/vkgo/binlog/fsbinlog"
)

const killMagic = uint32(0x0c17c17c)

func killBinlogOptions(dir string) fsbinlog.Options {
	return fsbinlog.Options{PrefixPath: filepath.Join(dir, "bl"), Magic: killMagic, MaxChunkSize: 3000}
}

func killOpen(dir string, wait bool) (*sqlite.Engine, error) {
	opts := killBinlogOptions(dir)
	if _, err := os.Stat(opts.PrefixPath + ".000000.bin"); errors.Is(err, os.ErrNotExist) {
		if _, err := fsbinlog.CreateEmptyFsBinlog(opts); err != nil {
			return nil, fmt.Errorf("create binlog: %w", err)
		}
	}
	bl, err := fsbinlog.NewFsBinlog(&binlog.EmptyLogger{}, opts)
	if err != nil {
		return nil, err
	}
	mode := sqlite.NoWaitCommit
	if wait {
		mode = sqlite.WaitCommit
	}
	return sqlite.OpenEngine(sqlite.Options{
		Path: filepath.Join(dir, "db"), APPID: 17, Scheme: scheme, DurabilityMode: mode,
		CommitEvery: 3 * time.Millisecond, MaxROConn: 4, CacheMaxSizePerConnect: 16,
	}, bl, applyFn(false), applyFn(true))
}

// ---- child 1: the workload (runs until killed)
func killChildWork(dir string, seed uint64, wait bool) {
	e, err := killOpen(dir, wait)
	if err != nil {
		fmt.Println("OPENFAIL", err)
		os.Exit(4)
	}
	acks, err := os.OpenFile(filepath.Join(dir, "acks"), os.O_CREATE|os.O_WRONLY|os.O_APPEND, 0o644)
	if err != nil {
		panic(err)
	}
	fmt.Println("READY")
	var wg sync.WaitGroup
	for g := 0; g < 3; g++ {
		wg.Add(1)
		go func(g int) {
			defer wg.Done()
			r := vu.NewRng(seed*16 + uint64(g))
			for i := 0; i < 100000; i++ {
				ev := lev{k: r.Intn(nKeys), set: r.Chance(25), junk: r.Intn(8), x: int64(seed)*1000000 + int64(g)*300000 + int64(i)}
				fail := r.Chance(10)
				_, _, err := e.DoWithOffset(context.Background(), "kill_do", func(c sqlite.Conn, _ []byte) ([]byte, error) {
					if err := execLev(c, ev); err != nil {
						return nil, err
					}
					if fail {
						return nil, errCallback
					}
					return ev.raw(), nil
				})
				if err == nil && !fail && wait { // acknowledged in wait-for-commit mode
					_, _ = acks.WriteString(fmt.Sprintf("A %d %d %d %d\n", ev.k, bit(ev.set, 0), ev.x, ev.junk))
				}
				if fail && err == nil {
					_, _ = acks.WriteString("BAD failed callback reported no error\n")
				}
			}
		}(g)
	}
	wg.Add(1)
	go func() { // readers
		defer wg.Done()
		for i := 0; i < 1000000; i++ {
			_ = e.View(context.Background(), "kill_view", func(c sqlite.Conn) error { _, err := readConn(c); return err })
			if i%3 == 0 {
				_, _, _ = e.DoWithOffset(context.Background(), "kill_read", func(c sqlite.Conn, _ []byte) ([]byte, error) { _, err := readConn(c); return nil, err })
			}
			time.Sleep(300 * time.Microsecond)
		}
	}()
	wg.Wait()
}

// ---- recording binlog.Engine: what is in the binlog files, independent of the sqlite engine
type recEngine struct {
	pos  int64
	levs []lev
}

func (r *recEngine) Apply(payload []byte) (int64, error) {
	for len(payload) > 0 {
		l, n, err := parseOne(payload)
		if err != nil {
			return r.pos, err
		}
		r.levs = append(r.levs, l)
		r.pos += int64(n)
		payload = payload[n:]
	}
	return r.pos, nil
}
func (r *recEngine) Skip(n int64) (int64, error)            { r.pos += n; return r.pos, nil }
func (r *recEngine) Commit(int64, []byte, int64) error      { return nil }
func (r *recEngine) Revert(int64) (bool, error)             { return false, nil }
func (r *recEngine) ChangeRole(binlog.ChangeRoleInfo) error { return nil }
func (r *recEngine) StartReindex(binlog.ReindexOperator)    {}
func (r *recEngine) Split(int64, string) bool               { return false }
func (r *recEngine) Shutdown()                              {}

// ---- child 2: reopen after the kill and evaluate the oracles; prints one line
func killChildCheck(dir string, wait bool, graceful bool) {
	opts := killBinlogOptions(dir)
	opts.ReadAndExit = true
	rd, err := fsbinlog.NewFsBinlog(&binlog.EmptyLogger{}, opts)
	if err != nil {
		fmt.Println("FAIL restart_succeeds binlog reader:", err)
		return
	}
	rec := &recEngine{}
	if err := rd.Run(0, nil, nil, rec); err != nil {
		fmt.Println("FAIL restart_succeeds reading binlog files:", err)
		return
	}
	var want kvState
	have := map[string]bool{}
	for _, l := range rec.levs {
		want = refApply(want, l)
		have[fmt.Sprintf("%d %d %d %d", l.k, bit(l.set, 0), l.x, l.junk)] = true
	}
	nacks := 0
	if f, err := os.Open(filepath.Join(dir, "acks")); err == nil {
		sc := bufio.NewScanner(f)
		for sc.Scan() {
			line := sc.Text()
			if strings.HasPrefix(line, "BAD") {
				fmt.Println("FAIL failed_callback_reports_error", line)
				return
			}
			if !strings.HasPrefix(line, "A ") || strings.Count(line, " ") != 4 {
				continue // torn last line of the killed child
			}
			nacks++
			if !have[line[2:]] {
				fmt.Printf("FAIL acked_write_survives acknowledged write %q is not in the binlog files (%d events, end %d)\n", line[2:], len(rec.levs), rec.pos)
				return
			}
		}
		f.Close()
	}
	e, err := killOpen(dir, wait)
	if err != nil {
		fmt.Printf("FAIL restart_succeeds OpenEngine after kill: %v (binlog: %d events, end %d)\n", err, len(rec.levs), rec.pos)
		return
	}
	var got dbObs
	_, _, err = e.DoWithOffset(context.Background(), "kill_dump", func(c sqlite.Conn, _ []byte) ([]byte, error) {
		var err error
		got, err = readConn(c)
		return nil, err
	})
	if err != nil {
		fmt.Println("FAIL restart_succeeds reading after restart:", err)
		return
	}
	// the engine's offset may sit after trailing service levs; the stored one is at a lev boundary <= binlog end
	eoff := e.VerifDBOffset()
	if got.kv != want || eoff != rec.pos || got.off > rec.pos {
		fmt.Printf("FAIL restart_equals_durable_binlog after restart kv %v stored offset %d engine offset %d; binlog files hold %d events ending at %d giving %v\n", got.kv, got.off, eoff, len(rec.levs), rec.pos, want)
		return
	}
	if graceful {
		ctx, cancel := context.WithTimeout(context.Background(), 3*time.Second)
		_ = e.Close(ctx)
		cancel()
	}
	fmt.Printf("OK events=%d end=%d acks=%d kv=%v\n", len(rec.levs), rec.pos, nacks, got.kv)
}

// ---- parent
func runKills(r *vu.Rng, o *vu.Out, root string, kills int) {
	dir := filepath.Join(root, "killdir")
	if err := os.MkdirAll(dir, 0o755); err != nil {
		panic(err)
	}
	self, err := os.Executable()
	if err != nil {
		panic(err)
	}
	if _, err := fsbinlog.CreateEmptyFsBinlog(killBinlogOptions(dir)); err != nil { // not part of what is killed
		panic(err)
	}
	for i := 0; i < kills; i++ {
		wait := r.Chance(65)
		after := time.Duration(5+r.Intn(250)) * time.Millisecond
		if r.Chance(25) {
			after = time.Duration(r.Intn(40)) * time.Millisecond // during open / replay
		}
		seed := uint64(1000 + i)
		cmd := exec.Command(self, "-child", "work", "-child-dir", dir, "-child-seed", strconv.FormatUint(seed, 10), "-child-wait="+strconv.FormatBool(wait))
		stdout, _ := cmd.StdoutPipe()
		if err := cmd.Start(); err != nil {
			panic(err)
		}
		ready := make(chan string, 1)
		go func() {
			sc := bufio.NewScanner(stdout)
			first := ""
			if sc.Scan() {
				first = sc.Text()
			}
			ready <- first
			for sc.Scan() {
			}
		}()
		early := after < 40*time.Millisecond
		first := ""
		if !early {
			select {
			case first = <-ready:
			case <-time.After(20 * time.Second):
				first = "TIMEOUT waiting for the engine to open"
			}
		}
		time.Sleep(after)
		_ = cmd.Process.Signal(syscall.SIGKILL)
		_ = cmd.Wait()
		graceful := r.Chance(30)
		out, cerr := exec.Command(self, "-child", "check", "-child-dir", dir, "-child-wait="+strconv.FormatBool(wait), "-child-graceful="+strconv.FormatBool(graceful)).CombinedOutput()
		res := strings.TrimSpace(string(out))
		if idx := strings.LastIndex(res, "\n"); idx >= 0 {
			res = res[idx+1:]
		}
		mode := "NoWaitCommit"
		if wait {
			mode = "WaitCommit"
		}
		text := fmt.Sprintf("kill round %d: %s real fsbinlog, child seed %d, SIGKILL %v after %s, graceful-close-after-check=%v -> %s", i, mode, seed, after, map[bool]string{true: "start", false: "ready"}[early], graceful, res)
		line := o.Case(text, "CHist WaitCommit false [] []", true, "kill_round", "kill_"+mode)
		switch {
		case strings.HasPrefix(first, "OPENFAIL") || strings.HasPrefix(first, "TIMEOUT"):
			o.Fail("restart_succeeds", line, first+" | "+text)
		case strings.HasPrefix(res, "OK "):
		case strings.HasPrefix(res, "FAIL "):
			f := strings.Fields(res)
			o.Fail(f[1], line, text)
		default:
			o.Fail("restart_succeeds", line, fmt.Sprintf("check child: %v | %s", cerr, text))
		}
	}
}

var _ = binary.LittleEndian
