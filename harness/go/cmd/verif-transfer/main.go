//go:build verif

// Correspondence harness for C02 (row aggregates survive the agent -> aggregator transfer).
//
// Rows are built with the real MultiValue operations (AddCounterHost, AddValueCounterHost[Percentile],
// ApplyValues, ApplyUnique, Merge), sent through the real TLMultiItemFromKey / MultiValueToTL / WriteTL1 /
// ReadTL1 (Bytes variant) / KeyFromStatshouseMultiItem / MergeWithTLMultiItem, and both ends are printed
// for the Coq model (Transfer/Corr.v). Property oracles are evaluated here, independent of the model.
// A share of the rows additionally goes through the real Shard.sampleBucket (internal/agent) and the bytes
// of its items are compared with the row assembly used here.
package main

import (
	"bytes"
	"flag"
	"fmt"
	"math"
	"math/big"
	"os"
	"reflect"
	"sort"
	"strings"
	"unsafe"

	"github.com/hrissan/tdigest"
	"pgregory.net/rand"

	"github.com/VKCOM/statshouse/internal/agent"
	"github.com/VKCOM/statshouse/internal/aggregator"
	"github.com/VKCOM/statshouse/internal/metajournal"
	"github.com/VKCOM/statshouse/internal/pcache"
	"github.com/VKCOM/statshouse/internal/data_model"
	"github.com/VKCOM/statshouse/internal/data_model/gen2/tlstatshouse"
	"github.com/VKCOM/statshouse/internal/format"
	vu "github.com/VKCOM/statshouse/internal/verifutil"
)

// ---------- printing ----------

// exact rational of a float64
func q(x float64) string {
	if math.IsNaN(x) || math.IsInf(x, 0) {
		panic("non-finite value in a case")
	}
	if x == 0 {
		return "z0"
	}
	r := new(big.Rat).SetFloat64(x)
	n := r.Num().String()
	if r.IsInt() {
		if r.Num().Sign() < 0 {
			return "(qi (" + n + "))"
		}
		return "(qi " + n + ")"
	}
	if r.Num().Sign() < 0 {
		n = "(" + n + ")"
	}
	return "(q " + n + " " + r.Denom().String() + ")"
}

func exactMul(a, b float64) bool {
	p := new(big.Rat).Mul(new(big.Rat).SetFloat64(a), new(big.Rat).SetFloat64(b))
	return p.Cmp(new(big.Rat).SetFloat64(a*b)) == 0
}

func f32exact(x float64) bool { return float64(float32(x)) == x }

var strIDs = map[string]int64{}

func sid(s string) int64 {
	if s == "" {
		return 0
	}
	id, ok := strIDs[s]
	if !ok {
		id = int64(len(strIDs) + 1)
		strIDs[s] = id
	}
	return id
}

// TagUnion as one integer: 0 empty, 2*I int tag, 2*sid+1 string tag
func hz(t data_model.TagUnion) int64 {
	if t.I != 0 {
		return 2 * int64(t.I)
	}
	if t.S != "" {
		return 2*sid(t.S) + 1
	}
	return 0
}

func hzText(t data_model.TagUnion) string {
	if t.I != 0 {
		return fmt.Sprintf("%d", t.I)
	}
	if t.S != "" {
		return t.S
	}
	return "-"
}

func vobs(v *data_model.ItemValue) string {
	return fmt.Sprintf("(VO %s %s %s %s %s %s %s %s %s)", q(v.Count()), vu.Z(hz(v.MaxCounterHostTag)),
		q(v.ValueMin), q(v.ValueMax), q(v.ValueSum), q(v.ValueSumSquare),
		vu.Z(hz(v.MinHostTag)), vu.Z(hz(v.MaxHostTag)), vu.B(v.ValueSet))
}

func udig(ch *data_model.ChUnique) string {
	st := ch.VerifState()
	var nnz, sum, possum uint64
	for i, x := range st.Buf {
		if x != 0 {
			nnz++
			sum += uint64(x)
			possum += uint64(i+1) * uint64(x)
		}
	}
	if st.Nil && st.Skip == 0 && st.Count == 0 && !st.Zero && st.SizeDegree == 0 {
		return "UN"
	}
	return fmt.Sprintf("(UG %s %d %d %s %d %d %d %d %d)", vu.B(st.Nil), st.Skip, st.Count, vu.B(st.Zero), st.SizeDegree, ch.Size(true), nnz, sum, possum)
}

func hsTerm(ch *data_model.ChUnique) string {
	st := ch.VerifState()
	if st.Nil {
		return "HNil"
	}
	var p []string
	for i, x := range st.Buf {
		if x != 0 {
			p = append(p, fmt.Sprintf("(%d,%d)", i, x))
		}
	}
	return fmt.Sprintf("(H %d %d %d %s [%s])", st.Skip, st.SizeDegree, st.Count, vu.B(st.Zero), strings.Join(p, ";"))
}

func centsTerm(nilDigest bool, cs []tdigest.Centroid) string {
	if nilDigest {
		return "None"
	}
	p := make([]string, len(cs))
	for i, c := range cs {
		p[i] = "(" + q(c.Mean) + "," + q(c.Weight) + ")"
	}
	return "(Some [" + strings.Join(p, ";") + "])"
}

func mvsTerm(mv *data_model.MultiValue) string {
	v := &mv.Value
	var cs []tdigest.Centroid
	if mv.ValueTDigest != nil {
		cs = mv.ValueTDigest.Centroids()
	}
	return fmt.Sprintf("(MV %s %s %s %s %s %s %s %s %s %s %s)", q(v.Count()), vu.Z(hz(v.MaxCounterHostTag)),
		q(v.ValueMin), q(v.ValueMax), q(v.ValueSum), q(v.ValueSumSquare), vu.Z(hz(v.MinHostTag)), vu.Z(hz(v.MaxHostTag)),
		vu.B(v.ValueSet), centsTerm(mv.ValueTDigest == nil, cs), hsTerm(&mv.HLL))
}

// the Add calls a fresh digest holds (nothing is processed below 8*compression additions)
func unprocessed(td *tdigest.TDigest) []tdigest.Centroid {
	e := reflect.ValueOf(td).Elem()
	un := e.FieldByName("unprocessed")
	pr := e.FieldByName("processed")
	if pr.Len() != 0 {
		panic("aggregator digest was processed")
	}
	return *(*tdigest.CentroidList)(unsafe.Pointer(un.UnsafeAddr()))
}

func aobsTerm(mv *data_model.MultiValue) string {
	var cs []tdigest.Centroid
	if mv.ValueTDigest != nil {
		cs = unprocessed(mv.ValueTDigest)
	}
	return fmt.Sprintf("(AV %s %s %s)", vobs(&mv.Value), centsTerm(mv.ValueTDigest == nil, cs), udig(&mv.HLL))
}

func sparseI(a []int32) string {
	var p []string
	for i, x := range a {
		if x != 0 {
			p = append(p, fmt.Sprintf("(%d,%s)", i, vu.Z(int64(x))))
		}
	}
	return "[" + strings.Join(p, ";") + "]"
}

func sameOr(sent, got string) string {
	if sent == got {
		return "None"
	}
	return "(Some " + got + ")"
}

func sparseS(a []string) string {
	var p []string
	for i, x := range a {
		if x != "" {
			p = append(p, fmt.Sprintf("(%d,%d)", i, sid(x)))
		}
	}
	return "[" + strings.Join(p, ";") + "]"
}

// ---------- recording of rng draws (as in the C04 harness) ----------

type drawRec struct {
	rng   *rand.Rand
	draws []uint64
}

func (d *drawRec) around(total uint64, f func()) {
	before := *d.rng
	f()
	if *d.rng != before {
		d.draws = append(d.draws, before.Uint64n(total))
	}
}

func totalWeight(a, b float64) uint64 {
	if a <= 0 || b <= 0 {
		return 1
	}
	return data_model.CounterHostDistribution(a) + data_model.CounterHostDistribution(b)
}

// ---------- operations ----------

type gop struct {
	kind   string // count, value, values, unique
	c      float64
	v      float64
	hist   [][2]float64
	vals   []float64
	total  float64
	hashes []int64
	host   data_model.TagUnion
}

func (o gop) valueWeight() float64 {
	switch o.kind {
	case "value", "unique":
		return o.c
	case "values":
		if o.total <= 0 {
			return 0
		}
		set := len(o.vals) > 0 || len(o.hist) > 0
		if !set {
			return 0
		}
		return o.c
	}
	return 0
}

func (o gop) text() string {
	h := hzText(o.host)
	switch o.kind {
	case "count":
		return fmt.Sprintf("c%g@%s", o.c, h)
	case "value":
		return fmt.Sprintf("v%g*%g@%s", o.v, o.c, h)
	case "values":
		return fmt.Sprintf("V%v%v*%g/%g@%s", o.vals, o.hist, o.c, o.total, h)
	default:
		return fmt.Sprintf("U%v*%g@%s", o.hashes, o.c, h)
	}
}

func qlist(xs []float64) string {
	p := make([]string, len(xs))
	for i, x := range xs {
		p[i] = q(x)
	}
	return "[" + strings.Join(p, ";") + "]"
}

func (o gop) term() string {
	h := vu.Z(hz(o.host))
	switch o.kind {
	case "count":
		return fmt.Sprintf("OCount %s %s", q(o.c), h)
	case "value":
		return fmt.Sprintf("OValue %s %s %s", q(o.v), q(o.c), h)
	case "values":
		hp := make([]string, len(o.hist))
		for i, kv := range o.hist {
			hp[i] = "(" + q(kv[0]) + "," + q(kv[1]) + ")"
		}
		return fmt.Sprintf("OValues [%s] %s %s %s %s", strings.Join(hp, ";"), qlist(o.vals), q(o.c), q(o.total), h)
	default:
		return fmt.Sprintf("OUnique %s %s %s", vu.ListZ(o.hashes), q(o.c), h)
	}
}

func applyOp(d *drawRec, mv *data_model.MultiValue, o gop, hasp bool) {
	d.around(totalWeight(mv.Value.Count(), o.c), func() {
		switch o.kind {
		case "count":
			mv.AddCounterHost(d.rng, o.c, o.host)
		case "value":
			if hasp {
				mv.AddValueCounterHostPercentile(d.rng, o.v, o.c, o.host, data_model.AgentPercentileCompression)
			} else {
				mv.AddValueCounterHost(d.rng, o.v, o.c, o.host)
			}
		case "values":
			mv.ApplyValues(d.rng, o.hist, o.vals, o.c, o.total, o.host, data_model.AgentPercentileCompression, hasp)
		case "unique":
			mv.ApplyUnique(d.rng, o.hashes, o.c, o.host)
		}
	})
}

// one step of a history: a plain op, or the merge of a value built by plain ops
type gstep struct {
	op    *gop
	merge []gop
}

type gvalue struct {
	steps []gstep
	mv    *data_model.MultiValue
	draws []uint64
	w     float64 // total weight of the value contributions
}

func (g *gvalue) text() string {
	var p []string
	for _, s := range g.steps {
		if s.op != nil {
			p = append(p, s.op.text())
		} else {
			var m []string
			for _, o := range s.merge {
				m = append(m, o.text())
			}
			p = append(p, "M("+strings.Join(m, " ")+")")
		}
	}
	return strings.Join(p, " ")
}

func (g *gvalue) bopsTerm() string {
	var p []string
	for _, s := range g.steps {
		if s.op != nil {
			p = append(p, "BOp ("+s.op.term()+")")
		} else {
			var m []string
			for _, o := range s.merge {
				m = append(m, o.term())
			}
			p = append(p, "BMerge ["+strings.Join(m, "; ")+"]")
		}
	}
	return "[" + strings.Join(p, "; ") + "]"
}

func build(seed uint64, steps []gstep, hasp bool) *gvalue {
	d := &drawRec{rng: rand.New(seed)}
	g := &gvalue{steps: steps, mv: &data_model.MultiValue{}}
	for _, s := range steps {
		if s.op != nil {
			applyOp(d, g.mv, *s.op, hasp)
			g.w += s.op.valueWeight()
			continue
		}
		other := &data_model.MultiValue{}
		for _, o := range s.merge {
			applyOp(d, other, o, hasp)
			g.w += o.valueWeight()
		}
		d.around(totalWeight(g.mv.Value.Count(), other.Value.Count()), func() { g.mv.Merge(d.rng, other) })
	}
	g.draws = d.draws
	return g
}

// ---------- generators ----------

var hostPool = []data_model.TagUnion{{}, {}, {I: 5}, {I: -7}, {I: 2000000000}, {S: "hA"}, {S: "hB"}}
var countPool = []float64{0.5, 1, 1, 1, 1.5, 2, 3, 4, 10}
var sfPool = []float64{1, 1, 2, 4, 3, 10, 1.5}

func pickHost(r *vu.Rng, sameHost *data_model.TagUnion) data_model.TagUnion {
	if sameHost != nil && r.Chance(60) {
		return *sameHost
	}
	return hostPool[r.Intn(len(hostPool))]
}

func pickValue(r *vu.Rng) float64 {
	switch r.Intn(10) {
	case 0:
		return 0
	case 1:
		return float64(r.Intn(9)-4) / 8
	case 2:
		return -float64(r.Intn(100))
	default:
		return float64(r.Intn(64)) / 8
	}
}

func isPow2(x float64) bool {
	f, _ := math.Frexp(x)
	return x > 0 && f == 0.5
}

func genOp(r *vu.Rng, kind string, base float64, host data_model.TagUnion) gop {
	switch kind {
	case "count":
		return gop{kind: "count", c: countPool[r.Intn(len(countPool))], host: host}
	case "value":
		return gop{kind: "value", v: base, c: countPool[r.Intn(len(countPool))], host: host}
	case "values":
		o := gop{kind: "values", host: host}
		nv := r.Intn(4)
		for i := 0; i < nv; i++ {
			if r.Chance(40) {
				o.vals = append(o.vals, base)
			} else {
				o.vals = append(o.vals, pickValue(r))
			}
		}
		nh := 0
		if r.Chance(40) {
			nh = 1 + r.Intn(3)
		}
		for i := 0; i < nh; i++ {
			cc := []float64{0, 1, 1, 2, 0.5}[r.Intn(5)]
			x := base
			if r.Chance(60) {
				x = pickValue(r)
			}
			o.hist = append(o.hist, [2]float64{x, cc})
		}
		o.total = float64(len(o.vals))
		for _, kv := range o.hist {
			o.total += kv[1]
		}
		switch {
		case o.total <= 0:
			o.c = 1
		case isPow2(o.total) && r.Chance(50):
			o.c = countPool[r.Intn(len(countPool))]
		case r.Chance(30):
			o.c = 2 * o.total
		case r.Chance(20):
			o.c = o.total / 2
		default:
			o.c = o.total
		}
		return o
	default: // unique
		o := gop{kind: "unique", host: host}
		n := 1 + r.Intn(5)
		for i := 0; i < n; i++ {
			switch r.Intn(8) {
			case 0:
				o.hashes = append(o.hashes, 0)
			case 1:
				o.hashes = append(o.hashes, -int64(r.Intn(1000)))
			case 2:
				o.hashes = append(o.hashes, int64(base*8))
			default:
				o.hashes = append(o.hashes, int64(r.Intn(1<<20)))
			}
		}
		switch r.Intn(4) {
		case 0:
			o.c = float64(2 * n)
		case 1:
			o.c = float64(n) / 2
		default:
			o.c = float64(n)
		}
		return o
	}
}

// rowKind steers which operations a value is built from
func genSteps(r *vu.Rng, rowKind string) []gstep {
	base := pickValue(r)
	var same *data_model.TagUnion
	if r.Chance(50) {
		h := hostPool[r.Intn(len(hostPool))]
		same = &h
	}
	n := 1 + r.Intn(5)
	var steps []gstep
	one := func() gop {
		host := pickHost(r, same)
		switch rowKind {
		case "counter":
			return genOp(r, "count", base, host)
		case "single":
			return genOp(r, "value", base, host)
		case "mixed":
			if r.Chance(50) {
				return genOp(r, "count", base, host)
			}
			return genOp(r, "value", base, host)
		case "values":
			if r.Chance(50) {
				o := genOp(r, "value", pickValue(r), host)
				return o
			}
			return genOp(r, "values", base, host)
		case "unique":
			if r.Chance(20) {
				return genOp(r, "count", base, host)
			}
			return genOp(r, "unique", base, host)
		default: // any
			return genOp(r, []string{"count", "value", "values", "unique"}[r.Intn(4)], []float64{base, pickValue(r)}[r.Intn(2)], host)
		}
	}
	for i := 0; i < n; i++ {
		if i > 0 && r.Chance(12) {
			m := 1 + r.Intn(3)
			var ops []gop
			for j := 0; j < m; j++ {
				ops = append(ops, one())
			}
			steps = append(steps, gstep{merge: ops})
			continue
		}
		o := one()
		steps = append(steps, gstep{op: &o})
	}
	return steps
}

var rowKinds = []string{"counter", "single", "mixed", "mixed", "values", "values", "unique", "any", "any"}

type grow struct {
	key   data_model.Key
	tail  *gvalue
	top   map[data_model.TagUnion]*gvalue
	sf    float64
	hasp  bool
	bt    uint32
	ah    data_model.TagUnion
	kinds []string
}

func genKey(r *vu.Rng, bt uint32) data_model.Key {
	k := data_model.Key{Metric: int32(r.U32())}
	if k.Metric == 0 {
		k.Metric = 1
	}
	// tags
	switch []int{0, 1, 1, 2, 3, 3, 5, 5, 5, 5, 5, 5, 1, 2, 3, 0, 0, 5, 5, 4}[r.Intn(20)] {
	case 0:
	case 1:
		for i := 0; i < 1+r.Intn(5); i++ {
			k.Tags[i] = int32(r.U32())
		}
	case 2:
		k.Tags[format.MaxTags-1] = int32(1 + r.Intn(100))
	case 3:
		k.Tags[r.Intn(format.MaxTags)] = -int32(1 + r.Intn(100))
		k.Tags[r.Intn(format.MaxTags)] = int32(1 + r.Intn(100))
	case 4:
		for i := range k.Tags {
			if r.Chance(50) {
				k.Tags[i] = int32(1 + r.Intn(1000))
			}
		}
	default:
		k.Tags[0] = int32(1 + r.Intn(3))
		k.Tags[1+r.Intn(15)] = int32(r.U32())
	}
	// string tags
	switch r.Intn(6) {
	case 0, 1, 2:
	case 3:
		k.STags[r.Intn(format.MaxTags)] = fmt.Sprintf("s%d", r.Intn(5))
	case 4:
		k.STags[format.MaxTags-1] = "last"
		k.STags[0] = "first"
	default:
		for i := 0; i < 1+r.Intn(4); i++ {
			k.STags[r.Intn(20)] = fmt.Sprintf("s%d", r.Intn(5))
		}
	}
	w := uint32(data_model.BelieveTimestampWindow)
	switch r.Intn(12) {
	case 0:
		k.Timestamp = 0
	case 1, 2, 3:
		k.Timestamp = bt
	case 4:
		k.Timestamp = bt - 1
	case 5:
		if bt >= w {
			k.Timestamp = bt - w
		} else {
			k.Timestamp = 1
		}
	case 6:
		if bt > w {
			k.Timestamp = bt - w - 1
		} else {
			k.Timestamp = bt
		}
	case 7:
		if bt < math.MaxUint32 {
			k.Timestamp = bt + 1
		}
	case 8:
		k.Timestamp = bt + uint32(r.Intn(1000)) // may wrap for bt near 2^32
	case 9:
		k.Timestamp = uint32(r.U32())
	default:
		if bt > 0 {
			k.Timestamp = bt - uint32(r.Intn(int(min(bt, w))))
		}
	}
	return k
}

func genRow(r *vu.Rng) *grow {
	g := &grow{top: map[data_model.TagUnion]*gvalue{}}
	switch r.Intn(10) {
	case 0:
		g.bt = uint32(1 + r.Intn(100000)) // bt - window is negative or small
	case 1:
		g.bt = math.MaxUint32 - uint32(r.Intn(3))
	default:
		g.bt = 1700000000 + uint32(r.Intn(1000000))
	}
	g.key = genKey(r, g.bt)
	g.sf = sfPool[r.Intn(len(sfPool))]
	g.hasp = r.Chance(35)
	g.ah = []data_model.TagUnion{{I: 77}, {I: 77}, {S: "agent-host"}, {}}[r.Intn(4)]
	kind := rowKinds[r.Intn(len(rowKinds))]
	g.kinds = append(g.kinds, "row/"+kind)
	if !r.Chance(8) { // sometimes the tail is empty and only the top has data
		g.tail = build(r.U64(), genSteps(r, kind), g.hasp)
	} else {
		g.tail = build(r.U64(), nil, g.hasp)
	}
	if r.Chance(35) {
		n := 1 + r.Intn(3)
		for i := 0; i < n; i++ {
			var tk data_model.TagUnion
			if r.Bool() {
				tk = data_model.TagUnion{I: int32(1 + r.Intn(50))}
				if r.Chance(20) {
					tk.I = -tk.I
				}
			} else {
				tk = data_model.TagUnion{S: fmt.Sprintf("top%d", r.Intn(6))}
			}
			if _, ok := g.top[tk]; ok {
				continue
			}
			k2 := kind
			if r.Chance(30) {
				k2 = rowKinds[r.Intn(len(rowKinds))]
			}
			g.top[tk] = build(r.U64(), genSteps(r, k2), g.hasp)
		}
		g.kinds = append(g.kinds, "row/with-top")
	}
	return g
}

// a row whose numbers sit at the aggregator's validation bounds (ValidateCounter / ValidateValue)
func genBoundaryRow(r *vu.Rng) *grow {
	g := &grow{top: map[data_model.TagUnion]*gvalue{}, bt: 1700000000, sf: []float64{1, 2}[r.Intn(2)], hasp: r.Chance(30), ah: data_model.TagUnion{I: 77}}
	g.key = genKey(r, g.bt)
	mf := float64(math.MaxFloat32)
	var steps []gstep
	add := func(o gop) { steps = append(steps, gstep{op: &o}) }
	switch r.Intn(5) {
	case 0: // counter at / above the bound after *sf
		add(gop{kind: "count", c: mf})
	case 1: // min == max == MaxFloat32: only min is sent
		add(gop{kind: "value", v: mf, c: 1})
		if r.Bool() {
			add(gop{kind: "value", v: mf, c: 1})
		}
	case 2: // sum above the bound, values inside
		add(gop{kind: "value", v: mf, c: 1})
		add(gop{kind: "value", v: 1, c: 1})
		add(gop{kind: "value", v: mf, c: 1})
	case 3:
		add(gop{kind: "value", v: -mf, c: 1})
		add(gop{kind: "value", v: 0, c: 1})
	default:
		add(gop{kind: "value", v: mf, c: 1})
		add(gop{kind: "value", v: -mf, c: 1})
	}
	g.tail = build(r.U64(), steps, g.hasp)
	g.kinds = append(g.kinds, "row/boundary")
	return g
}

// ---------- the transfer ----------

type sent struct {
	wire     []byte
	topOrder []data_model.TagUnion
}

// row assembly: the statements of sampleBucket.keepF that build the item (agent_shard_send.go); compared with the
// real sampleBucket on a share of the rows (checkSampleBucket)
func assemble(v *data_model.MultiItem, bucketTime uint32) sent {
	var scratch []byte
	item := v.Key.TLMultiItemFromKey(bucketTime)
	scratch = v.Tail.MultiValueToTL(v.MetricMeta, &item.Tail, v.SF, &item.FieldsMask, scratch)
	var top []tlstatshouse.TopElement
	var order []data_model.TagUnion
	keys := sortedKeys(v.Top) // keepF ranges over the map in Go's random order; here: ascending or descending, fixed by the key
	if v.Key.Metric%2 != 0 {
		for i, j := 0, len(keys)-1; i < j; i, j = i+1, j-1 {
			keys[i], keys[j] = keys[j], keys[i]
		}
	}
	for _, key := range keys {
		value := v.Top[key]
		el := tlstatshouse.TopElement{Stag: key.S}
		if key.I != 0 {
			el.SetTag(key.I)
		}
		scratch = value.MultiValueToTL(v.MetricMeta, &el.Value, v.SF, &el.FieldsMask, scratch)
		top = append(top, el)
		order = append(order, key)
	}
	if len(top) != 0 {
		item.SetTop(top)
	}
	return sent{wire: item.WriteTL1(nil), topOrder: order}
}

type received struct {
	item tlstatshouse.MultiItemBytes
	key  data_model.Key
	warn int32
	err  int32
	agg  *data_model.MultiItem
}

func receive(wire []byte, bt uint32, ah data_model.TagUnion, seed uint64) (*received, error) {
	rc := &received{}
	rest, err := rc.item.ReadTL1(wire)
	if err != nil {
		return nil, err
	}
	if len(rest) != 0 {
		return nil, fmt.Errorf("%d bytes left", len(rest))
	}
	masks := rc.item.FieldsMask
	rc.key, rc.warn = data_model.KeyFromStatshouseMultiItem(&rc.item, bt)
	// the aggregator's handler copies the string tags (handleSendSourceBucket; no mapping storage here)
	for i, str := range rc.item.Skeys {
		if i >= format.MaxTags {
			break
		}
		rc.key.STags[i] = string(str)
	}
	rng := rand.New(seed)
	before := *rng
	rc.agg = &data_model.MultiItem{Key: rc.key, SF: 1}
	rc.err = rc.agg.MergeWithTLMultiItem(rng, data_model.AggregatorStringTopCapacity, &rc.item, ah)
	if *rng != before {
		return nil, fmt.Errorf("the aggregator drew from rng")
	}
	if rc.item.FieldsMask != masks {
		return nil, fmt.Errorf("fields mask changed by the merge")
	}
	return rc, nil
}

func itemOf(g *grow) *data_model.MultiItem {
	it := &data_model.MultiItem{Key: g.key, SF: g.sf, MetricMeta: &format.MetricMetaValue{HasPercentiles: g.hasp}}
	it.Tail = *g.tail.mv
	if len(g.top) > 0 {
		it.Top = map[data_model.TagUnion]*data_model.MultiValue{}
		for k, v := range g.top {
			it.Top[k] = v.mv
		}
	}
	return it
}

// ---------- oracles ----------

type hllSet struct {
	skip  uint32
	count int32
	zero  bool
	elems []uint32
}

func setOf(ch *data_model.ChUnique) hllSet {
	st := ch.VerifState()
	s := hllSet{skip: st.Skip, count: st.Count, zero: st.Zero}
	for _, x := range st.Buf {
		if x != 0 {
			s.elems = append(s.elems, x)
		}
	}
	sort.Slice(s.elems, func(i, j int) bool { return s.elems[i] < s.elems[j] })
	return s
}

func subst(h, ah data_model.TagUnion) data_model.TagUnion {
	if h.Empty() {
		return ah
	}
	return h
}

// the clauses of the property for one MultiValue (src on the agent, weight w of its value contributions) and what
// the aggregator holds for it
func checkValue(o *vu.Out, line int, input, where string, src *data_model.MultiValue, w float64, dst *data_model.MultiValue, sf float64, hasp bool, ah data_model.TagUnion) {
	fail := func(oracle, detail string) { o.Fail(oracle, line, input+" | "+where+": "+detail) }
	s := &src.Value
	if dst == nil {
		if s.Count() > 0 {
			fail("top_keys_survive", "no such element on the aggregator")
		}
		return
	}
	d := &dst.Value
	// guard of the theorems (row_ok): a row whose values are all equal has sumsq = min*sum
	if s.ValueSet && s.ValueMin == s.ValueMax && s.ValueSumSquare != s.ValueMin*s.ValueSum {
		fail("guard_single_value_sumsq", fmt.Sprintf("min==max=%v sum=%v sumsq=%v", s.ValueMin, s.ValueSum, s.ValueSumSquare))
	}
	if d.Count() != s.Count()*sf {
		fail("count_survives", fmt.Sprintf("count %v*%v arrived as %v", s.Count(), sf, d.Count()))
	}
	if s.Count() <= 0 {
		return
	}
	if got, want := d.MaxCounterHostTag, subst(s.MaxCounterHostTag, ah); got != want {
		if s.MaxCounterHostTag.Empty() && !s.MaxHostTag.Empty() {
			fail("empty_host_replaced_by_max_host", fmt.Sprintf("max-counter host empty next to max host %s arrived as %s want %s", hzText(s.MaxHostTag), hzText(got), hzText(want)))
		} else {
			fail("hosts_survive", fmt.Sprintf("max-counter host %s arrived as %s", hzText(want), hzText(got)))
		}
	}
	if d.ValueSet != s.ValueSet {
		fail("value_set_survives", fmt.Sprintf("ValueSet %v arrived as %v", s.ValueSet, d.ValueSet))
		return
	}
	ss, ds := setOf(&src.HLL), setOf(&dst.HLL)
	if ss.count != ds.count || ss.zero != ds.zero || (ss.count != 0 && ss.skip != ds.skip) || !reflect.DeepEqual(ss.elems, ds.elems) {
		fail("uniques_survive", fmt.Sprintf("unique set %v arrived as %v", ss, ds))
	}
	if !s.ValueSet {
		if dst.ValueTDigest != nil {
			fail("centroids_survive", "a digest appeared for a row without values")
		}
		return
	}
	if d.ValueMin != s.ValueMin || d.ValueMax != s.ValueMax {
		fail("min_max_survive", fmt.Sprintf("min/max %v/%v arrived as %v/%v", s.ValueMin, s.ValueMax, d.ValueMin, d.ValueMax))
	}
	if d.ValueSum != s.ValueSum*sf || d.ValueSumSquare != s.ValueSumSquare*sf {
		detail := fmt.Sprintf("count %v sum %v sumsq %v (sf %v) arrived as sum %v sumsq %v", s.Count(), s.ValueSum, s.ValueSumSquare, sf, d.ValueSum, d.ValueSumSquare)
		if s.ValueMin == s.ValueMax && s.ValueSum != s.ValueMin*s.Count() {
			fail("sum_rederived_when_min_eq_max", "min==max="+fmt.Sprint(s.ValueMin)+" but sum!=min*count: "+detail)
		} else {
			fail("value_sums_survive", detail)
		}
	}
	if got, want := d.MinHostTag, subst(s.MinHostTag, ah); got != want {
		if s.MinHostTag.Empty() && !s.MaxHostTag.Empty() {
			fail("empty_host_replaced_by_max_host", fmt.Sprintf("min host empty next to max host %s arrived as %s want %s", hzText(s.MaxHostTag), hzText(got), hzText(want)))
		} else {
			fail("hosts_survive", fmt.Sprintf("min host %s arrived as %s", hzText(want), hzText(got)))
		}
	}
	if got, want := d.MaxHostTag, subst(s.MaxHostTag, ah); got != want {
		fail("hosts_survive", fmt.Sprintf("max host %s arrived as %s", hzText(want), hzText(got)))
	}
	// percentile centroids
	var want []tdigest.Centroid
	implicit := false
	if hasp {
		if src.ValueTDigest != nil {
			for _, c := range src.ValueTDigest.Centroids() {
				cw := float64(float32(c.Weight * sf))
				if cw != 0 {
					want = append(want, tdigest.Centroid{Mean: float64(float32(c.Mean)), Weight: cw})
				}
			}
		} else {
			implicit = true
			want = []tdigest.Centroid{{Mean: s.ValueMin, Weight: w * sf}}
		}
	}
	var got []tdigest.Centroid
	if dst.ValueTDigest != nil {
		got = unprocessed(dst.ValueTDigest)
	}
	same := len(got) == len(want)
	for i := 0; same && i < len(got); i++ {
		same = got[i] == want[i]
	}
	if !same {
		detail := fmt.Sprintf("centroids*sf %v arrived as %v", want, got)
		if implicit && w != s.Count() && len(got) == 1 && got[0].Mean == s.ValueMin && got[0].Weight == s.Count()*sf {
			fail("implicit_centroid_weighs_whole_count", fmt.Sprintf("value weight %v but row count %v: ", w, s.Count())+detail)
		} else {
			fail("centroids_survive", detail)
		}
	}
}

func inWindow(ts, bt uint32) bool {
	return int64(ts) <= int64(bt) && int64(ts) >= int64(bt)-data_model.BelieveTimestampWindow
}

func checkKey(o *vu.Out, line int, input string, g *grow, rc *received) {
	fail := func(oracle, detail string) { o.Fail(oracle, line, input+" | "+detail) }
	want := g.key
	wantWarn := int32(0)
	switch {
	case want.Timestamp == 0:
		want.Timestamp = g.bt // 0 = "not set": the row belongs to the bucket's second
	case int64(want.Timestamp) > int64(g.bt):
		want.Timestamp, wantWarn = g.bt, format.TagValueIDSrcIngestionStatusWarnTimestampClampedFutureAgg
	case !inWindow(want.Timestamp, g.bt):
		want.Timestamp, wantWarn = g.bt, format.TagValueIDSrcIngestionStatusWarnTimestampClampedPast
	}
	if rc.key != want {
		fail("key_survives", fmt.Sprintf("key ts=%d arrived as ts=%d (tags equal: %v, stags equal: %v)", want.Timestamp, rc.key.Timestamp, rc.key.Tags == want.Tags, rc.key.STags == want.STags))
	}
	if rc.warn != wantWarn {
		fail("key_clamp_warning", fmt.Sprintf("warning %d, want %d", rc.warn, wantWarn))
	}
}

func sortedKeys[V any](m map[data_model.TagUnion]V) []data_model.TagUnion {
	keys := make([]data_model.TagUnion, 0, len(m))
	for k := range m {
		keys = append(keys, k)
	}
	sort.Slice(keys, func(i, j int) bool { return hz(keys[i]) < hz(keys[j]) })
	return keys
}

// ---------- several rows of one second: row identity on the aggregator ----------

func stagsText(a []string) string {
	var p []string
	for i, x := range a {
		if x != "" {
			p = append(p, fmt.Sprintf("%d:%q", i, x))
		}
	}
	return "{" + strings.Join(p, ",") + "}"
}

// bytes with runs of zeros folded: -n stands for n zero bytes
func foldZeros(bs []byte) string {
	var p []string
	for i := 0; i < len(bs); {
		if bs[i] != 0 {
			p = append(p, fmt.Sprint(bs[i]))
			i++
			continue
		}
		j := i
		for j < len(bs) && bs[j] == 0 {
			j++
		}
		p = append(p, fmt.Sprintf("(-%d)", j-i))
		i = j
	}
	return "[" + strings.Join(p, ";") + "]"
}

func sparseBytes(a []string) string {
	var p []string
	for i, x := range a {
		if x != "" {
			p = append(p, fmt.Sprintf("(%d,%s)", i, vu.Bytes([]byte(x))))
		}
	}
	return "[" + strings.Join(p, ";") + "]"
}

// keys of one second that differ as little as possible: same metric and int tags with string tags that collide
// under concatenation, the same string in neighbouring positions, an int tag against the same text as a string
// tag, shifted int tags, empty against absent, and the same key in two seconds
func genBucketKeys(r *vu.Rng, bt uint32) []data_model.Key {
	base := data_model.Key{Timestamp: bt, Metric: int32(1 + r.Intn(1000))}
	if r.Bool() {
		base.Tags[0] = int32(1 + r.Intn(3))
	}
	if r.Chance(30) {
		base.Tags[1+r.Intn(5)] = int32(r.U32())
	}
	i := 1 + r.Intn(10)
	if r.Chance(10) {
		i = 30 + r.Intn(14)
	}
	mk := func(st map[int]string, tg map[int]int32) data_model.Key {
		k := base
		for j, x := range st {
			k.STags[j] = x
		}
		for j, x := range tg {
			k.Tags[j] = x
		}
		return k
	}
	words := []string{"abc", "eu", "checkout", "10", "x-y", "a"}
	w := words[r.Intn(len(words))]
	var fam []data_model.Key
	switch r.Intn(6) {
	case 0: // one text split differently between neighbouring string tags
		if len(w) < 2 {
			w = "abc"
		}
		c := 1 + r.Intn(len(w)-1)
		fam = []data_model.Key{mk(map[int]string{i: w[:c], i + 1: w[c:]}, nil), mk(map[int]string{i: w}, nil), mk(map[int]string{i + 1: w}, nil),
			mk(map[int]string{i: w[:1], i + 1: w[1:]}, nil), mk(map[int]string{i: w[:1], i + 1: w[1:c], i + 2: w[c:]}, nil), mk(map[int]string{i: w[:c], i + 2: w[c:]}, nil)}
	case 1: // the same value in neighbouring positions, a later string tag present
		fam = []data_model.Key{mk(map[int]string{i: w, i + 2: "x"}, nil), mk(map[int]string{i + 1: w, i + 2: "x"}, nil), mk(map[int]string{i: w, i + 1: w, i + 2: "x"}, nil),
			mk(map[int]string{i + 2: "x"}, nil), mk(map[int]string{i: w}, nil), mk(map[int]string{i: w, i + 3: "x"}, nil)}
	case 2: // an int tag against a string tag, strings that look like the bytes of a tag or a count
		fam = []data_model.Key{mk(map[int]string{i: "5"}, nil), mk(nil, map[int]int32{i: 5}), mk(nil, map[int]int32{i: 0x35}), mk(map[int]string{0: "\x01"}, nil),
			mk(nil, nil), mk(map[int]string{i: "5", i + 1: "5"}, nil), mk(nil, map[int]int32{i: 5, i + 1: 5})}
	case 3: // shifted int tags, trailing zeros
		fam = []data_model.Key{mk(nil, map[int]int32{i: 7}), mk(nil, map[int]int32{i + 1: 7}), mk(nil, map[int]int32{i: 7, i + 1: 7}), mk(nil, map[int]int32{i: 7 << 8}),
			mk(nil, map[int]int32{i: 7, i + 2: -1}), mk(nil, nil)}
	case 4: // the same key in two seconds, first and last slots
		k2 := mk(map[int]string{i: w}, nil)
		k2.Timestamp = bt - 1
		k3 := mk(nil, nil)
		k3.Timestamp = bt - 1
		fam = []data_model.Key{mk(map[int]string{i: w}, nil), k2, mk(nil, nil), k3, mk(map[int]string{0: w}, nil), mk(map[int]string{format.MaxTags - 1: w}, nil)}
	default: // prefixes and repeated text
		fam = []data_model.Key{mk(map[int]string{i: w}, nil), mk(map[int]string{i: w + w}, nil), mk(map[int]string{i: w, i + 1: w}, nil), mk(map[int]string{i: w + "a"}, nil),
			mk(map[int]string{i: w, i + 1: "a"}, nil), mk(map[int]string{i: w[:1]}, nil)}
	}
	// 2..6 distinct keys in a seeded order
	var keys []data_model.Key
	n := 2 + r.Intn(5)
	for len(fam) > 0 && len(keys) < n {
		j := r.Intn(len(fam))
		k := fam[j]
		fam = append(fam[:j], fam[j+1:]...)
		dup := false
		for _, x := range keys {
			dup = dup || x == k
		}
		if !dup {
			keys = append(keys, k)
		}
	}
	return keys
}

func runBucket(o *vu.Out, r *vu.Rng) {
	bt := 1700000000 + uint32(r.Intn(1000000))
	keys := genBucketKeys(r, bt)
	sf := sfPool[r.Intn(len(sfPool))]
	ah := data_model.TagUnion{I: 77}
	var agg data_model.MultiItemMap
	rng := rand.New(r.U64())
	var rows []*grow
	var got []*data_model.MultiItem
	var rowT, bytesT, firstT, txt []string
	problem := ""
	for i, k := range keys {
		a, b := gop{kind: "value", v: float64(i+1) * 1.5, c: 1}, gop{kind: "value", v: float64(i+1) * 2, c: float64(i + 1)}
		g := &grow{key: k, bt: bt, sf: sf, ah: ah, tail: build(r.U64(), []gstep{{op: &a}, {op: &b}}, false), top: map[data_model.TagUnion]*gvalue{}}
		rows = append(rows, g)
		// the aggregator's path for one row of a received bucket (handleSendSourceBucket)
		var item tlstatshouse.MultiItemBytes
		if _, err := item.ReadTL1(assemble(itemOf(g), bt).wire); err != nil {
			problem = err.Error()
			break
		}
		kk, _ := data_model.KeyFromStatshouseMultiItem(&item, bt)
		for j, str := range item.Skeys {
			if j >= format.MaxTags {
				break
			}
			kk.STags[j] = string(str)
		}
		var stackBuf [1024]byte
		keyBytes, _ := kk.XXHash(stackBuf[:0])
		bytesT = append(bytesT, foldZeros(keyBytes))
		mi, _ := agg.GetOrCreateMultiItem(&kk, nil, keyBytes)
		if e := mi.MergeWithTLMultiItem(rng, data_model.AggregatorStringTopCapacity, &item, ah); e != 0 {
			problem = fmt.Sprintf("ingestion error %d", e)
		}
		got = append(got, mi)
		first := i
		for j := 0; j < i; j++ {
			if got[j] == mi {
				first = j
				break
			}
		}
		firstT = append(firstT, fmt.Sprint(first))
		rowT = append(rowT, fmt.Sprintf("BK %d %s %s %s", k.Timestamp, vu.Z(int64(k.Metric)), sparseI(k.Tags[:]), sparseBytes(k.STags[:])))
		txt = append(txt, fmt.Sprintf("ts=%d tags=%s stags=%s", k.Timestamp, sparseI(k.Tags[:]), stagsText(k.STags[:])))
	}
	input := fmt.Sprintf("bucket bt=%d metric=%d sf=%g rows=[%s]", bt, keys[0].Metric, sf, strings.Join(txt, " ; "))
	if problem != "" {
		line := o.Case(input, "CSkip", false, "bucket/problem")
		o.Fail("wire_readable", line, input+" | "+problem)
		return
	}
	term := fmt.Sprintf("CBucket [%s] [%s] [%s]", strings.Join(rowT, ";"), strings.Join(bytesT, ";"), strings.Join(firstT, ";"))
	line := o.Case(input, term, true, "bucket", fmt.Sprintf("bucket/%d-rows", len(keys)))
	// oracle: every sent row arrives under exactly its own key with its own aggregates
	if len(agg.MultiItems) != len(rows) {
		o.Fail("rows_keep_their_identity", line, input+fmt.Sprintf(" | %d rows sent, the aggregator holds %d", len(rows), len(agg.MultiItems)))
	}
	for i, g := range rows {
		if firstT[i] != fmt.Sprint(i) {
			o.Fail("rows_keep_their_identity", line, input+fmt.Sprintf(" | row %d was merged into the item of row %s", i, firstT[i]))
			continue
		}
		if got[i].Key != g.key {
			o.Fail("rows_keep_their_identity", line, input+fmt.Sprintf(" | row %d is filed under another key: stags %s", i, stagsText(got[i].Key.STags[:])))
			continue
		}
		d, s := &got[i].Tail.Value, &g.tail.mv.Value
		if d.Count() != s.Count()*sf || d.ValueSum != s.ValueSum*sf || d.ValueMin != s.ValueMin || d.ValueMax != s.ValueMax {
			o.Fail("rows_keep_their_identity", line, input+fmt.Sprintf(" | row %d: count %v sum %v (sf %v) arrived as count %v sum %v", i, s.Count(), s.ValueSum, sf, d.Count(), d.ValueSum))
		}
	}
}

// ---------- unique sketches at the thinning threshold ----------

type bigCase struct {
	a, step uint32
	n       int
	pre     []uint32 // hashes the receiver already holds (nil: a fresh item, the UmMarshall path)
	top     bool     // the sketch sits on a string-top element instead of the tail
}

// the fullest unthinned sketch (uniquesHashMaxSize items), one below, one above (thinned), with and without the zero
// hash, into a fresh item and into one that already holds hashes (inside and outside the incoming set)
func bigCases(maxSize int) []bigCase {
	var m uint32 = 2654435761 // odd: the hashes m*(k+1) mod 2^32 are pairwise different, non-zero and spread over the table
	in1, in2 := m*5, m*9 // inside every incoming set
	out1, out2 := m*uint32(maxSize+5), m*uint32(maxSize+6) // outside
	return []bigCase{
		{a: m, step: m, n: maxSize},
		{a: m, step: m, n: maxSize, pre: []uint32{in1, in2, out1, out2}},
		{a: m, step: m, n: maxSize + 1},
		{a: 0, step: m, n: maxSize, top: true},
		{a: m, step: m, n: maxSize - 1},
		{a: m, step: m, n: maxSize - 1, pre: []uint32{in1, out1}, top: true},
		{a: m, step: m, n: maxSize + 4000},
	}
}

// what the property demands of the receiver's sketch, computed on plain sets: the union of what it held and what was
// sent, restricted to the hashes its skip degree keeps (how far a sketch thins is C04's subject)
func unionAt(a, b hllSet, skip uint32) hllSet {
	set := map[uint32]struct{}{}
	for _, s := range []hllSet{a, b} {
		for _, x := range s.elems {
			set[x] = struct{}{}
		}
		if s.zero {
			set[0] = struct{}{}
		}
	}
	res := hllSet{skip: skip}
	for x := range set {
		if skip < 32 && x&(1<<skip-1) != 0 {
			continue
		}
		if x == 0 {
			res.zero = true
		} else {
			res.elems = append(res.elems, x)
		}
		res.count++
	}
	sort.Slice(res.elems, func(i, j int) bool { return res.elems[i] < res.elems[j] })
	return res
}

func runBigUnique(o *vu.Out, c bigCase, seed uint64) {
	src := &data_model.MultiValue{}
	rng := rand.New(seed)
	src.AddCounterHost(rng, float64(c.n), data_model.TagUnion{})
	for k := 0; k < c.n; k++ {
		src.HLL.VerifInsertHash(c.a + uint32(k)*c.step)
	}
	it := &data_model.MultiItem{Key: data_model.Key{Metric: 7, Timestamp: 1700000000}, SF: 1, MetricMeta: &format.MetricMetaValue{}}
	topKey := data_model.TagUnion{S: "top0"}
	if c.top {
		it.Tail.AddCounterHost(rng, 1, data_model.TagUnion{})
		it.Top = map[data_model.TagUnion]*data_model.MultiValue{topKey: src}
	} else {
		it.Tail = *src
	}
	input := fmt.Sprintf("bigunique hashes=%d+k*%d,k<%d pre=%v top=%v", c.a, c.step, c.n, c.pre, c.top)
	srcDig, srcSet := udig(&src.HLL), setOf(&src.HLL)
	var item tlstatshouse.MultiItemBytes
	if _, err := item.ReadTL1(assemble(it, 1700000000).wire); err != nil {
		line := o.Case(input, "CSkip", false, "biguniq/problem")
		o.Fail("wire_readable", line, input+" | "+err.Error())
		return
	}
	agg := &data_model.MultiItem{SF: 1}
	var dst *data_model.MultiValue
	var before hllSet
	if c.pre != nil {
		if c.top {
			agg.Top = map[data_model.TagUnion]*data_model.MultiValue{topKey: {}}
			dst = agg.Top[topKey]
		} else {
			dst = &agg.Tail
		}
		dst.AddCounterHost(rng, 1, data_model.TagUnion{})
		for _, h := range c.pre {
			dst.HLL.VerifInsertHash(h)
		}
		before = setOf(&dst.HLL)
	}
	e := agg.MergeWithTLMultiItem(rng, data_model.AggregatorStringTopCapacity, &item, data_model.TagUnion{I: 77})
	if c.top {
		dst = agg.Top[topKey]
	} else {
		dst = &agg.Tail
	}
	preT := make([]int64, len(c.pre))
	for i, h := range c.pre {
		preT[i] = int64(h)
	}
	dstDig := "UN"
	if dst != nil {
		dstDig = udig(&dst.HLL)
	}
	term := fmt.Sprintf("CBigU %d %d %d %s %s %s", c.a, c.step, c.n, vu.ListZ(preT), srcDig, dstDig)
	line := o.Case(input, term, true, "biguniq", fmt.Sprintf("biguniq/src-skip%d", srcSet.skip))
	if e != 0 || dst == nil {
		o.Fail("no_ingestion_error", line, input+fmt.Sprintf(" | ingestion error %d", e))
		return
	}
	got := setOf(&dst.HLL)
	want := unionAt(srcSet, before, got.skip)
	if got.skip < max(srcSet.skip, before.skip) || got.count != want.count || got.zero != want.zero || !reflect.DeepEqual(got.elems, want.elems) ||
		(c.pre == nil && got.skip != srcSet.skip) {
		var xs, xw uint64
		for _, x := range got.elems {
			xs += uint64(x)
		}
		for _, x := range want.elems {
			xw += uint64(x)
		}
		o.Fail("uniques_survive", line, input+fmt.Sprintf(" | unique set of %d items (sender skip %d; at skip %d: %d items, zero %v, sum %d) arrived as %d items (skip %d, zero %v, sum %d)",
			srcSet.count, srcSet.skip, got.skip, want.count, want.zero, xw, got.count, got.skip, got.zero, xs))
	}
}

// ---------- rows through the real handler of the aggregator ----------

var handlerAgent *agent.Agent

func makeHandlerAgent() *agent.Agent {
	dir, err := os.MkdirTemp("", "verif-transfer")
	if err != nil {
		panic(err)
	}
	cfg := agent.DefaultConfig()
	mc, _ := pcache.LoadMappingsCacheFile(nil, 1<<20, 86400)
	res := tlstatshouse.GetConfigResult3{Addresses: []string{"127.0.0.1:1", "127.0.0.1:2", "127.0.0.1:3"}, ShardByMetricCount: 1}
	a, err := agent.MakeAgent("tcp4", dir, "", nil, cfg, "verif-host", format.TagValueIDComponentAgent,
		metajournal.MakeMetricsStorage(nil), mc, nil, nil, func(string, ...any) {}, nil, &res, nil)
	if err != nil {
		panic(err)
	}
	return a
}

// the rows of one agent bucket through the real handleSendSourceBucket3 on every replica (primary for the second or
// not): the keys of the MultiItems it creates are the keys sent (timestamp included), with their own count and sum
func checkHandler(o *vu.Out, r *vu.Rng, rows []*grow, batchNo int) {
	if len(rows) == 0 {
		return
	}
	if handlerAgent == nil {
		handlerAgent = makeHandlerAgent()
	}
	t := 1700000000 + uint32(r.Intn(1000000))
	replicaKey := int32(1 + batchNo%3)
	var items []tlstatshouse.MultiItem
	var sent []*data_model.MultiItem
	var txt []string
	for i, g := range rows {
		it := itemOf(g)
		it.Key.Metric = int32(1000 + i)
		switch i % 4 { // the timestamp is omitted on the wire when it is the bucket's (or not set)
		case 0, 1:
			it.Key.Timestamp = t
		case 2:
			it.Key.Timestamp = t - uint32(1+r.Intn(5))
		default:
			it.Key.Timestamp = 0
		}
		var item tlstatshouse.MultiItem
		if _, err := item.ReadTL1(assemble(it, t).wire); err != nil {
			panic(err)
		}
		items = append(items, item)
		sent = append(sent, it)
		txt = append(txt, fmt.Sprintf("%d:ts=%d", it.Key.Metric, it.Key.Timestamp))
	}
	input := fmt.Sprintf("handler bucket t=%d (t%%3=%d) replicaKey=%d rows=[%s]", t, t%3, replicaKey, strings.Join(txt, " "))
	kind := "handler/primary-replica"
	if t%3 != uint32(replicaKey-1) {
		kind = "handler/other-replica"
	}
	got, accepted, panicked := aggregator.VerifTransferViaHandler(handlerAgent, replicaKey, t, "agent-host", items)
	line := o.Case(input, "CSkip", true, "handler", kind)
	if !accepted || panicked {
		o.Fail("key_survives_via_handler", line, input+fmt.Sprintf(" | the handler did not accept the bucket (accepted=%v panicked=%v)", accepted, panicked))
		return
	}
	if len(got) != len(sent) {
		o.Fail("key_survives_via_handler", line, input+fmt.Sprintf(" | %d rows sent, the aggregator holds %d", len(sent), len(got)))
	}
	for _, it := range sent {
		want := it.Key
		if want.Timestamp == 0 {
			want.Timestamp = t
		}
		var found *data_model.MultiItem
		var other *data_model.MultiItem
		for _, x := range got {
			if x.Item.Key == want {
				found = x.Item
			}
			if x.Item.Key.Metric == want.Metric {
				other = x.Item
			}
		}
		if found == nil {
			detail := "no row of this metric"
			if other != nil {
				detail = fmt.Sprintf("the row arrived with timestamp %d (tags equal: %v, stags equal: %v)", other.Key.Timestamp, other.Key.Tags == want.Tags, other.Key.STags == want.STags)
			}
			o.Fail("key_survives_via_handler", line, input+fmt.Sprintf(" | metric %d sent with timestamp %d: %s", want.Metric, want.Timestamp, detail))
			continue
		}
		if found.Tail.Value.Count() != it.Tail.Value.Count()*it.SF || len(found.Top) != len(it.Top) {
			o.Fail("key_survives_via_handler", line, input+fmt.Sprintf(" | metric %d: count %v*%v arrived as %v, %d top elements as %d", want.Metric, it.Tail.Value.Count(), it.SF, found.Tail.Value.Count(), len(it.Top), len(found.Top)))
		}
	}
}

// ---------- one row ----------

func rowText(g *grow) string {
	var tp []string
	keys := make([]data_model.TagUnion, 0, len(g.top))
	for k := range g.top {
		keys = append(keys, k)
	}
	sort.Slice(keys, func(i, j int) bool { return hz(keys[i]) < hz(keys[j]) })
	for _, k := range keys {
		tp = append(tp, hzText(k)+":"+g.top[k].text())
	}
	s := fmt.Sprintf("xfer ts=%d bt=%d metric=%d tags=%s stags=%s sf=%g hasp=%v ah=%s tail=[%s] top=[%s]", g.key.Timestamp, g.bt, g.key.Metric,
		sparseI(g.key.Tags[:]), sparseS(g.key.STags[:]), g.sf, g.hasp, hzText(g.ah), g.tail.text(), strings.Join(tp, " ; "))
	if len(s) > 420 {
		s = s[:420] + "…"
	}
	return s
}

func digestExact(mv *data_model.MultiValue, sf float64) bool {
	if mv.ValueTDigest == nil {
		return true
	}
	for _, c := range mv.ValueTDigest.Centroids() {
		if !f32exact(c.Mean) || !exactMul(c.Weight, sf) || !f32exact(c.Weight*sf) || c.Weight*sf == 0 {
			return false
		}
	}
	return true
}

func runRow(o *vu.Out, g *grow, seed uint64, boundary bool) {
	it := itemOf(g)
	// the agent's row as the model gets it (dumped before sending)
	tailT := mvsTerm(&it.Tail)
	exact := digestExact(&it.Tail, g.sf)
	topT := map[data_model.TagUnion]string{}
	for k, v := range it.Top {
		topT[k] = mvsTerm(v)
		exact = exact && digestExact(v, g.sf)
	}
	st := assemble(it, g.bt)
	rc, err := receive(st.wire, g.bt, g.ah, seed)
	input := rowText(g)
	if err != nil {
		line := o.Case(input, "CSkip", false, "xfer/unreadable")
		o.Fail("wire_readable", line, input+" | "+err.Error())
		return
	}
	kinds := append([]string{}, g.kinds...)
	if !exact {
		kinds = append(kinds, "xfer/digest-not-float32-exact(oracles only)")
	}
	// observation
	var topIn, topMasks []string
	for i, k := range st.topOrder {
		topIn = append(topIn, fmt.Sprintf("(%s,%s)", vu.Z(hz(k)), topT[k]))
		topMasks = append(topMasks, fmt.Sprintf("%d", rc.item.Top[i].FieldsMask))
	}
	var aggKeys []data_model.TagUnion
	for k := range rc.agg.Top {
		aggKeys = append(aggKeys, k)
	}
	sort.Slice(aggKeys, func(i, j int) bool { return hz(aggKeys[i]) < hz(aggKeys[j]) })
	var topOut []string
	for _, k := range aggKeys {
		topOut = append(topOut, fmt.Sprintf("(%s,%s)", vu.Z(hz(k)), aobsTerm(rc.agg.Top[k])))
	}
	term := fmt.Sprintf("CXfer %d %s %s %s %s [%s] %s %s %d %s %d [%s] %d %d %s %s %d %s [%s]",
		g.key.Timestamp, vu.Z(int64(g.key.Metric)), sparseI(g.key.Tags[:]), sparseS(g.key.STags[:]), tailT, strings.Join(topIn, ";"),
		q(g.sf), vu.B(g.hasp), g.bt, vu.Z(hz(g.ah)),
		rc.item.FieldsMask, strings.Join(topMasks, ";"),
		rc.key.Timestamp, rc.warn, sameOr(sparseI(g.key.Tags[:]), sparseI(rc.key.Tags[:])), sameOr(sparseS(g.key.STags[:]), sparseS(rc.key.STags[:])),
		rc.err, aobsTerm(&rc.agg.Tail), strings.Join(topOut, ";"))
	mixed := func(v *gvalue) bool {
		s := &v.mv.Value
		return s.ValueSet && s.ValueMin == s.ValueMax && s.ValueSum != s.ValueMin*s.Count()
	}
	nontrivial := g.tail.mv.Value.ValueSet || len(g.top) > 0 || g.tail.mv.HLL.ItemsCount() > 0
	if mixed(g.tail) {
		kinds = append(kinds, "xfer/min==max,sum!=min*count")
	}
	if g.tail.mv.ValueTDigest != nil {
		kinds = append(kinds, "xfer/digest")
	}
	if g.tail.mv.HLL.ItemsCount() > 0 {
		kinds = append(kinds, "xfer/uniques")
	}
	if rc.warn != 0 {
		kinds = append(kinds, fmt.Sprintf("xfer/warn%d", rc.warn))
	}
	if rc.err != 0 {
		kinds = append(kinds, fmt.Sprintf("xfer/err%d", rc.err))
	}
	if g.sf != 1 {
		kinds = append(kinds, "xfer/sf>1")
	}
	var line int
	if exact {
		line = o.Case(input, term, nontrivial, kinds...)
	} else {
		// the model has no float32 rounding: the row is checked by the oracles only
		line = o.Case(input, "CSkip", false, kinds...)
	}
	// oracles
	checkKey(o, line, input, g, rc)
	if boundary {
		return // numbers outside the aggregator's validation bounds are rejected by design; the model says which
	}
	if rc.err != 0 {
		o.Fail("no_ingestion_error", line, input+fmt.Sprintf(" | ingestion error %d", rc.err))
	}
	checkValue(o, line, input, "tail", g.tail.mv, g.tail.w, &rc.agg.Tail, g.sf, g.hasp, g.ah)
	for _, k := range sortedKeys(g.top) {
		v := g.top[k]
		checkValue(o, line, input, "top "+hzText(k), v.mv, v.w, rc.agg.Top[k], g.sf, g.hasp, g.ah)
	}
	for _, k := range sortedKeys(rc.agg.Top) {
		if _, ok := g.top[k]; !ok {
			o.Fail("top_keys_survive", line, input+" | unexpected top element "+hzText(k))
		}
	}
}

func runBuild(o *vu.Out, g *gvalue, hasp bool) {
	input := fmt.Sprintf("build hasp=%v [%s]", hasp, g.text())
	if len(input) > 400 {
		input = input[:400] + "…"
	}
	term := fmt.Sprintf("CBuild %s %s %s %s", g.bopsTerm(), vu.ListZ(func() []int64 {
		x := make([]int64, len(g.draws))
		for i, d := range g.draws {
			x[i] = int64(d)
		}
		return x
	}()), vobs(&g.mv.Value), udig(&g.mv.HLL))
	kinds := []string{"build"}
	if len(g.draws) > 0 {
		kinds = append(kinds, "build/rng-draw")
	}
	for _, s := range g.steps {
		if s.op == nil {
			kinds = append(kinds, "build/merge")
		} else {
			kinds = append(kinds, "build/"+s.op.kind)
		}
	}
	o.Case(input, term, len(g.steps) >= 2, kinds...)
}

// ---------- recorded findings: the witnesses on the real code ----------

func replayFindings(o *vu.Out) {
	ah := data_model.TagUnion{I: 77}
	send := func(g *grow) *received {
		rc, err := receive(assemble(itemOf(g), g.bt).wire, g.bt, g.ah, 1)
		if err != nil {
			panic(err)
		}
		return rc
	}
	mk := func(hasp bool, ops ...gop) *grow {
		var steps []gstep
		for i := range ops {
			steps = append(steps, gstep{op: &ops[i]})
		}
		return &grow{key: data_model.Key{Metric: 1, Timestamp: 1700000000}, bt: 1700000000, sf: 1, hasp: hasp, ah: ah, tail: build(1, steps, hasp), top: map[data_model.TagUnion]*gvalue{}}
	}
	outcome := func(b bool) string {
		if b {
			return "reproduced"
		}
		return "gone"
	}
	// F-C02a: {counter event 1; value 7}: sum 7 arrives as 14
	rc := send(mk(false, gop{kind: "count", c: 1}, gop{kind: "value", v: 7, c: 1}))
	o.Finding("F-C02a", outcome(rc.agg.Tail.Value.ValueSum == 14 && rc.agg.Tail.Value.Count() == 2))
	// F-C02b: {value 1 without _h; value 5 from host 5}: the min host (this agent) arrives as host 5
	rc = send(mk(false, gop{kind: "value", v: 1, c: 1}, gop{kind: "value", v: 5, c: 1, host: data_model.TagUnion{I: 5}}))
	o.Finding("F-C02b", outcome(rc.agg.Tail.Value.MinHostTag == data_model.TagUnion{I: 5}))
	// F-C02c: percentile metric, {counter event 1; value 7}: the implicit centroid weighs 2
	rc = send(mk(true, gop{kind: "count", c: 1}, gop{kind: "value", v: 7, c: 1}))
	cs := []tdigest.Centroid(nil)
	if rc.agg.Tail.ValueTDigest != nil {
		cs = unprocessed(rc.agg.Tail.ValueTDigest)
	}
	o.Finding("F-C02c", outcome(len(cs) == 1 && cs[0].Weight == 2))
}

// ---------- the real sampleBucket against the row assembly used above ----------

func checkSampleBucket(o *vu.Out, r *vu.Rng, rows []*grow) {
	if len(rows) == 0 {
		return
	}
	bt := uint32(1700000000)
	var items []*data_model.MultiItem
	want := map[string][]byte{}
	for i, g := range rows {
		it := itemOf(g)
		it.Key.Metric = int32(1000 + i) // distinct keys, one item per metric
		it.MetricMeta = &format.MetricMetaValue{MetricID: it.Key.Metric, HasPercentiles: g.hasp, NoSampleAgent: true, EffectiveWeight: 1}
		if len(it.Top) > 1 { // keep the comparison independent of map order
			for _, k := range sortedKeys(it.Top)[1:] {
				delete(it.Top, k)
			}
		}
		items = append(items, it)
		want[fmt.Sprint(it.Key.Metric)] = assemble(it, bt).wire
	}
	got := agent.VerifTransferSampleBucket(bt, items, r.U64())
	line := o.Case(fmt.Sprintf("sampleBucket over %d rows", len(rows)), "CSkip", true, "samplebucket")
	if len(got) != len(items) {
		o.Fail("keepf_row_assembly", line, fmt.Sprintf("sampleBucket kept %d of %d NoSampleAgent rows", len(got), len(items)))
		return
	}
	for _, m := range got {
		w := m.WriteTL1(nil)
		if !bytes.Equal(w, want[fmt.Sprint(m.Metric)]) {
			o.Fail("keepf_row_assembly", line, fmt.Sprintf("metric %d: sampleBucket item differs from TLMultiItemFromKey+MultiValueToTL of the row (sf and fields mask included)", m.Metric))
			return
		}
	}
}

func main() {
	seed := flag.Uint64("seed", 1, "")
	out := flag.String("out", ".", "")
	n := flag.Int("n", 1000, "number of rows")
	big := flag.Int("big", 7, "number of rows with a unique sketch at the thinning threshold (spread over the run)")
	flag.Parse()
	// intern every string the generators use in a fixed order (ids must not depend on map iteration order)
	for _, x := range []string{"hA", "hB", "agent-host", "first", "last"} {
		sid(x)
	}
	for i := 0; i < 6; i++ {
		sid(fmt.Sprintf("s%d", i))
		sid(fmt.Sprintf("top%d", i))
	}
	r := vu.NewRng(*seed)
	o := vu.NewOut(*out)
	defer o.Close()
	replayFindings(o)
	// the guard of the key-identity theorem: a string tag with a zero byte never reaches the per-second map
	// (validateStringTag in handleSendSourceBucket drops the row)
	if format.ValidStringValueBytes([]byte("a\x00b")) || format.ValidStringValueBytes([]byte{0}) {
		o.Fail("nul_string_tags_are_rejected", 0, "format.ValidStringValueBytes accepts a string with a zero byte")
	}
	var batch []*grow
	batchNo, bigDone := 0, 0
	_, maxSize, _, _ := data_model.VerifChConsts()
	bigs := bigCases(maxSize)
	for i := 0; i < *n; i++ {
		boundary := i%40 == 7
		var g *grow
		if boundary {
			g = genBoundaryRow(r)
		} else {
			g = genRow(r)
		}
		if i%4 == 0 {
			runBuild(o, g.tail, g.hasp)
			for _, k := range sortedKeys(g.top) {
				runBuild(o, g.top[k], g.hasp)
				break
			}
		}
		runRow(o, g, r.U64(), boundary)
		if !boundary && i%10 == 3 {
			batch = append(batch, genRow(r))
		}
		if i%10 == 5 {
			runBucket(o, r)
		}
		if len(batch) == 12 || (i == *n-1 && len(batch) > 0) {
			checkSampleBucket(o, r, batch)
			checkHandler(o, r, batch, batchNo)
			batchNo++
			batch = nil
		}
		if i%70 == 35 && bigDone < len(bigs) && bigDone < *big {
			runBigUnique(o, bigs[bigDone], r.U64())
			bigDone++
		}
	}
}
