//go:build verif

// Correspondence harness for C25 (Table): drives the real getTableFromLODs (stub loadPoints), limitQueries and
// getHandlerWhat and prints cases for Table/Corr.v. The clauses of the property are evaluated here, on the
// implementation's own output, by oracles written independently of the Coq model (tuple comparisons, set
// arithmetic over the whole storage).
package main

import (
	"flag"
	"fmt"
	"math"
	"sort"
	"strings"

	"github.com/VKCOM/statshouse/internal/api"
	"github.com/VKCOM/statshouse/internal/data_model"
	"github.com/VKCOM/statshouse/internal/format"
	vu "github.com/VKCOM/statshouse/internal/verifutil"
)

type row = api.VerifTRow

const stop = format.StringTopTagIndexV3

// ---------- Coq printing ----------

func bytesTerm(s string) string { return vu.Bytes([]byte(s)) }

func richOf(r *row) string {
	if r.STag[stop] == "" && r.Tag[stop] != 0 {
		return api.VerifRich(r.Tag[stop])
	}
	return ""
}

func rowTerm(r *row) string {
	var tg, st []string
	for i, v := range r.Tag {
		if v != 0 {
			tg = append(tg, fmt.Sprintf("(%d,%s)", i, vu.Z(v)))
		}
	}
	for i, v := range r.STag {
		if v != "" {
			st = append(st, fmt.Sprintf("(%d,%s)", i, bytesTerm(v)))
		}
	}
	return fmt.Sprintf("(mkRow %s [%s] [%s] %d %s %s %s %s %s %s %s %s)", vu.Z(r.Time), strings.Join(tg, ";"), strings.Join(st, ";"),
		r.ShardNum, vu.Z(int64(r.StagCount)), bytesTerm(richOf(r)), vu.Z(r.Cnt), vu.Z(r.Sum), vu.Z(r.Min), vu.Z(r.Max), vu.Z(r.Pct), vu.Z(r.Card))
}

func markerTerm(m api.RowMarker) string {
	var tg []string
	for _, t := range m.Tags {
		tg = append(tg, fmt.Sprintf("(%d,%s)", t.Index, vu.Z(t.Value)))
	}
	return fmt.Sprintf("(mkMarker %s [%s] %s)", vu.Z(m.Time), strings.Join(tg, ";"), bytesTerm(m.SKey))
}

func markerText(m api.RowMarker) string {
	var tg []string
	for _, t := range m.Tags {
		tg = append(tg, fmt.Sprintf("%d=%d", t.Index, t.Value))
	}
	return fmt.Sprintf("{t=%d [%s] %q}", m.Time, strings.Join(tg, ","), m.SKey)
}

func rowText(r *row) string {
	var tg []string
	for i, v := range r.Tag {
		if v != 0 {
			tg = append(tg, fmt.Sprintf("%d=%d", i, v))
		}
	}
	for i, v := range r.STag {
		if v != "" {
			tg = append(tg, fmt.Sprintf("s%d=%q", i, v))
		}
	}
	if r.ShardNum != 0 {
		tg = append(tg, fmt.Sprintf("sh=%d", r.ShardNum))
	}
	return fmt.Sprintf("%d[%s]", r.Time, strings.Join(tg, ","))
}

func groupsTerm(gs [][]row) string {
	var g []string
	for _, rows := range gs {
		var rs []string
		for i := range rows {
			rs = append(rs, rowTerm(&rows[i]))
		}
		g = append(g, "["+strings.Join(rs, ";")+"]")
	}
	return "[" + strings.Join(g, ";") + "]"
}

func groupsText(gs [][]row) string {
	var g []string
	for _, rows := range gs {
		var rs []string
		for i := range rows {
			rs = append(rs, rowText(&rows[i]))
		}
		g = append(g, strings.Join(rs, " "))
	}
	return "(" + strings.Join(g, " | ") + ")"
}

func listInt(xs []int) string {
	p := make([]string, len(xs))
	for i, x := range xs {
		p[i] = fmt.Sprint(x)
	}
	return "[" + strings.Join(p, ";") + "]"
}

// ---------- the property's own vocabulary (independent of the model) ----------

// cmpMarker compares the marker tuple (time, tag values..., skey) with the row's tuple at the marker's tag indices.
func cmpMarker(m api.RowMarker, r *row) int {
	c := func(a, b int64) int {
		if a < b {
			return -1
		} else if a > b {
			return 1
		}
		return 0
	}
	if x := c(m.Time, r.Time); x != 0 {
		return x
	}
	for _, t := range m.Tags {
		if x := c(t.Value, r.Tag[t.Index]); x != 0 {
			return x
		}
	}
	return strings.Compare(m.SKey, r.STag[stop])
}

type query struct {
	whats    []int
	lods     []data_model.LOD
	byIx     []int
	byS      bool
	by       []string
	from, to api.RowMarker
	fromEnd  bool
	num      int
	desired  int64
	store    [][][][]row // pass, lod, group, row
}

func (q *query) timeBounds() (int64, int64) {
	ft, tt := q.from.Time, q.to.Time
	if q.fromEnd {
		ft, tt = tt, ft
	}
	if tt == 0 {
		tt = math.MaxInt64
	}
	return ft, tt
}

// inWindow: strictly between the from-marker and the to-marker, in the requested direction (Test_limitQueries: both ends exclusive).
func (q *query) inWindow(r *row) bool {
	ft, tt := q.timeBounds()
	if r.Time < ft || r.Time > tt {
		return false
	}
	if q.from.Time != 0 {
		c := cmpMarker(q.from, r)
		if (!q.fromEnd && c >= 0) || (q.fromEnd && c <= 0) {
			return false
		}
	}
	if q.to.Time != 0 {
		c := cmpMarker(q.to, r)
		if (!q.fromEnd && c <= 0) || (q.fromEnd && c >= 0) {
			return false
		}
	}
	return true
}

type keyT struct {
	time int64
	tag  [format.MaxTags]int64
	stag [format.MaxTags]string
	sh   uint32
	sc   int
}

func keyOf(r *row) keyT { return keyT{r.Time, r.Tag, r.STag, r.ShardNum, r.StagCount} }

// order tuple of an output row as the property means it: time, the group-by tag values, the string key
func (q *query) orderTuple(r *row) (int64, []int64, string) {
	var tv []int64
	for _, j := range q.byIx {
		tv = append(tv, r.Tag[j])
	}
	sk := ""
	if r.STag[stop] != "" {
		if q.byS {
			sk = r.STag[stop]
		}
	} else if r.Tag[stop] != 0 {
		sk = richOf(r)
	}
	return r.Time, tv, sk
}

func (q *query) cmpRows(a, b *row) int {
	ta, va, sa := q.orderTuple(a)
	tb, vb, sb := q.orderTuple(b)
	if ta != tb {
		if ta < tb {
			return -1
		}
		return 1
	}
	for i := range va {
		if va[i] != vb[i] {
			if va[i] < vb[i] {
				return -1
			}
			return 1
		}
	}
	return strings.Compare(sa, sb)
}

func (q *query) overlaps(l data_model.LOD) bool {
	ft, tt := q.timeBounds()
	return !(tt < l.FromSec || l.ToSec < ft)
}

// walkRes is what an independent walk over the storage answers predicts: the has-more flag, and per function group
// the keys it inserts (in order, with repetitions).
type walkRes struct {
	hm       bool
	kept     [][]keyT
	skipLoss bool // an in-window row sat in a time slot that the ends-only test skipped
	alias    bool // some LOD visit processed two or more rows (rowRepr.Tags is shared between them)
	stale    bool // a row without string key was processed after one with a string key in the same LOD visit
}

// walk restates the row selection of getTableFromLODs/limitQueries: per function group the LODs that overlap the time
// bounds are visited in the requested direction with the remaining quota. fixSkip/fixMore select the repaired rules
// (fix_F-C25d.diff: no time slot is skipped; fix_F-C25c.diff: "more" needs a further row INSIDE the window), otherwise
// the rules of the code as it is (ends-only slot test; "more" = a further row is visited after the quota-th kept row,
// or the quota is used up and the LOD returned any time slot).
func (q *query) walk(fixMore, fixSkip bool) (res walkRes) {
	inr := func(r *row) bool {
		if q.from.Time != 0 {
			c := cmpMarker(q.from, r)
			if (!q.fromEnd && c >= 0) || (q.fromEnd && c <= 0) {
				return false
			}
		}
		if q.to.Time != 0 {
			c := cmpMarker(q.to, r)
			if (!q.fromEnd && c <= 0) || (q.fromEnd && c >= 0) {
				return false
			}
		}
		return true
	}
	ft, tt := q.timeBounds()
	res.kept = make([][]keyT, len(q.store))
	for p := range q.store {
		cnt := 0
		for i := range q.lods {
			k := i
			if q.fromEnd {
				k = len(q.lods) - 1 - i
			}
			if !q.overlaps(q.lods[k]) {
				continue
			}
			groups := q.store[p][k]
			quota := q.num - cnt
			if quota <= 0 && !fixMore {
				if len(groups) > 0 {
					res.hm = true
					break
				}
				continue
			}
			if quota < 0 {
				quota = 0
			}
			kept, keptTimeOK, more := 0, 0, false
			prevSkey := false
		scan:
			for gi := range groups {
				g := groups[gi]
				if q.fromEnd {
					g = groups[len(groups)-1-gi]
				}
				if !fixSkip && len(g) > 0 && !inr(&g[0]) && !inr(&g[len(g)-1]) {
					for j := range g {
						if inr(&g[j]) {
							res.skipLoss = true
						}
					}
					continue
				}
				for j := range g {
					if !fixMore && kept == quota {
						more = true
						break scan
					}
					if !inr(&g[j]) {
						continue
					}
					if fixMore && kept == quota {
						more = true
						break scan
					}
					kept++
					if g[j].Time >= ft && g[j].Time <= tt {
						keptTimeOK++
						res.kept[p] = append(res.kept[p], keyOf(&g[j]))
						_, _, sk := q.orderTuple(&g[j])
						if sk == "" && prevSkey {
							res.stale = true
						}
						prevSkey = prevSkey || sk != ""
					}
				}
			}
			cnt += keptTimeOK
			if keptTimeOK >= 2 {
				res.alias = true
			}
			if more {
				res.hm = true
				break
			}
		}
	}
	return
}

// ---------- generators ----------

var digestPool = []int{1, 2, 3, 4, 5, 6, 7, 8, 9, 15, 17, 19, 23, 24, 25, 26, 28}
var skeys = []string{"", "", "a", "b", "ab"}

func genWhats(r *vu.Rng) []int {
	var n int
	switch x := r.Intn(100); {
	case x < 55:
		n = 1 + r.Intn(3)
	case x < 70:
		n = 4 + r.Intn(4)
	default:
		n = 8 + r.Intn(4)
	}
	if r.Chance(12) { // duplicates allowed (w=count&w=count)
		res := make([]int, n)
		for i := range res {
			res[i] = digestPool[r.Intn(len(digestPool))]
		}
		return res
	}
	if n >= 8 && r.Chance(75) { // pairwise different selectors: two function groups (7 + n-7), never the F-C25b panic
		classes := [][]int{{1, 2, 3}, {4, 5, 6}, {7}, {8}, {9}, {15}, {17}, {19}, {23, 24, 25}, {26}, {28}}
		for i := len(classes) - 1; i > 0; i-- {
			j := r.Intn(i + 1)
			classes[i], classes[j] = classes[j], classes[i]
		}
		res := make([]int, n)
		for i := range res {
			res[i] = classes[i][r.Intn(len(classes[i]))]
		}
		return res
	}
	perm := append([]int(nil), digestPool...)
	for i := len(perm) - 1; i > 0; i-- {
		j := r.Intn(i + 1)
		perm[i], perm[j] = perm[j], perm[i]
	}
	if r.Chance(8) { // many functions sharing few selectors: one group with more than 7 functions
		perm = []int{1, 2, 3, 4, 5, 6, 7, 8, 9, 23, 24, 25}
		return perm[:n]
	}
	return perm[:n]
}

func genValues(r *vu.Rng, x *row) {
	x.Cnt = int64(4 * (1 + r.Intn(2)))
	x.Sum = x.Cnt * int64(r.Intn(9)-2)
	x.Min = int64(r.Intn(7) - 3)
	x.Max = x.Min + int64(r.Intn(5))
	x.Pct = int64(r.Intn(9))
	x.Card = int64(4 * r.Intn(4))
}

// one LOD's rows by time: ascending times, rows of a group ascending by (tag0, tag1, tag47, skey)
func genGroups(r *vu.Rng, l data_model.LOD, wild bool) [][]row {
	ng := r.Intn(4)
	var gs [][]row
	span := l.ToSec - l.FromSec
	t := l.FromSec + int64(r.Intn(3))*l.StepSec
	for g := 0; g < ng && (t < l.ToSec || wild); g++ {
		if wild && r.Chance(30) {
			t = l.FromSec - 5 + int64(r.Intn(int(span)+10))
		}
		var rows []row
		if !r.Chance(5) {
			nr := 1 + r.Intn(3)
			if r.Chance(15) {
				nr = 4 + r.Intn(3)
			}
			type tk struct {
				a, b, c int64
				s       string
			}
			seen := map[tk]bool{}
			var ks []tk
			for i := 0; i < nr; i++ {
				k := tk{int64(r.Intn(4)), int64(r.Intn(2)), 0, skeys[r.Intn(len(skeys))]}
				if k.s == "" && r.Chance(30) {
					k.c = 5
				}
				if r.Chance(3) {
					k.a = int64(r.Pick(-1, math.MaxInt32+1, -7))
				}
				if !seen[k] {
					seen[k] = true
					ks = append(ks, k)
				}
			}
			sort.Slice(ks, func(i, j int) bool {
				x, y := ks[i], ks[j]
				if x.a != y.a {
					return x.a < y.a
				}
				if x.b != y.b {
					return x.b < y.b
				}
				if x.c != y.c {
					return x.c < y.c
				}
				return x.s < y.s
			})
			if wild && r.Chance(40) { // unsorted group
				i, j := r.Intn(len(ks)), r.Intn(len(ks))
				ks[i], ks[j] = ks[j], ks[i]
			}
			for _, k := range ks {
				x := row{Time: t}
				x.Tag[0], x.Tag[1], x.Tag[stop] = k.a, k.b, k.c
				x.STag[stop] = k.s
				if r.Chance(4) {
					x.STag[3] = "x"
				}
				if r.Chance(4) {
					x.ShardNum = 1
				}
				genValues(r, &x)
				rows = append(rows, x)
			}
		}
		gs = append(gs, rows)
		t += l.StepSec * int64(1+r.Intn(3))
	}
	return gs
}

func cloneStore(r *vu.Rng, src [][][]row) [][][]row {
	res := make([][][]row, len(src))
	for k := range src {
		res[k] = make([][]row, len(src[k]))
		for g := range src[k] {
			res[k][g] = append([]row(nil), src[k][g]...)
			for i := range res[k][g] {
				genValues(r, &res[k][g][i])
			}
		}
	}
	return res
}

func allRows(st [][][]row) []*row {
	var res []*row
	for k := range st {
		for g := range st[k] {
			for i := range st[k][g] {
				res = append(res, &st[k][g][i])
			}
		}
	}
	return res
}

func genMarker(r *vu.Rng, q *query, rows []*row) api.RowMarker {
	if r.Chance(30) || len(rows) == 0 {
		if r.Chance(20) { // time 0 with other fields set: still "unset"
			return api.RowMarker{Tags: []api.RawTag{{Index: 0, Value: 1}}, SKey: "a"}
		}
		if r.Chance(25) {
			return api.RowMarker{Time: q.lods[r.Intn(len(q.lods))].FromSec + int64(r.Intn(3)) - 1}
		}
		return api.RowMarker{}
	}
	x := rows[r.Intn(len(rows))]
	m := api.RowMarker{Time: x.Time}
	if r.Chance(10) {
		m.Time += int64(r.Intn(3)) - 1
	}
	ix := q.byIx
	if r.Chance(10) {
		ix = []int{0, 1}
	}
	if r.Chance(10) && len(ix) > 0 {
		ix = ix[:len(ix)-1]
	}
	for _, j := range ix {
		v := x.Tag[j]
		if r.Chance(12) {
			v += int64(r.Intn(3)) - 1
		}
		m.Tags = append(m.Tags, api.RawTag{Index: j, Value: v})
	}
	m.SKey = x.STag[stop]
	if r.Chance(15) {
		m.SKey = skeys[r.Intn(len(skeys))]
	}
	if r.Chance(5) {
		m.SKey = richOf(x)
	}
	return m
}

func genQuery(r *vu.Rng) *query {
	q := &query{}
	q.whats = genWhats(r)
	nl := 1 + r.Intn(3)
	if r.Chance(10) {
		nl = 4
	}
	start := int64(100)
	if r.Chance(5) {
		start = 0
	}
	for k := 0; k < nl; k++ {
		step := int64(r.Pick(1, 2, 4))
		n := int64(3 + r.Intn(6))
		q.lods = append(q.lods, data_model.LOD{FromSec: start, ToSec: start + n*step, StepSec: step})
		start += n * step
	}
	wildLods := r.Chance(6)
	if wildLods && nl > 1 { // not a split: shuffled / overlapping
		i, j := r.Intn(nl), r.Intn(nl)
		q.lods[i], q.lods[j] = q.lods[j], q.lods[i]
	}
	switch r.Intn(6) {
	case 0:
	case 1:
		q.byIx = []int{0}
	case 2:
		q.byIx = []int{0, 1}
	case 3:
		q.byIx = []int{0, 1}
		q.byS = true
	case 4:
		q.byIx = []int{0, 1, stop}
		q.byS = r.Bool()
	case 5:
		q.byIx = []int{1}
		q.byS = r.Bool()
	}
	for _, j := range q.byIx {
		q.by = append(q.by, format.TagID(j))
	}
	if q.byS {
		q.by = append(q.by, format.StringTopTagID)
	}
	if len(q.by) > 1 && r.Bool() {
		q.by[0], q.by[len(q.by)-1] = q.by[len(q.by)-1], q.by[0]
	}
	if r.Chance(10) && len(q.by) > 0 {
		q.by = append(q.by, q.by[0])
	}
	wild := r.Chance(8)
	sels, _ := api.VerifHandlerWhat(q.whats)
	np := len(sels)
	p0 := make([][][]row, nl)
	for k := range p0 {
		p0[k] = genGroups(r, q.lods[k], wild)
	}
	if r.Chance(4) { // the same key twice within one function group
		rs := allRows(p0)
		if len(rs) > 0 {
			x := *rs[r.Intn(len(rs))]
			genValues(r, &x)
			k := r.Intn(nl)
			p0[k] = append(p0[k], []row{x})
		}
	}
	q.store = append(q.store, p0)
	for p := 1; p < np; p++ {
		st := cloneStore(r, p0)
		if r.Chance(80) {
			switch r.Intn(5) {
			case 0, 3, 4: // a row disappeared
				for n := 1 + r.Intn(2); n > 0; n-- {
					var cand [][2]int
					for k := range st {
						for g := range st[k] {
							if len(st[k][g]) > 0 {
								cand = append(cand, [2]int{k, g})
							}
						}
					}
					if len(cand) > 0 {
						c := cand[r.Intn(len(cand))]
						k, g := c[0], c[1]
						i := r.Intn(len(st[k][g]))
						st[k][g] = append(st[k][g][:i:i], st[k][g][i+1:]...)
					}
				}
			case 1: // a new row arrived
				k := r.Intn(nl)
				x := row{Time: q.lods[k].ToSec - 1}
				x.Tag[0] = 9
				genValues(r, &x)
				st[k] = append(st[k], []row{x})
			case 2:
				st[r.Intn(nl)] = nil
			}
		}
		q.store = append(q.store, st)
	}
	q.fromEnd = r.Chance(45)
	rows := allRows(p0)
	a, b := genMarker(r, q, rows), genMarker(r, q, rows)
	if r.Chance(35) {
		b = api.RowMarker{}
	}
	if r.Chance(20) {
		a = api.RowMarker{}
	}
	// orient: from before to in the requested direction, mostly
	if a.Time != 0 && b.Time != 0 && r.Chance(85) {
		if (a.Time > b.Time) != q.fromEnd {
			a, b = b, a
		}
	}
	q.from, q.to = a, b
	q.desired = r.Pick(0, 0, 4, 8)
	// limit: small, huge, non-positive, or right at the number of rows in the window
	inw := 0
	perLod := []int{}
	for k := range p0 {
		c := 0
		for g := range p0[k] {
			for i := range p0[k][g] {
				if q.inWindow(&p0[k][g][i]) {
					c++
				}
			}
		}
		inw += c
		perLod = append(perLod, c)
	}
	switch x := r.Intn(100); {
	case x < 30:
		q.num = 1 + r.Intn(5)
	case x < 40:
		q.num = 1000
	case x < 47:
		q.num = int(r.Pick(0, 0, -1, -5))
	case x < 75:
		q.num = inw + r.Intn(3) - 1
	default:
		k := r.Intn(nl)
		if q.fromEnd {
			c := 0
			for j := nl - 1; j >= k; j-- {
				c += perLod[j]
			}
			q.num = c + r.Intn(3) - 1
		} else {
			c := 0
			for j := 0; j <= k; j++ {
				c += perLod[j]
			}
			q.num = c + r.Intn(3) - 1
		}
	}
	return q
}

func (q *query) text() string {
	var ls []string
	for _, l := range q.lods {
		ls = append(ls, fmt.Sprintf("%d-%d/%d", l.FromSec, l.ToSec, l.StepSec))
	}
	var st []string
	for p := range q.store {
		var ks []string
		for k := range q.store[p] {
			ks = append(ks, groupsText(q.store[p][k]))
		}
		st = append(st, strings.Join(ks, ";"))
	}
	return fmt.Sprintf("what=%v lods=%s by=%v from=%s to=%s fromEnd=%v num=%d step=%d store=%s",
		q.whats, strings.Join(ls, ","), q.by, markerText(q.from), markerText(q.to), q.fromEnd, q.num, q.desired, strings.Join(st, " // "))
}

func (q *query) term(obs string) string {
	var ls []string
	for _, l := range q.lods {
		ls = append(ls, fmt.Sprintf("(mkLod %s %s %d)", vu.Z(l.FromSec), vu.Z(l.ToSec), l.StepSec))
	}
	var st []string
	for p := range q.store {
		var ks []string
		for k := range q.store[p] {
			ks = append(ks, groupsTerm(q.store[p][k]))
		}
		st = append(st, "["+strings.Join(ks, ";")+"]")
	}
	return fmt.Sprintf("CTable %s [%s] %s %s %s %s %s %s %s [%s] %s", listInt(q.whats), strings.Join(ls, ";"), listInt(q.byIx), vu.B(q.byS),
		markerTerm(q.from), markerTerm(q.to), vu.B(q.fromEnd), vu.Z(int64(q.num)), vu.Z(q.desired), strings.Join(st, ";"), obs)
}

func dataTerm(d []float64) (string, bool) {
	p := make([]string, len(d))
	for i, x := range d {
		switch {
		case math.IsNaN(x):
			p[i] = "None"
		case x == math.Trunc(x) && math.Abs(x) < 1e15:
			p[i] = "(Some " + vu.Z(int64(x)) + ")"
		default:
			return "", false
		}
	}
	return "[" + strings.Join(p, ";") + "]", true
}

func runTable(o *vu.Out, q *query) {
	sels, _ := api.VerifHandlerWhat(q.whats)
	maxsel := 0
	for _, s := range sels {
		if len(s) > maxsel {
			maxsel = len(s)
		}
	}
	rows, more, panicked, err := api.VerifGetTable(api.VerifTableIn{Whats: q.whats, Lods: q.lods, By: q.by, From: q.from, To: q.to,
		FromEnd: q.fromEnd, NumResults: q.num, Desired: q.desired, Store: func(p, k int) [][]row { return q.store[p][k] }})
	if err != nil {
		panic(err)
	}
	// storage facts used to decide which oracles apply
	passdiff, dupInPass, wfStore, sortedStore := false, false, true, true
	keysets := make([]map[keyT]bool, len(q.store))
	for p := range q.store {
		keysets[p] = map[keyT]bool{}
		for k := range q.store[p] {
			var prev *row
			for g := range q.store[p][k] {
				for i := range q.store[p][k][g] {
					x := &q.store[p][k][g][i]
					if keysets[p][keyOf(x)] {
						dupInPass = true
					}
					keysets[p][keyOf(x)] = true
					if x.Time < q.lods[k].FromSec || x.Time >= q.lods[k].ToSec {
						wfStore = false
					}
					if prev != nil {
						c := 0
						if prev.Time != x.Time {
							if prev.Time > x.Time {
								c = 1
							}
						} else {
							for j := 0; j < format.MaxTags && c == 0; j++ {
								if prev.Tag[j] != x.Tag[j] {
									if prev.Tag[j] > x.Tag[j] {
										c = 1
									} else {
										c = -1
									}
								}
							}
							if c == 0 && prev.STag[stop] > x.STag[stop] {
								c = 1
							}
						}
						if c > 0 {
							sortedStore = false
						}
					}
					prev = x
				}
			}
		}
		if p > 0 && len(keysets[p]) != len(keysets[0]) {
			passdiff = true
		}
		for k := range keysets[p] {
			if !keysets[0][k] {
				passdiff = true
			}
		}
	}
	for k := 1; k < len(q.lods); k++ {
		if q.lods[k].FromSec < q.lods[k-1].ToSec {
			wfStore = false
		}
	}
	// walks[0]: the rules before the repairs (only for the tags in the input text), walks[1]: the current rules
	walks := []walkRes{q.walk(false, false), q.walk(true, true)}
	skipLoss, alias, stale := walks[0].skipLoss, walks[0].alias, walks[0].stale
	// strict reading of the last clause: rows beyond the limit exist = some function group has more rows inside the window than the limit
	lim := q.num
	if lim < 0 {
		lim = 0
	}
	hmSpec := false
	inw0 := []*row{}
	for p := range q.store {
		c := 0
		for _, x := range allRows(q.store[p]) {
			if q.inWindow(x) {
				c++
				if p == 0 {
					inw0 = append(inw0, x)
				}
			}
		}
		if c > lim {
			hmSpec = true
		}
	}
	tags := fmt.Sprintf("hw=%d maxsel=%d passdiff=%v dup=%v wf=%v skiploss=%v alias=%v hm=%v spec=%v", len(sels), maxsel, passdiff, dupInPass, wfStore, skipLoss, (alias && len(q.byIx) > 0) || stale, more, hmSpec)
	if panicked != "" {
		tags += fmt.Sprintf(" panic=%q", panicked)
	}
	text := tags + " " + q.text()
	if len(text) > 1500 {
		text = text[:1500] + "…"
	}
	obs := "None"
	okData := true
	if panicked == "" {
		var rs []string
		for i := range rows {
			d, ok := dataTerm(rows[i].Data)
			okData = okData && ok
			rs = append(rs, fmt.Sprintf("mkO %s %s %s", rowTerm(&rows[i].Row), d, markerTerm(rows[i].Repr)))
		}
		obs = fmt.Sprintf("(Some ([%s], %s))", strings.Join(rs, ";"), vu.B(more))
	}
	if !okData {
		panic("non-integer value produced: generator left the exact domain: " + text)
	}
	kinds := []string{fmt.Sprintf("table/lods=%d", len(q.lods)), fmt.Sprintf("table/groups=%d", len(sels))}
	if q.fromEnd {
		kinds = append(kinds, "table/fromEnd")
	}
	if more {
		kinds = append(kinds, "table/hasMore")
	}
	if q.from.Time != 0 || q.to.Time != 0 {
		kinds = append(kinds, "table/marker")
	}
	if q.from.Time != 0 && q.to.Time != 0 {
		kinds = append(kinds, "table/both-markers")
	}
	if panicked != "" {
		kinds = append(kinds, "table/panic")
	}
	if passdiff {
		kinds = append(kinds, "table/passdiff")
	}
	if skipLoss {
		kinds = append(kinds, "table/skiploss")
	}
	if q.num <= 0 {
		kinds = append(kinds, "table/limit<=0")
	}
	if len(rows) == lim && lim > 0 {
		kinds = append(kinds, "table/rows=limit")
	}
	nontrivial := len(rows) >= 2 && (len(q.lods) >= 2 || q.from.Time != 0 || q.to.Time != 0)
	line := o.Case(text, q.term(obs), nontrivial, kinds...)

	// ---- oracles ----
	if panicked != "" {
		o.Fail("no_panic", line, text)
		return
	}
	// every row has exactly one column per requested function
	if !dupInPass {
		for i := range rows {
			if len(rows[i].Data) != len(q.whats) {
				o.Fail("one_column_per_function", line, text)
				break
			}
		}
	}
	// a value is NaN exactly when the row's key is absent from that function group's storage (only checkable when aligned)
	// rows unique by time and tags
	seen := map[keyT]bool{}
	for i := range rows {
		k := keyOf(&rows[i].Row)
		if seen[k] || rows[i].Time != rows[i].Row.Time {
			o.Fail("rows_unique", line, text)
			break
		}
		seen[k] = true
	}
	// sorted in the requested direction by (time, group-by tags, string key)
	for i := 1; i < len(rows); i++ {
		c := q.cmpRows(&rows[i-1].Row, &rows[i].Row)
		if (!q.fromEnd && c > 0) || (q.fromEnd && c < 0) {
			o.Fail("rows_sorted_in_direction", line, text)
			break
		}
	}
	// the row marker of every row describes that row
	for i := range rows {
		t, tv, sk := q.orderTuple(&rows[i].Row)
		m := rows[i].Repr
		bad := m.Time != t || m.SKey != sk || len(m.Tags) != len(tv)
		for j := 0; !bad && j < len(tv); j++ {
			bad = m.Tags[j].Index != q.byIx[j] || m.Tags[j].Value != tv[j]
		}
		if bad {
			o.Fail("row_marker_describes_row", line, text)
			break
		}
	}
	// window respected: every returned row lies inside it, and comes from the storage
	for i := range rows {
		if !q.inWindow(&rows[i].Row) {
			o.Fail("window_respected", line, text)
			break
		}
		found := false
		for p := range keysets {
			found = found || keysets[p][keyOf(&rows[i].Row)]
		}
		if !found {
			o.Fail("window_respected", line, text)
			break
		}
	}
	// limit respected
	if !passdiff && len(rows) > lim {
		o.Fail("limit_respected", line, text)
	}
	// on a real split (disjoint ascending LODs, rows inside their LOD, storage sorted) with one storage answer for all
	// function groups the result is exactly the first `limit` rows of the window in the requested direction
	if !passdiff && !dupInPass && wfStore && sortedStore {
		exp := append([]*row(nil), inw0...)
		if q.fromEnd {
			// storage order is ascending; the requested direction is descending by time, groups keep their inner order
			sort.SliceStable(exp, func(i, j int) bool { return exp[i].Time > exp[j].Time })
		}
		if len(exp) > lim {
			exp = exp[:lim]
		}
		want := map[keyT]bool{}
		for _, x := range exp {
			want[keyOf(x)] = true
		}
		bad := len(want) != len(seen)
		for k := range want {
			bad = bad || !seen[k]
		}
		if bad {
			o.Fail("window_and_limit_exact", line, text)
		}
		if more != hmSpec {
			o.Fail("has_more_iff_rows_beyond_limit", line, text)
		}
	}
	// the flag and the number of columns of every row, as predicted from which rows each function group inserts:
	// a function group that inserts a key contributes one column per function of the group (per insertion), one that
	// does not contributes one NaN per function of the group (F-C25a, c, d are repaired: only the current rules count).
	okMore, okCols := false, false
	for _, w := range walks[1:] {
		okMore = okMore || w.hm == more
		if w.hm != more {
			continue
		}
		for _, padFixed := range []bool{true} {
			want := map[keyT]int{}
			for p := range w.kept {
				for _, k := range w.kept[p] {
					want[k] = 0
				}
			}
			for p := range w.kept {
				in := map[keyT]int{}
				for _, k := range w.kept[p] {
					in[k]++
				}
				for k := range want {
					switch n := in[k]; {
					case n > 0:
						want[k] += n * len(sels[p])
					case padFixed:
						want[k] += len(sels[p])
					default:
						want[k]++
					}
				}
			}
			good := len(want) == len(rows)
			for i := range rows {
				n, ok := want[keyOf(&rows[i].Row)]
				good = good && ok && n == len(rows[i].Data)
			}
			okCols = okCols || good
		}
	}
	if !okMore {
		o.Fail("has_more_characterisation", line, text)
	}
	if okMore && !okCols {
		o.Fail("column_count_by_group", line, text)
	}
}

func runLimit(o *vu.Out, r *vu.Rng) {
	q := genQuery(r)
	k := r.Intn(len(q.lods))
	groups := q.store[0][k]
	limit := q.num
	if r.Chance(30) {
		limit = r.Intn(4)
	}
	res, more := api.VerifLimitQueries(groups, q.from, q.to, q.fromEnd, limit)
	var rs []string
	for i := range res {
		rs = append(rs, rowTerm(&res[i]))
	}
	text := fmt.Sprintf("limitQueries rows=%s from=%s to=%s fromEnd=%v limit=%d -> %d more=%v", groupsText(groups), markerText(q.from), markerText(q.to), q.fromEnd, limit, len(res), more)
	term := fmt.Sprintf("CLimit %s %s %s %s %s ([%s], %s)", groupsTerm(groups), markerTerm(q.from), markerTerm(q.to), vu.B(q.fromEnd), vu.Z(int64(limit)), strings.Join(rs, ";"), vu.B(more))
	line := o.Case(text, term, len(res) > 0 && (q.from.Time != 0 || q.to.Time != 0), "limit")
	if limit > 0 && len(res) > limit {
		o.Fail("limit_respected", line, text)
	}
	for i := range res {
		if !q.inWindow(&res[i]) && res[i].Time >= 0 {
			o.Fail("window_respected", line, text)
			break
		}
	}
}

func runWhat(o *vu.Out, r *vu.Rng) {
	ws := genWhats(r)
	sels, qrys := api.VerifHandlerWhat(ws)
	// data_model.DigestWhat -> the model's representative digest
	rep := map[int64]int64{int64(data_model.DigestAvg): 7, int64(data_model.DigestCount): 1, int64(data_model.DigestMax): 9, int64(data_model.DigestMin): 8,
		int64(data_model.DigestSum): 4, int64(data_model.DigestStdDev): 21, int64(data_model.DigestCardinality): 23, int64(data_model.DigestUnique): 26,
		int64(data_model.DigestUnspecified): 0}
	pct := map[int64]int64{1: 10, 10: 11, 50: 12, 100: 13, 250: 14, 500: 15, 750: 16, 900: 17, 950: 18, 990: 19, 999: 20}
	var gs []string
	total := 0
	for i := range sels {
		var qs []string
		for _, x := range qrys[i] {
			if x[0] == int64(data_model.DigestPercentile) {
				qs = append(qs, fmt.Sprintf("(10,%d)", pct[x[1]]))
			} else {
				qs = append(qs, fmt.Sprintf("(%d,0)", rep[x[0]]))
			}
		}
		gs = append(gs, fmt.Sprintf("(%s,[%s])", listInt(sels[i]), strings.Join(qs, ";")))
		total += len(sels[i])
	}
	text := fmt.Sprintf("getHandlerWhat %v -> %v", ws, sels)
	line := o.Case(text, fmt.Sprintf("CWhat %s [%s]", listInt(ws), strings.Join(gs, ";")), len(sels) > 1, "what")
	if total != len(ws) {
		o.Fail("one_column_per_function", line, text)
	}
	// a function group holds the functions of at most 7 consecutive distinct selectors (tsWhat has 7 slots) and is
	// closed only when all 7 are taken
	class := func(d int) int {
		switch {
		case d >= 1 && d <= 3:
			return 1
		case d >= 4 && d <= 6:
			return 4
		case d >= 10 && d <= 20:
			return d
		case d == 21 || d == 22:
			return 21
		case d >= 23 && d <= 25:
			return 23
		case d == 26 || d == 27:
			return 26
		case d == 28:
			return 0
		}
		return d
	}
	sorted := append([]int(nil), ws...)
	sort.Ints(sorted)
	var want []int
	distinct, last := 0, -1
	for _, d := range sorted {
		if len(want) == 0 || distinct == 7 {
			want = append(want, 0)
			distinct, last = 1, class(d)
		} else if class(d) != last {
			distinct, last = distinct+1, class(d)
		}
		want[len(want)-1]++
	}
	bad := len(want) != len(sels)
	for i := 0; !bad && i < len(want); i++ {
		bad = want[i] != len(sels[i])
	}
	if bad {
		o.Fail("function_groups", line, text)
	}
}

// witnesses of the recorded findings, replayed on the real code
func findings(o *vu.Out) {
	mk := func(t int64, tag0 int64) row {
		x := row{Time: t, Cnt: 4, Sum: 8, Max: 1, Pct: 1}
		x.Tag[0] = tag0
		return x
	}
	lod := []data_model.LOD{{FromSec: 100, ToSec: 110, StepSec: 1}}
	// F-C25a: 8 functions = two function groups (7+1); a row only the second group's query returns gets 1+1 columns
	{
		whats := []int{1, 4, 7, 8, 9, 15, 23, 26}
		st := func(p, k int) [][]row {
			if p == 0 {
				return [][]row{{mk(101, 1)}}
			}
			return [][]row{{mk(101, 1)}, {mk(102, 2)}}
		}
		rows, _, pn, _ := api.VerifGetTable(api.VerifTableIn{Whats: whats, Lods: lod, NumResults: 10, Store: st})
		out := "gone"
		for _, x := range rows {
			if len(x.Data) != len(whats) {
				out = "reproduced"
			}
		}
		if pn != "" {
			out = "gone"
		}
		o.Finding("F-C25a", out)
	}
	// F-C25b: 8 functions sharing selectors = one group with 8 functions: index out of range in appendRowValues
	{
		_, _, pn, _ := api.VerifGetTable(api.VerifTableIn{Whats: []int{1, 2, 3, 4, 5, 6, 7, 8}, Lods: lod, NumResults: 10,
			Store: func(p, k int) [][]row { return [][]row{{mk(101, 1)}} }})
		if pn != "" {
			o.Finding("F-C25b", "reproduced")
		} else {
			o.Finding("F-C25b", "gone")
		}
	}
	// F-C25c: limit 1, the window ends at the first row of the time slot: has-more although nothing inside the window is left
	{
		_, more, _, _ := api.VerifGetTable(api.VerifTableIn{Whats: []int{1}, Lods: lod, NumResults: 1, By: []string{format.TagID(0)},
			To:    api.RowMarker{Time: 101, Tags: []api.RawTag{{Index: 0, Value: 2}}},
			Store: func(p, k int) [][]row { return [][]row{{mk(101, 1), mk(101, 2)}} }})
		if more {
			o.Finding("F-C25c", "reproduced")
		} else {
			o.Finding("F-C25c", "gone")
		}
	}
	// F-C25e/f: rowRepr.Tags of the rows of one LOD visit alias one array; a row without string key keeps the previous SKey
	{
		a, b := mk(101, 1), mk(101, 2)
		a.STag[stop] = "b"
		rows, _, _, _ := api.VerifGetTable(api.VerifTableIn{Whats: []int{1}, Lods: lod, NumResults: 10, By: []string{format.TagID(0), format.StringTopTagID},
			Store: func(p, k int) [][]row { return [][]row{{a, b}} }})
		e, f := "gone", "gone"
		for _, x := range rows {
			if len(x.Repr.Tags) == 1 && x.Repr.Tags[0].Value != x.Row.Tag[0] {
				e = "reproduced"
			}
			if x.Row.STag[stop] == "" && x.Repr.SKey != "" {
				f = "reproduced"
			}
		}
		o.Finding("F-C25e", e)
		o.Finding("F-C25f", f)
	}
	// F-C25d: both markers inside one time slot: the slot is skipped because its first and last rows are outside
	{
		rows, _, _, _ := api.VerifGetTable(api.VerifTableIn{Whats: []int{1}, Lods: lod, NumResults: 10, By: []string{format.TagID(0)},
			From: api.RowMarker{Time: 101, Tags: []api.RawTag{{Index: 0, Value: 1}}}, To: api.RowMarker{Time: 101, Tags: []api.RawTag{{Index: 0, Value: 3}}},
			Store: func(p, k int) [][]row { return [][]row{{mk(101, 1), mk(101, 2), mk(101, 3)}} }})
		if len(rows) == 0 {
			o.Finding("F-C25d", "reproduced")
		} else {
			o.Finding("F-C25d", "gone")
		}
	}
}

func main() {
	seed := flag.Uint64("seed", 1, "")
	n := flag.Int("n", 1500, "")
	out := flag.String("out", "", "")
	flag.Parse()
	r := vu.NewRng(*seed)
	o := vu.NewOut(*out)
	defer o.Close()
	findings(o)
	for i := 0; i < *n; i++ {
		switch x := r.Intn(100); {
		case x < 70:
			runTable(o, genQuery(r))
		case x < 90:
			runLimit(o, r)
		default:
			runWhat(o, r)
		}
	}
}
