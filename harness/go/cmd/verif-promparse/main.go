//go:build verif

// Correspondence harness for C28 (PromQL print/parse round trip): drives the real parser.ParseExpr and
// Expr.String on generated, printed-back, mutated and garbage texts, evaluates the property's oracles on the
// implementation (no panic; printed text parses back to an equivalent tree) and prints cases for PromParse/Corr.v.
package main

import (
	"bytes"
	"context"
	"flag"
	"fmt"
	"math"
	"os"
	"os/exec"
	"sync"
	"time"
	"sort"
	"strconv"
	"strings"

	"github.com/prometheus/prometheus/model/labels"
	"github.com/prometheus/prometheus/util/strutil"

	"github.com/VKCOM/statshouse/internal/promql/parser"
	vu "github.com/VKCOM/statshouse/internal/verifutil"
)

// ---------------------------------------------------------------- Coq terms

func coqStr(s string) string {
	plain := true
	for i := 0; i < len(s); i++ {
		if s[i] < 0x20 || s[i] > 0x7e {
			plain = false
			break
		}
	}
	if plain {
		return "\"" + strings.ReplaceAll(s, "\"", "\"\"") + "\""
	}
	parts := make([]string, len(s))
	for i := 0; i < len(s); i++ {
		parts[i] = strconv.Itoa(int(s[i]))
	}
	return "(S_ [" + strings.Join(parts, ";") + "])"
}

func coqStrs(l []string) string {
	p := make([]string, len(l))
	for i, s := range l {
		p[i] = coqStr(s)
	}
	return "[" + strings.Join(p, ";") + "]"
}

var binopC = map[parser.ItemType]string{
	parser.ADD: "OAdd", parser.SUB: "OSub", parser.MUL: "OMul", parser.DIV: "ODiv", parser.MOD: "OMod",
	parser.POW: "OPow", parser.ATAN2: "OAtan2", parser.EQLC: "OEqlc", parser.NEQ: "ONeq", parser.LTE: "OLte",
	parser.LSS: "OLss", parser.GTE: "OGte", parser.GTR: "OGtr", parser.LAND: "OAnd", parser.LOR: "OOr",
	parser.LUNLESS: "OUnless", parser.LDEFAULT: "ODefault",
}
var aggopC = map[parser.ItemType]string{
	parser.AVG: "AAvg", parser.BOTTOMK: "ABottomk", parser.COUNT: "ACount", parser.COUNT_VALUES: "ACountValues",
	parser.DROP_EMPTY_SERIES: "ADropEmpty", parser.GROUP: "AGroup", parser.MAX: "AMax", parser.MIN: "AMin",
	parser.QUANTILE: "AQuantile", parser.STDDEV: "AStddev", parser.STDVAR: "AStdvar", parser.SUM: "ASum",
	parser.TOPK: "ATopk", parser.SORT: "ASort", parser.SORT_DESC: "ASortDesc", parser.AGGREGATE: "ADbag",
}
var mtypeC = map[labels.MatchType]string{labels.MatchEqual: "MEq", labels.MatchNotEqual: "MNe", labels.MatchRegexp: "MRe", labels.MatchNotRegexp: "MNre"}

// a float64 as the model's exact decimal (shortest digits that identify it)
func numTerm(v float64) string {
	if math.IsNaN(v) {
		return "Nn"
	}
	neg := math.Signbit(v)
	if math.IsInf(v, 0) {
		return "(Ni " + vu.B(neg) + ")"
	}
	s := strconv.FormatFloat(math.Abs(v), 'e', -1, 64) // d.ddde±xx
	mant, exps, _ := strings.Cut(s, "e")
	exp, _ := strconv.Atoi(exps)
	digits := strings.ReplaceAll(mant, ".", "")
	exp -= len(digits) - 1
	for len(digits) > 1 && digits[len(digits)-1] == '0' {
		digits = digits[:len(digits)-1]
		exp++
	}
	if digits == "0" {
		exp = 0
	}
	return fmt.Sprintf("(Nd %s %s %s)", vu.B(neg), digits, vu.Z(int64(exp)))
}

func atTerm(ts *int64, soe parser.ItemType) string {
	switch {
	case ts != nil:
		return "(AtTs " + vu.Z(*ts) + ")"
	case soe == parser.START:
		return "AtStart"
	case soe == parser.END:
		return "AtEnd"
	}
	return "AtNone"
}

func vsTerm(vs *parser.VectorSelector, norm bool) string {
	ms := vs.LabelMatchers
	if norm {
		var keep []*labels.Matcher
		for _, m := range ms {
			if m.Name == labels.MetricName && m.Type == labels.MatchEqual && m.Value == vs.Name {
				continue
			}
			keep = append(keep, m)
		}
		sort.SliceStable(keep, func(i, j int) bool { return keep[i].String() < keep[j].String() })
		if vs.Name != "" {
			keep = append(keep, &labels.Matcher{Type: labels.MatchEqual, Name: labels.MetricName, Value: vs.Name})
		}
		ms = keep
	}
	p := make([]string, len(ms))
	for i, m := range ms {
		p[i] = fmt.Sprintf("Mm %s %s %s", mtypeC[m.Type], coqStr(m.Name), coqStr(m.Value))
	}
	return fmt.Sprintf("(Vs %s [%s] %s %s %s)", coqStr(vs.Name), strings.Join(p, ";"), vu.Z(vs.OriginalOffset), vu.ListZ(vs.OriginalOffsetEx), atTerm(vs.Timestamp, vs.StartOrEnd))
}

// dump: the tree as a Coq term of PromParse.Syntax.expr; ok=false when the tree has a shape the model has no
// constructor for (the parser never produces those; reported as an oracle failure by the caller)
func dump(e parser.Expr, norm bool) (string, bool) {
	ok := true
	var d func(e parser.Expr) string
	d = func(e parser.Expr) string {
		switch n := e.(type) {
		case *parser.NumberLiteral:
			return numTerm(n.Val)
		case *parser.StringLiteral:
			return "(EStr " + coqStr(n.Val) + ")"
		case *parser.VectorSelector:
			return "(EVec " + vsTerm(n, norm) + ")"
		case *parser.MatrixSelector:
			vs, isVs := n.VectorSelector.(*parser.VectorSelector)
			if !isVs {
				ok = false
				return "?"
			}
			return fmt.Sprintf("(EMatrix %s %s)", vsTerm(vs, norm), vu.Z(n.Range))
		case *parser.SubqueryExpr:
			return fmt.Sprintf("(ESub %s %s %s %s %s)", d(n.Expr), vu.Z(n.Range), vu.Z(n.Step), vu.Z(n.OriginalOffset), atTerm(n.Timestamp, n.StartOrEnd))
		case *parser.ParenExpr:
			return "(EParen " + d(n.Expr) + ")"
		case *parser.UnaryExpr:
			if n.Op != parser.SUB && n.Op != parser.ADD {
				ok = false
			}
			return fmt.Sprintf("(EUnary %s %s)", vu.B(n.Op == parser.SUB), d(n.Expr))
		case *parser.BinaryExpr:
			op, known := binopC[n.Op]
			if !known || n.VectorMatching == nil {
				ok = false
				return "?"
			}
			vm := n.VectorMatching
			card := "COneToOne"
			switch vm.Card {
			case parser.CardManyToOne:
				card = "CManyToOne"
			case parser.CardOneToMany:
				card = "COneToMany"
			case parser.CardManyToMany:
				ok = false
			}
			if !n.ReturnBool && vm.Card == parser.CardOneToOne && len(vm.MatchingLabels) == 0 && !vm.On && len(vm.Include) == 0 {
				return fmt.Sprintf("(Bd %s %s %s)", op, d(n.LHS), d(n.RHS))
			}
			return fmt.Sprintf("(EBin %s %s %s %s (mkVM %s %s %s %s))", op, d(n.LHS), d(n.RHS), vu.B(n.ReturnBool), card, coqStrs(vm.MatchingLabels), vu.B(vm.On), coqStrs(vm.Include))
		case *parser.Call:
			if n.Func == nil {
				ok = false
				return "?"
			}
			p := make([]string, len(n.Args))
			for i, a := range n.Args {
				p[i] = d(a)
			}
			return fmt.Sprintf("(ECall %s [%s])", coqStr(n.Func.Name), strings.Join(p, ";"))
		case *parser.AggregateExpr:
			op, known := aggopC[n.Op]
			if !known || n.Expr == nil {
				ok = false
				return "?"
			}
			param := "None"
			if n.Param != nil {
				param = "(Some " + d(n.Param) + ")"
			}
			return fmt.Sprintf("(EAgg %s %s %s %s %s)", op, d(n.Expr), param, coqStrs(n.Grouping), vu.B(n.Without))
		default:
			ok = false
			return "?"
		}
	}
	s := d(e)
	return s, ok
}

// ---------------------------------------------------------------- tree utilities

func countNodes(e parser.Expr) int {
	n := 0
	parser.Inspect(e, func(node parser.Node, _ []parser.Node) error {
		if node != nil {
			n++
		}
		return nil
	})
	return n
}

func hasHighBytes(s string) bool {
	for i := 0; i < len(s); i++ {
		if s[i] >= 0x80 {
			return true
		}
	}
	return false
}

// strings of the tree that the printer quotes
func quotedValuesASCII(e parser.Expr) bool {
	ascii := true
	parser.Inspect(e, func(node parser.Node, _ []parser.Node) error {
		switch n := node.(type) {
		case *parser.StringLiteral:
			if hasHighBytes(n.Val) {
				ascii = false
			}
		case *parser.VectorSelector:
			for _, m := range n.LabelMatchers {
				if hasHighBytes(m.Value) || hasHighBytes(m.Name) {
					ascii = false
				}
			}
		}
		return nil
	})
	return ascii
}

// The recorded findings: shapes on which printer.go is known not to round-trip (checks/C28.findings.json).
// clean=true returns a deep copy of the tree with exactly these shapes removed, so that the general round-trip
// oracle is still evaluated on every accepted expression.
func cloneTree(e parser.Expr, clean bool, feats map[string]bool) parser.Expr {
	cloneVS := func(vs *parser.VectorSelector, inMatrix bool) *parser.VectorSelector {
		c := *vs
		c.LabelMatchers = append([]*labels.Matcher(nil), vs.LabelMatchers...)
		c.OriginalOffsetEx = append([]int64(nil), vs.OriginalOffsetEx...)
		if len(vs.OriginalOffsetEx) != 0 {
			feats["offset_list"] = true
			if clean {
				c.OriginalOffsetEx = nil
			}
		}
		if !inMatrix && vs.OriginalOffset != 0 {
			feats["vector_offset"] = true
			if clean {
				c.OriginalOffset = 0
			}
		}
		printsNothing := vs.Name == ""
		for _, m := range vs.LabelMatchers {
			if !(m.Name == labels.MetricName && m.Type == labels.MatchEqual && m.Value == vs.Name) {
				printsNothing = false
			}
		}
		if printsNothing {
			feats["empty_selector"] = true
			if clean {
				c.Name = "verif_empty"
				c.LabelMatchers = []*labels.Matcher{{Type: labels.MatchEqual, Name: labels.MetricName, Value: "verif_empty"}}
			}
		}
		return &c
	}
	var cl func(e parser.Expr) parser.Expr
	cl = func(e parser.Expr) parser.Expr {
		switch n := e.(type) {
		case *parser.NumberLiteral:
			c := *n
			return &c
		case *parser.StringLiteral:
			c := *n
			return &c
		case *parser.VectorSelector:
			return cloneVS(n, false)
		case *parser.MatrixSelector:
			c := *n
			if vs, ok := n.VectorSelector.(*parser.VectorSelector); ok {
				c.VectorSelector = cloneVS(vs, true)
			}
			if n.Range == 0 {
				feats["zero_range"] = true
				if clean {
					c.Range = 1
				}
			}
			return &c
		case *parser.SubqueryExpr:
			feats["subquery"] = true
			if nl, ok := n.Expr.(*parser.NumberLiteral); ok && math.IsInf(nl.Val, 1) {
				feats["pos_inf"] = true
			}
			if clean {
				// the inner expression in parentheses keeps the tree in the parser's image
				return &parser.ParenExpr{Expr: cl(n.Expr)}
			}
			c := *n
			c.Expr = cl(n.Expr)
			return &c
		case *parser.ParenExpr:
			return &parser.ParenExpr{Expr: cl(n.Expr)}
		case *parser.UnaryExpr:
			return &parser.UnaryExpr{Op: n.Op, Expr: cl(n.Expr)}
		case *parser.BinaryExpr:
			c := *n
			c.LHS, c.RHS = cl(n.LHS), cl(n.RHS)
			if nl, ok := n.LHS.(*parser.NumberLiteral); ok && n.Op == parser.POW && math.IsInf(nl.Val, 1) {
				feats["pos_inf"] = true
				if clean {
					c.LHS = &parser.NumberLiteral{Val: 1}
				}
			}
			if n.VectorMatching != nil {
				vm := *n.VectorMatching
				if vm.Card != parser.CardOneToOne && len(vm.MatchingLabels) == 0 && !vm.On {
					feats["group_modifier"] = true
					if clean {
						vm.Card = parser.CardOneToOne
						vm.Include = nil
					}
				}
				c.VectorMatching = &vm
			}
			return &c
		case *parser.Call:
			c := *n
			c.Args = make(parser.Expressions, len(n.Args))
			for i, a := range n.Args {
				c.Args[i] = cl(a)
			}
			return &c
		case *parser.AggregateExpr:
			c := *n
			c.Expr = cl(n.Expr)
			if n.Param != nil {
				c.Param = cl(n.Param)
			}
			return &c
		}
		return e
	}
	return cl(e)
}

// ---------------------------------------------------------------- the implementation under test

type parsed struct {
	expr     parser.Expr
	err      error
	panicked string
}

func parseSafe(s string) (p parsed) {
	defer func() {
		if r := recover(); r != nil {
			p.panicked = fmt.Sprint(r)
		}
	}()
	p.expr, p.err = parser.ParseExpr(s)
	return p
}

func printSafe(e parser.Expr) (s string, panicked string) {
	defer func() {
		if r := recover(); r != nil {
			panicked = fmt.Sprint(r)
		}
	}()
	return e.String(), ""
}

// regex matcher values in the text that do not compile (an input of the model: labels.NewMatcher is foreign code)
func badRegexes(text string) []string {
	var out []string
	seen := map[string]bool{}
	func() {
		defer func() { _ = recover() }()
		l := parser.Lex(text)
		var it parser.Item
		prevRx := false
		for i := 0; i < len(text)+8; i++ {
			l.NextItem(&it)
			if it.Typ == parser.EOF || it.Typ == parser.ERROR {
				return
			}
			if it.Typ == parser.COMMENT {
				continue
			}
			if prevRx && it.Typ == parser.STRING {
				if v, err := strutil.Unquote(it.Val); err == nil && !seen[v] {
					if _, err := labels.NewMatcher(labels.MatchRegexp, "x", v); err != nil {
						seen[v] = true
						out = append(out, v)
					}
				}
			}
			prevRx = it.Typ == parser.EQL_REGEX || it.Typ == parser.NEQ_REGEX
		}
	}()
	return out
}

// whether float64 is exact enough for the model's decimals on every NUMBER / DURATION of the text
func numbersExact(text string) (exact bool) {
	exact = true
	defer func() {
		if recover() != nil {
			exact = true
		}
	}()
	l := parser.Lex(text)
	var it parser.Item
	for i := 0; i < len(text)+8; i++ {
		l.NextItem(&it)
		if it.Typ == parser.EOF || it.Typ == parser.ERROR {
			return
		}
		if it.Typ == parser.DURATION && len(it.Val) > 15 {
			exact = false
		}
		if it.Typ == parser.NUMBER {
			v := strings.ToLower(it.Val)
			if v == "inf" || v == "nan" {
				continue
			}
			if strings.HasPrefix(v, "0x") {
				if len(v) > 14 {
					exact = false
				}
				continue
			}
			mant, exp, _ := strings.Cut(v, "e")
			sig := strings.TrimLeft(strings.ReplaceAll(mant, ".", ""), "0")
			if len(sig) > 15 || len(mant) > 40 {
				exact = false
			}
			if x, err := strconv.Atoi(exp); exp != "" && (err != nil || x > 250 || x < -250) {
				exact = false
			}
			// seconds*1000 must stay far inside int64 for the @ modifier (the conversion of an out-of-range float is
			// implementation-defined)
			if f, err := strconv.ParseFloat(v, 64); err == nil && math.Abs(f) >= 9e15 && math.Abs(f) < 9.3e18 {
				exact = false
			}
		}
	}
	return
}

// ---------------------------------------------------------------- generator

type gen struct{ r *vu.Rng }

func (g *gen) pick(xs ...string) string { return xs[g.r.Intn(len(xs))] }
func (g *gen) sp() string {
	switch g.r.Intn(12) {
	case 0:
		return ""
	case 1:
		return "  "
	case 2:
		return "\t"
	default:
		return " "
	}
}
func (g *gen) osp() string { // optional space
	if g.r.Chance(70) {
		return ""
	}
	return g.sp()
}
func (g *gen) kwcase(s string) string {
	switch g.r.Intn(10) {
	case 0:
		return strings.ToUpper(s)
	case 1:
		return strings.ToUpper(s[:1]) + s[1:]
	}
	return s
}

var fnNames []string

func (g *gen) name() string {
	if g.r.Chance(12) {
		return g.pick("sum", "by", "offset", "and", "or", "unless", "start", "end", "without", "SUM", "count_values", "avg", "topk", "Offset", "group")
	}
	if g.r.Chance(3) {
		return g.pick("on", "bool", "default", "dbag", "atan2", "ignoring", "group_left")
	}
	return g.pick("foo", "bar", "a", "b", "x1", "up", "http_requests_total", "ns:metric:rate5m", ":x", "a:b", "_m", "M_2", "rate", "abs", "Inf2", "nanx", "e5", "x")
}
func (g *gen) label() string {
	if g.r.Chance(25) {
		return g.pick("by", "on", "bool", "group_left", "sum", "1", "0x1f", "Inf", "and", "atan2", "offset", "start", "NaN", "007", "ignoring", "end", "1e5", "0x")
	}
	if g.r.Chance(3) {
		return g.pick("without", "default", "dbag", "a:b", "1.5", "")
	}
	return g.pick("a", "b", "job", "instance", "le", "__name__", "env", "x1", "_z")
}
func (g *gen) labels() string {
	n := g.r.Intn(4)
	if g.r.Chance(60) {
		n = 1 + g.r.Intn(2)
	}
	parts := make([]string, n)
	for i := range parts {
		parts[i] = g.osp() + g.label() + g.osp()
	}
	s := strings.Join(parts, ",")
	if n > 0 && g.r.Chance(6) {
		s += ","
	}
	return "(" + s + ")"
}
func (g *gen) value() string {
	switch g.r.Intn(14) {
	case 0:
		return ""
	case 1:
		return g.pick("a b", "a\"b", "a\\b", "it's", "`", "x\ny", "\t", "\x01", "\x7f", "a\x00b", "{}", "$h", "#c")
	case 2:
		return g.pick(".*", "a|b", "foo.+", "[a-z]+", "(x)", "^a$", "a{2}")
	case 3:
		if g.r.Chance(20) {
			return g.pick("(", "[a", "a{2", "*", "\\")
		}
		return g.pick("é", "日本", "\xff", "a b", " ")
	}
	return g.pick("x", "y", "prod", "api-server", "10.0.0.1:9090", "/metrics", "count", "1", "foo")
}
func (g *gen) quoted(v string) string {
	switch g.r.Intn(10) {
	case 0:
		if !strings.ContainsAny(v, "`") {
			return "`" + v + "`"
		}
	case 1, 2:
		var sb strings.Builder
		sb.WriteByte('\'')
		for i := 0; i < len(v); i++ {
			c := v[i]
			switch {
			case c == '\'':
				sb.WriteString("\\'")
			case c == '\\':
				sb.WriteString("\\\\")
			case c == '\n':
				sb.WriteString(g.pick("\\n", "\\x0a", "\\012", "\\u000a", "\\U0000000A"))
			case c < 0x20 || c == 0x7f:
				sb.WriteString(fmt.Sprintf(g.pick("\\x%02x", "\\%03o", "\\u%04X"), c))
			default:
				sb.WriteByte(c)
			}
		}
		sb.WriteByte('\'')
		return sb.String()
	}
	q := strconv.Quote(v)
	if g.r.Chance(10) && !hasHighBytes(v) {
		q = strconv.QuoteToASCII(v)
	}
	return q
}
func (g *gen) matcher() string {
	switch g.r.Intn(12) {
	case 0:
		return "@" + g.pick("what", "by", "without", "bind", "x") + g.osp() + g.pick("=", "=", "!=", "=~") + g.osp() + g.quoted(g.pick("count", "avg", "p99", "1,2", g.value()))
	case 1:
		return g.pick("host", "a", "x1") + g.osp() + ":" + g.osp() + "$" + g.pick("h", "var", "x_1")
	case 2:
		return g.pick("1a", "0", "__name__", "by", "sum", "offset") + g.pick("=", "!=") + g.quoted(g.value())
	}
	op := g.pick("=", "=", "=", "!=", "=~", "!~")
	v := g.value()
	if (op == "=~" || op == "!~") && g.r.Chance(80) {
		v = g.pick(".*", "a|b", "foo.+", "x", "", "[a-z]+", "^a$", "api.*")
	}
	return g.label() + g.osp() + op + g.osp() + g.quoted(v)
}
func (g *gen) dur() string {
	if g.r.Chance(4) {
		return g.pick("0s499ms", "0s500ms", "1e5m", "5", "5x", "1.5m", "m", "5mm", "0s", "0x5m", "1ms", "5m5m", "5s5m", "5hs", "300")
	}
	if g.r.Chance(20) {
		return g.pick("1h30m", "1s500ms", "1m1s", "1d12h", "2w3d", "1y1w", "1m30s500ms", "0s1ms", "1s499ms", "1s501ms", "90s", "0m5s")
	}
	return fmt.Sprintf("%d%s", 1+g.r.Intn(g.r.Intn(120)+1), g.pick("s", "m", "m", "h", "d", "w", "y"))
}
func (g *gen) num() string {
	switch g.r.Intn(16) {
	case 0:
		return g.pick("Inf", "inf", "INF", "NaN", "nan", "nAn")
	case 1:
		return g.pick("0x1f", "0X10", "0xABCdef", "017", "089", "00", "0", "007", "0x7fffffffffffffff")
	case 2:
		return g.pick("1e3", "2.5e-3", "1E+6", "1e+06", "1e-05", "1.23456789e+08", "1e21", "1e-7", "5e0", "1.e2", ".5e1")
	case 3:
		return g.pick("0.5", "1.25", "3.14159", ".5", "1.", "0.0001", "0.00001", "100000", "1000000", "123456.5", "999999", "0.1", "0.30", "10.50")
	case 4:
		if g.r.Chance(30) {
			return g.pick("1e400", "0x", "1e", "1e+", "0x1.8", "0b1", "1_0", "9223372036854775808", "0x8000000000000000", "12345678901234567890", "1e-400", "0777777777777777777777")
		}
	}
	if g.r.Chance(20) {
		return fmt.Sprintf("%d.%d", g.r.Intn(1000), g.r.Intn(1000))
	}
	return strconv.Itoa(g.r.Intn(g.r.Intn(2000) + 1))
}
func (g *gen) postfix() string {
	switch g.r.Intn(10) {
	case 0, 1, 2:
		s := "[" + g.osp() + g.dur()
		switch g.r.Intn(8) {
		case 0:
			s += g.osp() + ":" + g.osp()
		case 1:
			s += g.osp() + ":" + g.osp() + g.dur()
		}
		return s + g.osp() + "]"
	case 3, 4:
		neg := ""
		if g.r.Chance(25) {
			neg = "-" + g.osp()
		}
		return g.sp() + g.kwcase("offset") + g.sp() + neg + g.dur()
	case 5:
		n := 1 + g.r.Intn(3)
		parts := make([]string, n)
		for i := range parts {
			parts[i] = g.osp() + g.pick("", "", "-") + g.dur()
		}
		return g.sp() + "offset" + g.osp() + "[" + strings.Join(parts, ",") + g.osp() + "]"
	case 6, 7:
		return g.osp() + "@" + g.osp() + g.pick("", "", "-", "+") + g.pick("1.5", "0", "1700000000", "1700000000.123", "12.3456", "0.0005", "2.5e3", "1e19", "Inf", "0x10", "3", "1609459200.5")
	default:
		return g.osp() + "@" + g.osp() + g.kwcase(g.pick("start", "end")) + g.osp() + "(" + g.osp() + ")"
	}
}
func (g *gen) selector() string {
	s := ""
	if g.r.Chance(88) {
		s = g.name()
	}
	if s == "" || g.r.Chance(45) {
		n := g.r.Intn(4)
		if s == "" && g.r.Chance(85) {
			n = 1 + g.r.Intn(3)
		}
		parts := make([]string, n)
		for i := range parts {
			parts[i] = g.osp() + g.matcher() + g.osp()
		}
		body := strings.Join(parts, ",")
		if n > 0 && g.r.Chance(8) {
			body += ","
		}
		s += g.osp() + "{" + body + "}"
	}
	for k := g.r.Intn(10); k < 3 && g.r.Chance(45); k++ {
		s += g.postfix()
	}
	return s
}

var aggNames = []string{"sum", "avg", "count", "min", "max", "group", "stddev", "stdvar", "topk", "bottomk", "count_values", "quantile", "sort", "sort_desc", "drop_empty_series", "dbag"}
var binOps = []string{"+", "-", "*", "/", "%", "^", "==", "!=", "<=", "<", ">=", ">", "and", "or", "unless", "default", "atan2"}

func (g *gen) expr(d int) string {
	k := g.r.Intn(20)
	if d <= 0 && k >= 9 {
		k = g.r.Intn(9)
	}
	switch {
	case k < 4:
		return g.selector()
	case k < 6:
		return g.num()
	case k == 6:
		return g.quoted(g.value())
	case k == 7:
		return g.pick("-", "-", "+") + g.osp() + g.expr(d-1)
	case k == 8:
		return g.num() + g.pick("", "", g.postfix())
	case k < 13: // binary
		op := g.pick(binOps...)
		if len(op) > 2 || op == "or" {
			op = g.kwcase(op)
		}
		mod := ""
		if g.r.Chance(15) {
			mod += g.sp() + g.kwcase("bool")
		}
		if g.r.Chance(30) {
			mod += g.sp() + g.kwcase(g.pick("on", "ignoring")) + g.osp() + g.labels()
			if g.r.Chance(45) {
				mod += g.sp() + g.kwcase(g.pick("group_left", "group_right"))
				if g.r.Chance(60) {
					mod += g.osp() + g.labels()
				}
			}
		}
		a, b := g.sp(), g.sp()
		if len(op) > 2 || op == "or" {
			if a == "" {
				a = " "
			}
			if b == "" && mod == "" {
				b = " "
			}
		}
		if mod != "" && b == "" {
			b = " "
		}
		return g.expr(d-1) + a + op + mod + b + g.expr(d-1)
	case k < 15: // paren / subquery
		s := "(" + g.osp() + g.expr(d-1) + g.osp() + ")"
		for g.r.Chance(25) {
			s += g.postfix()
		}
		return s
	case k < 17: // call
		f := fnNames[g.r.Intn(len(fnNames))]
		if g.r.Chance(3) {
			f = g.pick("nosuchfn", "Rate", "sum_over", "x")
		}
		n := g.r.Intn(3)
		if g.r.Chance(50) {
			n = 1
		}
		parts := make([]string, n)
		for i := range parts {
			parts[i] = g.osp() + g.expr(d-1) + g.osp()
		}
		s := f + g.osp() + "(" + strings.Join(parts, ",")
		if n > 0 && g.r.Chance(2) {
			s += ","
		}
		s += ")"
		for g.r.Chance(12) {
			s += g.postfix()
		}
		return s
	default: // aggregate
		a := g.pick(aggNames...)
		withParam := a == "topk" || a == "bottomk" || a == "count_values" || a == "quantile"
		n := 1
		if withParam {
			n = 2
		}
		if g.r.Chance(4) {
			n = g.r.Intn(4)
		}
		parts := make([]string, n)
		for i := range parts {
			parts[i] = g.osp() + g.expr(d-1) + g.osp()
		}
		body := "(" + strings.Join(parts, ",") + ")"
		a = g.kwcase(a)
		mod := g.kwcase(g.pick("by", "without")) + g.osp() + g.labels()
		switch g.r.Intn(5) {
		case 0, 1:
			return a + g.osp() + body
		case 2, 3:
			return a + g.sp() + mod + g.osp() + body
		default:
			return a + g.osp() + body + g.osp() + mod
		}
	}
}

const mutAlphabet = "()[]{},:+-*/%^=!<>~@$#\"'`. \n\\abxy019smhdwe_"

var mutTokens = []string{"offset", "by", "without", "on", "ignoring", "group_left", "bool", "and", "or", "sum", "topk", "start()", "end()", "@", "[5m]", "[5m:1m]", "{}", "()", ",", "5m", "1", "\"x\"", "=~", "!=", "==", "^", "-", "inf", "rate", "[", "]", "{", "}", "(", ")", ":", "$"}

func (g *gen) mutate(s string) string {
	b := []byte(s)
	for k := 1 + g.r.Intn(3); k > 0; k-- {
		switch g.r.Intn(8) {
		case 0, 1: // delete a byte
			if len(b) > 0 {
				i := g.r.Intn(len(b))
				b = append(b[:i:i], b[i+1:]...)
			}
		case 2, 3: // insert a byte
			i := g.r.Intn(len(b) + 1)
			c := mutAlphabet[g.r.Intn(len(mutAlphabet))]
			b = append(b[:i:i], append([]byte{c}, b[i:]...)...)
		case 4: // replace a byte
			if len(b) > 0 {
				b[g.r.Intn(len(b))] = mutAlphabet[g.r.Intn(len(mutAlphabet))]
			}
		case 5: // delete a range
			if len(b) > 1 {
				i := g.r.Intn(len(b))
				j := i + g.r.Intn(min(6, len(b)-i)+1)
				b = append(b[:i:i], b[j:]...)
			}
		case 6: // duplicate a range
			if len(b) > 1 {
				i := g.r.Intn(len(b))
				j := i + g.r.Intn(min(8, len(b)-i)+1)
				b = append(b[:j:j], append(append([]byte{}, b[i:j]...), b[j:]...)...)
			}
		default: // insert a token
			i := g.r.Intn(len(b) + 1)
			t := mutTokens[g.r.Intn(len(mutTokens))]
			if g.r.Bool() {
				t = " " + t + " "
			}
			b = append(b[:i:i], append([]byte(t), b[i:]...)...)
		}
	}
	return string(b)
}

func (g *gen) garbage() string {
	n := g.r.Intn(24)
	b := make([]byte, n)
	for i := range b {
		switch g.r.Intn(10) {
		case 0:
			b[i] = byte(g.r.Intn(256))
		default:
			b[i] = mutAlphabet[g.r.Intn(len(mutAlphabet))]
		}
	}
	return string(b)
}

// ---------------------------------------------------------------- main

type witness struct{ id, feature, text string }

var witnesses = []witness{
	{"F-C28a", "vector_offset", "foo offset 5m"},
	{"F-C28b", "subquery", "rate(foo[5m])[10m:1m]"},
	{"F-C28c", "offset_list", "foo offset [1m, 2m]"},
	{"F-C28d", "group_modifier", "a + ignoring() group_left(x) b"},
	{"F-C28e", "zero_range", "foo[0s499ms]"},
	{"F-C28f", "empty_selector", "{}"},
	{"F-C28g", "pos_inf", "Inf ^ 2"},
}

// ---------------------------------------------------------------- concurrency stream
//
// "the parser never panics on arbitrary input" also when ParseExpr is used from several goroutines at once (the API
// server does). A data race inside the parser ends in a fatal runtime error ("concurrent map read and map write")
// that no recover() can catch, so this stream runs in a CHILD process: concWorkers goroutines parse, at the same
// time and in the same order, texts whose keywords / aggregators / functions are written in upper/lower-case
// spellings this process has never seen, mixed with ordinary generated texts. The parent observes the child's exit
// status and stderr.

const concWorkers = 16

var concWords = []string{"sum", "without", "by", "offset", "bool", "inf", "drop_empty_series", "and", "or", "unless", "group_left",
	"group_right", "on", "ignoring", "topk", "count_values", "nan", "start", "end", "atan2", "default", "quantile", "avg", "stddev", "sort_desc", "dbag"}

func spell(word string, mask uint64) string {
	b := []byte(word)
	bit := 0
	for i, c := range b {
		if c >= 'a' && c <= 'z' {
			if mask&(1<<uint(bit%60)) != 0 {
				b[i] = c - 32
			}
			bit++
		}
	}
	return string(b)
}

func concTexts(seed uint64, rounds int) []string {
	g := &gen{r: vu.NewRng(seed)}
	texts := make([]string, 0, rounds)
	for i := 0; i < rounds; i++ {
		m := func() uint64 { return g.r.U64() | 1<<uint(g.r.Intn(3)) }
		w := func(s string) string { return spell(s, m()) }
		switch i % 5 {
		case 0:
			texts = append(texts, w("drop_empty_series")+"("+w("sum")+"(foo) "+w("without")+" (x)) > "+w("bool")+" "+w("inf"))
		case 1:
			texts = append(texts, w(g.pick("topk", "quantile", "count_values"))+" "+w("by")+" (a) (3, foo "+w("offset")+" 5m) "+w(g.pick("and", "or", "unless", "atan2", "default"))+" "+
				w("on")+" (a) "+w(g.pick("group_left", "group_right"))+" (b) bar @ "+w(g.pick("start", "end"))+"()")
		case 2:
			texts = append(texts, w(concWords[g.r.Intn(len(concWords))])+" + "+w(g.pick("nan", "inf"))+" * "+w(g.pick("avg", "stddev", "sort_desc", "dbag"))+"(x) "+w("ignoring")+" (a) y")
		case 3:
			texts = append(texts, w(fnNames[g.r.Intn(len(fnNames))])+"("+w(concWords[g.r.Intn(len(concWords))])+"{a=\"b\"}[5m])")
		default:
			texts = append(texts, g.expr(2))
		}
	}
	return texts
}

// the child: every goroutine parses (and prints) every text; any divergence between goroutines is reported on stdout
func concWorker(seed uint64, rounds int) {
	texts := concTexts(seed, rounds)
	results := make([][]string, concWorkers)
	var wg sync.WaitGroup
	start := make(chan struct{})
	for w := 0; w < concWorkers; w++ {
		wg.Add(1)
		go func(w int) {
			defer wg.Done()
			res := make([]string, len(texts))
			<-start
			for i, t := range texts {
				p := parseSafe(t)
				switch {
				case p.panicked != "" || p.err == parser.VerifErrUnexpected():
					res[i] = "PANIC"
				case p.err != nil:
					res[i] = "ERR"
				default:
					s, pp := printSafe(p.expr)
					if pp != "" {
						s = "PRINTPANIC"
					}
					res[i] = "OK " + s
				}
			}
			results[w] = res
		}(w)
	}
	close(start)
	wg.Wait()
	for i := range texts {
		for w := 1; w < concWorkers; w++ {
			if results[w][i] != results[0][i] || results[w][i] == "PANIC" || results[w][i] == "OK PRINTPANIC" {
				fmt.Printf("DIVERGED %q: goroutine 0 -> %q, goroutine %d -> %q\n", texts[i], results[0][i], w, results[w][i])
				os.Exit(3)
			}
		}
	}
	fmt.Printf("CONC-OK %d texts x %d goroutines\n", len(texts), concWorkers)
}

// the parent: one child per call; returns "" or what went wrong
func runConcChild(seed uint64, rounds int) string {
	self, err := os.Executable()
	if err != nil {
		return "cannot locate own executable: " + err.Error()
	}
	ctx, cancel := context.WithTimeout(context.Background(), 180*time.Second)
	defer cancel()
	cmd := exec.CommandContext(ctx, self, "-concworker", "-seed", strconv.FormatUint(seed, 10), "-rounds", strconv.Itoa(rounds))
	var stdout, stderr bytes.Buffer
	cmd.Stdout, cmd.Stderr = &stdout, &stderr
	runErr := cmd.Run()
	firstLine := func(b []byte, marker string) string {
		for _, l := range strings.Split(string(b), "\n") {
			if strings.Contains(l, marker) {
				return strings.TrimSpace(l)
			}
		}
		return ""
	}
	if l := firstLine(stderr.Bytes(), "fatal error"); l != "" {
		return "child died: " + l
	}
	if l := firstLine(stderr.Bytes(), "DATA RACE"); l != "" {
		return "child reports: " + l
	}
	if l := firstLine(stdout.Bytes(), "DIVERGED"); l != "" {
		return l
	}
	if ctx.Err() != nil {
		return "child timed out (deadlock?)"
	}
	if runErr != nil {
		e := strings.TrimSpace(stderr.String())
		if len(e) > 200 {
			e = e[:200]
		}
		return "child exited abnormally: " + runErr.Error() + " " + strconv.QuoteToASCII(e)
	}
	if !bytes.Contains(stdout.Bytes(), []byte("CONC-OK")) {
		return "child did not finish its texts"
	}
	return ""
}

func main() {
	seed := flag.Uint64("seed", 1, "")
	n := flag.Int("n", 3000, "")
	out := flag.String("out", "", "")
	isConcWorker := flag.Bool("concworker", false, "internal: run the concurrency stream's child")
	rounds := flag.Int("rounds", 1500, "")
	flag.Parse()
	for k := range parser.Functions {
		fnNames = append(fnNames, k)
	}
	sort.Strings(fnNames)
	if *isConcWorker {
		concWorker(*seed, *rounds)
		return
	}
	g := &gen{r: vu.NewRng(*seed)}
	o := vu.NewOut(*out)
	defer o.Close()

	seen := map[string]bool{}
	var pool []string // accepted texts, sources of mutation
	type qitem struct {
		text string
		gen  int
	}
	var queue []qitem
	errUnexpected := parser.VerifErrUnexpected()

	// treeRoundTrip: the property on the implementation for one accepted tree. Returns "" when the printed
	// text parses back to an equivalent tree, else what went wrong.
	treeRoundTrip := func(e parser.Expr) (printed string, problem string) {
		printed, pp := printSafe(e)
		if pp != "" {
			return "", "String() panicked: " + pp
		}
		p2 := parseSafe(printed)
		if p2.panicked != "" || p2.err == errUnexpected {
			return printed, "panic while parsing the printed text"
		}
		if p2.err != nil {
			return printed, "printed text is rejected: " + p2.err.Error()
		}
		want, ok1 := dump(e, true)
		got, ok2 := dump(p2.expr, false)
		if !ok1 || !ok2 || want != got {
			return printed, "printed text parses to a different tree"
		}
		return printed, ""
	}

	process := func(text, kind string, gen int) {
		if seen[text] {
			return
		}
		seen[text] = true
		in := text
		if len(in) > 260 {
			in = in[:260] + "…"
		}
		in = kind + ": " + strconv.QuoteToASCII(in)
		p := parseSafe(text)
		ascii := !hasHighBytes(text)
		if p.panicked != "" || p.err == errUnexpected {
			line := o.Case(in, "CSkip", false, kind+"/panic")
			o.Fail("parser_panics", line, in)
			return
		}
		if p.err != nil {
			if !ascii {
				o.Case(in, "CSkip", false, kind+"/reject-nonascii")
				return
			}
			term := fmt.Sprintf("CRT %s %s %s None", coqStr(text), coqStrs(badRegexes(text)), vu.B(numbersExact(text)))
			o.Case(in, term, kind == "mutated", kind+"/reject")
			return
		}
		// accepted
		nodes := countNodes(p.expr)
		feats := map[string]bool{}
		_ = cloneTree(p.expr, false, feats)
		printed, problem := treeRoundTrip(p.expr)
		fl := make([]string, 0, len(feats))
		for f := range feats {
			fl = append(fl, f)
		}
		sort.Strings(fl)
		kinds := []string{kind + "/accept"}
		for _, f := range fl {
			kinds = append(kinds, "feature/"+f)
		}
		if nodes >= 3 {
			kinds = append(kinds, "nodes>=3")
		}
		ast, okDump := dump(p.expr, false)
		var line int
		if ascii && okDump {
			pr := "None"
			if quotedValuesASCII(p.expr) && printed != "" {
				pr = "(Some " + coqStr(printed) + ")"
			}
			term := fmt.Sprintf("CRT %s %s %s (Some (%s, %s))", coqStr(text), coqStrs(badRegexes(text)), vu.B(numbersExact(text)), ast, pr)
			line = o.Case(in, term, nodes >= 3, kinds...)
		} else {
			line = o.Case(in, "CSkip", nodes >= 3, append(kinds, "go-only")...)
		}
		if !okDump {
			o.Fail("tree_shape_outside_parser_image", line, in)
		}
		if problem != "" {
			if len(fl) == 0 {
				o.Fail("roundtrip", line, in+" :: "+problem+" :: printed "+strconv.QuoteToASCII(printed))
			} else {
				// the tree has a shape recorded as a finding: reported under that finding's own oracle name, and the
				// general oracle is evaluated on the tree with exactly those shapes removed
				o.Fail("roundtrip_"+fl[0], line, "feature="+strings.Join(fl, "+")+" "+in+" :: "+problem+" :: printed "+strconv.QuoteToASCII(printed))
				clean := cloneTree(p.expr, true, map[string]bool{})
				if cpr, cproblem := treeRoundTrip(clean); cproblem != "" {
					o.Fail("roundtrip", line, in+" :: (finding shapes removed) "+cproblem+" :: printed "+strconv.QuoteToASCII(cpr))
				}
			}
		}
		pool = append(pool, text)
		// the String() of an accepted tree is fed back as a new input (two generations at most)
		if printed != "" && !seen[printed] && gen < 2 {
			queue = append(queue, qitem{printed, gen + 1})
		}
	}

	// the recorded findings' witnesses are replayed on the real code every run
	for _, w := range witnesses {
		p := parseSafe(w.text)
		outcome := "gone"
		if p.err == nil && p.panicked == "" {
			if _, problem := treeRoundTrip(p.expr); problem != "" {
				outcome = "reproduced"
			}
		}
		o.Finding(w.id, outcome)
		process(w.text, "witness", 0)
	}
	for _, s := range []string{"", " ", "foo", "1", "-1", "+Inf", "a + b * c ^ d ^ e", "-a ^ b", "(a)", "sum(a)", "sum by (a, b) (x)", "topk(3, x)",
		"foo{a=\"b\"}[5m] offset 1h @ 1.5", "a and on (x) group_left (y) b", "# c\nfoo", "rate(x[5m])", "\"s\"", "{a=\"b\"}", "a - -1", "-(a)", "- - a", "2 ^ -5"} {
		process(s, "seed", 0)
	}
	// concurrency stream (child processes; see above)
	children := 3 + *n/12000
	if children > 8 {
		children = 8
	}
	for c := 0; c < children; c++ {
		cseed := *seed*1000003 + uint64(c)*7919 + 17
		in := fmt.Sprintf("concurrency: child #%d, %d goroutines x %d texts with fresh mixed-case keyword spellings (replay: <harness> -concworker -seed %d -rounds %d)", c, concWorkers, *rounds, cseed, *rounds)
		problem := runConcChild(cseed, *rounds)
		line := o.Case(in, "CSkip", true, "concurrency/child")
		if problem != "" {
			o.Fail("parser_crashes_under_concurrency", line, in+" :: "+problem)
		}
	}
	for o.N < *n {
		for len(queue) > 0 && o.N < *n {
			t := queue[0]
			queue = queue[1:]
			process(t.text, "printed", t.gen)
		}
		switch k := g.r.Intn(100); {
		case k < 55:
			process(g.expr(1+g.r.Intn(3)), "structured", 0)
		case k < 90:
			if len(pool) == 0 {
				continue
			}
			process(g.mutate(pool[g.r.Intn(len(pool))]), "mutated", 0)
		default:
			process(g.garbage(), "garbage", 0)
		}
	}
}
