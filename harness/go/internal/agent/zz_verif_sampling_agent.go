//go:build verif

package agent

import (
	"fmt"
	"sync"

	"pgregory.net/rand"

	"github.com/VKCOM/statshouse/internal/data_model"
	"github.com/VKCOM/statshouse/internal/data_model/gen2/tlstatshouse"
	"github.com/VKCOM/statshouse/internal/pcache"
)

// VerifSampleBucketWithBudget (C05, agent path): runs the real Shard.sampleBucket with the given per-shard sample budget
// over a bucket holding the given items and returns the rows keepF put into the SourceBucket3. Item.SF of the given
// items is what the sampler assigned. Add-only accessor; nothing in the package calls it.
func VerifSampleBucketWithBudget(bucketTime uint32, items []*data_model.MultiItem, seed uint64, shardBudget int) []tlstatshouse.MultiItem {
	config := DefaultConfig()
	config.MinSampleBudget = 1
	a := &Agent{
		config:        config,
		logF:          func(f string, a ...any) {},
		mappingsCache: pcache.NewMappingsCache(data_model.NewChunkedStorageNop(), 1024*1024, 86400),
	}
	a.Shards = make([]*Shard, 5)
	config.SampleBudget = shardBudget * len(a.Shards)
	for i := range a.Shards {
		shard := &Shard{ShardNum: i, config: config, agent: a, CurrentTime: bucketTime, SendTime: bucketTime - 2}
		for j := 0; j < superQueueLen; j++ {
			shard.SuperQueue[j] = &data_model.MetricsBucket{}
		}
		shard.cond = sync.NewCond(&shard.mu)
		a.Shards[i] = shard
	}
	a.initBuiltInMetrics()
	a.shardByMetricCount = uint32(len(a.Shards))
	shard := a.Shards[0]
	shard.metricBudgetsFromAgg = data_model.NewExpDecay(config.BudgetDecayHalfLife)
	bucket := &data_model.MetricsBucket{Time: bucketTime, MultiItemMap: data_model.MultiItemMap{MultiItems: map[string]*data_model.MultiItem{}}}
	for i, it := range items {
		bucket.MultiItems[fmt.Sprint(i)] = it
	}
	var sb tlstatshouse.SourceBucket3
	shard.sampleBucket(bucket, &sb, data_model.SamplerBuffers{}, nil, map[int32]uint32{}, map[int32]uint32{}, rand.New(seed))
	return sb.Metrics
}
