//go:build verif

package agent

import "github.com/VKCOM/statshouse/internal/data_model"

// VerifWireTakeCount returns the number of AddValueCounter calls accumulated in the item and clears it (C13:
// the receiver's own per-format accounting is how the detected format is observed).
func (s *BuiltInItemValue) VerifWireTakeCount() float64 {
	s.mu.Lock()
	defer s.mu.Unlock()
	c := s.value.Count()
	s.value = data_model.ItemValue{}
	return c
}
