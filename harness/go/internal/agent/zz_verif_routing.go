//go:build verif

package agent

import (
	"github.com/VKCOM/statshouse/internal/data_model"
	"github.com/VKCOM/statshouse/internal/format"
)

// VerifRouting builds the part of an Agent that Agent.shard and getShardReplicaForSecond read.
type VerifRouting struct{ a *Agent }

func NewVerifRouting(numShards int, shardByMetricCount uint32) *VerifRouting {
	a := &Agent{shardByMetricCount: shardByMetricCount}
	for i := 0; i < numShards; i++ {
		a.Shards = append(a.Shards, &Shard{ShardNum: i, agent: a})
		for r := 0; r < 3; r++ {
			sr := &ShardReplica{agent: a, ShardReplicaNum: i*3 + r, ShardKey: int32(i + 1), ReplicaKey: int32(r + 1)}
			sr.alive.Store(true)
			a.ShardReplicas = append(a.ShardReplicas, sr)
		}
	}
	return &VerifRouting{a: a}
}

// Shard returns (index of shard1, shard1ok, index of shard2 or -1)
func (v *VerifRouting) Shard(key *data_model.Key, meta *format.MetricMetaValue) (int, bool, int) {
	var scratch []byte
	s1, ok, s2 := v.a.shard(key, meta, &scratch)
	i2 := -1
	if s2 != nil {
		i2 = s2.ShardNum
	}
	return s1.ShardNum, ok, i2
}

func (v *VerifRouting) SetAlive(shard int, alive [3]bool) {
	for r := 0; r < 3; r++ {
		v.a.ShardReplicas[shard*3+r].alive.Store(alive[r])
	}
}

// ReplicaForSecond returns (replica shift or -1, spare)
func (v *VerifRouting) ReplicaForSecond(shard int, ts uint32) (int, bool) {
	sr, spare := v.a.getShardReplicaForSecond(shard, ts)
	if sr == nil {
		return -1, spare
	}
	return sr.ShardReplicaNum - shard*3, spare
}
