//go:build verif

package agent

import (
	"sort"
	"time"

	"github.com/VKCOM/statshouse/internal/data_model"
	"github.com/VKCOM/statshouse/internal/data_model/gen2/tlstatshouse"
	"github.com/VKCOM/statshouse/internal/format"
)

// Add-only accessors for the C12 (ingestion validity and accounting) correspondence harness. The agent is built by
// NewVerifQueue (C08, as Test_AgentQueue/makeAgent build it); only the real Agent.Map / MapEnvironment / shard /
// ApplyMetric are called and the rows are read back from the real buckets.

type VerifIngest struct{ Q *VerifQueue }

func NewVerifIngest(nowUnix uint32, numShards int) *VerifIngest {
	return &VerifIngest{Q: NewVerifQueue(nowUnix, 5, 15, numShards)}
}

// Reset empties every bucket of every shard and moves the shards' clocks to nowUnix (the state NewVerifQueue builds),
// so that one agent (and its mapping cache) can serve many independent cases.
func (v *VerifIngest) Reset(nowUnix uint32) {
	for _, s := range v.Q.A.Shards {
		s.mu.Lock()
		s.CurrentTime = nowUnix
		s.SendTime = nowUnix - 2
		for j := range s.SuperQueue {
			s.SuperQueue[j] = &data_model.MetricsBucket{}
		}
		s.mu.Unlock()
	}
}

// VerifIngestRow is one row (a MultiItem's tail or one of its top entries) of some bucket of some shard.
type VerifIngestRow struct {
	Shard    int
	Metric   int32
	Ts       uint32
	Tags     [format.MaxTags]int32
	STags    [format.MaxTags]string
	TopI     int32
	TopS     string
	HostI    int32
	HostS    string
	Count    float64
	ValueSet bool
	Min, Max float64
	Sum      float64
	SumSq    float64
	Uniq     int
	Digest   bool
}

// Handle does what worker.HandleMetrics does for a metric that fillMetricMeta found (cmd/statshouse/worker.go):
// timestamp and meta into the header, the Disable check, Agent.Map or Agent.MapEnvironment, Agent.ApplyMetric.
// In between it asks Agent.shard where the mapped key goes (sh2 = -1: no secondary shard).
func (v *VerifIngest) Handle(m *tlstatshouse.MetricBytes, meta *format.MetricMetaValue, ts uint32, host string, recv time.Time) (sh1 int, sh1ok bool, sh2 int, h *data_model.MappedMetricHeader) {
	a := v.Q.A
	h = &data_model.MappedMetricHeader{ReceiveTime: recv}
	h.Key.Timestamp = ts
	h.MetricMeta = meta
	h.Key.Metric = meta.MetricID
	if meta.Disable {
		h.IngestionStatus = format.TagValueIDSrcIngestionStatusErrMetricDisabled
		a.MapEnvironment(m, h)
	} else {
		a.Map(data_model.HandlerArgs{MetricBytes: m, Host: host}, h, nil)
	}
	var scratch []byte
	keyCopy := h.Key
	s1, ok, s2 := a.shard(&keyCopy, meta, &scratch)
	sh1, sh1ok, sh2 = s1.ShardNum, ok, -1
	if s2 != nil {
		sh2 = s2.ShardNum
	}
	a.ApplyMetric(m, h, &scratch)
	return
}

func verifIngestRow(shard int, it *data_model.MultiItem, top data_model.TagUnion, mv *data_model.MultiValue) VerifIngestRow {
	r := VerifIngestRow{Shard: shard, Metric: it.Key.Metric, Ts: it.Key.Timestamp, Tags: it.Key.Tags, STags: it.Key.STags,
		TopI: top.I, TopS: top.S, HostI: mv.Value.MaxCounterHostTag.I, HostS: mv.Value.MaxCounterHostTag.S,
		Count: mv.Value.Count(), ValueSet: mv.Value.ValueSet, Min: mv.Value.ValueMin, Max: mv.Value.ValueMax,
		Sum: mv.Value.ValueSum, SumSq: mv.Value.ValueSumSquare, Uniq: mv.HLL.ItemsCount(), Digest: mv.ValueTDigest != nil}
	return r
}

// Rows reads every row of every bucket of every shard. The tail of an item is reported when the item has no top
// entries or the tail is not empty.
func (v *VerifIngest) Rows() []VerifIngestRow {
	var res []VerifIngestRow
	for si, s := range v.Q.A.Shards {
		s.mu.Lock()
		for _, b := range s.SuperQueue {
			for _, it := range b.MultiItems {
				if len(it.Top) == 0 || !it.Tail.Empty() {
					res = append(res, verifIngestRow(si, it, data_model.TagUnion{}, &it.Tail))
				}
				for k, mv := range it.Top {
					res = append(res, verifIngestRow(si, it, k, mv))
				}
			}
		}
		s.mu.Unlock()
	}
	sort.Slice(res, func(i, j int) bool {
		a, b := res[i], res[j]
		if a.Shard != b.Shard {
			return a.Shard < b.Shard
		}
		if a.Metric != b.Metric {
			return a.Metric > b.Metric
		}
		if a.Tags != b.Tags {
			for k := range a.Tags {
				if a.Tags[k] != b.Tags[k] {
					return a.Tags[k] < b.Tags[k]
				}
			}
		}
		if a.Ts != b.Ts {
			return a.Ts < b.Ts
		}
		if a.TopI != b.TopI {
			return a.TopI < b.TopI
		}
		return a.TopS < b.TopS
	})
	return res
}
