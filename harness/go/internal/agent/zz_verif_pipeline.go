//go:build verif

package agent

import (
	"context"
	"sort"
	"sync"
	"time"

	"github.com/VKCOM/statshouse/internal/compress"
	"github.com/VKCOM/statshouse/internal/data_model/gen2/tlstatshouse"
	"github.com/VKCOM/statshouse/internal/vkgo/semaphore"
)

// VerifPipe drives the send path of one real Shard (C01): sendToSenders, goSendRecent/sendRecent, sendHistoric,
// popOldestHistoricSecondLocked, checkOutOfWindow, appendHistoricBucketsToSend, the disk cache calls.
type VerifPipe struct {
	A *Agent
	S *Shard
}

// VerifCbd is compressedBucketData as seen by the harness
type VerifCbd struct {
	ID      int64
	Time    uint32
	HasData bool
	cbd     compressedBucketData
}

func vcbd(c compressedBucketData) VerifCbd {
	return VerifCbd{ID: c.id, Time: c.time, HasData: len(c.data) != 0, cbd: c}
}

const verifOverBump = 1 << 40 // pushes historicBucketsDataSize over the memory limit for one call

func NewVerifPipe(a *Agent) *VerifPipe {
	s := a.Shards[0]
	s.timeSpreadDelta = 0
	for _, sr := range a.ShardReplicas {
		sr.config.LivenessResponsesWindowLength = 1 << 30 // liveness is set by the harness, never by send results
	}
	return &VerifPipe{A: a, S: s}
}

// VerifSetHistoricWindow: the value Agent.HistoricWindow() returns (the aggregator reads its window from its built-in agent)
func VerifSetHistoricWindow(a *Agent, hw uint32) { a.historicWindow.Store(hw) }

// VerifShardHistoricWindow: the window shard 0's senders use (Shard.config.HistoricWindow, what checkOutOfWindow gets)
func VerifShardHistoricWindow(a *Agent) uint32 {
	s := a.Shards[0]
	s.mu.Lock()
	defer s.mu.Unlock()
	return uint32(s.config.HistoricWindow)
}

func (v *VerifPipe) DiskOn() bool { return v.A.diskBucketCache != nil }

func (v *VerifPipe) SetConfig(saveImmediately bool, diskOK bool, historicWindow int) {
	v.S.mu.Lock()
	defer v.S.mu.Unlock()
	v.S.config.SaveSecondsImmediately = saveImmediately
	if diskOK {
		v.S.config.MaxHistoricDiskSize = 1 << 30
	} else {
		v.S.config.MaxHistoricDiskSize = 0
	}
	v.S.config.HistoricWindow = uint(historicWindow)
}

func (v *VerifPipe) SetAlive(replica int, alive bool) { v.A.ShardReplicas[replica].alive.Store(alive) }

// VerifBucketData is a real frame: an empty SourceBucket3, boxed, compressed and framed as preProcess does
func VerifBucketData() []byte {
	var sb tlstatshouse.SourceBucket3
	return compress.CompressAndFrame(sb.WriteTL1Boxed(nil))
}

func (v *VerifPipe) bump(over bool, sign int) {
	if over {
		v.S.mu.Lock()
		v.S.historicBucketsDataSize += sign * verifOverBump
		v.S.mu.Unlock()
	}
}

// AcceptFull: real sendToSenders while nobody receives from BucketsToSend (channel full / closed)
func (v *VerifPipe) AcceptFull(t uint32, over bool) {
	v.bump(over, 1)
	v.S.sendToSenders(compressedBucketData{time: t, data: VerifBucketData()})
	v.bump(over, -1)
}

// RecentOnce: one real goSendRecent goroutine processes exactly one bucket handed over its channel
func (v *VerifPipe) RecentOnce(t uint32, over bool) {
	v.bump(over, 1)
	ch := make(chan compressedBucketData)
	var wg sync.WaitGroup
	sema := semaphore.NewWeighted(1)
	_ = sema.Acquire(context.Background(), 1)
	wg.Add(1)
	go v.S.goSendRecent(0, &wg, sema, context.Background(), ch)
	ch <- compressedBucketData{time: t, data: VerifBucketData()}
	close(ch)
	wg.Wait()
	v.bump(over, -1)
}

func (v *VerifPipe) Pop(now uint32) (VerifCbd, bool) {
	v.S.mu.Lock()
	defer v.S.mu.Unlock()
	c, ok := v.S.popOldestHistoricSecondLocked(now)
	return vcbd(c), ok
}

// SendHistoric runs the real sendHistoric loop on a popped bucket. The loop is left through ctx: the harness
// cancels it once `iterDone` reports that the iteration's outcome (keep / failed) has been counted.
func (v *VerifPipe) SendHistoric(ctx context.Context, c VerifCbd) {
	var scratch []byte
	v.S.sendHistoric(ctx, c.cbd, &scratch)
}

// HistoricCounters: sum over replicas of (success, keep, failed) of the historic conveyor
func (v *VerifPipe) HistoricCounters() (ok, keep, failed int64) {
	for _, sr := range v.A.ShardReplicas {
		ok += sr.stats.historicSendSuccess.Load()
		keep += sr.stats.historicSendKeep.Load()
		failed += sr.stats.historicSendFailed.Load()
	}
	return
}

func (v *VerifPipe) CheckOutOfWindow(now uint32, c VerifCbd, hw uint32) bool {
	return v.S.checkOutOfWindow(now, c.cbd, hw)
}

func (v *VerifPipe) AppendHistoric(c VerifCbd, over bool) {
	v.bump(over, 1)
	v.S.appendHistoricBucketsToSend(c.cbd)
	v.bump(over, -1)
}

func (v *VerifPipe) Hist() []VerifCbd {
	v.S.mu.Lock()
	defer v.S.mu.Unlock()
	res := make([]VerifCbd, 0, len(v.S.historicBucketsToSend))
	for _, c := range v.S.historicBucketsToSend {
		res = append(res, vcbd(c))
	}
	return res
}

// Known: ids and times of diskCacheShard.knownBuckets, sorted by id
func (v *VerifPipe) Known() (ids []int64, times []uint32) {
	if v.A.diskBucketCache == nil {
		return
	}
	d := v.A.diskBucketCache.shards[v.S.ShardNum]
	d.mu.Lock()
	defer d.mu.Unlock()
	for id := range d.knownBuckets {
		ids = append(ids, id)
	}
	sort.Slice(ids, func(i, j int) bool { return ids[i] < ids[j] })
	for _, id := range ids {
		times = append(times, d.knownBuckets[id].time)
	}
	return
}

// ReadTail: n more readHistoricSecondLocked calls (what MakeAgent does MaxConveyorDelay*2 times at start)
func (v *VerifPipe) ReadTail(n int) {
	v.S.mu.Lock()
	defer v.S.mu.Unlock()
	for i := 0; i < n; i++ {
		v.S.readHistoricSecondLocked()
	}
}

func (v *VerifPipe) MemSize() int { return v.S.HistoricBucketsDataSizeMemory() }

func (v *VerifPipe) Close() {
	if v.A.diskBucketCache != nil {
		_ = v.A.diskBucketCache.Close()
	}
}

// AlignSecond: the calls that read time.Now() themselves are started in the first 0.6 s of a calendar second,
// so the harness and the callee see the same unix second.
func VerifAlignSecond() uint32 {
	for {
		now := time.Now()
		if now.Nanosecond() < 600_000_000 {
			return uint32(now.Unix())
		}
		time.Sleep(time.Duration(1_000_000_000-now.Nanosecond()) + time.Millisecond)
	}
}

// EraseAllOverDiskLimit runs the real goEraseHistoric goroutine with a disk limit of 1 byte until the historic queue
// is empty (every iteration: pop the oldest, window check, "violates disk size limit" -> erase, 200 ms sleep).
// The goroutine then blocks in cond.Wait for ever: the caller must not use this Shard afterwards (restart follows).
func (v *VerifPipe) EraseAllOverDiskLimit(timeout time.Duration) bool {
	v.S.mu.Lock()
	v.S.config.MaxHistoricDiskSize = 1
	v.S.config.HistoricWindow = 86400
	v.S.mu.Unlock()
	var wg sync.WaitGroup
	wg.Add(1)
	ctx, cancel := context.WithCancel(context.Background())
	defer cancel()
	go v.S.goEraseHistoric(&wg, ctx)
	deadline := time.Now().Add(timeout)
	for time.Now().Before(deadline) {
		if len(v.Hist()) == 0 {
			time.Sleep(250 * time.Millisecond) // the last iteration's erase + sleep
			return len(v.Hist()) == 0
		}
		time.Sleep(20 * time.Millisecond)
	}
	return false
}
