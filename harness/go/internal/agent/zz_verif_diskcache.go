//go:build verif

package agent

import (
	"time"
)

// Add-only accessors for the C09 (disk cache) correspondence harness. Nothing here changes behaviour of
// existing functions; they read unexported constants/state and age the writing file (the only way to reach
// a rotation without writing fileRotateSize bytes, which is an untyped constant and cannot be lowered).

type VerifDiskCacheConstants struct {
	MagicGood, MagicDeleted, HeaderSize, FileRotateSize, MaxChunkSize, FileRotateIntervalSec int64
}

func VerifDiskCacheConsts() VerifDiskCacheConstants {
	return VerifDiskCacheConstants{
		MagicGood: magicGoodBucket, MagicDeleted: magicDeletedBucket, HeaderSize: headerSize,
		FileRotateSize: fileRotateSize, MaxChunkSize: maxChunkSize, FileRotateIntervalSec: int64(fileRotateInterval / time.Second),
	}
}

// VerifAgeWritingFile makes the current writing file of a shard look fileRotateInterval old, so that the
// next writeSecond takes the `now.Sub(d.writingFileCreatedTs) >= fileRotateInterval` branch.
func (d *DiskBucketStorage) VerifAgeWritingFile(shardID int) bool {
	s := d.shards[shardID]
	s.mu.Lock()
	defer s.mu.Unlock()
	if s.writingFile == nil {
		return false
	}
	s.writingFileCreatedTs = s.writingFileCreatedTs.Add(-fileRotateInterval)
	return true
}

// VerifBucketPlace returns where a known bucket lives (file name, header position, body size).
func (d *DiskBucketStorage) VerifBucketPlace(shardID int, id int64) (name string, pos int64, size int, ok bool) {
	s := d.shards[shardID]
	s.mu.Lock()
	defer s.mu.Unlock()
	sec, found := s.knownBuckets[id]
	if !found {
		return "", 0, 0, false
	}
	return sec.file.name, sec.pos, sec.size, true
}

// VerifWritingFile returns name and accounted size of the current writing file ("" if none).
func (d *DiskBucketStorage) VerifWritingFile(shardID int) (string, int64) {
	s := d.shards[shardID]
	s.mu.Lock()
	defer s.mu.Unlock()
	if s.writingFile == nil {
		return "", 0
	}
	return s.writingFile.name, s.writingFile.size
}

// VerifShardPath returns the directory of a shard.
func (d *DiskBucketStorage) VerifShardPath(shardID int) string { return d.shards[shardID].shardPath }

// VerifCounters exposes the raw accounting fields.
func (d *DiskBucketStorage) VerifCounters(shardID int) (total, known, waiting int64, nKnown int) {
	s := d.shards[shardID]
	s.mu.Lock()
	defer s.mu.Unlock()
	return s.totalFileSize, s.knownBucketsSize, s.waitingFilesSize, len(s.knownBuckets)
}
