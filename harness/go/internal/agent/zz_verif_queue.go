//go:build verif

package agent

import (
	"sort"
	"sync"
	"time"

	"pgregory.net/rand"

	"github.com/VKCOM/statshouse/internal/data_model"
	"github.com/VKCOM/statshouse/internal/data_model/gen2/tlstatshouse"
	"github.com/VKCOM/statshouse/internal/format"
	"github.com/VKCOM/statshouse/internal/pcache"
)

// Add-only accessors for the C08 (agent super-queue) correspondence harness. Nothing here changes the
// behaviour of existing functions: a Shard is built exactly as Test_AgentQueue/makeAgent build it and
// only the real Apply*/Add*/flushBuckets/FlushAllDataSingleStep code is called.

type VerifQueueConstants struct {
	QueueLen, FutureSlots, GapSlack, AgentWindowMs int64
	FlushAllSteps                                  int64 // how far the real Agent.FlushAllData advances SendTime
	Resolutions                                    []int64
}

// VerifQueueConsts reads the unexported constants; the literal 120 of gapInReceivingQueueLocked is
// probed through the function itself (gap at CurrentTime=SendTime=0 is -(queueLen-futureSlots-120)).
func VerifQueueConsts() VerifQueueConstants {
	s := &Shard{}
	c := VerifQueueConstants{QueueLen: superQueueLen, FutureSlots: superQueueFutureSlots, GapSlack: -s.gapInReceivingQueueLocked(),
		AgentWindowMs: int64(data_model.AgentWindow / time.Millisecond)}
	seen := map[int64]bool{}
	for r := -3; r < 400; r++ {
		a := int64(format.AllowedResolution(r))
		if !seen[a] {
			seen[a] = true
			c.Resolutions = append(c.Resolutions, a)
		}
	}
	sort.Slice(c.Resolutions, func(i, j int) bool { return c.Resolutions[i] < c.Resolutions[j] })
	q := NewVerifQueue(1700000000, 5, 15, 1)
	_, snd0 := q.Times()
	q.ShutdownAndFlushAllData()
	_, snd1 := q.Times()
	c.FlushAllSteps = int64(snd1 - snd0)
	return c
}

type VerifQueue struct {
	A *Agent
	S *Shard
}

// VerifQueueItem: one row of a bucket. ID = Key.Tags[1] for harness events; Status = it is the
// "timestamp clamped to future" ingestion status row the shard adds itself (Count = how many were merged).
type VerifQueueItem struct {
	ID     int32
	Metric int32
	Ts     uint32
	Status bool
	Count  int64
}

func NewVerifQueue(nowUnix uint32, hwRes, hwSlowRes int32, numShards int) *VerifQueue {
	config := Config{}
	a := &Agent{
		config:             config,
		logF:               func(f string, a ...any) {},
		mappingsCache:      pcache.NewMappingsCache(data_model.NewChunkedStorageNop(), 1024*1024, 86400),
		shardByMetricCount: uint32(numShards),
		cancelFlushFunc:    func() {},
	}
	for i := 0; i < numShards; i++ {
		shard := &Shard{
			config:      config,
			agent:       a,
			ShardNum:    i,
			ShardKey:    int32(i) + 1,
			rng:         rand.New(1),
			CurrentTime: nowUnix,
			SendTime:    nowUnix - 2, // as MakeAgent does
		}
		shard.hardwareMetricResolutionResolved.Store(hwRes)
		shard.hardwareSlowMetricResolutionResolved.Store(hwSlowRes)
		for j := 0; j < superQueueLen; j++ {
			shard.SuperQueue[j] = &data_model.MetricsBucket{}
		}
		shard.cond = sync.NewCond(&shard.mu)
		shard.BucketsToPreprocess = make(chan *data_model.MetricsBucket, 1) // as MakeAgent does
		a.Shards = append(a.Shards, shard)
	}
	a.initBuiltInMetrics()
	return &VerifQueue{A: a, S: a.Shards[0]}
}

func (v *VerifQueue) Shard(i int) *VerifQueue { return &VerifQueue{A: v.A, S: v.A.Shards[i]} }

// Apply calls one of the shard entry points every event goes through. kind: 0 ApplyCounter, 1 ApplyValues,
// 2 ApplyUnique, 3 AddCounterHost, 4 AddValueCounterHost, 5 MergeItemValue. Returns key.Timestamp after the call
// (the shard rewrites it).
func (v *VerifQueue) Apply(kind int, key *data_model.Key, hash uint64, meta *format.MetricMetaValue, dropBefore uint32) uint32 {
	s := v.S
	switch kind {
	case 0:
		s.ApplyCounter(key, hash, 1, data_model.TagUnion{}, meta, dropBefore)
	case 1:
		s.ApplyValues(key, hash, nil, []float64{1}, 1, data_model.TagUnion{}, meta, dropBefore)
	case 2:
		s.ApplyUnique(key, hash, []int64{1}, 1, data_model.TagUnion{}, meta, dropBefore)
	case 3:
		s.AddCounterHost(key, hash, 1, data_model.TagUnion{}, meta, dropBefore)
	case 4:
		s.AddValueCounterHost(key, hash, 1, 1, data_model.TagUnion{}, meta, dropBefore)
	default:
		var iv data_model.ItemValue
		iv.AddValueCounter(1, 1)
		s.MergeItemValue(key, hash, &iv, meta, dropBefore)
	}
	return key.Timestamp
}

func (v *VerifQueue) Flush(now time.Time) (int64, uint32) { return v.S.flushBuckets(now) }
func (v *VerifQueue) Stop()                                 { v.S.StopReceivingIncomingData() }
func (v *VerifQueue) Step(sendEmpty bool) int               { return v.S.FlushAllDataSingleStep(sendEmpty) }
func (v *VerifQueue) ChanLen() int                          { return len(v.S.BucketsToPreprocess) }
func (v *VerifQueue) Times() (cur, snd uint32) {
	v.S.mu.Lock()
	defer v.S.mu.Unlock()
	return v.S.CurrentTime, v.S.SendTime
}

func verifQueueItems(b *data_model.MetricsBucket) []VerifQueueItem {
	var res []VerifQueueItem
	for _, it := range b.MultiItems {
		x := VerifQueueItem{ID: it.Key.Tags[1], Metric: it.Key.Metric, Ts: it.Key.Timestamp, Count: int64(it.Tail.Value.Count())}
		if it.Key.Metric == format.BuiltinMetricIDIngestionStatus {
			x.Status = true
			x.ID = it.Key.Tags[2] // which status
			x.Metric = it.Key.Tags[1]
		}
		res = append(res, x)
	}
	sort.Slice(res, func(i, j int) bool {
		a, b := res[i], res[j]
		if a.Status != b.Status {
			return !a.Status
		}
		if a.ID != b.ID {
			return a.ID < b.ID
		}
		if a.Ts != b.Ts {
			return a.Ts < b.Ts
		}
		return a.Metric < b.Metric
	})
	return res
}

// Drain plays the preprocessor: receives one bucket from BucketsToPreprocess if there is one.
func (v *VerifQueue) Drain() (time uint32, items []VerifQueueItem, ok bool) {
	select {
	case b := <-v.S.BucketsToPreprocess:
		return b.Time, verifQueueItems(b), true
	default:
		return 0, nil, false
	}
}

type VerifQueueBucket struct {
	Time  uint32
	Items []VerifQueueItem
}

// ShutdownAndFlushAllData runs the REAL shutdown sequence of cmd/statshouse for the queue: Agent.ShutdownFlusher
// (StopReceivingIncomingData on every shard) and Agent.FlushAllData (the real loop, which ends with StopPreprocessor
// closing the channels), with a goroutine per shard playing the preprocessor. Returns, for this shard, every
// bucket the preprocessor received (incl. one that was already waiting in the channel), in order.
func (v *VerifQueue) ShutdownAndFlushAllData() []VerifQueueBucket {
	var wg sync.WaitGroup
	got := make([][]*data_model.MetricsBucket, len(v.A.Shards))
	for i, sh := range v.A.Shards {
		wg.Add(1)
		go func(i int, sh *Shard) {
			defer wg.Done()
			for b := range sh.BucketsToPreprocess {
				got[i] = append(got[i], b)
			}
		}(i, sh)
	}
	v.A.ShutdownFlusher()
	v.A.FlushAllData()
	wg.Wait()
	var res []VerifQueueBucket
	for _, b := range got[v.S.ShardNum] {
		res = append(res, VerifQueueBucket{Time: b.Time, Items: verifQueueItems(b)})
	}
	return res
}

// Find looks an event id up in the ring (not in flight): ring index and stored key timestamp.
func (v *VerifQueue) Find(id int32) (idx int, ts uint32, n int) {
	v.S.mu.Lock()
	defer v.S.mu.Unlock()
	idx = -1
	for i, b := range v.S.SuperQueue {
		for _, it := range b.MultiItems {
			if it.Key.Metric != format.BuiltinMetricIDIngestionStatus && it.Key.Tags[1] == id {
				idx, ts = i, it.Key.Timestamp
				n++
			}
		}
	}
	return
}

// RingItems: all rows of ring slot i.
func (v *VerifQueue) RingItems(i int) []VerifQueueItem {
	v.S.mu.Lock()
	defer v.S.mu.Unlock()
	return verifQueueItems(v.S.SuperQueue[i])
}

// AddMapping puts str->id into the agent's mapping cache.
func (v *VerifQueue) AddMapping(now uint32, str string, id int32) {
	v.A.mappingsCache.AddValues(now, []pcache.MappingPair{{Str: str, Value: id}})
}

// MapEvent runs the real Agent.Map on an event; h.MetricMeta must be set by the caller, as the receiver does.
// scratch is the per-worker buffer the receiver reuses across events (may be nil).
func (v *VerifQueue) MapEvent(m *tlstatshouse.MetricBytes, h *data_model.MappedMetricHeader, scratch *[]byte) {
	v.A.Map(data_model.HandlerArgs{MetricBytes: m, Scratch: scratch}, h, nil)
}

// ApplyMetric runs the real Agent.ApplyMetric.
func (v *VerifQueue) ApplyMetric(m *tlstatshouse.MetricBytes, h *data_model.MappedMetricHeader, scratch *[]byte) {
	v.A.ApplyMetric(m, h, scratch)
}

func (v *VerifQueue) NumShards() int { return len(v.A.Shards) }

func VerifQueueStatusClamped() int32 { return format.TagValueIDSrcIngestionStatusWarnTimestampClampedFuture }
func VerifQueueStatusOK() int32      { return format.TagValueIDSrcIngestionStatusOKCached }
