//go:build verif

package receiver

import (
	"github.com/VKCOM/statshouse/internal/agent"
	"github.com/VKCOM/statshouse/internal/data_model/gen2/tlstatshouse"
)

// VerifWire drives parser.parse exactly as the UDP/TCP receivers do (one reused batch and scratch), with
// fresh accounting items so that the branch taken by the format detection can be read back.
type VerifWire struct {
	p       parser
	batch   tlstatshouse.AddMetricsBatchBytes
	scratch []byte
	items   []verifWireItem
}

type verifWireItem struct {
	name string
	v    *agent.BuiltInItemValue
}

func NewVerifWire() *VerifWire {
	w := &VerifWire{}
	w.p.network = "udp"
	add := func(name string, dst **agent.BuiltInItemValue) {
		*dst = &agent.BuiltInItemValue{}
		w.items = append(w.items, verifWireItem{name, *dst})
	}
	add("tl+", &w.p.packetSizeTLOK)
	add("tl-", &w.p.packetSizeTLErr)
	add("msgpack+", &w.p.packetSizeMsgPackOK)
	add("msgpack-", &w.p.packetSizeMsgPackErr)
	add("json+", &w.p.packetSizeJSONOK)
	add("json-", &w.p.packetSizeJSONErr)
	add("protobuf+", &w.p.packetSizeProtobufOK)
	add("protobuf-", &w.p.packetSizeProtobufErr)
	add("legacy-", &w.p.packetSizeLegacyErr)
	add("empty-", &w.p.packetSizeEmptyErr)
	return w
}

// Parse runs parser.parse on pkt; returns the accounting items touched (e.g. "tl+") and parse's error.
func (w *VerifWire) Parse(h Handler, pkt []byte) (string, error) {
	err := w.p.parse(h, nil, pkt, &w.batch, &w.scratch, "")
	w.poison()
	acc := ""
	for _, it := range w.items {
		if c := it.v.VerifWireTakeCount(); c != 0 {
			if acc != "" {
				acc += ","
			}
			acc += it.name
			if c != 1 {
				acc += "*"
			}
		}
	}
	return acc, err
}

// VerifFrames is the framing part of TCP.receiveLoop applied to a fully buffered stream: the frames
// handed to parse, and whether the loop ended with a framing error.
func VerifMaxTCPFrameBody() int { return MaxTCPFrameBody }

// poison scribbles over everything the reused batch still holds (up to capacity), so that a decoder which
// forgets to write a field shows stale garbage instead of the previous packet's (often identical) values.
func (w *VerifWire) poison() {
	fill := func(b []byte) {
		b = b[:cap(b)]
		for i := range b {
			b[i] = 'Z'
		}
	}
	ms := w.batch.Metrics[:cap(w.batch.Metrics)]
	for i := range ms {
		m := &ms[i]
		m.FieldsMask = 0xffffffff
		m.Counter = 12345.5
		m.Ts = 777
		fill(m.Name)
		ts := m.Tags[:cap(m.Tags)]
		for j := range ts {
			fill(ts[j].Key)
			fill(ts[j].Value)
		}
		vs := m.Value[:cap(m.Value)]
		for j := range vs {
			vs[j] = 7.25
		}
		us := m.Unique[:cap(m.Unique)]
		for j := range us {
			us[j] = -99
		}
		hs := m.Histogram[:cap(m.Histogram)]
		for j := range hs {
			hs[j] = [2]float64{3.5, 4.5}
		}
	}
	w.batch.FieldsMask = 0xffffffff
}
