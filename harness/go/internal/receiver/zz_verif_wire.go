//go:build verif

package receiver

import (
	"io"
	"net"
	"sync"
	"time"

	"github.com/VKCOM/statshouse/internal/agent"
	"github.com/VKCOM/statshouse/internal/data_model/gen2/tlstatshouse"
)

// VerifWire drives parser.parse exactly as the UDP/TCP receivers do (one reused batch and scratch), with
// fresh accounting items so that the branch taken by the format detection can be read back.
type VerifWire struct {
	p       parser
	batch   tlstatshouse.AddMetricsBatchBytes
	scratch []byte
	items   []verifWireItem
}

type verifWireItem struct {
	name string
	v    *agent.BuiltInItemValue
}

func NewVerifWire() *VerifWire {
	w := &VerifWire{}
	w.p.network = "udp"
	add := func(name string, dst **agent.BuiltInItemValue) {
		*dst = &agent.BuiltInItemValue{}
		w.items = append(w.items, verifWireItem{name, *dst})
	}
	add("tl+", &w.p.packetSizeTLOK)
	add("tl-", &w.p.packetSizeTLErr)
	add("msgpack+", &w.p.packetSizeMsgPackOK)
	add("msgpack-", &w.p.packetSizeMsgPackErr)
	add("json+", &w.p.packetSizeJSONOK)
	add("json-", &w.p.packetSizeJSONErr)
	add("protobuf+", &w.p.packetSizeProtobufOK)
	add("protobuf-", &w.p.packetSizeProtobufErr)
	add("legacy-", &w.p.packetSizeLegacyErr)
	add("empty-", &w.p.packetSizeEmptyErr)
	return w
}

// Parse runs parser.parse on pkt; returns the accounting items touched (e.g. "tl+") and parse's error.
func (w *VerifWire) Parse(h Handler, pkt []byte) (string, error) { return w.ParseOpt(h, pkt, true) }

// ParseOpt: poison=false leaves the decoded content in the reused batch (REAL previous content for the next packet).
func (w *VerifWire) ParseOpt(h Handler, pkt []byte, poison bool) (string, error) {
	err := w.p.parse(h, nil, pkt, &w.batch, &w.scratch, "")
	if poison {
		w.poison()
	}
	acc := ""
	for _, it := range w.items {
		if c := it.v.VerifWireTakeCount(); c != 0 {
			if acc != "" {
				acc += ","
			}
			acc += it.name
			if c != 1 {
				acc += "*"
			}
		}
	}
	return acc, err
}

// VerifTCPStream drives the real stream receiver (TCP.Serve -> goHandshake -> receiveLoop, the unix-stream flavour:
// no handshake) over a loopback TCP connection: the client performs the given writes, half-closes and waits for
// the server to close.  Returns the frames handed to the RawHandler, whether receiveLoop accounted a framing error,
// and hang=true when the server did not finish within the timeout.
func VerifTCPStream(writes [][]byte, timeout time.Duration) (frames [][]byte, framingErr bool, hang bool, fail string) {
	ln, err := net.Listen("tcp", "127.0.0.1:0")
	if err != nil {
		return nil, false, false, "listen: " + err.Error()
	}
	recv := NewUnixReceiver(nil, nil)
	fe := &agent.BuiltInItemValue{}
	recv.packetSizeFramingError = fe
	var mu sync.Mutex
	rh := func(b []byte) error {
		mu.Lock()
		frames = append(frames, append([]byte(nil), b...))
		mu.Unlock()
		return nil
	}
	go func() { _ = recv.Serve(rh, nil, ln) }()
	conn, err := net.Dial("tcp", ln.Addr().String())
	if err != nil {
		recv.Shutdown()
		return nil, false, false, "dial: " + err.Error()
	}
	done := make(chan struct{})
	go func() {
		defer close(done)
		for _, w := range writes {
			if _, err := conn.Write(w); err != nil {
				break // the server closed the connection (framing error)
			}
		}
		if tc, ok := conn.(*net.TCPConn); ok {
			_ = tc.CloseWrite()
		}
		_, _ = io.Copy(io.Discard, conn) // until the server closes its side
	}()
	select {
	case <-done:
	case <-time.After(timeout):
		hang = true
	}
	_ = conn.Close()
	recv.Shutdown() // not Close: it would wait for a stuck connection goroutine
	mu.Lock()
	defer mu.Unlock()
	out := append([][]byte(nil), frames...)
	return out, fe.VerifWireTakeCount() != 0, hang, ""
}

func VerifMaxTCPFrameBody() int { return MaxTCPFrameBody }

// poison scribbles over everything the reused batch still holds (up to capacity), so that a decoder which
// forgets to write a field shows stale garbage instead of the previous packet's (often identical) values.
func (w *VerifWire) poison() {
	fill := func(b []byte) {
		b = b[:cap(b)]
		for i := range b {
			b[i] = 'Z'
		}
	}
	ms := w.batch.Metrics[:cap(w.batch.Metrics)]
	for i := range ms {
		m := &ms[i]
		m.FieldsMask = 0xffffffff
		m.Counter = 12345.5
		m.Ts = 777
		fill(m.Name)
		ts := m.Tags[:cap(m.Tags)]
		for j := range ts {
			fill(ts[j].Key)
			fill(ts[j].Value)
		}
		vs := m.Value[:cap(m.Value)]
		for j := range vs {
			vs[j] = 7.25
		}
		us := m.Unique[:cap(m.Unique)]
		for j := range us {
			us[j] = -99
		}
		hs := m.Histogram[:cap(m.Histogram)]
		for j := range hs {
			hs[j] = [2]float64{3.5, 4.5}
		}
	}
	w.batch.FieldsMask = 0xffffffff
}
