//go:build verif

// Package verifutil: helpers shared by the correspondence harnesses (PRNG, Coq term printing, stats).
package verifutil

import (
	"encoding/json"
	"fmt"
	"os"
	"sort"
	"strings"
)

// SplitMix64: every random choice of a harness derives from one state seeded by VERIF_SEED.
type Rng struct{ s uint64 }

func NewRng(seed uint64) *Rng {
	// scramble the seed first: with s = seed*G + C the streams of neighbouring seeds would be shifted copies of one another
	z := seed + 0x632BE59BD9B4E019
	z = (z ^ (z >> 30)) * 0xBF58476D1CE4E5B9
	z = (z ^ (z >> 27)) * 0x94D049BB133111EB
	return &Rng{s: z ^ (z >> 31)}
}
func (r *Rng) U64() uint64 {
	r.s += 0x9E3779B97F4A7C15
	z := r.s
	z = (z ^ (z >> 30)) * 0xBF58476D1CE4E5B9
	z = (z ^ (z >> 27)) * 0x94D049BB133111EB
	return z ^ (z >> 31)
}
func (r *Rng) Intn(n int) int {
	if n <= 0 {
		return 0
	}
	return int(r.U64() % uint64(n))
}
func (r *Rng) Bool() bool        { return r.U64()&1 == 1 }
func (r *Rng) Chance(p int) bool { return r.Intn(100) < p } // p percent
func (r *Rng) U32() uint32       { return uint32(r.U64()) }
func (r *Rng) Pick(xs ...int64) int64 {
	return xs[r.Intn(len(xs))]
}

// Coq literals
func Z(x int64) string {
	if x < 0 {
		return fmt.Sprintf("(%d)", x)
	}
	return fmt.Sprintf("%d", x)
}
func ZU(x uint64) string { return fmt.Sprintf("%d", x) }
func B(b bool) string {
	if b {
		return "true"
	}
	return "false"
}
func OptZ(present bool, x int64) string {
	if !present {
		return "None"
	}
	return "(Some " + Z(x) + ")"
}
func ListZ(xs []int64) string {
	parts := make([]string, len(xs))
	for i, x := range xs {
		parts[i] = Z(x)
	}
	return "[" + strings.Join(parts, "; ") + "]"
}
func Bytes(bs []byte) string {
	parts := make([]string, len(bs))
	for i, x := range bs {
		parts[i] = fmt.Sprintf("%d", x)
	}
	return "[" + strings.Join(parts, ";") + "]"
}

// Out collects the files every harness writes into its -out directory:
//   cases.txt   one Coq term (of the area's Corr.case type) per line
//   inputs.txt  the replayable text form of the same case, line by line
//   oracle.txt  "FAIL <oracle> <line> <text>" for every case on which the implementation itself violates the property
//   stats.json  generator distribution, counts of non-trivial cases, samples
type Out struct {
	dir        string
	cases      *os.File
	inputs     *os.File
	oracle     *os.File
	N          int
	Hist       map[string]int
	nontrivial map[string]struct{}
	Samples    []string
	Findings   map[string]string
}

func NewOut(dir string) *Out {
	must := func(f *os.File, err error) *os.File {
		if err != nil {
			panic(err)
		}
		return f
	}
	_ = os.MkdirAll(dir, 0o755)
	return &Out{dir: dir,
		cases:      must(os.Create(dir + "/cases.txt")),
		inputs:     must(os.Create(dir + "/inputs.txt")),
		oracle:     must(os.Create(dir + "/oracle.txt")),
		Hist:       map[string]int{},
		nontrivial: map[string]struct{}{},
		Findings:   map[string]string{},
	}
}

// Case records one case: input = replayable text, term = Coq term, kind = histogram bucket(s),
// nontrivial = whether it counts as non-trivial by the area's rule (distinctness by input text).
func (o *Out) Case(input, term string, nontrivial bool, kinds ...string) int {
	line := o.N
	o.N++
	fmt.Fprintln(o.cases, strings.ReplaceAll(term, "\n", " "))
	fmt.Fprintln(o.inputs, strings.ReplaceAll(input, "\n", " "))
	for _, k := range kinds {
		o.Hist[k]++
	}
	if nontrivial {
		o.nontrivial[input] = struct{}{}
	}
	if len(o.Samples) < 5 || (line%997 == 0 && len(o.Samples) < 12) {
		s := input
		if len(s) > 600 {
			s = s[:600] + "…"
		}
		o.Samples = append(o.Samples, s)
	}
	return line
}

// Fail records that the implementation itself violates the property on case `line`.
func (o *Out) Fail(oracle string, line int, text string) {
	fmt.Fprintf(o.oracle, "FAIL %s %d %s\n", oracle, line, strings.ReplaceAll(text, "\n", " "))
}

// Finding records the outcome of replaying a recorded finding's witness: "reproduced" or "gone".
func (o *Out) Finding(id, outcome string) { o.Findings[id] = outcome }

func (o *Out) Close() {
	o.cases.Close()
	o.inputs.Close()
	o.oracle.Close()
	keys := make([]string, 0, len(o.Hist))
	for k := range o.Hist {
		keys = append(keys, k)
	}
	sort.Strings(keys)
	st := map[string]any{"evaluations": o.N, "distinct_nontrivial": len(o.nontrivial), "histogram": o.Hist, "samples": o.Samples, "findings": o.Findings}
	b, _ := json.MarshalIndent(st, "", " ")
	_ = os.WriteFile(o.dir+"/stats.json", b, 0o644)
}
