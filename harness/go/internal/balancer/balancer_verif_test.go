//go:build verif

// Correspondence harness for C31 (balancer egress), synctest part. One history drives the real handler
// (framing), Egress.WritePacketLocked, tcpPool.writeLocked, pktBuffer.push/pop/swap/close,
// tcpSender.reportWouldBlockIfAny and Egress.Stats inside a synctest bubble: one goroutine per sender
// calls pop(); the write callback is the closure of sendLoop (copied below: net.Buffers.WriteTo on a
// connection, return len(bufs)-1) over a scripted connection. synctest.Wait() after every single push and
// every operation, so each step is one critical section and the fake clock makes the swap timer exact.
// sendLoop itself (reconnects, deadlines, real TCP, its own write closure) runs in real time in TestVerifEgressRT
// (balancer_rt_verif_test.go).
package balancer

import (
	"reflect"
	"regexp"
	"runtime"

	"encoding/binary"
	"errors"
	"fmt"
	"net"
	"os"
	"sort"
	"strconv"
	"strings"
	"sync/atomic"
	"testing"
	"testing/synctest"
	"time"

	"github.com/VKCOM/statshouse/internal/data_model/gen2/tlstatshouse"
	vu "github.com/VKCOM/statshouse/internal/verifutil"
)

var errVbWrite = errors.New("verif: scripted write error")

// The write closure of sendLoop cannot be called from outside sendLoop, so the synctest harness runs a copy of
// it. What the copy returns on an error is read from the source the package was compiled from (the file that
// defines sendLoop), so that a repair of - or a regression in - the real closure is followed by the copy; the
// real closure itself runs in TestVerifEgressRT.
// the whole closure must be one of the two forms the copy below reproduces; anything else (e.g. a conditional
// rebuild of bufs) fails the run, and the real closure is exercised by TestVerifEgressRT
var vbClosureRe = regexp.MustCompile(`func\(pkts \[\]\[\]byte\) \(int, error\) \{\s*bufs = append\(bufs\[:0\], pkts\.\.\.\)[^\n]*\n\s*_, err := bufs\.WriteTo\(conn\)[^\n]*\n\s*return len\(bufs\)\s*(-\s*1)?\s*,\s*err\b[^\n]*\n\s*\}`)

func vbClosureSkipsFailed() (bool, error) {
	f := runtime.FuncForPC(reflect.ValueOf((*tcpSender).sendLoop).Pointer())
	if f == nil {
		return false, errors.New("verif: cannot locate sendLoop")
	}
	file, _ := f.FileLine(f.Entry())
	src, err := os.ReadFile(file)
	if err != nil {
		return false, err
	}
	m := vbClosureRe.FindAllSubmatch(src, -1)
	if len(m) != 1 {
		return false, fmt.Errorf("verif: %d write closures of the known shape recognised in %s: sendLoop's closure changed, update the harness copy (balancer_verif_test.go: callback)", len(m), file)
	}
	return len(m[0][1]) > 0, nil
}

var vbSkipFailed = true

// scripted connection: calls 0..failAt-1 succeed, call failAt returns (partial, err); failAt<0 never fails
type vbConn struct {
	net.Conn
	failAt  int
	partial int
	calls   int
	got     []byte // bytes that reached the "upstream"
	attempt []byte // everything handed to Write
}

func (c *vbConn) Write(p []byte) (int, error) {
	c.attempt = append(c.attempt, p...)
	if c.failAt >= 0 && c.calls == c.failAt {
		n := c.partial
		if n > len(p) {
			n = len(p)
		}
		c.got = append(c.got, p[:n]...)
		c.calls++
		c.failAt = 0 // dead from now on
		c.calls = 0
		c.partial = 0
		return n, errVbWrite
	}
	c.calls++
	c.got = append(c.got, p...)
	return len(p), nil
}

type vbDecision struct {
	failAt, partial int
}

type vbSender struct {
	s       *tcpSender
	cmd     chan func()
	state   atomic.Int32 // 0 outside pop, 1 inside pop (not in the callback), 2 inside the callback
	decide  chan vbDecision
	conns   []*vbConn // one per (re)connection, in order
	bufs    net.Buffers
	lastK   int
	batch   []int64
	scratch []byte
	m       tlstatshouse.Metric
	popErrs int
	failed  []int64 // ids whose write failed (first buffer not written completely at a write error)
}

func (v *vbSender) loop() {
	for f := range v.cmd {
		f()
	}
}

type vbOp struct {
	kind byte // 'W' n l, 'P' a, 'K' a (ok), 'E' a failAt partial, 'R' a ok, 'C' a, 'X' close pool, 'S' d
	a    bool
	n, l int64
	ok   bool
}

type vbHist struct {
	ops         []string // texts
	terms       []string
	obs         []string
	fails       map[string]bool
	kinds       map[string]bool
	frames      []string // CFrames terms collected from batches
	reconFrames int
	stuck       bool
}

func vbB(a bool) string {
	if a {
		return "A"
	}
	return "B"
}

func vbBody(id int64, l int64) []byte {
	body := make([]byte, l-pktHeadLen)
	binary.LittleEndian.PutUint64(body, uint64(id))
	for i := 8; i < len(body); i++ {
		body[i] = byte(id*7 + int64(i))
	}
	return body
}

func vbRuns(ids []int64) string {
	var parts []string
	for i := 0; i < len(ids); {
		j := i
		for j+1 < len(ids) && ids[j+1] == ids[j]+1 {
			j++
		}
		parts = append(parts, fmt.Sprintf("(%s,%d)", vu.Z(ids[i]), j-i+1))
		i = j + 1
	}
	return "[" + strings.Join(parts, ";") + "]"
}

type vbWorld struct {
	e        *Egress
	h        *handler
	snd      [2]*vbSender // 0 = primary (A), 1 = secondary (B)
	next     int64
	lenOf    map[int64]int64
	accepted map[int64]bool
	dropFull int64 // frame bytes of packets refused since the last report
	hist     *vbHist
	waitFrom [2]time.Time
	closedB  [2]bool
	closedP  bool
}

func (w *vbWorld) idx(a bool) int {
	if a {
		return 0
	}
	return 1
}

func (w *vbWorld) fail(name string) { w.hist.fails[name] = true }

// ids of a slot list; checks that every slot holds exactly the frame the handler was given
func (w *vbWorld) slotIDs(slots [][]byte) []int64 {
	ids := make([]int64, 0, len(slots))
	for _, s := range slots {
		if len(s) < pktHeadLen+8 {
			w.fail("egress_bytes_corrupted")
			ids = append(ids, -1)
			continue
		}
		id := int64(binary.LittleEndian.Uint64(s[pktHeadLen:]))
		ids = append(ids, id)
		l, known := w.lenOf[id]
		if !known || int64(len(s)) != l || binary.LittleEndian.Uint32(s) != uint32(l-pktHeadLen) || string(s[pktHeadLen:]) != string(vbBody(id, l)) {
			w.fail("egress_bytes_corrupted")
		}
	}
	return ids
}

func (w *vbWorld) snapBuf(i int) (string, []int64, []int64, int, int, int) {
	b := w.snd[i].s.buf
	b.mu.Lock()
	defer b.mu.Unlock()
	wids := w.slotIDs(b.w[:b.wi])
	var rids []int64
	if b.ri < b.rm {
		rids = w.slotIDs(b.r[b.ri:b.rm])
	}
	st := int(w.snd[i].state.Load())
	return fmt.Sprintf("(BO %d %d %d %s %d %s %s)", b.wi, b.ri, b.rm, vu.B(b.closed), st, vbRuns(wids), vbRuns(rids)), wids, rids, b.wi, b.ri, b.rm
}

func newVbWorld(h *vbHist) *vbWorld {
	cfg := EgressConfig{HostTag: "verif"}
	cfg.fillDefaults()
	e := &Egress{cfg: cfg}
	mk := func() *tcpSender {
		return &tcpSender{cfg: cfg, stats: &e.stats, buf: newPktBuffer(), reconCh: make(chan struct{}, 1), closeCh: make(chan struct{}), closeErr: make(chan error, 1)}
	}
	e.pool = &tcpPool{primary: mk(), secondary: mk(), closed: make(chan struct{})}
	e.pool.primPtr = &e.pool.primary
	e.pool.secPtr = &e.pool.secondary
	w := &vbWorld{e: e, next: 1, lenOf: map[int64]int64{}, accepted: map[int64]bool{}, hist: h}
	w.h = &handler{egress: e, reportInterval: time.Hour, pkt: make([]byte, pktHeadLen, pktFrameMax), stop: make(chan struct{})}
	for i, s := range []*tcpSender{e.pool.primary, e.pool.secondary} {
		v := &vbSender{s: s, cmd: make(chan func()), decide: make(chan vbDecision), m: s.getWriteErrM(), scratch: make([]byte, 0, pktHeadLen)}
		v.conns = []*vbConn{{failAt: -1}}
		w.snd[i] = v
		go v.loop()
	}
	return w
}

// the closure sendLoop passes to pop (copied from egress.go)
func (w *vbWorld) callback(i int) func(pkts [][]byte) (int, error) {
	v := w.snd[i]
	return func(pkts [][]byte) (int, error) {
		v.batch = w.slotIDs(pkts)
		if len(w.hist.frames) < 2 && len(pkts) <= 3 {
			var bodies []string
			var out []byte
			for _, p := range pkts {
				bodies = append(bodies, vu.Bytes(p[pktHeadLen:]))
				out = append(out, p...)
			}
			w.hist.frames = append(w.hist.frames, fmt.Sprintf("CFrames [%s] %s", strings.Join(bodies, ";"), vu.Bytes(out)))
		}
		v.state.Store(2)
		d := <-v.decide
		conn := v.conns[len(v.conns)-1]
		conn.failAt, conn.partial, conn.calls = d.failAt, d.partial, 0
		v.bufs = append(v.bufs[:0], pkts...)
		fresh := len(v.conns) > 1 && len(conn.got) == 0
		_, err := v.bufs.WriteTo(conn)
		v.lastK = len(v.bufs)
		if fresh && err == nil && len(pkts) <= 3 && w.hist.reconFrames < 1 {
			// framing clause on what a new connection receives first (after a write error on the previous one)
			w.hist.reconFrames++
			var bodies []string
			for _, p := range pkts {
				bodies = append(bodies, vu.Bytes(p[pktHeadLen:]))
			}
			w.hist.frames = append(w.hist.frames, fmt.Sprintf("CFrames [%s] %s", strings.Join(bodies, ";"), vu.Bytes(conn.got)))
			w.hist.kinds["reconnect_frames"] = true
		}
		if err != nil {
			if len(v.bufs) > 0 && vbSkipFailed {
				v.failed = append(v.failed, v.batch[len(v.batch)-len(v.bufs)])
			}
			v.conns = append(v.conns, &vbConn{failAt: -1}) // sendLoop closes the connection and dials again
		}
		v.state.Store(1)
		if vbSkipFailed {
			return len(v.bufs) - 1, err // not resend for last
		}
		return len(v.bufs), err
	}
}

func (w *vbWorld) step(op vbOp) {
	h := w.hist
	var fwdD, drpD uint64
	rep := int64(0)
	text, term := "", ""
	takeStats := func() (uint64, uint64) {
		st := w.e.Stats()
		fwdD += st.ForwardedPackets
		drpD += st.DroppedPackets
		return st.ForwardedPackets, st.DroppedPackets
	}
	switch op.kind {
	case 'W':
		text = fmt.Sprintf("W%dx%d", op.n, op.l)
		term = fmt.Sprintf("HW %d %d", op.n, op.l)
		for k := int64(0); k < op.n; k++ {
			id := w.next
			w.next++
			w.lenOf[id] = op.l
			fullA := w.snd[0].s.buf.wi >= bufferLen
			fullB := w.snd[1].s.buf.wi >= bufferLen
			wbBefore := w.e.pool.primary.wouldBlockBytes.Load() + w.e.pool.secondary.wouldBlockBytes.Load()
			_ = w.h.HandleMetricsBatchRaw(vbBody(id, op.l))
			synctest.Wait()
			f, d := takeStats()
			if f+d != 1 {
				w.fail("egress_packet_not_counted")
			}
			if d == 1 {
				h.kinds["dropped"] = true
				if !w.closedP {
					if !(fullA && fullB) {
						w.fail("egress_drop_with_free_buffer")
					}
					w.dropFull += op.l
					if w.e.pool.primary.wouldBlockBytes.Load()+w.e.pool.secondary.wouldBlockBytes.Load() != wbBefore+op.l {
						w.fail("egress_drop_bytes_not_counted")
					}
				}
			} else if f == 1 {
				w.accepted[id] = true
				if fullA != fullB {
					h.kinds["failover_or_secondary"] = true
				}
			}
		}
	case 'P':
		i := w.idx(op.a)
		text = "P" + vbB(op.a)
		term = "HPop " + vu.B(op.a)
		v := w.snd[i]
		if v.state.Load() != 0 {
			h.kinds["op_not_applicable"] = true // scripted op on an implementation that went elsewhere: the model will disagree
			break
		}
		cb := w.callback(i)
		w.waitFrom[i] = time.Now()
		v.cmd <- func() {
			v.state.Store(1)
			if err := v.s.buf.pop(cb); err != nil {
				v.popErrs++
			}
			v.state.Store(0)
		}
	case 'K':
		i := w.idx(op.a)
		text = "K" + vbB(op.a)
		term = "HOk " + vu.B(op.a)
		if w.snd[i].state.Load() != 2 {
			h.kinds["op_not_applicable"] = true
			break
		}
		w.waitFrom[i] = time.Now()
		w.snd[i].decide <- vbDecision{failAt: -1}
	case 'E':
		i := w.idx(op.a)
		if w.snd[i].state.Load() != 2 {
			h.kinds["op_not_applicable"] = true
			text, term = "E?", fmt.Sprintf("HErr %s 0", vu.B(op.a))
			break
		}
		w.snd[i].decide <- vbDecision{failAt: int(op.n), partial: int(op.l)}
		synctest.Wait()
		text = fmt.Sprintf("E%s@%d+%d", vbB(op.a), op.n, op.l)
		term = fmt.Sprintf("HErr %s %d", vu.B(op.a), w.snd[i].lastK)
		h.kinds["write_error"] = true
		if w.snd[i].lastK == 0 {
			h.kinds["write_error_k0"] = true
		}
	case 'R':
		i := w.idx(op.a)
		text = fmt.Sprintf("R%s%s", vbB(op.a), map[bool]string{true: "", false: "!"}[op.ok])
		term = fmt.Sprintf("HRep %s %s", vu.B(op.a), vu.B(op.ok))
		v := w.snd[i]
		rc := &vbConn{failAt: -1}
		if !op.ok {
			rc.failAt = 0
		}
		v.scratch = v.s.reportWouldBlockIfAny(rc, v.m, v.scratch)
		if len(rc.attempt) > 0 {
			h.kinds["drop_report"] = true
			val, ok := vbDecodeReport(rc.attempt)
			rep = val
			if !ok || val != w.dropFull {
				w.fail("egress_drop_report_wrong")
			}
			w.dropFull = 0
		}
	case 'C':
		i := w.idx(op.a)
		text = "C" + vbB(op.a)
		term = "HCloseBuf " + vu.B(op.a)
		w.snd[i].s.buf.close()
		w.closedB[i] = true
		h.kinds["close_buf"] = true
	case 'X':
		text, term = "X", "HClosePool"
		if !w.closedP {
			close(w.e.pool.closed)
		}
		w.closedP = true
		h.kinds["close_pool"] = true
	case 'S':
		text = fmt.Sprintf("S%d", op.n)
		term = fmt.Sprintf("HSleep %d", op.n)
		time.Sleep(time.Duration(op.n) * time.Millisecond)
	}
	synctest.Wait()
	takeStats()
	sa, wA, _, wiA, _, _ := w.snapBuf(0)
	sb, wB, _, wiB, _, _ := w.snapBuf(1)
	_, _ = wA, wB
	p := w.e.pool
	wb := p.primary.wouldBlockBytes.Load()
	if p.secondary.wouldBlockBytes.Load() != 0 {
		w.fail("egress_secondary_wouldblock_nonzero")
	}
	h.ops = append(h.ops, text)
	h.terms = append(h.terms, term)
	h.obs = append(h.obs, fmt.Sprintf("Ob %d %d %d %s %s %s %d %s %s", fwdD, drpD, wb, vu.B(p.primPtr == &p.primary),
		vu.B(len(p.primary.reconCh) > 0), vu.B(len(p.secondary.reconCh) > 0), rep, sa, sb))
	// the batch the callback got is exactly r[ri:rm]
	for i := 0; i < 2; i++ {
		st := w.snd[i].state.Load()
		wi := []int{wiA, wiB}[i]
		if st == 2 {
			h.kinds["in_write"] = true
		}
		// "within a bounded delay (about one second ...) even if no further packets arrive": a sender that sits in
		// the batch wait of swap() with packets in the buffer for longer than swapWaitMax
		if st == 1 && wi > 0 && !w.closedB[i] && time.Since(w.waitFrom[i]) > swapWaitMax {
			w.fail("egress_packet_stuck_in_batch_wait")
			h.stuck = true
			h.kinds["F-C31_stuck"] = true
		}
		if st == 1 && wi > 0 {
			h.kinds["waiting_with_packets"] = true
		}
		if wi >= bufferLen {
			h.kinds["buffer_full"] = true
		}
	}
}

func vbDecodeReport(b []byte) (int64, bool) {
	if len(b) < pktHeadLen || int(binary.LittleEndian.Uint32(b)) != len(b)-pktHeadLen {
		return 0, false
	}
	var batch tlstatshouse.AddMetricsBatch
	if _, err := batch.ReadTL1Boxed(b[pktHeadLen:]); err != nil || len(batch.Metrics) != 1 || len(batch.Metrics[0].Value) != 1 {
		return 0, false
	}
	m := batch.Metrics[0]
	if m.Name != "__src_client_write_err" {
		return 0, false
	}
	return int64(m.Value[0]), true
}

// end of a history: what reached the upstream connections, checked against what was accepted
func (w *vbWorld) finish() {
	h := w.hist
	seen := map[int64]bool{}
	for i := 0; i < 2; i++ {
		last := int64(0)
		for ci, c := range w.snd[i].conns {
			s := c.got
			died := ci < len(w.snd[i].conns)-1 // a write error ended this connection; only then may its last frame be cut
			for off := 0; len(s) > 0; {
				bad := ""
				n := 0
				if len(s) < pktHeadLen {
					if died {
						break
					}
					bad = "cut"
				} else if n = int(binary.LittleEndian.Uint32(s)); n < 8 || n > pktBodyMax {
					bad = "length"
				} else if len(s) < pktHeadLen+n {
					if died {
						// the rest must still be the beginning of an accepted packet
						if len(s) >= pktHeadLen+8 {
							id := int64(binary.LittleEndian.Uint64(s[pktHeadLen:]))
							l, known := w.lenOf[id]
							if !known || int(l) != pktHeadLen+n || string(s[pktHeadLen:]) != string(vbBody(id, l)[:len(s)-pktHeadLen]) {
								bad = "body"
							}
						}
						if bad == "" {
							break
						}
					} else {
						bad = "cut"
					}
				}
				if bad != "" {
					// "written upstream byte-for-byte with its length frame": a length-prefix reader loses the stream here
					if off == 0 && ci > 0 {
						w.fail("egress_reconnect_stream_starts_at_frame_boundary")
					} else {
						w.fail("egress_bytes_corrupted")
					}
					break
				}
				fr := s[:pktHeadLen+n]
				s = s[pktHeadLen+n:]
				off += pktHeadLen + n
				ids := w.slotIDs([][]byte{fr})
				id := ids[0]
				if !w.accepted[id] {
					w.fail("egress_unaccepted_packet_written")
				}
				if seen[id] {
					w.fail("egress_packet_written_twice")
				}
				seen[id] = true
				if id <= last {
					w.fail("egress_order_violated")
				}
				last = id
			}
		}
	}
	inBuf := map[int64]bool{}
	for i := 0; i < 2; i++ {
		_, wids, rids, _, _, _ := w.snapBuf(i)
		for _, id := range append(wids, rids...) {
			inBuf[id] = true
		}
	}
	failed := map[int64]bool{}
	for i := 0; i < 2; i++ {
		for _, id := range w.snd[i].failed {
			failed[id] = true
		}
	}
	for id := range w.accepted {
		if seen[id] || inBuf[id] {
			continue
		}
		if failed[id] {
			// the packet whose write failed is not retried ("not resend for last"): accepted, not written, not counted
			w.fail("egress_accepted_packet_skipped_after_write_error")
			h.kinds["F-C31b_skipped"] = true
		} else {
			w.fail("egress_packet_lost")
		}
	}
}

func (w *vbWorld) shutdown() {
	if !w.closedP {
		close(w.e.pool.closed)
		w.closedP = true
	}
	for i := 0; i < 2; i++ {
		v := w.snd[i]
		v.s.buf.close()
		synctest.Wait()
		if v.state.Load() == 2 {
			v.decide <- vbDecision{failAt: -1}
			synctest.Wait()
		}
		close(v.cmd)
	}
}

// one history; gen returns nil to stop
func vbRun(gen func(w *vbWorld, step int) *vbOp, drain bool) *vbHist {
	h := &vbHist{fails: map[string]bool{}, kinds: map[string]bool{}}
	synctest.Run(func() {
		w := newVbWorld(h)
		for step := 0; ; step++ {
			op := gen(w, step)
			if op == nil {
				break
			}
			w.step(*op)
		}
		if drain {
			for it := 0; it < 14; it++ {
				did := false
				for i := 0; i < 2; i++ {
					a := i == 0
					b := w.snd[i].s.buf
					switch w.snd[i].state.Load() {
					case 0:
						if !w.closedB[i] && (b.wi > 0 || b.ri < b.rm) {
							w.step(vbOp{kind: 'P', a: a})
							did = true
						}
					case 2:
						w.step(vbOp{kind: 'K', a: a})
						did = true
					case 1:
						if b.wi > 0 && !w.closedB[i] && !h.stuck {
							w.step(vbOp{kind: 'S', n: 1100})
							did = true
						}
					}
				}
				if !did {
					break
				}
			}
			if w.snd[0].state.Load() == 0 && !w.closedB[0] {
				w.step(vbOp{kind: 'R', a: true, ok: true})
			}
		}
		w.finish()
		w.shutdown()
	})
	return h
}

func (h *vbHist) emit(o *vu.Out, label string) {
	input := fmt.Sprintf("egress %s: %s", label, strings.Join(h.ops, " "))
	term := fmt.Sprintf("CHist %d %d %d %d [%s] [%s]", bufferLen, bufferLen*20/100, int64(swapWaitMax/time.Millisecond), pktHeadLen,
		strings.Join(h.terms, ";"), strings.Join(h.obs, ";"))
	kinds := []string{"hist"}
	for k := range h.kinds {
		kinds = append(kinds, k)
	}
	sort.Strings(kinds)
	nontrivial := h.kinds["waiting_with_packets"] && h.kinds["in_write"] && (h.kinds["write_error"] || h.kinds["dropped"] || h.kinds["failover_or_secondary"])
	line := o.Case(input, term, nontrivial, kinds...)
	var fs []string
	for f := range h.fails {
		fs = append(fs, f)
	}
	sort.Strings(fs)
	for _, f := range fs {
		o.Fail(f, line, input)
	}
	for _, fr := range h.frames {
		o.Case("frames of "+label, fr, false, "frames")
	}
}

func vbScript(ops []vbOp) func(w *vbWorld, step int) *vbOp {
	return func(w *vbWorld, step int) *vbOp {
		if step >= len(ops) {
			return nil
		}
		return &ops[step]
	}
}

func TestVerifBalancer(t *testing.T) {
	outDir := os.Getenv("VERIF_OUT")
	if outDir == "" {
		t.Skip("VERIF_OUT not set")
	}
	seed, _ := strconv.ParseUint(os.Getenv("VERIF_SEED"), 10, 64)
	n := 200
	args := strings.Fields(os.Getenv("VERIF_ARGS"))
	for i := 0; i+1 < len(args); i++ {
		if args[i] == "-n" {
			n, _ = strconv.Atoi(args[i+1])
		}
	}
	skip, err := vbClosureSkipsFailed()
	if err != nil {
		t.Fatal(err) // before any output file exists: bin/check reports the harness as failed
	}
	vbSkipFailed = skip
	r := vu.NewRng(seed)
	o := vu.NewOut(outDir)
	defer o.Close()
	o.Hist[fmt.Sprintf("closure_skips_failed_%v", skip)]++

	// witness of finding F-C31: the sender waits for a batch, one packet arrives, the timer fires without
	// waking the sender, no further packet arrives: the packet stays in the buffer
	wt := vbRun(vbScript([]vbOp{{kind: 'P', a: true}, {kind: 'W', n: 1, l: 16}, {kind: 'S', n: 1000}, {kind: 'S', n: 5000}}), false)
	wt.emit(o, "witness-F-C31")
	// second shape: the packet arrives while the sender is writing; the swap after the write waits and (code as
	// it is) is never woken. Every operation of this script is applicable with and without the timer repair.
	wt2 := vbRun(vbScript([]vbOp{{kind: 'W', n: int64(bufferLen * 20 / 100), l: 16}, {kind: 'P', a: true}, {kind: 'W', n: 1, l: 16}, {kind: 'K', a: true}, {kind: 'S', n: 3000}}), false)
	wt2.emit(o, "witness-F-C31-postwrite")
	if wt.stuck || wt2.stuck {
		o.Finding("F-C31", "reproduced")
	} else {
		o.Finding("F-C31", "gone")
	}

	for i := 0; i < n; i++ {
		mode := r.Intn(10) // 0-4 sparse, 5-7 burst (buffers fill up), 8-9 mixed
		length := 14 + r.Intn(26)
		sleeps := []int64{1, 100, 400, 500, 600, 999, 1000, 1001, 1500, 2500}
		gen := func(w *vbWorld, step int) *vbOp {
			if step >= length {
				return nil
			}
			for tries := 0; tries < 50; tries++ {
				x := r.Intn(100)
				a := r.Bool()
				if mode >= 5 && mode <= 7 && r.Chance(70) {
					a = true
				}
				i := w.idx(a)
				st := w.snd[i].state.Load()
				l := int64(12 + r.Intn(30))
				burst := mode >= 5 && mode <= 7
				switch {
				case x < 30:
					nn := int64(1 + r.Intn(3))
					if r.Chance(15) {
						nn = int64(bufferLen*20/100) - int64(w.snd[i].s.buf.wi) + int64(r.Intn(3)) - 1 // around the 20% threshold
					}
					if burst || (mode >= 8 && r.Chance(25)) {
						switch r.Intn(4) {
						case 0:
							nn = int64(bufferLen) - int64(w.snd[0].s.buf.wi) + int64(r.Intn(3)) - 1 // fill the primary
						case 1:
							nn = int64(bufferLen) - int64(w.snd[1].s.buf.wi) + int64(r.Intn(3)) - 1
						case 2:
							nn = int64(50 + r.Intn(200))
						}
					}
					if nn < 1 {
						nn = 1
					}
					return &vbOp{kind: 'W', n: nn, l: l}
				case x < 50:
					if st == 0 && !(burst && r.Chance(60)) {
						return &vbOp{kind: 'P', a: a}
					}
				case x < 64:
					if st == 2 && !(burst && r.Chance(50)) {
						return &vbOp{kind: 'K', a: a}
					}
				case x < 72:
					if st == 2 && len(w.snd[i].batch) > 0 {
						m := len(w.snd[i].batch)
						at := r.Intn(m)
						if r.Chance(30) {
							at = 0
						}
						part := int64(0)
						switch r.Intn(4) {
						case 0:
							part = 1 + int64(r.Intn(10)) // inside the frame
						case 1:
							part = w.lenOf[w.snd[i].batch[at]] // the whole buffer was counted as written, with an error
						}
						return &vbOp{kind: 'E', a: a, n: int64(at), l: part}
					}
				case x < 90:
					if !burst || r.Chance(30) {
						return &vbOp{kind: 'S', n: sleeps[r.Intn(len(sleeps))]}
					}
				case x < 96:
					ra := a || r.Chance(70)
					if w.snd[w.idx(ra)].state.Load() == 0 {
						return &vbOp{kind: 'R', a: ra, ok: !r.Chance(20)}
					}
				case x < 98:
					if step > length*2/3 && r.Chance(30) {
						return &vbOp{kind: 'C', a: a}
					}
				default:
					if step > length*2/3 && r.Chance(20) {
						return &vbOp{kind: 'X'}
					}
				}
			}
			return &vbOp{kind: 'S', n: 100}
		}
		h := vbRun(gen, true)
		label := []string{"sparse", "sparse", "sparse", "sparse", "sparse", "burst", "burst", "burst", "mixed", "mixed"}[mode]
		h.kinds["mode_"+label] = true
		h.emit(o, label)
	}
}
