//go:build verif

// Real-time part of the C31 harness: the real NewEgress / tcpSender.sendLoop (with its own write closure,
// net.Buffers.WriteTo on a real *net.TCPConn, reconnect) against a loopback listener. One scenario: a batch
// is delivered, the upstream resets the connection, the next batch hits a write error, the sender dials
// again and retries. What arrives on the second connection shows whether the packet whose write failed is
// retried (finding F-C31b). Batches are as large as the 20% threshold, so that the sender is woken by the
// push itself and the scenario does not depend on the swap timer (finding F-C31).
package balancer

import (
	"encoding/binary"
	"fmt"
	"io"
	"net"
	"os"
	"strconv"
	"strings"
	"sync"
	"testing"
	"time"

	"github.com/VKCOM/statshouse/internal/receiver"
	vu "github.com/VKCOM/statshouse/internal/verifutil"
)

type vrtConn struct {
	c      net.Conn
	mu     sync.Mutex
	frames [][]byte // complete frames (header included) read so far
}

func (u *vrtConn) count() int {
	u.mu.Lock()
	defer u.mu.Unlock()
	return len(u.frames)
}

type vrtUpstream struct {
	ln    net.Listener
	mu    sync.Mutex
	conns []*vrtConn
}

func (u *vrtUpstream) serve(hostTag string) {
	for {
		c, err := u.ln.Accept()
		if err != nil {
			return
		}
		vc := &vrtConn{c: c}
		u.mu.Lock()
		u.conns = append(u.conns, vc)
		u.mu.Unlock()
		go func() {
			hs := make([]byte, len(receiver.TCPPrefix)+1+4+len(hostTag))
			if _, err := io.ReadFull(c, hs); err != nil {
				return
			}
			for {
				head := make([]byte, pktHeadLen)
				if _, err := io.ReadFull(c, head); err != nil {
					return
				}
				body := make([]byte, binary.LittleEndian.Uint32(head))
				if _, err := io.ReadFull(c, body); err != nil {
					return
				}
				vc.mu.Lock()
				vc.frames = append(vc.frames, append(head, body...))
				vc.mu.Unlock()
			}
		}()
	}
}

func (u *vrtUpstream) conn(i int) *vrtConn {
	u.mu.Lock()
	defer u.mu.Unlock()
	if i < len(u.conns) {
		return u.conns[i]
	}
	return nil
}

func vrtWait(d time.Duration, cond func() bool) bool {
	end := time.Now().Add(d)
	for time.Now().Before(end) {
		if cond() {
			return true
		}
		time.Sleep(20 * time.Millisecond)
	}
	return cond()
}

// ---- scenario 2: the connection is lost while part of a packet has been written ----

type vrtRawConn struct {
	mu  sync.Mutex
	raw []byte // everything received after the handshake
}

type vrtPartialResult struct {
	input string
	kinds []string
	fails []string
}

func vrtBigBody(id int64) []byte { return vbBody(id, int64(pktFrameMax)-id%5) }

// parses a connection's byte stream from its first byte with a length-prefix reader; returns the ids of the
// complete frames and the description of the first malformed one ("" if none; a cut last frame is not malformed)
func vrtParseBig(raw []byte, known func(int64) bool) (ids []int64, badAt int, bad string) {
	off := 0
	for len(raw)-off >= pktHeadLen {
		n := int(binary.LittleEndian.Uint32(raw[off:]))
		if n < 8 || n > pktBodyMax {
			return ids, off, "impossible length"
		}
		avail := len(raw) - off - pktHeadLen
		if avail >= 8 {
			id := int64(binary.LittleEndian.Uint64(raw[off+pktHeadLen:]))
			if !known(id) {
				return ids, off, "not an accepted packet"
			}
			want := vrtBigBody(id)
			if len(want) != n {
				return ids, off, "wrong length for its packet"
			}
			m := n
			if avail < m {
				m = avail
			}
			if string(raw[off+pktHeadLen:off+pktHeadLen+m]) != string(want[:m]) {
				return ids, off, "body differs"
			}
			if avail >= n {
				ids = append(ids, id)
			}
		}
		if avail < n {
			break
		}
		off += pktHeadLen + n
	}
	return ids, -1, ""
}

func vrtPartialScenario() (res vrtPartialResult) {
	res.kinds = []string{"rt_partial"}
	fail := func(f string) { res.fails = append(res.fails, f) }
	outcome := "inconclusive"
	defer func() {
		res.kinds = append(res.kinds, "rt_partial_"+outcome)
		res.input = "egress rt-partial: W190x64K upstream-stalls RST-mid-packet reconnect -> " + outcome
	}()
	ln, err := net.Listen("tcp", "127.0.0.1:0")
	if err != nil {
		return
	}
	defer ln.Close()
	const hostTag = "verif2"
	hsLen := len(receiver.TCPPrefix) + 1 + 4 + len(hostTag)
	var mu sync.Mutex
	var first net.Conn
	firstCh := make(chan struct{})
	var later []*vrtRawConn
	go func() {
		for n := 0; ; n++ {
			c, err := ln.Accept()
			if err != nil {
				return
			}
			if tc, ok := c.(*net.TCPConn); ok {
				_ = tc.SetReadBuffer(32 << 10)
			}
			hs := make([]byte, hsLen)
			if _, err := io.ReadFull(c, hs); err != nil {
				continue
			}
			if n == 0 {
				first = c // the handshake is read, then nothing: the socket buffers fill up
				close(firstCh)
				continue
			}
			rc := &vrtRawConn{}
			mu.Lock()
			later = append(later, rc)
			mu.Unlock()
			go func() {
				buf := make([]byte, 1<<16)
				for {
					k, err := c.Read(buf)
					rc.mu.Lock()
					rc.raw = append(rc.raw, buf[:k]...)
					rc.mu.Unlock()
					if err != nil {
						return
					}
				}
			}()
		}
	}()
	e := NewEgress(EgressConfig{Address: ln.Addr().String(), HostTag: hostTag, ReconnectDelay: 200 * time.Millisecond})
	h := newHandler(e)
	defer func() {
		h.Close()
		_ = e.Close()
	}()
	select {
	case <-firstCh:
	case <-time.After(10 * time.Second):
		return
	}
	next := int64(1)
	var fwd, drp uint64
	pushOne := func() {
		_ = h.HandleMetricsBatchRaw(vrtBigBody(next))
		next++
		st := e.Stats()
		fwd += st.ForwardedPackets
		drp += st.DroppedPackets
	}
	for i := 0; i < 190; i++ { // ~12 MB: more than the socket buffers take, less than one send buffer holds
		pushOne()
		time.Sleep(time.Millisecond)
	}
	time.Sleep(1500 * time.Millisecond) // the sender is now blocked in the middle of a batch
	if e.stats.writeErrors.Load() != 0 {
		return
	}
	_ = first.Close() // unread data pending: RST, the blocked write fails with part of a packet written
	lastOn := func() (ids []int64, badAt int, bad string, have bool) {
		mu.Lock()
		defer mu.Unlock()
		if len(later) == 0 {
			return nil, -1, "", false
		}
		rc := later[0]
		rc.mu.Lock()
		defer rc.mu.Unlock()
		ids, badAt, bad = vrtParseBig(rc.raw, func(id int64) bool { return id >= 1 && id < next })
		return ids, badAt, bad, len(rc.raw) > 0
	}
	done := func() bool {
		ids, _, bad, have := lastOn()
		return have && (bad != "" || (len(ids) > 0 && ids[len(ids)-1] == next-1))
	}
	for try := 0; try < 6 && !vrtWait(1500*time.Millisecond, done); try++ {
		pushOne() // code with the timer defect F-C31 needs a further packet to hand over the rest
	}
	ids, badAt, bad, have := lastOn()
	if !have || e.stats.writeErrors.Load() == 0 {
		return
	}
	outcome = "clean"
	if bad != "" {
		outcome = "misframed"
		if badAt == 0 {
			// "written upstream byte-for-byte with its length frame": the new connection does not start with a frame
			fail("egress_reconnect_stream_starts_at_frame_boundary")
		} else {
			fail("egress_bytes_corrupted")
		}
	}
	for i := 1; i < len(ids); i++ {
		if ids[i] <= ids[i-1] {
			fail("egress_order_violated")
		}
	}
	if bad == "" && (len(ids) == 0 || ids[len(ids)-1] != next-1) {
		fail("egress_packet_lost") // healthy new connection, yet the last accepted packet never arrived
	}
	if drp != 0 || fwd != uint64(next-1) {
		fail("egress_packet_not_counted")
	}
	return
}

// ---- scenario 3: the first address of each sender's pool refuses connections ----

type vrtCase struct {
	input, term string
	nontrivial  bool
	kinds       []string
	fails       []string
}

func vrtDeadAddr() string {
	ln, err := net.Listen("tcp", "127.0.0.1:0")
	if err != nil {
		return "127.0.0.1:1"
	}
	a := ln.Addr().String()
	_ = ln.Close()
	return a
}

func vrtReconnectScenario() (out []vrtCase) {
	const hostTag = "verif3"
	lnA, errA := net.Listen("tcp", "127.0.0.1:0")
	lnB, errB := net.Listen("tcp", "127.0.0.1:0")
	if errA != nil || errB != nil {
		return nil
	}
	upA, upB := &vrtUpstream{ln: lnA}, &vrtUpstream{ln: lnB}
	go upA.serve(hostTag)
	go upB.serve(hostTag)
	defer lnA.Close()
	defer lnB.Close()
	// the only configured address is down; then a "DNS refresh" (the real replacePool) gives the primary sender
	// [dead, live] and the secondary [dead, dead, live]
	e := NewEgress(EgressConfig{Address: vrtDeadAddr(), HostTag: hostTag, ReconnectDelay: 200 * time.Millisecond, DialTimeout: time.Second})
	h := newHandler(e)
	defer func() {
		h.Close()
		_ = e.Close()
	}()
	e.pool.primary.replacePool(addressPool{addrs: []string{vrtDeadAddr(), lnA.Addr().String()}})
	e.pool.secondary.replacePool(addressPool{addrs: []string{vrtDeadAddr(), vrtDeadAddr(), lnB.Addr().String()}})
	n := bufferLen * 20 / 100
	const l = 24
	for i := 1; i <= n; i++ {
		_ = h.HandleMetricsBatchRaw(vbBody(int64(i), l))
	}
	st := e.Stats()
	c := vrtCase{term: "CRetry (-1)", kinds: []string{"rt_reconnect"}}
	// "within a bounded delay (about one second plus reconnection time)": a live address is in the sender's pool
	okA := vrtWait(5*time.Second, func() bool { x := upA.conn(0); return x != nil && x.count() >= n })
	okB := vrtWait(2*time.Second, func() bool { return upB.conn(0) != nil })
	outcome := "forwarded"
	if !okA || !okB {
		outcome = "stuck"
		c.fails = append(c.fails, "egress_packet_not_forwarded_after_upstream_failure")
	} else {
		x := upA.conn(0)
		x.mu.Lock()
		for i, f := range x.frames {
			if len(f) != l || string(f[pktHeadLen:]) != string(vbBody(int64(i+1), l)) {
				c.fails = append(c.fails, "egress_bytes_corrupted")
				break
			}
		}
		x.mu.Unlock()
	}
	if st.ForwardedPackets != uint64(n) || st.DroppedPackets != 0 {
		c.fails = append(c.fails, "egress_packet_not_counted")
	}
	c.kinds = append(c.kinds, "rt_reconnect_"+outcome)
	c.nontrivial = true
	c.input = fmt.Sprintf("egress rt-reconnect: pools [dead,live] [dead,dead,live] W%dx%d primary=%v secondary=%v reconnect_errors=%d -> %s",
		n, l, okA, okB, e.stats.reconnectErrors.Load(), outcome)
	out = append(out, c)

	// the real tcpSender.reconnect() on a pool of refusing addresses: which address each attempt dials
	dead := []string{vrtDeadAddr(), vrtDeadAddr(), vrtDeadAddr()}
	cfg := EgressConfig{HostTag: hostTag, DialTimeout: time.Second}
	cfg.fillDefaults()
	for head := 0; head < 3; head++ {
		s := &tcpSender{cfg: cfg, stats: &egressStatsAtomic{}, pool: addressPool{addrs: dead, head: head}}
		var obs []int64
		tried := map[int64]bool{}
		for k := 0; k < 5; k++ {
			_, err := s.reconnect()
			idx := int64(-1)
			if err != nil {
				for i, a := range dead {
					if strings.Contains(err.Error(), a) {
						idx = int64(i)
					}
				}
			}
			obs = append(obs, idx)
			if k < len(dead) {
				tried[idx] = true
			}
		}
		pc := vrtCase{term: fmt.Sprintf("CPicks %d %d %s", len(dead), head, vu.ListZ(obs)), kinds: []string{"reconnect_picks"}, nontrivial: true,
			input: fmt.Sprintf("egress reconnect-picks n=%d head=%d -> %v", len(dead), head, obs)}
		if len(tried) != len(dead) {
			// an address of the pool is never tried within len(pool) attempts
			pc.fails = append(pc.fails, "egress_packet_not_forwarded_after_upstream_failure")
		}
		out = append(out, pc)
	}
	return out
}

func TestVerifEgressRT(t *testing.T) {
	outDir := os.Getenv("VERIF_OUT")
	if outDir == "" {
		t.Skip("VERIF_OUT not set")
	}
	seed, _ := strconv.ParseUint(os.Getenv("VERIF_SEED"), 10, 64)
	o := vu.NewOut(outDir)
	defer o.Close()
	reconCh := make(chan []vrtCase, 1)
	go func() { reconCh <- vrtReconnectScenario() }()
	defer func() {
		for _, c := range <-reconCh {
			line := o.Case(c.input, c.term, c.nontrivial, c.kinds...)
			for _, f := range c.fails {
				o.Fail(f, line, c.input)
			}
		}
		// addressPool.pick itself
		r := vu.NewRng(seed)
		for i := 0; i < 8; i++ {
			n := 1 + r.Intn(5)
			p := addressPool{head: r.Intn(n)}
			for j := 0; j < n; j++ {
				p.addrs = append(p.addrs, strconv.Itoa(j))
			}
			head := p.head
			var obs []int64
			for k := 0; k < 2*n+1; k++ {
				a, _ := p.pick()
				x, _ := strconv.Atoi(a)
				obs = append(obs, int64(x))
			}
			o.Case(fmt.Sprintf("egress picks n=%d head=%d", n, head), fmt.Sprintf("CPicks %d %d %s", n, head, vu.ListZ(obs)), n > 1, "picks")
		}
	}()
	partialCh := make(chan vrtPartialResult, 1)
	go func() { partialCh <- vrtPartialScenario() }()
	defer func() {
		pr := <-partialCh
		line := o.Case(pr.input, "CRetry (-1)", len(pr.fails) > 0 || pr.kinds[len(pr.kinds)-1] == "rt_partial_clean", pr.kinds...)
		for _, f := range pr.fails {
			o.Fail(f, line, pr.input)
		}
	}()

	ln, err := net.Listen("tcp", "127.0.0.1:0")
	if err != nil {
		t.Fatal(err)
	}
	up := &vrtUpstream{ln: ln}
	const hostTag = "verif"
	go up.serve(hostTag)
	e := NewEgress(EgressConfig{Address: ln.Addr().String(), HostTag: hostTag, ReconnectDelay: 200 * time.Millisecond})
	h := newHandler(e)
	defer func() {
		h.Close()
		_ = e.Close()
		_ = ln.Close()
	}()

	batch := bufferLen * 20 / 100
	const l = 24
	next := int64(1)
	fails := map[string]bool{}
	var fwd, drp uint64
	push := func() (first int64) {
		first = next
		for i := 0; i < batch; i++ {
			_ = h.HandleMetricsBatchRaw(vbBody(next, l))
			next++
		}
		st := e.Stats()
		fwd += st.ForwardedPackets
		drp += st.DroppedPackets
		return first
	}
	checkFrames := func(fr [][]byte, from int64) (ids []int64) {
		last := int64(0)
		for _, f := range fr {
			if len(f) != l || binary.LittleEndian.Uint32(f) != l-pktHeadLen {
				fails["egress_bytes_corrupted"] = true
				continue
			}
			id := int64(binary.LittleEndian.Uint64(f[pktHeadLen:]))
			if string(f[pktHeadLen:]) != string(vbBody(id, l)) {
				fails["egress_bytes_corrupted"] = true
			}
			if id <= last || id < from {
				fails["egress_order_violated"] = true
			}
			last = id
			ids = append(ids, id)
		}
		return ids
	}

	kinds := []string{"rt"}
	received := func() int {
		n := 0
		for i := 0; ; i++ {
			c := up.conn(i)
			if c == nil {
				return n
			}
			n += c.count()
		}
	}
	// The code as it is leaves packets in the buffer until the next push once the swap timer has fired (F-C31):
	// a single extra packet every 1.3 s makes the sender hand over everything, with and without that defect.
	flushAll := func(lost int) bool {
		for try := 0; try < 8; try++ {
			if vrtWait(1300*time.Millisecond, func() bool { return received()+lost >= int(next-1) }) {
				return true
			}
			_ = h.HandleMetricsBatchRaw(vbBody(next, l))
			next++
		}
		return vrtWait(1300*time.Millisecond, func() bool { return received()+lost >= int(next-1) })
	}
	// phase 1: a batch arrives completely and in order on the first connection
	push()
	c1ok := flushAll(0)
	if !c1ok {
		fails["egress_packet_lost"] = true // healthy connection, idle traffic
	} else {
		ids := checkFrames(up.conn(0).frames, 1)
		if len(ids) != int(next-1) || ids[0] != 1 {
			fails["egress_order_violated"] = true
		}
	}
	// the upstream resets the connection; the sender is idle (inside the batch wait)
	if c := up.conn(0); c != nil {
		if tc, ok := c.c.(*net.TCPConn); ok {
			_ = tc.SetLinger(0)
		}
		_ = c.c.Close()
	}
	time.Sleep(700 * time.Millisecond)
	// phase 2: the next write fails with nothing written, the sender dials again and retries
	firstAfter := next
	outcome := "inconclusive"
	off := int64(-1)
	if c1ok {
		push()
		// everything pushed after the reset, except possibly the packet whose write failed, arrives on connection 2
		done := flushAll(1)
		time.Sleep(300 * time.Millisecond)
		if int(next-1)-received() > 1 {
			done = false
		}
		if c := up.conn(1); c != nil && c.count() > 0 {
			c.mu.Lock()
			got := checkFrames(c.frames, firstAfter)
			c.mu.Unlock()
			for i := range got {
				if got[i] != got[0]+int64(i) {
					fails["egress_order_violated"] = true
				}
			}
			switch got[0] {
			case firstAfter:
				outcome, off = "gone", 0
			case firstAfter + 1:
				outcome, off = "reproduced", 1
				fails["egress_accepted_packet_skipped_after_write_error"] = true
				kinds = append(kinds, "F-C31b_skipped")
			default:
				fails["egress_packet_lost"] = true
			}
			if !done || int(got[len(got)-1]) != int(next-1) {
				fails["egress_packet_lost"] = true
			}
		}
	}
	st := e.Stats()
	fwd += st.ForwardedPackets
	drp += st.DroppedPackets
	kinds = append(kinds, "rt_"+outcome)
	if outcome != "inconclusive" {
		o.Finding("F-C31b", outcome)
	}
	if fwd+drp != uint64(next-1) || drp != 0 {
		fails["egress_packet_not_counted"] = true
	}
	input := fmt.Sprintf("egress rt: W%dx%d RST W%dx%d EA@0+0 retry -> %s", batch, l, batch, l, outcome)
	term := "CRetry " + vu.Z(off)
	line := o.Case(input, term, outcome != "inconclusive", kinds...)
	for f := range fails {
		o.Fail(f, line, input)
	}
}
